(* Tree/IndexProofsMoveCrossOp.v — C04/C05: ElementRaw::move_element_full (a subtree moves to another model) keeps
   TreeFacts /\ Inv04 /\ Inv05.
   The run is executed symbolically: snapshot of the walk (dfs_ids, named_paths, ref_texts), detach, the two clean-up loops on
   the maps of the source model (exactly apply_plan), re-parenting, the unique name in the destination, registration of the
   identifiable elements (fold of addid_step), the reference loop (rewrites + exact referrer lists: addo_all), insertion.
   The final world is the relocated world of Tree/IndexProofsMoveCross.v.
   Needed from the world: RefStr (reference elements hold strings: Tree/IndexProofsNodeInv.v, an invariant of all 26
   operations) so that the texts `character_data().to_string()` of the snapshot are the reference texts. *)
From Coq Require Import Lia PeanoNat.
From AV Require Import Base.Bytes Base.Outcome Hash.HashModel Tree.Heap Tree.Ops Tree.Script Tree.IndexProofsW
  Tree.Index Tree.IndexProofsBase Tree.IndexProofsAssoc Tree.IndexProofsFrame Tree.IndexProofsAttach
  Tree.IndexProofsTree Tree.IndexProofsCreate Tree.IndexProofsNamed Tree.IndexProofsEdit Tree.Refs Tree.RefsProofsBase Tree.RefsProofs
  Tree.Follow Tree.FollowProofsPath Tree.FollowProofsLoop Tree.FollowProofsLoopG Tree.FollowProofsRename Tree.FollowProofsTree
  Tree.FollowProofsMove Tree.FollowProofsIter Tree.FollowProofsContainer Tree.FollowProofsCross
  Tree.IndexProofsRemove Tree.IndexProofsRemoveOp Tree.IndexProofsMoveTree Tree.IndexProofsMoveOp Tree.IndexProofsReg Tree.Fail Tree.FailProofsMove
  Tree.RefsAll Tree.IndexProofsMoveCross Tree.IndexProofsRename Tree.IndexProofsRenameOps Tree.IndexProofsSetName Tree.RefsProofsSetName.
Open Scope string_scope.
Open Scope list_scope.
Open Scope N_scope.

Ltac wk H := lazymatch type of H with
  | wbind ?m ?k ?w = Val (OK ?r, ?w') =>
    let a := fresh "a" in let w1 := fresh "w" in let E := fresh "E" in let e := fresh "e" in let Q := fresh "Q" in
    apply wbind_inv in H as [(a & w1 & E & H) | (e & E & Q)]; [ try ro_subst E | discriminate Q ]
  end.

Lemma nodup_app2 {A} (a b : list A) : NoDup a -> NoDup b -> (forall x, In x a -> In x b -> False) -> NoDup (a ++ b).
Proof.
  induction a as [|x a IH]; intros Ha Hb Hd; [exact Hb|]. inversion Ha as [|? ? Hx Ha']; subst. cbn. constructor.
  - intros Hin. apply in_app_or in Hin as [Hin|Hin]; [contradiction|]. eapply Hd; [left; reflexivity|exact Hin].
  - apply IH; auto. intros y H1 H2. eapply Hd; [right; exact H1|exact H2].
Qed.

(* ---------- records *)
Lemma set_idents_same x : set_idents x (m_idents x) = x.
Proof. destruct x; reflexivity. Qed.
Lemma set_origins_same x : set_origins x (m_origins x) = x.
Proof. destruct x; reflexivity. Qed.

(* ---------- a loop whose body rewrites model m *)
Section ModelLoop.
Variable m : N.
Variable A : Type.
Variable g : A -> model -> model.
Variable body : A -> W unit.
Hypothesis body_ok : forall a w w' x, model_at w m = Some x -> body a w = Val (OK tt, w') ->
  w' = mkWorld (w_nodes w) (w_next w) (w_files w) (list_set (w_models w) (N.to_nat m) (g a x)).
Variable each : list A -> W unit.
Hypothesis each_nil : each [] = wret tt.
Hypothesis each_cons : forall a r, each (a :: r) = (body a;; each r)%W.

Lemma model_loop : forall L w x w', model_at w m = Some x -> each L w = Val (OK tt, w') ->
  w' = mkWorld (w_nodes w) (w_next w) (w_files w) (list_set (w_models w) (N.to_nat m) (fold_left (fun y a => g a y) L x)).
Proof.
  induction L as [|a L IH]; intros w x w' Hx H.
  - rewrite each_nil in H. apply wret_inv in H as (_ & ->). cbn [fold_left]. rewrite list_set_same by exact Hx. destruct w; reflexivity.
  - rewrite each_cons in H. apply wbind_inv in H as [(u & w1 & E & H)|(e & _ & [=])]. destruct u.
    pose proof (body_ok _ _ _ _ Hx E) as Ew. subst w1.
    assert (Hx1 : model_at (mkWorld (w_nodes w) (w_next w) (w_files w) (list_set (w_models w) (N.to_nat m) (g a x))) m = Some (g a x)).
    { unfold model_at. cbn [w_models]. eapply list_set_nth_eq. exact Hx. }
    rewrite (IH _ _ _ Hx1 H). cbn [w_nodes w_next w_files w_models fold_left]. rewrite list_set_twice. reflexivity.
Qed.
End ModelLoop.

(* the pure folds *)
Lemma fold_rmid {B} (L : list (list N * B)) : forall x,
  fold_left (fun y a => set_idents y (assoc_swap_remove (fst a) (m_idents y))) L x =
  set_idents x (fold_left (fun l k => assoc_swap_remove k l) (map fst L) (m_idents x)).
Proof.
  induction L as [|a L IH]; intros x; cbn [fold_left map]; [symmetry; apply set_idents_same|].
  rewrite IH. destruct x; reflexivity.
Qed.
Lemma fold_rmor (L : list (list N * id)) : forall x,
  fold_left (fun y a => set_origins y (remove_origin (fst a) (snd a) (m_origins y))) L x =
  set_origins x (fold_left (fun l pr => remove_origin (fst pr) (snd pr) l) L (m_origins x)).
Proof.
  induction L as [|a L IH]; intros x; cbn [fold_left]; [symmetry; apply set_origins_same|].
  rewrite IH. destruct x; reflexivity.
Qed.
Lemma fold_addid src dest (L : list (list N * id)) : forall x,
  fold_left (fun y pe => match strip_prefix src (fst pe) with
                         | Some suf => set_idents y (assoc_insert (dest ++ suf) (snd pe) (m_idents y))
                         | None => y end) L x =
  set_idents x (fold_left (addid_step src dest) L (m_idents x)).
Proof.
  induction L as [|a L IH]; intros x; cbn [fold_left]; [symmetry; apply set_idents_same|].
  rewrite IH.
  assert (Hs : addid_step src dest (m_idents x) a =
               match strip_prefix src (fst a) with Some suf => assoc_insert (dest ++ suf) (snd a) (m_idents x) | None => m_idents x end)
    by reflexivity.
  rewrite Hs. destruct (strip_prefix src (fst a)); destruct x; reflexivity.
Qed.
Lemma fold_addo (f : list N -> list N) (L : list (list N * id)) : forall x,
  fold_left (fun y e => set_origins y (add_origin (f (fst e)) (snd e) (m_origins y))) L x =
  set_origins x (addo_all (map (fun e => (f (fst e), snd e)) L) (m_origins x)).
Proof.
  induction L as [|a L IH]; intros x; cbn [fold_left map]; [symmetry; apply set_origins_same|].
  rewrite IH. unfold addo_all. cbn [fold_left fst snd]. destruct x; reflexivity.
Qed.

(* the index after registering: a key is written by an entry of the snapshot, or keeps its value *)
Lemma addid_cases src dest (L I : list (list N * id)) k :
  (forall p1 e1 p2 e2 s1 s2, In (p1, e1) L -> In (p2, e2) L -> strip_prefix src p1 = Some s1 -> strip_prefix src p2 = Some s2 ->
     dest ++ s1 = dest ++ s2 -> e1 = e2) ->
  (exists p e suf, In (p, e) L /\ strip_prefix src p = Some suf /\ dest ++ suf = k /\
                   assoc_get k (fold_left (addid_step src dest) L I) = Some e)
  \/ ((forall p e suf, In (p, e) L -> strip_prefix src p = Some suf -> dest ++ suf <> k) /\
      assoc_get k (fold_left (addid_step src dest) L I) = assoc_get k I).
Proof.
  intros Hfun. destruct (addid_fold src dest L I Hfun k) as (H1 & H2).
  destruct (existsb (fun pe => match strip_prefix src (fst pe) with Some s => bytes_eqb (dest ++ s) k | None => false end) L) eqn:Ex.
  - left. apply existsb_exists in Ex as ((p', e') & Hin' & Hm). cbn [fst] in Hm.
    destruct (strip_prefix src p') as [s'|] eqn:Es'; [|discriminate Hm]. apply bytes_eqb_spec in Hm.
    exists p', e', s'. repeat split; auto. eapply H1; eauto.
  - right. assert (Hnone : forall p e suf, In (p, e) L -> strip_prefix src p = Some suf -> dest ++ suf <> k).
    { intros p e suf Hin Hs Hk.
      assert (existsb (fun pe => match strip_prefix src (fst pe) with Some s => bytes_eqb (dest ++ s) k | None => false end) L = true); [|congruence].
      apply existsb_exists. exists (p, e). split; [exact Hin|]. cbn [fst]. rewrite Hs. apply bytes_eqb_spec. exact Hk. }
    split; [exact Hnone|]. exact (H2 Hnone).
Qed.
Lemma addid_nodup src dest (L : list (list N * id)) : forall I, NoDupKeys I -> NoDupKeys (fold_left (addid_step src dest) L I).
Proof.
  induction L as [|a L IH]; intros I H; [exact H|]. cbn [fold_left]. apply IH. unfold addid_step.
  destruct (strip_prefix src (fst a)); [apply nodup_insert; exact H|exact H].
Qed.

Section MoveX.
Variable T : tables.
Variable tab_el tab_en : nametab.
Variable check_fn : N -> list N -> res bool.
Variable LATEST : N.
Hypothesis TK : TablesOK T check_fn.
Notation Inv04 := (Inv04 T check_fn).
Notation SHORTN := (name_short_name T).
Notation J5 := (J5 T check_fn).

(* ---------- the pre-order walk of a tree lists nobody twice *)
Lemma dfs_nodup w (HT : TreeFacts w) f : forall a ids, dfs_ids f a w = Val (OK ids, w) -> NoDup ids.
Proof.
  induction f as [|f IH]; intros a ids H; [discriminate H|]. cbn [dfs_ids] in H.
  wk H. apply get_node_inv in E as (n & Hn & Q & _). injection Q as ->.
  wk H. apply wret_inv in H as ([= ->] & _).
  assert (Hsib : forall u v, child_of w a u -> child_of w a v -> u <> v -> ~ reach T w u v).
  { intros u v Hu Hv Huv Hr. apply (reach_inv T) in Hr as [Eq|(p & Hup & Hc)]; [contradiction|].
    assert (p = a) by (eapply child_parent_unique; eauto). subst p. destruct Hup as (q & Hd).
    eapply (not_below_self T w a u q); eauto. }
  match type of E with ?kids _ _ = _ =>
    assert (Hk : forall l res wz, kids l w = Val (OK res, wz) -> NoDup (elem_ids l) -> (forall c, In (CElem c) l -> child_of w a c) ->
                 wz = w /\ NoDup res /\ forall y, In y res -> exists c0, In (CElem c0) l /\ creach w c0 y) end.
  { clear E. induction l as [|[c1|d] l IHl]; intros res wz Hr Hnd Hch.
    - apply wret_inv in Hr as ([= ->] & ->). split; [reflexivity|]. split; [constructor|intros y []].
    - wk Hr. wk Hr. cbn [elem_ids] in Hnd. inversion Hnd as [|? ? Hni Hnd']; subst.
      match goal with E1 : dfs_ids f c1 w = Val (OK ?x, w), E2 : _ l w = Val (OK ?y, _) |- _ =>
        rename E1 into Ea; rename x into ra; rename E2 into Eb; rename y into rb end.
      destruct (IHl _ _ Eb Hnd' (fun c Hc => Hch c (or_intror Hc))) as (-> & Nb & Sb).
      apply wret_inv in Hr as ([= ->] & ->). split; [reflexivity|].
      pose proof (IH c1 ra Ea) as Na. split.
      + apply nodup_app2; [exact Na|exact Nb|]. intros y Hya Hyb.
        destruct (Sb y Hyb) as (c0 & Hc0 & Hr0). assert (Hr1 : creach w c1 y) by (eapply dfs_sound; eauto).
        apply (creach_reach T) in Hr0, Hr1.
        assert (Hne : c1 <> c0) by (intros ->; apply Hni; apply in_elem_ids; exact Hc0).
        assert (Hp1 : child_of w a c1) by (apply Hch; left; reflexivity).
        assert (Hp0 : child_of w a c0) by (apply Hch; right; exact Hc0).
        destruct (reach_comparable T w c1 c0 y HT Hr1 Hr0) as [Hc|Hc]; [eapply Hsib; [exact Hp1|exact Hp0|exact Hne|exact Hc]|].
        eapply Hsib; [exact Hp0|exact Hp1|apply not_eq_sym; exact Hne|exact Hc].
      + intros y Hy. apply in_app_or in Hy as [Hy|Hy].
        * exists c1. split; [left; reflexivity|eapply dfs_sound; eauto].
        * destruct (Sb y Hy) as (c0 & Hc0 & Hr0). exists c0. split; [right; exact Hc0|exact Hr0].
    - cbn [elem_ids] in Hnd. destruct (IHl _ _ Hr Hnd (fun c Hc => Hch c (or_intror Hc))) as (-> & Nb & Sb).
      split; [reflexivity|]. split; [exact Nb|].
      intros y Hy. destruct (Sb y Hy) as (c0 & Hc0 & Hr0). exists c0. split; [right; exact Hc0|exact Hr0]. }
  destruct (Hk _ _ _ E (tf_nodup _ HT _ _ Hn) (fun c Hc => ex_intro _ n (conj Hn Hc))) as (_ & Nr & Sr).
  constructor; [|exact Nr]. intros Hin. destruct (Sr a Hin) as (c0 & Hc0 & Hr0). apply (creach_reach T) in Hr0.
  destruct Hr0 as (q & Hd). eapply (not_below_self T w a c0 q); eauto. exists n. auto.
Qed.

(* the entries of the reference snapshot belong to distinct elements *)
Lemma ref_texts_ids w : forall ids L, ref_texts T tab_en ids w = Val (OK L, w) ->
  forall i, In i (map snd L) -> In i ids.
Proof.
  intros ids L H i Hi. apply in_map_iff in Hi as ((s & j) & <- & Hin). exact (proj1 (ref_texts_sound T tab_en w ids L H s j Hin)).
Qed.
Lemma ref_texts_nodup w : forall ids L, ref_texts T tab_en ids w = Val (OK L, w) -> NoDup ids -> NoDup (map snd L).
Proof.
  induction ids as [|i ids IH]; intros L H Hnd.
  - apply wret_inv in H as ([= ->] & _). constructor.
  - inversion Hnd as [|? ? Hni Hnd']; subst. cbn [ref_texts] in H.
    wk H. apply get_node_inv in E as (ni & Hni0 & Q & _). injection Q as ->.
    wk H. apply wl_inv in E as (b & Hb & Q & _). injection Q as ->.
    wk H. match goal with E : ref_texts T tab_en ids w = Val (OK ?r, w) |- _ => rename E into Erest; rename r into rest end.
    pose proof (IH rest Erest Hnd') as Nr.
    destruct b.
    + wk H. destruct a as [d|].
      * wk H. apply wret_inv in H as ([= ->] & _). cbn [map snd]. constructor; [|exact Nr].
        intros Hin. apply Hni. eapply ref_texts_ids; eauto.
      * apply wret_inv in H as ([= ->] & _). exact Nr.
    + apply wret_inv in H as ([= ->] & _). exact Nr.
Qed.

Lemma nocollision_x_sound isrc idst src dest :
  nocollision_x isrc idst src dest = true ->
  forall k suf (x : id), assoc_get k isrc = Some x -> k = src ++ suf -> suf <> [] -> assoc_get (dest ++ suf) idst = None.
Proof.
  intros H k suf x Hk -> Hne. unfold nocollision_x in H. rewrite forallb_forall in H.
  apply assoc_get_in in Hk. specialize (H _ Hk). cbn [fst] in H. rewrite strip_prefix_app in H.
  destruct suf as [|c t]; [contradiction|]. destruct (assoc_get (dest ++ c :: t) idst); [discriminate H|reflexivity].
Qed.

Lemma nodup_map_filter {A B} (f : A -> B) (g : A -> bool) l : NoDup (map f l) -> NoDup (map f (filter g l)).
Proof.
  induction l as [|a l IH]; intros H; [constructor|]. cbn in H. inversion H as [|? ? Hni Hnd]; subst. cbn [filter].
  destruct (g a); [|apply IH; exact Hnd]. cbn. constructor; [|apply IH; exact Hnd].
  intros Hin. apply Hni. apply in_map_iff in Hin as (y & Hy & Hin). apply filter_In in Hin as (Hin & _). apply in_map_iff. eauto.
Qed.

(* ---------- the reference loop: the referrer map of the destination *)
Section RefLoopX.
Variable m : N.
Variable src dest : list N.
Variable version : N.
Variable inorig : list N -> bool.
Variable each : list (list N * id) -> W unit.
Hypothesis each_nil : each [] = wret tt.
Hypothesis each_cons : forall old_ref re r,
  each ((old_ref, re) :: r) =
  ((if inorig old_ref then
      match strip_prefix src old_ref with
      | Some suffix =>
        raw_set_character_data T check_fn re (DString (dest ++ suffix)) version;;
        add_reference_origin m (dest ++ suffix) re
      | None => add_reference_origin m old_ref re
      end
    else add_reference_origin m old_ref re);; each r)%W.
Notation newtext := (newtext src dest inorig).

Lemma refloop_models : forall L w x w', model_at w m = Some x -> each L w = Val (OK tt, w') ->
  w_models w' = list_set (w_models w) (N.to_nat m)
                  (fold_left (fun y e => set_origins y (add_origin (newtext (fst e)) (snd e) (m_origins y))) L x).
Proof.
  induction L as [|(s0, re) L IH]; intros w x w' Hx H.
  - rewrite each_nil in H. apply wret_inv in H as (_ & ->). cbn [fold_left]. symmetry. apply list_set_same. exact Hx.
  - rewrite each_cons in H. apply wbind_inv in H as [(u & w1 & E & H)|(e0 & _ & [=])]. destruct u.
    assert (Hstep : w_models w1 = list_set (w_models w) (N.to_nat m) (set_origins x (add_origin (newtext s0) re (m_origins x)))).
    { unfold FollowProofsCross.newtext. destruct (inorig s0).
      - destruct (strip_prefix src s0) as [suf|].
        + apply wbind_inv in E as [(u & wa & E1 & E2)|(e0 & _ & [=])]. destruct u.
          destruct (raw_set_cd_ok T check_fn _ _ _ _ _ E1) as (rn & cs & Hrn & _ & _ & ->).
          unfold add_reference_origin in E2. apply modify_model_inv in E2 as (x0 & Hx0 & _ & ->). cbn [w_models] in *.
          assert (x0 = x) by (unfold model_at in Hx; congruence). subst x0. reflexivity.
        + unfold add_reference_origin in E. apply modify_model_inv in E as (x0 & Hx0 & _ & ->). cbn [w_models].
          assert (x0 = x) by (unfold model_at in Hx; congruence). subst x0. reflexivity.
      - unfold add_reference_origin in E. apply modify_model_inv in E as (x0 & Hx0 & _ & ->). cbn [w_models].
        assert (x0 = x) by (unfold model_at in Hx; congruence). subst x0. reflexivity. }
    assert (Hx1 : model_at w1 m = Some (set_origins x (add_origin (newtext s0) re (m_origins x)))).
    { unfold model_at. rewrite Hstep. eapply list_set_nth_eq. exact Hx. }
    rewrite (IH _ _ _ Hx1 H), Hstep, list_set_twice. reflexivity.
Qed.
End RefLoopX.

Lemma rmid_body ms (a : list N * id) w w' x : model_at w ms = Some x -> remove_identifiable ms (fst a) w = Val (OK tt, w') ->
  w' = mkWorld (w_nodes w) (w_next w) (w_files w)
         (list_set (w_models w) (N.to_nat ms) (set_idents x (assoc_swap_remove (fst a) (m_idents x)))).
Proof.
  intros Hx Hb. unfold remove_identifiable in Hb. apply modify_model_inv in Hb as (x0 & Hx0 & _ & ->).
  assert (x0 = x) by (unfold model_at in Hx; congruence). subst x0. reflexivity.
Qed.
Lemma rmor_body ms (a : list N * id) w w' x : model_at w ms = Some x -> remove_reference_origin ms (fst a) (snd a) w = Val (OK tt, w') ->
  w' = mkWorld (w_nodes w) (w_next w) (w_files w)
         (list_set (w_models w) (N.to_nat ms) (set_origins x (remove_origin (fst a) (snd a) (m_origins x)))).
Proof.
  intros Hx Hb. unfold remove_reference_origin in Hb. apply modify_model_inv in Hb as (x0 & Hx0 & _ & ->).
  assert (x0 = x) by (unfold model_at in Hx; congruence). subst x0. reflexivity.
Qed.
Lemma addid_body m src dest (a : list N * id) w w' x : model_at w m = Some x ->
  match strip_prefix src (fst a) with Some suf => add_identifiable m (dest ++ suf) (snd a) | None => wret tt end w = Val (OK tt, w') ->
  w' = mkWorld (w_nodes w) (w_next w) (w_files w)
         (list_set (w_models w) (N.to_nat m)
            (match strip_prefix src (fst a) with
             | Some suf => set_idents x (assoc_insert (dest ++ suf) (snd a) (m_idents x))
             | None => x end)).
Proof.
  intros Hx Hb. destruct (strip_prefix src (fst a)) as [suf|].
  - unfold add_identifiable in Hb. apply modify_model_inv in Hb as (x0 & Hx0 & _ & ->).
    assert (x0 = x) by (unfold model_at in Hx; congruence). subst x0. reflexivity.
  - apply wret_inv in Hb as (_ & ->). rewrite list_set_same by exact Hx. destruct w; reflexivity.
Qed.

(* ---------- move_element_full *)
Theorem move_full_j5 self mv pos m ms version w w' r :
  J5 w -> RefStr T w ->
  move_element_full T tab_en check_fn self mv pos m ms version w = Val (OK r, w') ->
  MReach T w ms mv -> MReach T w m self -> m <> ms ->
  (forall n, w_nodes w self = Some n -> content_mode T (n_type n) <> Val MCharacters) ->
  (N.to_nat pos = O -> identifiable T w self = false) ->
  (forall mn sp, w_nodes w mv = Some mn -> n_parent mn = PElem sp -> remove_front T w sp (N.eqb mv) = false) ->
  is_short_node T w mv = false ->
  (identifiable T w mv = false -> collision_x T w self mv = false) ->
  model_of mv w = Val (OK ms, w) -> model_of self w = Val (OK m, w) ->
  J5 w'.
Proof.
  intros (HT & H4 & H5) HRS H HRmv HRself Hmm Hselfmode Hfd Hfs Hnshort Hcol Hmodmv Hmodself. unfold move_element_full in H.
  wk H. apply get_node_inv in E as (n & Hn & Q & _). injection Q as ->.
  wk H. apply get_node_inv in E as (mn & Hmn & Q & _). injection Q as ->.
  wk H. rename E into Esrc. wk H. rename E into Edst. wk H. rename E into Epar.
  destruct a1 as [sp|]; [|discriminate H].
  wk H. apply wget_inv in E as ([= ->] & _).
  wk H. rename E into Edfs. wk H. rename E into Enp. wk H. rename E into Ert.
  match type of Esrc with _ = Val (OK ?x, _) => rename x into src end.
  match type of Edst with _ = Val (OK ?x, _) => rename x into dpre end.
  match type of Edfs with _ = Val (OK ?x, _) => rename x into ids end.
  match type of Enp with _ = Val (OK ?x, _) => rename x into orig end.
  match type of Ert with _ = Val (OK ?x, _) => rename x into L end.
  destruct (path_unchecked_spec T w ms mv mn HT Hmn HRmv) as (_ & Hps). destruct (Hps _ _ Esrc) as (_ & (src0 & [= <-] & Hsp)).
  destruct (path_unchecked_spec T w m self n HT Hn HRself) as (_ & Hpd). destruct (Hpd _ _ Edst) as (_ & (dp0 & [= <-] & Hdp)).
  destruct HRmv as (xs & Hxs & Hrootmv). pose proof (ex_intro _ xs (conj Hxs Hrootmv) : MReach T w ms mv) as HRmv.
  destruct HRself as (xm & Hxm & Hrootself). pose proof (ex_intro _ xm (conj Hxm Hrootself) : MReach T w m self) as HRself.
  assert (Hpar : n_parent mn = PElem sp).
  { unfold parent_of in Epar. destruct (n_parent mn); try discriminate Epar. apply wret_inv in Epar as ([= ->] & _). reflexivity. }
  assert (Hmsp : mv <> sp) by (intros <-; exact (no_self_parent w mv mn HT Hmn Hpar)).
  assert (Hids_D : forall j, In j ids <-> reach T w mv j).
  { intros j. split; [intros Hj; apply (creach_reach T); eapply dfs_sound; eauto|intros Hj; eapply dfs_covers; [apply (reach_creach T); exact Hj|exact Edfs]]. }
  pose proof (dfs_nodup w HT _ _ _ Edfs) as Hids_nd.
  assert (HD_ms : forall j, reach T w mv j -> MReach T w ms j).
  { intros j Hj. exists xs. split; [exact Hxs|eapply reach_trans; eauto]. }
  assert (Hmodel_fun : forall j m1 m2, MReach T w m1 j -> MReach T w m2 j -> m1 = m2).
  { intros j m1 m2 H1 H2. destruct (mreach_specpath T _ _ _ H1) as (p1 & S1). destruct (mreach_specpath T _ _ _ H2) as (p2 & S2).
    exact (proj1 (specpath_fun T _ _ _ _ _ _ HT S1 S2)). }
  assert (Hself_out : ~ reach T w mv self) by (intros Hr; apply Hmm; exact (Hmodel_fun self m ms HRself (HD_ms self Hr))).
  assert (Hsm : self <> mv) by (intros ->; apply Hself_out; apply reach_refl).
  assert (Hchild_sp : child_of w sp mv) by (eapply tf_down; eauto).
  assert (HRsp : MReach T w ms sp).
  { exists xs. split; [exact Hxs|]. apply (reach_inv T) in Hrootmv as [Eq|(p & Hp & Hc)].
    - exfalso. destruct (tf_roots _ HT _ _ Hxs) as (nr & Hnr & Hpr). rewrite Eq, Hmn in Hnr. injection Hnr as <-. congruence.
    - assert (p = sp) by (eapply child_parent_unique; eauto). subst p. exact Hp. }
  assert (Hself_sp : self <> sp) by (intros ->; apply Hmm; exact (Hmodel_fun sp m ms HRself HRsp)).
  destruct (mreach_specpath T _ _ _ HRsp) as (spp & Hspp).
  assert (Hsrc_eq : src = spp ++ seg T w mv).
  { destruct Hspp as (y & Hy & (q0 & Hd0 & Eq)).
    assert (Hsp2 : SpecPath T w ms mv (spp ++ seg T w mv)).
    { exists y. split; [exact Hy|]. exists (q0 ++ seg T w mv). split; [econstructor; [exact Hd0|exact Hchild_sp]|]. rewrite Eq, app_assoc. reflexivity. }
    exact (proj2 (specpath_fun T _ _ _ _ _ _ HT Hsp Hsp2)). }
  pose proof (slashfree_names T w (i4_slash _ _ _ H4)) as HNS.
  (* the snapshot of paths *)
  assert (Htodo : forall k x, In (k, x) orig ->
            assoc_get k (m_idents xs) = Some x /\ reach T w mv x /\ identifiable T w x = true /\ SpecPath T w ms x k).
  { intros k x Hin.
    destruct (named_paths_sound T w ids orig Enp k x Hin) as (Hxi & nx & Hnx & Hpx).
    assert (Hrx : reach T w mv x) by (apply Hids_D; exact Hxi).
    assert (HRx : MReach T w ms x) by (apply HD_ms; exact Hrx).
    destruct (path_of_spec T w ms x nx HT Hnx HRx) as (_ & Hps2). destruct (Hps2 _ _ Hpx) as (_ & Hif).
    destruct (identifiable T w x) eqn:Eix; [|discriminate Hif]. destruct Hif as (p0 & [= <-] & Hspx).
    split; [|auto]. apply (i4_exact _ _ _ H4 ms xs Hxs). split; [exact HRx|]. split; assumption. }
  assert (Hcov : forall p x, assoc_get p (m_idents xs) = Some x -> reach T w mv x -> In (p, x) orig).
  { intros p x Hgx Hrx. pose proof (proj1 (i4_exact _ _ _ H4 ms xs Hxs p x) Hgx) as (HRx & Hidx & Hspx).
    unfold identifiable in Hidx. destruct (w_nodes w x) as [nx|] eqn:Hnx; [|discriminate Hidx].
    assert (Hnmd : is_named T (n_type nx) = Val true).
    { unfold identifiable_n in Hidx. apply andb_true_iff in Hidx as (Hnm & _). unfold named in Hnm.
      destruct (is_named T (n_type nx)) as [[|]| |]; try discriminate Hnm. reflexivity. }
    assert (Hxi : In x ids) by (apply Hids_D; exact Hrx).
    destruct (named_paths_val T w ids orig Enp x nx Hxi Hnx Hnmd) as (r0 & Hr0).
    destruct (path_of_spec T w ms x nx HT Hnx HRx) as (_ & Hps2). destruct (Hps2 _ _ Hr0) as (_ & Hif).
    assert (Hidx2 : identifiable T w x = true) by (unfold identifiable; rewrite Hnx; exact Hidx).
    rewrite Hidx2 in Hif. destruct Hif as (p0 & -> & Hsp0).
    destruct (specpath_fun T w ms ms x _ _ HT Hspx Hsp0) as (_ & <-).
    eapply named_paths_covers; eauto. }
  (* the path of an element of the subtree *)
  assert (HDpath : forall j q, dpath T w mv j q -> SpecPath T w ms j (src ++ q)).
  { intros j q Hd. destruct Hsp as (y & Hy & (q0 & Hd0 & Eq)). exists y. split; [exact Hy|]. exists (q0 ++ q).
    split; [eapply dpath_trans; eauto|]. rewrite Eq, app_assoc. reflexivity. }
  (* the snapshot of references *)
  assert (HL : forall s0 j, In (s0, j) L <-> reach T w mv j /\ ref_text T w j = Some s0).
  { intros s0 j. split.
    - intros Hin. destruct (ref_texts_sound T tab_en w ids L Ert s0 j Hin) as (Hj & (nj & d & Hnj & Hisr & Hcd & Hstr)).
      split; [apply Hids_D; exact Hj|]. unfold ref_text. rewrite Hnj. unfold isref. rewrite Hisr. unfold cdata_of. rewrite Hcd.
      destruct (HRS j nj d Hnj) as (t & ->); [unfold isref; rewrite Hisr; reflexivity|unfold cdata_of; rewrite Hcd; reflexivity|].
      cbn in Hstr. injection Hstr as ->. reflexivity.
    - intros (Hj & Hr). eapply (ref_texts_covers T tab_en); eauto. apply Hids_D. exact Hj. }
  pose proof (ref_texts_nodup w ids L Ert Hids_nd) as HL_nd.
  (* detach *)
  wk H. rename E into Edet. unfold detach_from in Edet. wk Edet.
  apply get_node_inv in E as (pn & Hpn & Q & _). injection Q as ->.
  destruct (index_of (citem_is mv) (n_content pn)) as [kpos|] eqn:Eidx; [|discriminate Edet].
  apply set_node_inv in Edet as (_ & ->).
  (* the two clean-up loops in the source model *)
  wk H. rename E into Erm1. match type of Erm1 with _ = Val (OK ?u, _) => destruct u end.
  eapply (model_loop ms _ _ _ (rmid_body ms)) with (x := xs) in Erm1; [|reflexivity|intros [? ?] ?; reflexivity|exact Hxs].
  match type of Erm1 with ?wb = _ => subst wb end. cbn [w_nodes w_next w_files w_models] in H.
  wk H. rename E into Erm2. match type of Erm2 with _ = Val (OK ?u, _) => destruct u end.
  eapply (model_loop ms _ _ _ (rmor_body ms)) in Erm2; [|reflexivity|intros [? ?] ?; reflexivity|unfold model_at; cbn [w_models]; eapply list_set_nth_eq; exact Hxs].
  match type of Erm2 with ?wb = _ => subst wb end. cbn [w_nodes w_next w_files w_models] in H.
  rewrite list_set_twice, fold_rmor, fold_rmid in H.
  set (K := map fst orig) in *.
  assert (Hplan : set_origins (set_idents xs (fold_left (fun l k => assoc_swap_remove k l) K (m_idents xs)))
                    (fold_left (fun l pr => remove_origin (fst pr) (snd pr) l) L
                       (m_origins (set_idents xs (fold_left (fun l k => assoc_swap_remove k l) K (m_idents xs))))) = apply_plan xs K L)
    by reflexivity.
  rewrite Hplan in H. clear Hplan.
  set (pn1 := set_content pn (remove_at (n_content pn) kpos)) in *.
  set (M1 := list_set (w_models w) (N.to_nat ms) (apply_plan xs K L)) in *.
  (* re-parent *)
  wk H. apply modify_node_inv in E as (n1 & Hn1 & _ & ->). cbn [w_nodes] in Hn1. rewrite upd_neq in Hn1 by exact Hmsp.
  assert (n1 = mn) by congruence. subst n1. clear Hn1.
  wk H. apply get_node_inv in E as (mn2 & Hmn2 & Q & _). injection Q as ->.
  cbn [w_nodes] in Hmn2. rewrite upd_eq in Hmn2. injection Hmn2 as <-.
  cbn [w_nodes w_next w_files w_models] in H.
  match type of H with wbind _ _ ?ww = _ => set (w2 := ww) in * end.
  assert (Hw2names : forall i, option_map n_name (w_nodes w2 i) = option_map n_name (w_nodes w i)).
  { intros i. unfold w2. cbn [w_nodes]. unfold upd.
    destruct (i =? mv) eqn:Ei1; [apply N.eqb_eq in Ei1; subst i; rewrite Hmn; reflexivity|].
    destruct (i =? sp) eqn:Ei2; [apply N.eqb_eq in Ei2; subst i; rewrite Hpn; reflexivity|reflexivity]. }
  wk H. apply (is_identifiable_val T) in E as (_ & [= ->]).
  rewrite (identifiable_n_same T w w2 mn (set_parent mn (PElem self)) Hw2names eq_refl eq_refl) in H.
  set (idf := identifiable_n T w mn) in *.
  assert (Hidf : identifiable T w mv = idf) by (unfold identifiable; rewrite Hmn; reflexivity).
  set (s := match n_content mn with CElem s0 :: _ => s0 | _ => 0 end).
  assert (Hs : idf = true -> exists rest0 sn, n_content mn = CElem s :: rest0 /\ w_nodes w s = Some sn /\ n_name sn = SHORTN).
  { intros Hi. unfold idf, identifiable_n in Hi. apply andb_true_iff in Hi as (_ & Hsc). unfold short_child in Hsc. unfold s.
    destruct (n_content mn) as [|[s0|d0] rest0]; try discriminate Hsc.
    destruct (w_nodes w s0) as [sn|] eqn:Hsn; [|discriminate Hsc].
    destruct (n_name sn =? SHORTN) eqn:Esn; [|discriminate Hsc]. apply N.eqb_eq in Esn. eauto. }
  assert (Hxm2 : model_at w2 m = Some xm).
  { unfold model_at, w2, M1. cbn [w_models]. rewrite list_set_nth_neq by lia. exact Hxm. }
  (* the destination path *)
  wk H. rename E into Edest.
  match type of Edest with _ = Val (OK ?d, ?ww) => rename d into dest; rename ww into w3 end.
  assert (Hd : exists nm, dest = dpre ++ (if idf then 47 :: nm else []) /\ ~ In 47 nm /\
             (idf = true -> assoc_get dest (m_idents xm) = None) /\
             w_next w3 = w_next w /\ w_files w3 = w_files w /\ w_models w3 = M1 /\
             forall j, w_nodes w3 j = if idf && (j =? s) then option_map (fun sn => set_content sn [CData (DString nm)]) (w_nodes w2 j)
                                      else w_nodes w2 j).
  { destruct idf eqn:Eidf.
    - wk Edest. apply wret_inv in Edest as (Q & ->). injection Q as Q. subst dest.
      match goal with E : make_unique_item_name _ _ _ _ _ = Val (OK ?x, _) |- _ => rename E into Emu; rename x into nm end.
      destruct (Hs eq_refl) as (rest0 & sn & Ecmn & Hsn & Esn).
      assert (Hs_mv : s <> mv).
      { intros Eq. eapply (not_below_self T w mv s []); eauto; [exists mn; rewrite Ecmn; split; [exact Hmn|left; reflexivity]|rewrite Eq; constructor]. }
      assert (Hs_sp : s <> sp).
      { intros Eq. eapply (not_below_self T w sp mv); [exact HT|exact Hchild_sp|]. rewrite <- Eq.
        eapply dp_step with (q := []); [constructor|exists mn; rewrite Ecmn; split; [exact Hmn|left; reflexivity]]. }
      assert (HS2 : SlashFree T w2).
      { intros i ni t Hi Hnm Hcd. unfold w2 in Hi. cbn [w_nodes] in Hi. destruct (N.eq_dec i mv) as [->|H1].
        - rewrite upd_eq in Hi. injection Hi as <-. eapply (i4_slash _ _ _ H4 mv mn); eauto.
        - rewrite upd_neq in Hi by exact H1. destruct (N.eq_dec i sp) as [->|H2].
          + rewrite upd_eq in Hi. injection Hi as <-. cbn in Hnm. exfalso.
            destruct (i4_short _ _ _ H4 _ _ Hpn Hnm) as (Hm & _). pose proof (chars_content_elems _ (i4_leaf _ _ _ H4 _ _ Hpn Hm)) as He.
            pose proof (index_of_citem _ _ _ Eidx) as Hi. apply in_elem_ids in Hi. rewrite He in Hi. destruct Hi.
          + rewrite upd_neq in Hi by exact H2. eapply (i4_slash _ _ _ H4 i ni); eauto. }
      destruct (make_unique_shape T _ _ _ _ _ _ Emu HS2) as (ni & xm0 & orig0 & Hni & Horig & Hxm0 & Hfree & Hnmsf & Hshape).
      assert (ni = set_parent mn (PElem self)) by (unfold w2 in Hni; cbn [w_nodes] in Hni; rewrite upd_eq in Hni; congruence).
      subst ni. assert (xm0 = xm) by congruence. subst xm0.
      assert (Hs2 : w_nodes w2 s = Some sn).
      { unfold w2. cbn [w_nodes]. rewrite !upd_neq by assumption. exact Hsn. }
      exists nm. split; [reflexivity|]. split; [exact Hnmsf|]. split; [intros _; exact Hfree|].
      destruct Hshape as [(-> & ->)|(s0 & rest1 & sn0 & Hc0 & Hs0 & ->)].
      + split; [reflexivity|]. split; [reflexivity|]. split; [reflexivity|]. intros j. cbn [andb].
        destruct (j =? s) eqn:Ejs; [|reflexivity]. apply N.eqb_eq in Ejs. subst j. rewrite Hs2. cbn [option_map]. f_equal.
        symmetry. apply IndexProofsMoveOp.set_content_same.
        assert (Hcd : cdata_of T sn = Some (DString orig0)).
        { unfold item_name_n in Horig. change (n_type (set_parent mn (PElem self))) with (n_type mn) in Horig.
          assert (Hnamed : named T (n_type mn) = true) by (unfold identifiable_n in Eidf; apply andb_true_iff in Eidf as (Hx & _); exact Hx).
          rewrite Hnamed in Horig.
          unfold short_child in Horig. cbn [set_parent n_content] in Horig. rewrite Ecmn, Hs2, Esn, N.eqb_refl in Horig.
          destruct (cdata_of T sn) as [[| x | |]|]; try discriminate. congruence. }
        apply (chars_single T) with (d := DString orig0); [|exact Hcd]. destruct (i4_short _ _ _ H4 _ _ Hsn Esn) as (Hm & _). eapply (i4_leaf _ _ _ H4); eauto.
      + cbn [set_parent n_content] in Hc0. rewrite Ecmn in Hc0. injection Hc0 as <- <-. rewrite Hs2 in Hs0. injection Hs0 as <-.
        cbn [w_nodes w_models w_next w_files]. split; [reflexivity|]. split; [reflexivity|]. split; [reflexivity|]. intros j. cbn [andb].
        destruct (j =? s) eqn:Ejs; [apply N.eqb_eq in Ejs; subst j; rewrite upd_eq, Hs2; reflexivity|].
        apply N.eqb_neq in Ejs. apply upd_neq. exact Ejs.
    - apply wret_inv in Edest as (Q & ->). injection Q as Q. subst dest. exists []. split; [rewrite app_nil_r; reflexivity|]. split; [intros []|].
      split; [discriminate|]. repeat split; reflexivity. }
  destruct Hd as (nm & Hdest & Hnmsf & Hfree & N3 & F3 & Mo3 & Hw3).
  assert (Hxm3 : model_at w3 m = Some xm) by (unfold model_at; rewrite Mo3; exact Hxm2).
  (* registering the identifiable elements *)
  wk H. rename E into Eadd. match type of Eadd with _ = Val (OK ?u, _) => destruct u end.
  eapply (model_loop m _ _ _ (addid_body m src dest)) in Eadd; [|reflexivity|intros [? ?] ?; reflexivity|exact Hxm3].
  rewrite fold_addid in Eadd. match type of Eadd with ?wb = _ => subst wb end.
  set (IDM := fold_left (addid_step src dest) orig (m_idents xm)) in *.
  (* the reference loop *)
  wk H. rename E into Eref. match type of Eref with _ = Val (OK ?u, _) => destruct u end.
  assert (HfunL : forall s1 s2 i, In (s1, i) L -> In (s2, i) L -> s1 = s2).
  { intros s1 s2 i H1 H2. apply HL in H1 as (_ & H1). apply HL in H2 as (_ & H2). congruence. }
  match type of Eref with ?ee _ ?w4 = Val (_, ?w5) =>
    assert (Hx4 : model_at w4 m = Some (set_idents xm IDM)) by (unfold model_at; cbn [w_models]; eapply list_set_nth_eq; exact Hxm3);
    pose proof (refloop_models m src dest version (fun old_ref => existsb (fun p : list N * id => bytes_eqb (fst p) old_ref) orig)
                  ee eq_refl (fun _ _ _ => eq_refl) L w4 _ w5 Hx4 Eref) as Em5;
    destruct (refloop_sem T check_fn m src dest version (fun old_ref => existsb (fun p : list N * id => bytes_eqb (fst p) old_ref) orig)
                ee eq_refl (fun _ _ _ => eq_refl) L w4 _ w5 Hx4 HfunL Eref) as (F1 & F2 & _ & _ & F7 & F8);
    rename w5 into wl
  end.
  cbn [w_nodes w_next w_files w_models] in Em5, F1, F2, F7, F8.
  rewrite list_set_twice, fold_addo, Mo3 in Em5. cbn [set_idents m_origins] in Em5.
  set (inorig := fun old_ref : list N => existsb (fun p : list N * id => bytes_eqb (fst p) old_ref) orig) in *.
  set (NT := newtext src dest inorig) in *.
  set (R' := map (fun e : list N * id => (NT (fst e), snd e)) L) in *.
  set (ORM := addo_all R' (m_origins xm)) in *.
  (* insertion *)
  wk H. rename E into Eins. apply wret_inv in H as (_ & <-).
  unfold content_insert in Eins. wk Eins. apply get_node_inv in E as (n5 & Hn5 & Q & _). injection Q as ->.
  destruct (N.of_nat (List.length (n_content n5)) <? pos) eqn:Elen; [discriminate Eins|].
  apply set_node_inv in Eins as (_ & ->).
  (* the nodes at the end of the loop *)
  set (rtx := fun j : id => if mem_id j ids then
                              match ref_text T w j with
                              | Some s0 => if rewrites src inorig s0 then Some (NT s0) else None
                              | None => None end
                            else None).
  assert (HsD : idf = true -> reach T w mv s).
  { intros Hi. destruct (Hs Hi) as (rest0 & sn & Ecmn & _). eapply reach_step; [apply reach_refl|]. exists mn. rewrite Ecmn. split; [exact Hmn|left; reflexivity]. }
  assert (Hsp_notD : ~ reach T w mv sp).
  { intros (q & Hd). eapply (not_below_self T w sp mv q); eauto. }
  assert (Hout3 : forall j, ~ reach T w mv j -> w_nodes w3 j = w_nodes w2 j).
  { intros j Hj. rewrite Hw3. destruct (idf && (j =? s)) eqn:Eb; [|reflexivity]. apply andb_prop in Eb as (Ei & Ejs).
    apply N.eqb_eq in Ejs. subst j. exfalso. apply Hj. exact (HsD Ei). }
  assert (HoutL : forall j, ~ reach T w mv j -> w_nodes wl j = w_nodes w3 j).
  { intros j Hj. apply F8. intros s0 Hin. apply HL in Hin as (Hd & _). contradiction. }
  assert (Hfin : forall j, w_nodes wl j =
            if j =? sp then Some pn1 else if mem_id j ids then option_map (tr mv self s nm idf rtx j) (w_nodes w j) else w_nodes w j).
  { intros j. destruct (j =? sp) eqn:Ejsp.
    { apply N.eqb_eq in Ejsp. subst j. rewrite (HoutL sp Hsp_notD), (Hout3 sp Hsp_notD). unfold w2. cbn [w_nodes].
      rewrite upd_neq by (apply not_eq_sym; exact Hmsp). apply upd_eq. }
    apply N.eqb_neq in Ejsp. destruct (mem_id j ids) eqn:Emem.
    - pose proof Emem as Hd. apply mem_id_in, Hids_D in Hd.
      assert (Hal : exists nj, w_nodes w j = Some nj).
      { destruct Hd as (q & Hdq). destruct (dpath_alloc T _ _ _ _ Hdq) as [->|(p0 & Hc)]; [eauto|].
        destruct (tf_up _ HT _ _ Hc) as (cn & Hcn & _). eauto. }
      destruct Hal as (nj & Hnj). rewrite Hnj. cbn [option_map].
      assert (Hw2j : w_nodes w2 j = Some (if j =? mv then set_parent mn (PElem self) else nj)).
      { unfold w2. cbn [w_nodes]. destruct (j =? mv) eqn:Ejm; [apply N.eqb_eq in Ejm; subst j; apply upd_eq|].
        apply N.eqb_neq in Ejm. rewrite !upd_neq by assumption. exact Hnj. }
      assert (Hw3j : w_nodes w3 j = Some (if idf && (j =? s) then set_content (if j =? mv then set_parent mn (PElem self) else nj) [CData (DString nm)]
                                           else if j =? mv then set_parent mn (PElem self) else nj)).
      { rewrite Hw3, Hw2j. destruct (idf && (j =? s)); reflexivity. }
      assert (Hmnj : j = mv -> nj = mn) by (intros ->; congruence).
      unfold tr, ren, ret, rep, rtx. rewrite Emem.
      destruct (ref_text T w j) as [s0|] eqn:Er.
      + assert (HinL : In (s0, j) L) by (apply HL; auto). rewrite (F7 _ _ HinL), Hw3j. fold NT.
        destruct (rewrites src inorig s0); cbn [option_map]; destruct (idf && (j =? s)); destruct (j =? mv) eqn:Ejm;
          try (apply N.eqb_eq in Ejm; rewrite (Hmnj Ejm)); reflexivity.
      + rewrite F8 by (intros s0 Hin; apply HL in Hin as (_ & Hin); congruence). rewrite Hw3j.
        destruct (idf && (j =? s)); destruct (j =? mv) eqn:Ejm; try (apply N.eqb_eq in Ejm; rewrite (Hmnj Ejm)); reflexivity.
    - assert (Hnd : ~ reach T w mv j) by (intros Hd; apply Hids_D, mem_id_in in Hd; congruence).
      rewrite (HoutL j Hnd), (Hout3 j Hnd). unfold w2. cbn [w_nodes]. rewrite !upd_neq; [reflexivity|exact Ejsp|].
      intros ->. apply Hnd. apply reach_refl. }
  assert (n5 = n).
  { rewrite Hfin in Hn5. apply N.eqb_neq in Hself_sp as E1. rewrite E1 in Hn5.
    destruct (mem_id self ids) eqn:Emem; [apply mem_id_in, Hids_D in Emem; contradiction|]. congruence. }
  subst n5. apply N.ltb_ge in Elen.
  assert (Hpos : (N.to_nat pos <= List.length (n_content n))%nat) by lia.
  assert (Hrtx : forall j t nj, rtx j = Some t -> w_nodes w j = Some nj -> isref T (n_type nj) = true).
  { intros j t nj Hr Hj. unfold rtx in Hr. destruct (mem_id j ids); [|discriminate]. destruct (ref_text T w j) eqn:Er; [|discriminate].
    unfold ref_text in Er. rewrite Hj in Er. destruct (isref T (n_type nj)); [reflexivity|discriminate]. }
  match goal with |- J5 ?ww => set (wf := ww) end.
  assert (Hnodes : forall j, w_nodes wf j =
            if j =? sp then Some pn1 else if j =? self then Some (set_content n (insert_at (n_content n) (N.to_nat pos) (CElem mv))) else
            if mem_id j ids then option_map (tr mv self s nm idf rtx j) (w_nodes w j) else w_nodes w j).
  { intros j. unfold wf. cbn [w_nodes]. destruct (j =? self) eqn:Ejs.
    - apply N.eqb_eq in Ejs. subst j. apply N.eqb_neq in Hself_sp as E1. rewrite E1. apply upd_eq.
    - apply N.eqb_neq in Ejs. rewrite upd_neq by exact Ejs. apply Hfin. }
  assert (Hnext : w_next wf = w_next w) by (unfold wf; cbn [w_next]; rewrite F1; exact N3).
  assert (Hmodels : w_models wf = list_set (list_set (w_models w) (N.to_nat ms) (apply_plan xs K L)) (N.to_nat m)
                                    (set_origins (set_idents xm IDM) ORM)) by (unfold wf; cbn [w_models]; exact Em5).
  assert (Hsuf : forall k x, In (k, x) orig -> exists q, dpath T w mv x q /\ k = src ++ q).
  { intros k x Hin. destruct (Htodo k x Hin) as (_ & (q & Hd) & _ & Hspx). exists q. split; [exact Hd|].
    exact (proj2 (specpath_fun T _ _ _ _ _ _ HT Hspx (HDpath x q Hd))). }
  assert (HK : forall k, In k K <-> exists j q, dpath T w mv j q /\ identifiable T w j = true /\ k = spp ++ seg T w mv ++ q).
  { intros k. split.
    - intros Hk. apply in_map_iff in Hk as ((k0 & x) & Hk0 & Hin). cbn in Hk0. subst k0.
      destruct (Hsuf k x Hin) as (q & Hd & ->). destruct (Htodo _ x Hin) as (_ & _ & Hix & _).
      exists x, q. split; [exact Hd|]. split; [exact Hix|]. rewrite Hsrc_eq, <- app_assoc. reflexivity.
    - intros (j & q & Hd & Hid & ->). rewrite app_assoc, <- Hsrc_eq.
      assert (Hg : assoc_get (src ++ q) (m_idents xs) = Some j).
      { apply (i4_exact _ _ _ H4 ms xs Hxs). pose proof (HDpath j q Hd) as Hspj. split; [eapply specpath_mreach; eauto|]. split; assumption. }
      change (src ++ q) with (fst (src ++ q, j)). apply in_map. apply Hcov; [exact Hg|exists q; exact Hd]. }
  assert (HR : (forall p j, In (p, j) L -> reach T w mv j) /\ (forall p j, reach T w mv j -> ref_text T w j = Some p -> In (p, j) L)).
  { split; [intros p0 j Hin; exact (proj1 (proj1 (HL p0 j) Hin))|intros p0 j Hd Hr; apply HL; auto]. }
  assert (Hfront_src : named T (n_type pn) = true -> kpos = O ->
            forall c2 rest c2n, n_content pn = CElem mv :: CElem c2 :: rest -> w_nodes w c2 = Some c2n -> n_name c2n <> SHORTN).
  { intros Hnm Hk c2 rest c2n Hc Hc2. eapply (remove_front_false T w sp pn mv kpos (N.eqb mv)); eauto. apply N.eqb_refl. }
  assert (Hmvns : n_name mn <> SHORTN).
  { unfold is_short_node in Hnshort. rewrite Hmn in Hnshort. apply N.eqb_neq. exact Hnshort. }
  (* the index of the destination *)
  assert (Hfun : forall p1 e1 p2 e2 s1 s2, In (p1, e1) orig -> In (p2, e2) orig -> strip_prefix src p1 = Some s1 ->
            strip_prefix src p2 = Some s2 -> dest ++ s1 = dest ++ s2 -> e1 = e2).
  { intros p1 e1 p2 e2 s1 s2 I1 I2 E1 E2 Heq. apply app_inv_head in Heq. subst s2.
    apply strip_prefix_some in E1. apply strip_prefix_some in E2. subst p1 p2.
    destruct (Htodo _ _ I1) as (G1 & _). destruct (Htodo _ _ I2) as (G2 & _). congruence. }
  assert (HnotD_m : forall e, MReach T w m e -> ~ reach T w mv e).
  { intros e Hm Hd. apply Hmm. exact (Hmodel_fun e m ms Hm (HD_ms e Hd)). }
  assert (Hcollfree : forall k x q e, In (k, x) orig -> k = src ++ q -> assoc_get (dest ++ q) (m_idents xm) = Some e -> False).
  { intros k x q e Hin Hk Hg. destruct (Htodo k x Hin) as (Hgx & Hrx & Hix & Hspx).
    destruct (Hsuf k x Hin) as (q' & Hdq & Hk'). rewrite Hk in Hk'. apply app_inv_head in Hk'. subst q'.
    pose proof (proj1 (i4_exact _ _ _ H4 m xm Hxm _ e) Hg) as (_ & _ & Hspe).
    destruct (Bool.bool_dec idf true) as [Ei|Ei].
    - assert (Hdne : dest <> []) by (rewrite Hdest, Ei; intros Eq; apply app_eq_nil in Eq as (_ & Eq); discriminate Eq).
      destruct (prefix_is_path T w m e (dest ++ q) dest q HNS Hspe eq_refl (dpath_boundary T _ _ _ _ Hdq) Hdne) as (y & Hy1 & Hy2 & _).
      assert (Hky : assoc_get dest (m_idents xm) = Some y).
      { apply (i4_exact _ _ _ H4 m xm Hxm). split; [eapply specpath_mreach; eauto|]. split; assumption. }
      rewrite (Hfree Ei) in Hky. discriminate Hky.
    - apply Bool.not_true_is_false in Ei. pose proof (Hcol (eq_trans Hidf Ei)) as Hc. unfold collision_x in Hc.
      rewrite Hn, Hmn, Esrc, Edst, Hmodmv, Hmodself, Hxs, Hxm in Hc. apply Bool.negb_false_iff in Hc.
      assert (Hmx : mv <> x) by (intros <-; rewrite Hidf, Ei in Hix; discriminate).
      destruct (below_strict_suffix T w ms mv x src k HT (i4_named _ _ _ H4) Hsp Hrx Hspx Hmx Hix) as (u & Hu & Hune & _).
      rewrite Hk in Hu. apply app_inv_head in Hu. subst u.
      rewrite Hdest, Ei, app_nil_r in Hg. rewrite (nocollision_x_sound _ _ _ _ Hc k q x Hgx Hk Hune) in Hg. discriminate Hg. }
  assert (Hidm_nd : NoDupKeys IDM) by (apply addid_nodup; exact (i4_nodup _ _ _ H4 m xm Hxm)).
  assert (Hidm : forall k e, assoc_get k IDM = Some e <->
     (reach T w mv e /\ exists q, assoc_get ((spp ++ seg T w mv) ++ q) (m_idents xs) = Some e /\ k = (dpre ++ (if idf then 47 :: nm else [])) ++ q)
     \/ (~ reach T w mv e /\ assoc_get k (m_idents xm) = Some e)).
  { intros k e. rewrite <- Hsrc_eq, <- Hdest. split.
    - intros Hg. destruct (addid_cases src dest orig (m_idents xm) k Hfun) as [(p0 & e' & suf & Hin & Hst & Hk & Hget)|(Hno & Hget)].
      + fold IDM in Hget. assert (e' = e) by congruence. subst e'. apply strip_prefix_some in Hst. subst p0.
        destruct (Htodo _ _ Hin) as (Hgx & Hrx & _). left. split; [exact Hrx|]. exists suf. auto.
      + fold IDM in Hget. rewrite Hget in Hg. right. split; [|exact Hg]. apply HnotD_m. apply (i4_exact _ _ _ H4 m xm Hxm) in Hg as (Hm & _). exact Hm.
    - intros [(Hd & q & Hg & ->)|(Hnd & Hg)].
      + exact (proj1 (addid_fold src dest orig (m_idents xm) Hfun (dest ++ q)) (src ++ q) e q (Hcov _ _ Hg Hd) (strip_prefix_app _ _) eq_refl).
      + destruct (addid_cases src dest orig (m_idents xm) k Hfun) as [(p0 & e' & suf & Hin & Hst & Hk & Hget)|(Hno & Hget)].
        * exfalso. apply strip_prefix_some in Hst. rewrite <- Hk in Hg. exact (Hcollfree p0 e' suf e Hin Hst Hg).
        * fold IDM in Hget. rewrite Hget. exact Hg. }
  (* the referrer map of the destination *)
  assert (HNT_keep : forall s0, rewrites src inorig s0 = false -> NT s0 = s0).
  { intros s0. unfold NT, newtext, rewrites. destruct (inorig s0); [|reflexivity]. destruct (strip_prefix src s0); [discriminate|reflexivity]. }
  assert (Hnewref : forall r0, reach T w mv r0 -> newref T w rtx r0 = option_map NT (ref_text T w r0)).
  { intros r0 Hd. unfold newref, rtx. apply Hids_D, mem_id_in in Hd. rewrite Hd. destruct (ref_text T w r0) as [s0|]; [|reflexivity].
    cbn [option_map]. destruct (rewrites src inorig s0) eqn:Erw; [reflexivity|]. rewrite (HNT_keep s0 Erw). reflexivity. }
  assert (HinR' : forall p0 r0, In r0 (map snd (filter (fun e : list N * id => if bytes_dec (fst e) p0 then true else false) R')) <->
                                exists s0, In (s0, r0) L /\ NT s0 = p0).
  { intros p0 r0. split.
    - intros Hin. apply in_map_iff in Hin as ((p1 & r1) & Hr1 & Hin). cbn in Hr1. subst r1. apply filter_In in Hin as (Hin & Hf).
      cbn [fst] in Hf. destruct (bytes_dec p1 p0) as [->|]; [|discriminate]. unfold R' in Hin.
      apply in_map_iff in Hin as ((s0 & r1) & [= <- <-] & Hin). exists s0. auto.
    - intros (s0 & Hin & <-). apply in_map_iff. exists (NT s0, r0). split; [reflexivity|]. apply filter_In. split.
      + unfold R'. apply in_map_iff. exists (s0, r0). auto.
      + cbn [fst]. destruct (bytes_dec (NT s0) (NT s0)); [reflexivity|contradiction]. }
  assert (Hoo : forall p0, origins_of (set_origins (set_idents xm IDM) ORM) p0 =
                           origins_of xm p0 ++ map snd (filter (fun e : list N * id => if bytes_dec (fst e) p0 then true else false) R')).
  { intros p0. unfold origins_of. cbn [set_origins set_idents m_origins]. unfold ORM. exact (addo_all_oget R' (m_origins xm) p0). }
  assert (Horm : forall p0 r0, In r0 (origins_of (set_origins (set_idents xm IDM) ORM) p0) <->
                               In r0 (origins_of xm p0) \/ (reach T w mv r0 /\ newref T w rtx r0 = Some p0)).
  { intros p0 r0. rewrite Hoo, in_app_iff, HinR'. split.
    - intros [Hl|(s0 & Hin & Hnt)]; [left; exact Hl|]. right. apply HL in Hin as (Hd & Hr). split; [exact Hd|].
      rewrite (Hnewref r0 Hd), Hr. cbn. congruence.
    - intros [Hl|(Hd & Hnr)]; [left; exact Hl|]. right. rewrite (Hnewref r0 Hd) in Hnr.
      destruct (ref_text T w r0) as [s0|] eqn:Er; [|discriminate Hnr]. cbn in Hnr. injection Hnr as Hnr. exists s0. split; [apply HL; auto|exact Hnr]. }
  assert (Horm_nd : forall p0, NoDup (origins_of (set_origins (set_idents xm IDM) ORM) p0)).
  { intros p0. rewrite Hoo. apply nodup_app2.
    - exact (proj1 (i5_exact _ _ H5 m xm Hxm p0)).
    - apply nodup_map_filter. unfold R'. rewrite map_map. cbn [snd]. exact HL_nd.
    - intros r0 H1 H2. apply (proj2 (i5_exact _ _ H5 m xm Hxm p0)) in H1 as (Hm1 & _).
      apply HinR' in H2 as (s0 & Hin & _). apply HL in Hin as (Hd & _). exact (HnotD_m r0 Hm1 Hd). }
  assert (Horm_tidy : Tidy ORM) by (apply addo_all_tidy; exact (i5_tidy _ _ H5 m xm Hxm)).
  exact (relocx_j5 T check_fn TK w wf mv sp self s mn pn n kpos (N.to_nat pos) ms m xs xm spp dpre nm idf K L IDM ORM ids rtx
           HT H4 H5 Hmn Hpar Hpn Eidx Hn Hsm Hself_out Hself_sp Hpos Hids_D Hmm Hidf Hs Hnmsf Hrtx Hnodes Hnext Hspp Hdp Hxs Hxm Hmodels
           HK HR Hfront_src Hfd Hmvns (Hselfmode n Hn) Hidm_nd Hidm Horm Horm_nd Horm_tidy).
Qed.

(* ---------- the public calls, both routes *)
Variable root_attrs : list (N * cdata).
Notation Known05 := (Known05 T tab_el tab_en check_fn LATEST root_attrs).
Notation Known05a := (Known05a T tab_el tab_en check_fn LATEST root_attrs).

Theorem C45_move_all h mv w r w' :
  J5 w -> RefStr T w -> Known04 T LATEST w (OpMove h mv) = false -> Known05a w (OpMove h mv) = false ->
  e_move_element_here T tab_en check_fn LATEST h mv w = Val (r, w') -> J5 w'.
Proof.
  intros HJ HRS HK4 HK5a H. cbn [RefsAll.Known05a] in HK5a. apply orb_false_iff in HK5a as (HK5 & HKx).
  destruct (same_model w h mv) eqn:Esm.
  { eapply (C45_move T tab_el tab_en check_fn LATEST TK root_attrs); eauto. }
  destruct r as [i|e].
  2:{ destruct (e_move_here_fail T tab_en check_fn LATEST h mv w e w' H) as [->|(_ & Hpl)]; [exact HJ|]. exfalso.
      cbn [Refs.Known05 run_op] in HK5. apply orb_false_iff in HK5 as (_ & HK5). unfold welem, wbind in HK5. rewrite H in HK5. apply negb_false_iff, plink_eqb_true in HK5. contradiction. }
  pose proof HJ as (HT & H4 & H5). cbn [Known04] in HK4. apply orb_false_iff in HK4 as (HK4 & Hsrcf). apply orb_false_iff in HK4 as (Hshort & Hfront).
  unfold e_move_element_here in H. destruct (h =? mv) eqn:Ehm; [discriminate H|]. apply N.eqb_neq in Ehm.
  wk H. wk H. wk H. wk H. destruct (negb (a2 =? a1)); [discriminate H|].
  wk H. apply get_node_inv in E3 as (n & Hn & Q & _). injection Q as ->.
  wk H. apply get_node_inv in E3 as (mn & Hmn & Q & _). injection Q as ->.
  wk H. destruct a3 as (rs, re).
  unfold same_model in Esm. rewrite E0, E in Esm. rewrite Esm in H. apply N.eqb_neq in Esm.
  assert (HR1 : MReach T w a mv) by (apply model_of_mreach; assumption).
  assert (HR2 : MReach T w a0 h) by (apply model_of_mreach; assumption).
  assert (HM : forall n0, w_nodes w h = Some n0 -> content_mode T (n_type n0) <> Val MCharacters).
  { intros n0 Hn0. assert (n0 = n) by congruence. subst n0. eapply calc_range_mode; eauto. }
  assert (HFd : N.to_nat re = O -> identifiable T w h = false).
  { intros Hre. unfold nm_of in Hfront. rewrite Hmn in Hfront.
    destruct (front_false_end T LATEST w h n (n_name mn) a2 rs re Hn E2 E3 Hfront Hre) as (Hi & _). unfold identifiable. rewrite Hn. exact Hi. }
  assert (HFs : forall mn0 sp0, w_nodes w mv = Some mn0 -> n_parent mn0 = PElem sp0 -> remove_front T w sp0 (N.eqb mv) = false).
  { intros mn0 sp0 Hmn0 Hp0. eapply src_front_false; eauto. }
  assert (Hcol : identifiable T w mv = false -> collision_x T w h mv = false).
  { intros Hni. rewrite Hni in HKx. exact HKx. }
  eapply (move_full_j5 h mv re a0 a a2 w w' i HJ HRS H); eauto.
Qed.

Theorem C45_move_at_all h mv pos w r w' :
  J5 w -> RefStr T w -> Known04 T LATEST w (OpMoveAt h mv pos) = false -> Known05a w (OpMoveAt h mv pos) = false ->
  e_move_element_here_at T tab_en check_fn LATEST h mv pos w = Val (r, w') -> J5 w'.
Proof.
  intros HJ HRS HK4 HK5a H. cbn [RefsAll.Known05a] in HK5a. apply orb_false_iff in HK5a as (HK5 & HKx).
  destruct (same_model w h mv) eqn:Esm.
  { eapply (C45_move_at T tab_el tab_en check_fn LATEST TK root_attrs); eauto. }
  destruct r as [i|e].
  2:{ destruct (e_move_here_at_fail T tab_en check_fn LATEST h mv pos w e w' H) as [->|(_ & Hpl)]; [exact HJ|]. exfalso.
      cbn [Refs.Known05 run_op] in HK5. apply orb_false_iff in HK5 as (_ & HK5). unfold welem, wbind in HK5. rewrite H in HK5. apply negb_false_iff, plink_eqb_true in HK5. contradiction. }
  pose proof HJ as (HT & H4 & H5). cbn [Known04] in HK4. apply orb_false_iff in HK4 as (HK4 & Hspn). apply orb_false_iff in HK4 as (HK4 & Hsrcf).
  apply orb_false_iff in HK4 as (Hshort & Hfront).
  unfold e_move_element_here_at in H. destruct (h =? mv) eqn:Ehm; [discriminate H|]. apply N.eqb_neq in Ehm.
  wk H. wk H. wk H. wk H. destruct (negb (a2 =? a1)); [discriminate H|].
  wk H. apply get_node_inv in E3 as (n & Hn & Q & _). injection Q as ->.
  wk H. apply get_node_inv in E3 as (mn & Hmn & Q & _). injection Q as ->.
  wk H. destruct a3 as (rs, re).
  destruct ((rs <=? pos) && (pos <=? re)); [|discriminate H].
  unfold same_model in Esm. rewrite E0, E in Esm. rewrite Esm in H. apply N.eqb_neq in Esm.
  assert (HR1 : MReach T w a mv) by (apply model_of_mreach; assumption).
  assert (HR2 : MReach T w a0 h) by (apply model_of_mreach; assumption).
  assert (HM : forall n0, w_nodes w h = Some n0 -> content_mode T (n_type n0) <> Val MCharacters).
  { intros n0 Hn0. assert (n0 = n) by congruence. subst n0. eapply calc_range_mode; eauto. }
  assert (HFd : N.to_nat pos = O -> identifiable T w h = false).
  { intros Hre. unfold nm_of in Hfront. rewrite Hmn in Hfront.
    destruct (front_false_at T LATEST w h n (n_name mn) pos Hn Hfront Hre) as (Hi & _). unfold identifiable. rewrite Hn. exact Hi. }
  assert (HFs : forall mn0 sp0, w_nodes w mv = Some mn0 -> n_parent mn0 = PElem sp0 -> remove_front T w sp0 (N.eqb mv) = false).
  { intros mn0 sp0 Hmn0 Hp0. eapply src_front_false; eauto. }
  assert (Hcol : identifiable T w mv = false -> collision_x T w h mv = false).
  { intros Hni. rewrite Hni in HKx. exact HKx. }
  eapply (move_full_j5 h mv pos a0 a a2 w w' i HJ HRS H); eauto.
Qed.

End MoveX.
