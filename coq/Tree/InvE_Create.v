(* GENERATED from Tree/InvProofsCreate.v by tools/c03_gen_invE.py: the same proof over NoOrphanP (no RootsOnly), see Tree/InvEBase.v *)
(* Tree/InvProofsCreate.v — C03 proofs: create_sub_element(_at), create_named_sub_element(_at), get_or_create*,
   and the character-data primitive raw_set_character_data. *)
From Coq Require Import PeanoNat Arith.
From AV Require Import Base.Bytes Base.Outcome Hash.HashModel Tree.Heap Tree.Ops Tree.Script Tree.Inv
  Tree.InvProofsBase Tree.InvProofsCore Tree.InvProofsPrim Tree.InvEBase.
Open Scope string_scope.
Open Scope list_scope.
Open Scope N_scope.

Lemma content_insert_invE self pos it w r w' :
  content_insert self pos it w = Val (r, w') ->
  exists n, w_nodes w self = Some n /\ r = OK tt /\
            w' = wset w self (set_content n (insert_at (n_content n) (N.to_nat pos) it)).
Proof.
  unfold content_insert. intros H. wstep H.
  winv E. destruct (_ <? _); [discriminate|]. apply set_node_wset in H as (-> & ->). eauto.
Qed.

(* inserting an element that already points to `self` and is not yet listed by it *)
Lemma insert_child_coreE w self c pos r w' :
  Core w -> par w c self -> ~ lists w self c ->
  content_insert self pos (CElem c) w = Val (r, w') ->
  Core w' /\ r = OK tt /\
  forall S, OrphSubE w S -> OrphSubE w' (fun x => S x /\ x <> c).
Proof.
  intros C Hpar Hnl H. apply content_insert_invE in H as (n & Hn & -> & ->).
  set (n' := set_content n _).
  assert (Hs : skel w self = Some (n_parent n, kids n)) by (apply skel_some; auto).
  assert (Hs' : skel (wset w self n') self = Some (n_parent n, kids n')) by (rewrite skel_wset_eq; reflexivity).
  assert (Hin : forall x, In x (kids n') <-> x = c \/ In x (kids n)) by (intros x; apply elems_insert_in).
  split; [|split; auto].
  - eapply core_upd_kids; eauto using upd1_wset.
    + apply elems_insert_nodup; [eapply c_nodup; eauto|]. intros Hc. apply Hnl. exists n. auto.
    + intros x Hx. apply Hin in Hx as [->|Hx]; auto.
  - intros S HO. eapply orphsubE_insert; eauto using upd1_wset.
Qed.

(* alloc a fresh leaf below self and insert it *)
Lemma create_pairE w self n0 nd pos r w' :
  Core w -> w_nodes w self = Some n0 -> n_parent nd = PElem self -> n_content nd = [] ->
  content_insert self pos (CElem (w_next w)) (walloc w nd) = Val (r, w') ->
  Core w' /\ (NoOrphanP w -> NoOrphanP w') /\ r = OK tt /\ w_nodes w' (w_next w) = Some nd /\
  w_next w' = w_next w + 1.
Proof.
  intros C Hn0 Hp Hc H. pose proof (core_not_fresh _ _ _ C Hn0) as Hne.
  assert (Hsk : skel (walloc w nd) (w_next w) = Some (PElem self, [])).
  { rewrite skel_walloc_new. unfold kids. rewrite Hp, Hc. reflexivity. }
  assert (C1 : Core (walloc w nd)).
  { eapply (core_alloc w _ (PElem self)); [exact C | apply alloc1_walloc | exact Hsk | right; exists self; split; auto; eexists; eauto]. }
  assert (Hpar : par (walloc w nd) (w_next w) self).
  { exists nd. split; auto. apply nodes_walloc_new. }
  assert (Hnl : ~ lists (walloc w nd) self (w_next w)).
  { intros (n & Hn & Hin). rewrite nodes_walloc_old in Hn by auto.
    assert (Hl : lists w self (w_next w)) by (exists n; auto). apply C in Hl as (n1 & Hn1 & _).
    exact (core_not_fresh _ _ _ C Hn1 eq_refl). }
  pose proof H as H0. apply content_insert_invE in H0 as (n & Hn & _ & Hw').
  destruct (insert_child_coreE _ _ _ _ _ _ C1 Hpar Hnl H) as (C' & -> & HO).
  split; auto. split; [|split; auto; split].
  - intros O. apply NoOrphanP_OrphSubE. apply NoOrphanP_OrphSubE in O.
    assert (Hnm : forall m0, PElem self <> PModel m0) by congruence.
    pose proof (orphsubE_alloc _ _ _ _ C (alloc1_walloc w nd) Hsk Hnm O) as HO1. apply HO in HO1.
    eapply OrphSubE_weaken; [|exact HO1].
    intros x Hx. cbv beta in Hx. destruct Hx as [[[]|(-> & _)] Hx]. congruence.
  - subst w'. rewrite nodes_wset_neq by auto. apply nodes_walloc_new.
  - subst w'. reflexivity.
Qed.

Section Create.
Variable T : tables.
Variable tab_el tab_en : nametab.
Variable check_fn : N -> list N -> res bool.
Variable LATEST : N.

(* ---------- create_sub_element_inner ---------- *)
Lemma create_inner_specE self name pos version w r w' :
  create_sub_element_inner T self name pos version w = Val (r, w') -> Core w ->
  Core w' /\ (NoOrphanP w -> NoOrphanP w') /\
  match r with
  | OK c => c = w_next w /\ w_next w' = w_next w + 1 /\
            exists et, w_nodes w' c = Some (new_node (PElem self) name et)
  | ER _ => w' = w
  end.
Proof.
  unfold create_sub_element_inner. intros H C.
  wstep H; winv E.
  wstep H; winv E.
  destruct v as [[et ix]|]; [|winv H; auto].
  wstep H; winv E.
  destruct v; [winv H; auto|].
  wstep H.
  apply alloc_walloc in E as ([= ->] & ->).
  wstep H.
  - winv H. destruct (create_pairE w self n (new_node (PElem self) name et) pos _ _ C Hn eq_refl eq_refl E) as (C' & O' & _ & Hc & Hnx).
    split; [exact C'|]. split; [exact O'|]. split; [reflexivity|]. split; [exact Hnx|]. eauto.
  - destruct (create_pairE w self n (new_node (PElem self) name et) pos _ _ C Hn eq_refl eq_refl E) as (_ & _ & [=] & _).
Qed.

Lemma Pres_create_innerE self name pos version : PresE (create_sub_element_inner T self name pos version).
Proof. intros w r w' H C. destruct (create_inner_specE _ _ _ _ _ _ _ H C) as (? & ? & _). auto. Qed.
Hint Resolve Pres_create_innerE : presE.

Lemma Pres_raw_create_subE self name version : PresE (raw_create_sub_element T self name version).
Proof. unfold raw_create_sub_element. presE_tac. Qed.
Lemma Pres_raw_create_sub_atE self name pos version : PresE (raw_create_sub_element_at T self name pos version).
Proof. unfold raw_create_sub_element_at. presE_tac. Qed.
Hint Resolve Pres_raw_create_subE Pres_raw_create_sub_atE : presE.

Lemma Pres_e_create_subE h name : PresE (e_create_sub_element T LATEST h name).
Proof. unfold e_create_sub_element. presE_tac. Qed.
Lemma Pres_e_create_sub_atE h name pos : PresE (e_create_sub_element_at T LATEST h name pos).
Proof. unfold e_create_sub_element_at. presE_tac. Qed.
Lemma Pres_e_get_or_createE h name : PresE (e_get_or_create_sub_element T LATEST h name).
Proof. unfold e_get_or_create_sub_element. presE_tac. Qed.

(* result of raw_create_sub_element: a fresh node with empty content *)
Lemma raw_create_sub_freshE self name version w c w' :
  raw_create_sub_element T self name version w = Val (OK c, w') -> Core w ->
  exists nd, w_nodes w' c = Some nd /\ n_content nd = [].
Proof.
  unfold raw_create_sub_element. intros H C.
  wstep H. winv E.
  wstep H. destruct a as [s e].
  destruct (create_inner_specE _ _ _ _ _ _ _ H C) as (_ & _ & _ & _ & et & Hc). eauto.
Qed.

(* ---------- raw_set_character_data ---------- *)
Lemma raw_set_cdata_invE i v version w r w' :
  raw_set_character_data T check_fn i v version w = Val (r, w') ->
  w' = w \/
  exists n, w_nodes w i = Some n /\ r = OK tt /\
            w' = wset w i (set_content n (match n_content n with [] => [CData v] | _ :: t => CData v :: t end)).
Proof.
  unfold raw_set_character_data. intros H.
  wstep H; winv E.
  wstep H; winv E.
  destruct (_ || _); [|winv H; auto].
  wstep H; winv E.
  destruct v1 as [cs|]; [|winv H; auto].
  wstep H; winv E.
  destruct v1; [|winv H; auto].
  apply set_node_wset in H as (-> & ->). right. eauto.
Qed.

(* when the first content item is not a sub-element nothing the invariant can see changes *)
Lemma raw_set_cdata_stE i v version w r w' :
  raw_set_character_data T check_fn i v version w = Val (r, w') -> node_head_elem w i = false -> same_tree w w'.
Proof.
  intros H Hh. apply raw_set_cdata_invE in H as [->|(n & Hn & _ & ->)]; [apply same_tree_refl|].
  eapply st_wset; eauto. unfold node_head_elem in Hh. rewrite Hn in Hh. unfold head_elem in Hh.
  unfold kids. cbn. destruct (n_content n) as [|[c|d] t]; try discriminate; reflexivity.
Qed.

(* in general it drops at most the first sub-element from the content list *)
Lemma raw_set_cdata_coreE i v version w r w' :
  raw_set_character_data T check_fn i v version w = Val (r, w') -> Core w -> Core w'.
Proof.
  intros H C. apply raw_set_cdata_invE in H as [->|(n & Hn & _ & ->)]; auto.
  set (n' := set_content n _).
  assert (Hk : kids n' = kids n \/ exists c, kids n = c :: kids n').
  { unfold n', kids. cbn. destruct (n_content n) as [|[c|d] t]; auto. right. exists c. reflexivity. }
  apply (core_upd_kids w (wset w i n') i (n_parent n) (kids n) (kids n')); auto.
  - apply upd1_wset.
  - apply skel_some; auto.
  - rewrite skel_wset_eq; reflexivity.
  - pose proof (c_nodup _ C _ _ Hn) as Hnd. destruct Hk as [->|(c & Hk)]; auto. rewrite Hk in Hnd.
    inversion Hnd; auto.
  - intros c Hc. left. destruct Hk as [<-|(c0 & ->)]; auto. right; auto.
Qed.

Lemma Pres_try_raw_set_cdata_emptyE s v version w r w' nd :
  wtry (raw_set_character_data T check_fn s v version) w = Val (r, w') ->
  w_nodes w s = Some nd -> n_content nd = [] -> same_tree w w'.
Proof.
  intros H Hs Hc. apply wtry_inv in H as (r0 & H & _). eapply raw_set_cdata_stE; eauto.
  unfold node_head_elem, head_elem. rewrite Hs, Hc. reflexivity.
Qed.

(* ---------- create_named_sub_element_inner ---------- *)
Lemma Pres_create_named_innerE self name item pos m version :
  PresE (create_named_sub_element_inner T check_fn self name item pos m version).
Proof.
  unfold create_named_sub_element_inner. intros w r w' H C.
  destruct (is_empty item); [winv H; auto|].
  wstep H; winv E.
  wstep H; winv E.
  destruct v as [[et ix]|]; [|winv H; auto].
  wstep H; winv E.
  destruct (negb v); [winv H; auto|].
  wstep H; winv E.
  wstep H; [|auto].
  destruct (negb a); [winv H; auto|].
  wstep H; [|auto].
  wstep H; [|auto].
  destruct a1; [winv H; auto|].
  wstepn H c Ea.
  apply alloc_walloc in Ea as ([= ->] & ->).
  wstepn H u Ei.
  2:{ destruct (create_pairE w self n (new_node (PElem self) name et) pos _ _ C Hn eq_refl eq_refl Ei) as (_ & _ & [=] & _). }
  destruct (create_pairE w self n (new_node (PElem self) name et) pos _ _ C Hn eq_refl eq_refl Ei) as (C1 & O1 & _ & Hc & Hnx).
  wstepn H s Es.
  2:{ destruct (Pres_raw_create_subE _ _ _ _ _ _ Es C1). auto. }
  destruct (Pres_raw_create_subE _ _ _ _ _ _ Es C1) as (C2 & O2).
  destruct (raw_create_sub_freshE _ _ _ _ _ _ Es C1) as (nd & Hnd & Hnc).
  wstepn H u2 Et.
  pose proof (Pres_try_raw_set_cdata_emptyE _ _ _ _ _ _ _ Et Hnd Hnc) as ST.
  match type of ST with same_tree ?wa ?wb =>
    assert (C3 : Core wb) by (eapply Core_same_tree; eauto);
    assert (O3 : NoOrphanP w -> NoOrphanP wb) by (intros O; eapply NoOrphanP_same_tree; eauto)
  end.
  assert (P : forall pth, PresE (add_identifiable m pth (w_next w);; wret (w_next w))%W) by (intros; presE_tac).
  destruct (P _ _ _ _ H C3). auto.
Qed.
Hint Resolve Pres_create_named_innerE : presE.

Lemma Pres_raw_create_namedE self name item m version : PresE (raw_create_named_sub_element T check_fn self name item m version).
Proof. unfold raw_create_named_sub_element. presE_tac. Qed.
Lemma Pres_raw_create_named_atE self name item pos m version :
  PresE (raw_create_named_sub_element_at T check_fn self name item pos m version).
Proof. unfold raw_create_named_sub_element_at. presE_tac. Qed.
Hint Resolve Pres_raw_create_namedE Pres_raw_create_named_atE : presE.

Lemma Pres_e_create_namedE h name item : PresE (e_create_named_sub_element T check_fn LATEST h name item).
Proof. unfold e_create_named_sub_element. presE_tac. Qed.
Lemma Pres_e_create_named_atE h name item pos : PresE (e_create_named_sub_element_at T check_fn LATEST h name item pos).
Proof. unfold e_create_named_sub_element_at. presE_tac. Qed.
Lemma Pres_e_get_or_create_namedE h name item : PresE (e_get_or_create_named_sub_element T check_fn LATEST h name item).
Proof. unfold e_get_or_create_named_sub_element. presE_tac. Qed.

End Create.

#[export] Hint Resolve Pres_create_innerE Pres_raw_create_subE Pres_raw_create_sub_atE Pres_e_create_subE
  Pres_e_create_sub_atE Pres_e_get_or_createE Pres_create_named_innerE Pres_raw_create_namedE
  Pres_raw_create_named_atE Pres_e_create_namedE Pres_e_create_named_atE Pres_e_get_or_create_namedE : presE.
