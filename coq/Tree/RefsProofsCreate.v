(* Tree/RefsProofsCreate.v — C05: create_sub_element*, create_named_sub_element* keep Inv05: the new elements carry no
   reference text, the old ones keep theirs, reference_origins is not touched. *)
From AV Require Import Base.Bytes Base.Outcome Hash.HashModel Tree.Heap Tree.Ops Tree.Script Tree.IndexProofsW
  Tree.Index Tree.IndexProofsBase Tree.IndexProofsAssoc Tree.IndexProofsFrame Tree.IndexProofsAttach
  Tree.IndexProofsCreate Tree.IndexProofsNamed Tree.Refs Tree.RefsProofsBase Tree.RefsProofs.
Open Scope string_scope.
Open Scope list_scope.
Open Scope N_scope.

Section RCreate.
Variable T : tables.
Variable tab_el tab_en : nametab.
Variable check_fn : N -> list N -> res bool.
Variable LATEST : N.
Hypothesis TK : TablesOK T check_fn.
Notation SHORTN := (name_short_name T).

Lemma inv05_leaf_shape w h name w' :
  TreeFacts w -> Inv05 T w -> leaf_shape T check_fn w h name w' -> Inv05 T w'.
Proof.
  intros HF HI [->|(n & cn & k & Hself & Hleaf & _ & Hk & Hns & Hmode & Hnr & Hfront & _ & ->)]; [exact HI|].
  set (c := w_next w). set (w' := leaf_world w h n cn k).
  assert (Hc : w_nodes w c = None).
  { destruct (w_nodes w c) as [x|] eqn:E; [|reflexivity]. pose proof (tf_alloc _ HF _ _ E). unfold c in *. lia. }
  assert (Hsc : h <> c) by (intros ->; congruence).
  assert (Hself' : w_nodes w' h = Some (set_content n (insert_at (n_content n) k (CElem c)))) by (cbn; apply upd_eq).
  assert (Hc' : w_nodes w' c = Some cn).
  { cbn. rewrite upd_neq by (intros E; apply Hsc; symmetry; exact E). apply upd_eq. }
  assert (Hold : forall j nj, w_nodes w j = Some nj -> j <> h -> w_nodes w' j = Some nj).
  { intros j nj Hj Hne. cbn. rewrite upd_neq by exact Hne. rewrite upd_neq; [exact Hj|]. intros ->. fold c in Hj. congruence. }
  assert (Hnew : forall j, w_nodes w j = None -> forall nj, w_nodes w' j = Some nj -> j = c).
  { intros j Hj nj Hj'. cbn in Hj'. unfold upd in Hj'. destruct (j =? h) eqn:E1; [apply N.eqb_eq in E1; subst; congruence|].
    fold c in Hj'. destruct (j =? c) eqn:E2; [apply N.eqb_eq in E2; exact E2|congruence]. }
  assert (Hkids : forall p x, child_of w' p x -> w_nodes w p = None -> w_nodes w x = None).
  { intros p x (np & Hp & Hx) Hpn. rewrite (Hnew _ Hpn _ Hp) in Hp. rewrite Hc' in Hp. injection Hp as <-.
    rewrite Hleaf in Hx. destruct Hx. }
  assert (Hfront' : k = O -> identifiable_n T w n = false /\
                    (named T (n_type n) = true -> forall cn0, w_nodes w' c = Some cn0 -> n_name cn0 <> name_short_name T)).
  { intros Hk0. destruct (Hfront Hk0) as (H1 & H2). split; [exact H1|]. intros Hn cn0 Hcn0. rewrite Hc' in Hcn0.
    injection Hcn0 as <-. auto. }
  assert (Hroots : forall m, option_map m_root (model_at w' m) = option_map m_root (model_at w m)) by reflexivity.
  apply (inv05_transfer T w w'); [|reflexivity|exact HI].
  intros m p r. destruct (w_nodes w r) as [nr|] eqn:Er.
  - eapply (refset_old T w w' h c n k); try eassumption; [eexists; eauto|auto].
  - split.
    + intros (_ & Ht). exfalso. unfold ref_text in Ht. destruct (w_nodes w' r) as [nr'|] eqn:Er'; [|discriminate].
      rewrite (Hnew _ Er _ Er') in Er'. rewrite Hc' in Er'. injection Er' as <-.
      rewrite (leaf_no_cdata T _ Hleaf) in Ht. destruct (isref T (n_type cn)); discriminate.
    + intros (Hr & _). exfalso. destruct (mreach_alloc T _ _ _ HF Hr) as (? & ?). congruence.
Qed.

Lemma inv05_named_shape w h name item m w' :
  TreeFacts w -> Inv05 T w -> named_shape T check_fn w h name item m w' -> Inv05 T w'.
Proof.
  intros HF HI [Hl|(n & et & se & k & pp & x & Hself & Hnodes & Hmodels & Hx & _ & _ & _ & Hse & _ & Hname & _ & Hk & Hns & _ & Hnr & Hfront)].
  { eapply inv05_leaf_shape; eauto. }
  set (c := w_next w) in *. set (s := c + 1) in *.
  set (cnode := mkNode (PElem h) name et [CElem s] [] [] None).
  set (snode := mkNode (PElem c) SHORTN se [CData (DString item)] [] [] None).
  assert (Hfresh : forall j, c <= j -> w_nodes w j = None).
  { intros j Hj. destruct (w_nodes w j) as [y|] eqn:E; [|reflexivity]. pose proof (tf_alloc _ HF _ _ E). unfold c in *. lia. }
  assert (Hc : w_nodes w c = None) by (apply Hfresh; lia).
  assert (Hs : w_nodes w s = None) by (apply Hfresh; unfold s; lia).
  assert (Hsc : h <> c) by (intros ->; congruence).
  assert (Hss : h <> s) by (intros ->; congruence).
  assert (Hs' : w_nodes w' s = Some snode).
  { rewrite Hnodes. unfold named_nodes. fold c. fold s. rewrite N.eqb_refl. reflexivity. }
  assert (Hc' : w_nodes w' c = Some cnode).
  { rewrite Hnodes. unfold named_nodes. fold c. fold s. assert (c =? s = false) by (apply N.eqb_neq; unfold s; lia).
    rewrite H, N.eqb_refl. reflexivity. }
  assert (Hself' : w_nodes w' h = Some (set_content n (insert_at (n_content n) k (CElem c)))).
  { rewrite Hnodes. unfold named_nodes. fold c. fold s.
    apply N.eqb_neq in Hsc, Hss. rewrite Hsc, Hss, N.eqb_refl. reflexivity. }
  assert (Hother : forall j, j <> s -> j <> c -> j <> h -> w_nodes w' j = w_nodes w j).
  { intros j H1 H2 H3. rewrite Hnodes. unfold named_nodes. fold c. fold s.
    apply N.eqb_neq in H1, H2, H3. rewrite H1, H2, H3. reflexivity. }
  assert (Hold : forall j nj, w_nodes w j = Some nj -> j <> h -> w_nodes w' j = Some nj).
  { intros j nj Hj Hne. rewrite Hother; auto; intros ->; congruence. }
  assert (Hnew : forall j, w_nodes w j = None -> forall nj, w_nodes w' j = Some nj -> j = c \/ j = s).
  { intros j Hj nj Hj'. destruct (N.eq_dec j s) as [->|H1]; [auto|]. destruct (N.eq_dec j c) as [->|H2]; [auto|].
    destruct (N.eq_dec j h) as [->|H3]; [congruence|]. rewrite Hother in Hj' by assumption. congruence. }
  assert (Hkids : forall p y, child_of w' p y -> w_nodes w p = None -> w_nodes w y = None).
  { intros p y (np & Hp & Hy) Hpn. destruct (Hnew _ Hpn _ Hp) as [->| ->].
    - rewrite Hc' in Hp. injection Hp as <-. cbn in Hy. destruct Hy as [[= <-]|[]]. exact Hs.
    - rewrite Hs' in Hp. injection Hp as <-. cbn in Hy. destruct Hy as [[=]|[]]. }
  assert (Hfront' : k = O -> identifiable_n T w n = false /\
                    (named T (n_type n) = true -> forall cn0, w_nodes w' c = Some cn0 -> n_name cn0 <> name_short_name T)).
  { intros Hk0. split; [auto|]. intros _ cn0 Hcn0. rewrite Hc' in Hcn0. injection Hcn0 as <-. exact Hname. }
  assert (Hroots : forall m2, option_map m_root (model_at w' m2) = option_map m_root (model_at w m2)).
  { intros m2. destruct (N.eq_dec m2 m) as [->|Hne].
    - rewrite (model_at_set_same _ _ _ _ Hmodels _ Hx), Hx. reflexivity.
    - rewrite (model_at_set_other _ _ _ _ _ Hmodels Hne). reflexivity. }
  apply (inv05_transfer T w w'); [| |exact HI].
  - intros m2 p r. destruct (w_nodes w r) as [nr|] eqn:Er.
    + eapply (refset_old T w w' h c n k); try eassumption; [eexists; eauto|auto].
    + split.
      * intros (_ & Ht). exfalso. unfold ref_text in Ht. destruct (w_nodes w' r) as [nr'|] eqn:Er'; [|discriminate].
        destruct (Hnew _ Er _ Er') as [->| ->].
        -- rewrite Hc' in Er'. injection Er' as <-. unfold cdata_of, character_data in Ht. cbn in Ht.
           destruct (isref T et); discriminate.
        -- rewrite Hs' in Er'. injection Er' as <-. destruct Hse as (_ & Hsr & _). cbn [snode n_type] in Ht.
           rewrite (isref_val _ _ _ Hsr) in Ht. discriminate.
      * intros (Hr & _). exfalso. destruct (mreach_alloc T _ _ _ HF Hr) as (? & ?). congruence.
  - intros m2. destruct (N.eq_dec m2 m) as [->|Hne].
    + rewrite (model_at_set_same _ _ _ _ Hmodels _ Hx), Hx. reflexivity.
    + rewrite (model_at_set_other _ _ _ _ _ Hmodels Hne). reflexivity.
Qed.

End RCreate.
