(* Tree/IndexProofsTiny.v — the tiny hand-made table set of Tree/Index.v satisfies TablesOK (so the theorems are not
   vacuous), and the witnesses of the finding classes of C04 / C05 on that table set. *)
From AV Require Import Base.Bytes Base.Outcome Hash.HashModel Tree.Heap Tree.Ops Tree.Script Tree.Inv Tree.InvProofs.
From AV Require Import Tree.Index Tree.IndexProofsBase Tree.IndexProofsTree Tree.IndexProofs Tree.Refs Tree.RefsProofsOps Tree.IndexProofsBridge.
Import Tiny.
Open Scope string_scope.
Open Scope list_scope.
Open Scope N_scope.

(* every data type index is one of 0..10, or the table has no entry *)
Lemma tiny_dt_cases (P : N -> Prop) :
  P 0 -> P 1 -> P 2 -> P 3 -> P 4 -> P 5 -> P 6 -> P 7 -> P 8 -> P 9 -> P 10 -> P 11 ->
  (forall n, T_datatypes tiny n = None -> P n) -> forall n, P n.
Proof.
  intros H0 H1 H2 H3 H4 H5 H6 H7 H8 H9 H10 H11 Hn n.
  destruct n as [|p]; [exact H0|].
  destruct p as [p|p|]; [| |exact H1];
  (destruct p as [p|p|]; [| |first [exact H2|exact H3]]);
  (destruct p as [p|p|]; [| |first [exact H4|exact H5|exact H6|exact H7]]);
  try (destruct p as [p|p|]; [| |first [exact H8|exact H9|exact H10|exact H11]]);
  try (apply Hn; reflexivity).
  all: try (destruct p; apply Hn; reflexivity).
Qed.

Lemma tiny_short_type : short_type tiny tiny_check_fn (3, 3).
Proof.
  split; [reflexivity|]. split; [reflexivity|].
  intros cs v ver Hcs Hck. vm_compute in Hcs. injection Hcs as <-.
  destruct v as [e|s|u|f]; cbn in Hck; try discriminate.
  exists s. split; [reflexivity|].
  destruct (N.of_nat (List.length s) <=? 8); [|discriminate]. cbn in Hck. injection Hck as Hck.
  apply andb_true_iff in Hck as (_ & Hck). apply negb_true_iff in Hck.
  intros Hin. assert (existsb (N.eqb 47) s = true) by (apply existsb_exists; exists 47; split; [exact Hin|reflexivity]).
  congruence.
Qed.

(* looking for SHORT-NAME (3) in any type yields the SHORT-NAME type *)
Lemma tiny_find_short ty v et ix : find_sub_element tiny ty 3 v = Val (Some (et, ix)) -> et = (3, 3).
Proof.
  unfold find_sub_element. generalize (snd ty). clear ty. intros n. pattern n.
  apply tiny_dt_cases; try (intros H; vm_compute in H; discriminate).
  1-4: (intros H; cbv -[N.land] in H;
        repeat match type of H with context [N.land ?a ?k] => destruct (N.land a k) end;
        first [discriminate H | injection H as <- _; reflexivity]).
  - intros n0 Hn. cbn. unfold sub_slice, dt, unwrap. rewrite Hn. cbn. discriminate.
Qed.

Theorem tiny_tables_ok : TablesOK tiny tiny_check_fn.
Proof.
  constructor.
  - intros ty v et ix H. apply tiny_find_short in H. subst et. exact tiny_short_type.
  - intros ty. unfold is_ref, content_mode. generalize (snd ty). clear ty. intros n. pattern n.
    apply tiny_dt_cases; try (intros H; vm_compute in H; discriminate); try reflexivity.
    intros n0 Hn. unfold dt, unwrap. rewrite Hn. cbn. discriminate.
  - intros ty cs v ver. unfold is_ref, chardata_spec. generalize (snd ty). clear ty. intros n. pattern n.
    apply tiny_dt_cases; try (intros H; vm_compute in H; discriminate).
    + intros _ Hcs Hck. vm_compute in Hcs. injection Hcs as <-. destruct v as [e|s|u|f]; cbn in Hck; try discriminate. eauto.
    + intros n0 Hn. unfold dt, unwrap. rewrite Hn. cbn. discriminate.
  - intros ed H. vm_compute in H. injection H as <-. cbn. discriminate.
Qed.

(* ------------------------------------------------------------------ scripts over the tiny table set *)
Definition wof (s : list op) : world := match run_script s empty_world with Val w => w | _ => empty_world end.
Definition script_ok (s : list op) : bool :=
  clean45 tiny tiny_el tiny_en tiny_check_fn LATEST [] s Inv.empty_world && is_val (run_script s empty_world).

Lemma run_script_run_ops s : forall w, run_script s w = Inv.run_ops tiny tiny_el tiny_en tiny_check_fn LATEST [] s w.
Proof.
  induction s as [|o s IH]; intros w; cbn [run_script Inv.run_ops]; [reflexivity|].
  unfold Inv.run, Tiny.run. destruct (run_op tiny tiny_el tiny_en tiny_check_fn LATEST [] o w) as [[r w1]| |]; [apply IH|reflexivity|reflexivity].
Qed.

(* a script whose steps avoid all finding classes and pending constructors ends in a world with all invariants *)
Theorem script_inv s :
  script_ok s = true -> TreeFacts (wof s) /\ Inv04 tiny tiny_check_fn (wof s) /\ Inv05 tiny (wof s).
Proof.
  unfold script_ok, wof. intros H. apply andb_true_iff in H as (Hc & Hv).
  destruct (run_script s empty_world) as [w'| |] eqn:E; try discriminate.
  eapply (C04_C05_reachable_partial tiny tiny_el tiny_en tiny_check_fn LATEST [] tiny_tables_ok s w' Hc).
  rewrite <- run_script_run_ops. exact E.
Qed.

(* ---------- non-vacuity: a world with two packages, a nested identifiable element and a reference *)
Example demo_inv : TreeFacts (wof demo) /\ Inv04 tiny tiny_check_fn (wof demo) /\ Inv05 tiny (wof demo).
Proof. apply script_inv. vm_compute. reflexivity. Qed.

Example demo_content :
  idents_of (wof demo) 0 = [(BS "/A", 2); (BS "/A/S", 5); (BS "/B", 8)] /\ origins_list (wof demo) 0 = [(BS "/B", [7])].
Proof. vm_compute. split; reflexivity. Qed.

(* remove_from_file / remove_file: /B (8) is taken out of the second file, then out of the first one: it is removed
   from the model (its index entry goes, the reference 7 keeps its text and its referrer entry: a dangling reference);
   then the second file is removed from the model *)
Definition files_demo : list op :=
  demo ++ [OpCreateFile 0 (BS "g") 2; OpRemoveFromFile 8 1; OpRemoveFromFile 8 0; OpRemoveFile 0 1].
Example files_demo_inv :
  TreeFacts (wof files_demo) /\ Inv04 tiny tiny_check_fn (wof files_demo) /\ Inv05 tiny (wof files_demo).
Proof. apply script_inv. vm_compute. reflexivity. Qed.
Example files_demo_content :
  trace_script files_demo empty_world =
    map OOk [VModel 0; VFile 0; VElem 1; VElem 2; VElem 4; VElem 5; VElem 7; VElem 8; VUnit; VFile 1; VUnit; VUnit; VUnit] /\
  idents_of (wof files_demo) 0 = [(BS "/A", 2); (BS "/A/S", 5)] /\ origins_list (wof files_demo) 0 = [(BS "/B", [7])] /\
  option_map n_parent (w_nodes (wof files_demo) 8) = Some PNone.
Proof. vm_compute. repeat split; reflexivity. Qed.

Example files_demo_summary :
  (TreeFacts (wof files_demo) /\ Inv04 tiny tiny_check_fn (wof files_demo) /\ Inv05 tiny (wof files_demo)) /\
  idents_of (wof files_demo) 0 = [(BS "/A", 2); (BS "/A/S", 5)] /\ origins_list (wof files_demo) 0 = [(BS "/B", [7])].
Proof. split; [exact files_demo_inv|]. destruct files_demo_content as (_ & H1 & H2 & _). auto. Qed.

(* the hypotheses of the per-operation theorems are satisfiable together with a non-trivial operation *)
Example demo_step_hyps :
  let w := wof demo in let o := OpCreateNamed 4 nSYSTEM (BS "T") in
  TreeFacts w /\ Inv04 tiny tiny_check_fn w /\ Inv05 tiny w /\
  Known04 tiny LATEST w o = false /\ Known05 tiny tiny_el tiny_en tiny_check_fn LATEST [] w o = false /\
  Pending04 w o = false /\ Pending05 w o = false /\
  exists i w', Tiny.run o w = Val (OK (VElem i), w').
Proof.
  cbv zeta. destruct demo_inv as (H1 & H2 & H3). repeat (split; [assumption || (vm_compute; reflexivity)|]).
  eexists. eexists. vm_compute. reflexivity.
Qed.

(* ------------------------------------------------------------------ witnesses of the finding classes *)
Ltac model0 H x Hx :=
  match type of H with
  | context [?w] =>
    match type of w with world =>
      destruct (model_at w 0) as [x|] eqn:Hx; [vm_compute in Hx; injection Hx as Hx; subst x|vm_compute in Hx; discriminate Hx]
    end
  end.

Definition pkgA : list op := setup ++ [OpCreateNamed 1 nPKG (BS "A"); OpCreateSub 2 nELEMENTS].

(* K04-front (mixed-content named element): something is put in front of the SHORT-NAME. *)
Definition front_pre : list op := pkgA ++ [OpCreateNamed 4 nMIXN (BS "Q")].
Definition front_op : op := OpCreateSubAt 5 nTT 0.
Example K04_front_refuted :
  (TreeFacts (wof front_pre) /\ Inv04 tiny tiny_check_fn (wof front_pre)) /\
  Known04 tiny LATEST (wof front_pre) front_op = true /\
  (exists i, trace_script (front_pre ++ [front_op]) empty_world = map OOk [VModel 0; VFile 0; VElem 1; VElem 2; VElem 4; VElem 5; VElem i]) /\
  ~ Inv04 tiny tiny_check_fn (wof (front_pre ++ [front_op])).
Proof.
  split; [destruct (script_inv front_pre) as (H1 & H2 & _); [vm_compute; reflexivity|auto]|].
  split; [vm_compute; reflexivity|]. split; [eexists; vm_compute; reflexivity|].
  intros HI. pose proof (i4_exact _ _ _ HI 0) as HE. unfold IndexExact in HE.
  destruct (model_at (wof (front_pre ++ [front_op])) 0) as [x|] eqn:Hx; [|vm_compute in Hx; discriminate Hx].
  specialize (HE x eq_refl (BS "/A/Q") 5). vm_compute in Hx. injection Hx as <-.
  destruct (proj1 HE eq_refl) as (_ & Hid & _). vm_compute in Hid. discriminate Hid.
Qed.

(* the same class through insert_character_content_item *)
Definition front_op2 : op := OpInsertCItem 5 (BS "x") 0.
Example K04_front_text_refuted :
  Known04 tiny LATEST (wof front_pre) front_op2 = true /\
  ~ Inv04 tiny tiny_check_fn (wof (front_pre ++ [front_op2])).
Proof.
  split; [vm_compute; reflexivity|].
  intros HI. pose proof (i4_exact _ _ _ HI 0) as HE. unfold IndexExact in HE.
  destruct (model_at (wof (front_pre ++ [front_op2])) 0) as [x|] eqn:Hx; [|vm_compute in Hx; discriminate Hx].
  specialize (HE x eq_refl (BS "/A/Q") 5). vm_compute in Hx. injection Hx as <-.
  destruct (proj1 HE eq_refl) as (_ & Hid & _). vm_compute in Hid. discriminate Hid.
Qed.

(* K04-front (SHORT-NAME created through the generic API): OLD-THING is created unnamed in a file of version bit 2
   (its SHORT-NAME exists in version bit 1 only); a second file of version bit 1 lowers min_version; then
   create_sub_element(SHORT-NAME) succeeds: an identifiable element without item name and without index entry, whose
   path() equals the path of the enclosing package. *)
Definition late_pre : list op := pkgA ++ [OpCreateSub 4 nOLD; OpCreateFile 0 (BS "g") 1].
Definition late_op : op := OpCreateSub 5 nSHORT.
Example K04_late_short_name_refuted :
  (TreeFacts (wof late_pre) /\ Inv04 tiny tiny_check_fn (wof late_pre)) /\
  Known04 tiny LATEST (wof late_pre) late_op = true /\
  ~ Inv04 tiny tiny_check_fn (wof (late_pre ++ [late_op])) /\
  (* observable: the unnamed element answers path() with the path of package /A *)
  (exists w', q_path tiny 5 (wof (late_pre ++ [late_op])) = Val (OK (BS "/A"), w')).
Proof.
  split; [destruct (script_inv late_pre) as (H1 & H2 & _); [vm_compute; reflexivity|auto]|].
  split; [vm_compute; reflexivity|]. split.
  - intros HI. pose proof (i4_named _ _ _ HI 5) as HA.
    destruct (w_nodes (wof (late_pre ++ [late_op])) 5) as [n|] eqn:Hn; [|vm_compute in Hn; discriminate Hn].
    specialize (HA n eq_refl). vm_compute in Hn. injection Hn as <-. apply HA; vm_compute; reflexivity.
  - eexists. vm_compute. reflexivity.
Qed.

(* K04-move-short: a SHORT-NAME element is moved out of its element (into an element that has none). *)
Definition mv_pre : list op := late_pre ++ [OpCreateNamed 4 nSYSTEM (BS "S")].
Definition mv_op : op := OpMove 5 7.
Example K04_move_short_name_refuted :
  (TreeFacts (wof mv_pre) /\ Inv04 tiny tiny_check_fn (wof mv_pre)) /\
  Known04 tiny LATEST (wof mv_pre) mv_op = true /\
  ~ Inv04 tiny tiny_check_fn (wof (mv_pre ++ [mv_op])).
Proof.
  split; [destruct (script_inv mv_pre) as (H1 & H2 & _); [vm_compute; reflexivity|auto]|].
  split; [vm_compute; reflexivity|].
  intros HI. pose proof (i4_exact _ _ _ HI 0) as HE. unfold IndexExact in HE.
  destruct (model_at (wof (mv_pre ++ [mv_op])) 0) as [x|] eqn:Hx; [|vm_compute in Hx; discriminate Hx].
  specialize (HE x eq_refl (BS "/A/S") 6). vm_compute in Hx. injection Hx as <-.
  destruct (proj1 HE eq_refl) as (_ & Hid & _). vm_compute in Hid. discriminate Hid.
Qed.

(* K05-setref: set_reference_target registers the reference under the new path, then the text write fails (here:
   the path is longer than the reference type allows): the call returns an error, the element has no text, but
   get_references_to(path) lists it. *)
Definition sr_pre : list op :=
  setup ++ [OpCreateNamed 1 nPKG (BS "Abcdefgh"); OpCreateSub 2 nELEMENTS; OpCreateNamed 4 nSYSTEM (BS "Sbcdefgh"); OpCreateSub 5 nREF].
Definition sr_op : op := OpSetRefTarget 7 5.
Example K05_set_reference_target_refuted :
  (TreeFacts (wof sr_pre) /\ Inv04 tiny tiny_check_fn (wof sr_pre) /\ Inv05 tiny (wof sr_pre)) /\
  Known05 tiny tiny_el tiny_en tiny_check_fn LATEST [] (wof sr_pre) sr_op = true /\
  (exists w', Tiny.run sr_op (wof sr_pre) = Val (ER IncorrectContentType, w')) /\
  ~ Inv05 tiny (wof (sr_pre ++ [sr_op])).
Proof.
  split; [apply script_inv; vm_compute; reflexivity|].
  split; [vm_compute; reflexivity|]. split; [eexists; vm_compute; reflexivity|].
  intros HI. pose proof (i5_exact _ _ HI 0) as HE. unfold RefsExact in HE.
  destruct (model_at (wof (sr_pre ++ [sr_op])) 0) as [x|] eqn:Hx; [|vm_compute in Hx; discriminate Hx].
  destruct (HE x eq_refl (BS "/Abcdefgh/Sbcdefgh")) as (_ & Hiff). vm_compute in Hx. injection Hx as <-.
  destruct (proj1 (Hiff 7) (or_introl eq_refl)) as (_ & Ht). vm_compute in Ht. discriminate Ht.
Qed.

(* K04-copy-container: create_copied_sub_element of a NON-identifiable container (GROUP, like SDG) that holds an
   identifiable element (/A/S): only the copied element itself would get a unique name; the nested element of the copy is
   registered under the unchanged path /A/S and replaces the original's entry: two elements with path /A/S. *)
Definition cc_pre : list op := pkgA ++ [OpCreateSub 4 nGROUP; OpCreateNamed 5 nSYSTEM (BS "S")].
Definition cc_op : op := OpCopy 4 5.
Example K04_copy_container_refuted :
  (TreeFacts (wof cc_pre) /\ Inv04 tiny tiny_check_fn (wof cc_pre)) /\
  Known04 tiny LATEST (wof cc_pre) cc_op = true /\
  (exists i w', Tiny.run cc_op (wof cc_pre) = Val (OK (VElem i), w')) /\
  ~ Inv04 tiny tiny_check_fn (wof (cc_pre ++ [cc_op])).
Proof.
  split; [destruct (script_inv cc_pre) as (H1 & H2 & _); [vm_compute; reflexivity|auto]|].
  split; [vm_compute; reflexivity|]. split; [eexists; eexists; vm_compute; reflexivity|].
  intros HI. pose proof (i4_exact _ _ _ HI 0) as HE. unfold IndexExact in HE.
  destruct (model_at (wof (cc_pre ++ [cc_op])) 0) as [x|] eqn:Hx; [|vm_compute in Hx; discriminate Hx].
  (* the original element 6 is still an identifiable part of the model with path /A/S, but the index maps /A/S elsewhere *)
  specialize (HE x eq_refl (BS "/A/S") 6). vm_compute in Hx. injection Hx as <-.
  set (W := wof (cc_pre ++ [cc_op])) in *.
  assert (C01 : child_of W 0 1) by (eexists; split; [vm_compute; reflexivity|cbn; auto 10]).
  assert (C12 : child_of W 1 2) by (eexists; split; [vm_compute; reflexivity|cbn; auto 10]).
  assert (C24 : child_of W 2 4) by (eexists; split; [vm_compute; reflexivity|cbn; auto 10]).
  assert (C45 : child_of W 4 5) by (eexists; split; [vm_compute; reflexivity|cbn; auto 10]).
  assert (C56 : child_of W 5 6) by (eexists; split; [vm_compute; reflexivity|cbn; auto 10]).
  assert (HS : SpecPath tiny W 0 6 (BS "/A/S")).
  { eexists. split; [vm_compute; reflexivity|]. cbn [m_root].
    exists (seg tiny W 1 ++ seg tiny W 2 ++ seg tiny W 4 ++ seg tiny W 5 ++ seg tiny W 6 ++ []).
    split; [|vm_compute; reflexivity].
    apply (dpath_cons tiny W 0 1 6 _ C01). apply (dpath_cons tiny W 1 2 6 _ C12). apply (dpath_cons tiny W 2 4 6 _ C24).
    apply (dpath_cons tiny W 4 5 6 _ C45). apply (dpath_cons tiny W 5 6 6 _ C56). constructor. }
  assert (HP : PathSet tiny W 0 (BS "/A/S") 6).
  { split; [eapply specpath_mreach; exact HS|]. split; [vm_compute; reflexivity|exact HS]. }
  apply HE in HP. vm_compute in HP. discriminate HP.
Qed.
