(* Tree/CopyProofsUnique.v — C13: the search for a free name in make_unique_item_name cannot run out of fuel.
   The candidates orig, orig_1, orig_2, ... are pairwise different (decimal text is injective, Tree/NoPanicProofsDec.v),
   the index has |idents| entries, so one of the first |idents|+1 candidates is free (pigeonhole); the loop is given
   |idents|+2 rounds. *)
From AV Require Import Base.Bytes Base.Outcome Hash.HashModel Tree.Heap Tree.Ops Tree.NoPanicProofsDec.
From Coq Require Import Lia PeanoNat.
Open Scope string_scope.
Open Scope list_scope.
Open Scope N_scope.

Definition cand (orig : list N) (k : nat) : list N :=
  match k with O => orig | S _ => orig ++ [95] ++ to_dec (N.of_nat k) end.

Lemma cand_inj orig i j : N.of_nat i < 10 ^ 40 -> N.of_nat j < 10 ^ 40 -> cand orig i = cand orig j -> i = j.
Proof.
  intros Li Lj E. destruct i as [|i], j as [|j]; cbn [cand] in E; [reflexivity| | |].
  - exfalso. rewrite <- (app_nil_r orig) in E at 1. apply app_inv_head in E. discriminate.
  - exfalso. rewrite <- (app_nil_r orig) in E at 2. apply app_inv_head in E. discriminate.
  - apply app_inv_head in E. injection E as E. apply to_dec_inj in E; [|exact Li|exact Lj]. lia.
Qed.

Lemma unique_loop_runs w m pp orig x :
  nth_opt (w_models w) (N.to_nat m) = Some x ->
  forall fuel k j, (k <= j)%nat -> assoc_get (pp ++ [47] ++ cand orig j) (m_idents x) = None -> (j - k < fuel)%nat ->
  exists i, (k <= i <= j)%nat /\ assoc_get (pp ++ [47] ++ cand orig i) (m_idents x) = None /\
    unique_loop fuel m pp orig (cand orig k) (N.of_nat (S k)) w = Val (OK (cand orig i, N.of_nat (S i)), w).
Proof.
  intros EX. induction fuel as [|fuel IH]; intros k j KJ FREE F; [lia|]. cbn [unique_loop].
  unfold get_element_by_path, wbind at 1, wbind at 1, get_model. rewrite EX. unfold wret at 1.
  destruct (assoc_get (pp ++ [47] ++ cand orig k) (m_idents x)) eqn:E.
  - assert (K1 : (S k <= j)%nat). { destruct (Nat.eq_dec k j) as [->|NE]; [congruence|lia]. }
    replace (N.of_nat (S k) + 1) with (N.of_nat (S (S k))) by lia.
    change (orig ++ [95] ++ to_dec (N.of_nat (S k))) with (cand orig (S k)).
    destruct (IH (S k) j K1 FREE ltac:(lia)) as (i1 & Hi & Hfree & Hrun). exists i1. split; [lia|]. split; [exact Hfree|exact Hrun].
  - exists k. split; [lia|]. split; [exact E|reflexivity].
Qed.

(* the call made by make_unique_item_name: it returns, with a candidate that is free in the index; the loop looks at
   no more than |idents|+1 candidates although it is given |idents|+2 rounds *)
Theorem unique_loop_total w m pp orig x :
  nth_opt (w_models w) (N.to_nat m) = Some x -> N.of_nat (List.length (m_idents x)) < 10 ^ 40 ->
  exists i, (i <= List.length (m_idents x))%nat /\
    assoc_get (pp ++ [47] ++ cand orig i) (m_idents x) = None /\
    unique_loop (S (S (List.length (m_idents x)))) m pp orig orig 1 w = Val (OK (cand orig i, N.of_nat (S i)), w).
Proof.
  intros EX SZ.
  destruct (pigeon (m_idents x) (fun k => pp ++ [47] ++ cand orig k)) as (j & Lj & FREE).
  { intros i j0 Hi Hj E. apply app_inv_head in E. apply app_inv_head in E. apply (cand_inj orig i j0); [lia|lia|exact E]. }
  destruct (unique_loop_runs w m pp orig x EX (S (S (List.length (m_idents x)))) 0 j ltac:(lia) FREE ltac:(lia)) as (i & Hi & Hfree & Hrun).
  exists i. split; [lia|]. split; [exact Hfree|exact Hrun].
Qed.
