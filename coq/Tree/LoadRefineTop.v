(* Tree/LoadRefineTop.v — C09 on the heap model: load_parsed (everything load_buffer_internal does after the parse) on a
   model whose tree is abstracted by [AbsA] computes the pure merge; for the class Good the loads of the partial views
   of a master yield the master ([heap_union]). *)
From Coq Require Import Permutation.
From AV Require Import Base.Bytes Base.Outcome Hash.HashModel Tree.Heap Tree.Ops Tree.Script Tree.Load Tree.MergeSpec
  Tree.MergePure Tree.LoadProofsBase Tree.LoadProofs Tree.LoadProofsWalk Tree.MergePureProofsBase Tree.MergePureProofs
  Tree.MergePureProofsMain Tree.MergePureProofsKeys Tree.LoadRefineBase Tree.LoadRefineWalk Tree.LoadRefineKeys
  Tree.LoadRefinePure Tree.LoadRefineHeap Tree.LoadRefineSlots Tree.LoadRefineMain Tree.LoadRefineGood.
From AV Require Xml.Lexer Xml.Parser.
Open Scope string_scope.
Open Scope list_scope.
Open Scope N_scope.

(* ------------------------------------------------------------------ depth, fuel *)
Lemma hdepth_erase_n n : forall a, (adepth a <= n)%nat -> hdepth (erase a) = adepth a.
Proof.
  induction n as [|n IH]; intros [i name ty attrs content cm loc] Hd; rewrite adepth_unfold in *; [lia|].
  rewrite erase_unfold, hdepth_unfold. f_equal.
  assert (G : forall l, (adepth_items l <= n)%nat -> hdepth_items (erase_items l) = adepth_items l).
  { induction l as [|[c|d] r IHr]; cbn [erase_items hdepth_items adepth_items]; intros H; [reflexivity| |apply IHr; exact H].
    rewrite IH, IHr by lia. reflexivity. }
  apply G. lia.
Qed.
Lemma hdepth_erase a : hdepth (erase a) = adepth a.
Proof. apply (hdepth_erase_n (adepth a)). lia. Qed.

Lemma adepth_le_aids_n n : forall a, (adepth a <= n)%nat -> (adepth a <= List.length (aids a))%nat.
Proof.
  induction n as [|n IH]; intros [i name ty attrs content cm loc] Hd; rewrite adepth_unfold in *; [lia|].
  rewrite aids_unfold. cbn [List.length]. apply le_n_S.
  assert (G : forall l, (adepth_items l <= n)%nat -> (adepth_items l <= List.length (aids_items l))%nat).
  { induction l as [|[c|d] r IHr]; cbn [aids_items adepth_items]; intros H; [lia| |apply IHr; exact H].
    rewrite app_length. pose proof (IH c). pose proof IHr. lia. }
  apply G. lia.
Qed.

Lemma nodup_bound (l : list N) n : NoDup l -> (forall x, In x l -> x < n) -> (List.length l <= N.to_nat n)%nat.
Proof.
  intros Hnd Hb. rewrite <- (seq_length (N.to_nat n) 0), <- (map_length N.of_nat).
  apply NoDup_incl_length; [exact Hnd|]. intros x Hx. apply in_map_iff. exists (N.to_nat x).
  split; [apply N2Nat.id|]. apply in_seq. specialize (Hb x Hx). lia.
Qed.

Lemma adepth_fuel a w : NoDup (aids a) -> (forall i, In i (aids a) -> i < w_next w) -> (adepth a < fuel_of w)%nat.
Proof.
  intros Hnd Hb. unfold fuel_of. pose proof (adepth_le_aids_n (adepth a) a (le_n _)) as H1. pose proof (nodup_bound _ _ Hnd Hb) as H2.
  apply PeanoNat.Nat.lt_succ_r. eapply PeanoNat.Nat.le_trans; [exact H1|exact H2].
Qed.

(* ------------------------------------------------------------------ reading the tree back: abs, dfs_ids *)
Fixpoint abs_items (f : nat) (w : world) (l : list citem) : option (list (htree + cdata)) :=
  match l with
  | [] => Some []
  | CElem c :: r => match abs f w c, abs_items f w r with Some h, Some hs => Some (inl h :: hs) | _, _ => None end
  | CData d :: r => match abs_items f w r with Some hs => Some (inr d :: hs) | None => None end
  end.

Lemma abs_unfold f w i :
  abs (S f) w i =
  match w_nodes w i with
  | None => None
  | Some n => match abs_items f w (n_content n) with
              | Some cs => Some (HNode (n_name n) (n_type n) (n_attrs n) cs (n_comment n) (n_files n))
              | None => None
              end
  end.
Proof.
  cbn [abs]. destruct (w_nodes w i) as [n|]; [|reflexivity].
  assert (E : forall l, (fix go (l : list citem) : option (list (htree + cdata)) :=
               match l with
               | [] => Some []
               | CElem c :: r => match abs f w c, go r with Some h, Some hs => Some (inl h :: hs) | _, _ => None end
               | CData d :: r => match go r with Some hs => Some (inr d :: hs) | None => None end
               end) l = abs_items f w l).
  { induction l as [|[c|d] r IHr]; cbn [abs_items]; [reflexivity| |]; rewrite IHr; reflexivity. }
  rewrite E. reflexivity.
Qed.

Lemma abs_of_AbsA fuel : forall a w, (adepth a <= fuel)%nat -> AbsA w a -> abs fuel w (a_id a) = Some (erase a).
Proof.
  induction fuel as [|f IH]; intros [i name ty attrs content cm loc] w Hd HA; rewrite adepth_unfold in Hd; [lia|].
  apply AbsA_unfold in HA as ((p & Hp) & HI). cbn [a_id]. rewrite abs_unfold, Hp. cbn [n_content n_name n_type n_attrs n_comment n_files].
  assert (G : forall l, (adepth_items l <= f)%nat -> AbsItems w l -> abs_items f w (map citem_of l) = Some (erase_items l)).
  { induction l as [|[c|d] r IHr]; cbn [map citem_of AbsItems adepth_items erase_items abs_items]; intros H HIl; [reflexivity| |].
    - destruct HIl as [H1 H2]. rewrite (IH c w) by (auto; lia). rewrite IHr by (auto; lia). reflexivity.
    - rewrite IHr by auto. reflexivity. }
  rewrite G by (auto; lia). rewrite erase_unfold. reflexivity.
Qed.

Fixpoint dfs_items (f : nat) (l : list citem) : W (list id) :=
  match l with
  | [] => wret []
  | CElem c :: r => (do a <- dfs_ids f c; do b <- dfs_items f r; wret (a ++ b))%W
  | CData _ :: r => dfs_items f r
  end.

Lemma dfs_unfold f i w :
  dfs_ids (S f) i w = (do n <- get_node i; do rest <- dfs_items f (n_content n); wret (i :: rest))%W w.
Proof.
  cbn [dfs_ids]. apply wbind_ext. intros n w1. apply wbind_ext2.
  induction (n_content n) as [|[c|d] r IHr]; intros w2; cbn [dfs_items]; [reflexivity| |apply IHr].
  apply wbind_ext. intros a w3. apply wbind_ext2. exact IHr.
Qed.

Lemma dfs_abs fuel : forall a w, (adepth a <= fuel)%nat -> AbsA w a -> dfs_ids fuel (a_id a) w = Val (OK (aids a), w).
Proof.
  induction fuel as [|f IH]; intros [i name ty attrs content cm loc] w Hd HA; rewrite adepth_unfold in Hd; [lia|].
  apply AbsA_unfold in HA as ((p & Hp) & HI). cbn [a_id]. rewrite dfs_unfold.
  unfold wbind at 1. unfold get_node at 1. rewrite Hp. cbn [n_content].
  assert (G : forall l, (adepth_items l <= f)%nat -> AbsItems w l -> dfs_items f (map citem_of l) w = Val (OK (aids_items l), w)).
  { induction l as [|[c|d] r IHr]; cbn [map citem_of AbsItems adepth_items aids_items dfs_items]; intros H HIl; [reflexivity| |].
    - destruct HIl as [H1 H2]. unfold wbind at 1. rewrite (IH c w) by (auto; lia).
      unfold wbind at 1. rewrite IHr by (auto; lia). reflexivity.
    - apply IHr; auto. }
  unfold wbind at 1. rewrite G by (auto; lia). rewrite aids_unfold. reflexivity.
Qed.

(* ------------------------------------------------------------------ install: the parsed tree, on fresh nodes *)
Lemma above_agree b w w' l : above b w w' -> (forall x, In x l -> x < b) -> agree w w' l.
Proof. intros (_ & H & _) Hl i Hi. apply H. apply Hl. exact Hi. Qed.
Lemma above_weaken b b' w w' : b' <= b -> above b w w' -> above b' w w'.
Proof. intros Hb (A1 & A2 & A3 & A4). repeat split; auto. intros i Hi. apply A2. lia. Qed.

Lemma install_abs : forall e parent w t w',
  install parent e w = Val (OK t, w') ->
  exists tb, AbsA w' tb /\ erase tb = htree_of_etree e /\ a_id tb = w_next w /\ it_id t = w_next w /\
             (forall x, In x (aids tb) -> w_next w <= x < w_next w') /\ NoDup (aids tb) /\ a_local tb = [].
Proof.
  fix IH 1. intros [name ty attrs content comment] parent w t w' H.
  cbn [install] in H.
  apply wbind_inv in H as [(i & w1 & H1 & H2) | (e' & H1 & [=])].
  apply alloc_inv in H1 as ([= ->] & Ew1).
  set (n0 := mkNode parent name ty [] (map (fun a => (fst a, to_hc (snd a))) attrs) [] comment) in *.
  apply wbind_inv in H2 as [([items kids] & w2 & H3 & H4) | (e' & H3 & [=])].
  assert (G : exists l, AbsItems w2 l /\ erase_items l = hitems_of_eitems content /\ map citem_of l = items /\
                        (forall x, In x (aids_items l) -> w_next w1 <= x < w_next w2) /\ NoDup (aids_items l) /\
                        above (w_next w1) w1 w2).
  { clear H4 Ew1. revert items kids w1 w2 H3.
    induction content as [|[c|d] rest IHr]; intros items kids w1 w2 H3.
    - apply wret_inv in H3 as ([= -> ->] & ->). exists []. cbn [AbsItems erase_items hitems_of_eitems map aids_items].
      split; [exact I|]. split; [reflexivity|]. split; [reflexivity|]. split; [intros x []|]. split; [constructor|apply above_refl].
    - apply wbind_inv in H3 as [(tc & w3 & H5 & H6) | (e' & H5 & [=])].
      destruct (IH _ _ _ _ _ H5) as (tbc & HAc & Eec & Eidc & Eitc & Hrc & Hndc & _).
      pose proof (above_install (w_next w1) _ _ _ _ _ (N.le_refl _) H5) as A3.
      apply wbind_inv in H6 as [([cs ts] & w4 & H7 & H8) | (e' & H7 & [=])].
      apply wret_inv in H8 as ([= -> ->] & ->).
      destruct (IHr _ _ _ _ H7) as (l & HIl & Eel & Eml & Hrl & Hndl & A4).
      assert (L13 : w_next w1 <= w_next w3) by (destruct A3 as (A31 & _); exact A31).
      assert (L34 : w_next w3 <= w_next w4) by (destruct A4 as (A41 & _); exact A41).
      exists (inl tbc :: l). cbn [AbsItems erase_items hitems_of_eitems map citem_of aids_items].
      split.
      { split; [|exact HIl]. apply (AbsA_frame' tbc w3 w4); [|exact HAc]. eapply above_agree; [exact A4|].
        intros x Hx. apply Hrc in Hx. lia. }
      split; [rewrite Eec, Eel; reflexivity|].
      split; [rewrite Eml, Eidc, <- Eitc; reflexivity|].
      split.
      { intros x Hx. apply in_app_or in Hx as [Hx|Hx]; [apply Hrc in Hx|apply Hrl in Hx]; lia. }
      split.
      { apply nodup_app_intro_g; auto. intros x Hx Hx2. apply Hrc in Hx. apply Hrl in Hx2. lia. }
      eapply above_trans; [exact A3|]. eapply above_weaken; [|exact A4]. exact L13.
    - apply wbind_inv in H3 as [([cs ts] & w4 & H7 & H8) | (e' & H7 & [=])].
      apply wret_inv in H8 as ([= -> ->] & ->).
      destruct (IHr _ _ _ _ H7) as (l & HIl & Eel & Eml & Hrl & Hndl & A4).
      exists (inr (to_hc d) :: l). cbn [AbsItems erase_items hitems_of_eitems map citem_of aids_items].
      split; [exact HIl|]. split; [rewrite Eel; reflexivity|]. split; [rewrite Eml; reflexivity|].
      split; [exact Hrl|]. split; [exact Hndl|exact A4]. }
  destruct G as (l & HIl & Eel & Eml & Hrl & Hndl & A2).
  apply wbind_inv in H4 as [(u & w3 & H5 & H6) | (e' & H5 & [=])].
  apply wret_inv in H6 as ([= ->] & ->).
  apply modify_node_inv in H5 as (n & Hn & _ & ->).
  assert (Hnext1 : w_next w1 = w_next w + 1) by (rewrite Ew1; reflexivity).
  assert (L12 : w_next w1 <= w_next w2) by (destruct A2 as (A21 & _); exact A21).
  assert (En : n = n0).
  { destruct A2 as (_ & A22 & _). rewrite A22 in Hn by lia. rewrite Ew1 in Hn. cbn [w_nodes] in Hn. rewrite upd_eq in Hn.
    injection Hn as <-. reflexivity. }
  exists (ANode (w_next w) name ty (hattrs attrs) l comment []).
  split.
  { apply AbsA_unfold. split.
    - exists parent. cbn [w_nodes]. rewrite upd_eq, En. unfold n0, set_content. cbn. rewrite Eml. reflexivity.
    - apply (AbsItems_frame l w2); [|exact HIl]. intros x Hx. cbn [w_nodes]. apply upd_neq. apply Hrl in Hx. lia. }
  split; [rewrite erase_unfold, htree_of_etree_unfold, Eel; reflexivity|].
  split; [reflexivity|]. split; [reflexivity|].
  split.
  { rewrite aids_unfold. cbn [w_next]. intros x [<-|Hx]; [lia|]. apply Hrl in Hx. lia. }
  split; [|reflexivity].
  rewrite aids_unfold. constructor; [|exact Hndl]. intros Hin. apply Hrl in Hin. lia.
Qed.

(* ------------------------------------------------------------------ the stages of load_parsed *)
Lemma erase_set_local c l : erase (a_set_local c l) = h_set_local (erase c) l.
Proof. destruct c. reflexivity. Qed.

Lemma modify_model_fwd m f w x :
  nth_opt (w_models w) (N.to_nat m) = Some x ->
  modify_model m f w = Val (OK tt, mkWorld (w_nodes w) (w_next w) (w_files w) (list_set (w_models w) (N.to_nat m) (f x))).
Proof. intros H. unfold modify_model, wbind, get_model, set_model. rewrite H. reflexivity. Qed.

(* only the model record m changes, and neither its root nor its file list *)
Definition MOnly (m : N) (w w' : world) : Prop :=
  w_nodes w' = w_nodes w /\ w_next w' = w_next w /\ w_files w' = w_files w /\
  forall x, nth_opt (w_models w) (N.to_nat m) = Some x ->
    exists x', nth_opt (w_models w') (N.to_nat m) = Some x' /\ m_root x' = m_root x /\ m_files x' = m_files x.

Lemma MOnly_refl m w : MOnly m w w.
Proof. repeat split; auto. intros x Hx. exists x. auto. Qed.
Lemma MOnly_trans m w1 w2 w3 : MOnly m w1 w2 -> MOnly m w2 w3 -> MOnly m w1 w3.
Proof.
  intros (A1 & A2 & A3 & A4) (B1 & B2 & B3 & B4). repeat split; try congruence.
  intros x Hx. destruct (A4 x Hx) as (x' & Hx' & E1 & E2). destruct (B4 x' Hx') as (x'' & Hx'' & E3 & E4).
  exists x''. repeat split; congruence.
Qed.
Lemma MOnly_modify_model m f w r w' :
  (forall x, m_root (f x) = m_root x /\ m_files (f x) = m_files x) -> modify_model m f w = Val (r, w') ->
  r = OK tt /\ MOnly m w w'.
Proof.
  intros Hf H. apply modify_model_inv in H as (x0 & Hx0 & -> & ->). split; [reflexivity|]. repeat split; cbn; auto.
  intros x Hx. rewrite Hx0 in Hx. injection Hx as <-. exists (f x0). split; [eapply list_set_nth_eq; eauto|apply Hf].
Qed.

Section Top.
Variable T : tables.
Variables LATEST defref : N.

Lemma MOnly_fill_identifiables m t : forall l w r w', fill_identifiables m t l w = Val (r, w') -> r = OK tt /\ MOnly m w w'.
Proof.
  induction l as [|[key pos] l IH]; intros w r w' H; cbn [fill_identifiables] in H.
  - apply wret_inv in H as (-> & ->). split; [reflexivity|apply MOnly_refl].
  - destruct (it_at t pos) as [value|]; [|discriminate].
    apply wbind_inv in H as [(w0 & w1 & H1 & H) | (e' & H1 & _)]; [|apply wget_inv in H1 as ([=] & _)].
    apply wget_inv in H1 as (_ & ->).
    apply wbind_inv in H as [(x & w2 & H2 & H) | (e' & H2 & _)]; [|apply get_model_inv in H2 as (? & _ & [=] & _)].
    apply get_model_inv in H2 as (x' & _ & _ & ->).
    destruct (ident_live w0 x key); [apply IH; exact H|].
    apply wbind_inv in H as [(u & w3 & H3 & H) | (e' & H3 & _)].
    + unfold add_identifiable in H3. apply MOnly_modify_model in H3 as (_ & M1); [|intros y; split; reflexivity].
      apply IH in H as (-> & M2). split; [reflexivity|eapply MOnly_trans; eauto].
    + unfold add_identifiable in H3. apply modify_model_inv in H3 as (? & _ & [=] & _).
Qed.

Lemma MOnly_fill_references m t : forall l w r w', fill_references m t l w = Val (r, w') -> r = OK tt /\ MOnly m w w'.
Proof.
  induction l as [|[key pos] l IH]; intros w r w' H; cbn [fill_references] in H.
  - apply wret_inv in H as (-> & ->). split; [reflexivity|apply MOnly_refl].
  - destruct (it_at t pos) as [value|]; [|discriminate].
    apply wbind_inv in H as [(u & w3 & H3 & H) | (e' & H3 & _)].
    + unfold add_reference_origin in H3. apply MOnly_modify_model in H3 as (_ & M1); [|intros y; split; reflexivity].
      apply IH in H as (-> & M2). split; [reflexivity|eapply MOnly_trans; eauto].
    + unfold add_reference_origin in H3. apply modify_model_inv in H3 as (? & _ & [=] & _).
Qed.

Lemma fold_kill_keep keep ids : forall f j,
  existsb (N.eqb j) keep = true ->
  fold_left (fun f i => if existsb (N.eqb i) keep then f
                        else match f i with Some n => upd f i (kill n) | None => f end) ids f j = f j.
Proof.
  induction ids as [|i ids IH]; intros f j Hj; cbn [fold_left]; [reflexivity|].
  rewrite IH by exact Hj. destruct (existsb (N.eqb i) keep) eqn:E; [reflexivity|].
  destruct (f i); [|reflexivity]. apply upd_neq. intros ->. congruence.
Qed.

Lemma kill_unreachable_keep from keep w r w' :
  kill_unreachable from keep w = Val (r, w') ->
  r = OK tt /\ w_next w' = w_next w /\ w_files w' = w_files w /\ w_models w' = w_models w /\
  (forall j, In j keep -> w_nodes w' j = w_nodes w j).
Proof.
  unfold kill_unreachable. intros [= <- <-]. cbn. repeat split; auto.
  intros j Hj. apply fold_kill_keep. apply existsb_exists. exists j. split; [exact Hj|apply N.eqb_refl].
Qed.

(* the model m of the world is the tree ta, loaded from the files `files` *)
Definition ModelTree (w : world) (m : N) (ta : atree) (files : list N) : Prop :=
  (exists x, nth_opt (w_models w) (N.to_nat m) = Some x /\ m_root x = a_id ta /\ m_files x = files) /\
  AbsA w ta /\ NoDup (aids ta) /\ (forall i, In i (aids ta) -> i < w_next w).

(* what load_parsed does once the new file is registered: the stage (first file / merge), the index fills, the file
   list, and the drop of the local references *)
Definition load_tail (m fid base : N) (t : itree) (st : Parser.pstate) (stage : W unit) : W N :=
  (do r <- wcatch
     (stage;;
      fill_identifiables m t (rev (Parser.p_idents st));;
      fill_references m t (rev (Parser.p_refs st));;
      modify_model m (fun y => set_mfiles y (m_files y ++ [fid])));
   do x3 <- get_model m;
   do w3 <- wget;
   do keep <- dfs_ids (fuel_of w3) (m_root x3);
   kill_unreachable base keep;;
   match r with
   | OK _ => wret fid
   | ER e => drop_file fid;; wfail e
   end)%W.

Lemma load_tail_ok m fid base t st stage w wS taS files r w' :
  stage w = Val (OK tt, wS) ->
  ModelTree wS m taS files ->
  load_tail m fid base t st stage w = Val (r, w') ->
  r = OK fid /\ ModelTree w' m taS (files ++ [fid]) /\ w_files w' = w_files wS /\ w_next w' = w_next wS.
Proof.
  intros Hstage ((x & Hx & Hroot & Hfiles) & HA & Hnd & Hb) H. unfold load_tail in H.
  apply wbind_inv in H as [(r0 & w4 & H1 & H) | (e' & H1 & _)]; [|apply wcatch_inv in H1 as (? & _ & [=])].
  apply wcatch_inv in H1 as (r1 & H1 & [= ->]).
  apply wbind_inv in H1 as [(u & wS' & H2 & H1) | (e' & H2 & _)]; [|rewrite Hstage in H2; discriminate].
  rewrite Hstage in H2. injection H2 as <- <-.
  apply wbind_inv in H1 as [(u1 & wa & H3 & H1) | (e' & H3 & _)]; [|apply MOnly_fill_identifiables in H3 as ([=] & _)].
  apply MOnly_fill_identifiables in H3 as (_ & Ma).
  apply wbind_inv in H1 as [(u2 & wb & H4 & H1) | (e' & H4 & _)]; [|apply MOnly_fill_references in H4 as ([=] & _)].
  apply MOnly_fill_references in H4 as (_ & Mb).
  pose proof (MOnly_trans _ _ _ _ Ma Mb) as (B1 & B2 & B3 & B4).
  destruct (B4 x Hx) as (xb & Hxb & Er & Ef).
  apply modify_model_inv in H1 as (xb' & Hxb' & -> & ->). rewrite Hxb in Hxb'. injection Hxb' as <-.
  set (x4 := set_mfiles xb (m_files xb ++ [fid])) in *.
  set (w4 := mkWorld (w_nodes wb) (w_next wb) (w_files wb) (list_set (w_models wb) (N.to_nat m) x4)) in *.
  assert (Hx4 : nth_opt (w_models w4) (N.to_nat m) = Some x4) by (apply (list_set_nth_eq _ _ _ _ Hxb)).
  assert (Hf4 : m_files x4 = files ++ [fid]) by (unfold x4; cbn; rewrite Ef, Hfiles; reflexivity).
  assert (N41 : w_nodes w4 = w_nodes wS) by exact B1.
  assert (N42 : w_next w4 = w_next wS) by exact B2.
  assert (N43 : w_files w4 = w_files wS) by exact B3.
  assert (N44 : m_root x4 = a_id taS) by (unfold x4; cbn; congruence).
  assert (HA4 : AbsA w4 taS).
  { apply (AbsA_frame' taS wS w4); [|exact HA]. intros i _. rewrite N41. reflexivity. }
  apply wbind_inv in H as [(x3 & w5 & H5 & H) | (e' & H5 & _)]; [|apply get_model_inv in H5 as (? & _ & [=] & _)].
  apply get_model_inv in H5 as (x3' & Hx3 & [= <-] & ->). rewrite Hx4 in Hx3. injection Hx3 as <-.
  apply wbind_inv in H as [(w3 & w5 & H6 & H) | (e' & H6 & _)]; [|apply wget_inv in H6 as ([=] & _)].
  apply wget_inv in H6 as ([= ->] & ->).
  assert (Hb4 : forall i, In i (aids taS) -> i < w_next w4) by (intros i Hi; rewrite N42; apply Hb; exact Hi).
  pose proof (adepth_fuel taS w4 Hnd Hb4) as Hfuel.
  rewrite N44 in H.
  unfold wbind at 1 in H. rewrite (dfs_abs (fuel_of w4) taS w4) in H by (auto; lia).
  apply wbind_inv in H as [(u & w6 & H7 & H) | (e' & H7 & _)]; [|apply kill_unreachable_keep in H7 as ([=] & _)].
  apply kill_unreachable_keep in H7 as (_ & K1 & K2 & K3 & K4).
  apply wret_inv in H as (-> & ->).
  split; [reflexivity|]. split; [|split; congruence].
  split; [exists x4; rewrite K3; auto|].
  split; [apply (AbsA_frame' taS w4 w6); [intros i Hi; apply K4; exact Hi|exact HA4]|].
  split; [exact Hnd|]. intros i Hi. rewrite K1. apply Hb4. exact Hi.
Qed.

End Top.

Section Steps.
Variable T : tables.
Variables LATEST defref : N.

(* merge_file_data: merge_element at the root, then the root joins the new file *)
Lemma merge_file_data_refines m x ta tb fid w ha' :
  nth_opt (w_models w) (N.to_nat m) = Some x -> m_root x = a_id ta ->
  AbsA w ta -> AbsA w tb -> NoDup (aids ta ++ aids tb) ->
  Clean T LATEST defref (fver_of w) (fuel_of w) (erase ta) (fold_right set_add [] (m_files x)) (erase tb) fid ->
  pmerge T LATEST defref (fver_of w) (fuel_of w) (erase ta) (fold_right set_add [] (m_files x)) (erase tb) fid = Val (OK ha') ->
  exists w' ta',
    merge_file_data T LATEST defref m (a_id tb) fid w = Val (OK tt, w') /\
    AbsA w' ta' /\ erase ta' = h_set_local ha' (set_add fid (h_local ha')) /\ a_id ta' = a_id ta /\
    NoDup (aids ta') /\ incl (aids ta') (aids ta ++ aids tb) /\ same_except w w' (aids ta ++ aids tb).
Proof.
  intros Hx Hroot HA HB Hnd HC Hp.
  destruct (merge_refine T LATEST defref (fuel_of w) ta tb _ fid w ha' HA HB Hnd HC Hp)
    as (w1 & ta1 & E1 & HA1 & Ee1 & Eid1 & Hnd1 & Hincl1 & S1).
  pose proof S1 as (Sn & Sf & Sm & Snodes).
  destruct (AbsA_node w1 ta1 HA1) as (p1 & Hp1). rewrite Eid1 in Hp1.
  set (fs := set_add fid (a_local ta1)).
  exists (wupd w1 (a_id ta) (set_files (mkNode p1 (a_name ta1) (a_ty ta1) (map citem_of (a_content ta1))
                                         (match ta1 with ANode _ _ _ ats _ _ _ => ats end) (a_local ta1)
                                         (match ta1 with ANode _ _ _ _ _ cm _ => cm end)) fs)),
         (a_set_local ta1 fs).
  split.
  { unfold merge_file_data. unfold wbind at 1. unfold get_model at 1. rewrite Hx.
    unfold wbind at 1. cbn [wget]. rewrite Hroot. unfold wbind at 1. rewrite E1.
    unfold wbind at 1. unfold get_model at 1. rewrite Sm, Hx, Hroot.
    rewrite (modify_node_wupd (a_id ta) _ w1 _ Hp1). reflexivity. }
  split.
  { apply (AbsA_root_update w1 _ ta1 fs HA1 Hnd1).
    - exists p1. rewrite Eid1. unfold wupd. cbn [w_nodes]. rewrite upd_eq. reflexivity.
    - intros i Hi _. unfold wupd. cbn [w_nodes]. apply upd_neq. rewrite <- Eid1. exact Hi. }
  split; [rewrite erase_set_local, Ee1; unfold fs; rewrite <- (erase_local ta1), Ee1; reflexivity|].
  split; [rewrite a_id_set_local; exact Eid1|].
  split; [rewrite aids_set_local; exact Hnd1|].
  split; [rewrite aids_set_local; exact Hincl1|].
  apply (same_except_trans w w1 _ (aids ta ++ aids tb) [a_id ta]); [apply incl_refl| |exact S1|apply wupd_same_except].
  intros y [<-|[]]. apply in_or_app. left. apply a_id_in_aids.
Qed.

Definition stage_of (m : N) (x : model) (root_element fid : N) : W unit :=
  (if is_empty (m_files x) then
     modify_node root_element (fun n => set_parent n (PModel m));;
     modify_node root_element (fun n => set_files n (set_add fid (n_files n)));;
     modify_model m (fun y => set_root y root_element)
   else
     do mr <- wcatch (merge_file_data T LATEST defref m root_element fid);
     match mr with
     | OK _ => wret tt
     | ER e => do x1 <- get_model m;
               do _ <- wtry (e_remove_from_file T (m_root x1) fid);
               wfail e
     end)%W.

(* load_parsed up to the registration of the new file *)
Lemma load_parsed_prefix m filename root st w r w' x :
  load_parsed T LATEST defref m filename root st w = Val (r, w') ->
  nth_opt (w_models w) (N.to_nat m) = Some x ->
  r = ER OverlappingDataError \/
  exists t w1 tb,
    above (w_next w) w w1 /\
    AbsA w1 tb /\ erase tb = htree_of_etree root /\ a_id tb = w_next w /\ it_id t = w_next w /\
    (forall i, In i (aids tb) -> w_next w <= i < w_next w1) /\ NoDup (aids tb) /\ a_local tb = [] /\
    load_tail m (N.of_nat (List.length (w_files w))) (w_next w) t st
              (stage_of m x (it_id t) (N.of_nat (List.length (w_files w))))
              (mkWorld (w_nodes w1) (w_next w1)
                       (w_files w1 ++ [mkFile m filename (Parser.p_version st) (Parser.p_standalone st)]) (w_models w1))
      = Val (r, w').
Proof.
  unfold load_parsed. intros H Hx.
  apply wbind_inv in H as [(w0 & w0' & H0 & H) | (e' & H0 & _)]; [|apply wget_inv in H0 as ([=] & _)].
  apply wget_inv in H0 as (E0 & E0'). injection E0 as E0. subst w0 w0'.
  apply wbind_inv in H as [(t & w1 & H1 & H) | (e' & H1 & _)]; [|exfalso; eapply (errs_install (fun _ => False)); eauto].
  pose proof (above_install (w_next w) _ _ _ _ _ (N.le_refl _) H1) as A1.
  destruct (install_abs _ _ _ _ _ H1) as (tb & HB & Eb & Eidb & Eitb & Hrb & Hndb & Hlocb).
  apply wbind_inv in H as [(w1' & w1'' & H2 & H) | (e' & H2 & _)]; [|apply wget_inv in H2 as ([=] & _)].
  apply wget_inv in H2 as (E2 & E2'). injection E2 as E2. subst w1' w1''.
  apply wbind_inv in H as [(x0 & w2 & H3 & H) | (e' & H3 & _)]; [|apply get_model_inv in H3 as (? & _ & [=] & _)].
  apply get_model_inv in H3 as (x0' & Hx0 & [= <-] & ->).
  apply wbind_inv in H as [(ov & w3 & H4 & H) | (e' & H4 & _)]; [|apply wl_inv in H4 as (? & _ & [=] & _)].
  apply wl_inv in H4 as (ov' & _ & _ & ->).
  destruct ov.
  - left. apply wbind_inv in H as [(u & w4 & H5 & H) | (e' & H5 & _)]; [|unfold kill_unreachable in H5; discriminate].
    apply wfail_inv in H as (-> & _). reflexivity.
  - right.
    apply wbind_inv in H as [(u & w4 & H5 & H) | (e' & H5 & _)]; [|unfold wput in H5; discriminate].
    unfold wput in H5. injection H5 as _ <-.
    apply wbind_inv in H as [(x1 & w5 & H6 & H) | (e' & H6 & _)]; [|apply get_model_inv in H6 as (? & _ & [=] & _)].
    apply get_model_inv in H6 as (x1' & Hx1 & [= <-] & ->). cbn [w_models] in Hx1.
    assert (Ex : x1 = x).
    { destruct A1 as (_ & _ & _ & A14). rewrite A14, Hx in Hx1. injection Hx1 as <-. reflexivity. }
    subst x1.
    exists t, w1, tb. split; [exact A1|]. split; [exact HB|]. split; [exact Eb|]. split; [exact Eidb|]. split; [exact Eitb|].
    split; [exact Hrb|]. split; [exact Hndb|]. split; [exact Hlocb|]. exact H.
Qed.

(* ---- the first file of a model: the parsed tree becomes the model *)
Theorem load_parsed_first m filename root st w x r w' :
  nth_opt (w_models w) (N.to_nat m) = Some x -> m_files x = [] ->
  load_parsed T LATEST defref m filename root st w = Val (r, w') ->
  let fid := N.of_nat (List.length (w_files w)) in
  r = ER OverlappingDataError \/
  (r = OK fid /\ w_files w' = w_files w ++ [mkFile m filename (Parser.p_version st) (Parser.p_standalone st)] /\
   exists ta, ModelTree w' m ta [fid] /\ erase ta = h_set_local (htree_of_etree root) [fid]).
Proof.
  intros Hx Hfx H fid.
  destruct (load_parsed_prefix m filename root st w r w' x H Hx)
    as [->|(t & w1 & tb & A1 & HB & Eb & Eidb & Eitb & Hrb & Hndb & Hlocb & Ht)]; [left; reflexivity|right].
  fold fid in Ht. set (w1' := mkWorld _ _ _ _) in Ht.
  destruct A1 as (A11 & A12 & A13 & A14).
  assert (Hx1 : nth_opt (w_models w1') (N.to_nat m) = Some x) by (cbn; rewrite A14; exact Hx).
  assert (HB1 : AbsA w1' tb) by (apply (AbsA_frame' tb w1 w1'); [intros i _; reflexivity|exact HB]).
  destruct (AbsA_node w1' tb HB1) as (pb & Hpb). rewrite Hlocb in Hpb.
  assert (Hstage : exists wS, stage_of m x (it_id t) fid w1' = Val (OK tt, wS) /\
            w_nodes wS (a_id tb) = Some (mkNode (PModel m) (a_name tb) (a_ty tb) (map citem_of (a_content tb))
                                                (match tb with ANode _ _ _ ats _ _ _ => ats end) [fid]
                                                (match tb with ANode _ _ _ _ _ cm _ => cm end)) /\
            (forall i, i <> a_id tb -> w_nodes wS i = w_nodes w1' i) /\
            w_next wS = w_next w1' /\ w_files wS = w_files w1' /\
            nth_opt (w_models wS) (N.to_nat m) = Some (set_root x (a_id tb))).
  { eexists. split.
    - unfold stage_of. rewrite Hfx. cbn [is_empty]. rewrite Eitb, <- Eidb.
      unfold wbind at 1. rewrite (modify_node_wupd _ _ w1' _ Hpb).
      unfold wbind at 1. erewrite modify_node_wupd by (unfold wupd; cbn [w_nodes]; apply upd_eq).
      rewrite (modify_model_fwd m _ _ x) by exact Hx1. reflexivity.
    - cbn [w_nodes w_next w_files w_models wupd]. split; [rewrite upd_eq; reflexivity|].
      split; [intros i Hi; rewrite !upd_neq by exact Hi; reflexivity|].
      split; [reflexivity|]. split; [reflexivity|]. eapply list_set_nth_eq; exact Hx1. }
  destruct Hstage as (wS & Hstage & HnS & HfrS & HnextS & HfilesS & HmS).
  assert (MT : ModelTree wS m (a_set_local tb [fid]) []).
  { split; [exists (set_root x (a_id tb)); split; [exact HmS|]; split; [rewrite a_id_set_local; reflexivity|exact Hfx]|].
    split.
    { apply (AbsA_root_update w1' wS tb [fid] HB1 Hndb); [exists (PModel m); exact HnS|]. intros i Hi _. apply HfrS. exact Hi. }
    split; [rewrite aids_set_local; exact Hndb|].
    intros i Hi. rewrite aids_set_local in Hi. rewrite HnextS. cbn [w_next w1']. apply Hrb. exact Hi. }
  destruct (load_tail_ok m fid (w_next w) t st _ w1' wS _ [] r w' Hstage MT Ht) as (-> & MT' & Hf' & Hn').
  split; [reflexivity|]. split; [rewrite Hf', HfilesS; cbn [w_files w1']; rewrite A13; reflexivity|].
  exists (a_set_local tb [fid]). split; [exact MT'|]. rewrite erase_set_local, Eb. reflexivity.
Qed.

(* ---- a further file: the parsed tree is merged into the model, and the result is the pure merge *)
Theorem load_parsed_merge m filename root st w ta files r w' (P : htree -> Prop) :
  ModelTree w m ta files -> files <> [] ->
  let fid := N.of_nat (List.length (w_files w)) in
  let fl := mkFile m filename (Parser.p_version st) (Parser.p_standalone st) in
  let fver := fver_files (w_files w ++ [fl]) in
  (forall fuel, (adepth ta < fuel)%nat ->
     Clean T LATEST defref fver fuel (erase ta) (fold_right set_add [] files) (htree_of_etree root) fid /\
     exists ha', pmerge T LATEST defref fver fuel (erase ta) (fold_right set_add [] files) (htree_of_etree root) fid = Val (OK ha') /\
                 P ha') ->
  load_parsed T LATEST defref m filename root st w = Val (r, w') ->
  r = ER OverlappingDataError \/
  (r = OK fid /\ w_files w' = w_files w ++ [fl] /\
   exists ta' ha', ModelTree w' m ta' (files ++ [fid]) /\ erase ta' = h_set_local ha' (set_add fid (h_local ha')) /\ P ha').
Proof.
  intros ((x & Hx & Hroot & Hfiles) & HA & Hnd & Hb) Hne fid fl fver Hpure H.
  destruct (load_parsed_prefix m filename root st w r w' x H Hx)
    as [->|(t & w1 & tb & A1 & HB & Eb & Eidb & Eitb & Hrb & Hndb & Hlocb & Ht)]; [left; reflexivity|right].
  fold fid in Ht. fold fl in Ht. set (w1' := mkWorld _ _ _ _) in Ht.
  pose proof A1 as (A11 & A12 & A13 & A14).
  assert (Hx1 : nth_opt (w_models w1') (N.to_nat m) = Some x) by (cbn; rewrite A14; exact Hx).
  assert (HB1 : AbsA w1' tb) by (apply (AbsA_frame' tb w1 w1'); [intros i _; reflexivity|exact HB]).
  assert (HA1 : AbsA w1' ta).
  { apply (AbsA_frame' ta w w1'); [|exact HA]. intros i Hi. cbn [w_nodes w1']. apply A12. apply Hb. exact Hi. }
  assert (Hnd2 : NoDup (aids ta ++ aids tb)).
  { apply nodup_app_intro_g; auto. intros i Hi Hi2. apply Hb in Hi. apply Hrb in Hi2. lia. }
  assert (Hb1 : forall i, In i (aids ta) -> i < w_next w1') by (intros i Hi; cbn [w_next w1']; apply Hb in Hi; lia).
  pose proof (adepth_fuel ta w1' Hnd Hb1) as Hfuel.
  destruct (Hpure (fuel_of w1') Hfuel) as (HC & ha' & Hp & HP).
  assert (Efv : fver_of w1' = fver) by (unfold fver_of, fver; cbn [w_files w1']; rewrite A13; reflexivity).
  rewrite <- Eb, <- Efv, <- Hfiles in HC, Hp.
  destruct (merge_file_data_refines m x ta tb fid w1' ha' Hx1 Hroot HA1 HB1 Hnd2 HC Hp)
    as (wS & ta' & EM & HA' & Ee' & Eid' & Hnd' & Hincl' & S').
  assert (Hstage : stage_of m x (it_id t) fid w1' = Val (OK tt, wS)).
  { unfold stage_of. rewrite Hfiles. destruct files as [|f0 fr]; [congruence|]. cbn [is_empty].
    rewrite Eitb, <- Eidb. unfold wbind at 1. unfold wcatch. rewrite EM. reflexivity. }
  destruct S' as (Sn & Sf & Sm & Snodes).
  assert (MT : ModelTree wS m ta' files).
  { split; [exists x; rewrite Sm; split; [exact Hx1|]; split; [congruence|exact Hfiles]|].
    split; [exact HA'|]. split; [exact Hnd'|].
    intros i Hi. rewrite Sn. cbn [w_next w1']. apply Hincl' in Hi. apply in_app_or in Hi as [Hi|Hi]; [apply Hb in Hi; lia|apply Hrb in Hi; lia]. }
  destruct (load_tail_ok m fid (w_next w) t st _ w1' wS _ files r w' Hstage MT Ht) as (-> & MT' & Hf' & Hn').
  split; [reflexivity|]. split; [rewrite Hf', Sf; cbn [w_files w1']; rewrite A13; reflexivity|].
  exists ta', ha'. split; [exact MT'|]. split; [exact Ee'|exact HP].
Qed.

End Steps.

(* ====================================================================== the union on the heap model, class Good *)
Section HeapUnion.
Variable T : tables.
Variables LATEST defref v : N.

Lemma fold_set_add_sset l : sset (fold_right set_add [] l).
Proof. induction l as [|x l IH]; cbn [fold_right]; [apply sset_nil|apply sset_set_add; exact IH]. Qed.
Lemma fold_set_add_in l y : In y (fold_right set_add [] l) <-> In y l.
Proof.
  induction l as [|x l IH]; cbn [fold_right In]; [tauto|]. rewrite set_add_in, IH. split; intros [H|H]; auto.
Qed.

Lemma files_set_inF (F files : list N) : sset files -> incl F files -> fold_right set_add [] (rev F) = inF F files.
Proof.
  intros Hs Hi. apply sset_ext; [apply fold_set_add_sset|apply inF_sset; exact Hs|].
  intros y. rewrite fold_set_add_in, <- in_rev, inF_in. split; [intros H; split; [apply Hi; exact H|exact H]|tauto].
Qed.

Lemma fver_files_app_old l fl f : (N.to_nat f < List.length l)%nat -> fver_files (l ++ [fl]) f = fver_files l f.
Proof.
  intros H. unfold fver_files. rewrite !nth_opt_nth_error, nth_error_app1 by exact H. reflexivity.
Qed.
Lemma fver_files_app_new l fl : fver_files (l ++ [fl]) (N.of_nat (List.length l)) = Some (f_version fl).
Proof.
  unfold fver_files. rewrite nth_opt_nth_error, Nat2N.id, nth_error_app2 by lia. rewrite PeanoNat.Nat.sub_diag. reflexivity.
Qed.
Lemma fver_files_some l f x : fver_files l f = Some x -> (N.to_nat f < List.length l)%nat.
Proof.
  unfold fver_files. rewrite nth_opt_nth_error. destruct (nth_error l (N.to_nat f)) eqn:E; [|discriminate].
  intros _. apply nth_error_Some. congruence.
Qed.

(* a sequence of loads of parsed files (file name, parsed tree, parser state) into the model m *)
Definition item := (list N * Parser.etree * Parser.pstate)%type.
Fixpoint load_seq (m : N) (l : list item) (w : world) : res (list (out N) * world) :=
  match l with
  | [] => Val ([], w)
  | (fname, e, st) :: r =>
    match load_parsed T LATEST defref m fname e st w with
    | Val (o, w') => match load_seq m r w' with
                     | Val (os, w'') => Val (o :: os, w'') | Pan s => Pan s | Fuel => Fuel end
    | Pan s => Pan s
    | Fuel => Fuel
    end
  end.
(* the parsed file is the partial view of the master M in the file g, of version v *)
Definition is_view (M : mtree) (g : N) (it : item) : Prop :=
  project g M = Some (snd (fst it)) /\ Parser.p_version (snd it) = v.

Theorem heap_chain M m : Good T defref v M ->
  forall gs items F w ta os w',
    Forall2 (is_view M) gs items ->
    ModelTree w m ta (rev F) -> F <> [] -> Rep T F None M (erase ta) ->
    NoDup (gs ++ F) -> (forall g, In g (gs ++ F) -> In g (mfiles M)) ->
    gs = n_range (List.length gs) (N.of_nat (List.length (w_files w))) ->
    (forall f, In f F -> fver_files (w_files w) f = Some v) ->
    load_seq m items w = Val (os, w') ->
    Forall (fun o => o <> ER OverlappingDataError) os ->
    Forall2 (fun g o => o = OK g) gs os /\
    exists ta', ModelTree w' m ta' (rev F ++ gs) /\ Rep T (rev gs ++ F) None M (erase ta').
Proof.
  intros HG. destruct (Good_files T defref v M HG) as (Hs & _).
  induction gs as [|g gs IH]; intros items F w ta os w' Hitems MT HFne HR Hnd Hin Hgs Hver HL Hov.
  - inversion Hitems; subst. cbn [load_seq] in HL. injection HL as <- <-. split; [constructor|]. exists ta. rewrite app_nil_r. cbn [rev app]. auto.
  - inversion Hitems as [|? [[fname e] st] ? items' (He & Hv) Hitems']; subst. cbn [fst snd] in He, Hv. cbn [load_seq] in HL.
    assert (Hg : In g (mfiles M)) by (apply Hin; left; reflexivity).
    destruct (load_parsed T LATEST defref m fname e st w) as [[o w1]| |] eqn:EL; try discriminate.
    destruct (load_seq m items' w1) as [[os1 w2]| |] eqn:EL2; try discriminate.
    injection HL as <- <-. inversion Hov as [|? ? Ho Hov1]; subst.
    cbn [app] in Hnd. inversion Hnd as [|? ? Hnot Hnd']; subst.
    assert (HgF : ~ In g F) by (intros H; apply Hnot; apply in_or_app; right; exact H).
    cbn [List.length n_range] in Hgs. injection Hgs as Eg Egs.
    pose proof (pview_project (depth M) M (le_n _) g e He) as Eview.
    set (fl := mkFile m fname (Parser.p_version st) (Parser.p_standalone st)) in *.
    set (fver := fver_files (w_files w ++ [fl])).
    assert (Hfv : forall f, In f (g :: F) -> fver f = Some v).
    { intros f [<-|Hf]; unfold fver.
      - rewrite Eg. rewrite fver_files_app_new. unfold fl. cbn [f_version]. rewrite Hv. reflexivity.
      - rewrite fver_files_app_old; [apply Hver; exact Hf|]. eapply fver_files_some. apply Hver. exact Hf. }
    assert (Hset : fold_right set_add [] (rev F) = inF F (mfiles M)).
    { apply files_set_inF; [exact Hs|]. intros f Hf. apply Hin. right. apply in_or_app. right. exact Hf. }
    pose (P := fun ha' : htree => h_local ha' = h_local (erase ta) /\
                 forall inh', Rep T (g :: F) inh' M (h_set_local ha' (norm inh' (inF (g :: F) (mfiles M))))).
    destruct (load_parsed_merge T LATEST defref m fname e st w ta (rev F) o w1 P MT) as [->|(-> & Hf1 & ta1 & ha' & MT1 & Ee1 & (Hl & Hr))].
    { intros E. apply HFne. destruct F; [reflexivity|]. cbn [rev] in E. destruct (rev F); discriminate. }
    { intros fuel Hfuel. fold fl. fold fver. rewrite Eview, Hset, <- Eg. split.
      - apply (rep_clean T LATEST defref v fver fuel M HG F g None (erase ta) Hfv HgF Hg HR).
      - destruct (pmerge_rep_gen T LATEST defref v fver fuel M HG F g None (erase ta)) as (a' & Ea' & Hla' & Hra'); auto.
        { right. rewrite hdepth_erase. exact Hfuel. }
        exists a'. split; [exact Ea'|]. split; assumption. }
    { exact EL. }
    { exfalso. apply Ho. reflexivity. }
    (* the model after this load *)
    destruct (Rep_shape T F None M (erase ta) HR) as (_ & _ & Hloc & _). cbn [norm] in Hloc.
    specialize (Hr None). cbn [norm] in Hr. rewrite (inF_cons_in g F (mfiles M) Hs Hg HgF) in Hr.
    assert (HR1 : Rep T (g :: F) None M (erase ta1)).
    { rewrite Ee1, Hl, Hloc, <- Eg. exact Hr. }
    fold fl in Hf1.
    destruct (IH items' (g :: F) w1 ta1 os1 w2) as (F2 & ta2 & MT2 & HR2); auto.
    + cbn [rev]. rewrite <- Eg in MT1. exact MT1.
    + discriminate.
    + apply NoDup_app_swap_cons. exact Hnd.
    + intros g0 H0. apply Hin. apply in_app_or in H0 as [H0|[<-|H0]]; [right; apply in_or_app; left; exact H0|left; reflexivity|].
      right. apply in_or_app. right. exact H0.
    + rewrite Hf1, app_length. cbn [List.length]. rewrite Egs at 1. f_equal. lia.
    + intros f [<-|Hf]; rewrite Hf1.
      * rewrite Eg, fver_files_app_new. unfold fl. cbn [f_version]. rewrite Hv. reflexivity.
      * rewrite fver_files_app_old; [apply Hver; exact Hf|]. eapply fver_files_some. apply Hver. exact Hf.
    + split; [constructor; [rewrite Eg; reflexivity|exact F2]|].
      exists ta2. cbn [rev] in MT2. rewrite <- app_assoc in MT2. cbn [app] in MT2. split; [exact MT2|].
      cbn [rev]. rewrite <- app_assoc. cbn [app]. exact HR2.
Qed.


Lemma ModelTree_abs_model w m ta files : ModelTree w m ta files -> abs_model w m = Some (erase ta).
Proof.
  intros ((x & Hx & Hroot & _) & HA & Hnd & Hb). unfold abs_model. rewrite Hx, Hroot.
  apply abs_of_AbsA; [|exact HA]. pose proof (adepth_fuel ta w Hnd Hb) as H. unfold fuel_of in H. lia.
Qed.

(* Loading the partial views of a master M of the class Good into an empty model, files numbered in load order (the k-th
   file gets the file id b + k, b = number of files the world had): no load can be rejected by the merge; when none is
   rejected by the overlap check of the path index, every load succeeds and the tree of the model (read back from the
   heap: abs_model) is the master restricted to the loaded files — every element exactly once, the local membership
   normalised; it is the master up to the order of siblings when the files cover it, and every file projects out of it. *)
Theorem heap_union_seq M m x w0 n items os w :
  Good T defref v M ->
  nth_opt (w_models w0) (N.to_nat m) = Some x -> m_files x = [] ->
  let gs := n_range (S n) (N.of_nat (List.length (w_files w0))) in
  Forall2 (is_view M) gs items ->
  (forall g, In g gs -> In g (mfiles M)) ->
  load_seq m items w0 = Val (os, w) ->
  Forall (fun o => o <> ER OverlappingDataError) os ->
  Forall2 (fun g o => o = OK g) gs os /\
  exists ta, ModelTree w m ta gs /\ abs_model w m = Some (erase ta) /\
             Rep T (rev gs) None M (erase ta) /\
             (covers gs M -> hperm (erase ta) (expected None M)) /\
             (forall f, In f gs -> hperm (hproj f (erase ta)) (pview f M)).
Proof.
  intros HG Hx Hfx gs Hitems Hin HL Hov. unfold gs in *. cbn [n_range] in *.
  set (g0 := N.of_nat (List.length (w_files w0))) in *. set (gr := n_range n (g0 + 1)) in *.
  inversion Hitems as [|? [[fname e] st] ? items' (He & Hv) Hitems']; subst. cbn [fst snd] in He, Hv.
  cbn [load_seq] in HL.
  assert (Hg0 : In g0 (mfiles M)) by (apply Hin; left; reflexivity).
  destruct (load_parsed T LATEST defref m fname e st w0) as [[o w1]| |] eqn:EL; try discriminate.
  destruct (load_seq m items' w1) as [[os1 w2]| |] eqn:EL2; try discriminate.
  injection HL as <- <-. inversion Hov as [|? ? Ho Hov1]; subst.
  pose proof (pview_project (depth M) M (le_n _) g0 e He) as Eview.
  destruct (load_parsed_first T LATEST defref m fname e st w0 x o w1 Hx Hfx EL)
    as [->|(-> & Hf1 & ta1 & MT1 & Ee1)]; [exfalso; apply Ho; reflexivity|].
  fold g0 in MT1, Ee1. rewrite Eview in Ee1.
  assert (HR1 : Rep T [g0] None M (erase ta1)).
  { rewrite Ee1. apply (first_view_rep T defref v M g0 HG Hg0). }
  assert (Hnd : NoDup (gr ++ [g0])).
  { eapply Permutation_NoDup; [apply Permutation_app_comm|]. cbn [app]. apply (n_range_nodup (S n) g0). }
  destruct (heap_chain M m HG gr items' [g0] w1 ta1 os1 w2) as (F2 & ta2 & MT2 & HR2); auto.
  - discriminate.
  - intros g Hg. apply Hin. apply in_app_or in Hg as [Hg|[<-|[]]]; [right; exact Hg|left; reflexivity].
  - unfold gr at 1. rewrite Hf1, app_length. cbn [List.length]. f_equal.
    + unfold gr. clear. generalize (g0 + 1). induction n as [|k IHk]; intros from; cbn [n_range List.length]; auto.
    + fold g0. lia.
  - intros f [<-|[]]. rewrite Hf1. unfold g0. rewrite fver_files_app_new. cbn [f_version]. exact (f_equal Some Hv).
  - cbn [rev app] in MT2. split; [constructor; [reflexivity|exact F2]|].
    exists ta2. split; [exact MT2|]. split; [eapply ModelTree_abs_model; exact MT2|].
    assert (HR3 : Rep T (rev (g0 :: gr)) None M (erase ta2)) by (cbn [rev]; exact HR2).
    split; [exact HR3|]. split.
    + intros Hc. apply (Rep_expected T defref v (depth M) M (le_n _) HG (rev (g0 :: gr)) None (erase ta2)); [|intros p [=]|exact HR3].
      apply (covers_incl (depth M) M (le_n _) (g0 :: gr)); [|exact Hc]. intros y Hy. apply in_rev in Hy. exact Hy.
    + intros f Hf. apply (Rep_project T defref v (depth M) M (le_n _) HG (rev (g0 :: gr)) None (erase ta2) f); [|apply Hin; exact Hf|exact HR3].
      exact (proj1 (in_rev _ _) Hf).
Qed.

(* the loads of MergePureProofsKeys.load_views (the statement C09_full is phrased with) are such a sequence *)
Lemma load_views_seq M m : forall gs,
  (forall g, In g gs -> In g (mfiles M)) ->
  exists items, Forall2 (is_view M) gs items /\
                forall w, load_views T LATEST defref m M (fun _ => v) gs w = load_seq m items w.
Proof.
  induction gs as [|g gs IH]; intros Hin.
  - exists []. split; [constructor|reflexivity].
  - destruct IH as (items & HF & HE); [intros g0 H0; apply Hin; right; exact H0|].
    destruct (project_some g M (proj2 (set_mem_in _ _) (Hin g (or_introl eq_refl)))) as (e & He).
    exists ((to_dec g, e, pstate_of T v e) :: items). split; [constructor; [split; [exact He|reflexivity]|exact HF]|].
    intros w. cbn [load_views load_seq]. rewrite He.
    destruct (load_parsed T LATEST defref m (to_dec g) e (pstate_of T v e) w) as [[o w1]| |]; try reflexivity. rewrite HE. reflexivity.
Qed.

Theorem heap_union M m x w0 n os w :
  Good T defref v M ->
  nth_opt (w_models w0) (N.to_nat m) = Some x -> m_files x = [] ->
  let gs := n_range (S n) (N.of_nat (List.length (w_files w0))) in
  (forall g, In g gs -> In g (mfiles M)) ->
  load_views T LATEST defref m M (fun _ => v) gs w0 = Val (os, w) ->
  Forall (fun o => o <> ER OverlappingDataError) os ->
  Forall2 (fun g o => o = OK g) gs os /\
  exists ta, ModelTree w m ta gs /\ abs_model w m = Some (erase ta) /\
             Rep T (rev gs) None M (erase ta) /\
             (covers gs M -> hperm (erase ta) (expected None M)) /\
             (forall f, In f gs -> hperm (hproj f (erase ta)) (pview f M)).
Proof.
  intros HG Hx Hfx gs Hin HL Hov.
  destruct (load_views_seq M m gs Hin) as (items & HF & HE). rewrite HE in HL.
  exact (heap_union_seq M m x w0 n items os w HG Hx Hfx HF Hin HL Hov).
Qed.

End HeapUnion.

(* ====================================================================== the same for m_load_buffer itself *)
Section Buffers.
Variable T : tables.
Variables tab_el tab_at tab_en : nametab.
Variable check_fn : N -> list N -> res bool.
Variable float_parse : list N -> option N.
Variables LATEST defref v : N.

(* a load of a buffer that parses is the duplicate-name check followed by load_parsed *)
Lemma m_load_buffer_parsed m buf fname strict w r w' e st :
  Parser.load strict T tab_el tab_at tab_en check_fn float_parse buf = Val (Parser.Ret e st) ->
  m_load_buffer T tab_el tab_at tab_en check_fn float_parse LATEST defref m buf fname strict w = Val (r, w') ->
  (r = ER DuplicateFilenameError /\ w' = w) \/
  exists r0, load_parsed T LATEST defref m fname e st w = Val (r0, w') /\
             r = match r0 with OK f => OK (f, rev (Parser.p_warnings st)) | ER err => ER err end.
Proof.
  intros Hparse H. unfold m_load_buffer in H.
  apply wbind_inv in H as [(x & w1 & H1 & H) | (e' & H1 & _)]; [|apply get_model_inv in H1 as (? & _ & [=] & _)].
  apply get_model_inv in H1 as (x' & _ & _ & ->).
  apply wbind_inv in H as [(w0 & w2 & H2 & H) | (e' & H2 & _)]; [|apply wget_inv in H2 as ([=] & _)].
  apply wget_inv in H2 as (E2 & ->). injection E2 as ->.
  destruct (existsb _ (m_files x)).
  { apply wfail_inv in H as (-> & ->). left. auto. }
  rewrite Hparse in H. right.
  apply wbind_inv in H as [(f & w3 & H3 & H) | (e' & H3 & ->)].
  - apply wret_inv in H as (-> & ->). exists (OK f). auto.
  - exists (ER e'). auto.
Qed.

Fixpoint load_bufs (m : N) (strict : bool) (l : list (list N * list N)) (w : world)
  : res (list (out (N * list Parser.perror)) * world) :=
  match l with
  | [] => Val ([], w)
  | (buf, fname) :: r =>
    match m_load_buffer T tab_el tab_at tab_en check_fn float_parse LATEST defref m buf fname strict w with
    | Val (o, w') => match load_bufs m strict r w' with
                     | Val (os, w'') => Val (o :: os, w'') | Pan s => Pan s | Fuel => Fuel end
    | Pan s => Pan s
    | Fuel => Fuel
    end
  end.

Definition parses_to (strict : bool) (b : list N * list N) (it : item) : Prop :=
  Parser.load strict T tab_el tab_at tab_en check_fn float_parse (fst b) = Val (Parser.Ret (snd (fst it)) (snd it)) /\
  fst (fst it) = snd b.

Definition lifts (o : out (N * list Parser.perror)) (o0 : out N) : Prop :=
  match o0 with OK f => exists ws, o = OK (f, ws) | ER err => o = ER err end.

Lemma load_bufs_seq m strict : forall bufs items w os w',
  Forall2 (parses_to strict) bufs items ->
  load_bufs m strict bufs w = Val (os, w') ->
  Forall (fun o => o <> ER DuplicateFilenameError) os ->
  exists os0, load_seq T LATEST defref m items w = Val (os0, w') /\ Forall2 lifts os os0.
Proof.
  induction bufs as [|[buf fname] bufs IH]; intros items w os w' HF HL Hd; inversion HF as [|? [[fn e] st] ? items' (Hp & Hn) HF']; subst.
  - cbn [load_bufs] in HL. injection HL as <- <-. exists []. split; [reflexivity|constructor].
  - cbn [fst snd] in Hp, Hn. subst fn. cbn [load_bufs] in HL.
    destruct (m_load_buffer _ _ _ _ _ _ _ _ m buf fname strict w) as [[o w1]| |] eqn:EL; try discriminate.
    destruct (load_bufs m strict bufs w1) as [[os1 w2]| |] eqn:EL2; try discriminate.
    injection HL as <- <-. inversion Hd as [|? ? Ho Hd1]; subst.
    destruct (m_load_buffer_parsed m buf fname strict w o w1 e st Hp EL) as [(-> & _)|(r0 & E0 & ->)]; [congruence|].
    destruct (IH items' w1 os1 w2 HF' EL2 Hd1) as (os0 & E1 & F1).
    exists (r0 :: os0). cbn [load_seq]. rewrite E0, E1. split; [reflexivity|]. constructor; [|exact F1].
    unfold lifts. destruct r0; [eexists; reflexivity|reflexivity].
Qed.

(* C09 on the heap model, class Good, for AutosarModel::load_buffer: the buffers parse to the partial views of the master
   (file k of the master = file id b + k), versions v.  No load is rejected by the merge; if none is rejected for a
   duplicate file name or by the overlap check, all succeed, the model tree is the master restricted to the loaded files
   (the whole master up to the order of siblings when the files cover it), and every file projects out of it. *)
Theorem heap_union_buffers M m x w0 n strict bufs items os w :
  Good T defref v M ->
  nth_opt (w_models w0) (N.to_nat m) = Some x -> m_files x = [] ->
  let gs := n_range (S n) (N.of_nat (List.length (w_files w0))) in
  Forall2 (parses_to strict) bufs items -> Forall2 (is_view v M) gs items ->
  (forall g, In g gs -> In g (mfiles M)) ->
  load_bufs m strict bufs w0 = Val (os, w) ->
  Forall (fun o => o <> ER DuplicateFilenameError /\ o <> ER OverlappingDataError) os ->
  Forall2 (fun g o => exists ws, o = OK (g, ws)) gs os /\
  exists ta, ModelTree w m ta gs /\ abs_model w m = Some (erase ta) /\
             Rep T (rev gs) None M (erase ta) /\
             (covers gs M -> hperm (erase ta) (expected None M)) /\
             (forall f, In f gs -> hperm (hproj f (erase ta)) (pview f M)).
Proof.
  intros HG Hx Hfx gs Hparse Hview Hin HL Hos.
  destruct (load_bufs_seq m strict bufs items w0 os w Hparse HL) as (os0 & E0 & F0).
  { eapply Forall_impl; [|exact Hos]. intros o [H _]. exact H. }
  assert (Hov : Forall (fun o => o <> ER OverlappingDataError) os0).
  { clear -F0 Hos. induction F0 as [|o o0 os os0 Hl F0 IH]; [constructor|]. inversion Hos as [|? ? [_ Ho] Hos']; subst.
    constructor; [|apply IH; exact Hos']. intros ->. unfold lifts in Hl. congruence. }
  destruct (heap_union_seq T LATEST defref v M m x w0 n items os0 w HG Hx Hfx Hview Hin E0 Hov) as (F1 & Hta).
  split; [|exact Hta]. fold gs in F1. clear -F0 F1. revert os F0. induction F1 as [|g o0 gs' os0 -> F1 IH]; intros os F0; inversion F0 as [|o ? os' ? Hl F0']; subst.
  - constructor.
  - constructor; [exact Hl|apply IH; exact F0'].
Qed.

End Buffers.
