(* Tree/InvProofs.v — C03: the invariant theorems over the whole operation alphabet of Tree/Script.v.
     Core_step      : every operation, whatever it returns (OK or ER), preserves Core — for every table set.
     TreeInv_step   : ... and preserves NoOrphan unless (world, op) is in one of the Known classes.
     *_histories    : lifted to all finite histories.
   No constructor of `op` is pending. *)
From Coq Require Import PeanoNat Arith.
From AV Require Import Base.Bytes Base.Outcome Hash.HashModel Tree.Heap Tree.Ops Tree.Script Tree.Inv
  Tree.InvProofsBase Tree.InvProofsCore Tree.InvProofsTree Tree.InvProofsPrim Tree.InvProofsCreate
  Tree.InvProofsData Tree.InvProofsRefs Tree.InvProofsRemove Tree.InvProofsFiles Tree.InvProofsMove
  Tree.InvProofsCopy Tree.InvProofsRename.
Open Scope string_scope.
Open Scope list_scope.
Open Scope N_scope.

Lemma wmap_inv {A B} (m : W A) (g : A -> B) w r w' :
  (do a <- m; wret (g a))%W w = Val (r, w') ->
  exists r0, m w = Val (r0, w') /\ r = match r0 with OK a => OK (g a) | ER e => ER e end.
Proof.
  intros H. apply wbind_inv in H as [(a & w1 & H1 & H2) | (e & H1 & ->)].
  - apply wret_inv in H2 as (-> & ->). exists (OK a). auto.
  - exists (ER e). auto.
Qed.

Lemma empty_core : Core empty_world.
Proof.
  constructor.
  - intros i. split; [intros (n & [=])|]. cbn. lia.
  - intros p c (n & [=] & _).
  - intros p n [=].
  - intros k r H. destruct k; discriminate.
  - intros i (n & [=]).
Qed.
Lemma empty_treeinv : TreeInv empty_world.
Proof. split; [apply empty_core|]. split; [intros c p (n & [=] & _) | intros i n m [=]]. Qed.

Lemma pref_eqb_eq a b : pref_eqb a b = true -> a = b.
Proof. destruct a, b; cbn; try discriminate; auto; intros H; apply N.eqb_eq in H; congruence. Qed.

Section Main.
Variable T : tables.
Variable tab_el tab_en : nametab.
Variable check_fn : N -> list N -> res bool.
Variable LATEST : N.
Variable root_attrs : list (N * cdata).

Notation run := (Inv.run T tab_el tab_en check_fn LATEST root_attrs).
Notation Known := (Inv.Known T tab_el tab_en check_fn LATEST root_attrs).
Notation Known_failed_reparent := (Inv.Known_failed_reparent T tab_el tab_en check_fn LATEST root_attrs).

Lemma Pres_core {A} (m : W A) w r w' : Pres m -> m w = Val (r, w') -> Core w -> Core w'.
Proof. intros P H C. exact (proj1 (P _ _ _ H C)). Qed.
Lemma Pres_orph {A} (m : W A) w r w' : Pres m -> m w = Val (r, w') -> Core w -> NoOrphan w -> NoOrphan w'.
Proof. intros P H C. exact (proj2 (P _ _ _ H C)). Qed.
Ltac pc L := eapply Pres_core; [apply L | eassumption | assumption].
Ltac pcs L := eapply Pres_core; [apply Pres_stp; apply L | eassumption | assumption].
Ltac sc L := eapply proj1; eapply L; eassumption.
Ltac po L := eapply Pres_orph; [apply L | eassumption | assumption | assumption].
Ltac pos L := eapply Pres_orph; [apply Pres_stp; apply L | eassumption | assumption | assumption].

Ltac use_pres L :=
  match goal with
  | H : _ = Val (_, _), C : Core _ |- _ => destruct (L _ _ _ H C) as (C' & O')
  end.

Theorem Core_step o w r w' : Core w -> run o w = Val (r, w') -> Core w'.
Proof.
  intros C H. unfold Inv.run in H. destruct o; cbn [run_op welem wunit] in H;
    apply wmap_inv in H as (r0 & H & _).
  - pc Pres_e_create_sub.
  - pc Pres_e_create_sub_at.
  - pc Pres_e_create_named.
  - pc Pres_e_create_named_at.
  - sc e_copied_spec.
  - sc e_copied_at_spec.
  - sc e_move_spec.
  - sc e_move_at_spec.
  - pc Pres_e_remove.
  - pc Pres_e_remove_kind.
  - sc set_item_name_spec.
  - sc set_cdata_spec.
  - pcs stp_remove_character_data.
  - pcs stp_insert_citem.
  - pcs stp_remove_citem.
  - sc set_ref_target_spec.
  - pcs stp_set_attribute.
  - pcs stp_remove_attribute.
  - pcs stp_set_comment.
  - pc Pres_e_get_or_create.
  - pc Pres_e_get_or_create_named.
  - pc Pres_new_model.
  - pcs stp_m_create_file.
  - pc Pres_m_remove_file.
  - pcs stp_e_add_to_file.
  - pc Pres_e_remove_from_file.
Qed.

Theorem TreeInv_step o w r w' : TreeInv w -> Known w o = false -> run o w = Val (r, w') -> TreeInv w'.
Proof.
  intros (C & O) HK H0. split; [eapply Core_step; eauto|].
  unfold Inv.Known in HK. apply orb_false_iff in HK as (HK & HK3). apply orb_false_iff in HK as (HK1 & HK2).
  pose proof H0 as H. unfold Inv.run in H. destruct o; cbn [run_op welem wunit] in H;
    apply wmap_inv in H as (r0 & H & Hr).
  - po Pres_e_create_sub.
  - po Pres_e_create_sub_at.
  - po Pres_e_create_named.
  - po Pres_e_create_named_at.
  - eapply e_copied_spec in H as (_ & X); try exact C; try exact check_fn; try exact tab_en; try exact tab_el. destruct (X O) as [?|(e & -> & Hp)]; auto.
    subst r. cbn [Inv.Known_failed_reparent] in HK2. rewrite H0 in HK2. congruence.
  - eapply e_copied_at_spec in H as (_ & X); try exact C; try exact check_fn; try exact tab_en; try exact tab_el. destruct (X O) as [?|(e & -> & Hp)]; auto.
    subst r. cbn [Inv.Known_failed_reparent] in HK2. rewrite H0 in HK2. congruence.
  - cbn [Known_refhead] in HK3. apply dirty_origins_clean in HK3.
    eapply e_move_spec in H as (_ & X); try exact C; try exact check_fn; try exact tab_en; try exact tab_el. destruct (X O HK3) as [?|(e & -> & Hp & Hq)]; auto.
    subst r. cbn [Inv.Known_failed_reparent] in HK2. rewrite H0 in HK2. apply negb_false_iff in HK2.
    apply pref_eqb_eq in HK2. congruence.
  - cbn [Known_refhead] in HK3. apply dirty_origins_clean in HK3.
    eapply e_move_at_spec in H as (_ & X); try exact C; try exact check_fn; try exact tab_en; try exact tab_el. destruct (X O HK3) as [?|(e & -> & Hp & Hq)]; auto.
    subst r. cbn [Inv.Known_failed_reparent] in HK2. rewrite H0 in HK2. apply negb_false_iff in HK2.
    apply pref_eqb_eq in HK2. congruence.
  - po Pres_e_remove.
  - po Pres_e_remove_kind.
  - cbn [Known_refhead] in HK3. apply dirty_origins_clean in HK3.
    eapply set_item_name_spec in H as (_ & X); try exact C; try exact check_fn; try exact tab_en; try exact tab_el. eapply NoOrphan_same_tree; [exact (X HK3)|auto].
  - cbn [Known_setcdata] in HK1.
    eapply set_cdata_spec in H as (_ & X); try exact C; try exact check_fn; try exact tab_en; try exact tab_el. eapply NoOrphan_same_tree; [exact (X HK1)|auto].
  - pos stp_remove_character_data.
  - pos stp_insert_citem.
  - pos stp_remove_citem.
  - cbn [Known_refhead] in HK3.
    eapply set_ref_target_spec in H as (_ & X); try exact C; try exact check_fn; try exact tab_en; try exact tab_el. eapply NoOrphan_same_tree; [exact (X HK3)|auto].
  - pos stp_set_attribute.
  - pos stp_remove_attribute.
  - pos stp_set_comment.
  - po Pres_e_get_or_create.
  - po Pres_e_get_or_create_named.
  - po Pres_new_model.
  - pos stp_m_create_file.
  - po Pres_m_remove_file.
  - pos stp_e_add_to_file.
  - po Pres_e_remove_from_file.
Qed.

(* ---------- all histories ---------- *)
Notation run_ops := (Inv.run_ops T tab_el tab_en check_fn LATEST root_attrs).
Notation clean_ops := (Inv.clean_ops T tab_el tab_en check_fn LATEST root_attrs).

Theorem Core_histories l : forall w w', Core w -> run_ops l w = Val w' -> Core w'.
Proof.
  induction l as [|o l IH]; intros w w' C H; cbn [Inv.run_ops] in H.
  - injection H as <-. auto.
  - destruct (run o w) as [[r w1]|s|] eqn:E; try discriminate. eapply IH; [|exact H]. eapply Core_step; eauto.
Qed.

Theorem TreeInv_histories l : forall w w', TreeInv w -> clean_ops l w = true -> run_ops l w = Val w' -> TreeInv w'.
Proof.
  induction l as [|o l IH]; intros w w' I Hc H; cbn [Inv.run_ops Inv.clean_ops] in *.
  - injection H as <-. auto.
  - apply andb_true_iff in Hc as (Hk & Hc). apply negb_true_iff in Hk.
    destruct (run o w) as [[r w1]|s|] eqn:E; try discriminate. eapply IH; [|exact Hc|exact H].
    eapply TreeInv_step; eauto.
Qed.

Corollary Core_reachable l w' : run_ops l empty_world = Val w' -> Core w'.
Proof. apply Core_histories. apply empty_core. Qed.

End Main.
