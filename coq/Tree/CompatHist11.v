(* Tree/CompatHist11.v — the typing invariant over the WHOLE alphabet op2 (Tree/Script2.v), including OpLoad (first file and merges)
   and OpDuplicate.
     J w := Core w /\ TypedU T w /\ PM T w
     op3_ok w o : the attach side condition of move / copy (Tree/CompatHist5.v op_ok); for OpLoad: outside C03's Known_load
                  (Core for the loader, Tree/InvProofsOp2Full.v).  Nothing else is pending.
     typed_step3 / typed_histories3 : J is kept by every such step / history, given the table fact PairOK (needed by merges). *)
From Coq Require Import PeanoNat Arith Permutation Lia.
From AV Require Import Base.Bytes Base.Outcome Hash.HashModel Spec.SpecOps Tree.Heap Tree.Ops Tree.Script Tree.Inv
  Tree.InvProofsBase Tree.InvProofsCore Tree.InvProofsPrim Tree.InvProofs Tree.InvProofsOp2
  Tree.Sort Tree.SortProofsHeap Tree.SortProofsOrder Tree.SortProofsMain Tree.Copy Tree.Serialize Tree.Load Tree.Script2
  Tree.InvLoad Tree.InvProofsOp2Full
  Tree.Compat Tree.CompatSpec Tree.CompatProofs3 Tree.CompatTyped Tree.CompatProofs8 Tree.CompatFrame Tree.CompatFrameOps
  Tree.CompatHist1 Tree.CompatHist4 Tree.CompatHist5 Tree.CompatHist6 Tree.CompatPM Tree.CompatPMOps
  Tree.CompatHist7 Tree.CompatHist9 Tree.CompatHist9b Tree.CompatHist10.
Open Scope string_scope.
Open Scope list_scope.
Open Scope N_scope.

Lemma world_rel_Fp T w w' : world_rel T w w' -> Fp w w'.
Proof.
  intros (Nx & _ & _ & Hn). split; [lia|]. intros j x Hx. specialize (Hn j). rewrite Hx in Hn.
  destruct (w_nodes w j) as [x0|] eqn:E0; [|destruct Hn]. left. exists x0. split; [exact E0|].
  destruct Hn as ((Hpar & Hname & Hty & _) & _). split; [exact Hty|]. split; [exact Hname|]. intros m Hm. congruence.
Qed.

Section Op3.
Variable T : tables.
Variable tab_el tab_at tab_en : nametab.
Variable check_fn : N -> list N -> res bool.
Variable float_parse : list N -> option N.
Variable float_fmt : N -> list N.
Variable LATEST name_index name_definition_ref attr_schema_location : N.
Variable root_attrs : list (N * cdata).
Hypothesis HP : PairOK T.

Notation run := (Inv.run T tab_el tab_en check_fn LATEST root_attrs).
Notation run2 := (run_op2 T tab_el tab_at tab_en check_fn float_parse float_fmt LATEST name_index name_definition_ref
                          attr_schema_location root_attrs).
Notation KLoad := (Known_load T tab_el tab_at tab_en check_fn float_parse float_fmt LATEST name_index name_definition_ref
                              attr_schema_location root_attrs).

(* PM over the 26 operations of Tree/Script.v *)
Lemma pm_op o w r w' : PM T w -> run o w = Val (r, w') -> PM T w'.
Proof.
  intros P H. unfold Inv.run in H.
  destruct o; cbn [run_op welem wunit] in H; apply wmap_inv in H as (r0 & H & _).
  - exact (Fp_pm T w w' (fpp_e_create_sub T LATEST w h name w r0 w' (Fp_refl w) H) P).
  - exact (Fp_pm T w w' (fpp_e_create_sub_at T LATEST w h name pos w r0 w' (Fp_refl w) H) P).
  - exact (Fp_pm T w w' (fpp_e_create_named T check_fn LATEST w h name item w r0 w' (Fp_refl w) H) P).
  - exact (Fp_pm T w w' (fpp_e_create_named_at T check_fn LATEST w h name item pos w r0 w' (Fp_refl w) H) P).
  - exact (Fp_pm T w w' (fpp_e_copy T LATEST w h other w r0 w' (Fp_refl w) H) P).
  - exact (Fp_pm T w w' (fpp_e_copy_at T LATEST w h other pos w r0 w' (Fp_refl w) H) P).
  - exact (Fp_pm T w w' (fpp_e_move T tab_en check_fn LATEST w h mv w r0 w' (Fp_refl w) H) P).
  - exact (Fp_pm T w w' (fpp_e_move_at T tab_en check_fn LATEST w h mv pos w r0 w' (Fp_refl w) H) P).
  - exact (Fp_pm T w w' (fpp_e_remove T w h sub w r0 w' (Fp_refl w) H) P).
  - exact (Fp_pm T w w' (fpp_e_remove_kind T w h name w r0 w' (Fp_refl w) H) P).
  - exact (Fp_pm T w w' (fpp_set_item_name T check_fn LATEST w h name w r0 w' (Fp_refl w) H) P).
  - exact (Fp_pm T w w' (fpp_set_cdata T tab_en check_fn LATEST w h v w r0 w' (Fp_refl w) H) P).
  - exact (Fp_pm T w w' (fpp_remove_cdata T w h w r0 w' (Fp_refl w) H) P).
  - exact (Fp_pm T w w' (fpp_insert_citem T w h text pos w r0 w' (Fp_refl w) H) P).
  - exact (Fp_pm T w w' (fpp_remove_citem T w h pos w r0 w' (Fp_refl w) H) P).
  - exact (Fp_pm T w w' (fpp_set_ref_target T tab_el tab_en check_fn LATEST w h target w r0 w' (Fp_refl w) H) P).
  - exact (Fp_pm T w w' (fpp_set_attribute T check_fn LATEST w h attr v w r0 w' (Fp_refl w) H) P).
  - exact (Fp_pm T w w' (fpp_remove_attribute T w h attr w r0 w' (Fp_refl w) H) P).
  - exact (Fp_pm T w w' (fpp_set_comment w h c w r0 w' (Fp_refl w) H) P).
  - exact (Fp_pm T w w' (fpp_get_or_create T LATEST w h name w r0 w' (Fp_refl w) H) P).
  - exact (Fp_pm T w w' (fpp_get_or_create_named T check_fn LATEST w h name item w r0 w' (Fp_refl w) H) P).
  - exact (new_model_pm T root_attrs _ _ _ H P).
  - exact (Fp_pm T w w' (fpp_create_file T w m name version w r0 w' (Fp_refl w) H) P).
  - exact (Fp_pm T w w' (fpp_remove_file T w m f w r0 w' (Fp_refl w) H) P).
  - exact (Fp_pm T w w' (fpp_add_to_file T w h f w r0 w' (Fp_refl w) H) P).
  - exact (Fp_pm T w w' (fpp_remove_from_file T w h f w r0 w' (Fp_refl w) H) P).
Qed.

Definition J (w : world) : Prop := Core w /\ TypedU T w /\ PM T w.

Definition op3_ok (w : world) (o : op2) : Prop :=
  match o with
  | Op1 o1 => op_ok T w o1
  | OpLoad _ _ _ _ => KLoad w o = false
  | _ => True
  end.

Lemma pm_op2 o w r w' : Core w -> TypedU T w -> PM T w -> run2 o w = Val (r, w') -> PM T w'.
Proof.
  intros C HT P H. destruct o; cbn [run_op2] in H.
  - apply wmap_inv in H as (r0 & H & _). exact (pm_op o w r0 w' P H).
  - apply wmap_inv in H as (r0 & H & _). unfold e_sort in H.
    apply (e_sort_frame T tab_el tab_at tab_en name_index name_definition_ref isort_poly StableSort_isort) in H as (_ & WR).
    exact (Fp_pm T _ _ (world_rel_Fp _ _ _ WR) P).
  - apply wmap_inv in H as (r0 & H & _). unfold m_sort in H.
    apply (m_sort_frame T tab_el tab_at tab_en name_index name_definition_ref isort_poly StableSort_isort) in H as (_ & WR).
    exact (Fp_pm T _ _ (world_rel_Fp _ _ _ WR) P).
  - apply wmap_inv in H as (r0 & H & _).
    exact (proj2 (proj2 (duplicate_j3 T tab_el tab_en check_fn LATEST root_attrs m w r0 w' C H (conj (core_bounded w C) (conj HT P))))).
  - apply wbind_inv in H as [([f ws] & w1 & H1 & H2) | (e & H1 & ->)].
    + apply wret_inv in H2 as (_ & ->).
      exact (proj2 (proj2 (load_buffer_j3 T tab_el tab_at tab_en check_fn float_parse LATEST name_definition_ref m buffer filename strict
               w _ _ (or_intror (merge_ok_of_pairok T LATEST name_definition_ref HP)) C (conj (core_bounded w C) (conj HT P)) H1))).
    + exact (proj2 (proj2 (load_buffer_j3 T tab_el tab_at tab_en check_fn float_parse LATEST name_definition_ref m buffer filename strict
               w _ _ (or_intror (merge_ok_of_pairok T LATEST name_definition_ref HP)) C (conj (core_bounded w C) (conj HT P)) H1))).
  - apply wmap_inv in H as (r0 & H & _).
    destruct (f_check T w f v) as [[errs mask]| |] eqn:Ec.
    + rewrite (set_version_spec T w f v errs mask Ec) in H. destruct (is_empty errs); injection H as _ <-; [|exact P].
      intros i n m. destruct (with_version_nodes w f v) as (E & _). rewrite E. apply P.
    + unfold f_set_version, wbind, f_check_version_compatibility in H. rewrite Ec in H. discriminate.
    + unfold f_set_version, wbind, f_check_version_compatibility in H. rewrite Ec in H. discriminate.
  - apply wbind_inv in H as [(a & w1 & H1 & H2) | (e & H1 & _)];
      unfold f_check_version_compatibility in H1; destruct (f_check T w f v); try discriminate.
    injection H1 as _ <-. destruct a. apply wret_inv in H2 as (_ & ->). exact P.
  - apply wmap_inv in H as (r0 & H & _). unfold f_serialize in H.
    wrun_ro H ltac:(exact P).
    wstepn H o Ea. apply wtry_inv in Ea as (r1 & Ea & _).
    pose proof (Fp_pm T _ _ (fpp_raw_set_attribute T check_fn _ _ _ _ _ _ _ _ (Fp_refl _) Ea) P) as P1.
    destruct (ser_heap _ _ _ _ _ _ _ _ _ _ _) in H; try discriminate. injection H as _ <-. exact P1.
  - apply wmap_inv in H as (r0 & H & _). unfold e_serialize in H.
    destruct (ser_heap _ _ _ _ _ _ _ _ _ _ _) in H; try discriminate. injection H as _ <-. exact P.
Qed.

Lemma typed_op3 o w r w' : Core w -> TypedU T w -> PM T w -> op3_ok w o -> run2 o w = Val (r, w') -> TypedU T w'.
Proof.
  intros C HT P Hok H. destruct (pending2 o) eqn:Ep.
  2:{ apply (typed_op2 T tab_el tab_at tab_en check_fn float_parse float_fmt LATEST name_index name_definition_ref
               attr_schema_location root_attrs o w r w' Ep C HT); [|exact H]. destruct o; [exact Hok|exact I|exact I|discriminate Ep|discriminate Ep|exact I|exact I|exact I|exact I]. }
  destruct o; try discriminate Ep; cbn [run_op2] in H.
  - apply wmap_inv in H as (r0 & H & _).
    exact (proj1 (proj2 (duplicate_j3 T tab_el tab_en check_fn LATEST root_attrs m w r0 w' C H (conj (core_bounded w C) (conj HT P))))).
  - apply wbind_inv in H as [([f ws] & w1 & H1 & H2) | (e & H1 & ->)].
    + apply wret_inv in H2 as (_ & ->).
      exact (proj1 (proj2 (load_buffer_j3 T tab_el tab_at tab_en check_fn float_parse LATEST name_definition_ref m buffer filename strict
               w _ _ (or_intror (merge_ok_of_pairok T LATEST name_definition_ref HP)) C (conj (core_bounded w C) (conj HT P)) H1))).
    + exact (proj1 (proj2 (load_buffer_j3 T tab_el tab_at tab_en check_fn float_parse LATEST name_definition_ref m buffer filename strict
               w _ _ (or_intror (merge_ok_of_pairok T LATEST name_definition_ref HP)) C (conj (core_bounded w C) (conj HT P)) H1))).
Qed.

Theorem typed_step3 o w r w' : op3_ok w o -> J w -> run2 o w = Val (r, w') -> J w'.
Proof.
  intros Hok (C & HT & P) H. split; [|split].
  - apply (Core_step2 T tab_el tab_at tab_en check_fn float_parse float_fmt LATEST name_index name_definition_ref
             attr_schema_location root_attrs o w r w'); [|exact C|exact H].
    destruct o; [reflexivity|reflexivity|reflexivity|reflexivity|exact Hok|reflexivity|reflexivity|reflexivity|reflexivity].
  - exact (typed_op3 o w r w' C HT P Hok H).
  - exact (pm_op2 o w r w' C HT P H).
Qed.

Fixpoint ok_ops3 (l : list op2) (w : world) : Prop :=
  match l with
  | [] => True
  | o :: r => op3_ok w o /\ match run2 o w with Val (_, w') => ok_ops3 r w' | _ => True end
  end.

Notation run_ops2 := (run_ops2 T tab_el tab_at tab_en check_fn float_parse float_fmt LATEST name_index name_definition_ref
                                attr_schema_location root_attrs).

Theorem typed_histories3_from l : forall w w', J w -> ok_ops3 l w -> run_ops2 l w = Val w' -> J w'.
Proof.
  induction l as [|o l IH]; intros w w' Jw Hok H; cbn [CompatHist6.run_ops2] in H.
  - injection H as <-. exact Jw.
  - cbn [ok_ops3] in Hok. destruct Hok as (Ho & Hrest).
    destruct (run2 o w) as [[r w1]| |] eqn:E; try discriminate.
    exact (IH w1 w' (typed_step3 o w r w1 Ho Jw E) Hrest H).
Qed.

Theorem typed_histories3 l w' : ok_ops3 l empty_world -> run_ops2 l empty_world = Val w' -> J w'.
Proof. intros Hok H. exact (typed_histories3_from l empty_world w' (conj empty_core (conj (empty_typed T) (empty_pm T))) Hok H). Qed.

End Op3.
