(* Tree/FilesProofsInv.v — C10 proofs, top layer: the invariant is preserved by every operation of Script.v's `op`
   outside the classes Known10 (findings) and RootNamedLast (not proved yet: move, remove_file of the last file), along
   single steps and along histories; completeness of the boolean checker (for refutations). *)
From Coq Require Import PeanoNat Arith Lia.
From AV Require Import Base.Bytes Base.Outcome Hash.HashModel Tree.Heap Tree.Ops Tree.Script Tree.Serialize
  Tree.Inv Tree.InvProofsBase Tree.InvProofsCore Tree.InvProofsTree Tree.InvProofsPrim Tree.InvProofsNav
  Tree.Files Tree.FilesProofsBase Tree.FilesProofsProj Tree.FilesProofsFrame Tree.FilesProofsOps
  Tree.FilesProofsSet Tree.FilesProofsHole Tree.FilesProofsAdd Tree.FilesProofsStrip Tree.FilesProofsRemove Tree.FilesProofsLast Tree.FilesProofsMove.
Open Scope string_scope.
Open Scope list_scope.
Open Scope N_scope.

(* operations whose proof is not finished: none of the 26 constructors; the only excluded shape is remove_file of the
   last file for a table set whose root type is a named type (no real table set has one) *)
Definition RootNamedLast (T : tables) (w : world) (o : op) : bool :=
  match o with
  | OpRemoveFile _ _ => last_file w o && root_named T w o
  | _ => false
  end.

(* the operations that never touch a file set *)
Definition frame_op (o : op) : bool :=
  match o with
  | OpMove _ _ | OpMoveAt _ _ _ | OpCreateFile _ _ _ | OpRemoveFile _ _ | OpAddToFile _ _ | OpRemoveFromFile _ _ => false
  | _ => true
  end.

Section Inv.
Variable T : tables.
Variable tab_el tab_en : nametab.
Variable check_fn : N -> list N -> res bool.
Variable LATEST : N.
Variable root_attrs : list (N * cdata).

Let run := run_op T tab_el tab_en check_fn LATEST root_attrs.

Lemma ff_welem (m : W id) : ff m -> ff (welem m).
Proof. intros H. unfold welem. apply ff_bind; auto. intros i. apply ff_ro. ro_tac. Qed.
Lemma ff_wunit (m : W unit) : ff m -> ff (wunit m).
Proof. intros H. unfold wunit. apply ff_bind; auto. intros i. apply ff_ro. ro_tac. Qed.

Lemma ff_run o : frame_op o = true -> ff (run o).
Proof.
  destruct o; cbn [frame_op]; try discriminate; intros _; unfold run; cbn [run_op];
    try (apply ff_welem); try (apply ff_wunit).
  - apply ff_e_create_sub.
  - apply ff_e_create_sub_at.
  - apply ff_e_create_named.
  - apply ff_e_create_named_at.
  - apply ff_e_create_copied.
  - apply ff_e_create_copied_at.
  - apply ff_e_remove_sub_element.
  - apply ff_e_remove_sub_element_kind.
  - apply ff_e_set_item_name.
  - apply ff_e_set_character_data.
  - apply ff_e_remove_character_data.
  - apply ff_e_insert_citem.
  - apply ff_e_remove_citem.
  - apply ff_e_set_reference_target.
  - apply ff_e_set_attribute.
  - apply ff_bind; [apply ff_e_remove_attribute|]. intros b. apply ff_ro. ro_tac.
  - apply ff_e_set_comment.
  - apply ff_e_get_or_create.
  - apply ff_e_get_or_create_named.
  - apply ff_bind; [apply ff_new_model|]. intros b. apply ff_ro. ro_tac.
Qed.

Lemma run_bind_inv {A} (m : W A) (g : A -> value) w r w' :
  wbind m (fun a => wret (g a)) w = Val (r, w') -> exists r0, m w = Val (r0, w').
Proof.
  intros H. apply wbind_inv in H as [(a & w1 & H1 & H2) | (e & H1 & _)]; [|eauto].
  apply wret_inv in H2 as (_ & ->). eauto.
Qed.

(* Core w' is C03's theorem Core_step (Tree/InvProofs.v); it is discharged in Tree/FilesProofsHist.v *)
Lemma reach_root_alloc w r i : Reach w r i -> allocated w r.
Proof. induction 1; auto. Qed.

Lemma no_local_below w mv : Core w -> subtree_local w mv = false ->
  forall y n, Reach w mv y -> w_nodes w y = Some n -> n_files n = [].
Proof.
  intros C H y n Hr Hn. unfold subtree_local in H.
  destruct (walk_preorder w mv C (reach_root_alloc _ _ _ Hr)) as (_ & _ & Hin).
  assert (In y (walk (fuel_of w) w mv)) as Hy by (apply Hin; exact Hr).
  destruct (n_files n) as [|g l] eqn:Ef; auto. exfalso.
  assert (existsb (fun x => negb (is_empty (files_of w x))) (walk (fuel_of w) w mv) = true) as E; [|congruence].
  apply existsb_exists. exists y. split; auto. unfold files_of. rewrite Hn, Ef. reflexivity.
Qed.

Theorem inv_step_core o w r w' :
  TreeInv w -> Core w' -> FilesInv T w -> RootNamedLast T w o = false -> Known10 w o = false -> Unowned w o = false ->
  run o w = Val (r, w') -> FilesInv T w'.
Proof.
  intros TI C' FI HP HK HU H. pose proof TI as (C & _).
  destruct (frame_op o) eqn:Efo.
  - destruct (ff_run o Efo _ _ _ (core_fresh _ C) H) as (F & _). eapply frame_transfer; eauto.
  - unfold Known10 in HK. apply Bool.orb_false_iff in HK as (HK & HK3). apply Bool.orb_false_iff in HK as (HK1 & HK2).
    destruct o; cbn [frame_op] in Efo; try discriminate; cbn [RootNamedLast] in HP; try discriminate; unfold run in H; cbn [run_op] in H.
    + unfold welem in H. apply run_bind_inv in H as (r0 & H).
      eapply move_transfer; eauto; [eapply mr_e_move_element_here; eauto | apply no_local_below; auto].
    + unfold welem in H. apply run_bind_inv in H as (r0 & H).
      eapply move_transfer; eauto; [eapply mr_e_move_element_here_at; eauto | apply no_local_below; auto].
    + apply run_bind_inv in H as (r0 & H). eapply create_file_inv; eauto.
    + unfold wunit in H. apply run_bind_inv in H as (r0 & H).
      destruct (last_file w (OpRemoveFile m f)) eqn:EL; [eapply remove_file_last_inv; eauto | eapply remove_file_inv; eauto].
    + unfold wunit in H. apply run_bind_inv in H as (r0 & H). eapply add_to_file_inv; eauto.
    + unfold wunit in H. apply run_bind_inv in H as (r0 & H). eapply remove_from_file_inv; eauto.
Qed.

(* ---------- the checker is complete: FilesInv implies files_ok ---------- *)
Lemma reach_list_sound fuel w : forall i l, reach_list fuel w i = Some l -> forall x, In x l -> Reach w i x.
Proof.
  induction fuel as [|fuel IH]; intros i l H x Hx; cbn [reach_list] in H; [discriminate|].
  destruct (w_nodes w i) as [n|] eqn:Hn; [|discriminate].
  assert (forall ks r, (fix ks (l : list id) : option (list id) :=
            match l with
            | [] => Some []
            | c :: rest => match reach_list fuel w c, ks rest with Some a, Some b => Some (a ++ b) | _, _ => None end
            end) ks = Some r -> forall y, In y r -> exists c, In c ks /\ Reach w c y) as KS.
  { induction ks as [|c ks IHk]; intros r Hr y Hy.
    - injection Hr as <-. destruct Hy.
    - destruct (reach_list fuel w c) as [a|] eqn:Ha; [|discriminate].
      match type of Hr with match ?e with _ => _ end = _ => destruct e as [b|] eqn:Hb; [|discriminate] end.
      injection Hr as <-. apply in_app_iff in Hy as [Hy|Hy].
      + exists c. split; [left; auto|]. eapply IH; eauto.
      + destruct (IHk _ eq_refl y Hy) as (c' & Hc' & Hr'). exists c'. split; [right; auto|auto]. }
  match type of H with match ?e with _ => _ end = _ => destruct e as [r|] eqn:Hr; [|discriminate] end.
  injection H as <-. destruct Hx as [<-|Hx].
  - constructor. exists n. auto.
  - destruct (KS _ _ Hr x Hx) as (c & Hc & Hrc). eapply reach_trans; [|exact Hrc].
    eapply R_kid; [constructor; exists n; auto|]. exists n. auto.
Qed.

Theorem files_ok_complete w : Core w -> FilesInv T w -> (forall x, In x (w_models w) -> reach_list (fuel_of w) w (m_root x) <> None) ->
  files_ok T w = true.
Proof.
  intros C FI Hfuel. unfold files_ok. apply forallb_forall. intros x Hx. unfold files_ok_model.
  destruct (reach_list (fuel_of w) w (m_root x)) as [l|] eqn:Hl; [|exfalso; eapply Hfuel; eauto].
  apply forallb_forall. intros i Hi. pose proof (reach_list_sound _ _ _ _ Hl i Hi) as Hr.
  pose proof (FI x Hx) as [A B S D]. destruct (reach_alloc _ _ _ C Hr) as (n & Hn).
  unfold node_ok. rewrite Hn. apply Bool.andb_true_iff. split; [apply Bool.andb_true_iff; split|].
  - apply subset_incl. eapply A; eauto.
  - destruct (n_files n) as [|g fs] eqn:Ef; [reflexivity|]. cbn [is_empty orb].
    destruct (n_parent n) as [| |p] eqn:Hp; auto.
    destruct (B i n p Hr Hn ltac:(congruence) Hp) as (s & Hs & Hi').
    rewrite (eff_complete _ _ _ C Hs).
    assert (Reach w (m_root x) p) as Hrp by (eapply reach_par; eauto; exists n; auto).
    destruct (reach_alloc _ _ _ C Hrp) as (pn & Hpn). rewrite Hpn.
    apply Bool.andb_true_iff. split; [apply subset_incl; rewrite <- Ef; exact Hi'|].
    destruct (S i n p pn Hr Hn ltac:(congruence) Hp Hpn) as (sv & Hsv & Hnz).
    unfold split_okb. rewrite Hsv. apply Bool.negb_true_iff, N.eqb_neq. exact Hnz.
  - destruct (m_files x) as [|g fs] eqn:Ef; [reflexivity|]. cbn [is_empty orb].
    destruct (D ltac:(congruence) i Hr) as (s & Hs). rewrite (eff_complete _ _ _ C Hs). reflexivity.
Qed.

End Inv.
