(* Tree/NoPanicProofsOps3.v — C12, layer 3: set_character_data (non-float values), set_item_name, set_reference_target. *)
From Coq Require Import Lia.
From AV Require Import Base.Bytes Base.Outcome Hash.HashModel Spec.SpecOps Xml.TablesOk Tree.Heap Tree.Ops Tree.Script Tree.Inv.
From AV Require Import Tree.NoPanic Tree.NoPanicProofsBase Tree.NoPanicProofsOps1 Tree.NoPanicProofsClosed Tree.NoPanicProofsOps2.
Open Scope string_scope.
Open Scope list_scope.
Open Scope N_scope.

Section Ops3.
Variable T : tables.
Variable tab_el tab_en : nametab.
Variable check_fn : N -> list N -> res bool.
Variable LATEST : N.
Variable root_attrs : list (N * cdata).
Hypothesis OK12 : tables_ok12 T = true.
Hypothesis CHECK : forall fn s, exists b, check_fn fn s = Val b.
Collection Env := T tab_el tab_en check_fn LATEST root_attrs OK12 CHECK.
Set Default Proof Using "Env".

Notation ENV f := (f T tab_el tab_en check_fn LATEST root_attrs OK12 CHECK) (only parsing).
Notation TOK := (ok12_tables T OK12) (only parsing).
Notation node_ok := (node_ok T tab_el tab_en).
Notation Closed := (Closed T tab_el tab_en).
Notation PanicFree := (PanicFree T tab_el tab_en).
Notation cdata_ok := (cdata_ok tab_en).
Notation name_ok := (name_ok tab_el).
Notation good := (good T tab_el tab_en).

Lemma ext_models w w1 m : ext w w1 -> m < N.of_nat (List.length (w_models w)) -> m < N.of_nat (List.length (w_models w1)).
Proof. intros (_ & E & _) L. rewrite E. exact L. Qed.
Lemma ext_next w w1 i : ext w w1 -> i < w_next w -> i < w_next w1.
Proof. intros (E & _) L. lia. Qed.

(* ---------- Element::set_character_data ---------- *)
Lemma gq_set_character_data w h v0 : PanicFree w -> h < w_next w -> cdata_ok v0 -> (forall b, v0 <> DFloat b) ->
  runsQ (e_set_character_data T tab_en check_fn LATEST h v0) w (good w (fun _ _ => True)).
Proof.
  intros [C U _] L CV NF. unfold e_set_character_data.
  destruct (ENV get_node_ok w h C L) as (n & EG & EN & NO).
  eapply (ENV good_rd); [exact C|exists (OK n); split; [exact EG|]; intros a [= <-]; exact (eq_refl n)|]. intros a <-.
  pose proof NO as (ET & NM & KIDS & CD & PO).
  destruct (content_mode_ok T OK12 _ ET) as (mode & EM).
  eapply (ENV good_rd); [exact C|apply (rd_wl _ mode w (fun a => a = mode) EM); reflexivity|]. intros a ->.
  match goal with |- context [if negb ?b then _ else _] => destruct b end; cbn [negb]; [|apply (ENV good_fail); exact C].
  destruct (chardata_spec_ok T TOK _ ET) as (spec & ES & _).
  eapply (ENV good_rd); [exact C|apply (rd_wl _ spec w (fun a => a = spec) ES); reflexivity|]. intros a ->.
  destruct spec as [cs|]; [|apply (ENV good_fail); exact C].
  eapply (ENV good_rd); [exact C|apply (ENV model_of_ok w h C U L)|]. intros m Lm.
  eapply (ENV good_rd); [exact C|apply (ENV min_version_ok w h C U L)|]. intros version _.
  destruct (ENV check_value_ok v0 cs version) as (ok0 & EOK).
  eapply (ENV good_rd); [exact C|apply (rd_wl _ ok0 w (fun a => a = ok0) EOK); reflexivity|]. intros a ->.
  eapply (ENV good_rd _ _ w (fun p => cdata_ok (fst p))); [exact C| |].
  { destruct (negb ok0 && match cs with CPattern _ _ | CString _ _ => true | _ => false end); [|apply rd_ret; exact CV].
    destruct (ENV cdata_to_string_ok v0 CV NF) as (s & ESTR).
    eapply rd_bind; [apply (rd_wl _ s w (fun a => a = s) ESTR); reflexivity|]. intros a ->.
    destruct (ENV check_value_ok (DString s) cs version) as (ok1 & EOK1).
    eapply rd_bind; [apply (rd_wl _ ok1 w (fun a => a = ok1) EOK1); reflexivity|]. intros a ->.
    apply rd_ret. exact I. }
  intros [v ok] CVV. cbn [fst] in CVV.
  destruct ok; cbn [negb]; [|apply (ENV good_fail); exact C].
  destruct (ENV character_data_ok w n NO) as (cd0 & ECD).
  eapply (ENV good_rd); [exact C|apply (rd_wl _ cd0 w (fun a => a = cd0) ECD); reflexivity|]. intros a ->.
  eapply (ENV good_rd _ _ w (fun _ => True)); [exact C| |].
  { destruct ((n_name n =? SHORT T) && match cd0 with Some _ => true | None => false end); [|apply rd_ret; exact I].
    unfold parent_of. destruct (n_parent n) as [|pm|pi] eqn:EP.
    - eapply (rd_bind _ _ _ (fun _ => False)); [apply rd_fail|]. intros a [].
    - eapply (rd_bind _ _ _ (fun a => a = None)); [apply rd_ret; reflexivity|]. intros a ->. apply rd_ret. exact I.
    - eapply (rd_bind _ _ _ (fun a => a = Some pi)); [apply rd_ret; reflexivity|]. intros a ->.
      eapply rd_bind; [apply (ENV path_id_ok w pi C U PO)|]. intros pp _.
      eapply rd_bind; [apply (ENV rd_get_node w pi (fun x => node_ok w x) C PO); auto|]. intros pn PNO.
      eapply rd_bind; [apply (ENV rd_item_name w pn (fun _ => True) C PNO); auto|]. intros old _.
      eapply (rd_bind _ _ _ (fun _ => True)); [|intros; apply rd_ret; exact I].
      destruct old as [old_name|]; [|apply rd_ret; exact I].
      destruct v; try (apply rd_ret; exact I).
      destruct (strip_suffix old_name pp); [|apply rd_ret; exact I].
      destruct (negb (bytes_eqb s old_name)); [|apply rd_ret; exact I].
      eapply rd_bind; [apply (ENV get_element_by_path_ok w m _ C Lm)|]. intros ex _.
      destruct ex; [apply rd_fail|apply rd_ret; exact I]. }
  intros prev_path _.
  destruct (is_ref_ok T TOK _ ET) as (isr & EI).
  eapply (ENV good_rd); [exact C|apply (rd_wl _ isr w (fun a => a = isr) EI); reflexivity|]. intros a ->.
  cbv zeta.
  (* the write *)
  eapply (ENV good_bind).
  { eapply (ENV good_set_node w h _ n C EN); [|reflexivity].
    split; [exact ET|]. split; [exact NM|]. cbn [set_content n_content n_parent].
    split; [intros c [[=]|[]]|]. split; [intros d [[= <-]|[]]; exact CVV|exact PO]. }
  intros [] w1 C1 X1 (S1 & N1 & EW1).
  assert (U1 : UpWF w1) by (eapply UpWF_sameP; eauto).
  assert (Lm1 : m < N.of_nat (List.length (w_models w1))) by (eapply ext_models; eauto).
  assert (L1 : h < w_next w1) by lia.
  eapply (ENV good_bind _ _ w1 (fun _ _ => True)).
  { destruct prev_path as [pp|]; [|apply (ENV good_ret); [exact C1|exact I]].
    eapply (ENV good_rd); [exact C1|apply (ENV rd_get_node w1 h (fun x => node_ok w1 x) C1 L1); auto|]. intros n2 NO2.
    unfold parent_of. destruct NO2 as (_ & _ & _ & _ & PO2). destruct (n_parent n2) as [|pm|pi].
    - eapply (ENV good_rd _ _ w1 (fun _ => False)); [exact C1|apply rd_fail|]. intros a [].
    - eapply (ENV good_rd _ _ w1 (fun a => a = None)); [exact C1|apply rd_ret; reflexivity|]. intros a ->.
      apply (ENV good_ret); [exact C1|exact I].
    - eapply (ENV good_rd _ _ w1 (fun a => a = Some pi)); [exact C1|apply rd_ret; reflexivity|]. intros a ->.
      eapply (ENV good_rd); [exact C1|apply (ENV path_id_ok w1 pi C1 U1 PO2)|]. intros np _.
      eapply (ENV good_weaken); [apply (ENV good_fix_identifiables w1 m pp np C1 Lm1)|].
      intros; exact I. }
  intros [] w2 C2 X2 _.
  assert (Lm2 : m < N.of_nat (List.length (w_models w2))) by (eapply ext_models; eauto).
  assert (L2 : h < w_next w2) by (eapply ext_next; eauto).
  destruct isr; [|apply (ENV good_ret); [exact C2|intros; exact I]].
  destruct v; try (apply (ENV good_ret); [exact C2|intros; exact I]).
  destruct (match cd0 with Some (DString s0) => Some s0 | _ => None end).
  - eapply (ENV good_weaken); [apply (ENV good_fix_reference_origins w2 m _ _ h C2 Lm2 L2)|]. intros; exact I.
  - eapply (ENV good_weaken); [apply (ENV good_add_reference_origin w2 m _ h C2 Lm2 L2)|]. intros; exact I.
Qed.

Lemma np_set_character_data w h v0 : PanicFree w -> h < w_next w -> cdata_ok v0 -> (forall b, v0 <> DFloat b) ->
  runs (e_set_character_data T tab_en check_fn LATEST h v0) w.
Proof. intros. eapply (ENV good_runs). apply gq_set_character_data; assumption. Qed.

(* ---------- Element::set_item_name ---------- *)
(* the two loops of the rename, named (the same terms as in Ops.v: `fold` finds them) *)
Definition sin_upd_refs (refpath_new : list N) : list id -> W unit :=
  fix upd_refs (rl : list id) : W unit :=
    match rl with
    | [] => wret tt
    | re :: rr =>
      wbind (get_node re) (fun rn =>
        wbind (match n_content rn with
               | [] => set_node re (set_content rn [CData (DString refpath_new)])
               | _ :: tl => set_node re (set_content rn (CData (DString refpath_new) :: tl))
               end) (fun _ => upd_refs rr))
    end.

Lemma good_sin_upd_refs refpath_new : forall rl w, Closed w -> Forall (fun e => e < w_next w) rl ->
  runsQ (sin_upd_refs refpath_new rl) w (good w (fun _ w' => w_next w' = w_next w)).
Proof.
  induction rl as [|re rr IH]; intros w C F; cbn [sin_upd_refs].
  - apply (ENV good_ret); [exact C|reflexivity].
  - inversion F as [|? ? Lre Frr]; subst.
    destruct (ENV get_node_ok w re C Lre) as (rn & EG & EN & NO).
    eapply (ENV good_rd); [exact C|exists (OK rn); split; [exact EG|]; intros a [= <-]; exact (eq_refl rn)|]. intros a <-.
    pose proof NO as (ET & NM & KIDS & CD & PO).
    eapply (ENV good_bind _ _ w (fun _ w1 => w_next w1 = w_next w)).
    + destruct (n_content rn) as [|it tl] eqn:EC.
      * eapply (ENV good_weaken); [eapply (ENV good_set_node w re _ rn C EN); [|reflexivity]|intros u w1 (_ & N1 & _); exact N1].
        split; [exact ET|]. split; [exact NM|]. cbn. split; [intros c [[=]|[]]|]. split; [intros d [[= <-]|[]]; exact I|exact PO].
      * eapply (ENV good_weaken); [eapply (ENV good_set_node w re _ rn C EN); [|reflexivity]|intros u w1 (_ & N1 & _); exact N1].
        split; [exact ET|]. split; [exact NM|]. cbn.
        split; [intros c [[=]|IN]; apply KIDS; right; exact IN|].
        split; [intros d [[= <-]|IN]; [exact I|apply CD; right; exact IN]|exact PO].
    + intros [] w1 C1 X1 N1. eapply (ENV good_weaken); [apply IH; [exact C1|]|].
      * rewrite Forall_forall in *. intros y IN. rewrite N1. auto.
      * intros u w2 N2 w0 _. cbv beta in *. lia.
Qed.

Lemma gq_set_item_name w h new_name : PanicFree w -> h < w_next w ->
  runsQ (e_set_item_name T check_fn LATEST h new_name) w (good w (fun _ _ => True)).
Proof.
  intros [C U _] L. unfold e_set_item_name.
  destruct (is_empty new_name); [apply (ENV good_fail); exact C|].
  eapply (ENV good_rd); [exact C|apply (ENV model_of_ok w h C U L)|]. intros m Lm.
  eapply (ENV good_rd); [exact C|apply (ENV min_version_ok w h C U L)|]. intros version _.
  destruct (ENV get_node_ok w h C L) as (n & EG & EN & NO).
  eapply (ENV good_rd); [exact C|exists (OK n); split; [exact EG|]; intros a [= <-]; exact (eq_refl n)|]. intros a <-.
  destruct (ENV item_name_ok w n C NO) as (cur & ECUR).
  eapply (ENV good_rd); [exact C|exists (OK cur); split; [exact ECUR|]; intros a [= <-]; exact (eq_refl cur)|]. intros a <-.
  destruct cur as [current_name|]; [|apply (ENV good_fail); exact C].
  destruct (bytes_eqb current_name new_name); [apply (ENV good_ret); [exact C|exact I]|].
  eapply (ENV good_rd); [exact C|apply (ENV path_of_ok w n C U NO)|]. intros old_path SUF.
  destruct (ENV strip_suffix_ends current_name old_path (SUF current_name ECUR)) as (base & ->).
  cbv zeta.
  eapply (ENV good_rd); [exact C|apply (ENV get_element_by_path_ok w m _ C Lm)|]. intros ex _.
  destruct ex; [apply (ENV good_fail); exact C|].
  pose proof NO as (_ & _ & KIDS & _).
  destruct (n_content n) as [|[s|d] rest] eqn:ECN; try (apply (ENV good_ret); [exact C|exact I]).
  assert (Ls : s < w_next w) by (apply KIDS; left; reflexivity).
  eapply (ENV good_rd); [exact C|apply (ENV rd_get_node w s (fun _ => True) C Ls); auto|]. intros sn _.
  destruct (n_name sn =? SHORT T); [|apply (ENV good_ret); [exact C|exact I]].
  eapply (ENV good_bind); [apply (ENV good_raw_set_character_data w s (DString new_name) version C Ls I)|].
  intros [] w1 C1 X1 _.
  eapply (ENV good_bind); [apply (ENV good_fix_identifiables w1 m old_path (base ++ new_name) C1 (ext_models _ _ _ X1 Lm))|].
  intros [] w2 C2 X2 _.
  assert (Lm2 : m < N.of_nat (List.length (w_models w2))) by (eapply ext_models; [exact X2|eapply ext_models; eauto]).
  destruct (ENV get_model_ok w2 m C2 Lm2) as (x & EGM & _ & _).
  eapply (ENV good_rd); [exact C2|exists (OK x); split; [exact EGM|]; intros a [= <-]; exact (eq_refl x)|]. intros a <-.
  generalize (map fst (m_origins x)). intros keys.
  (* the loop over the keys of the reverse reference map: any Closed world with the model present *)
  clear EGM x X2 X1 C1 C. revert w2 C2 Lm2.
  induction keys as [|refpath r IH]; intros w2 C2 Lm2.
  - apply (ENV good_ret); [exact C2|intros; exact I].
  - eapply (ENV good_bind _ _ w2 (fun _ _ => True)).
    + destruct (strip_prefix old_path refpath) as [partial|]; [|apply (ENV good_ret); [exact C2|exact I]].
      destruct (is_empty partial || starts_with_slash partial); [|apply (ENV good_ret); [exact C2|exact I]].
      destruct (ENV get_model_ok w2 m C2 Lm2) as (y & EGY & ENY & MOY).
      eapply (ENV good_rd); [exact C2|exists (OK y); split; [exact EGY|]; intros a [= <-]; exact (eq_refl y)|]. intros a <-.
      destruct (assoc_get refpath (m_origins y)) as [reflist|] eqn:EA; [|apply (ENV good_ret); [exact C2|exact I]].
      assert (FR : Forall (fun e => e < w_next w2) reflist).
      { apply model_ok_iff in MOY as (_ & D). eapply assoc_get_ok; eauto. }
      (* set_model *)
      eapply (ENV good_bind _ _ w2 (fun _ w3 => w_next w3 = w_next w2)).
      { exists (OK tt), (wmodel w2 m (set_origins y (assoc_remove refpath (m_origins y)))).
        split; [reflexivity|]. split; [|split; [apply ext_wmodel|reflexivity]].
        apply Closed_wmodel; [exact C2|]. apply model_ok_iff in MOY as (A & D). apply model_ok_iff. cbn.
        split; [exact A|apply assoc_remove_ok; exact D]. }
      intros [] w3 C3 X3 N3. cbv zeta.
      eapply (ENV good_bind _ _ w3 (fun _ w4 => w_next w4 = w_next w3)).
      { refine (good_sin_upd_refs ((base ++ new_name) ++ partial) reflist w3 C3 _).
        rewrite Forall_forall in *. intros e IN. rewrite N3. auto. }
      intros [] w4 C4 X4 N4.
      eapply (ENV good_weaken); [apply (ENV good_modify_model w4 m _ C4)|intros; exact I].
      * eapply ext_models; [exact X4|]. eapply ext_models; [exact X3|exact Lm2].
      * intros z MOZ. apply model_ok_iff in MOZ as (A & D). apply model_ok_iff. cbn.
        split; [exact A|].
        assert (FR4 : Forall (fun e => e < w_next w4) reflist).
        { rewrite Forall_forall in *. intros e IN. rewrite N4, N3. auto. }
        destruct (assoc_get _ (m_origins z)) as [l0|] eqn:EZ.
        -- apply assoc_insert_ok; [exact D|]. apply Forall_app. split; [eapply assoc_get_ok; eauto|exact FR4].
        -- apply vals_ok_app; [exact D|]. apply vals_ok_one. exact FR4.
    + intros [] w3 C3 X3 _. eapply (ENV good_weaken); [apply IH; [exact C3|eapply ext_models; eauto]|]. intros; exact I.
Qed.

Lemma np_set_item_name w h new_name : PanicFree w -> h < w_next w -> runs (e_set_item_name T check_fn LATEST h new_name) w.
Proof. intros. eapply (ENV good_runs). apply gq_set_item_name; assumption. Qed.

(* ---------- Element::set_reference_target ---------- *)
Lemma good_raw_set_attribute w h attr v version : Closed w -> h < w_next w ->
  runsQ (raw_set_attribute T check_fn h attr v version) w (good w (fun _ w' => sameP w w' /\ w_next w' = w_next w)).
Proof.
  intros C L. unfold raw_set_attribute.
  destruct (ENV get_node_ok w h C L) as (n & EG & EN & NO).
  eapply (ENV good_rd); [exact C|exists (OK n); split; [exact EG|]; intros a [= <-]; exact (eq_refl n)|]. intros a <-.
  pose proof NO as (ET & _).
  destruct (find_attribute_spec_ok T TOK _ attr ET) as (r & E & _).
  eapply (ENV good_rd); [exact C|apply (rd_wl _ r w (fun a => a = r) E); reflexivity|]. intros a ->.
  destruct r as [[[[c spec] req] mask]|]; [|apply (ENV good_fail); exact C].
  destruct (N.land version mask =? 0); [apply (ENV good_fail); exact C|].
  destruct (ENV check_value_ok v spec version) as (b & EB).
  eapply (ENV good_rd); [exact C|apply (rd_wl _ b w (fun a => a = b) EB); reflexivity|]. intros a ->.
  destruct b; [|apply (ENV good_fail); exact C].
  eapply (ENV good_weaken); [eapply (ENV good_set_node w h _ n C EN); [exact NO|reflexivity]|intros u w1 (S1 & N1 & _); auto].
Qed.

Hypothesis EN_OK : nametab_ok tab_en = true.

Lemma gq_set_reference_target w h target : PanicFree w -> h < w_next w -> target < w_next w ->
  runsQ (e_set_reference_target T tab_el tab_en check_fn LATEST h target) w (good w (fun _ _ => True)).
Proof using Env EN_OK.
  intros [C U _] L Lt. unfold e_set_reference_target.
  destruct (ENV get_node_ok w h C L) as (n & EG & EN & NO).
  eapply (ENV good_rd); [exact C|exists (OK n); split; [exact EG|]; intros a [= <-]; exact (eq_refl n)|]. intros a <-.
  pose proof NO as (ET & _).
  destruct (is_ref_ok T TOK _ ET) as (isr & EI).
  eapply (ENV good_rd); [exact C|apply (rd_wl _ isr w (fun a => a = isr) EI); reflexivity|]. intros a ->.
  destruct isr; cbn [negb]; [|apply (ENV good_fail); exact C].
  eapply (ENV good_rd); [exact C|apply (ENV path_id_ok w target C U Lt)|]. intros new_ref _.
  destruct (ENV get_node_ok w target C Lt) as (tn & EGT & ENT & NOT).
  eapply (ENV good_rd); [exact C|exists (OK tn); split; [exact EGT|]; intros a [= <-]; exact (eq_refl tn)|]. intros a <-.
  pose proof NOT as (ETT & NMT & _).
  destruct (to_str tab_el (n_name tn)) as [txt|] eqn:ETX; [|exfalso; apply NMT; exact ETX].
  eapply (ENV good_rd _ _ w (fun a => a = txt)); [exact C|apply rd_ret; reflexivity|]. intros a ->.
  eapply (ENV good_rd _ _ w (fun _ => True)); [exact C| |].
  { pose proof (from_bytes_no_panic tab_en txt EN_OK) as NP. destruct (from_bytes tab_en txt) as [i| |].
    - apply rd_ret. exact I.
    - destruct (reference_dest_value_ok T OK12 _ _ ET ETT) as (r & ER). eapply rd_wl; eauto.
    - exfalso. apply NP. reflexivity. }
  intros item _. destruct item as [enum_item|]; [|apply (ENV good_fail); exact C].
  eapply (ENV good_rd); [exact C|apply (ENV model_of_ok w h C U L)|]. intros m Lm.
  eapply (ENV good_rd); [exact C|apply (ENV min_version_ok w h C U L)|]. intros version _.
  (* wtry (raw_set_attribute ..) *)
  destruct (good_raw_set_attribute w h (attr_dest T) (DEnum enum_item) version C L) as (r1 & w1 & E1 & C1 & X1 & H1).
  unfold runsQ. unfold wbind at 1. rewrite (wtry_val _ _ _ _ E1).
  destruct r1 as [[]|e1].
  - destruct H1 as (S1 & N1).
    assert (L1 : h < w_next w1) by lia.
    assert (Lm1 : m < N.of_nat (List.length (w_models w1))) by (eapply ext_models; eauto).
    assert (REST : runsQ (do n2 <- get_node h;
                          do cd <- wl (character_data T n2);
                          match cd with
                          | Some (DString old_ref) => fix_reference_origins m old_ref new_ref h
                          | _ => add_reference_origin m new_ref h
                          end;; raw_set_character_data T check_fn h (DString new_ref) version)%W w1 (good w1 (fun _ _ => True))).
    { destruct (ENV get_node_ok w1 h C1 L1) as (n2 & EG2 & EN2 & NO2).
      eapply (ENV good_rd); [exact C1|exists (OK n2); split; [exact EG2|]; intros a [= <-]; exact (eq_refl n2)|]. intros a <-.
      destruct (ENV character_data_ok w1 n2 NO2) as (cd & ECD).
      eapply (ENV good_rd); [exact C1|apply (rd_wl _ cd w1 (fun a => a = cd) ECD); reflexivity|]. intros a ->.
      eapply (ENV good_bind _ _ w1 (fun _ _ => True)).
      - destruct cd as [[e|old_ref|u|fl]|];
          try (eapply (ENV good_weaken); [apply (ENV good_add_reference_origin w1 m new_ref h C1 Lm1 L1)|intros; exact I]).
        eapply (ENV good_weaken); [apply (ENV good_fix_reference_origins w1 m old_ref new_ref h C1 Lm1 L1)|intros; exact I].
      - intros [] w2 C2 X2 _.
        eapply (ENV good_weaken); [apply (ENV good_raw_set_character_data w2 h (DString new_ref) version C2 (ext_next _ _ _ X2 L1) I)|].
        intros; exact I. }
    destruct REST as (r2 & w2 & E2 & C2 & X2 & _). exists r2, w2. split; [exact E2|].
    split; [exact C2|]. split; [eapply ext_trans; eauto|destruct r2; exact I].
  - exists (ER InvalidReference), w1. split; [reflexivity|]. split; [exact C1|]. split; [exact X1|exact I].
Qed.

Lemma np_set_reference_target w h target : PanicFree w -> h < w_next w -> target < w_next w ->
  runs (e_set_reference_target T tab_el tab_en check_fn LATEST h target) w.
Proof using Env EN_OK. intros. eapply (ENV good_runs). apply gq_set_reference_target; assumption. Qed.

End Ops3.
