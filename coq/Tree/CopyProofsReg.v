(* Tree/CopyProofsReg.v — C13 proofs, layer 2b: the registration walk of create_copied_sub_element_inner puts every
   reference element of the copied subtree into the reverse-reference index of the destination model.
   For every table set. *)
From AV Require Import Base.Bytes Base.Outcome Hash.HashModel Tree.Heap Tree.Ops Tree.Script
  Tree.CopyProofsW Tree.CopyProofsDefs Tree.CopyProofsDeep Tree.CopyProofsCreate Tree.CopyProofsTop.
From Coq Require Import Lia.
Open Scope string_scope.
Open Scope list_scope.
Open Scope N_scope.

(* ------------------------------------------------------------------ association lists *)
Lemma assoc_get_insert_eq {A} k (a : A) l : assoc_get k (assoc_insert k a l) = Some a.
Proof.
  induction l as [|[k' a'] l IH]; cbn.
  - rewrite bytes_eqb_refl. reflexivity.
  - destruct (bytes_eqb k' k) eqn:E; cbn; rewrite E; auto.
Qed.
Lemma assoc_get_insert_neq {A} k k2 (a : A) l : k2 <> k -> assoc_get k2 (assoc_insert k a l) = assoc_get k2 l.
Proof.
  intros Hne. induction l as [|[k' a'] l IH]; cbn.
  - destruct (bytes_eqb k k2) eqn:E; auto. apply bytes_eqb_spec in E. congruence.
  - destruct (bytes_eqb k' k) eqn:E; cbn.
    + apply bytes_eqb_spec in E. subst k'.
      destruct (bytes_eqb k k2) eqn:E2; auto. apply bytes_eqb_spec in E2. congruence.
    + destruct (bytes_eqb k' k2); auto.
Qed.
Lemma assoc_get_snoc_old {A} k k2 (a : A) l x : assoc_get k2 l = Some x -> assoc_get k2 (l ++ [(k, a)]) = Some x.
Proof.
  induction l as [|[k' a'] l IH]; cbn; [discriminate|]. destruct (bytes_eqb k' k2); auto.
Qed.
Lemma assoc_get_snoc_new {A} k (a : A) l : assoc_get k l = None -> assoc_get k (l ++ [(k, a)]) = Some a.
Proof.
  induction l as [|[k' a'] l IH]; cbn.
  - rewrite bytes_eqb_refl. reflexivity.
  - destruct (bytes_eqb k' k); [discriminate|auto].
Qed.

Lemma bytes_dec (a b : list N) : {a = b} + {a <> b}.
Proof.
  destruct (bytes_eqb a b) eqn:E; [left; apply bytes_eqb_spec; exact E | right].
  intros ->. rewrite bytes_eqb_refl in E. discriminate.
Qed.

(* ------------------------------------------------------------------ descendants *)
Lemma Sub_front w a x :
  Sub w a x -> x = a \/ exists n c, w_nodes w a = Some n /\ In (CElem c) (n_content n) /\ Sub w c x.
Proof.
  induction 1 as [|p n c HS IH Hp Hin]; auto.
  right. destruct IH as [->|(n0 & c0 & Ha & Hin0 & HS0)].
  - exists n, c. repeat split; auto. constructor.
  - exists n0, c0. repeat split; auto. econstructor; eauto.
Qed.

Lemma Sub_prepend w i n c x :
  w_nodes w i = Some n -> In (CElem c) (n_content n) -> Sub w c x -> Sub w i x.
Proof.
  intros Hn Hin HS. induction HS as [|p m y HS IH Hp Hy].
  - econstructor; [constructor | exact Hn | exact Hin].
  - econstructor; eauto.
Qed.

Lemma Sub_nodes_eq w w' a x : w_nodes w' = w_nodes w -> Sub w a x -> Sub w' a x.
Proof.
  intros E. induction 1 as [|p n c HS IH Hp Hin]; [constructor|].
  econstructor; eauto. rewrite E. exact Hp.
Qed.

Lemma FreshTree_Sub lo w c j : FreshTree lo w c -> Sub w c j -> FreshTree lo w j.
Proof.
  intros HF HS. induction HS as [|p n x HS IH Hp Hin]; auto.
  inversion IH as [? np Hp' _ Hk]; subst. rewrite Hp in Hp'. injection Hp' as <-. apply Hk. exact Hin.
Qed.

(* ------------------------------------------------------------------ computations that never return an error *)
Definition noer {A} (c : W A) : Prop := forall w r w', c w = Val (r, w') -> exists a, r = OK a.

Lemma noer_ret {A} (a : A) : noer (wret a).
Proof. intros w r w' H. apply wret_inv in H as (-> & _). eauto. Qed.
Lemma noer_panic {A} s : noer (@wpanic A s).
Proof. intros w r w' H. discriminate H. Qed.
Lemma noer_fuel {A} : noer (@wfuel A).
Proof. intros w r w' H. discriminate H. Qed.
Lemma noer_wl {A} (x : res A) : noer (wl x).
Proof. intros w r w' H. apply wl_inv in H as (a & _ & -> & _). eauto. Qed.
Lemma noer_get_node i : noer (get_node i).
Proof. intros w r w' H. apply get_node_inv in H as (n & _ & -> & _). eauto. Qed.
Lemma noer_get_model i : noer (get_model i).
Proof. intros w r w' H. apply get_model_inv in H as (n & _ & -> & _). eauto. Qed.
Lemma noer_modify_model m f : noer (modify_model m f).
Proof. intros w r w' H. apply modify_model_inv in H as (x & _ & -> & _). eauto. Qed.
Lemma noer_bind {A B} (c : W A) (k : A -> W B) : noer c -> (forall a, noer (k a)) -> noer (wbind c k).
Proof.
  intros Hc Hk w r w' H. apply wbind_inv in H as [(a & w1 & E & H) | (e & E & _)].
  - eapply Hk; eauto.
  - apply Hc in E as (a & [=]).
Qed.
Ltac noer_step :=
  first
  [ apply noer_ret | apply noer_panic | apply noer_fuel | apply noer_wl | apply noer_get_node | apply noer_get_model
  | apply noer_modify_model
  | apply noer_bind; [ | intros ? ]
  | match goal with
    | |- noer (match ?x with _ => _ end) => destruct x
    | |- noer (if ?b then _ else _) => destruct b
    end ].
Ltac noer_tac := repeat noer_step.

Section Reg.
Variable T : tables.
Variable LATEST : N.

Lemma noer_item_name n : noer (item_name T n).
Proof. unfold item_name. noer_tac. Qed.
Lemma noer_is_identifiable n : noer (is_identifiable T n).
Proof. unfold is_identifiable. noer_tac. Qed.

Lemma noer_rs_kids rs l : (forall c, noer (rs c)) -> noer (rs_kids rs l).
Proof.
  intros Hrs. induction l as [|[c|d] l IH]; cbn [rs_kids]; [apply noer_ret | | exact IH].
  apply noer_bind; [apply Hrs | intros _; exact IH].
Qed.

Lemma noer_register_subtree f : forall m cur i, noer (register_subtree T f m cur i).
Proof.
  induction f as [|f IH]; intros m cur i.
  - intros w r w' H. discriminate H.
  - rewrite register_subtree_S.
    repeat first [ apply noer_rs_kids; intros c; apply IH | apply noer_item_name | apply noer_is_identifiable | noer_step ].
Qed.

(* ------------------------------------------------------------------ the referrer lists only grow *)
Definition OM (m : N) (w w' : world) : Prop :=
  w_nodes w' = w_nodes w /\ forall p j, HasOrigin w m p j -> HasOrigin w' m p j.

Lemma OM_refl m w : OM m w w.
Proof. split; auto. Qed.
Lemma OM_trans m a b c : OM m a b -> OM m b c -> OM m a c.
Proof. intros (n1 & h1) (n2 & h2). split; [congruence|auto]. Qed.

Lemma add_identifiable_OM m p e : stab (OM m) (add_identifiable m p e).
Proof.
  intros w r w' H. apply modify_model_inv in H as (x & Hx & _ & ->). split; auto.
  intros q j (y & l & Hy & Hl & Hin). rewrite Hx in Hy. injection Hy as <-.
  exists (set_idents x (assoc_insert p e (m_idents x))), l. cbn. split; auto.
  apply (nth_opt_list_set_eq _ _ _ _ Hx).
Qed.

Lemma add_reference_origin_spec m r e w res w' :
  add_reference_origin m r e w = Val (res, w') -> OM m w w' /\ HasOrigin w' m r e.
Proof.
  intros H. apply modify_model_inv in H as (x & Hx & _ & ->).
  set (o' := match assoc_get r (m_origins x) with
             | Some l => assoc_insert r (l ++ [e]) (m_origins x)
             | None => m_origins x ++ [(r, [e])] end).
  assert (Hnth : nth_opt (list_set (w_models w) (N.to_nat m) (set_origins x o')) (N.to_nat m) = Some (set_origins x o'))
    by (apply (nth_opt_list_set_eq _ _ _ _ Hx)).
  split; [split; auto|].
  - intros q j (y & l & Hy & Hl & Hin). rewrite Hx in Hy. injection Hy as <-.
    destruct (bytes_dec q r) as [->|Hne].
    + exists (set_origins x o'), (l ++ [e]). cbn. split; auto. split.
      * unfold o'. rewrite Hl. apply assoc_get_insert_eq.
      * apply in_or_app. auto.
    + exists (set_origins x o'), l. cbn. split; auto. split; auto.
      unfold o'. destruct (assoc_get r (m_origins x)).
      * rewrite assoc_get_insert_neq; auto.
      * apply assoc_get_snoc_old. exact Hl.
  - unfold o'. destruct (assoc_get r (m_origins x)) as [l|] eqn:Hr.
    + exists (set_origins x (assoc_insert r (l ++ [e]) (m_origins x))), (l ++ [e]). cbn. split; auto. split.
      * apply assoc_get_insert_eq.
      * apply in_or_app. right. left. reflexivity.
    + exists (set_origins x (m_origins x ++ [(r, [e])])), [e]. cbn. split; auto. split.
      * apply assoc_get_snoc_new. exact Hr.
      * left. reflexivity.
Qed.

Lemma add_reference_origin_OM m r e : stab (OM m) (add_reference_origin m r e).
Proof. intros w res w' H. apply add_reference_origin_spec in H. tauto. Qed.

Lemma rs_kids_OM m rs l : (forall c, stab (OM m) (rs c)) -> stab (OM m) (rs_kids rs l).
Proof.
  intros Hrs. induction l as [|[c|d] l IH]; cbn [rs_kids].
  - apply stab_ro; [apply OM_refl | ro_tac].
  - apply stab_bind; [apply OM_trans | apply Hrs | intros _; exact IH].
  - exact IH.
Qed.

Lemma register_subtree_OM f : forall m cur i, stab (OM m) (register_subtree T f m cur i).
Proof.
  induction f as [|f IH]; intros m cur i.
  - intros w r w' H. discriminate H.
  - rewrite register_subtree_S.
    repeat first
      [ apply rs_kids_OM; intros c; apply IH
      | apply add_identifiable_OM | apply add_reference_origin_OM
      | stab_step (OM_refl m) (OM_trans m) ].
Qed.

Lemma RefText_nodes_eq w w' i p : w_nodes w' = w_nodes w -> RefText T w i p -> RefText T w' i p.
Proof. intros E (n & Hn & H1 & H2). exists n. rewrite E. auto. Qed.

(* ------------------------------------------------------------------ every reference below the walked element is registered *)
Definition RegRefs (m : N) (i : id) (w w' : world) : Prop :=
  forall j p, Sub w i j -> RefText T w j p -> HasOrigin w' m p j.

Lemma rs_kids_refs m rs :
  (forall c, stab (OM m) (rs c)) -> (forall c, noer (rs c)) ->
  (forall c w r w', rs c w = Val (r, w') -> RegRefs m c w w') ->
  forall l w r w', rs_kids rs l w = Val (r, w') ->
  forall c, In (CElem c) l -> RegRefs m c w w'.
Proof.
  intros Hom Hok Hrs. induction l as [|[c0|d] l IH]; intros w r w' H c Hin; cbn [rs_kids] in H.
  - destruct Hin.
  - apply wbind_inv in H as [(u & w1 & E & H) | (e & E & _)].
    2: { apply Hok in E as (a & [=]). }
    destruct (Hom _ _ _ _ E) as (Hn1 & Hm1).
    destruct (rs_kids_OM m rs l Hom _ _ _ H) as (Hn2 & Hm2).
    destruct Hin as [[= ->]|Hin].
    + intros j p HS HR. apply Hm2. eapply Hrs; eauto.
    + intros j p HS HR. eapply (IH _ _ _ H c Hin).
      * apply (Sub_nodes_eq w w1); auto.
      * apply (RefText_nodes_eq w w1); auto.
  - destruct Hin as [[=]|Hin]. eapply IH; eauto.
Qed.

Theorem register_subtree_refs f : forall m cur i w r w',
  register_subtree T f m cur i w = Val (r, w') -> RegRefs m i w w'.
Proof.
  induction f as [|f IH]; intros m cur i w r w' H; [discriminate H|].
  rewrite register_subtree_S in H.
  apply wbind_inv in H as [(n & w1 & E & H) | (e & E & _)].
  2: { apply get_node_inv in E as (? & _ & [=] & _). }
  apply get_node_inv in E as (n' & Hn & [= <-] & ->).
  apply wbind_inv in H as [(ident & w1 & E & H) | (e & E & _)].
  2: { apply noer_is_identifiable in E as (a & [=]). }
  assert (w1 = w) by (eapply ro_is_identifiable; eauto). subst w1. clear E.
  (* the identifiable entry: only the model record changes, referrer lists are kept *)
  apply wbind_inv in H as [(cur' & w1 & E & H) | (e & E & _)].
  2: { exfalso. revert E. clear. intros E.
       assert (N : noer (if ident then (do nm <- item_name T n;
                          let p := match nm with Some x => cur ++ [47] ++ x | None => cur end in
                          add_identifiable m p i;; wret p)%W else wret cur)).
       { destruct ident; noer_tac; try apply noer_item_name. }
       apply N in E as (a & [=]). }
  assert (OM1 : OM m w w1).
  { revert E. generalize w (OK (A:=list N) cur') w1.
    change (stab (OM m) (if ident then (do nm <- item_name T n;
                          let p := match nm with Some x => cur ++ [47] ++ x | None => cur end in
                          add_identifiable m p i;; wret p)%W else wret cur)).
    destruct ident.
    - apply stab_bind; [apply OM_trans | apply stab_ro; [apply OM_refl | ro_tac] | intros nm].
      apply stab_bind; [apply OM_trans | apply add_identifiable_OM | intros _].
      apply stab_ro; [apply OM_refl | ro_tac].
    - apply stab_ro; [apply OM_refl | ro_tac]. }
  clear E. destruct OM1 as (Hn1 & Hm1).
  apply wbind_inv in H as [(isr & w2 & E & H) | (e & E & _)].
  2: { apply wl_inv in E as (? & _ & [=] & _). }
  apply wl_inv in E as (isr' & Hisr & [= <-] & ->).
  apply wbind_inv in H as [(u & w2 & E & H) | (e & E & _)].
  2: { exfalso. revert E. clear. intros E.
       assert (N : noer (if isr then (do cd <- wl (character_data T n);
                          match cd with Some (DString r0) => add_reference_origin m r0 i | _ => wret tt end)%W else wret tt)).
       { noer_tac. }
       apply N in E as (a & [=]). }
  (* the own reference entry *)
  assert (OWN : OM m w1 w2 /\ forall p, RefText T w i p -> HasOrigin w2 m p i).
  { destruct isr.
    - apply wbind_inv in E as [(cd & w3 & E1 & E) | (e & E1 & [=])].
      apply wl_inv in E1 as (cd' & Hcd & [= <-] & ->).
      destruct cd as [[| r0 | |]|].
      2: { apply add_reference_origin_spec in E as (O & HO). split; auto.
           intros p (n2 & Hn2 & _ & Hc2). rewrite Hn in Hn2. injection Hn2 as <-.
           rewrite Hcd in Hc2. injection Hc2 as <-. exact HO. }
      all: apply wret_inv in E as (_ & ->); split; [apply OM_refl|].
      all: intros p (n2 & Hn2 & _ & Hc2); rewrite Hn in Hn2; injection Hn2 as <-; rewrite Hcd in Hc2; discriminate Hc2.
    - apply wret_inv in E as (_ & ->). split; [apply OM_refl|].
      intros p (n2 & Hn2 & Hr2 & _). rewrite Hn in Hn2. injection Hn2 as <-. rewrite Hisr in Hr2. discriminate Hr2. }
  clear E. destruct OWN as ((Hn2 & Hm2) & Hown).
  (* the children *)
  assert (KOM : OM m w2 w').
  { eapply rs_kids_OM; [|exact H]. intros c. apply register_subtree_OM. }
  destruct KOM as (Hn3 & Hm3).
  intros j p HS HR.
  apply Sub_front in HS as [->|(n0 & c & Hi & Hin & HS)].
  - apply Hm3. apply Hown. exact HR.
  - rewrite Hn in Hi. injection Hi as <-.
    assert (E12 : w_nodes w2 = w_nodes w) by congruence.
    eapply (rs_kids_refs m (register_subtree T f m cur')); [ | | | exact H | exact Hin | | ].
    + intros c0. apply register_subtree_OM.
    + intros c0. apply noer_register_subtree.
    + intros c0 wa ra wb Hc0. eapply IH; eauto.
    + apply (Sub_nodes_eq w w2); auto.
    + apply (RefText_nodes_eq w w2); auto.
Qed.

(* ------------------------------------------------------------------ the public copy calls *)
Lemma FreshTree_transport lo w1 w' c :
  FreshTree lo w1 c ->
  (forall i n1, lo <= i -> w_nodes w1 i = Some n1 ->
     exists n', w_nodes w' i = Some n' /\ forall x, In (CElem x) (n_content n') -> In (CElem x) (n_content n1)) ->
  FreshTree lo w' c.
Proof.
  intros HF Hk. induction HF as [c nc Hc Hlo _ IH].
  destruct (Hk c nc Hlo Hc) as (n' & Hc' & Hincl).
  econstructor; eauto.
Qed.

Lemma CopyRel_kids w1 w' self c :
  CopyRel T w1 w' self c ->
  forall i n1, i <> self -> w_nodes w1 i = Some n1 ->
  exists n', w_nodes w' i = Some n' /\ forall x, In (CElem x) (n_content n') -> In (CElem x) (n_content n1).
Proof.
  intros (nc1 & Hc1 & Hc' & Hrest) i n1 Hi Hn1.
  destruct (N.eq_dec i c) as [->|Hic].
  { rewrite Hc1 in Hn1. injection Hn1 as <-. eexists. split; [exact Hc'|]. cbn. auto. }
  destruct Hrest as [Hrest | (s & rest & sn & name & orig & _ & Hsn & _ & Hs' & _ & _ & Hrest)].
  - exists n1. rewrite Hrest by auto. auto.
  - destruct (N.eq_dec i s) as [->|His].
    + rewrite Hsn in Hn1. injection Hn1 as <-. eexists. split; [exact Hs'|]. cbn. intros x [[=]|[]].
    + exists n1. rewrite Hrest by auto. auto.
Qed.

Theorem copy_registered_refs h other pos w c w' m :
  Closed w -> copy_call T LATEST h other pos w = Val (OK c, w') ->
  model_of h w = Val (OK m, w) ->
  forall j p, Sub w' c j -> RefText T w' j p -> HasOrigin w' m p j.
Proof.
  intros Cw H Hm.
  apply copy_call_inner in H as [(_ & e & [=]) | (m' & v & ps & _ & Hm' & _ & H)].
  rewrite Hm in Hm'. injection Hm' as <-.
  destruct (ccsei_spec T _ _ _ _ _ _ _ _ Cw H) as (_ & _ & ns & Hns & _ & w1 & Hd & HR & w3 & w4 & path & E4 & Hmod & Hsame & _).
  destruct (deep_copy_fresh T _ _ _ _ _ _ Cw Hd) as (HF & _ & _).
  assert (Hself : h < w_next w) by (eapply (proj1 Cw); eauto).
  assert (HF' : FreshTree (w_next w) w' c).
  { eapply FreshTree_transport; [exact HF|]. intros i n1 Hi Hn1. eapply CopyRel_kids; eauto. lia. }
  assert (Hfresh : forall j, Sub w' c j -> j <> h).
  { intros j HS. pose proof (FreshTree_Sub _ _ _ _ HF' HS) as HFj. inversion HFj; subst. lia. }
  assert (HS3 : forall j, Sub w' c j -> Sub w3 c j).
  { intros j HS. induction HS as [|q n x HS IH Hq Hin]; [constructor|].
    econstructor; eauto. rewrite <- Hsame; auto. }
  intros j p HS (n & Hn & Hr & Hc).
  assert (HO : HasOrigin w4 m p j).
  { eapply (register_subtree_refs _ _ _ _ _ _ _ E4); eauto.
    exists n. rewrite <- Hsame; auto. }
  destruct HO as (x & l & Hx & Hl & Hin). exists x, l. rewrite Hmod. auto.
Qed.

End Reg.
