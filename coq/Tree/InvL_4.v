(* GENERATED from InvProofsDetFiles4.v by tools/c03_gen_invL.py: the same proof for DFL over TreeInvL, see Tree/InvL_Base.v *)
(* Tree/InvProofsDetFiles4.v — C03: DFL is preserved, part 4: re-parenting, moves. *)
From Coq Require Import PeanoNat Arith.
From AV Require Import Base.Bytes Base.Outcome Hash.HashModel Tree.Heap Tree.Ops Tree.Script Tree.Inv
  Tree.InvProofsBase Tree.InvProofsCore Tree.InvProofsTree Tree.InvProofsPrim Tree.InvEBase Tree.InvE_Create Tree.InvE_Remove Tree.InvE_Files Tree.InvE_Move Tree.InvE_Copy Tree.InvE_Main Tree.Load Tree.InvL_Base Tree.InvProofsCreate
  Tree.InvProofsData Tree.InvProofsRefs Tree.InvProofsRemove Tree.InvProofsMove Tree.InvProofsCopy
  Tree.InvProofsRename Tree.InvProofsFrame Tree.StaleProofs Tree.InvProofsDetFiles Tree.InvProofsDetFiles2
  Tree.InvProofsDetFiles3 Tree.InvL_3.
Open Scope string_scope.
Open Scope list_scope.
Open Scope N_scope.

Notation pframe := (frame pfNR pfNN).
Notation pfp := (frp pfNR pfNN).

(* ------------------------------------------------------------------ re-parenting one node *)
Lemma top_wset_avoidL w i n pp q t :
  w_nodes w i = Some n -> Top w q t -> ~ AncS w i q -> Top (wset w i (set_parent n pp)) q t.
Proof.
  intros Hn Ht. induction Ht as [x nx Hnx Hnp | x nx p t Hnx Hp Ht IH]; intros Hna.
  - assert (x <> i) by (intros ->; apply Hna; constructor).
    eapply T_here; [rewrite nodes_wset_neq by auto; exact Hnx | exact Hnp].
  - assert (x <> i) by (intros ->; apply Hna; constructor).
    eapply T_up; [rewrite nodes_wset_neq by auto; exact Hnx | exact Hp |].
    apply IH. intros Ha. apply Hna. eapply A_up; eauto. exists nx; auto.
Qed.

(* a detached node of the new world was detached before, when the new parent hangs below a model root *)
Lemma DF_reparentL w i n q m0 :
  w_nodes w i = Some n -> DFL w -> Top w q (PModel m0) -> ~ AncS w i q ->
  DFL (wset w i (set_parent n (PElem q))).
Proof.
  intros Hn D Hq Hna. pose proof (top_wset_avoidL w i n (PElem q) q _ Hn Hq Hna) as Hq'.
  set (w2 := wset w i (set_parent n (PElem q))) in *.
  assert (Hback : forall x t, Top w2 x t -> t = PNone -> Top w x PNone).
  { intros x t Ht. induction Ht as [x nx Hnx Hnp | x nx p t Hnx Hp Ht IH]; intros Et.
    - destruct (N.eq_dec x i) as [->|Hxi].
      + unfold w2 in Hnx. rewrite nodes_wset_eq in Hnx. injection Hnx as <-. discriminate Et.
      + unfold w2 in Hnx. rewrite nodes_wset_neq in Hnx by auto. rewrite <- Et. eapply T_here; eauto.
    - destruct (N.eq_dec x i) as [->|Hxi].
      + unfold w2 in Hnx. rewrite nodes_wset_eq in Hnx. injection Hnx as <-. cbn in Hp. injection Hp as <-.
        subst t. pose proof (top_fun _ _ _ Ht _ Hq'). discriminate.
      + unfold w2 in Hnx. rewrite nodes_wset_neq in Hnx by auto. eapply T_up; eauto. }
  intros x n' Hd Hn'. unfold Detached in Hd. pose proof (Hback _ _ Hd eq_refl) as Hd0.
  destruct (N.eq_dec x i) as [->|Hxi].
  - unfold w2 in Hn'. rewrite nodes_wset_eq in Hn'. injection Hn' as <-. cbn. eapply D; eauto.
  - unfold w2 in Hn'. rewrite nodes_wset_neq in Hn' by auto. eapply D; eauto.
Qed.

(* re-parenting the top of a detached tree never makes an old non-detached node detached *)
Lemma DF_reparent_topL w i n pp :
  w_nodes w i = Some n -> n_parent n = PNone -> DFL w -> DFL (wset w i (set_parent n pp)).
Proof.
  intros Hn Hp D. set (w2 := wset w i (set_parent n pp)) in *.
  assert (Hback : forall x t, Top w2 x t -> t = PNone -> Top w x PNone).
  { intros x t Ht. induction Ht as [x nx Hnx Hnp | x nx p t Hnx Hpx Ht IH]; intros Et.
    - destruct (N.eq_dec x i) as [->|Hxi].
      + rewrite <- Hp. eapply T_here; eauto. rewrite Hp. congruence.
      + unfold w2 in Hnx. rewrite nodes_wset_neq in Hnx by auto. rewrite <- Et. eapply T_here; eauto.
    - destruct (N.eq_dec x i) as [->|Hxi].
      + rewrite <- Hp. eapply T_here; eauto. rewrite Hp. congruence.
      + unfold w2 in Hnx. rewrite nodes_wset_neq in Hnx by auto. eapply T_up; eauto. }
  intros x n' Hd Hn'. unfold Detached in Hd. pose proof (Hback _ _ Hd eq_refl) as Hd0.
  destruct (N.eq_dec x i) as [->|Hxi].
  - unfold w2 in Hn'. rewrite nodes_wset_eq in Hn'. injection Hn' as <-. cbn. eapply D; eauto.
  - unfold w2 in Hn'. rewrite nodes_wset_neq in Hn' by auto. eapply D; eauto.
Qed.

(* Core through the two structural steps of a move *)
Lemma detach_coreL w sp mv pn k :
  Core w -> w_nodes w sp = Some pn -> index_of (citem_is mv) (n_content pn) = Some k -> par w mv sp ->
  let w1 := wset w sp (set_content pn (remove_at (n_content pn) k)) in
  Core w1 /\ shr w w1 /\ forall p, ~ lists w1 p mv.
Proof.
  intros C Hpn Hk Hpar0 w1. pose proof (index_of_citem _ _ _ Hk) as Hnth.
  assert (Hks : forall x, In x (elems (remove_at (n_content pn) k)) <-> In x (kids pn) /\ x <> mv).
  { intros x. apply elems_remove_elem; auto. eapply c_nodup; eauto. }
  assert (Hi1 : skel w sp = Some (n_parent pn, kids pn)) by (apply skel_some; auto).
  assert (Hi1' : skel w1 sp = Some (n_parent pn, elems (remove_at (n_content pn) k))).
  { unfold w1. rewrite skel_wset_eq. reflexivity. }
  assert (S1 : shr w w1).
  { eapply shr_upd1; eauto using upd1_wset.
    - intros x Hx. apply Hks in Hx. tauto.
    - apply elems_remove_nodup. eapply c_nodup; eauto. }
  assert (C1 : Core w1) by (eapply Core_shr; eauto).
  split; auto. split; auto.
  intros p Hl. pose proof (c_up _ C1 _ _ Hl) as Hp. apply (shr_par _ _ _ _ S1) in Hp.
  rewrite (par_fun _ _ _ _ Hp Hpar0) in Hl. apply lists_skel in Hl as (qa & qb & Eq & Hin).
  rewrite Hi1' in Eq. injection Eq as <- <-. apply Hks in Hin. tauto.
Qed.

Lemma reparent_coreL w mv mn sp self :
  Core w -> w_nodes w mv = Some mn -> n_parent mn = PElem sp -> allocated w self -> ~ AncS w mv self ->
  (forall p, ~ lists w p mv) -> Core (wset w mv (set_parent mn (PElem self))).
Proof.
  intros C Hmn Hp Ha Hna Hun.
  eapply (core_reparent w _ mv (PElem sp) (kids mn)); eauto using upd1_wset.
  - rewrite (skel_some _ _ _ Hmn), Hp. reflexivity.
  - rewrite skel_wset_eq. reflexivity.
  - congruence.
Qed.


Section DF4.
Variable T : tables.
Variable tab_el tab_en : nametab.
Variable check_fn : N -> list N -> res bool.
Variable LATEST : N.

Lemma move_local_dfL self mv pos m version w r w' m0 :
  Core w -> DFL w -> self <> mv -> Top w self (PModel m0) ->
  move_element_local T check_fn self mv pos m version w = Val (r, w') -> DFL w'.
Proof.
  intros C D Hsm Htop H. unfold move_element_local in H.
  wrun_ro H ltac:(exact D).
  match goal with
  | E0 : parent_of ?mn0 w = Val (OK (Some ?sp0), w), Es : path_unchecked T ?mn0 w = Val (OK ?spx, w),
    Ed : path_unchecked T ?n0 w = Val (OK ?dpx, w), Hm : w_nodes w mv = Some ?mn0, Hs : w_nodes w self = Some ?n0,
    Ea : ancestor_is _ (n_parent ?n0) mv w = _, En : named_paths T _ w = Val (OK ?orig, w) |- _ =>
    rename mn0 into mn; rename sp0 into sp; rename spx into src_prefix; rename dpx into dest_prefix;
    rename n0 into ns; rename orig into original;
    apply parent_of_some in E0; rename E0 into Hpm; rename Hm into Hmv; rename Hs into Hself; rename Ea into Hanc
  end.
  assert (Hpar0 : par w mv sp) by (exists mn; auto).
  assert (Hna : ~ AncS w mv self) by (eapply ancestor_is_false; eauto).
  assert (Hmsp : mv <> sp).
  { intros <-. eapply (ancs_par_irrefl w mv mv); eauto; [apply C; eexists; eauto | constructor]. }
  wstepn H u Ed. 2:{ apply detach_inv in Ed as [(e' & _ & ->)|(pn & k & _ & _ & [=] & _)]. exact D. }
  pose proof (pfp_detach_from _ _ _ _ _ Ed) as F1.
  apply detach_inv in Ed as [(e' & [=] & _)|(pn & k & Hpn & Hk & _ & ->)].
  destruct (detach_coreL w sp mv pn k C Hpn Hk Hpar0) as (C1 & S1 & Hun1).
  set (w1 := wset w sp _) in *.
  assert (D1 : DFL w1) by (exact (DFL_pframe _ _ C F1 D)).
  assert (Htop1 : Top w1 self (PModel m0)) by (exact (top_pframe _ _ F1 _ _ Htop)).
  assert (Hmn1 : w_nodes w1 mv = Some mn) by (unfold w1; rewrite nodes_wset_neq by auto; auto).
  assert (Hna1 : ~ AncS w1 mv self) by (rewrite (shr_ancs _ _ _ _ S1); auto).
  clearbody w1.
  wstepn H u2 Em. apply modify_node_wset in Em as (mn1 & Hmn1' & _ & ->). assert (mn1 = mn) as -> by congruence.
  assert (C2 : Core (wset w1 mv (set_parent mn (PElem self)))).
  { eapply reparent_coreL; eauto. apply (shr_alloc _ _ _ S1). eexists; eauto. }
  assert (D2 : DFL (wset w1 mv (set_parent mn (PElem self)))) by (eapply DF_reparentL; eauto).
  set (w2 := wset w1 mv _) in *. clearbody w2.
  assert (FIN : forall wk, pframe w2 wk -> DFL wk) by (intros wk F; exact (DFL_pframe _ _ C2 F D2)).
  wstepn H mn2 Eg; winv Eg.
  wstepn H ident Ei. 2:{ unfold is_identifiable in Ei. absurd_err Ei. }
  wstepn H dest_path Edp.
  2:{ apply FIN. match type of Edp with ?mm ?wa = _ => refine ((_ : pfp mm) wa _ _ Edp) end. pf_tac. }
  assert (F3 : pframe w2 w0) by (match type of Edp with ?mm ?wa = _ => refine ((_ : pfp mm) wa _ _ Edp) end; pf_tac).
  wstepn H u3 Ea.
  2:{ apply FIN. eapply pframe_trans; [exact F3|].
      destruct ident; [eapply pfp_fix_identifiables; eauto|].
      eapply (pfp_each_loop (fixid_body m src_prefix dest_path)); eauto. intros a. apply pfp_fixid_body. }
  assert (F4 : pframe w2 w3).
  { eapply pframe_trans; [exact F3|].
    destruct ident; [eapply pfp_fix_identifiables; eauto|].
    eapply (pfp_each_loop (fixid_body m src_prefix dest_path)); eauto. intros a. apply pfp_fixid_body. }
  wstepn H u4 Eb.
  2:{ apply FIN. eapply pframe_trans; [exact F4|].
      eapply (pfp_each_loop (move_ref_body T check_fn m src_prefix dest_path version)); eauto.
      intros a. apply pfp_move_ref_body. }
  assert (F5 : pframe w2 w4).
  { eapply pframe_trans; [exact F4|].
    eapply (pfp_each_loop (move_ref_body T check_fn m src_prefix dest_path version)); eauto.
    intros a. apply pfp_move_ref_body. }
  apply FIN. eapply pframe_trans; [exact F5|].
  match type of H with ?mm ?wa = _ => refine ((_ : pfp mm) wa _ _ H) end. pf_tac.
Qed.

Lemma move_full_dfL self mv pos m m_src version w r w' m0 :
  Core w -> DFL w -> self <> mv -> ~ AncS w mv self -> Top w self (PModel m0) ->
  move_element_full T tab_en check_fn self mv pos m m_src version w = Val (r, w') -> DFL w'.
Proof.
  intros C D Hsm Hna Htop H. unfold move_element_full in H.
  wrun_ro H ltac:(exact D).
  match goal with
  | E0 : parent_of ?mn0 w = Val (OK (Some ?sp0), w), Es : path_unchecked T ?mn0 w = Val (OK ?spx, w),
    Ed : path_unchecked T ?n0 w = Val (OK ?dpx, w), Hm : w_nodes w mv = Some ?mn0, Hs : w_nodes w self = Some ?n0,
    En : named_paths T _ w = Val (OK ?orig, w), Er : ref_texts T tab_en _ w = Val (OK ?orefs, w) |- _ =>
    rename mn0 into mn; rename sp0 into sp; rename spx into src_prefix; rename dpx into dest_prefix;
    rename n0 into ns; rename orig into original; rename orefs into orig_refs;
    apply parent_of_some in E0; rename E0 into Hpm; rename Hm into Hmv; rename Hs into Hself
  end.
  assert (Hpar0 : par w mv sp) by (exists mn; auto).
  assert (Hmsp : mv <> sp).
  { intros <-. eapply (ancs_par_irrefl w mv mv); eauto; [apply C; eexists; eauto | constructor]. }
  wstepn H u Ed. 2:{ apply detach_inv in Ed as [(e' & _ & ->)|(pn & k & _ & _ & [=] & _)]. exact D. }
  pose proof (pfp_detach_from _ _ _ _ _ Ed) as F1.
  apply detach_inv in Ed as [(e' & [=] & _)|(pn & k & Hpn & Hk & _ & ->)].
  destruct (detach_coreL w sp mv pn k C Hpn Hk Hpar0) as (C1 & S1 & Hun1).
  set (w1 := wset w sp _) in *.
  assert (Hmn1 : w_nodes w1 mv = Some mn) by (unfold w1; rewrite nodes_wset_neq by auto; auto).
  clearbody w1.
  wstepn H u1 El1. 2:{ exfalso. eapply (noerr_rm_id_loop m_src original); eauto. }
  wstepn H u1' El2. 2:{ exfalso. eapply (noerr_rm_ref_loop m_src orig_refs); eauto. }
  destruct (nfp_rm_id_loop m_src original _ _ _ El1) as (Nx1 & Nn1 & Nr1).
  destruct (nfp_rm_ref_loop m_src orig_refs _ _ _ El2) as (Nx2 & Nn2 & Nr2).
  match type of El2 with _ = Val (_, ?wx) => rename wx into w3 end.
  assert (ST1 : same_tree w1 w3).
  { repeat split; try congruence. intros i. unfold skel. rewrite Nx2, Nx1. reflexivity. }
  assert (F3 : pframe w w3).
  { eapply pframe_trans; [exact F1|]. apply frame_nodes_eq; [apply pfNR_refl|]. intros x. rewrite Nx2, Nx1. reflexivity. }
  assert (S3 : shr w w3) by (eapply shr_trans; [exact S1 | apply same_tree_shr; auto]).
  assert (C3 : Core w3) by (eapply Core_same_tree; eauto).
  assert (Hun3 : forall p, ~ lists w3 p mv).
  { intros p Hl. apply (Hun1 p). eapply shr_lists; [apply same_tree_shr; [exact C1 | exact ST1] | exact Hl]. }
  assert (D3 : DFL w3) by (exact (DFL_pframe _ _ C F3 D)).
  assert (Htop3 : Top w3 self (PModel m0)) by (exact (top_pframe _ _ F3 _ _ Htop)).
  assert (Hmn3 : w_nodes w3 mv = Some mn) by (rewrite Nx2, Nx1; auto).
  assert (Hna3 : ~ AncS w3 mv self) by (rewrite (shr_ancs _ _ _ _ S3); auto).
  wstepn H u2 Em. apply modify_node_wset in Em as (mn1 & Hmn1' & _ & ->). assert (mn1 = mn) as -> by congruence.
  assert (C2 : Core (wset w3 mv (set_parent mn (PElem self)))).
  { eapply reparent_coreL; eauto. apply (shr_alloc _ _ _ S3). eexists; eauto. }
  assert (D2 : DFL (wset w3 mv (set_parent mn (PElem self)))) by (eapply DF_reparentL; eauto).
  set (w2 := wset w3 mv _) in *. clearbody w2.
  apply (DFL_pframe _ _ C2); [|exact D2].
  match type of H with ?mm ?wa = _ => refine ((_ : pfp mm) wa _ _ H) end.
  apply frp_bind; [ fr_side .. | apply frp_ro; [ fr_side .. | ro_tac ] | ]. intros mn2.
  apply frp_bind; [ fr_side .. | apply frp_ro; [ fr_side .. | ro_tac ] | ]. intros ident.
  apply frp_bind; [ fr_side .. | pf_tac | ]. intros dest_path.
  apply frp_bind; [ fr_side .. | apply (pfp_add_id_loop m src_prefix dest_path original) | ].
  intros _.
  apply frp_bind; [ fr_side .. | apply (pfp_add_ref_loop T check_fn m src_prefix dest_path version original orig_refs) | ].
  intros _. pf_tac.
Qed.

(* ---------- move_element_here / _at ---------- *)
Lemma e_move_dfL h mv w r w' :
  Core w -> DFL w -> e_move_element_here T tab_en check_fn LATEST h mv w = Val (r, w') -> DFL w'.
Proof.
  intros C D H. unfold e_move_element_here in H.
  destruct (h =? mv) eqn:Ehm; [winv H; auto|]. apply N.eqb_neq in Ehm.
  wrun_ro H ltac:(exact D).
  - match goal with Hq : model_of h w = Val (OK ?mm, w) |- _ =>
      apply model_of_top in Hq as (_ & t & Ht & Hr); destruct t as [|m1|]; try discriminate end.
    refine (move_local_dfL h mv _ _ _ _ _ _ _ C D Ehm Ht H).
  - match goal with Hm : model_of mv w = Val (OK ?ms, w), Hh : model_of h w = Val (OK ?mm, w),
                     Hq : (?mm =? ?ms) = false |- _ =>
      apply N.eqb_neq in Hq;
      apply model_of_top in Hm as (_ & t1 & Ht1 & Hr1); apply model_of_top in Hh as (_ & t2 & Ht2 & Hr2) end.
    destruct t1 as [|m1|]; try discriminate. injection Hr1 as <-.
    destruct t2 as [|m2|]; try discriminate. injection Hr2 as <-.
    refine (move_full_dfL h mv _ _ _ _ _ _ _ _ C D Ehm _ Ht2 H).
    intros Ha. pose proof (top_ancs _ _ _ _ Ha Ht2) as Ht. pose proof (top_fun _ _ _ Ht1 _ Ht). congruence.
Qed.

Lemma e_move_at_dfL h mv pos w r w' :
  Core w -> DFL w -> e_move_element_here_at T tab_en check_fn LATEST h mv pos w = Val (r, w') -> DFL w'.
Proof.
  intros C D H. unfold e_move_element_here_at in H.
  destruct (h =? mv) eqn:Ehm; [winv H; auto|]. apply N.eqb_neq in Ehm.
  wrun_ro H ltac:(exact D).
  - eapply DFL_pframe; [exact C | | exact D]. eapply pfp_move_position; eauto.
  - match goal with Hq : model_of h w = Val (OK ?mm, w) |- _ =>
      apply model_of_top in Hq as (_ & t & Ht & Hr); destruct t as [|m1|]; try discriminate end.
    refine (move_local_dfL h mv _ _ _ _ _ _ _ C D Ehm Ht H).
  - match goal with Hm : model_of mv w = Val (OK ?ms, w), Hh : model_of h w = Val (OK ?mm, w),
                     Hq : (?mm =? ?ms) = false |- _ =>
      apply N.eqb_neq in Hq;
      apply model_of_top in Hm as (_ & t1 & Ht1 & Hr1); apply model_of_top in Hh as (_ & t2 & Ht2 & Hr2) end.
    destruct t1 as [|m1|]; try discriminate. injection Hr1 as <-.
    destruct t2 as [|m2|]; try discriminate. injection Hr2 as <-.
    refine (move_full_dfL h mv _ _ _ _ _ _ _ _ C D Ehm _ Ht2 H).
    intros Ha. pose proof (top_ancs _ _ _ _ Ha Ht2) as Ht. pose proof (top_fun _ _ _ Ht1 _ Ht). congruence.
Qed.

End DF4.
