(* Tree/NoPanicProofsOp4Hist.v — C12 (panic / loop half): AutosarModel::load_buffer as a history step for the loads that are
   REJECTED before anything is installed: the file name is taken in the model (DuplicateFilenameError) or the parser raises
   (LoadError) — the parser itself never panics or loops on any byte string (agent-xmlproofs' C02_load_total, composed here
   with the model lookup and the name check of Tree/Load.v).  Such a call returns Err and leaves the world as it was, so the
   invariant D of Tree/NoPanicProofsOp3Hist.v is kept.  With it every constructor of op2 can appear in a covered history;
   the class still PENDING is the load whose buffer the parser ACCEPTS (install / overlap check / merge: load_parsed). *)
From Coq Require Import Lia PeanoNat.
From AV Require Import Base.Bytes Base.Outcome Hash.HashModel Spec.SpecOps Xml.TablesOk Tree.Heap Tree.Ops Tree.Script Tree.Script2 Tree.Copy Tree.Load Tree.Inv.
From AV Require Xml.Parser Xml.ParserProofs.
From AV Require Import Tree.InvProofsBase Tree.SortProofsReadyV Tree.IndexProofsNodeInv Tree.CompatHist1.
From AV Require Import Tree.NoPanic Tree.NoPanicProofsBase Tree.NoPanicFloat Tree.NoPanicProofsHist
  Tree.NoPanicProofsOp2 Tree.NoPanicProofsSerFile Tree.NoPanicProofsOp2Hist Tree.NoPanicProofsDup Tree.NoPanicProofsDupHist Tree.NoPanicProofsOp3Hist.
Open Scope string_scope.
Open Scope list_scope.
Open Scope N_scope.

Section Hist4.
Variable T : tables.
Variable tab_el tab_at tab_en : nametab.
Variable check_fn : N -> list N -> res bool.
Variable float_parse : list N -> option N.
Variable fmt : N -> list N.
Variable LATEST name_index name_definition_ref attr_schema_location : N.
Variable root_attrs : list (N * cdata).

(* the file name is one of the model's file names *)
Definition name_taken_in (w : world) (x : model) (filename : list N) : bool :=
  existsb (fun f => match nth_opt (w_files w) (N.to_nat f) with Some fl => bytes_eqb (f_name fl) filename | None => false end) (m_files x).

(* the load is rejected before load_parsed: name taken, or the parser raises *)
Definition load_rejected (w : world) (m : N) (buffer filename : list N) (strict : bool) : Prop :=
  exists x, nth_opt (w_models w) (N.to_nat m) = Some x /\
    (name_taken_in w x filename = true \/
     exists e st, Parser.load strict T tab_el tab_at tab_en check_fn float_parse buffer = Val (Parser.Raise e st)).

(* the client side of one call inside a history: as op3_wfh, and for a load: the buffer is a byte string and the load is rejected *)
Definition op4_wfh (w : world) (o : op2) : Prop :=
  match o with
  | OpLoad m buffer filename strict => Bytes.bytes_ok buffer = true /\ load_rejected w m buffer filename strict
  | _ => op3_wfh T tab_el tab_en check_fn LATEST root_attrs w o
  end.

Notation load_buffer := (m_load_buffer T tab_el tab_at tab_en check_fn float_parse LATEST name_definition_ref).

Lemma load_rejected_returns w m buffer filename strict : load_rejected w m buffer filename strict ->
  exists e, load_buffer m buffer filename strict w = Val (ER e, w).
Proof.
  intros (x & Hx & R). unfold m_load_buffer.
  rewrite (wbind_ok _ _ w x w) by (unfold get_model; rewrite Hx; reflexivity).
  rewrite (wbind_ok _ _ w w w) by reflexivity.
  fold (name_taken_in w x filename). destruct (name_taken_in w x filename) eqn:E; [eexists; reflexivity|].
  destruct R as [R|(e & st & R)]; [discriminate R|]. rewrite R. eexists. reflexivity.
Qed.

Hypothesis OK12 : tables_ok12 T = true.
Hypothesis CHECK : forall fn s, exists b, check_fn fn s = Val b.
Hypothesis EN_OK : nametab_ok tab_en = true.
Hypothesis SHORT_OK : name_ok tab_el (name_short_name T).
Hypothesis NamesOK : forall i e, i < n_elements T -> T_elements T i = Some e -> to_str tab_el (ed_name e) <> None.
Hypothesis EnumsOK : forall k items it, T_cdata T k = Some (CEnum items) -> In it items -> to_str tab_en (fst it) <> None.
Hypothesis AttrsOK : forall k name cdid req, T_attributes T k = Some (name, cdid, req) -> to_str tab_at name <> None.
Hypothesis RootOK : attrV tab_at tab_en root_attrs.
Hypothesis TKr : forall ty cs v ver, is_ref T ty = Val true -> chardata_spec T ty = Val (Some cs) ->
  check_value check_fn v cs ver = Val true -> exists s, v = DString s.
Hypothesis RootTy : forall ty, et_new T (autosar_element T) = Val ty -> plainty T ty.
Hypothesis HM : MaskOK T.

Notation D := (D T tab_el tab_at tab_en).
Notation run2F := (run_op2F T tab_el tab_at tab_en check_fn float_parse fmt LATEST name_index name_definition_ref
                            attr_schema_location root_attrs).
Notation run_ops2F' := (run_ops2F T tab_el tab_at tab_en check_fn float_parse fmt LATEST name_index name_definition_ref
                                  attr_schema_location root_attrs).

Fixpoint wf_ops4 (l : list op2) (w : world) : Prop :=
  match l with
  | [] => True
  | o :: r => op4_wfh w o /\ forall x w', run2F o w = Val (x, w') -> wf_ops4 r w'
  end.

Theorem step4 o w : op4_wfh w o -> D w -> exists x w', run2F o w = Val (x, w') /\ D w'.
Proof.
  intros WF HD.
  assert (Gen : covered_step3 o = true -> op3_wfh T tab_el tab_en check_fn LATEST root_attrs w o -> exists x w', run2F o w = Val (x, w') /\ D w').
  { intros COV W3. exact (step3 T tab_el tab_at tab_en check_fn float_parse fmt LATEST name_index name_definition_ref attr_schema_location
             root_attrs OK12 CHECK EN_OK SHORT_OK NamesOK EnumsOK AttrsOK RootOK TKr RootTy HM o w COV W3 HD). }
  destruct o; try (apply Gen; [reflexivity|exact WF]).
  cbn [op4_wfh] in WF. destruct WF as (_ & R). destruct (load_rejected_returns w m buffer filename strict R) as (e & E).
  cbn [run_op2F run_op2]. exists (ER e), w. split; [exact (wbind_er _ _ _ _ _ E)|exact HD].
Qed.

Theorem no_panic4_hist l : forall w, D w -> wf_ops4 l w -> exists w', run_ops2F' l w = Val w' /\ D w'.
Proof.
  induction l as [|o l IH]; intros w HD WF; cbn [run_ops2F wf_ops4] in *; [eauto|].
  destruct WF as (WF & K). destruct (step4 o w WF HD) as (x & w1 & E & D1). rewrite E. exact (IH w1 D1 (K _ _ E)).
Qed.

(* a load of ANY byte string into an existing model never panics or loops before load_parsed: it is rejected, or the parser
   has accepted the buffer and the name is free *)
Theorem load_front_total w m buffer filename strict :
  ParserProofs.loader_hyps T tab_el tab_at tab_en check_fn -> Bytes.bytes_ok buffer = true ->
  m < N.of_nat (List.length (w_models w)) ->
  load_rejected w m buffer filename strict \/
  exists x root st, nth_opt (w_models w) (N.to_nat m) = Some x /\ name_taken_in w x filename = false /\
    Parser.load strict T tab_el tab_at tab_en check_fn float_parse buffer = Val (Parser.Ret root st) /\
    load_buffer m buffer filename strict w =
      (do f <- load_parsed T LATEST name_definition_ref m filename root st; wret (f, rev (Parser.p_warnings st)))%W w.
Proof.
  intros LH HB Lm. destruct (nth_opt_lt' (w_models w) (N.to_nat m)) as (x & Hx); [lia|].
  destruct (name_taken_in w x filename) eqn:E; [left; exists x; split; [exact Hx|left; exact E]|].
  destruct (ParserProofs.load_total_closed strict T tab_el tab_at tab_en check_fn float_parse buffer LH HB) as ([root st|e st] & R).
  - right. exists x, root, st. split; [exact Hx|]. split; [exact E|]. split; [exact R|].
    unfold m_load_buffer. rewrite (wbind_ok _ _ w x w) by (unfold get_model; rewrite Hx; reflexivity).
    rewrite (wbind_ok _ _ w w w) by reflexivity. fold (name_taken_in w x filename). rewrite E, R. reflexivity.
  - left. exists x. split; [exact Hx|]. right. eauto.
Qed.

End Hist4.
