(* Tree/IndexProofsRemoveOp.v — C04/C05: the world after remove_sub_element (shape), and Inv04 for it
   (outside the class K04-front for removal). *)
From Coq Require Import Permutation PeanoNat Arith.
From AV Require Import Base.Bytes Base.Outcome Hash.HashModel Tree.Heap Tree.Ops Tree.Script Tree.IndexProofsW
  Tree.Index Tree.IndexProofsBase Tree.IndexProofsAssoc Tree.IndexProofsFrame Tree.IndexProofsAttach
  Tree.IndexProofsTree Tree.IndexProofsNamed Tree.Refs Tree.RefsProofsBase Tree.IndexProofsRemove.
Open Scope string_scope.
Open Scope list_scope.
Open Scope N_scope.

Section RemoveOp.
Variable T : tables.
Variable check_fn : N -> list N -> res bool.
Hypothesis TK : TablesOK T check_fn.
Notation Inv04 := (Inv04 T check_fn).
Notation SHORTN := (name_short_name T).

(* the world after a successful removal of the sub-element `sub` of `h` *)
Definition removed (w : world) (h sub : id) (w' : world) : Prop :=
  exists n pos m x pp K R,
    w_nodes w h = Some n /\ index_of (citem_is sub) (n_content n) = Some pos /\
    MReach T w m h /\ SpecPath T w m h pp /\ model_at w m = Some x /\
    (named T (n_type n) = true -> forall sn, w_nodes w sub = Some sn -> n_name sn <> SHORTN) /\
    w_nodes w' h = Some (set_content n (remove_at (n_content n) pos)) /\
    (forall j, j <> h -> ~ reach T w sub j -> w_nodes w' j = w_nodes w j) /\
    (forall j nj, reach T w sub j -> w_nodes w j = Some nj -> w_nodes w' j = Some (wipe nj)) /\
    w_models w' = list_set (w_models w) (N.to_nat m) (apply_plan x K R) /\
    (forall k, In k K <-> exists j q, dpath T w sub j q /\ identifiable T w j = true /\ k = pp ++ seg T w sub ++ q) /\
    (forall p j, In (p, j) R <-> reach T w sub j /\ ref_text T w j = Some p) /\
    w_next w' = w_next w.

(* no element of a named type has a SHORT-NAME element at a position other than the first (Index.late_short, as a Prop) *)
Definition NoLate (w : world) : Prop :=
  forall i n k s sn, w_nodes w i = Some n -> named T (n_type n) = true ->
    nth_error (n_content n) (S k) = Some (CElem s) -> w_nodes w s = Some sn -> n_name sn <> SHORTN.

Lemma index_of_citem sub l pos : index_of (citem_is sub) l = Some pos -> In (CElem sub) l.
Proof.
  intros H. apply index_of_split in H as (l1 & x & l2 & -> & _ & Hx & _). apply in_app_iff. right. left.
  destruct x as [c|d]; cbn in Hx; [|discriminate]. apply N.eqb_eq in Hx. subst. reflexivity.
Qed.

(* why a remove_sub_element call did nothing *)
Definition remove_refused (w : world) (h sub : id) : Prop :=
  h = sub \/ (exists e, model_of h w = Val (ER e, w)) \/
  (exists n e, w_nodes w h = Some n /\ path_unchecked T n w = Val (ER e, w)) \/
  ~ child_of w h sub \/
  (exists n sn, w_nodes w h = Some n /\ w_nodes w sub = Some sn /\ named T (n_type n) = true /\ n_name sn = SHORTN).

Lemma e_remove_shape2 h sub w r w' :
  TreeFacts w -> Inv04 w -> e_remove_sub_element T h sub w = Val (r, w') ->
  (w' = w /\ remove_refused w h sub) \/ removed w h sub w'.
Proof.
  intros HF HI H. unfold e_remove_sub_element in H.
  destruct (h =? sub) eqn:Ehs; [winv H; left; split; [reflexivity|]; left; apply N.eqb_eq; exact Ehs|]. apply N.eqb_neq in Ehs.
  wbind_ro H m Em; [|left; split; [reflexivity|]; right; left; eauto]. unfold raw_remove_sub_element in H.
  wnode H n Hn. wbind_ro H pp Epp; [|left; split; [reflexivity|]; right; right; left; eauto].
  destruct (index_of (citem_is sub) (n_content n)) as [pos|] eqn:Eidx.
  2:{ winv H. left. split; [reflexivity|]. right. right. right. left. intros (n0 & Hn0 & Hc). rewrite Hn in Hn0. injection Hn0 as <-.
      pose proof (index_of_none _ _ Eidx _ Hc) as Hf. cbn in Hf. rewrite N.eqb_refl in Hf. discriminate. }
  wval H nmd Hnmd. wnode H sn Hsn.
  destruct (nmd && (n_name sn =? SHORT T)) eqn:Eshort.
  { winv H. left. split; [reflexivity|]. right. right. right. right. apply andb_true_iff in Eshort as (E1 & E2). subst nmd.
    exists n, sn. split; [exact Hn|]. split; [exact Hsn|]. split; [apply (named_val _ _ _ Hnmd)|apply N.eqb_eq; exact E2]. }
  wgetw H.
  assert (Hreach : MReach T w m h) by (eapply model_of_mreach; eauto).
  assert (Hpp : SpecPath T w m h pp).
  { destruct (path_unchecked_spec T w m h n HF Hn Hreach) as (_ & Hsp). destruct (Hsp _ _ Epp) as (_ & p & [= <-] & Hp). exact Hp. }
  destruct Hreach as (x & Hx & Hrx). assert (Hreach : MReach T w m h) by (exists x; auto).
  assert (Hchild : child_of w h sub) by (exists n; split; [exact Hn|eapply index_of_citem; eauto]).
  wbind_w H u w1 E1.
  2:{ exfalso. eapply (ri_main T w m HF (i4_named _ _ _ HI)) in E1 as ([=] & _); eauto. }
  eapply (ri_main T w m HF (i4_named _ _ _ HI)) in E1 as (_ & (N1 & F1 & Fr1 & Wi1 & K & R & M1 & KS & RS)); eauto.
  assert (Hnb : ~ reach T w sub h).
  { intros (q & Hd). eapply (not_below_self T w h sub q); eauto. }
  apply modify_node_inv in H as (nh & Hnh & -> & ->). rewrite (Fr1 h Hnb), Hn in Hnh. injection Hnh as <-.
  right. exists n, pos, m, x, pp, K, R.
  split; [exact Hn|]. split; [exact Eidx|]. split; [exact Hreach|]. split; [exact Hpp|]. split; [exact Hx|]. split.
  { intros Hnamed sn2 Hsn2 Hs. rewrite Hsn in Hsn2. injection Hsn2 as <-.
    rewrite (named_val _ _ _ Hnmd) in Hnamed. subst nmd. unfold SHORT in Eshort. apply N.eqb_eq in Hs. rewrite Hs in Eshort. discriminate. }
  split; [cbn; apply upd_eq|]. split.
  { intros j Hj Hnbj. cbn. rewrite upd_neq by exact Hj. apply Fr1. exact Hnbj. }
  split.
  { intros j nj Hb Hnj. cbn. assert (j <> h) by (intros ->; contradiction). rewrite upd_neq by assumption. eapply Wi1; eauto. }
  split; [exact M1|]. split; [exact KS|]. split; [exact RS|]. cbn. exact N1.
Qed.

Lemma e_remove_shape h sub w r w' :
  TreeFacts w -> Inv04 w -> e_remove_sub_element T h sub w = Val (r, w') -> w' = w \/ removed w h sub w'.
Proof. intros HF HI H. destruct (e_remove_shape2 h sub w r w' HF HI H) as [(E & _)|Hr]; auto. Qed.

(* a listed sub-element of a model root of a type that is not named is removed *)
Lemma e_remove_root_child h sub w r w' n m :
  TreeFacts w -> Inv04 w -> e_remove_sub_element T h sub w = Val (r, w') ->
  w_nodes w h = Some n -> n_parent n = PModel m -> named T (n_type n) = false -> child_of w h sub -> removed w h sub w'.
Proof.
  intros HF HI H Hn Hp Hnn Hc. destruct (e_remove_shape2 h sub w r w' HF HI H) as [(_ & Hre)|Hr]; [exfalso|exact Hr].
  destruct Hre as [E|[(e & Em)|[(n0 & e & Hn0 & Epp)|[Hnc|(n0 & sn & Hn0 & _ & Hnm & _)]]]].
  - subst sub. eapply (not_below_self T w h h []); eauto. constructor.
  - apply (model_of_val T) in Em as (_ & [(m0 & s0 & [=] & _)|(_ & Hd)]). inversion Hd as [|i0 n1 Hn1 Hd1]; subst.
    rewrite Hn in Hn1. injection Hn1 as <-. rewrite Hp in Hd1. inversion Hd1.
  - rewrite Hn in Hn0. injection Hn0 as <-. apply (path_unchecked_val T h n w _ _ Hn) in Epp as (_ & [(m0 & s0 & [=] & _)|(_ & Hd)]).
    inversion Hd as [|i0 n1 Hn1 Hd1]; subst. rewrite Hn in Hn1. injection Hn1 as <-. rewrite Hp in Hd1. inversion Hd1.
  - contradiction.
  - rewrite Hn in Hn0. injection Hn0 as <-. congruence.
Qed.

(* ---------- lists *)
Lemma in_remove_at_citem sub l pos c :
  NoDup (elem_ids l) -> index_of (citem_is sub) l = Some pos ->
  (In (CElem c) (remove_at l pos) <-> In (CElem c) l /\ c <> sub).
Proof.
  intros Hnd Hidx. apply index_of_split in Hidx as (l1 & x & l2 & -> & <- & Hx & _).
  destruct x as [c0|d]; cbn in Hx; [|discriminate]. apply N.eqb_eq in Hx. subst c0.
  assert (Hra : remove_at (l1 ++ CElem sub :: l2) (List.length l1) = l1 ++ l2).
  { clear. induction l1 as [|y l1 IH]; cbn; [reflexivity|]. f_equal. exact IH. }
  rewrite Hra. assert (Hni : ~ In (CElem sub) (l1 ++ l2)).
  { unfold elem_ids in Hnd. rewrite flat_map_app in Hnd. cbn in Hnd. apply NoDup_remove_2 in Hnd.
    intros Hin. apply Hnd. rewrite <- flat_map_app. apply (in_elem_ids sub (l1 ++ l2)). exact Hin. }
  rewrite !in_app_iff. cbn. split.
  - intros H. split; [tauto|]. intros ->. apply Hni. apply in_app_iff. exact H.
  - intros ([H|[[= ->]|H]] & Hne); [auto|contradiction|auto].
Qed.
Lemma hd_remove_at_pos {A} (l : list A) k : k <> O -> hd_error (remove_at l k) = hd_error l.
Proof. destruct l as [|x l], k as [|k]; cbn; congruence. Qed.
Lemma index_of_zero sub l : index_of (citem_is sub) l = Some O -> exists rest, l = CElem sub :: rest.
Proof.
  destruct l as [|[c|d] rest]; cbn; try discriminate.
  - destruct (c =? sub) eqn:E; [|destruct (index_of _ rest); discriminate]. apply N.eqb_eq in E. subst. eauto.
  - destruct (index_of _ rest); discriminate.
Qed.

Lemma fold_swap_remove {A} (K : list (list N)) : forall (l : list (list N * A)),
  NoDupKeys l ->
  NoDupKeys (fold_left (fun l k => assoc_swap_remove k l) K l) /\
  forall k, assoc_get k (fold_left (fun l k => assoc_swap_remove k l) K l) = if in_dec bytes_dec k K then None else assoc_get k l.
Proof.
  induction K as [|k0 K IH]; intros l Hnd; cbn [fold_left]; [split; [exact Hnd|reflexivity]|].
  destruct (IH (assoc_swap_remove k0 l) (nodup_swap_remove k0 l Hnd)) as (H1 & H2). split; [exact H1|].
  intros k. rewrite H2. destruct (in_dec bytes_dec k K) as [Hi|Hn]; destruct (in_dec bytes_dec k (k0 :: K)) as [Hi2|Hn2]; try reflexivity.
  - exfalso. apply Hn2. right. exact Hi.
  - destruct Hi2 as [->|Hi2]; [apply assoc_get_swap_remove_eq; exact Hnd|contradiction].
  - apply assoc_get_swap_remove_neq; [exact Hnd|]. intros ->. apply Hn2. left. reflexivity.
Qed.

Lemma fold_remove_origin (R : list (list N * id)) : forall l,
  Tidy l -> (forall p, NoDup (oget p l)) ->
  let l' := fold_left (fun l pr => remove_origin (fst pr) (snd pr) l) R l in
  Tidy l' /\ forall p, NoDup (oget p l') /\ forall r, In r (oget p l') <-> In r (oget p l) /\ ~ In (p, r) R.
Proof.
  induction R as [|[p0 r0] R IH]; intros l Ht Hnd; cbn [fold_left fst snd].
  - split; [exact Ht|]. intros p. split; [apply Hnd|]. intros r. cbn. tauto.
  - assert (Hnd1 : forall p, NoDup (oget p (remove_origin p0 r0 l))).
    { intros p. rewrite oget_remove. destruct (bytes_dec p p0) as [->|_]; [apply remove_first_spec; apply Hnd|apply Hnd]. }
    destruct (IH (remove_origin p0 r0 l) (tidy_remove p0 r0 l Ht) Hnd1) as (H1 & H2). split; [exact H1|].
    intros p. destruct (H2 p) as (H3 & H4). split; [exact H3|]. intros r. rewrite H4, oget_remove.
    destruct (bytes_dec p p0) as [->|Hne].
    + destruct (remove_first_spec r0 _ (Hnd p0)) as (_ & Hrf). rewrite Hrf. cbn. split.
      * intros ((Hi & Hne) & Hn). split; [exact Hi|]. intros [[= ->]|Hin]; contradiction.
      * intros (Hi & Hn). split; [split; [exact Hi|]|]; [intros ->; apply Hn; left; reflexivity|intros Hin; apply Hn; right; exact Hin].
    + cbn. split.
      * intros (Hi & Hn). split; [exact Hi|]. intros [[= -> _]|Hin]; contradiction.
      * intros (Hi & Hn). split; [exact Hi|]. intros Hin. apply Hn. right. exact Hin.
Qed.

(* ---------- the specification side after the removal *)
Section Rem.
Variables (w w' : world) (h sub : id) (n : node) (pos : nat) (m : N) (x : model) (pp : list N)
          (K : list (list N)) (R : list (list N * id)).
Hypothesis HF : TreeFacts w.
Hypothesis HI : Inv04 w.
Hypothesis Hn : w_nodes w h = Some n.
Hypothesis Hidx : index_of (citem_is sub) (n_content n) = Some pos.
Hypothesis Hreach : MReach T w m h.
Hypothesis Hpp : SpecPath T w m h pp.
Hypothesis Hx : model_at w m = Some x.
Hypothesis Hshort : named T (n_type n) = true -> forall sn, w_nodes w sub = Some sn -> n_name sn <> SHORTN.
Hypothesis Hh' : w_nodes w' h = Some (set_content n (remove_at (n_content n) pos)).
Hypothesis Hout : forall j, j <> h -> ~ reach T w sub j -> w_nodes w' j = w_nodes w j.
(* the nodes of the removed subtree are wiped (remove_sub_element) or gone (the virtual first half of a move) *)
Hypothesis Hin : forall j nj, reach T w sub j -> w_nodes w j = Some nj -> w_nodes w' j = Some (wipe nj) \/ w_nodes w' j = None.
Hypothesis Hmodels : w_models w' = list_set (w_models w) (N.to_nat m) (apply_plan x K R).
Hypothesis HK : forall k, In k K <-> exists j q, dpath T w sub j q /\ identifiable T w j = true /\ k = pp ++ seg T w sub ++ q.
(* K04-front for removal is excluded *)
Hypothesis Hfront : named T (n_type n) = true -> pos = O ->
  forall s rest sn, n_content n = CElem sub :: CElem s :: rest -> w_nodes w s = Some sn -> n_name sn <> SHORTN.

Notation D := (reach T w sub).

Lemma rem_child : child_of w h sub.
Proof. exists n. split; [exact Hn|eapply index_of_citem; eauto]. Qed.
Lemma rem_h_notD : ~ D h.
Proof. intros (q & Hd). eapply (not_below_self T w h sub q); eauto. apply rem_child. Qed.
Lemma rem_dec j : D j \/ ~ D j.
Proof. apply below_dec. exact HF. Qed.

Lemma parent_unique p1 p2 c : child_of w p1 c -> child_of w p2 c -> p1 = p2.
Proof.
  intros H1 H2. destruct (tf_up _ HF _ _ H1) as (c1 & Hc1 & P1). destruct (tf_up _ HF _ _ H2) as (c2 & Hc2 & P2). congruence.
Qed.

(* membership in the removed subtree, along one edge *)
Lemma D_child p c : child_of w p c -> (D c <-> c = sub \/ D p).
Proof.
  intros Hc. split.
  - intros (q & Hd). destruct (dpath_last T _ _ _ _ Hd) as [->|(p2 & Hc2 & Hb)]; [left; reflexivity|].
    right. rewrite (parent_unique _ _ _ Hc Hc2). exact Hb.
  - intros [->|Hp]; [apply reach_refl|eapply reach_step; eauto].
Qed.

Lemma root_notD m2 x2 : model_at w m2 = Some x2 -> ~ D (m_root x2).
Proof.
  intros Hx2 (q & Hd). destruct (tf_roots _ HF _ _ Hx2) as (nr & Hnr & Hpar).
  destruct (dpath_last T _ _ _ _ Hd) as [E|(p & Hc & _)].
  - destruct (tf_up _ HF _ _ rem_child) as (sn & Hsn & Hps). rewrite <- E in Hsn. congruence.
  - destruct (tf_up _ HF _ _ Hc) as (cn & Hcn & Hpc). congruence.
Qed.

(* h is not a SHORT-NAME element (it has a sub-element) *)
Lemma rem_h_not_short : n_name n <> SHORTN.
Proof.
  intros Hs. destruct (i4_short _ _ _ HI _ _ Hn Hs) as (Hm & _).
  pose proof (chars_content_elems _ (i4_leaf _ _ _ HI _ _ Hn Hm)) as He.
  pose proof (index_of_citem _ _ _ Hidx) as Hi. apply in_elem_ids in Hi. rewrite He in Hi. destruct Hi.
Qed.

Lemma rem_nodup : NoDup (elem_ids (n_content n)).
Proof. eapply tf_nodup; eauto. Qed.

(* the children relation after the removal *)
Lemma rem_child_of p c : child_of w' p c <-> child_of w p c /\ ~ D p /\ ~ (p = h /\ c = sub).
Proof.
  destruct (N.eq_dec p h) as [->|Hph].
  - unfold child_of at 1. rewrite Hh'. split.
    + intros (n2 & [= <-] & Hc). cbn in Hc. apply (in_remove_at_citem sub _ pos c rem_nodup Hidx) in Hc as (Hc & Hne).
      split; [exists n; auto|]. split; [apply rem_h_notD|]. intros (_ & E). contradiction.
    + intros ((n2 & Hn2 & Hc) & _ & Hne). rewrite Hn in Hn2. injection Hn2 as <-. eexists. split; [reflexivity|]. cbn.
      apply (in_remove_at_citem sub _ pos c rem_nodup Hidx). split; [exact Hc|]. intros ->. apply Hne. auto.
  - destruct (rem_dec p) as [Hd|Hnd].
    + split.
      * intros (n2 & Hn2 & Hc). exfalso. destruct (w_nodes w p) as [np|] eqn:Ep.
        -- destruct (Hin p np Hd Ep) as [Hw|Hw]; rewrite Hw in Hn2; [|discriminate]. injection Hn2 as <-. destruct Hc.
        -- destruct Hd as (q & Hd). destruct (dpath_last T _ _ _ _ Hd) as [E|(p2 & Hc2 & _)].
           ++ subst p. destruct (tf_up _ HF _ _ rem_child) as (? & ? & _). congruence.
           ++ destruct (tf_up _ HF _ _ Hc2) as (? & ? & _). congruence.
      * intros (_ & Hnd & _). contradiction.
    + unfold child_of at 1. rewrite (Hout p Hph Hnd). split; [intros Hc; split; [exact Hc|]; split; [exact Hnd|]; intros (E & _); contradiction|tauto].
Qed.

(* a listed child of a node outside the subtree is outside, unless it is sub itself *)
Lemma kid_notD p c : child_of w p c -> ~ D p -> c <> sub -> ~ D c.
Proof. intros Hc Hp Hne Hd. apply (D_child p c Hc) in Hd as [E|Hd]; contradiction. Qed.

(* readings of the nodes outside the removed subtree *)
Lemma rem_node_out j nj : w_nodes w j = Some nj -> ~ D j -> j <> h -> w_nodes w' j = Some nj.
Proof. intros Hj Hnd Hne. rewrite (Hout j Hne Hnd). exact Hj. Qed.

Lemma rem_short_child_out j nj : w_nodes w j = Some nj -> ~ D j -> j <> h -> short_child T w' nj = short_child T w nj.
Proof.
  intros Hj Hnd Hne. rewrite !short_child_hd. destruct (hd_error (n_content nj)) as [[s|d]|] eqn:Eh; try reflexivity.
  assert (Hs : child_of w j s).
  { exists nj. split; [exact Hj|]. destruct (n_content nj); cbn in Eh; [discriminate|]. injection Eh as ->. left. reflexivity. }
  destruct (tf_up _ HF _ _ Hs) as (sn & Hsn & _). rewrite Hsn.
  destruct (N.eq_dec s h) as [->|Hsh].
  - rewrite Hh'. rewrite Hn in Hsn. injection Hsn as <-. cbn [set_content n_name].
    pose proof rem_h_not_short as Hns. apply N.eqb_neq in Hns. rewrite Hns. reflexivity.
  - assert (Hsd : ~ D s).
    { apply (kid_notD j s Hs Hnd). intros ->. apply Hne. eapply parent_unique; eauto. apply rem_child. }
    rewrite (rem_node_out s sn Hsn Hsd Hsh). reflexivity.
Qed.

Lemma rem_readings_h :
  let n' := set_content n (remove_at (n_content n) pos) in
  item_name_n T w' n' = item_name_n T w n /\ identifiable_n T w' n' = identifiable_n T w n /\ seg_n T w' n' = seg_n T w n.
Proof.
  cbn zeta. destruct (named T (n_type n)) eqn:Enm.
  2:{ unfold seg_n, item_name_n, identifiable_n. cbn [set_content n_type]. rewrite Enm. auto. }
  destruct (Nat.eq_dec pos O) as [Epos|Epos].
  - (* the first item is removed: h was not identifiable and does not become identifiable *)
    pose proof Hidx as Hi0. rewrite Epos in Hi0. rewrite Epos.
    destruct (index_of_zero _ _ Hi0) as (rest & Hc).
    destruct (tf_up _ HF _ _ rem_child) as (sn & Hsn & _).
    assert (Hi : identifiable_n T w n = false).
    { unfold identifiable_n, short_child. rewrite Hc, Hsn. pose proof (Hshort eq_refl sn Hsn) as Hne. apply N.eqb_neq in Hne.
      rewrite Hne. apply andb_false_r. }
    assert (Hi' : identifiable_n T w' (set_content n (remove_at (n_content n) 0)) = false).
    { unfold identifiable_n, short_child. cbn [set_content n_type n_content]. rewrite Hc. cbn [remove_at].
      destruct rest as [|[s|d] rest2]; try apply andb_false_r.
      assert (Hs : child_of w h s) by (exists n; split; [exact Hn|rewrite Hc; right; left; reflexivity]).
      destruct (tf_up _ HF _ _ Hs) as (ssn & Hssn & _).
      assert (Hsne : s <> sub).
      { intros ->. pose proof rem_nodup as Hnd. rewrite Hc in Hnd. cbn in Hnd. inversion Hnd as [|? ? Hni _]. apply Hni. left. reflexivity. }
      assert (Hsh : s <> h).
      { intros ->. eapply (not_below_self T w h h []); eauto. constructor. }
      rewrite (rem_node_out s ssn Hssn (kid_notD h s Hs rem_h_notD Hsne) Hsh).
      pose proof (Hfront eq_refl Epos s rest2 ssn Hc Hssn) as Hne. apply N.eqb_neq in Hne. rewrite Hne. apply andb_false_r. }
    assert (forall ww nn, identifiable_n T ww nn = false -> item_name_n T ww nn = None).
    { intros ww nn H. destruct (item_name_n T ww nn) eqn:E; [|reflexivity]. apply item_name_identifiable in E. congruence. }
    unfold seg_n. rewrite (H _ _ Hi), (H _ _ Hi'), Hi, Hi'. auto.
  - (* another item is removed: the first item stays *)
    apply readings_ext; [reflexivity|]. rewrite !short_child_hd. cbn [set_content n_content].
    rewrite hd_remove_at_pos by exact Epos.
    destruct (hd_error (n_content n)) as [[s|d]|] eqn:Eh; try reflexivity.
    assert (Hs : child_of w h s).
    { exists n. split; [exact Hn|]. destruct (n_content n); cbn in Eh; [discriminate|]. injection Eh as ->. left. reflexivity. }
    destruct (tf_up _ HF _ _ Hs) as (sn & Hsn & _). rewrite Hsn.
    assert (Hsne : s <> sub).
    { intros ->. apply index_of_split in Hidx as (l1 & y & l2 & Hc & Hl & Hy & Hall).
      destruct l1 as [|z l1]; [cbn in Hl; congruence|]. rewrite Hc in Eh. cbn in Eh. injection Eh as ->.
      cbn in Hall. rewrite N.eqb_refl in Hall. discriminate. }
    assert (Hsh : s <> h).
    { intros ->. eapply (not_below_self T w h h []); eauto. constructor. }
    rewrite (rem_node_out s sn Hsn (kid_notD h s Hs rem_h_notD Hsne) Hsh). reflexivity.
Qed.

Lemma rem_readings j nj : w_nodes w j = Some nj -> ~ D j ->
  exists nj', w_nodes w' j = Some nj' /\ n_type nj' = n_type nj /\ n_name nj' = n_name nj /\
    item_name_n T w' nj' = item_name_n T w nj /\ identifiable_n T w' nj' = identifiable_n T w nj /\ seg_n T w' nj' = seg_n T w nj.
Proof.
  intros Hj Hnd. destruct (N.eq_dec j h) as [->|Hne].
  - rewrite Hn in Hj. injection Hj as <-. eexists. split; [exact Hh'|]. split; [reflexivity|]. split; [reflexivity|]. apply rem_readings_h.
  - exists nj. split; [apply rem_node_out; assumption|]. split; [reflexivity|]. split; [reflexivity|].
    apply readings_ext; [reflexivity|]. apply (rem_short_child_out j nj); assumption.
Qed.

Lemma rem_seg j : ~ D j -> seg T w' j = seg T w j.
Proof.
  intros Hnd. unfold seg. destruct (w_nodes w j) as [nj|] eqn:Ej.
  - destruct (rem_readings j nj Ej Hnd) as (nj' & -> & _ & _ & _ & _ & Hs). exact Hs.
  - destruct (N.eq_dec j h) as [->|Hne]; [congruence|]. rewrite (Hout j Hne Hnd), Ej. reflexivity.
Qed.
Lemma rem_identifiable j : ~ D j -> identifiable T w' j = identifiable T w j.
Proof.
  intros Hnd. unfold identifiable. destruct (w_nodes w j) as [nj|] eqn:Ej.
  - destruct (rem_readings j nj Ej Hnd) as (nj' & -> & _ & _ & _ & Hs & _). exact Hs.
  - destruct (N.eq_dec j h) as [->|Hne]; [congruence|]. rewrite (Hout j Hne Hnd), Ej. reflexivity.
Qed.

(* top-down paths after the removal: exactly those that avoid the removed subtree *)
Lemma rem_dpath a j q : ~ D a -> (dpath T w' a j q <-> dpath T w a j q /\ ~ D j).
Proof.
  intros Ha. split.
  - intros Hd. induction Hd as [|p c q Hp IH Hc]; [split; [constructor|exact Ha]|].
    destruct IH as (IH1 & IH2). apply rem_child_of in Hc as (Hc & _ & Hne).
    assert (Hcd : ~ D c).
    { apply (kid_notD p c Hc IH2). intros ->. apply Hne. split; [|reflexivity]. eapply parent_unique; eauto. apply rem_child. }
    split; [|exact Hcd]. rewrite (rem_seg c Hcd). econstructor; eauto.
  - intros (Hd & Hj). induction Hd as [|p c q Hp IH Hc]; [constructor|].
    assert (Hpd : ~ D p) by (intros Hp2; apply Hj; eapply reach_step; eauto).
    rewrite <- (rem_seg c Hj). econstructor; [apply IH; exact Hpd|].
    apply rem_child_of. split; [exact Hc|]. split; [exact Hpd|]. intros (_ & ->). apply Hj. apply reach_refl.
Qed.

Lemma rem_model m2 : exists x2', (model_at w m2 = None /\ model_at w' m2 = None) \/
  (exists x2, model_at w m2 = Some x2 /\ model_at w' m2 = Some x2' /\ m_root x2' = m_root x2 /\
     m_idents x2' = (if N.eq_dec m2 m then fold_left (fun l k => assoc_swap_remove k l) K (m_idents x2) else m_idents x2)).
Proof.
  destruct (N.eq_dec m2 m) as [->|Hne].
  - exists (apply_plan x K R). right. exists x. split; [exact Hx|]. split; [eapply model_at_set_same; eauto|]. split; reflexivity.
  - destruct (model_at w m2) as [x2|] eqn:E2.
    + exists x2. right. exists x2. rewrite (model_at_set_other _ _ _ _ _ Hmodels Hne). auto.
    + exists x. left. rewrite (model_at_set_other _ _ _ _ _ Hmodels Hne). auto.
Qed.

Lemma rem_pathset m2 p j : PathSet T w' m2 p j <-> PathSet T w m2 p j /\ ~ D j.
Proof.
  destruct (rem_model m2) as (x2' & [(E1 & E2)|(x2 & E1 & E2 & Er & _)]).
  { split; [intros ((y & Hy & _) & _); congruence|intros (((y & Hy & _) & _) & _); congruence]. }
  pose proof (root_notD m2 x2 E1) as Hrd.
  unfold PathSet, MReach, SpecPath, reach, spath. split.
  - intros ((y1 & Hy1 & (q1 & Hd1)) & Hid & (y2 & Hy2 & (q2 & Hd2 & ->))).
    rewrite E2 in Hy1, Hy2. injection Hy1 as <-. injection Hy2 as <-. rewrite Er in *.
    apply (rem_dpath _ _ _ Hrd) in Hd1 as (Hd1 & Hj). apply (rem_dpath _ _ _ Hrd) in Hd2 as (Hd2 & _).
    split; [|exact Hj]. split; [exists x2; split; [exact E1|exists q1; exact Hd1]|].
    split; [rewrite <- (rem_identifiable j Hj); exact Hid|]. exists x2. split; [exact E1|]. exists q2. split; [exact Hd2|].
    rewrite (rem_seg _ Hrd). reflexivity.
  - intros (((y1 & Hy1 & (q1 & Hd1)) & Hid & (y2 & Hy2 & (q2 & Hd2 & ->))) & Hj).
    rewrite E1 in Hy1, Hy2. injection Hy1 as <-. injection Hy2 as <-.
    split; [exists x2'; split; [exact E2|exists q1; rewrite Er; apply (rem_dpath _ _ _ Hrd); auto]|].
    split; [rewrite (rem_identifiable j Hj); exact Hid|]. exists x2'. split; [exact E2|]. exists q2. rewrite Er.
    split; [apply (rem_dpath _ _ _ Hrd); auto|]. rewrite (rem_seg _ Hrd). reflexivity.
Qed.

(* the removed keys are exactly the paths of the identifiable elements of the removed subtree *)
Lemma rem_keys k j : PathSet T w m k j -> (In k K <-> D j).
Proof.
  intros (Hr & Hid & Hsp). rewrite HK. split.
  - intros (j2 & q2 & Hd2 & Hid2 & ->).
    assert (Hsp2 : SpecPath T w m j2 (pp ++ seg T w sub ++ q2)).
    { destruct Hpp as (y & Hy & (q0 & Hd0 & ->)). exists y. split; [exact Hy|]. exists (q0 ++ seg T w sub ++ q2).
      split; [|rewrite <- !app_assoc; reflexivity]. eapply dpath_trans; [exact Hd0|]. eapply dpath_cons; [apply rem_child|exact Hd2]. }
    assert (HP2 : PathSet T w m (pp ++ seg T w sub ++ q2) j2).
    { split; [eapply specpath_mreach; eauto|]. split; assumption. }
    apply (i4_exact _ _ _ HI m x Hx) in HP2.
    assert (HP : PathSet T w m (pp ++ seg T w sub ++ q2) j) by (split; [exact Hr|split; assumption]).
    apply (i4_exact _ _ _ HI m x Hx) in HP. assert (j = j2) by congruence. subst j2. exists q2. exact Hd2.
  - intros (q2 & Hd2). exists j, q2. split; [exact Hd2|]. split; [exact Hid|].
    assert (Hsp2 : SpecPath T w m j (pp ++ seg T w sub ++ q2)).
    { destruct Hpp as (y & Hy & (q0 & Hd0 & ->)). exists y. split; [exact Hy|]. exists (q0 ++ seg T w sub ++ q2).
      split; [|rewrite <- !app_assoc; reflexivity]. eapply dpath_trans; [exact Hd0|]. eapply dpath_cons; [apply rem_child|exact Hd2]. }
    destruct (specpath_fun T _ _ _ _ _ _ HF Hsp Hsp2) as (_ & ->). reflexivity.
Qed.

(* a node of the removed subtree belongs to model m only *)
Lemma D_model m2 j : D j -> MReach T w m2 j -> m2 = m.
Proof.
  intros (q & Hd) Hr2.
  assert (Hr : MReach T w m j).
  { destruct Hreach as (y & Hy & (q0 & Hd0)). exists y. split; [exact Hy|]. eexists. eapply dpath_trans; [exact Hd0|].
    eapply dpath_cons; [apply rem_child|exact Hd]. }
  destruct (mreach_specpath T _ _ _ Hr) as (p1 & S1). destruct (mreach_specpath T _ _ _ Hr2) as (p2 & S2).
  destruct (specpath_fun T _ _ _ _ _ _ HF S2 S1) as (-> & _). reflexivity.
Qed.

Lemma removed_side : ShortTyped T check_fn w' /\ SlashFree T w' /\ AllNamed T w' /\ CharsLeaf T w'.
Proof.
  pose proof HI as [I1 I2 I3 IL I4 I5]. split; [|split; [|split]].
  - (* ShortTyped *)
    intros j nj' Hj Hs. destruct (w_nodes w j) as [nj|] eqn:Ej.
    + destruct (rem_dec j) as [Hd|Hnd].
      * destruct (Hin j nj Hd Ej) as [Hw|Hw]; rewrite Hw in Hj; [|discriminate]. injection Hj as <-. cbn in *. eapply I1; eauto.
      * destruct (rem_readings j nj Ej Hnd) as (nj2 & Hj2 & Ht & Hnm & _). rewrite Hj in Hj2. injection Hj2 as <-.
        rewrite Ht. eapply I1; eauto; congruence.
    + destruct (N.eq_dec j h) as [->|Hne]; [congruence|].
      destruct (rem_dec j) as [(q & Hd)|Hnd]; [|rewrite (Hout j Hne Hnd) in Hj; congruence].
      exfalso. destruct (dpath_last T _ _ _ _ Hd) as [E|(p2 & Hc2 & _)].
      * subst j. destruct (tf_up _ HF _ _ rem_child) as (? & ? & _). congruence.
      * destruct (tf_up _ HF _ _ Hc2) as (? & ? & _). congruence.
  - (* SlashFree *)
    intros j nj' s Hj Hs Hcd. destruct (w_nodes w j) as [nj|] eqn:Ej.
    + destruct (rem_dec j) as [Hd|Hnd].
      * destruct (Hin j nj Hd Ej) as [Hw|Hw]; rewrite Hw in Hj; [|discriminate]. injection Hj as <-. unfold cdata_of, character_data in Hcd. cbn in Hcd. discriminate.
      * destruct (N.eq_dec j h) as [->|Hne].
        -- rewrite Hh' in Hj. injection Hj as <-. cbn in Hs. exfalso. apply rem_h_not_short. rewrite Hn in Ej. injection Ej as <-. exact Hs.
        -- rewrite (rem_node_out j nj Ej Hnd Hne) in Hj. injection Hj as <-. eapply I2; eauto.
    + destruct (N.eq_dec j h) as [->|Hne]; [congruence|].
      destruct (rem_dec j) as [(q & Hd)|Hnd]; [|rewrite (Hout j Hne Hnd) in Hj; congruence].
      exfalso. destruct (dpath_last T _ _ _ _ Hd) as [E|(p2 & Hc2 & _)].
      * subst j. destruct (tf_up _ HF _ _ rem_child) as (? & ? & _). congruence.
      * destruct (tf_up _ HF _ _ Hc2) as (? & ? & _). congruence.
  - (* AllNamed *)
    intros j nj' Hj Hid. destruct (w_nodes w j) as [nj|] eqn:Ej.
    + destruct (rem_dec j) as [Hd|Hnd].
      * destruct (Hin j nj Hd Ej) as [Hw|Hw]; rewrite Hw in Hj; [|discriminate]. injection Hj as <-. unfold identifiable_n, short_child in Hid. cbn in Hid.
        rewrite andb_false_r in Hid. discriminate.
      * destruct (rem_readings j nj Ej Hnd) as (nj2 & Hj2 & _ & _ & Hin2 & Hid2 & _). rewrite Hj in Hj2. injection Hj2 as <-.
        rewrite Hin2. eapply I3; eauto; congruence.
    + destruct (N.eq_dec j h) as [->|Hne]; [congruence|].
      destruct (rem_dec j) as [(q & Hd)|Hnd]; [|rewrite (Hout j Hne Hnd) in Hj; congruence].
      exfalso. destruct (dpath_last T _ _ _ _ Hd) as [E|(p2 & Hc2 & _)].
      * subst j. destruct (tf_up _ HF _ _ rem_child) as (? & ? & _). congruence.
      * destruct (tf_up _ HF _ _ Hc2) as (? & ? & _). congruence.
  - (* CharsLeaf *)
    intros j nj' Hj Hm. destruct (w_nodes w j) as [nj|] eqn:Ej.
    + destruct (rem_dec j) as [Hd|Hnd].
      * destruct (Hin j nj Hd Ej) as [Hw|Hw]; rewrite Hw in Hj; [|discriminate]. injection Hj as <-. left. reflexivity.
      * destruct (N.eq_dec j h) as [->|Hne].
        -- rewrite Hh' in Hj. injection Hj as <-. cbn in Hm. exfalso. rewrite Hn in Ej. injection Ej as <-.
           pose proof (chars_content_elems _ (IL _ _ Hn Hm)) as He.
           pose proof (index_of_citem _ _ _ Hidx) as Hi. apply in_elem_ids in Hi. rewrite He in Hi. destruct Hi.
        -- rewrite (rem_node_out j nj Ej Hnd Hne) in Hj. injection Hj as <-. eapply IL; eauto.
    + destruct (N.eq_dec j h) as [->|Hne]; [congruence|].
      destruct (rem_dec j) as [(q & Hd)|Hnd]; [|rewrite (Hout j Hne Hnd) in Hj; congruence].
      exfalso. destruct (dpath_last T _ _ _ _ Hd) as [E|(p2 & Hc2 & _)].
      * subst j. destruct (tf_up _ HF _ _ rem_child) as (? & ? & _). congruence.
      * destruct (tf_up _ HF _ _ Hc2) as (? & ? & _). congruence.
Qed.

(* the specification path of an element outside the removed subtree *)
Lemma rem_specpath m2 j p : ~ D j -> (SpecPath T w' m2 j p <-> SpecPath T w m2 j p).
Proof.
  intros Hj. destruct (rem_model m2) as (x2' & [(E1 & E2)|(x2 & E1 & E2 & Er & _)]).
  { split; intros (y & Hy & _); congruence. }
  pose proof (root_notD m2 x2 E1) as Hrd. unfold SpecPath, spath. split.
  - intros (y & Hy & (q & Hd & ->)). rewrite E2 in Hy. injection Hy as <-. rewrite Er in *.
    apply (rem_dpath _ _ _ Hrd) in Hd as (Hd & _). exists x2. split; [exact E1|]. exists q. split; [exact Hd|]. rewrite (rem_seg _ Hrd). reflexivity.
  - intros (y & Hy & (q & Hd & ->)). rewrite E1 in Hy. injection Hy as <-. exists x2'. split; [exact E2|]. rewrite Er. exists q.
    split; [apply (rem_dpath _ _ _ Hrd); auto|]. rewrite (rem_seg _ Hrd). reflexivity.
Qed.

Theorem removed_inv04 : Inv04 w'.
Proof.
  pose proof HI as [I1 I2 I3 IL I4 I5]. destruct removed_side as (S1 & S2 & S3 & S4). constructor; [exact S1|exact S2|exact S3|exact S4| |].
  - (* IndexExact *)
    intros m2 x2' Hx2' p j. rewrite rem_pathset.
    destruct (rem_model m2) as (y' & [(E1 & E2)|(x2 & E1 & E2 & Er & Ei)]); [congruence|].
    rewrite E2 in Hx2'. injection Hx2' as <-. rewrite Ei. destruct (N.eq_dec m2 m) as [->|Hne].
    + rewrite Hx in E1. injection E1 as <-.
      destruct (fold_swap_remove K (m_idents x) (I5 m x Hx)) as (_ & Hget). rewrite Hget.
      destruct (in_dec bytes_dec p K) as [Hk|Hk].
      * split; [discriminate|]. intros (HP & Hnd). exfalso. apply Hnd. apply (rem_keys p j HP). exact Hk.
      * rewrite (I4 m x Hx p j). split; [|tauto]. intros HP. split; [exact HP|]. intros Hd. apply Hk. apply (rem_keys p j HP). exact Hd.
    + rewrite (I4 m2 x2 E1 p j). split; [|tauto]. intros HP. split; [exact HP|]. intros Hd.
      apply Hne. eapply D_model; eauto. destruct HP as (Hr & _). exact Hr.
  - (* IndexNoDup *)
    intros m2 x2' Hx2'. destruct (rem_model m2) as (y' & [(E1 & E2)|(x2 & E1 & E2 & Er & Ei)]); [congruence|].
    rewrite E2 in Hx2'. injection Hx2' as <-. rewrite Ei. destruct (N.eq_dec m2 m) as [->|Hne].
    + rewrite Hx in E1. injection E1 as <-. apply (fold_swap_remove K (m_idents x) (I5 m x Hx)).
    + apply (I5 m2 x2 E1).
Qed.

(* ---------- C05 *)
Lemma rem_mreach m2 j : MReach T w' m2 j <-> MReach T w m2 j /\ ~ D j.
Proof.
  destruct (rem_model m2) as (x2' & [(E1 & E2)|(x2 & E1 & E2 & Er & _)]).
  { split; [intros (y & Hy & _); congruence|intros ((y & Hy & _) & _); congruence]. }
  pose proof (root_notD m2 x2 E1) as Hrd. unfold MReach, reach. split.
  - intros (y1 & Hy1 & (q1 & Hd1)). rewrite E2 in Hy1. injection Hy1 as <-. rewrite Er in *.
    apply (rem_dpath _ _ _ Hrd) in Hd1 as (Hd1 & Hj). split; [|exact Hj]. exists x2. split; [exact E1|exists q1; exact Hd1].
  - intros ((y1 & Hy1 & (q1 & Hd1)) & Hj). rewrite E1 in Hy1. injection Hy1 as <-.
    exists x2'. split; [exact E2|]. exists q1. rewrite Er. apply (rem_dpath _ _ _ Hrd). auto.
Qed.

Lemma rem_h_not_ref : isref T (n_type n) = false.
Proof.
  unfold isref. destruct (is_ref T (n_type n)) as [[|]| |] eqn:E; try reflexivity. exfalso.
  pose proof (tk_ref _ _ TK _ E) as Hm. pose proof (chars_content_elems _ (i4_leaf _ _ _ HI _ _ Hn Hm)) as He.
  pose proof (index_of_citem _ _ _ Hidx) as Hi. apply in_elem_ids in Hi. rewrite He in Hi. destruct Hi.
Qed.

Lemma rem_ref_text j : ~ D j -> ref_text T w' j = ref_text T w j.
Proof.
  intros Hnd. unfold ref_text. destruct (N.eq_dec j h) as [->|Hne].
  - rewrite Hh', Hn. cbn [set_content n_type]. rewrite rem_h_not_ref. reflexivity.
  - rewrite (Hout j Hne Hnd). reflexivity.
Qed.

Lemma rem_refset m2 p r : RefSet T w' m2 p r <-> RefSet T w m2 p r /\ ~ D r.
Proof.
  unfold RefSet. rewrite rem_mreach. split.
  - intros ((Hr & Hnd) & Ht). rewrite (rem_ref_text r Hnd) in Ht. tauto.
  - intros ((Hr & Ht) & Hnd). rewrite (rem_ref_text r Hnd). tauto.
Qed.

(* the removed referrer entries: only references of the subtree, and all of them (the walk of a cross-model move may list
   more pairs: references whose character data is not a string; removing a pair that is not there does nothing) *)
Hypothesis HR : (forall p j, In (p, j) R -> reach T w sub j) /\ (forall p j, reach T w sub j -> ref_text T w j = Some p -> In (p, j) R).

Theorem removed_inv05 : Inv05 T w -> Inv05 T w'.
Proof.
  intros [IE IT]. constructor.
  - intros m2 y Hy p. destruct (N.eq_dec m2 m) as [->|Hne].
    + rewrite (model_at_set_same _ _ _ _ Hmodels _ Hx) in Hy. injection Hy as <-.
      assert (Hnd0 : forall p0, NoDup (oget p0 (m_origins x))) by (intros p0; apply (IE m x Hx p0)).
      destruct (fold_remove_origin R (m_origins x) (IT m x Hx) Hnd0) as (_ & Hf). destruct (Hf p) as (H1 & H2).
      unfold origins_of. cbn [apply_plan set_origins m_origins]. split; [exact H1|].
      intros r. fold (oget p (fold_left (fun l pr => remove_origin (fst pr) (snd pr) l) R (m_origins x))).
      rewrite H2, rem_refset. destruct (IE m x Hx p) as (_ & Hiff). fold (oget p (m_origins x)) in Hiff. rewrite Hiff. destruct HR as (HRa & HRb). split.
      * intros (Hrs & Hn2). split; [exact Hrs|]. intros Hd. apply Hn2. destruct Hrs as (_ & Ht). exact (HRb p r Hd Ht).
      * intros (Hrs & Hnd). split; [exact Hrs|]. intros HinR. apply Hnd. exact (HRa p r HinR).
    + rewrite (model_at_set_other _ _ _ _ _ Hmodels Hne) in Hy. destruct (IE m2 y Hy p) as (H1 & H2). split; [exact H1|].
      intros r. rewrite H2, rem_refset. split; [|tauto]. intros Hrs. split; [exact Hrs|]. intros Hd.
      apply Hne. eapply D_model; eauto. destruct Hrs as (Hr & _). exact Hr.
  - intros m2 y Hy. destruct (N.eq_dec m2 m) as [->|Hne].
    + rewrite (model_at_set_same _ _ _ _ Hmodels _ Hx) in Hy. injection Hy as <-.
      assert (Hnd0 : forall p0, NoDup (oget p0 (m_origins x))) by (intros p0; apply (IE m x Hx p0)).
      destruct (fold_remove_origin R (m_origins x) (IT m x Hx) Hnd0) as (Ht & _). exact Ht.
    + rewrite (model_at_set_other _ _ _ _ _ Hmodels Hne) in Hy. apply (IT m2 y Hy).
Qed.

(* ---------- the tree facts and the late-SHORT-NAME side condition after the removal *)
Hypothesis Hnext : w_next w' = w_next w.

Lemma D_alloc j : D j -> exists nj, w_nodes w j = Some nj.
Proof.
  intros (q & Hd). destruct (dpath_last T _ _ _ _ Hd) as [->|(p & Hc & _)].
  - destruct (tf_up _ HF _ _ rem_child) as (sn & Hsn & _). eauto.
  - destruct (tf_up _ HF _ _ Hc) as (cn & Hcn & _). eauto.
Qed.

Lemma rem_node_cases j n' : w_nodes w' j = Some n' ->
  (j = h /\ n' = set_content n (remove_at (n_content n) pos)) \/
  (D j /\ exists nj, w_nodes w j = Some nj /\ n' = wipe nj) \/
  (j <> h /\ ~ D j /\ w_nodes w j = Some n').
Proof.
  intros Hj. destruct (N.eq_dec j h) as [->|Hne]; [left; split; [reflexivity|congruence]|].
  destruct (rem_dec j) as [Hd|Hnd].
  - right. left. split; [exact Hd|]. destruct (D_alloc j Hd) as (nj & Hnj). exists nj. split; [exact Hnj|].
    destruct (Hin j nj Hd Hnj) as [Hw|Hw]; rewrite Hw in Hj; congruence.
  - right. right. rewrite (Hout j Hne Hnd) in Hj. auto.
Qed.

Lemma h_ne_sub : h <> sub.
Proof. intros E. apply rem_h_notD. rewrite E. apply reach_refl. Qed.

Lemma rem_same_parent j nj : w_nodes w j = Some nj -> ~ D j -> exists nj', w_nodes w' j = Some nj' /\ n_parent nj' = n_parent nj.
Proof.
  intros Hj Hnd. destruct (N.eq_dec j h) as [->|Hne].
  - rewrite Hn in Hj. injection Hj as <-. eexists. split; [exact Hh'|reflexivity].
  - exists nj. split; [apply rem_node_out; assumption|reflexivity].
Qed.

Lemma remove_at_split (l1 l2 : list citem) it : remove_at (l1 ++ it :: l2) (List.length l1) = l1 ++ l2.
Proof. induction l1 as [|y l1 IH]; cbn; [reflexivity|]. f_equal. exact IH. Qed.

Lemma rem_pdepth i k : pdepth w i k -> ~ D i -> pdepth w' i k.
Proof.
  induction 1 as [i ni Hni Ht|i ni p k Hni Hp Hd IH]; intros Hnd.
  - destruct (rem_same_parent i ni Hni Hnd) as (ni' & Hni' & Hpar). eapply pd_top; [exact Hni'|]. rewrite Hpar. exact Ht.
  - destruct (rem_same_parent i ni Hni Hnd) as (ni' & Hni' & Hpar). eapply pd_step; [exact Hni'|rewrite Hpar; exact Hp|].
    apply IH. intros Hdp. apply Hnd. apply (D_child p i); [eapply tf_down; eauto|right; exact Hdp].
Qed.

Theorem removed_treefacts : TreeFacts w'.
Proof.
  constructor.
  - intros p c Hc. apply rem_child_of in Hc as (Hc & Hnp & Hne). destruct (tf_up _ HF _ _ Hc) as (cn & Hcn & Hpar).
    assert (Hcd : ~ D c).
    { apply (kid_notD p c Hc Hnp). intros ->. apply Hne. split; [|reflexivity]. eapply parent_unique; eauto. apply rem_child. }
    destruct (rem_same_parent c cn Hcn Hcd) as (cn' & Hcn' & Hp'). exists cn'. split; [exact Hcn'|congruence].
  - intros p n' Hp. destruct (rem_node_cases p n' Hp) as [(-> & ->)|[(_ & nj & _ & ->)|(_ & _ & Hw)]].
    + cbn [set_content n_content]. pose proof rem_nodup as Hnd.
      apply index_of_split in Hidx as (l1 & y & l2 & El & El1 & _ & _). rewrite El in *. rewrite <- El1, remove_at_split.
      unfold elem_ids in *. rewrite flat_map_app in *. cbn [flat_map] in Hnd.
      destruct y as [c0|d0]; cbn in Hnd; [apply NoDup_remove_1 in Hnd; exact Hnd|exact Hnd].
    + cbn. constructor.
    + eapply tf_nodup; eauto.
  - intros c cn' p Hc Hpar. destruct (rem_node_cases c cn' Hc) as [(-> & ->)|[(_ & nj & _ & ->)|(Hne & Hnd & Hw)]].
    + cbn [set_content n_parent] in Hpar. pose proof (tf_down _ HF _ _ _ Hn Hpar) as Hch.
      apply rem_child_of. split; [exact Hch|]. split.
      * intros Hdp. apply rem_h_notD. apply (D_child p h Hch). right. exact Hdp.
      * intros (_ & E). apply h_ne_sub. exact E.
    + cbn in Hpar. discriminate.
    + pose proof (tf_down _ HF _ _ _ Hw Hpar) as Hch. apply rem_child_of. split; [exact Hch|]. split.
      * intros Hdp. apply Hnd. apply (D_child p c Hch). right. exact Hdp.
      * intros (_ & ->). apply Hnd. apply reach_refl.
  - intros m2 x2' Hx2'. destruct (rem_model m2) as (y & [(_ & E2)|(x2 & E1 & E2 & Er & _)]); [congruence|].
    rewrite E2 in Hx2'. injection Hx2' as <-. destruct (tf_roots _ HF _ _ E1) as (nr & Hnr & Hpar).
    destruct (rem_same_parent _ nr Hnr (root_notD m2 x2 E1)) as (nr' & Hnr' & Hp'). exists nr'. rewrite Er. split; [exact Hnr'|congruence].
  - intros i n' m2 Hi Hpar.
    assert (Hw : exists ni, w_nodes w i = Some ni /\ n_parent ni = PModel m2).
    { destruct (rem_node_cases i n' Hi) as [(-> & ->)|[(_ & nj & _ & ->)|(_ & _ & Hw)]]; [exists n; auto|cbn in Hpar; discriminate|eauto]. }
    destruct Hw as (ni & Hni & Hpi). destruct (tf_pmodel _ HF i ni m2 Hni Hpi) as (x2 & Hx2 & Hr).
    destruct (rem_model m2) as (y & [(E1 & _)|(x2b & E1 & E2 & Er & _)]); [congruence|].
    rewrite Hx2 in E1. injection E1 as <-. exists y. split; [exact E2|congruence].
  - intros i n' Hi. destruct (rem_node_cases i n' Hi) as [(-> & ->)|[(_ & nj & _ & ->)|(Hne & Hnd & Hw)]].
    + destruct (tf_depth _ HF _ _ Hn) as (k & Hk). exists k. apply rem_pdepth; [exact Hk|apply rem_h_notD].
    + exists O. eapply pd_top; [exact Hi|]. cbn. discriminate.
    + destruct (tf_depth _ HF _ _ Hw) as (k & Hk). exists k. apply rem_pdepth; assumption.
  - intros i n' Hi. rewrite Hnext.
    destruct (rem_node_cases i n' Hi) as [(-> & ->)|[(_ & nj & Hnj & ->)|(_ & _ & Hw)]]; eapply tf_alloc; eauto.
Qed.

Lemma nth_error_remove_at {A} (l : list A) p k it :
  nth_error (remove_at l p) k = Some it -> exists k', nth_error l k' = Some it /\ (k <= k')%nat.
Proof.
  revert p k. induction l as [|y l IH]; intros p k H; [destruct p; cbn in H; destruct k; discriminate|].
  destruct p as [|p]; cbn in H.
  - exists (S k). split; [exact H|auto].
  - destruct k as [|k]; cbn in H.
    + injection H as ->. exists O. split; [reflexivity|auto].
    + apply IH in H as (k' & H & Hle). exists (S k'). split; [exact H|]. apply le_n_S. exact Hle.
Qed.

Theorem removed_nolate : NoLate w -> NoLate w'.
Proof.
  intros HL i n' k s sn' Hi Hnm Hk Hs.
  assert (Hsn : exists sn, w_nodes w s = Some sn /\ n_name sn = n_name sn').
  { destruct (rem_node_cases s sn' Hs) as [(-> & ->)|[(_ & nj & Hnj & ->)|(_ & _ & Hw)]]; [exists n; auto|exists nj; auto|eauto]. }
  destruct Hsn as (sn & Hsn & <-).
  destruct (rem_node_cases i n' Hi) as [(-> & ->)|[(_ & nj & _ & ->)|(_ & _ & Hw)]].
  - cbn [set_content n_content n_type] in *. apply nth_error_remove_at in Hk as (k' & Hk' & Hle).
    destruct k' as [|k']; [inversion Hle|]. eapply (HL h n k'); eauto.
  - cbn in Hk. discriminate.
  - eapply (HL i n' k); eauto.
Qed.

End Rem.

(* ---------- the operations *)
Variable LATEST : N.

Lemma remove_front_false w h n sub pos is_sub :
  w_nodes w h = Some n -> remove_front T w h is_sub = false -> is_sub sub = true ->
  named T (n_type n) = true -> pos = O ->
  forall s rest sn, n_content n = CElem sub :: CElem s :: rest -> w_nodes w s = Some sn -> n_name sn <> SHORTN.
Proof.
  intros Hn Hf Hs Hnm _ s rest sn Hc Hsn. unfold remove_front, named_node in Hf. rewrite Hn, Hnm, Hc, Hs in Hf.
  cbn [andb] in Hf. unfold is_short_node in Hf. rewrite Hsn in Hf. apply N.eqb_neq. exact Hf.
Qed.

Lemma removed_known_inv04 w h sub w' is_sub :
  TreeFacts w -> Inv04 w -> remove_front T w h is_sub = false -> is_sub sub = true ->
  removed w h sub w' -> Inv04 w'.
Proof.
  intros HF HI Hf Hs (n & pos & m & x & pp & K & R & Hn & Hidx & Hr & Hpp & Hx & Hsh & Hh' & Hout & Hin & Hm & HK & HR & Hnx).
  eapply (removed_inv04 w w' h sub n pos m x pp K R); eauto.
  all: first [eapply remove_front_false; eauto | split; [intros p j HinR; apply HR in HinR; tauto|intros p j Hd Ht; apply HR; auto]].
Qed.

Lemma removed_known_inv05 w h sub w' is_sub :
  TreeFacts w -> Inv04 w -> Inv05 T w -> remove_front T w h is_sub = false -> is_sub sub = true ->
  removed w h sub w' -> Inv05 T w'.
Proof.
  intros HF HI HI5 Hf Hs (n & pos & m & x & pp & K & R & Hn & Hidx & Hr & Hpp & Hx & Hsh & Hh' & Hout & Hin & Hm & HK & HR & Hnx).
  eapply removed_inv05 with (h := h) (sub := sub) (n := n) (pos := pos) (m := m) (x := x) (R := R); eauto.
  all: first [eapply remove_front_false; eauto | split; [intros p j HinR; apply HR in HinR; tauto|intros p j Hd Ht; apply HR; auto]].
Qed.

Theorem C04_remove h sub w r w' :
  TreeFacts w -> Inv04 w -> Known04 T LATEST w (OpRemove h sub) = false ->
  e_remove_sub_element T h sub w = Val (r, w') -> Inv04 w'.
Proof.
  intros HF HI HK H. destruct (e_remove_shape h sub w r w' HF HI H) as [->|Hrm]; [exact HI|].
  eapply removed_known_inv04; eauto. apply N.eqb_refl.
Qed.

Lemma first_named_name name l w r w' :
  first_named name l w = Val (r, w') -> w' = w /\ forall c, r = OK (Some c) -> In (CElem c) l /\ nm_of w c = name.
Proof.
  revert r w'. induction l as [|[c|d] l IH]; intros r w' H; cbn [first_named] in H.
  - winv H. split; [reflexivity|]. intros c [=].
  - wnode H cn Hcn. destruct (n_name cn =? name) eqn:E.
    + winv H. split; [reflexivity|]. intros c0 [= <-]. split; [left; reflexivity|]. unfold nm_of. rewrite Hcn. apply N.eqb_eq. exact E.
    + apply IH in H as (-> & H). split; [reflexivity|]. intros c0 Hc0. destruct (H c0 Hc0). split; [right; assumption|assumption].
  - apply IH in H as (-> & H). split; [reflexivity|]. intros c0 Hc0. destruct (H c0 Hc0). split; [right; assumption|assumption].
Qed.

Theorem C04_remove_kind h name w r w' :
  TreeFacts w -> Inv04 w -> Known04 T LATEST w (OpRemoveKind h name) = false ->
  e_remove_sub_element_kind T h name w = Val (r, w') -> Inv04 w'.
Proof.
  intros HF HI HK H. unfold e_remove_sub_element_kind in H.
  wbind_ro H s Es; [|exact HI]. destruct s as [sub|]; [|winv H; exact HI].
  unfold get_sub_element in Es. wnode Es n Hn. apply first_named_name in Es as (_ & Hs). destruct (Hs sub eq_refl) as (_ & Hnm).
  destruct (e_remove_shape h sub w r w' HF HI H) as [->|Hrm]; [exact HI|].
  eapply (removed_known_inv04 w h sub w' (fun c => nm_of w c =? name)); eauto.
  apply N.eqb_eq. exact Hnm.
Qed.

Theorem C05_remove h sub w r w' :
  TreeFacts w -> Inv04 w -> Inv05 T w -> Known04 T LATEST w (OpRemove h sub) = false ->
  e_remove_sub_element T h sub w = Val (r, w') -> Inv05 T w'.
Proof.
  intros HF HI HI5 HK H. destruct (e_remove_shape h sub w r w' HF HI H) as [->|Hrm]; [exact HI5|].
  eapply removed_known_inv05; eauto. apply N.eqb_refl.
Qed.

Theorem C05_remove_kind h name w r w' :
  TreeFacts w -> Inv04 w -> Inv05 T w -> Known04 T LATEST w (OpRemoveKind h name) = false ->
  e_remove_sub_element_kind T h name w = Val (r, w') -> Inv05 T w'.
Proof.
  intros HF HI HI5 HK H. unfold e_remove_sub_element_kind in H.
  wbind_ro H s Es; [|exact HI5]. destruct s as [sub|]; [|winv H; exact HI5].
  unfold get_sub_element in Es. wnode Es n Hn. apply first_named_name in Es as (_ & Hs). destruct (Hs sub eq_refl) as (_ & Hnm).
  destruct (e_remove_shape h sub w r w' HF HI H) as [->|Hrm]; [exact HI5|].
  eapply (removed_known_inv05 w h sub w' (fun c => nm_of w c =? name)); eauto.
  apply N.eqb_eq. exact Hnm.
Qed.

End RemoveOp.
