(* Tree/LoadRefineIndex.v — C09: the stages of load_parsed that look at the path index cannot stop a load of a view of a
   master whose paths are consistent: the positions the parser records denote the installed elements ([ItOK]), the overlap
   check finds nothing ([overlap_false]), the index fills return; install is total.  With LoadRefineTop.v this makes the
   union theorem unconditional ([heap_union_total]). *)
From Coq Require Import Permutation.
From AV Require Import Base.Bytes Base.Outcome Hash.HashModel Tree.Heap Tree.Ops Tree.Script Tree.Load Tree.MergeSpec
  Tree.MergePure Tree.LoadProofsBase Tree.LoadProofs Tree.LoadEffects Tree.LoadRefineBase Tree.LoadRefinePure Tree.LoadRefineHeap
  Tree.LoadRefineMain Tree.LoadRefineTop Tree.LoadResidue.
From AV Require Xml.Lexer Xml.Parser.
Open Scope string_scope.
Open Scope list_scope.
Open Scope N_scope.

(* ------------------------------------------------------------------ positions *)
(* the sub-tree of a parsed tree at a position (child indices counting every content item) *)
Fixpoint esub (e : Parser.etree) (pos : list nat) {struct pos} : option Parser.etree :=
  match pos with
  | [] => Some e
  | k :: r => match nth_error (Parser.e_content e) k with Some (inl c) => esub c r | _ => None end
  end.

(* the installed tree has the shape of the parsed tree, and the node of every element carries its name; all its node ids
   are in [lo, w_next) *)
Fixpoint ItOK (lo : N) (w : world) (t : itree) (e : Parser.etree) {struct e} : Prop :=
  match e with
  | Parser.ENode name ty attrs content comment =>
    (exists n, w_nodes w (it_id t) = Some n /\ n_name n = name) /\ lo <= it_id t < w_next w /\
    match t with
    | INode _ kids =>
      (fix all (ks : list (option itree)) (l : list (Parser.etree + Parser.cdata)) {struct l} : Prop :=
         match l, ks with
         | [], [] => True
         | inl c :: r, Some tc :: kr => ItOK lo w tc c /\ all kr r
         | inr _ :: r, None :: kr => all kr r
         | _, _ => False
         end) kids content
    end
  end.
Fixpoint ItOKs (lo : N) (w : world) (ks : list (option itree)) (l : list (Parser.etree + Parser.cdata)) {struct l} : Prop :=
  match l, ks with
  | [], [] => True
  | inl c :: r, Some tc :: kr => ItOK lo w tc c /\ ItOKs lo w kr r
  | inr _ :: r, None :: kr => ItOKs lo w kr r
  | _, _ => False
  end.
Lemma ItOK_unfold lo w i kids name ty attrs content comment :
  ItOK lo w (INode i kids) (Parser.ENode name ty attrs content comment) <->
  ((exists n, w_nodes w i = Some n /\ n_name n = name) /\ lo <= i < w_next w /\ ItOKs lo w kids content).
Proof.
  cbn [ItOK it_id].
  assert (E : forall l ks,
             (fix all (ks : list (option itree)) (l : list (Parser.etree + Parser.cdata)) {struct l} : Prop :=
                match l, ks with
                | [], [] => True
                | inl c :: r, Some tc :: kr => ItOK lo w tc c /\ all kr r
                | inr _ :: r, None :: kr => all kr r
                | _, _ => False
                end) ks l <-> ItOKs lo w ks l).
  { induction l as [|[c|d] r IH]; intros [|[tc|] kr]; cbn [ItOKs]; try tauto; rewrite IH; tauto. }
  rewrite E. tauto.
Qed.

Lemma ItOK_at lo w : forall pos t e c,
  ItOK lo w t e -> esub e pos = Some c ->
  exists i n, it_at t pos = Some i /\ w_nodes w i = Some n /\ n_name n = Parser.e_name c /\ i < w_next w.
Proof.
  induction pos as [|k pos IH]; intros [i kids] [name ty attrs content comment] c HI Hs.
  - cbn [esub] in Hs. injection Hs as <-. apply ItOK_unfold in HI as ((n & Hn & En) & Hb & _).
    exists i, n. cbn [it_at it_id Parser.e_name]. repeat split; auto. lia.
  - cbn [esub Parser.e_content] in Hs. apply ItOK_unfold in HI as (_ & _ & HK). cbn [it_at].
    revert kids k HK Hs. induction content as [|[c0|d] r IHr]; intros [|[tc|] kr] [|k] HK Hs; cbn [ItOKs nth_error] in *;
      try discriminate; try contradiction.
    + destruct HK as [H1 _]. eapply IH; eauto.
    + destruct HK as [_ H2]. eapply IHr; eauto.
    + eapply IHr; eauto.
Qed.

(* frame: ItOK only looks at the nodes in [lo, w_next) *)
Lemma ItOK_mono lo lo' w w' : forall e t,
  (forall i, lo <= i < w_next w -> w_nodes w' i = w_nodes w i) -> w_next w <= w_next w' -> lo' <= lo ->
  ItOK lo w t e -> ItOK lo' w' t e.
Proof.
  fix IH 1. intros [name ty attrs content comment] [i kids] Hf Hn Hl HI.
  apply ItOK_unfold in HI as ((n & Hn0 & En) & Hb & HK). apply ItOK_unfold.
  split; [exists n; rewrite Hf by exact Hb; auto|]. split; [lia|].
  revert kids HK. induction content as [|[c|d] r IHr]; intros [|[tc|] kr] HK; cbn [ItOKs] in *; auto.
  destruct HK as [H1 H2]. split; [apply IH; auto|apply IHr; exact H2].
Qed.

Lemma install_itok : forall e parent w t w',
  install parent e w = Val (OK t, w') -> ItOK (w_next w) w' t e.
Proof.
  fix IH 1. intros [name ty attrs content comment] parent w t w' H.
  cbn [install] in H.
  apply wbind_inv in H as [(i & w1 & H1 & H2) | (e' & H1 & [=])].
  apply alloc_inv in H1 as ([= ->] & Ew1).
  apply wbind_inv in H2 as [([items kids] & w2 & H3 & H4) | (e' & H3 & [=])].
  assert (G : ItOKs (w_next w1) w2 kids content /\ above (w_next w1) w1 w2).
  { clear H4 Ew1. revert items kids w1 w2 H3.
    induction content as [|[c|d] rest IHr]; intros items kids w1 w2 H3.
    - apply wret_inv in H3 as ([= -> ->] & ->). split; [exact I|apply above_refl].
    - apply wbind_inv in H3 as [(tc & w3 & H5 & H6) | (e' & H5 & [=])].
      pose proof (IH _ _ _ _ _ H5) as HIc.
      pose proof (above_install (w_next w1) _ _ _ _ _ (N.le_refl _) H5) as A3.
      apply wbind_inv in H6 as [([cs ts] & w4 & H7 & H8) | (e' & H7 & [=])].
      apply wret_inv in H8 as ([= -> ->] & ->).
      destruct (IHr _ _ _ _ H7) as (HIr & A4).
      assert (L13 : w_next w1 <= w_next w3) by (destruct A3 as (A31 & _); exact A31).
      cbn [ItOKs]. split.
      + split.
        * destruct A4 as (A41 & A42 & _). apply (ItOK_mono (w_next w1) (w_next w1) w3 w4); auto; [|lia].
          intros i Hi. apply A42. lia.
        * revert HIr. clear -L13. revert ts. induction rest as [|[c0|d0] r IHr0]; intros [|[tc0|] kr]; cbn [ItOKs]; auto.
          intros [H1 H2]. split; [|apply IHr0; exact H2].
          apply (ItOK_mono (w_next w3) (w_next w1) w4 w4); auto; lia.
      + eapply above_trans; [exact A3|]. eapply above_weaken; [|exact A4]. exact L13.
    - apply wbind_inv in H3 as [([cs ts] & w4 & H7 & H8) | (e' & H7 & [=])].
      apply wret_inv in H8 as ([= -> ->] & ->). cbn [ItOKs]. eapply IHr; eauto. }
  destruct G as (HK & (A21 & A22 & _)).
  apply wbind_inv in H4 as [(u & w3 & H5 & H6) | (e' & H5 & [=])].
  apply wret_inv in H6 as ([= ->] & ->).
  apply modify_node_inv in H5 as (n & Hn & _ & ->).
  assert (Hnext1 : w_next w1 = w_next w + 1) by (rewrite Ew1; reflexivity).
  apply ItOK_unfold. cbn [w_nodes w_next]. split; [|split; [lia|]].
  - exists (set_content n items). rewrite upd_eq. split; [reflexivity|].
    rewrite A22 in Hn by lia. rewrite Ew1 in Hn. cbn [w_nodes] in Hn. rewrite upd_eq in Hn. injection Hn as <-. reflexivity.
  - clear -HK A21 Hnext1. revert kids HK. generalize (set_content n items). intros n'.
    induction content as [|[c|d] r IHr]; intros [|[tc|] kr] HK; cbn [ItOKs] in *; auto.
    destruct HK as [H1 H2]. split; [|apply IHr; exact H2].
    apply (ItOK_mono (w_next w1) (w_next w) w2 _); auto; cbn [w_next w_nodes]; [|lia|lia].
    intros i Hi. apply upd_neq. lia.
Qed.

(* ------------------------------------------------------------------ what the parser records, with the element names *)
Section Names.
Variable T : tables.

Fixpoint enames (path : list N) (pos : list nat) (e : Parser.etree) {struct e} : list (list N * list nat * N) :=
  match e with
  | Parser.ENode name ty attrs content comment =>
    let path' := match e_item_name T e with Some nm => path ++ [47] ++ nm | None => path end in
    (match e_item_name T e with Some _ => [(path', rev pos, name)] | None => [] end) ++
    (fix go (k : nat) (l : list (Parser.etree + Parser.cdata)) : list (list N * list nat * N) :=
       match l with
       | [] => []
       | inl c :: r => enames path' (k :: pos) c ++ go (S k) r
       | inr _ :: r => go (S k) r
       end) O content
  end.

Fixpoint enames_go (path' : list N) (pos : list nat) (k : nat) (l : list (Parser.etree + Parser.cdata)) : list (list N * list nat * N) :=
  match l with
  | [] => []
  | inl c :: r => enames path' (k :: pos) c ++ enames_go path' pos (S k) r
  | inr _ :: r => enames_go path' pos (S k) r
  end.
Fixpoint idents_go (path' : list N) (pos : list nat) (k : nat) (l : list (Parser.etree + Parser.cdata)) : list (list N * list nat) :=
  match l with
  | [] => []
  | inl c :: r => idents_of T path' (k :: pos) c ++ idents_go path' pos (S k) r
  | inr _ :: r => idents_go path' pos (S k) r
  end.
Fixpoint refs_go (pos : list nat) (k : nat) (l : list (Parser.etree + Parser.cdata)) : list (list N * list nat) :=
  match l with
  | [] => []
  | inl c :: r => refs_of T (k :: pos) c ++ refs_go pos (S k) r
  | inr _ :: r => refs_go pos (S k) r
  end.

Lemma enames_unfold path pos name ty attrs content comment :
  enames path pos (Parser.ENode name ty attrs content comment) =
  let e := Parser.ENode name ty attrs content comment in
  let path' := match e_item_name T e with Some nm => path ++ [47] ++ nm | None => path end in
  (match e_item_name T e with Some _ => [(path', rev pos, name)] | None => [] end) ++ enames_go path' pos O content.
Proof.
  cbn [enames]. cbv zeta. f_equal.
  generalize (match e_item_name T (Parser.ENode name ty attrs content comment) with Some nm => path ++ [47] ++ nm | None => path end).
  intros p'. generalize O.
  induction content as [|[c|d] r IH]; intros k; cbn [enames_go]; [reflexivity| |apply IH]. rewrite IH. reflexivity.
Qed.
Lemma idents_unfold path pos name ty attrs content comment :
  idents_of T path pos (Parser.ENode name ty attrs content comment) =
  let e := Parser.ENode name ty attrs content comment in
  let path' := match e_item_name T e with Some nm => path ++ [47] ++ nm | None => path end in
  (match e_item_name T e with Some _ => [(path', rev pos)] | None => [] end) ++ idents_go path' pos O content.
Proof.
  cbn [idents_of]. cbv zeta. f_equal.
  generalize (match e_item_name T (Parser.ENode name ty attrs content comment) with Some nm => path ++ [47] ++ nm | None => path end).
  intros p'. generalize O.
  induction content as [|[c|d] r IH]; intros k; cbn [idents_go]; [reflexivity| |apply IH]. rewrite IH. reflexivity.
Qed.
Lemma refs_unfold pos name ty attrs content comment :
  refs_of T pos (Parser.ENode name ty attrs content comment) =
  (match is_ref T ty, content with Val true, [inr (Parser.DString s)] => [(s, rev pos)] | _, _ => [] end) ++ refs_go pos O content.
Proof.
  cbn [refs_of]. f_equal. generalize O.
  induction content as [|[c|d] r IH]; intros k; cbn [refs_go]; [reflexivity| |apply IH]. rewrite IH. reflexivity.
Qed.

Lemma enames_idents : forall e path pos, map fst (enames path pos e) = idents_of T path pos e.
Proof.
  fix IH 1. intros [name ty attrs content comment] path pos. rewrite enames_unfold, idents_unfold. cbv zeta.
  rewrite map_app. f_equal; [destruct (e_item_name T _); reflexivity|].
  generalize O. generalize (match e_item_name T (Parser.ENode name ty attrs content comment) with Some nm => path ++ [47] ++ nm | None => path end).
  intros p'. induction content as [|[c|d] r IHr]; intros k; cbn [enames_go idents_go map]; [reflexivity| |apply IHr].
  rewrite map_app, IH, IHr. reflexivity.
Qed.

(* every recorded position denotes an element of the tree, with the recorded name *)
Lemma enames_esub : forall e path pos0 key p nm,
  In (key, p, nm) (enames path pos0 e) -> exists q c, p = rev pos0 ++ q /\ esub e q = Some c /\ Parser.e_name c = nm.
Proof.
  fix IH 1. intros [name ty attrs content comment] path pos0 key p nm Hin. rewrite enames_unfold in Hin. cbv zeta in Hin.
  apply in_app_or in Hin as [Hin|Hin].
  - destruct (e_item_name T _); [|destruct Hin]. destruct Hin as [[= _ <- <-]|[]].
    exists [], (Parser.ENode name ty attrs content comment). rewrite app_nil_r. auto.
  - revert Hin. generalize (match e_item_name T (Parser.ENode name ty attrs content comment) with Some nm0 => path ++ [47] ++ nm0 | None => path end).
    intros p'.
    assert (G : forall l k pre, content = pre ++ l -> List.length pre = k -> In (key, p, nm) (enames_go p' pos0 k l) ->
                exists q c, p = rev pos0 ++ q /\ esub (Parser.ENode name ty attrs content comment) q = Some c /\ Parser.e_name c = nm).
    { induction l as [|[c|d] r IHr]; intros k pre Ec Hl Hin; cbn [enames_go] in Hin; [destruct Hin| |].
      - apply in_app_or in Hin as [Hin|Hin].
        + destruct (IH c p' (k :: pos0) key p nm Hin) as (q & c' & Ep & Es & En).
          exists (k :: q), c'. split; [rewrite Ep; cbn [rev]; rewrite <- app_assoc; reflexivity|]. split; [|exact En].
          cbn [esub Parser.e_content]. rewrite Ec, <- Hl, nth_error_app2 by lia. rewrite PeanoNat.Nat.sub_diag. exact Es.
        + apply (IHr (S k) (pre ++ [inl c])); [rewrite <- app_assoc; exact Ec|rewrite app_length; cbn; lia|exact Hin].
      - apply (IHr (S k) (pre ++ [inr d])); [rewrite <- app_assoc; exact Ec|rewrite app_length; cbn; lia|exact Hin]. }
    apply (G content O []); reflexivity.
Qed.

Lemma refs_esub : forall e pos0 r p,
  In (r, p) (refs_of T pos0 e) -> exists q c, p = rev pos0 ++ q /\ esub e q = Some c.
Proof.
  fix IH 1. intros [name ty attrs content comment] pos0 r p Hin. rewrite refs_unfold in Hin.
  apply in_app_or in Hin as [Hin|Hin].
  - exists [], (Parser.ENode name ty attrs content comment). rewrite app_nil_r. split; [|reflexivity].
    destruct (is_ref T ty) as [[|]| |]; try destruct Hin. destruct content as [|[c|[| s | |]] [|? ?]]; try destruct Hin.
    + injection H as _ <-. reflexivity.
    + destruct H.
  - assert (G : forall l k pre, content = pre ++ l -> List.length pre = k -> In (r, p) (refs_go pos0 k l) ->
                exists q c, p = rev pos0 ++ q /\ esub (Parser.ENode name ty attrs content comment) q = Some c).
    { induction l as [|[c|d] rr IHr]; intros k pre Ec Hl Hin0; cbn [refs_go] in Hin0; [destruct Hin0| |].
      - apply in_app_or in Hin0 as [Hin0|Hin0].
        + destruct (IH c (k :: pos0) r p Hin0) as (q & c' & Ep & Es).
          exists (k :: q), c'. split; [rewrite Ep; cbn [rev]; rewrite <- app_assoc; reflexivity|].
          cbn [esub Parser.e_content]. rewrite Ec, <- Hl, nth_error_app2 by lia. rewrite PeanoNat.Nat.sub_diag. exact Es.
        + apply (IHr (S k) (pre ++ [inl c])); [rewrite <- app_assoc; exact Ec|rewrite app_length; cbn; lia|exact Hin0].
      - apply (IHr (S k) (pre ++ [inr d])); [rewrite <- app_assoc; exact Ec|rewrite app_length; cbn; lia|exact Hin0]. }
    apply (G content O []); auto.
Qed.

End Names.

(* ------------------------------------------------------------------ the index stages *)
Lemma assoc_get_ins_eq {A} k (a : A) l : assoc_get k (assoc_insert k a l) = Some a.
Proof.
  induction l as [|[k' a'] l IH]; cbn [assoc_insert assoc_get]; [rewrite bytes_eqb_refl; reflexivity|].
  destruct (bytes_eqb k' k) eqn:E; cbn [assoc_get]; rewrite E; [reflexivity|exact IH].
Qed.
Lemma assoc_get_ins_neq {A} k k2 (a : A) l : k2 <> k -> assoc_get k2 (assoc_insert k a l) = assoc_get k2 l.
Proof.
  intros Hne. induction l as [|[k' a'] l IH]; cbn [assoc_insert assoc_get].
  - destruct (bytes_eqb k k2) eqn:E; [apply bytes_eqb_spec in E; congruence|reflexivity].
  - destruct (bytes_eqb k' k) eqn:E; cbn [assoc_get].
    + apply bytes_eqb_spec in E. subst k'. destruct (bytes_eqb k k2) eqn:E2; [apply bytes_eqb_spec in E2; congruence|reflexivity].
    + destruct (bytes_eqb k' k2); [reflexivity|exact IH].
Qed.

(* the entries of the path index of model m name allocated nodes whose (path, element name) is in S *)
Definition IdxNames (S : list (list N * N)) (w : world) (m : N) : Prop :=
  exists x, nth_opt (w_models w) (N.to_nat m) = Some x /\
    forall key e, assoc_get key (m_idents x) = Some e ->
      e < w_next w /\ exists en, w_nodes w e = Some en /\ In (key, n_name en) S.
Definition Functional (S : list (list N * N)) : Prop := forall k n n', In (k, n) S -> In (k, n') S -> n = n'.

(* a recorded entry whose position denotes a node with the recorded name *)
Definition EntryOK (w : world) (t : itree) (x : list N * list nat * N) : Prop :=
  exists i n, it_at t (snd (fst x)) = Some i /\ w_nodes w i = Some n /\ n_name n = snd x /\ i < w_next w.

Lemma overlap_false S w x t : Functional S ->
  (forall key e en, assoc_get key (m_idents x) = Some e -> w_nodes w e = Some en -> In (key, n_name en) S) ->
  forall en seen,
    Forall (EntryOK w t) en -> (forall y, In y en -> In (fst (fst y), snd y) S) ->
    NoDup (map (fun y => fst (fst y)) en) -> (forall y, In y en -> ~ In (fst (fst y)) seen) ->
    overlap_check w x t (map fst en) seen = Val false.
Proof.
  intros HS HI. induction en as [|[[key p] nm] en IH]; intros seen HE HinS Hnd Hseen; cbn [map overlap_check fst]; [reflexivity|].
  inversion HE as [|? ? (i & n & Hat & Hn & Enm & _) HE']; subst. cbn [fst snd] in *. subst nm. rewrite Hat, Hn.
  assert (Hd : match ident_live w x key with
               | Some existing => match w_nodes w existing with Some en0 => negb (n_name en0 =? n_name n) | None => false end
               | None => false end = false).
  { unfold ident_live. destruct (assoc_get key (m_idents x)) as [ex|] eqn:Ea; [|reflexivity].
    destruct (node_dead w ex); [reflexivity|]. destruct (w_nodes w ex) as [en0|] eqn:Ee; [|reflexivity].
    pose proof (HI key ex en0 Ea Ee) as H1. pose proof (HinS (key, p, n_name n) (or_introl eq_refl)) as H2. cbn [fst snd] in H2.
    rewrite (HS key _ _ H1 H2), N.eqb_refl. reflexivity. }
  rewrite Hd. cbn [orb].
  assert (Hs : existsb (bytes_eqb key) seen = false).
  { destruct (existsb (bytes_eqb key) seen) eqn:E; [|reflexivity]. apply existsb_exists in E as (y & Hy & Ey).
    apply bytes_eqb_spec in Ey. subst y. exfalso. apply (Hseen (key, p, n_name n) (or_introl eq_refl)). exact Hy. }
  rewrite Hs. inversion Hnd as [|? ? Hnot Hnd']; subst.
  apply IH; auto.
  - intros y Hy. apply HinS. right. exact Hy.
  - intros y Hy [E|Hin]; [|apply (Hseen y (or_intror Hy)); exact Hin].
    apply Hnot. rewrite E. apply (in_map (fun y => fst (fst y))). exact Hy.
Qed.

Lemma fill_identifiables_ok S m t : forall en w,
  Forall (EntryOK w t) en -> (forall y, In y en -> In (fst (fst y), snd y) S) -> IdxNames S w m ->
  exists w', fill_identifiables m t (map fst en) w = Val (OK tt, w') /\ IdxNames S w' m /\ MOnly m w w'.
Proof.
  induction en as [|[[key p] nm] en IH]; intros w HE HinS HI; cbn [map fill_identifiables fst].
  - exists w. split; [reflexivity|]. split; [exact HI|apply MOnly_refl].
  - inversion HE as [|? ? (i & n & Hat & Hn & Enm & Hb) HE']; subst. cbn [fst snd] in *. subst nm. rewrite Hat.
    destruct HI as (x & Hx & HIx).
    unfold wbind at 1. cbn [wget]. unfold wbind at 1. unfold get_model at 1. rewrite Hx.
    destruct (ident_live w x key).
    + apply IH; auto; [intros y Hy; apply HinS; right; exact Hy|exists x; auto].
    + unfold wbind at 1. unfold add_identifiable. rewrite (modify_model_fwd m _ w x Hx).
      set (x' := set_idents x (assoc_insert key i (m_idents x))).
      set (w1 := mkWorld (w_nodes w) (w_next w) (w_files w) (list_set (w_models w) (N.to_nat m) x')).
      assert (Hx1 : nth_opt (w_models w1) (N.to_nat m) = Some x') by (eapply list_set_nth_eq; exact Hx).
      destruct (IH w1) as (w' & E & HI' & M').
      * eapply Forall_impl; [|exact HE']. intros y (i0 & n0 & H1 & H2 & H3 & H4). exists i0, n0. auto.
      * intros y Hy. apply HinS. right. exact Hy.
      * exists x'. split; [exact Hx1|]. intros key' e Hg. unfold x' in Hg. cbn [m_idents set_idents] in Hg.
        destruct (list_eq_dec N.eq_dec key' key) as [->|Hne].
        -- rewrite assoc_get_ins_eq in Hg. injection Hg as <-. split; [exact Hb|]. exists n. split; [exact Hn|].
           apply (HinS (key, p, n_name n) (or_introl eq_refl)).
        -- rewrite assoc_get_ins_neq in Hg by exact Hne. apply (HIx key' e Hg).
      * exists w'. split; [exact E|]. split; [exact HI'|]. eapply MOnly_trans; [|exact M'].
        repeat split; auto. intros y Hy. rewrite Hx in Hy. injection Hy as <-. exists x'. split; [exact Hx1|]. split; reflexivity.
Qed.

Lemma fill_references_ok S m t : forall l w,
  (forall y, In y l -> it_at t (snd y) <> None) -> IdxNames S w m ->
  exists w', fill_references m t l w = Val (OK tt, w') /\ IdxNames S w' m /\ MOnly m w w'.
Proof.
  induction l as [|[r p] l IH]; intros w Hat HI; cbn [fill_references].
  - exists w. split; [reflexivity|]. split; [exact HI|apply MOnly_refl].
  - destruct (it_at t p) as [e|] eqn:Ea; [|exfalso; apply (Hat (r, p) (or_introl eq_refl)); exact Ea].
    destruct HI as (x & Hx & HIx).
    unfold wbind at 1. unfold add_reference_origin. rewrite (modify_model_fwd m _ w x Hx).
    set (x' := set_origins x _).
    set (w1 := mkWorld (w_nodes w) (w_next w) (w_files w) (list_set (w_models w) (N.to_nat m) x')).
    assert (Hx1 : nth_opt (w_models w1) (N.to_nat m) = Some x') by (eapply list_set_nth_eq; exact Hx).
    destruct (IH w1) as (w' & E & HI' & M').
    + intros y Hy. apply Hat. right. exact Hy.
    + exists x'. split; [exact Hx1|]. intros key e0 Hg. apply (HIx key e0 Hg).
    + exists w'. split; [exact E|]. split; [exact HI'|]. eapply MOnly_trans; [|exact M'].
      repeat split; auto. intros y Hy. rewrite Hx in Hy. injection Hy as <-. exists x'. split; [exact Hx1|]. split; reflexivity.
Qed.

Lemma install_total : forall e parent w, exists t w', install parent e w = Val (OK t, w').
Proof.
  fix IH 1. intros [name ty attrs content comment] parent w. cbn [install].
  unfold wbind at 1. unfold alloc at 1.
  set (w1 := mkWorld _ _ _ _). set (i := w_next w).
  assert (G : forall l w1, exists items kids w2,
             (fix go (l : list (Parser.etree + Parser.cdata)) : W (list citem * list (option itree)) :=
                match l with
                | [] => wret ([], [])
                | inl c :: r => (do t <- install (PElem i) c; do '(cs, ts) <- go r; wret (CElem (it_id t) :: cs, Some t :: ts))%W
                | inr d :: r => (do '(cs, ts) <- go r; wret (CData (to_hc d) :: cs, None :: ts))%W
                end) l w1 = Val (OK (items, kids), w2) /\ above (w_next w1) w1 w2).
  { induction l as [|[c|d] r IHr]; intros wa.
    - exists [], [], wa. split; [reflexivity|apply above_refl].
    - destruct (IH c (PElem i) wa) as (tc & wb & Ec). destruct (IHr wb) as (cs & ts & wc & Er & Ar).
      pose proof (above_install (w_next wa) _ _ _ _ _ (N.le_refl _) Ec) as Ac.
      exists (CElem (it_id tc) :: cs), (Some tc :: ts), wc. split.
      + unfold wbind at 1. rewrite Ec. unfold wbind at 1. rewrite Er. reflexivity.
      + eapply above_trans; [exact Ac|]. eapply above_weaken; [|exact Ar]. destruct Ac as (A1 & _). exact A1.
    - destruct (IHr wa) as (cs & ts & wc & Er & Ar).
      exists (CData (to_hc d) :: cs), (None :: ts), wc. split; [|exact Ar]. unfold wbind at 1. rewrite Er. reflexivity. }
  destruct (G content w1) as (items & kids & w2 & E2 & (A1 & A2 & _)).
  unfold wbind at 1. rewrite E2.
  assert (Hn : exists n, w_nodes w2 i = Some n).
  { rewrite A2 by (unfold w1, i; cbn; lia). unfold w1, i. cbn [w_nodes]. rewrite upd_eq. eauto. }
  destruct Hn as (n & Hn). unfold wbind at 1. rewrite (modify_node_wupd i _ w2 n Hn). eexists _, _. reflexivity.
Qed.

(* ------------------------------------------------------------------ names are kept by the stages *)
Definition NamesKept (w w' : world) : Prop :=
  w_next w' = w_next w /\ forall i n, w_nodes w i = Some n -> exists n', w_nodes w' i = Some n' /\ n_name n' = n_name n.
Lemma NamesKept_eff nf w w' : WorldEff nf w w' -> NamesKept w w'.
Proof.
  intros (E1 & _ & _ & E4). split; [exact E1|]. intros i n Hn. specialize (E4 i). rewrite Hn in E4.
  destruct (w_nodes w' i) as [n'|]; [|contradiction]. exists n'. split; [reflexivity|apply E4].
Qed.
Lemma EntryOK_kept w w' t y : NamesKept w w' -> EntryOK w t y -> EntryOK w' t y.
Proof.
  intros (K1 & K2) (i & n & H1 & H2 & H3 & H4). destruct (K2 i n H2) as (n' & Hn' & En').
  exists i, n'. repeat split; auto; [congruence|lia].
Qed.
Lemma IdxNames_kept S w w' m x x' :
  NamesKept w w' -> nth_opt (w_models w) (N.to_nat m) = Some x -> nth_opt (w_models w') (N.to_nat m) = Some x' ->
  m_idents x' = m_idents x -> IdxNames S w m -> IdxNames S w' m.
Proof.
  intros (K1 & K2) Hx Hx' Ei (x0 & Hx0 & HI). rewrite Hx in Hx0. injection Hx0 as <-.
  exists x'. split; [exact Hx'|]. intros key e Hg. rewrite Ei in Hg. destruct (HI key e Hg) as (Hb & en & Ee & Hin).
  split; [lia|]. destruct (K2 e en Ee) as (n' & Hn' & En'). exists n'. split; [exact Hn'|]. rewrite En'. exact Hin.
Qed.

(* ------------------------------------------------------------------ load_parsed, forwards *)
Section Total.
Variable T : tables.
Variables LATEST defref : N.

Lemma load_parsed_fwd m filename root st w t w1 x :
  install PNone root w = Val (OK t, w1) -> nth_opt (w_models w) (N.to_nat m) = Some x ->
  overlap_check w1 x t (rev (Parser.p_idents st)) [] = Val false ->
  load_parsed T LATEST defref m filename root st w =
  load_tail m (N.of_nat (List.length (w_files w))) (w_next w) t st
            (stage_of T LATEST defref m x (it_id t) (N.of_nat (List.length (w_files w))))
            (mkWorld (w_nodes w1) (w_next w1)
                     (w_files w1 ++ [mkFile m filename (Parser.p_version st) (Parser.p_standalone st)]) (w_models w1)).
Proof.
  intros H1 Hx Hov.
  pose proof (above_install (w_next w) _ _ _ _ _ (N.le_refl _) H1) as (_ & _ & _ & A4).
  unfold load_parsed. unfold wbind at 1. cbn [wget]. unfold wbind at 1. rewrite H1.
  unfold wbind at 1. cbn [wget]. unfold wbind at 1. unfold get_model at 1. rewrite A4, Hx.
  rewrite wbind_wl, Hov. cbv iota. unfold wbind at 1. cbn [wput]. unfold wbind at 1. unfold get_model at 1.
  cbn [w_models]. rewrite Hx. reflexivity.
Qed.

Lemma kill_total base keep w : exists w', kill_unreachable base keep w = Val (OK tt, w').
Proof. unfold kill_unreachable. eexists. reflexivity. Qed.

(* the part of a load after the stage returns, and the index invariant holds again *)
Lemma load_tail_total S m fid base t st stage w wS taS files en :
  stage w = Val (OK tt, wS) ->
  ModelTree wS m taS files -> IdxNames S wS m ->
  rev (Parser.p_idents st) = map fst en -> Forall (EntryOK wS t) en -> (forall y, In y en -> In (fst (fst y), snd y) S) ->
  (forall y, In y (rev (Parser.p_refs st)) -> it_at t (snd y) <> None) ->
  exists w', load_tail m fid base t st stage w = Val (OK fid, w') /\ IdxNames S w' m.
Proof.
  intros Hstage ((x & Hx & Hroot & Hfiles) & HA & Hnd & Hb) HI Hen HE HinS Hrefs.
  unfold load_tail. unfold wbind at 1. unfold wcatch. unfold wbind at 1. rewrite Hstage.
  rewrite Hen. destruct (fill_identifiables_ok S m t en wS HE HinS HI) as (wa & Ea & Ia & Ma).
  unfold wbind at 1. rewrite Ea.
  destruct (fill_references_ok S m t (rev (Parser.p_refs st)) wa Hrefs Ia) as (wb & Eb & Ib & Mb).
  unfold wbind at 1. rewrite Eb.
  destruct Ib as (xb & Hxb & HIb).
  rewrite (modify_model_fwd m _ wb xb Hxb).
  set (x4 := set_mfiles xb (m_files xb ++ [fid])).
  set (w4 := mkWorld (w_nodes wb) (w_next wb) (w_files wb) (list_set (w_models wb) (N.to_nat m) x4)).
  assert (Hx4 : nth_opt (w_models w4) (N.to_nat m) = Some x4) by (eapply list_set_nth_eq; exact Hxb).
  pose proof (MOnly_trans _ _ _ _ Ma Mb) as (B1 & B2 & B3 & B4).
  destruct (B4 x Hx) as (xb' & Hxb' & Er & Ef). rewrite Hxb in Hxb'. injection Hxb' as <-.
  unfold wbind at 1. unfold get_model at 1. rewrite Hx4. unfold wbind at 1. cbn [wget].
  assert (HA4 : AbsA w4 taS) by (apply (AbsA_frame' taS wS w4); [intros i _; cbn [w_nodes w4]; rewrite B1; reflexivity|exact HA]).
  assert (Hb4 : forall i, In i (aids taS) -> i < w_next w4) by (intros i Hi; cbn [w_next w4]; rewrite B2; apply Hb; exact Hi).
  pose proof (adepth_fuel taS w4 Hnd Hb4) as Hfuel.
  assert (Er4 : m_root x4 = a_id taS) by (unfold x4; cbn; congruence). rewrite Er4.
  unfold wbind at 1. rewrite (dfs_abs (fuel_of w4) taS w4) by (auto; lia).
  destruct (kill_total base (aids taS) w4) as (w5 & E5). unfold wbind at 1. rewrite E5.
  exists w5. split; [reflexivity|].
  apply kill_unreachable_eff in E5 as (_ & (K1 & K2 & K3 & _ & K5)).
  exists x4. split; [rewrite K3; exact Hx4|]. intros key e Hg. unfold x4 in Hg. cbn [m_idents set_mfiles] in Hg.
  destruct (HIb key e Hg) as (Hbe & en0 & He0 & Hin0). split; [rewrite K1; exact Hbe|].
  destruct (K5 e) as [E|(n & Hn & Hk)].
  - exists en0. split; [rewrite E; exact He0|exact Hin0].
  - cbn [w_nodes w4] in Hn. rewrite He0 in Hn. injection Hn as <-. exists (kill en0). split; [exact Hk|exact Hin0].
Qed.

(* the parser state records the named elements and the references of the tree (MergeSpec.pstate_of does) *)
Definition StOf (st : Parser.pstate) (root : Parser.etree) : Prop :=
  Parser.p_idents st = rev (idents_of T [] [] root) /\ Parser.p_refs st = rev (refs_of T [] root).
Definition NamesIn (S : list (list N * N)) (root : Parser.etree) : Prop :=
  forall y, In y (enames T [] [] root) -> In (fst (fst y), snd y) S.
Definition KeysNoDup (root : Parser.etree) : Prop := NoDup (map (fun y => fst (fst y)) (enames T [] [] root)).

(* install, overlap check, registration of the file: the load continues with load_tail *)
Lemma load_parsed_to_tail S m filename root st w x :
  nth_opt (w_models w) (N.to_nat m) = Some x -> IdxNames S w m -> Functional S ->
  StOf st root -> NamesIn S root -> KeysNoDup root ->
  exists t w1 tb,
    install PNone root w = Val (OK t, w1) /\ above (w_next w) w w1 /\
    AbsA w1 tb /\ erase tb = htree_of_etree root /\ a_id tb = w_next w /\ it_id t = w_next w /\
    (forall i, In i (aids tb) -> w_next w <= i < w_next w1) /\ NoDup (aids tb) /\ a_local tb = [] /\
    let fid := N.of_nat (List.length (w_files w)) in
    let w1' := mkWorld (w_nodes w1) (w_next w1)
                       (w_files w1 ++ [mkFile m filename (Parser.p_version st) (Parser.p_standalone st)]) (w_models w1) in
    load_parsed T LATEST defref m filename root st w =
      load_tail m fid (w_next w) t st (stage_of T LATEST defref m x (it_id t) fid) w1' /\
    IdxNames S w1' m /\ Forall (EntryOK w1' t) (enames T [] [] root) /\
    rev (Parser.p_idents st) = map fst (enames T [] [] root) /\
    (forall y, In y (rev (Parser.p_refs st)) -> it_at t (snd y) <> None).
Proof.
  intros Hx HI HS (Hst1 & Hst2) HN HK.
  destruct (install_total root PNone w) as (t & w1 & H1).
  destruct (install_abs _ _ _ _ _ H1) as (tb & HB & Eb & Eidb & Eitb & Hrb & Hndb & Hlocb).
  pose proof (install_itok _ _ _ _ _ H1) as HIt.
  pose proof (above_install (w_next w) _ _ _ _ _ (N.le_refl _) H1) as A1. pose proof A1 as (A11 & A12 & A13 & A14).
  exists t, w1, tb. split; [exact H1|]. split; [exact A1|]. split; [exact HB|]. split; [exact Eb|]. split; [exact Eidb|].
  split; [exact Eitb|]. split; [exact Hrb|]. split; [exact Hndb|]. split; [exact Hlocb|]. cbv zeta.
  assert (HI1 : IdxNames S w1 m).
  { destruct HI as (x0 & Hx0 & HI0). exists x0. split; [rewrite A14; exact Hx0|]. intros key e Hg.
    destruct (HI0 key e Hg) as (Hb & en & He & Hin). split; [lia|]. exists en. split; [rewrite A12 by exact Hb; exact He|exact Hin]. }
  assert (HE1 : Forall (EntryOK w1 t) (enames T [] [] root)).
  { apply Forall_forall. intros [[key p] nm] Hy. destruct (enames_esub T root [] [] key p nm Hy) as (q & c & Ep & Es & En).
    cbn [rev app] in Ep. subst q. destruct (ItOK_at _ w1 p t root c HIt Es) as (i & n & Hat & Hn & Enm & Hb).
    exists i, n. cbn [fst snd]. repeat split; auto. congruence. }
  assert (Hid : rev (Parser.p_idents st) = map fst (enames T [] [] root)).
  { rewrite Hst1, rev_involutive, enames_idents. reflexivity. }
  assert (Hov : overlap_check w1 x t (rev (Parser.p_idents st)) [] = Val false).
  { rewrite Hid. apply (overlap_false S w1 x t HS); auto.
    destruct HI1 as (x1 & Hx1 & HI1'). rewrite A14, Hx in Hx1. injection Hx1 as <-.
    intros key e en Hg He. destruct (HI1' key e Hg) as (_ & en' & He' & Hin). rewrite He in He'. injection He' as <-. exact Hin. }
  split; [apply (load_parsed_fwd m filename root st w t w1 x H1 Hx Hov)|].
  split.
  { destruct HI1 as (x1 & Hx1 & HI1'). exists x1. split; [exact Hx1|]. exact HI1'. }
  split.
  { eapply Forall_impl; [|exact HE1]. intros y (i & n & H2 & H3 & H4 & H5). exists i, n. auto. }
  split; [exact Hid|].
  intros [r p] Hy. rewrite Hst2, rev_involutive in Hy. destruct (refs_esub T root [] r p Hy) as (q & c & Ep & Es).
  cbn [rev app] in Ep. subst q. destruct (ItOK_at _ w1 p t root c HIt Es) as (i & n & Hat & _). cbn [snd]. rewrite Hat. discriminate.
Qed.


(* ---- the first file of a model, unconditionally *)
Theorem load_parsed_first_total S m filename root st w x :
  nth_opt (w_models w) (N.to_nat m) = Some x -> m_files x = [] ->
  IdxNames S w m -> Functional S -> StOf st root -> NamesIn S root -> KeysNoDup root ->
  let fid := N.of_nat (List.length (w_files w)) in
  exists w', load_parsed T LATEST defref m filename root st w = Val (OK fid, w') /\ IdxNames S w' m /\
             w_files w' = w_files w ++ [mkFile m filename (Parser.p_version st) (Parser.p_standalone st)] /\
             exists ta, ModelTree w' m ta [fid] /\ erase ta = h_set_local (htree_of_etree root) [fid].
Proof.
  intros Hx Hfx HI HS Hst HN HK fid.
  destruct (load_parsed_to_tail S m filename root st w x Hx HI HS Hst HN HK)
    as (t & w1 & tb & H1 & A1 & HB & Eb & Eidb & Eitb & Hrb & Hndb & Hlocb & Heq & HI1 & HE1 & Hid & Hrefs).
  cbv zeta in Heq, HI1, HE1. fold fid in Heq. set (w1' := mkWorld _ _ _ _) in *.
  destruct A1 as (A11 & A12 & A13 & A14).
  assert (Hx1 : nth_opt (w_models w1') (N.to_nat m) = Some x) by (cbn; rewrite A14; exact Hx).
  assert (HB1 : AbsA w1' tb) by (apply (AbsA_frame' tb w1 w1'); [intros i _; reflexivity|exact HB]).
  destruct (AbsA_node w1' tb HB1) as (pb & Hpb). rewrite Hlocb in Hpb.
  assert (Hstage : exists wS, stage_of T LATEST defref m x (it_id t) fid w1' = Val (OK tt, wS) /\
            w_nodes wS (a_id tb) = Some (mkNode (PModel m) (a_name tb) (a_ty tb) (map citem_of (a_content tb))
                                                (match tb with ANode _ _ _ ats _ _ _ => ats end) [fid]
                                                (match tb with ANode _ _ _ _ _ cm _ => cm end)) /\
            (forall i, i <> a_id tb -> w_nodes wS i = w_nodes w1' i) /\
            w_next wS = w_next w1' /\ w_files wS = w_files w1' /\
            nth_opt (w_models wS) (N.to_nat m) = Some (set_root x (a_id tb))).
  { eexists. split.
    - unfold stage_of. rewrite Hfx. cbn [is_empty]. rewrite Eitb, <- Eidb.
      unfold wbind at 1. rewrite (modify_node_wupd _ _ w1' _ Hpb).
      unfold wbind at 1. erewrite modify_node_wupd by (unfold wupd; cbn [w_nodes]; apply upd_eq).
      rewrite (modify_model_fwd m _ _ x) by exact Hx1. reflexivity.
    - cbn [w_nodes w_next w_files w_models wupd]. split; [rewrite upd_eq; reflexivity|].
      split; [intros i Hi; rewrite !upd_neq by exact Hi; reflexivity|].
      split; [reflexivity|]. split; [reflexivity|]. eapply list_set_nth_eq; exact Hx1. }
  destruct Hstage as (wS & Hstage & HnS & HfrS & HnextS & HfilesS & HmS).
  assert (MT : ModelTree wS m (a_set_local tb [fid]) []).
  { split; [exists (set_root x (a_id tb)); split; [exact HmS|]; split; [rewrite a_id_set_local; reflexivity|exact Hfx]|].
    split.
    { apply (AbsA_root_update w1' wS tb [fid] HB1 Hndb); [exists (PModel m); exact HnS|]. intros i Hi _. apply HfrS. exact Hi. }
    split; [rewrite aids_set_local; exact Hndb|].
    intros i Hi. rewrite aids_set_local in Hi. rewrite HnextS. cbn [w_next w1']. apply Hrb. exact Hi. }
  assert (NK : NamesKept w1' wS).
  { split; [exact HnextS|]. intros i n Hn. destruct (N.eq_dec i (a_id tb)) as [->|Hne].
    - rewrite Hpb in Hn. injection Hn as <-. eexists. split; [exact HnS|reflexivity].
    - exists n. split; [rewrite HfrS by exact Hne; exact Hn|reflexivity]. }
  assert (HIS : IdxNames S wS m) by (apply (IdxNames_kept S w1' wS m x (set_root x (a_id tb)) NK Hx1 HmS eq_refl HI1)).
  assert (HES : Forall (EntryOK wS t) (enames T [] [] root)).
  { eapply Forall_impl; [|exact HE1]. intros y Hy. eapply EntryOK_kept; eauto. }
  destruct (load_tail_total S m fid (w_next w) t st _ w1' wS _ [] (enames T [] [] root) Hstage MT HIS Hid HES HN Hrefs)
    as (w' & Et & HI').
  rewrite <- Heq in Et. exists w'. split; [exact Et|]. split; [exact HI'|].
  destruct (load_parsed_first T LATEST defref m filename root st w x (OK fid) w' Hx Hfx Et) as [E|(_ & Hf & Hta)]; [discriminate E|].
  split; [exact Hf|exact Hta].
Qed.

(* ---- a further file, unconditionally: the load returns OK *)
Theorem load_parsed_merge_total S m filename root st w ta files (P : htree -> Prop) :
  ModelTree w m ta files -> files <> [] ->
  IdxNames S w m -> Functional S -> StOf st root -> NamesIn S root -> KeysNoDup root ->
  let fid := N.of_nat (List.length (w_files w)) in
  let fl := mkFile m filename (Parser.p_version st) (Parser.p_standalone st) in
  let fver := fver_files (w_files w ++ [fl]) in
  (forall fuel, (adepth ta < fuel)%nat ->
     Clean T LATEST defref fver fuel (erase ta) (fold_right set_add [] files) (htree_of_etree root) fid /\
     exists ha', pmerge T LATEST defref fver fuel (erase ta) (fold_right set_add [] files) (htree_of_etree root) fid = Val (OK ha') /\
                 P ha') ->
  exists w', load_parsed T LATEST defref m filename root st w = Val (OK fid, w') /\ IdxNames S w' m /\
             w_files w' = w_files w ++ [fl] /\
             exists ta' ha', ModelTree w' m ta' (files ++ [fid]) /\ erase ta' = h_set_local ha' (set_add fid (h_local ha')) /\ P ha'.
Proof.
  intros MT0 Hne HI HS Hst HN HK fid fl fver Hpure.
  pose proof MT0 as ((x & Hx & Hroot & Hfiles) & HA & Hnd & Hb).
  destruct (load_parsed_to_tail S m filename root st w x Hx HI HS Hst HN HK)
    as (t & w1 & tb & H1 & A1 & HB & Eb & Eidb & Eitb & Hrb & Hndb & Hlocb & Heq & HI1 & HE1 & Hid & Hrefs).
  cbv zeta in Heq, HI1, HE1. fold fid in Heq. fold fl in Heq, HI1, HE1. set (w1' := mkWorld _ _ _ _) in *.
  pose proof A1 as (A11 & A12 & A13 & A14).
  assert (Hx1 : nth_opt (w_models w1') (N.to_nat m) = Some x) by (cbn; rewrite A14; exact Hx).
  assert (HB1 : AbsA w1' tb) by (apply (AbsA_frame' tb w1 w1'); [intros i _; reflexivity|exact HB]).
  assert (HA1 : AbsA w1' ta).
  { apply (AbsA_frame' ta w w1'); [|exact HA]. intros i Hi. cbn [w_nodes w1']. apply A12. apply Hb. exact Hi. }
  assert (Hnd2 : NoDup (aids ta ++ aids tb)).
  { apply LoadRefineSlots.nodup_app_intro_g; auto. intros i Hi Hi2. apply Hb in Hi. apply Hrb in Hi2. lia. }
  assert (Hb1 : forall i, In i (aids ta) -> i < w_next w1') by (intros i Hi; cbn [w_next w1']; apply Hb in Hi; lia).
  pose proof (adepth_fuel ta w1' Hnd Hb1) as Hfuel.
  destruct (Hpure (fuel_of w1') Hfuel) as (HC & ha' & Hp & HP).
  assert (Efv : fver_of w1' = fver) by (unfold fver_of, fver; cbn [w_files w1']; rewrite A13; reflexivity).
  rewrite <- Eb, <- Efv, <- Hfiles in HC, Hp.
  destruct (merge_file_data_refines T LATEST defref m x ta tb fid w1' ha' Hx1 Hroot HA1 HB1 Hnd2 HC Hp)
    as (wS & ta' & EM & HA' & Ee' & Eid' & Hnd' & Hincl' & S').
  assert (Hstage : stage_of T LATEST defref m x (it_id t) fid w1' = Val (OK tt, wS)).
  { unfold stage_of. rewrite Hfiles. destruct files as [|f0 fr]; [congruence|]. cbn [is_empty].
    rewrite Eitb, <- Eidb. unfold wbind at 1. unfold wcatch. rewrite EM. reflexivity. }
  pose proof (merge_file_data_effects T LATEST defref m (a_id tb) fid w1' _ _ EM) as WE.
  pose proof (NamesKept_eff _ _ _ WE) as NK.
  destruct S' as (Sn & Sf & Sm & Snodes).
  assert (MT : ModelTree wS m ta' files).
  { split; [exists x; rewrite Sm; split; [exact Hx1|]; split; [congruence|exact Hfiles]|].
    split; [exact HA'|]. split; [exact Hnd'|].
    intros i Hi. rewrite Sn. cbn [w_next w1']. apply Hincl' in Hi. apply in_app_or in Hi as [Hi|Hi]; [apply Hb in Hi; lia|apply Hrb in Hi; lia]. }
  assert (HmS : nth_opt (w_models wS) (N.to_nat m) = Some x) by (rewrite Sm; exact Hx1).
  assert (HIS : IdxNames S wS m) by (apply (IdxNames_kept S w1' wS m x x NK Hx1 HmS eq_refl HI1)).
  assert (HES : Forall (EntryOK wS t) (enames T [] [] root)).
  { eapply Forall_impl; [|exact HE1]. intros y Hy. eapply EntryOK_kept; eauto. }
  destruct (load_tail_total S m fid (w_next w) t st _ w1' wS _ files (enames T [] [] root) Hstage MT HIS Hid HES HN Hrefs)
    as (w' & Et & HI').
  rewrite <- Heq in Et. exists w'. split; [exact Et|]. split; [exact HI'|].
  destruct (load_parsed_merge T LATEST defref m filename root st w ta files (OK fid) w' P MT0 Hne Hpure Et) as [E|(_ & Hf & Hta)];
    [discriminate E|].
  split; [exact Hf|exact Hta].
Qed.

End Total.

(* ====================================================================== the union, unconditionally *)
From AV Require Import Tree.LoadProofsWalk Tree.MergePureProofsBase Tree.MergePureProofs Tree.MergePureProofsMain
  Tree.MergePureProofsKeys Tree.LoadRefineGood.

Section UnionTotal.
Variable T : tables.
Variables LATEST defref v : N.

(* the (path, element name) pairs the views of the master register *)
Definition view_names (M : mtree) (g : N) : list (list N * N) :=
  match project g M with Some e => map (fun y => (fst (fst y), snd y)) (enames T [] [] e) | None => [] end.
Definition all_names (M : mtree) (gs : list N) : list (list N * N) := flat_map (view_names M) gs.

(* side condition on the master and the files: a path names elements of one kind only, and no view has a path twice *)
Definition PathsOK (M : mtree) (gs : list N) : Prop :=
  Functional (all_names M gs) /\ forall g e, In g gs -> project g M = Some e -> KeysNoDup T e.

Definition item_ok (S : list (list N * N)) (M : mtree) (g : N) (it : item) : Prop :=
  is_view v M g it /\ StOf T (snd it) (snd (fst it)) /\ NamesIn T S (snd (fst it)) /\ KeysNoDup T (snd (fst it)).

Theorem heap_chain_total S M m : Good T defref v M -> Functional S ->
  forall gs items F w ta,
    Forall2 (item_ok S M) gs items ->
    ModelTree w m ta (rev F) -> F <> [] -> Rep T F None M (erase ta) -> IdxNames S w m ->
    NoDup (gs ++ F) -> (forall g, In g (gs ++ F) -> In g (mfiles M)) ->
    gs = n_range (List.length gs) (N.of_nat (List.length (w_files w))) ->
    (forall f, In f F -> fver_files (w_files w) f = Some v) ->
    exists os w',
      load_seq T LATEST defref m items w = Val (os, w') /\ Forall2 (fun g o => o = OK g) gs os /\
      exists ta', ModelTree w' m ta' (rev F ++ gs) /\ Rep T (rev gs ++ F) None M (erase ta') /\ IdxNames S w' m.
Proof.
  intros HG HS. destruct (Good_files T defref v M HG) as (Hs & _).
  induction gs as [|g gs IH]; intros items F w ta Hitems MT HFne HR HI Hnd Hin Hgs Hver.
  - inversion Hitems; subst. exists [], w. cbn [load_seq]. split; [reflexivity|]. split; [constructor|].
    exists ta. rewrite app_nil_r. cbn [rev app]. auto.
  - inversion Hitems as [|? [[fname e] st] ? items' ((He & Hv) & Hst & HN & HK) Hitems']; subst. cbn [fst snd] in He, Hv, Hst, HN, HK.
    cbn [load_seq].
    assert (Hg : In g (mfiles M)) by (apply Hin; left; reflexivity).
    cbn [app] in Hnd. inversion Hnd as [|? ? Hnot Hnd']; subst.
    assert (HgF : ~ In g F) by (intros H; apply Hnot; apply in_or_app; right; exact H).
    cbn [List.length n_range] in Hgs. injection Hgs as Eg Egs.
    pose proof (pview_project (depth M) M (le_n _) g e He) as Eview.
    set (fl := mkFile m fname (Parser.p_version st) (Parser.p_standalone st)) in *.
    set (fver := fver_files (w_files w ++ [fl])).
    assert (Hfv : forall f, In f (g :: F) -> fver f = Some v).
    { intros f [<-|Hf]; unfold fver.
      - rewrite Eg. rewrite fver_files_app_new. unfold fl. cbn [f_version]. rewrite Hv. reflexivity.
      - rewrite fver_files_app_old; [apply Hver; exact Hf|]. eapply fver_files_some. apply Hver. exact Hf. }
    assert (Hset : fold_right set_add [] (rev F) = inF F (mfiles M)).
    { apply files_set_inF; [exact Hs|]. intros f Hf. apply Hin. right. apply in_or_app. right. exact Hf. }
    pose (P := fun ha' : htree => h_local ha' = h_local (erase ta) /\
                 forall inh', Rep T (g :: F) inh' M (h_set_local ha' (norm inh' (inF (g :: F) (mfiles M))))).
    destruct (load_parsed_merge_total T LATEST defref S m fname e st w ta (rev F) P MT) as (w1 & EL & HI1 & Hf1 & ta1 & ha' & MT1 & Ee1 & (Hl & Hr)); auto.
    { intros E. apply HFne. destruct F; [reflexivity|]. cbn [rev] in E. destruct (rev F); discriminate. }
    { intros fuel Hfuel. fold fl. fold fver. rewrite Eview, Hset, <- Eg. split.
      - apply (rep_clean T LATEST defref v fver fuel M HG F g None (erase ta) Hfv HgF Hg HR).
      - destruct (pmerge_rep_gen T LATEST defref v fver fuel M HG F g None (erase ta)) as (a' & Ea' & Hla' & Hra'); auto.
        { right. rewrite hdepth_erase. exact Hfuel. }
        exists a'. split; [exact Ea'|]. split; assumption. }
    rewrite EL.
    destruct (Rep_shape T F None M (erase ta) HR) as (_ & _ & Hloc & _). cbn [norm] in Hloc.
    specialize (Hr None). cbn [norm] in Hr. rewrite (inF_cons_in g F (mfiles M) Hs Hg HgF) in Hr.
    assert (HR1 : Rep T (g :: F) None M (erase ta1)).
    { rewrite Ee1, Hl, Hloc, <- Eg. exact Hr. }
    fold fl in Hf1.
    destruct (IH items' (g :: F) w1 ta1) as (os1 & w2 & EL2 & F2 & ta2 & MT2 & HR2 & HI2); auto.
    + cbn [rev]. rewrite <- Eg in MT1. exact MT1.
    + discriminate.
    + apply NoDup_app_swap_cons. exact Hnd.
    + intros g0 H0. apply Hin. apply in_app_or in H0 as [H0|[<-|H0]]; [right; apply in_or_app; left; exact H0|left; reflexivity|].
      right. apply in_or_app. right. exact H0.
    + rewrite Hf1, app_length. cbn [List.length]. rewrite Egs at 1. f_equal. lia.
    + intros f [<-|Hf]; rewrite Hf1.
      * rewrite Eg, fver_files_app_new. unfold fl. cbn [f_version]. rewrite Hv. reflexivity.
      * rewrite fver_files_app_old; [apply Hver; exact Hf|]. eapply fver_files_some. apply Hver. exact Hf.
    + rewrite EL2. exists (OK (N.of_nat (List.length (w_files w))) :: os1), w2. split; [reflexivity|].
      split; [constructor; [rewrite Eg; reflexivity|exact F2]|].
      exists ta2. cbn [rev] in MT2. rewrite <- app_assoc in MT2. cbn [app] in MT2. split; [exact MT2|].
      split; [|exact HI2]. cbn [rev]. rewrite <- app_assoc. cbn [app]. exact HR2.
Qed.


Lemma names_in_all M gs g e : In g gs -> project g M = Some e -> NamesIn T (all_names M gs) e.
Proof.
  intros Hg He y Hy. unfold all_names. apply in_flat_map. exists g. split; [exact Hg|].
  unfold view_names. rewrite He. apply (in_map (fun y => (fst (fst y), snd y))). exact Hy.
Qed.

(* every load of the sequence returns OK *)
Theorem heap_seq_returns M m x w0 n items :
  Good T defref v M ->
  nth_opt (w_models w0) (N.to_nat m) = Some x -> m_files x = [] -> m_idents x = [] ->
  let gs := n_range (S n) (N.of_nat (List.length (w_files w0))) in
  Forall2 (fun g it => is_view v M g it /\ StOf T (snd it) (snd (fst it))) gs items ->
  (forall g, In g gs -> In g (mfiles M)) -> PathsOK M gs ->
  exists os w, load_seq T LATEST defref m items w0 = Val (os, w) /\ Forall2 (fun g o => o = OK g) gs os.
Proof.
  intros HG Hx Hfx Hix gs Hitems Hin (HS & HKeys).
  set (SN := all_names M gs) in *.
  assert (Haux : forall gs0 its, incl gs0 gs ->
             Forall2 (fun g it => is_view v M g it /\ StOf T (snd it) (snd (fst it))) gs0 its -> Forall2 (item_ok SN M) gs0 its).
  { intros gs0 its Hsub HF. induction HF as [|g it gs1 its1 ((He & Hv) & Hst) HF IH]; [constructor|]. constructor.
    - split; [split; assumption|]. split; [exact Hst|]. split.
      + apply (names_in_all M gs g _); [apply Hsub; left; reflexivity|exact He].
      + apply (HKeys g _); [apply Hsub; left; reflexivity|exact He].
    - apply IH. intros y Hy. apply Hsub. right. exact Hy. }
  pose proof (Haux gs items (incl_refl _) Hitems) as Hitems'. clear Haux.
  unfold gs in *. cbn [n_range] in *.
  set (g0 := N.of_nat (List.length (w_files w0))) in *. set (gr := n_range n (g0 + 1)) in *.
  inversion Hitems' as [|? [[fname e] st] ? items' ((He & Hv) & Hst & HN & HK) Hitems'']; subst. cbn [fst snd] in He, Hv, Hst, HN, HK.
  cbn [load_seq].
  assert (Hg0 : In g0 (mfiles M)) by (apply Hin; left; reflexivity).
  assert (HI0 : IdxNames SN w0 m).
  { exists x. split; [exact Hx|]. intros key e0 Hg. rewrite Hix in Hg. discriminate Hg. }
  destruct (load_parsed_first_total T LATEST defref SN m fname e st w0 x Hx Hfx HI0 HS Hst HN HK)
    as (w1 & EL & HI1 & Hf1 & ta1 & MT1 & Ee1).
  fold g0 in EL, MT1, Ee1. rewrite EL.
  pose proof (pview_project (depth M) M (le_n _) g0 e He) as Eview. rewrite Eview in Ee1.
  assert (HR1 : Rep T [g0] None M (erase ta1)).
  { rewrite Ee1. apply (first_view_rep T defref v M g0 HG Hg0). }
  assert (Hnd : NoDup (gr ++ [g0])).
  { eapply Permutation_NoDup; [apply Permutation_app_comm|]. cbn [app]. apply (n_range_nodup (S n) g0). }
  destruct (heap_chain_total SN M m HG HS gr items' [g0] w1 ta1) as (os1 & w2 & EL2 & F2 & _); auto.
  - discriminate.
  - intros g Hg. apply Hin. apply in_app_or in Hg as [Hg|[<-|[]]]; [right; exact Hg|left; reflexivity].
  - unfold gr at 1. rewrite Hf1, app_length. cbn [List.length]. f_equal.
    + unfold gr. clear. generalize (g0 + 1). induction n as [|k IHk]; intros from; cbn [n_range List.length]; auto.
    + fold g0. lia.
  - intros f [<-|[]]. rewrite Hf1. unfold g0. rewrite fver_files_app_new. cbn [f_version]. exact (f_equal Some Hv).
  - rewrite EL2. exists (OK g0 :: os1), w2. split; [reflexivity|]. constructor; [reflexivity|exact F2].
Qed.

(* C09 on the heap model, class Good, without conditions on the outcome of the loads: the views of a master whose paths
   are consistent are all loaded (every load returns OK with its file id), and the model is the master *)
Theorem heap_union_total M m x w0 n items :
  Good T defref v M ->
  nth_opt (w_models w0) (N.to_nat m) = Some x -> m_files x = [] -> m_idents x = [] ->
  let gs := n_range (S n) (N.of_nat (List.length (w_files w0))) in
  Forall2 (fun g it => is_view v M g it /\ StOf T (snd it) (snd (fst it))) gs items ->
  (forall g, In g gs -> In g (mfiles M)) -> PathsOK M gs ->
  exists os w,
    load_seq T LATEST defref m items w0 = Val (os, w) /\ Forall2 (fun g o => o = OK g) gs os /\
    exists ta, ModelTree w m ta gs /\ abs_model w m = Some (erase ta) /\
               Rep T (rev gs) None M (erase ta) /\
               (covers gs M -> hperm (erase ta) (expected None M)) /\
               (forall f, In f gs -> hperm (hproj f (erase ta)) (pview f M)).
Proof.
  intros HG Hx Hfx Hix gs Hitems Hin HP.
  destruct (heap_seq_returns M m x w0 n items HG Hx Hfx Hix Hitems Hin HP) as (os & w & EL & FO).
  exists os, w. split; [exact EL|]. split; [exact FO|].
  assert (Hitems1 : Forall2 (is_view v M) gs items).
  { clear -Hitems. induction Hitems as [|g it gs1 its (H1 & _) HF IH]; constructor; auto. }
  assert (Hov : Forall (fun o => o <> ER OverlappingDataError) os).
  { clear -FO. induction FO as [|g o gs1 os1 -> HF IH]; constructor; [discriminate|exact IH]. }
  destruct (heap_union_seq T LATEST defref v M m x w0 n items os w HG Hx Hfx Hitems1 Hin EL Hov) as (_ & Hta). exact Hta.
Qed.

End UnionTotal.

(* ====================================================================== AutosarModel::load_buffer, unconditionally *)
Section BufTotal.
Variable T : tables.
Variables tab_el tab_at tab_en : nametab.
Variable check_fn : N -> list N -> res bool.
Variable float_parse : list N -> option N.
Variables LATEST defref v : N.

(* a successful load_parsed registers the file and appends its id to the file list of the model [U] *)
Lemma load_parsed_ok_files m filename root st w x f w' :
  nth_opt (w_models w) (N.to_nat m) = Some x ->
  load_parsed T LATEST defref m filename root st w = Val (OK f, w') ->
  let fid := N.of_nat (List.length (w_files w)) in
  f = fid /\ w_files w' = w_files w ++ [mkFile m filename (Parser.p_version st) (Parser.p_standalone st)] /\
  exists x', nth_opt (w_models w') (N.to_nat m) = Some x' /\ m_files x' = m_files x ++ [fid].
Proof.
  intros Hx H fid.
  destruct (load_parsed_prefix T LATEST defref m filename root st w (OK f) w' x H Hx)
    as [E|(t & w1 & tb & A1 & _ & _ & _ & _ & _ & _ & _ & Ht)]; [discriminate E|].
  fold fid in Ht. set (fl := mkFile m filename (Parser.p_version st) (Parser.p_standalone st)) in *.
  set (w1' := mkWorld _ _ _ _) in Ht. destruct A1 as (_ & _ & A13 & A14).
  assert (Hx1 : nth_opt (w_models w1') (N.to_nat m) = Some x) by (cbn; rewrite A14; exact Hx).
  unfold load_tail in Ht.
  apply wbind_inv in Ht as [(r0 & w4 & H1 & Ht) | (e' & H1 & _)]; [|apply wcatch_inv in H1 as (? & _ & [=])].
  apply wcatch_inv in H1 as (r1 & H1 & [= ->]).
  apply wbind_inv in Ht as [(x3 & w5 & H5 & Ht) | (e' & H5 & _)]; [|apply get_model_inv in H5 as (? & _ & [=] & _)].
  apply get_model_inv in H5 as (x3' & Hx3 & [= <-] & ->).
  apply wbind_inv in Ht as [(w3 & w5 & H6 & Ht) | (e' & H6 & _)]; [|apply wget_inv in H6 as ([=] & _)].
  apply wget_inv in H6 as (_ & ->).
  apply wbind_inv in Ht as [(keep & w5 & H7 & Ht) | (e' & H7 & _)]; [|eapply (errs_dfs_ids (fun _ => False)) in H7; destruct H7].
  apply ro_dfs_ids in H7. subst w5.
  apply wbind_inv in Ht as [(u & w6 & H8 & Ht) | (e' & H8 & _)]; [|unfold kill_unreachable in H8; discriminate].
  apply kill_unreachable_keep in H8 as (_ & K1 & K2 & K3 & _).
  destruct r1 as [u1|e1].
  2:{ apply wbind_inv in Ht as [(u2 & w7 & H9 & Ht) | (e' & H9 & _)]; [apply wfail_inv in Ht as ([=] & _)|unfold drop_file in H9; discriminate]. }
  apply wret_inv in Ht as ([= ->] & ->).
  (* the stage and the fills *)
  apply wbind_inv in H1 as [(us & wS & Hs & H1) | (e' & Hs & [=])].
  assert (GS : w_files wS = w_files w1' /\ exists xs, nth_opt (w_models wS) (N.to_nat m) = Some xs /\ m_files xs = m_files x).
  { unfold stage_of in Hs. destruct (is_empty (m_files x)).
    - apply wbind_inv in Hs as [(u2 & wa & Ha & Hs) | (e' & Ha & [=])].
      apply modify_node_inv in Ha as (na & _ & _ & ->).
      apply wbind_inv in Hs as [(u3 & wb & Hb & Hs) | (e' & Hb & [=])].
      apply modify_node_inv in Hb as (nb & _ & _ & ->).
      apply modify_model_inv in Hs as (xm & Hxm & _ & ->). cbn [w_files w_models] in *.
      split; [reflexivity|]. rewrite Hx1 in Hxm. injection Hxm as <-. eexists. split; [eapply list_set_nth_eq; exact Hx1|reflexivity].
    - apply wbind_inv in Hs as [(mr & wM & Hm1 & Hm2) | (e' & Hm1 & _)]; [|apply wcatch_inv in Hm1 as (? & _ & [=])].
      apply wcatch_inv in Hm1 as (r2 & Hm1 & [= ->]).
      destruct r2 as [u2|e2].
      + apply wret_inv in Hm2 as (_ & ->).
        pose proof (merge_file_data_effects T LATEST defref m _ _ _ _ _ Hm1) as (_ & E2 & E3 & _).
        split; [exact E2|]. exists x. rewrite E3. auto.
      + exfalso. apply wbind_inv in Hm2 as [(x1 & wd & Hd1 & Hd2) | (e' & Hd1 & [=])].
        apply wbind_inv in Hd2 as [(o & we & He1 & He2) | (e' & He1 & [=])]. apply wfail_inv in He2 as ([=] & _). }
  destruct GS as (GS1 & xs & Hxs & Efs).
  apply wbind_inv in H1 as [(u4 & wa & Ha & H1) | (e' & Ha & [=])].
  apply MOnly_fill_identifiables in Ha as (_ & Ma).
  apply wbind_inv in H1 as [(u5 & wb & Hb & H1) | (e' & Hb & [=])].
  apply MOnly_fill_references in Hb as (_ & Mb).
  pose proof (MOnly_trans _ _ _ _ Ma Mb) as (B1 & B2 & B3 & B4).
  destruct (B4 xs Hxs) as (xb & Hxb & _ & Ef).
  apply modify_model_inv in H1 as (xb' & Hxb' & _ & ->). rewrite Hxb in Hxb'. injection Hxb' as <-.
  cbn [w_files w_models] in *.
  split; [reflexivity|]. split; [rewrite K2, B3, GS1; cbn [w_files w1']; rewrite A13; reflexivity|].
  rewrite K3. eexists. split; [eapply list_set_nth_eq; exact Hxb|]. cbn. rewrite Ef, Efs. reflexivity.
Qed.

(* the names of the files of model m *)
Definition NamesInv (w : world) (m : N) (names : list (list N)) : Prop :=
  exists x, nth_opt (w_models w) (N.to_nat m) = Some x /\
    forall f, In f (m_files x) -> exists fl, nth_opt (w_files w) (N.to_nat f) = Some fl /\ In (f_name fl) names.

(* with distinct file names, the loads of the buffers are the loads of the parsed files *)
Lemma load_bufs_of_seq m strict : forall bufs items w os0 w' names,
  Forall2 (parses_to T tab_el tab_at tab_en check_fn float_parse strict) bufs items ->
  load_seq T LATEST defref m items w = Val (os0, w') -> Forall (fun o => exists f, o = OK f) os0 ->
  NamesInv w m names -> NoDup (names ++ map snd bufs) ->
  exists os, load_bufs T tab_el tab_at tab_en check_fn float_parse LATEST defref m strict bufs w = Val (os, w') /\
             Forall2 (lifts) os os0.
Proof.
  induction bufs as [|[buf fname] bufs IH]; intros items w os0 w' names HF HL HO HN Hnd;
    inversion HF as [|? [[fn e] st] ? items' (Hp & Hn) HF']; subst.
  - cbn [load_seq] in HL. injection HL as <- <-. exists []. split; [reflexivity|constructor].
  - cbn [fst snd] in Hp, Hn. subst fn. cbn [load_seq] in HL.
    destruct (load_parsed T LATEST defref m fname e st w) as [[o w1]| |] eqn:EL; try discriminate.
    destruct (load_seq T LATEST defref m items' w1) as [[os1 w2]| |] eqn:EL2; try discriminate.
    injection HL as <- <-. inversion HO as [|? ? (f & ->) HO1]; subst.
    destruct HN as (x & Hx & HNx).
    destruct (load_parsed_ok_files m fname e st w x f w1 Hx EL) as (-> & Hf1 & x1 & Hx1 & Ef1).
    assert (HN1 : NamesInv w1 m (names ++ [fname])).
    { exists x1. split; [exact Hx1|]. intros f0 Hf0. rewrite Ef1 in Hf0. rewrite Hf1. apply in_app_or in Hf0 as [Hf0|[<-|[]]].
      - destruct (HNx f0 Hf0) as (fl0 & Hfl0 & Hin0). exists fl0. split; [|apply in_or_app; left; exact Hin0].
        rewrite nth_opt_nth_error in *. rewrite nth_error_app1; [exact Hfl0|]. apply nth_error_Some. congruence.
      - eexists. split; [rewrite nth_opt_nth_error, Nat2N.id, nth_error_app2 by lia; rewrite PeanoNat.Nat.sub_diag; reflexivity|].
        cbn [f_name]. apply in_or_app. right. left. reflexivity. }
    destruct (IH items' w1 os1 w2 (names ++ [fname]) HF' EL2 HO1 HN1) as (os & E & FL).
    { cbn [map snd] in Hnd. rewrite <- app_assoc. exact Hnd. }
    assert (Hdup : existsb (fun f0 => match nth_opt (w_files w) (N.to_nat f0) with Some fl0 => bytes_eqb (f_name fl0) fname | None => false end)
                          (m_files x) = false).
    { destruct (existsb _ (m_files x)) eqn:Ee; [|reflexivity]. exfalso.
      apply existsb_exists in Ee as (f0 & Hf0 & Eb). destruct (HNx f0 Hf0) as (fl0 & Hfl0 & Hin0). rewrite Hfl0 in Eb.
      apply bytes_eqb_spec in Eb. rewrite Eb in Hin0. cbn [map snd] in Hnd.
      apply NoDup_remove_2 in Hnd. apply Hnd. apply in_or_app. left. exact Hin0. }
    exists (OK (N.of_nat (List.length (w_files w)), rev (Parser.p_warnings st)) :: os). split.
    + cbn [load_bufs]. unfold m_load_buffer. unfold wbind at 1. unfold get_model at 1. rewrite Hx.
      unfold wbind at 1. cbn [wget]. rewrite Hdup, Hp. unfold wbind at 1. rewrite EL. cbn [wret]. rewrite E. reflexivity.
    + constructor; [eexists; reflexivity|exact FL].
Qed.

(* C09 for AutosarModel::load_buffer, class Good, unconditionally: EVERY load returns OK with its file id *)
Theorem heap_union_buffers_total M m x w0 n strict bufs items :
  Good T defref v M ->
  nth_opt (w_models w0) (N.to_nat m) = Some x -> m_files x = [] -> m_idents x = [] ->
  let gs := n_range (S n) (N.of_nat (List.length (w_files w0))) in
  Forall2 (parses_to T tab_el tab_at tab_en check_fn float_parse strict) bufs items ->
  Forall2 (fun g it => is_view v M g it /\ StOf T (snd it) (snd (fst it))) gs items ->
  NoDup (map snd bufs) ->
  (forall g, In g gs -> In g (mfiles M)) -> PathsOK T M gs ->
  exists os w,
    load_bufs T tab_el tab_at tab_en check_fn float_parse LATEST defref m strict bufs w0 = Val (os, w) /\
    Forall2 (fun g o => exists ws, o = OK (g, ws)) gs os /\
    exists ta, ModelTree w m ta gs /\ abs_model w m = Some (erase ta) /\
               Rep T (rev gs) None M (erase ta) /\
               (covers gs M -> hperm (erase ta) (expected None M)) /\
               (forall f, In f gs -> hperm (hproj f (erase ta)) (pview f M)).
Proof.
  intros HG Hx Hfx Hix gs Hparse Hview Hnd Hin HP.
  destruct (heap_union_total T LATEST defref v M m x w0 n items HG Hx Hfx Hix Hview Hin HP) as (os0 & w & EL & FO & Hta).
  assert (HO : Forall (fun o => exists f, o = OK f) os0).
  { clear -FO. induction FO as [|g o gs1 os1 -> HF IH]; constructor; eauto. }
  destruct (load_bufs_of_seq m strict bufs items w0 os0 w [] Hparse EL HO) as (os & E & FL).
  { exists x. split; [exact Hx|]. rewrite Hfx. intros f []. }
  { exact Hnd. }
  exists os, w. split; [exact E|]. split; [|exact Hta].
  fold gs in FO. clear -FO FL. revert os FL. induction FO as [|g o0 gs' os0 -> F1 IH]; intros os FL; inversion FL as [|o ? os' ? Hl FL']; subst.
  - constructor.
  - constructor; [exact Hl|apply IH; exact FL'].
Qed.

End BufTotal.

(* the load sequence C09_full is phrased with (the parser state is MergeSpec.pstate_of) *)
Section ViewsTotal.
Variable T : tables.
Variables LATEST defref v : N.

Lemma load_views_items M m : forall gs,
  (forall g, In g gs -> In g (mfiles M)) ->
  exists items, Forall2 (fun g it => is_view v M g it /\ StOf T (snd it) (snd (fst it))) gs items /\
                forall w, load_views T LATEST defref m M (fun _ => v) gs w = load_seq T LATEST defref m items w.
Proof.
  induction gs as [|g gs IH]; intros Hin.
  - exists []. split; [constructor|reflexivity].
  - destruct IH as (items & HF & HE); [intros g0 H0; apply Hin; right; exact H0|].
    destruct (project_some g M (proj2 (set_mem_in _ _) (Hin g (or_introl eq_refl)))) as (e & He).
    exists ((to_dec g, e, pstate_of T v e) :: items). split.
    + constructor; [|exact HF]. split; [split; [exact He|reflexivity]|split; reflexivity].
    + intros w. cbn [load_views load_seq]. rewrite He.
      destruct (load_parsed T LATEST defref m (to_dec g) e (pstate_of T v e) w) as [[o w1]| |]; try reflexivity. rewrite HE. reflexivity.
Qed.

Theorem heap_union_views_total M m x w0 n :
  Good T defref v M ->
  nth_opt (w_models w0) (N.to_nat m) = Some x -> m_files x = [] -> m_idents x = [] ->
  let gs := n_range (S n) (N.of_nat (List.length (w_files w0))) in
  (forall g, In g gs -> In g (mfiles M)) -> PathsOK T M gs ->
  exists os w,
    load_views T LATEST defref m M (fun _ => v) gs w0 = Val (os, w) /\ Forall2 (fun g o => o = OK g) gs os /\
    exists ta, ModelTree w m ta gs /\ abs_model w m = Some (erase ta) /\
               Rep T (rev gs) None M (erase ta) /\
               (covers gs M -> hperm (erase ta) (expected None M)) /\
               (forall f, In f gs -> hperm (hproj f (erase ta)) (pview f M)).
Proof.
  intros HG Hx Hfx Hix gs Hin HP.
  destruct (load_views_items M m gs Hin) as (items & HF & HE). rewrite HE.
  exact (heap_union_total T LATEST defref v M m x w0 n items HG Hx Hfx Hix HF Hin HP).
Qed.

End ViewsTotal.

(* ------------------------------------------------------------------ the side condition is decidable; the tiny master has it *)
Definition functionalb (S : list (list N * N)) : bool :=
  forallb (fun p => forallb (fun q => implb (bytes_eqb (fst p) (fst q)) (snd p =? snd q)) S) S.
Lemma functionalb_sound S : functionalb S = true -> Functional S.
Proof.
  unfold functionalb. rewrite forallb_forall. intros H k n n' H1 H2. specialize (H (k, n) H1).
  rewrite forallb_forall in H. specialize (H (k, n') H2). cbn [fst snd] in H. rewrite bytes_eqb_refl in H. cbn [implb] in H.
  apply N.eqb_eq. exact H.
Qed.
Fixpoint keys_nodupb (l : list (list N)) : bool :=
  match l with [] => true | k :: r => negb (existsb (bytes_eqb k) r) && keys_nodupb r end.
Lemma keys_nodupb_sound l : keys_nodupb l = true -> NoDup l.
Proof.
  induction l as [|k r IH]; cbn [keys_nodupb]; [constructor|]. intros H. apply andb_true_iff in H as [H1 H2].
  constructor; [|apply IH; exact H2]. intros Hin. apply negb_true_iff in H1.
  assert (E : existsb (bytes_eqb k) r = true) by (apply existsb_exists; exists k; split; [exact Hin|apply bytes_eqb_refl]). congruence.
Qed.

Definition paths_okb (T : tables) (M : mtree) (gs : list N) : bool :=
  functionalb (all_names T M gs) &&
  forallb (fun g => match project g M with
                    | Some e => keys_nodupb (map (fun y => fst (fst y)) (enames T [] [] e))
                    | None => true end) gs.
Lemma paths_okb_sound T M gs : paths_okb T M gs = true -> PathsOK T M gs.
Proof.
  unfold paths_okb. intros H. apply andb_true_iff in H as [H1 H2]. split; [apply functionalb_sound; exact H1|].
  rewrite forallb_forall in H2. intros g e Hg He. specialize (H2 g Hg). rewrite He in H2. apply keys_nodupb_sound. exact H2.
Qed.

Example tiny_paths_ok : PathsOK TinyM.tiny TinyM.master [0; 1].
Proof. apply paths_okb_sound. vm_compute. reflexivity. Qed.

(* the unconditional theorem, instantiated: the two views of the tiny master load and give the master *)
Example tiny_union_total :
  exists os w,
    load_views TinyM.tiny TinyM.LATEST TinyM.DEFREF 0 TinyM.master (fun _ => 2) [0; 1] TinyM.new_world = Val (os, w) /\
    Forall2 (fun g o => o = OK g) [0; 1] os /\
    exists ta, abs_model w 0 = Some (erase ta) /\ hperm (erase ta) (expected None TinyM.master).
Proof.
  destruct (heap_union_views_total TinyM.tiny TinyM.LATEST TinyM.DEFREF 2 TinyM.master 0
              (mkModel 0 [] [] []) TinyM.new_world 1) as (os & w & E & F & ta & _ & Ha & _ & Hc & _).
  - exact TinyGood.master_good.
  - vm_compute. reflexivity.
  - reflexivity.
  - reflexivity.
  - intros g [<-|[<-|[]]]; vm_compute; auto.
  - exact tiny_paths_ok.
  - exists os, w. split; [exact E|]. split; [exact F|]. exists ta. split; [exact Ha|]. apply Hc.
    vm_compute. intuition.
Qed.

(* ====================================================================== files of different versions *)
From AV Require Import Tree.MergePureVersions.

Section UnionVersions.
Variable T : tables.
Variables LATEST defref : N.
Variable vs : list N.
Variable v0 : N.

Lemma VOK_app l fl : VOK LATEST vs (fver_files l) -> In (f_version fl) vs -> VOK LATEST vs (fver_files (l ++ [fl])).
Proof.
  intros (H1 & H2) Hv. split; [|exact H2]. intros f v Hf.
  destruct (Nat.ltb (N.to_nat f) (List.length l)) eqn:E.
  - apply PeanoNat.Nat.ltb_lt in E. rewrite fver_files_app_old in Hf by exact E. eapply H1; eauto.
  - apply PeanoNat.Nat.ltb_ge in E. unfold fver_files in Hf. rewrite nth_opt_nth_error in Hf.
    destruct (nth_error (l ++ [fl]) (N.to_nat f)) as [x|] eqn:En; [|discriminate]. cbn [option_map] in Hf. injection Hf as <-.
    rewrite nth_error_app2 in En by exact E. destruct (N.to_nat f - List.length l)%nat as [|k]; cbn in En; [injection En as <-; exact Hv|].
    destruct k; discriminate.
Qed.

Definition item_okv (S : list (list N * N)) (M : mtree) (g : N) (it : item) : Prop :=
  (project g M = Some (snd (fst it)) /\ In (Parser.p_version (snd it)) vs) /\
  StOf T (snd it) (snd (fst it)) /\ NamesIn T S (snd (fst it)) /\ KeysNoDup T (snd (fst it)).

Theorem heap_chain_versions S M m : Good T defref v0 M -> MU T vs v0 (mnames M) M -> In v0 vs -> Functional S ->
  forall gs items F w ta,
    Forall2 (item_okv S M) gs items ->
    ModelTree w m ta (rev F) -> F <> [] -> Rep T F None M (erase ta) -> IdxNames S w m ->
    NoDup (gs ++ F) -> (forall g, In g (gs ++ F) -> In g (mfiles M)) ->
    gs = n_range (List.length gs) (N.of_nat (List.length (w_files w))) ->
    VOK LATEST vs (fver_files (w_files w)) ->
    exists os w',
      load_seq T LATEST defref m items w = Val (os, w') /\ Forall2 (fun g o => o = OK g) gs os /\
      exists ta', ModelTree w' m ta' (rev F ++ gs) /\ Rep T (rev gs ++ F) None M (erase ta') /\ IdxNames S w' m.
Proof.
  intros HG HM Hv0 HS. destruct (Good_files T defref v0 M HG) as (Hs & _).
  induction gs as [|g gs IH]; intros items F w ta Hitems MT HFne HR HI Hnd Hin Hgs HV.
  - inversion Hitems; subst. exists [], w. cbn [load_seq]. split; [reflexivity|]. split; [constructor|].
    exists ta. rewrite app_nil_r. cbn [rev app]. auto.
  - inversion Hitems as [|? [[fname e] st] ? items' ((He & Hv) & Hst & HN & HK) Hitems']; subst. cbn [fst snd] in He, Hv, Hst, HN, HK.
    cbn [load_seq].
    assert (Hg : In g (mfiles M)) by (apply Hin; left; reflexivity).
    cbn [app] in Hnd. inversion Hnd as [|? ? Hnot Hnd']; subst.
    assert (HgF : ~ In g F) by (intros H; apply Hnot; apply in_or_app; right; exact H).
    cbn [List.length n_range] in Hgs. injection Hgs as Eg Egs.
    pose proof (pview_project (depth M) M (le_n _) g e He) as Eview.
    set (fl := mkFile m fname (Parser.p_version st) (Parser.p_standalone st)) in *.
    set (fver := fver_files (w_files w ++ [fl])).
    assert (HV1 : VOK LATEST vs fver) by (apply VOK_app; [exact HV|exact Hv]).
    assert (Hset : fold_right set_add [] (rev F) = inF F (mfiles M)).
    { apply files_set_inF; [exact Hs|]. intros f Hf. apply Hin. right. apply in_or_app. right. exact Hf. }
    pose (P := fun ha' : htree => h_local ha' = h_local (erase ta) /\
                 forall inh', Rep T (g :: F) inh' M (h_set_local ha' (norm inh' (inF (g :: F) (mfiles M))))).
    destruct (load_parsed_merge_total T LATEST defref S m fname e st w ta (rev F) P MT) as (w1 & EL & HI1 & Hf1 & ta1 & ha' & MT1 & Ee1 & (Hl & Hr)); auto.
    { intros E. apply HFne. destruct F; [reflexivity|]. cbn [rev] in E. destruct (rev F); discriminate. }
    { intros fuel Hfuel. fold fl. fold fver. rewrite Eview, Hset, <- Eg. split.
      - apply (rep_clean_versions T LATEST defref vs v0 (mnames M) fver HV1 Hv0 fuel M HG HM F g None (erase ta) HgF Hg HR).
      - destruct (pmerge_rep_versions T LATEST defref vs v0 (mnames M) fver HV1 Hv0 fuel M HG HM F g None (erase ta)) as (a' & Ea' & Hla' & Hra'); auto.
        { right. rewrite hdepth_erase. exact Hfuel. }
        exists a'. split; [exact Ea'|]. split; assumption. }
    rewrite EL.
    destruct (Rep_shape T F None M (erase ta) HR) as (_ & _ & Hloc & _). cbn [norm] in Hloc.
    specialize (Hr None). cbn [norm] in Hr. rewrite (inF_cons_in g F (mfiles M) Hs Hg HgF) in Hr.
    assert (HR1 : Rep T (g :: F) None M (erase ta1)).
    { rewrite Ee1, Hl, Hloc, <- Eg. exact Hr. }
    fold fl in Hf1.
    destruct (IH items' (g :: F) w1 ta1) as (os1 & w2 & EL2 & F2 & ta2 & MT2 & HR2 & HI2); auto.
    + cbn [rev]. rewrite <- Eg in MT1. exact MT1.
    + discriminate.
    + apply NoDup_app_swap_cons. exact Hnd.
    + intros g0 H0. apply Hin. apply in_app_or in H0 as [H0|[<-|H0]]; [right; apply in_or_app; left; exact H0|left; reflexivity|].
      right. apply in_or_app. right. exact H0.
    + rewrite Hf1, app_length. cbn [List.length]. rewrite Egs at 1. f_equal. lia.
    + rewrite Hf1. exact HV1.
    + rewrite EL2. exists (OK (N.of_nat (List.length (w_files w))) :: os1), w2. split; [reflexivity|].
      split; [constructor; [rewrite Eg; reflexivity|exact F2]|].
      exists ta2. cbn [rev] in MT2. rewrite <- app_assoc in MT2. cbn [app] in MT2. split; [exact MT2|].
      split; [|exact HI2]. cbn [rev]. rewrite <- app_assoc. cbn [app]. exact HR2.
Qed.


(* C09 on the heap model for files of DIFFERENT versions: the versions of all files are in vs, and every element of the
   master has the same type and split behaviour in all versions of vs (uniformb, a boolean on the master) *)
Theorem heap_union_versions M m x w0 n items :
  Good T defref v0 M -> uniformb T vs v0 M = true -> In v0 vs ->
  nth_opt (w_models w0) (N.to_nat m) = Some x -> m_files x = [] -> m_idents x = [] ->
  VOK LATEST vs (fver_files (w_files w0)) ->
  let gs := n_range (S n) (N.of_nat (List.length (w_files w0))) in
  Forall2 (fun g it => (project g M = Some (snd (fst it)) /\ In (Parser.p_version (snd it)) vs) /\ StOf T (snd it) (snd (fst it))) gs items ->
  (forall g, In g gs -> In g (mfiles M)) -> PathsOK T M gs ->
  exists os w,
    load_seq T LATEST defref m items w0 = Val (os, w) /\ Forall2 (fun g o => o = OK g) gs os /\
    exists ta, ModelTree w m ta gs /\ abs_model w m = Some (erase ta) /\
               Rep T (rev gs) None M (erase ta) /\
               (covers gs M -> hperm (erase ta) (expected None M)) /\
               (forall f, In f gs -> hperm (hproj f (erase ta)) (pview f M)).
Proof.
  intros HG HU0 Hv0 Hx Hfx Hix HV gs Hitems Hin (HS & HKeys).
  pose proof (uniformb_sound T vs v0 M HU0) as HM.
  set (SN := all_names T M gs) in *.
  assert (Haux : forall gs0 its, incl gs0 gs ->
             Forall2 (fun g it => (project g M = Some (snd (fst it)) /\ In (Parser.p_version (snd it)) vs) /\ StOf T (snd it) (snd (fst it))) gs0 its ->
             Forall2 (item_okv SN M) gs0 its).
  { intros gs0 its Hsub HF. induction HF as [|g it gs1 its1 ((He & Hv) & Hst) HF IH]; [constructor|]. constructor.
    - split; [split; assumption|]. split; [exact Hst|]. split.
      + apply (names_in_all T M gs g _); [apply Hsub; left; reflexivity|exact He].
      + apply (HKeys g _); [apply Hsub; left; reflexivity|exact He].
    - apply IH. intros y Hy. apply Hsub. right. exact Hy. }
  pose proof (Haux gs items (incl_refl _) Hitems) as Hitems'. clear Haux.
  unfold gs in *. cbn [n_range] in *.
  set (g0 := N.of_nat (List.length (w_files w0))) in *. set (gr := n_range n (g0 + 1)) in *.
  inversion Hitems' as [|? [[fname e] st] ? items' ((He & Hv) & Hst & HN & HK) Hitems'']; subst. cbn [fst snd] in He, Hv, Hst, HN, HK.
  cbn [load_seq].
  assert (Hg0 : In g0 (mfiles M)) by (apply Hin; left; reflexivity).
  assert (HI0 : IdxNames SN w0 m).
  { exists x. split; [exact Hx|]. intros key e0 Hg. rewrite Hix in Hg. discriminate Hg. }
  destruct (load_parsed_first_total T LATEST defref SN m fname e st w0 x Hx Hfx HI0 HS Hst HN HK)
    as (w1 & EL & HI1 & Hf1 & ta1 & MT1 & Ee1).
  fold g0 in EL, MT1, Ee1. rewrite EL.
  pose proof (pview_project (depth M) M (le_n _) g0 e He) as Eview. rewrite Eview in Ee1.
  assert (HR1 : Rep T [g0] None M (erase ta1)).
  { rewrite Ee1. apply (first_view_rep T defref v0 M g0 HG Hg0). }
  assert (Hnd : NoDup (gr ++ [g0])).
  { eapply Permutation_NoDup; [apply Permutation_app_comm|]. cbn [app]. apply (n_range_nodup (S n) g0). }
  destruct (heap_chain_versions SN M m HG HM Hv0 HS gr items' [g0] w1 ta1) as (os1 & w2 & EL2 & F2 & ta2 & MT2 & HR2 & _); auto.
  - discriminate.
  - intros g Hg. apply Hin. apply in_app_or in Hg as [Hg|[<-|[]]]; [right; exact Hg|left; reflexivity].
  - unfold gr at 1. rewrite Hf1, app_length. cbn [List.length]. f_equal.
    + unfold gr. clear. generalize (g0 + 1). induction n as [|k IHk]; intros from; cbn [n_range List.length]; auto.
    + fold g0. lia.
  - rewrite Hf1. apply VOK_app; [exact HV|exact Hv].
  - rewrite EL2. exists (OK g0 :: os1), w2. split; [reflexivity|]. split; [constructor; [reflexivity|exact F2]|].
    cbn [rev app] in MT2. exists ta2. split; [exact MT2|]. split; [eapply ModelTree_abs_model; exact MT2|].
    assert (HR3 : Rep T (rev (g0 :: gr)) None M (erase ta2)) by (cbn [rev]; exact HR2).
    split; [exact HR3|]. split.
    + intros Hc. apply (Rep_expected T defref v0 (depth M) M (le_n _) HG (rev (g0 :: gr)) None (erase ta2)); [|intros p [=]|exact HR3].
      apply (covers_incl (depth M) M (le_n _) (g0 :: gr)); [|exact Hc]. intros y Hy. apply in_rev in Hy. exact Hy.
    + intros f Hf. apply (Rep_project T defref v0 (depth M) M (le_n _) HG (rev (g0 :: gr)) None (erase ta2) f); [|apply Hin; exact Hf|exact HR3].
      exact (proj1 (in_rev _ _) Hf).
Qed.

End UnionVersions.

(* the tiny master is uniform over the versions 1 and 2 *)
Example tiny_uniform : uniformb TinyM.tiny [1; 2] 2 TinyM.master = true.
Proof. vm_compute. reflexivity. Qed.

(* ... and the two views, loaded as files of versions 1 and 2, merge to the master (by computation) *)
Example tiny_mixed_versions :
  match load_seq TinyM.tiny TinyM.LATEST TinyM.DEFREF 0
          [(BS "f0", TinyM.file0, pstate_of TinyM.tiny 1 TinyM.file0); (BS "f1", TinyM.file1, pstate_of TinyM.tiny 2 TinyM.file1)]
          TinyM.new_world with
  | Val (os, w) => (os, abs_model w 0)
  | _ => ([], None)
  end = ([OK 0; OK 1], Some (expected None TinyM.master)).
Proof. vm_compute. reflexivity. Qed.
