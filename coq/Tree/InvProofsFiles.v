(* Tree/InvProofsFiles.v — C03 proofs: new_model, create_file, add_to_file, remove_from_file, remove_file. *)
From Coq Require Import PeanoNat Arith.
From AV Require Import Base.Bytes Base.Outcome Hash.HashModel Tree.Heap Tree.Ops Tree.Script Tree.Inv
  Tree.InvProofsBase Tree.InvProofsCore Tree.InvProofsTree Tree.InvProofsPrim Tree.InvProofsRemove.
Open Scope string_scope.
Open Scope list_scope.
Open Scope N_scope.

Lemma wput_inv w1 w r w' : wput w1 w = Val (r, w') -> r = OK tt /\ w' = w1.
Proof. unfold wput. intros [= <- <-]. auto. Qed.

Section Files.
Variable T : tables.
Variable root_attrs : list (N * cdata).

Lemma stp_files_if cur : forall n : node,
  n_parent (if is_empty (n_files n) then set_files n cur else n) = n_parent n /\
  kids (if is_empty (n_files n) then set_files n cur else n) = kids n.
Proof. intros n. destruct (is_empty (n_files n)); split; reflexivity. Qed.

Lemma stp_add_to_file_restricted fuel : forall e f, stp (add_to_file_restricted T fuel e f).
Proof.
  induction fuel as [|fl IH]; intros e f; cbn [add_to_file_restricted].
  - intros w r w' H. discriminate.
  - apply stp_bind; [stp_tac|]. intros fm.
    destruct (match fm with Some x => x | None => (true, []) end) as [local cur].
    destruct (set_mem f cur); [stp_tac|].
    apply stp_bind; [stp_tac|]. intros n.
    apply stp_bind; [stp_tac|]. intros sp.
    apply stp_bind.
    { destruct (negb (sp =? 0)); [|stp_tac].
      induction (n_content n) as [|[c|d] l IHl]; [stp_tac| |exact IHl].
      apply stp_bind; [|intros; exact IHl]. apply stp_modify_node. apply stp_files_if. }
    intros _. stp_tac; try apply IH.
Qed.
Hint Resolve stp_add_to_file_restricted : stp.

Lemma stp_e_add_to_file e f : stp (e_add_to_file T e f).
Proof. unfold e_add_to_file. stp_tac. Qed.

Lemma stp_set_file_membership e fm : stp (set_file_membership T e fm).
Proof. unfold set_file_membership. stp_tac. Qed.
Hint Resolve stp_set_file_membership : stp.

Lemma stp_m_create_file m name version : stp (m_create_file T m name version).
Proof.
  intros w r w' H. unfold m_create_file in H.
  wrun_ro H ltac:(apply same_tree_refl).
  wstepn H u Ep.
  apply wput_inv in Ep as (_ & ->).
  eapply same_tree_trans; [|match type of H with ?mm ?wa = _ => refine ((_ : stp mm) wa _ _ H); stp_tac end].
  repeat split; auto.
Qed.

(* ---------- new_model ---------- *)
Lemma Pres_new_model : Pres (new_model T root_attrs).
Proof.
  intros w r w' H C. unfold new_model in H.
  destruct (et_new T (autosar_element T)) as [ty|s|]; destruct (elem T (autosar_element T)) as [ed|s'|];
    try discriminate.
  injection H as <- <-.
  set (nd := mkNode _ _ _ _ _ _ _). set (w' := mkWorld _ _ _ _).
  assert (Hn : w_next w' = w_next w + 1) by reflexivity.
  assert (Hr : roots w' = roots w ++ [w_next w]).
  { unfold w', roots. cbn. rewrite map_app. reflexivity. }
  assert (Ho : forall x, x <> w_next w -> skel w' x = skel w x).
  { intros x Hx. unfold skel, w'. cbn. rewrite upd_neq by auto. reflexivity. }
  assert (Hi : skel w' (w_next w) = Some (PModel (N.of_nat (List.length (roots w))), [])).
  { unfold skel, w'. cbn. rewrite upd_eq. unfold roots. rewrite map_length. reflexivity. }
  split.
  - eapply core_new_model; eauto.
  - intros O. apply NoOrphan_OrphSub. apply NoOrphan_OrphSub in O. eapply orphsub_new_model; eauto.
Qed.

(* ---------- remove_from_file ---------- *)
Definition scan_loop (f : N) : list id -> W (list id) :=
  fix scan (l : list id) : W (list id) :=
    match l with
    | [] => wret []
    | s :: rest =>
      (do sn <- get_node s;
       if negb (is_empty (n_files sn)) then
         let fs := set_remove f (n_files sn) in
         set_node s (set_files sn fs);;
         do r <- scan rest;
         wret (if is_empty fs then s :: r else r)
       else scan rest)%W
    end.

Lemma stp_scan_loop f ids : stp (scan_loop f ids).
Proof.
  induction ids as [|s rest IH]; intros w r w' H; cbn [scan_loop] in H.
  - winv H. apply same_tree_refl.
  - wstepn H sn Es; winv Es. destruct (negb (is_empty (n_files n))).
    + wstepn H u Ew. apply set_node_wset in Ew as (_ & ->).
      match type of H with ?mm ?wa = _ => apply (same_tree_trans _ wa); [eapply st_wset; eauto; reflexivity|];
        refine ((_ : stp mm) wa _ _ H) end.
      apply stp_bind; [exact IH|intros; stp_tac].
    + eapply IH; eauto.
Qed.

Lemma Pres_e_remove_from_file e f : Pres (e_remove_from_file T e f).
Proof.
  unfold e_remove_from_file.
  apply Pres_bind; [pres_tac|]. intros n.
  apply Pres_bind; [pres_tac|]. intros ps.
  destruct (negb ps); [pres_tac|].
  apply Pres_bind; [pres_tac|]. intros fm.
  apply Pres_bind; [pres_tac|]. intros m.
  destruct (negb (fm =? m)); [pres_tac|].
  apply Pres_bind; [pres_tac|]. intros [loc cur].
  apply Pres_bind; [pres_tac|]. intros _.
  apply Pres_bind; [pres_tac|]. intros _.
  apply Pres_bind; [pres_tac|]. intros w0.
  apply Pres_bind; [pres_tac|]. intros ids.
  apply Pres_bind.
  - apply Pres_stp. apply (stp_scan_loop f ids).
  - intros to_delete. induction to_delete as [|d rest IHd]; pres_tac.
Qed.
Hint Resolve Pres_e_remove_from_file : pres.

(* ---------- remove_file ---------- *)
Lemma Pres_m_remove_file m f : Pres (m_remove_file T m f).
Proof.
  intros w r w' H C. unfold m_remove_file in H.
  assert (F : Core w /\ (NoOrphan w -> NoOrphan w)) by auto.
  wrun_ro H ltac:(exact F).
  wstepn H u Es.
  pose proof (stp_set_model_same m x (fun y => set_mfiles y (swap_remove_at (m_files y) n)) (fun y => eq_refl)
                _ _ _ Hx Es) as ST.
  assert (C1 : Core w0) by (eapply Core_same_tree; eauto).
  assert (O1 : NoOrphan w -> NoOrphan w0) by (intros O; eapply NoOrphan_same_tree; eauto).
  match type of H with ?mm ?wa = _ => assert (P : Pres mm) end.
  { destruct (is_empty _); [|pres_tac].
    apply Pres_bind; [pres_tac|]. intros rn.
    apply Pres_bind; [|intros; pres_tac].
    induction (n_content rn) as [|[c|d] l IHl]; pres_tac. }
  destruct (P _ _ _ H C1). auto.
Qed.

End Files.

#[export] Hint Resolve stp_add_to_file_restricted stp_set_file_membership : stp.
#[export] Hint Resolve Pres_e_remove_from_file Pres_m_remove_file Pres_new_model : pres.
