(* Tree/FailProofsLate.v — C11 proofs, layer 2: operations that can return an error AFTER their first mutation, or
   that walk the tree again after it.  For each: the error is impossible (same parent chain as a walk that has
   just succeeded / table assumption), or the world is unchanged, or the failure belongs to a class of Fail.v. *)
From AV Require Import Base.Bytes Base.Outcome Hash.HashModel Tree.Heap Tree.Ops Tree.Script
  Tree.FailProofsBase Tree.FailProofsOps Tree.Fail.
Open Scope string_scope.
Open Scope list_scope.
Open Scope N_scope.

(* ------------------------------------------------------------------ worlds with the same parent links *)
Definition sp (w1 w2 : world) : Prop := w_next w2 = w_next w1 /\ forall i, parent_link w2 i = parent_link w1 i.
Lemma sp_refl w : sp w w. Proof. split; auto. Qed.
Lemma sp_trans a b c : sp a b -> sp b c -> sp a c.
Proof. intros [H1 H2] [H3 H4]. split; [congruence|]. intros i. rewrite H4. apply H2. Qed.
Lemma sp_upd w i n n' fs ms :
  w_nodes w i = Some n -> n_parent n' = n_parent n -> sp w (mkWorld (upd (w_nodes w) i n') (w_next w) fs ms).
Proof.
  intros Hn Hp. split; [reflexivity|]. intros j. unfold parent_link. cbn [w_nodes]. unfold upd.
  destruct (j =? i) eqn:E; [|reflexivity]. apply N.eqb_eq in E. subst j. rewrite Hn. cbn. congruence.
Qed.
Lemma sp_models w fs ms : sp w (mkWorld (w_nodes w) (w_next w) fs ms).
Proof. split; reflexivity. Qed.
Lemma sp_node w1 w2 i n1 n2 : sp w1 w2 -> w_nodes w1 i = Some n1 -> w_nodes w2 i = Some n2 -> n_parent n2 = n_parent n1.
Proof. intros [_ H] H1 H2. specialize (H i). unfold parent_link in H. rewrite H1, H2 in H. cbn in H. congruence. Qed.
Lemma sp_fuel w1 w2 : sp w1 w2 -> fuel_of w2 = fuel_of w1.
Proof. intros [H _]. unfold fuel_of. rewrite H. reflexivity. Qed.

(* invert every leaf fact in the context *)
Ltac winvs :=
  repeat match goal with
  | E : get_node _ _ = Val _ |- _ => winv E
  | E : get_model _ _ = Val _ |- _ => winv E
  | E : get_file _ _ = Val _ |- _ => winv E
  | E : wl _ _ = Val _ |- _ => winv E
  | E : wlift _ _ = Val _ |- _ => winv E
  | E : wret _ _ = Val _ |- _ => winv E
  | E : wfail _ _ = Val _ |- _ => winv E
  | E : wget _ = Val _ |- _ => winv E
  | E : wpanic _ _ = Val _ |- _ => discriminate E
  | E : wfuel _ = Val _ |- _ => discriminate E
  | H : ?x = ?x |- _ => clear H
  end.
(* head bind of a computation whose result is known to be OK _ / ER _ *)
Ltac wok H :=
  lazymatch type of H with
  | wbind ?m ?k ?w = Val (OK ?r, ?w') =>
    let a := fresh "a" in let w1 := fresh "w" in let E := fresh "E" in let e := fresh "e" in let Q := fresh "Q" in
    apply wbind_inv in H as [(a & w1 & E & H) | (e & E & Q)]; [ try ro_subst E | discriminate Q ]
  end.
(* close a goal with a hypothesis saying that a computation that cannot fail returned an error *)
Ltac noer :=
  match goal with
  | E : ?m ?w = Val (ER ?e, ?w') |- _ => exfalso; refine ((_ : nofail m) w e w' E); solve [nofail_tac]
  end.
Ltac wer H :=
  lazymatch type of H with
  | wbind ?m ?k ?w = Val (ER ?r, ?w') =>
    let a := fresh "a" in let w1 := fresh "w" in let E := fresh "E" in let e := fresh "e" in let Q := fresh "Q" in
    apply wbind_inv in H as [(a & w1 & E & H) | (e & E & Q)];
    [ try ro_subst E | try ro_subst E; injection Q as Q; try subst e ]
  end.

Ltac wro H := wer H; [ | try reflexivity ].

(* computations that keep every parent link (and the allocation bound) *)
Definition keeps {A} (m : W A) : Prop := forall w r w', m w = Val (r, w') -> sp w w'.
Lemma keeps_ro {A} (m : W A) : ro m -> keeps m.
Proof. intros H w r w' E. apply H in E. subst. apply sp_refl. Qed.
Lemma keeps_bind {A B} (m : W A) (k : A -> W B) : keeps m -> (forall a, keeps (k a)) -> keeps (wbind m k).
Proof.
  intros Hm Hk w r w' H. apply wbind_inv in H as [(a & w1 & H1 & H2) | (e' & H1 & _)].
  - eapply sp_trans; [eapply Hm|eapply Hk]; eauto.
  - eapply Hm; eauto.
Qed.
Lemma keeps_try {A} (m : W A) : keeps m -> keeps (wtry m).
Proof. intros Hm w r w' H. apply wtry_inv in H as (r0 & H & _). eapply Hm; eauto. Qed.
Lemma keeps_modify_node i f : (forall x, n_parent (f x) = n_parent x) -> keeps (modify_node i f).
Proof. intros Hf w r w' H. apply modify_node_inv in H as (n & Hn & _ & ->). eapply sp_upd; eauto. Qed.
Lemma keeps_set_model m x : keeps (set_model m x).
Proof. intros w r w' H. apply set_model_inv in H as (_ & ->). apply sp_models. Qed.
Lemma keeps_modify_model m f : keeps (modify_model m f).
Proof. intros w r w' H. apply modify_model_inv in H as (x & _ & _ & ->). apply sp_models. Qed.
Ltac keeps_step :=
  first
  [ apply keeps_ro; solve [ro_tac]
  | apply keeps_set_model | apply keeps_modify_model
  | apply keeps_modify_node; intros ?; solve [reflexivity | match goal with |- context [if ?b then _ else _] => destruct b; reflexivity end]
  | apply keeps_try
  | apply keeps_bind; [ | intros ? ]
  | match goal with
    | |- keeps (match ?x with _ => _ end) => destruct x
    | |- keeps (if ?b then _ else _) => destruct b
    | |- keeps (let '(_, _) := ?x in _) => destruct x
    end ].
Ltac keeps_tac := repeat keeps_step.

(* nf relative to a precondition on the initial world *)
Definition nfP (P : world -> Prop) {A} (m : W A) : Prop :=
  forall w e w', P w -> m w = Val (ER e, w') -> w' = w.
Lemma nfP_of_nf P {A} (m : W A) : nf m -> nfP P m.
Proof. intros H w e w' _ E. eapply H; eauto. Qed.
Lemma nfP_bind_ro P {A B} (m : W A) (k : A -> W B) : ro m -> (forall a, nfP P (k a)) -> nfP P (wbind m k).
Proof.
  intros Hm Hk w e w' HP H. apply wbind_inv in H as [(a & w1 & H1 & H2) | (e' & H1 & _)].
  - apply Hm in H1. subst w1. eapply Hk; eauto.
  - eapply Hm; eauto.
Qed.
Ltac nfP_step :=
  first
  [ match goal with H : forall _, _ |- _ => apply H end
  | apply nfP_of_nf; solve [nf_tac]
  | apply nfP_bind_ro; [ solve [ro_tac] | intros ? ]
  | match goal with
    | |- nfP _ (match ?x with _ => _ end) => destruct x
    | |- nfP _ (if ?b then _ else _) => destruct b
    | |- nfP _ (let '(_, _) := ?x in _) => destruct x
    end ].
Ltac nfP_tac := repeat nfP_step.

Ltac upd_simpl :=
  cbn [w_nodes w_next w_files w_models] in *;
  repeat match goal with
  | H : upd _ ?i _ ?i = Some _ |- _ => rewrite upd_eq in H
  | H : upd _ ?i _ ?j = Some _, Hne : ?j <> ?i |- _ => rewrite (upd_neq _ _ _ _ Hne) in H
  | H : Some _ = Some _ |- _ => injection H as H; try subst
  end.
(* identify two node variables bound to the same id *)
Ltac same_nodes :=
  repeat match goal with
  | H1 : ?f ?i = Some ?a, H2 : ?f ?i = Some ?b |- _ =>
    first [ is_var b; assert (b = a) by congruence; subst b; clear H2
          | is_var a; assert (a = b) by congruence; subst a; clear H1 ]
  end.

Section Late.
Variable T : tables.
Variable tab_el tab_en : nametab.
Variable check_fn : N -> list N -> res bool.
Variable LATEST : N.
Variable root_attrs : list (N * cdata).

(* an upward walk that succeeded still succeeds (or panics) in a world with the same parent links *)
Lemma up_names_sp f : forall p acc acc' w1 w2 l,
  sp w1 w2 -> up_names T f p acc w1 = Val (OK l, w1) ->
  forall e w', up_names T f p acc' w2 = Val (ER e, w') -> False.
Proof.
  induction f as [|f IH]; intros p acc acc' w1 w2 l Hsp H1 e w' H2; cbn [up_names] in H1, H2; [discriminate H1|].
  destruct p as [|m|i].
  - discriminate H1.
  - discriminate H2.
  - wok H1. winvs. wok H1.
    wer H2; [|noer]. winvs.
    wer H2; [|noer].
    rewrite (sp_node _ _ _ _ _ Hsp Hn Hn0) in H2. eapply IH; eauto.
Qed.

Lemma path_unchecked_sp n1 n2 w1 w2 l :
  sp w1 w2 -> n_parent n2 = n_parent n1 -> path_unchecked T n1 w1 = Val (OK l, w1) ->
  forall e w', path_unchecked T n2 w2 = Val (ER e, w') -> False.
Proof.
  intros Hsp Hp H1 e w' H2. unfold path_unchecked in *.
  wok H1. wok H1. winvs.
  wer H2; [|noer]. wer H2; [|noer]. winvs.
  wok H1. wer H2; [discriminate H2|].
  rewrite Hp, (sp_fuel _ _ Hsp) in E2. eapply up_names_sp; eauto.
Qed.

(* replacing the content of node h (same element name, same parent) does not change whether another node is
   identifiable, and a path computation that succeeded before does not fail afterwards *)
Definition upd_world (w : world) (h : id) (n' : node) : world :=
  mkWorld (upd (w_nodes w) h n') (w_next w) (w_files w) (w_models w).

Lemma is_identifiable_upd h n n' pn w b b2 w2' :
  w_nodes w h = Some n -> n_name n' = n_name n ->
  is_identifiable T pn w = Val (OK b, w) ->
  is_identifiable T pn (upd_world w h n') = Val (OK b2, w2') -> b2 = b.
Proof.
  intros Hn Hname H1 H2. unfold is_identifiable in *.
  wok H1. wok H2. winvs. assert (v0 = v) by congruence. subst v0.
  destruct (negb v); [winvs; reflexivity|].
  destruct (n_content pn) as [|[s|d] rest]; try (winvs; reflexivity).
  wok H1. wok H2. winvs. cbn [upd_world w_nodes] in *.
  destruct (N.eq_dec s h) as [->|Hne].
  - rewrite upd_eq in Hn0. congruence.
  - rewrite upd_neq in Hn0 by exact Hne. congruence.
Qed.

Lemma path_id_upd h n n' pi w l :
  w_nodes w h = Some n -> n_name n' = n_name n -> n_parent n' = n_parent n -> pi <> h ->
  path_id T pi w = Val (OK l, w) ->
  forall e w', path_id T pi (upd_world w h n') = Val (ER e, w') -> False.
Proof.
  intros Hn Hname Hpar Hne H1 e w' H2. unfold path_id in *.
  wok H1. wer H2; [|noer]. winvs. unfold upd_world in *. upd_simpl. same_nodes.
  unfold path_of in *. wok H1. wer H2; [|noer].
  assert (a0 = a) by (eapply (is_identifiable_upd h n n'); [exact Hn|exact Hname|eassumption|eassumption]). subst a0.
  destruct a; [|discriminate H1].
  eapply path_unchecked_sp; [| |exact H1|exact H2]; [|reflexivity].
  apply sp_upd with (n := n); auto.
Qed.

Lemma e_set_character_data_nf h v0 w e w' :
  NoSelfParent w -> e_set_character_data T tab_en check_fn LATEST h v0 w = Val (ER e, w') -> w' = w.
Proof.
  intros Hns H. unfold e_set_character_data in H.
  wro H. winvs. wro H. winvs.
  match type of H with (if ?b then _ else _) _ = _ => destruct b end; [winvs; reflexivity|].
  wro H. winvs. destruct v1 as [cs|]; [|winvs; reflexivity].
  wro H. wro H. wro H. winvs. wro H. destruct a1 as (vv, ok).
  destruct (negb ok); [winvs; reflexivity|].
  wro H. winvs. wro H. wro H. winvs.
  match goal with E : _ w = Val (OK a1, w) |- _ => rename E into Eprev end.
  destruct a1 as [pp|]; [|noer].
  assert (Hprev : exists pi pp0, n_parent n = PElem pi /\ path_id T pi w = Val (OK pp0, w)).
  { match type of Eprev with (if ?b then _ else _) _ = _ => destruct b end; [|winvs].
    unfold parent_of in Eprev. destruct (n_parent n) as [|mm|pi]; [discriminate Eprev| |].
    - wok Eprev. winvs.
    - wok Eprev. winvs. wok Eprev. eauto. }
  destruct Hprev as (pi & pp0 & Hpar & Hpid).
  wer H; [|noer].
  match goal with E : set_node _ _ _ = Val _ |- _ => apply set_node_inv in E as (_ & ->) end.
  wer H; [noer|].
  match goal with E : _ = Val (ER e, w') |- _ => rename E into Ht end.
  wer Ht; [|noer]. winvs. upd_simpl.
  unfold parent_of in Ht. cbn [set_content n_parent] in Ht. rewrite Hpar in Ht.
  wer Ht; [|noer]. winvs. wer Ht; [noer|].
  exfalso. assert (Hne : pi <> h) by (intros ->; exact (Hns _ _ Hn Hpar)).
  match goal with E : path_id T pi _ = Val (ER _, _) |- _ =>
    exact (path_id_upd h n (set_content n [CData vv]) pi w pp0 Hn eq_refl eq_refl Hne Hpid _ _ E) end.
Qed.

(* ---------- add_to_file: the upward walk after the first write follows the chain `model()` has just walked *)
Lemma add_to_file_restricted_ok f : forall i fl w0 w m,
  sp w0 w -> model_walk f i w0 = Val (OK m, w0) ->
  forall e w', add_to_file_restricted T f i fl w = Val (ER e, w') -> False.
Proof.
  induction f as [|f IH]; intros i fl w0 w m Hsp H0 e w' H; cbn [model_walk add_to_file_restricted] in H0, H;
    [discriminate H|].
  wok H0. winvs.
  wer H; [|noer].
  destruct (match a with Some x => x | None => (true, []) end) as (local, cur).
  destruct (set_mem fl cur); [winvs|].
  wer H; [|noer]. winvs. wer H; [|noer]. winvs.
  assert (Hpar : n_parent n0 = n_parent n) by (eapply sp_node; eauto).
  match type of H with wbind (if _ then ?loop _ else _) _ _ = _ =>
    assert (Hk : forall l, nofail (loop l) /\ keeps (loop l)) end.
  { induction l as [|[c|d] l IHl]; split; try (nofail_tac; apply IHl); try (keeps_tac; apply IHl). }
  wer H.
  2:{ match goal with E : (if ?b then _ else _) _ = Val (ER _, _) |- _ =>
        destruct b; [eapply (proj1 (Hk _)); eauto | winvs] end. }
  match goal with E : (if ?b then _ else _) w = Val (OK _, ?w1) |- _ =>
    assert (Hsp1 : sp w w1) by (destruct b; [eapply (proj2 (Hk _)); eauto | winvs; apply sp_refl]); clear E end.
  unfold parent_splittable, parent_of in H. rewrite Hpar in H.
  destruct (n_parent n) as [|mm|p] eqn:Ep; [discriminate H0|noer|].
  wer H; [|noer]. wer H; [|noer].
  match goal with E : (if ?b then _ else _) ?w1 = Val (OK _, ?w2) |- _ =>
    assert (Hsp2 : sp w1 w2) by (refine ((_ : keeps _) _ _ _ E); keeps_tac); clear E end.
  wer H; [|noer]. winvs.
  eapply IH; [|exact H0|exact H]. eapply sp_trans; [exact Hsp|]. eapply sp_trans; eauto.
Qed.

Lemma model_walk_mono f : forall i w m, model_walk f i w = Val (OK m, w) -> model_walk (S f) i w = Val (OK m, w).
Proof.
  induction f as [|f IH]; intros i w m H; [discriminate H|].
  cbn [model_walk] in H. wok H. winvs.
  change (model_walk (S (S f)) i w) with ((do n <- get_node i;
     match n_parent n with PElem p => model_walk (S f) p | PModel m => wret m | PNone => wfail ItemDeleted end)%W w).
  unfold wbind at 1. unfold get_node at 1. rewrite Hn.
  destruct (n_parent n); auto.
Qed.

Lemma e_add_to_file_nf e0 f w e w' : e_add_to_file T e0 f w = Val (ER e, w') -> w' = w.
Proof.
  intros H. unfold e_add_to_file in H.
  wro H. winvs.
  match goal with Hx : w_nodes w e0 = Some ?x |- _ => rename x into nn; rename Hx into Hnn end.
  wro H.
  match goal with E : parent_splittable T _ w = _ |- _ => rename E into Eps end.
  match type of H with (if ?b then _ else _) _ = _ => destruct b end; [winvs; reflexivity|].
  wro H. wro H.
  match goal with E : model_of e0 w = _ |- _ => rename E into Em end.
  match type of H with (if ?b then _ else _) _ = _ => destruct b end; [winvs; reflexivity|].
  wro H. match type of H with (match ?x with _ => _ end) _ = _ => destruct x as (lc, cur) end.
  destruct (set_mem f cur); [winvs|].
  wer H; [|noer].
  match goal with E : modify_node _ _ _ = Val _ |- _ => apply modify_node_inv in E as (n1 & Hn1 & _ & ->) end.
  assert (n1 = nn) by congruence. subst n1. clear Hn1.
  exfalso. unfold parent_of in H.
  destruct (n_parent nn) as [|mm|p] eqn:Ep.
  - unfold parent_splittable, parent_of in Eps. rewrite Ep in Eps. discriminate Eps.
  - noer.
  - wer H; [|noer]. winvs. wer H; [|noer]. winvs.
    unfold model_of in Em. wok Em. winvs. unfold fuel_of in Em. cbn [model_walk] in Em. wok Em. winvs.
    match goal with Hx : w_nodes w e0 = Some ?x |- _ => assert (x = nn) by congruence; subst x end.
    rewrite Ep in Em. apply model_walk_mono in Em.
    eapply add_to_file_restricted_ok; [|exact Em|exact H].
    eapply sp_upd; eauto.
Qed.

(* ---------- set_reference_target: everything fails before the first write except the final text write *)
Lemma raw_set_character_data_err i v version w e w' :
  raw_set_character_data T check_fn i v version w = Val (ER e, w') -> e = IncorrectContentType /\ w' = w.
Proof.
  intros H. unfold raw_set_character_data in H.
  wer H; [|noer]. winvs. wer H; [|noer]. winvs.
  match type of H with (if ?b then _ else _) _ = _ => destruct b end; [|winvs; auto].
  wer H; [|noer]. winvs.
  match type of H with (match ?x with _ => _ end) _ = _ => destruct x end; [|winvs; auto].
  wer H; [|noer]. winvs.
  match type of H with (if ?b then _ else _) _ = _ => destruct b end; [noer|winvs; auto].
Qed.

Lemma e_set_reference_target_fail h target w e w' :
  e_set_reference_target T tab_el tab_en check_fn LATEST h target w = Val (ER e, w') ->
  w' = w \/ e = IncorrectContentType.
Proof.
  intros H. unfold e_set_reference_target in H.
  wer H; [|left; reflexivity]. winvs. wer H; [|left; reflexivity]. winvs.
  match type of H with (if ?b then _ else _) _ = _ => destruct b end; [winvs; left; reflexivity|].
  wer H; [|left; reflexivity]. wer H; [|left; reflexivity]. winvs. wer H; [|left; reflexivity]. winvs.
  wer H; [|left; reflexivity].
  match type of H with (match ?x with _ => _ end) _ = _ => destruct x as [item|] end; [|winvs; left; reflexivity].
  wer H; [|left; reflexivity]. wer H; [|left; reflexivity].
  wer H; [|noer].
  match goal with E : wtry _ _ = Val _ |- _ => apply wtry_inv in E as ([u|e0] & Et & Q); injection Q as -> end.
  - (* the attribute was written: only the final text write can fail *)
    right. wer H; [|noer]. wer H; [|noer]. wer H.
    + apply raw_set_character_data_err in H. tauto.
    + noer.
  - left. apply nf_raw_set_attribute in Et. subst. winvs. reflexivity.
Qed.

(* ---------- create_named_sub_element: the SHORT-NAME of the new element can always be created *)
Hypothesis tables_ok : tables_ok11 T.

Lemma calc_range_fresh_ok parent name et version se sidx w e w' :
  content_mode T et <> Val MCharacters ->
  find_sub_element T et (SHORT T) version = Val (Some (se, sidx)) ->
  calc_element_insert_range T (new_node parent name et) (SHORT T) version w = Val (ER e, w') -> False.
Proof.
  intros Hmode Hsn H. unfold calc_element_insert_range in H. cbn [new_node n_type n_content] in H.
  wer H; [|noer]. winvs.
  destruct (v =? MCharacters) eqn:Em; [apply N.eqb_eq in Em; congruence|].
  wer H; [|noer]. winvs. rewrite Hsn in *.
  match goal with Hx : Val _ = Val _ |- _ => injection Hx as <- end.
  destruct ((v =? MBag) || (v =? MMixed)); cbn [range_loop] in H; winvs.
Qed.

Lemma create_short_inner_ok c cn pos version se sidx w e w' :
  w_nodes w c = Some cn ->
  find_sub_element T (n_type cn) (SHORT T) version = Val (Some (se, sidx)) ->
  is_named_in_version T se version <> Val true ->
  create_sub_element_inner T c (SHORT T) pos version w = Val (ER e, w') -> False.
Proof.
  intros Hc Hsn Hse H. unfold create_sub_element_inner in H.
  wer H; [|noer]. winvs. same_nodes. wer H; [|noer]. winvs.
  rewrite Hsn in *. match goal with Hx : Val _ = Val _ |- _ => injection Hx as <- end.
  wer H; [|noer]. winvs. destruct v; [congruence|]. noer.
Qed.

Lemma create_named_inner_nf self name item pos m version w e w' :
  AllocBound w ->
  create_named_sub_element_inner T check_fn self name item pos m version w = Val (ER e, w') -> w' = w.
Proof.
  intros Hab H. unfold create_named_sub_element_inner in H.
  destruct (is_empty item); [winvs; reflexivity|].
  wro H. winvs. wro H. winvs.
  match type of H with (match ?x with _ => _ end) _ = _ => destruct x as [(et, idx0)|] end; [|winvs; reflexivity].
  wro H. winvs.
  match goal with Hx : is_named_in_version T et version = Val ?b |- _ => destruct b; cbn [negb] in H end;
    [|winvs; reflexivity].
  wro H. winvs.
  match goal with Hx : find_sub_element T et (SHORT T) version = Val ?v |- _ =>
    destruct v as [(se, sidx)|]; rename Hx into Hsn end.
  2:{ wro H. winvs. cbn [negb] in H. winvs. reflexivity. }
  destruct (tables_ok et version se sidx) as [Hmode Hse]; [assumption|exact Hsn|].
  wro H. match type of H with (if ?b then _ else _) _ = _ => destruct b end; [winvs; reflexivity|].
  wro H. wro H.
  match type of H with (match ?x with _ => _ end) _ = _ => destruct x end; [winvs; reflexivity|].
  exfalso.
  wer H; [|noer].
  match goal with E : alloc _ _ = Val _ |- _ => apply alloc_inv in E as (E & ->); injection E as -> end.
  wer H; [|noer].
  match goal with E : content_insert _ _ _ _ = Val _ |- _ => rename E into Eci end.
  assert (Hne : self <> w_next w) by (specialize (Hab _ _ Hn); lia).
  assert (Hne' : w_next w <> self) by congruence.
  unfold content_insert in Eci. wok Eci. winvs. upd_simpl.
  match type of Eci with (if ?b then _ else _) _ = _ => destruct b end; [discriminate Eci|].
  apply set_node_inv in Eci as (_ & ->).
  wer H; [noer|].
  match goal with E : raw_create_sub_element _ _ _ _ _ = Val _ |- _ => rename E into Er end.
  unfold raw_create_sub_element in Er. wer Er; [|noer]. winvs. upd_simpl.
  wer Er.
  - destruct a2 as (rs, re). eapply create_short_inner_ok; [| |exact Hse|exact Er];
      [cbn [w_nodes]; rewrite upd_neq by exact Hne'; apply upd_eq|exact Hsn].
  - match goal with E : calc_element_insert_range _ _ _ _ _ = Val (ER _, _) |- _ =>
      exact (calc_range_fresh_ok _ _ et version se sidx _ _ _ Hmode Hsn E) end.
Qed.

Lemma nfP_create_named_inner self name item pos m version :
  nfP AllocBound (create_named_sub_element_inner T check_fn self name item pos m version).
Proof. intros w e w' HP H. eapply create_named_inner_nf; eauto. Qed.

Lemma nfP_e_create_named h name item : nfP AllocBound (e_create_named_sub_element T check_fn LATEST h name item).
Proof.
  unfold e_create_named_sub_element, raw_create_named_sub_element.
  pose proof nfP_create_named_inner. nfP_tac.
Qed.
Lemma nfP_e_create_named_at h name item pos :
  nfP AllocBound (e_create_named_sub_element_at T check_fn LATEST h name item pos).
Proof.
  unfold e_create_named_sub_element_at, raw_create_named_sub_element_at.
  pose proof nfP_create_named_inner. nfP_tac.
Qed.
Lemma nfP_e_get_or_create_named h name item :
  nfP AllocBound (e_get_or_create_named_sub_element T check_fn LATEST h name item).
Proof.
  unfold e_get_or_create_named_sub_element, raw_create_named_sub_element.
  pose proof nfP_create_named_inner. nfP_tac.
Qed.

End Late.
