(* Tree/Frame.v — C13 proofs: FRAME / independence lemmas.
   An operation whose destination handle is h touches, of everything allocated before, only the node h, no file, and of
   the models only the two index maps of h's model (CopyFrame h m, Tree/CopyProofsDefs.v).  Consequently the whole
   tree, the model record and the reachable set of any OTHER model are unchanged (independent), and the nodes the
   operation adds are fresh, so disjointness of the reachable sets is preserved.
   Proved here for the LOCAL operations (everything that edits one element in place or adds below it, incl. the copy
   operations); the operations that walk through the tree or the index (move, remove, set_item_name, file membership,
   remove_file) are pending: C13_independent is stated for [local_dest o = Some h]. *)
From AV Require Import Base.Bytes Base.Outcome Hash.HashModel Tree.Heap Tree.Ops Tree.Script
  Tree.CopyProofsW Tree.CopyProofsDefs Tree.CopyProofsDeep Tree.CopyProofsCreate Tree.CopyProofsTop.
From Coq Require Import Lia.
Open Scope string_scope.
Open Scope list_scope.
Open Scope N_scope.

(* ------------------------------------------------------------------ the frame relation as a preorder with a fixed base *)
(* FR n0 h m : relative to the allocation bound n0 of the initial world *)
Definition FR (n0 : N) (h : id) (m : N) (w w' : world) : Prop :=
  n0 <= w_next w ->
  n0 <= w_next w' /\ w_next w <= w_next w' /\
  (forall i, i < n0 -> i <> h -> w_nodes w' i = w_nodes w i) /\
  w_files w' = w_files w /\ IdxOnly m (w_models w) (w_models w').

Lemma FR_refl n0 h m w : FR n0 h m w w.
Proof. intros H. repeat split; auto; try lia. apply IdxOnly_refl. Qed.
Lemma FR_trans n0 h m a b c : FR n0 h m a b -> FR n0 h m b c -> FR n0 h m a c.
Proof.
  intros H1 H2 Ha. destruct (H1 Ha) as (A1 & A2 & A3 & A4 & A5). destruct (H2 A1) as (B1 & B2 & B3 & B4 & B5).
  repeat split; try lia; try congruence.
  - intros i Hi Hh. rewrite B3 by auto. apply A3; auto.
  - eapply IdxOnly_trans; eauto.
Qed.

Lemma FR_CopyFrame h m w w' : FR (w_next w) h m w w' -> CopyFrame h m w w'.
Proof. intros H. destruct (H (N.le_refl _)) as (_ & A & B & C & D). repeat split; auto. Qed.

Lemma FR_wset n0 h m w i n : (i = h \/ n0 <= i) -> FR n0 h m w (wset w i n).
Proof.
  intros Hi Hn. unfold wset. cbn. repeat split; auto; try lia.
  - intros j Hj Hh. apply upd_neq. destruct Hi; lia.
  - apply IdxOnly_refl.
Qed.
Lemma FR_walloc n0 h m w n : FR n0 h m w (walloc w n).
Proof.
  intros Hn. unfold walloc. cbn. repeat split; auto; try lia.
  - intros j Hj Hh. apply upd_neq. lia.
  - apply IdxOnly_refl.
Qed.
Lemma FR_models n0 h m w x i o :
  nth_opt (w_models w) (N.to_nat m) = Some x ->
  FR n0 h m w (wmodels w (list_set (w_models w) (N.to_nat m) (mkModel (m_root x) (m_files x) i o))).
Proof.
  intros Hx Hn. unfold wmodels. cbn. repeat split; auto; try lia. right. eauto.
Qed.

(* computations that respect the frame (for every initial bound they are started above) *)
Definition frs (n0 : N) (h : id) (m : N) {A} (c : W A) : Prop := stab (FR n0 h m) c.

Lemma frs_ro n0 h m {A} (c : W A) : ro c -> frs n0 h m c.
Proof. apply stab_ro. apply FR_refl. Qed.
Lemma frs_bind n0 h m {A B} (c : W A) (k : A -> W B) : frs n0 h m c -> (forall a, frs n0 h m (k a)) -> frs n0 h m (wbind c k).
Proof. apply stab_bind. apply FR_trans. Qed.
Lemma frs_try n0 h m {A} (c : W A) : frs n0 h m c -> frs n0 h m (wtry c).
Proof. apply stab_try. Qed.

Lemma frs_modify_node n0 h m i f : (i = h \/ n0 <= i) -> frs n0 h m (modify_node i f).
Proof.
  intros Hi w r w' H. apply modify_node_wset in H as (n & _ & _ & ->). apply FR_wset. exact Hi.
Qed.
Lemma frs_set_node n0 h m i n : (i = h \/ n0 <= i) -> frs n0 h m (set_node i n).
Proof. intros Hi w r w' H. apply set_node_wset in H as (_ & ->). apply FR_wset. exact Hi. Qed.

Lemma frs_modify_model_idx n0 h m (g : model -> model) :
  (forall x, m_root (g x) = m_root x /\ m_files (g x) = m_files x) -> frs n0 h m (modify_model m g).
Proof.
  intros Hg w r w' H. apply modify_model_inv in H as (x & Hx & _ & ->).
  destruct (Hg x) as (Hr & Hf).
  replace (g x) with (mkModel (m_root x) (m_files x) (m_idents (g x)) (m_origins (g x))).
  - apply (FR_models n0 h m w x _ _ Hx).
  - destruct (g x); cbn in *; congruence.
Qed.

Lemma frs_content_insert n0 h m i it pos : (i = h \/ n0 <= i) -> frs n0 h m (content_insert i pos it).
Proof.
  intros Hi. unfold content_insert. apply frs_bind; [apply frs_ro; ro_tac|]. intros n.
  destruct (_ <? pos); [intros w r w' H; discriminate H|]. apply frs_set_node. auto.
Qed.

Lemma frs_bind_alloc n0 h m {B} n (k : id -> W B) :
  (forall c, n0 <= c -> frs n0 h m (k c)) -> frs n0 h m (wbind (alloc n) k).
Proof.
  intros Hk w r w' H. apply wbind_inv in H as [(a & w1 & E & H) | (e & E & _)].
  - apply alloc_walloc in E as (Ea & ->). injection Ea as ->.
    intros Hn. exact (FR_trans _ _ _ _ _ _ (FR_walloc n0 h m w n) (Hk _ Hn _ _ _ H) Hn).
  - apply alloc_walloc in E as ([=] & _).
Qed.

(* bind with a fact about the result of the first computation *)
Lemma frs_bind_res n0 h m {A B} (c : W A) (k : A -> W B) (P : A -> Prop) :
  frs n0 h m c ->
  (forall w a w', n0 <= w_next w -> c w = Val (OK a, w') -> P a) ->
  (forall a, P a -> frs n0 h m (k a)) -> frs n0 h m (wbind c k).
Proof.
  intros Hc HP Hk w r w' H Hn. apply wbind_inv in H as [(a & w1 & E & H) | (e & E & _)].
  - exact (FR_trans _ _ _ _ _ _ (Hc _ _ _ E) (Hk a (HP _ _ _ Hn E) _ _ _ H) Hn).
  - exact (Hc _ _ _ E Hn).
Qed.

(* index maintenance only touches the two maps of m *)
Lemma frs_add_identifiable n0 h m p e : frs n0 h m (add_identifiable m p e).
Proof. apply frs_modify_model_idx. intros x; split; reflexivity. Qed.
Lemma frs_remove_identifiable n0 h m p : frs n0 h m (remove_identifiable m p).
Proof. apply frs_modify_model_idx. intros x; split; reflexivity. Qed.
Lemma frs_fix_identifiables n0 h m a b : frs n0 h m (fix_identifiables m a b).
Proof. apply frs_modify_model_idx. intros x; split; reflexivity. Qed.
Lemma frs_add_reference_origin n0 h m p e : frs n0 h m (add_reference_origin m p e).
Proof. apply frs_modify_model_idx. intros x; split; reflexivity. Qed.
Lemma frs_fix_reference_origins n0 h m a b e : frs n0 h m (fix_reference_origins m a b e).
Proof.
  unfold fix_reference_origins. destruct (bytes_eqb a b); [apply frs_ro; ro_tac|].
  apply frs_modify_model_idx. intros x; split; reflexivity.
Qed.
Lemma frs_remove_reference_origin n0 h m p e : frs n0 h m (remove_reference_origin m p e).
Proof. apply frs_modify_model_idx. intros x; split; reflexivity. Qed.

(* decompose a goal `frs n0 h m c` structurally (apply unifies through non-recursive definitions, so this walks
   into the called functions); leaves the leaves that need an argument about ids *)
Ltac frs_step :=
  first
  [ solve [apply frs_ro; ro_tac]
  | apply frs_add_identifiable | apply frs_remove_identifiable | apply frs_fix_identifiables
  | apply frs_add_reference_origin | apply frs_fix_reference_origins | apply frs_remove_reference_origin
  | apply frs_modify_model_idx; solve [intros ?; split; reflexivity]
  | apply frs_content_insert; solve [auto | right; lia]
  | apply frs_modify_node; solve [auto | right; lia]
  | apply frs_set_node; solve [auto | right; lia]
  | apply frs_bind_alloc; intros ? ?
  | apply frs_bind; [ | intros ? ]
  | apply frs_try
  | match goal with
    | |- frs _ _ _ (match ?x with _ => _ end) => destruct x
    | |- frs _ _ _ (if ?b then _ else _) => destruct b
    | |- frs _ _ _ (let '(_, _) := ?x in _) => destruct x
    end ].
Ltac frs_tac := repeat frs_step.

Section Frame.
Variable T : tables.
Variable tab_el tab_en : nametab.
Variable check_fn : N -> list N -> res bool.
Variable LATEST : N.
Variable root_attrs : list (N * cdata).

(* ------------------------------------------------------------------ building blocks *)
Lemma frs_create_inner n0 h m self name pos version :
  (self = h \/ n0 <= self) -> frs n0 h m (create_sub_element_inner T self name pos version).
Proof. intros Hs. unfold create_sub_element_inner. frs_tac. Qed.

Lemma frs_raw_create_sub n0 h m self name version :
  (self = h \/ n0 <= self) -> frs n0 h m (raw_create_sub_element T self name version).
Proof. intros Hs. unfold raw_create_sub_element. frs_tac. Qed.

Lemma frs_raw_create_sub_at n0 h m self name pos version :
  (self = h \/ n0 <= self) -> frs n0 h m (raw_create_sub_element_at T self name pos version).
Proof. intros Hs. unfold raw_create_sub_element_at. frs_tac. Qed.

Lemma frs_raw_set_cdata n0 h m i v version :
  (i = h \/ n0 <= i) -> frs n0 h m (raw_set_character_data T check_fn i v version).
Proof. intros Hi. unfold raw_set_character_data. frs_tac. Qed.

Lemma raw_create_sub_result self name v w a w' :
  raw_create_sub_element T self name v w = Val (OK a, w') -> w_next w <= a.
Proof.
  unfold raw_create_sub_element, create_sub_element_inner. intros H.
  wrun H idtac. all: try discriminate. all: try lia.
Qed.

(* a sub-element created below a fresh element is fresh: the rule for `do s <- raw_create_sub_element c ..; k s` *)
Ltac frs_step2 :=
  first
  [ match goal with
    | |- frs ?n0 _ _ (wbind (raw_create_sub_element _ _ _ _) _) =>
      eapply (frs_bind_res n0 _ _ _ _ (fun a => n0 <= a));
      [ | intros ? ? ? ? ?HH; apply raw_create_sub_result in HH; lia | intros ? ? ]
    end
  | frs_step ].
Ltac frs_tac2 := repeat frs_step2.

Lemma frs_create_named_inner n0 h m name item pos version :
  frs n0 h m (create_named_sub_element_inner T check_fn h name item pos m version).
Proof. unfold create_named_sub_element_inner. frs_tac2. Qed.

Lemma frs_raw_create_named n0 h m name item version :
  frs n0 h m (raw_create_named_sub_element T check_fn h name item m version).
Proof. unfold raw_create_named_sub_element. frs_tac2. all: apply frs_create_named_inner. Qed.
Lemma frs_raw_create_named_at n0 h m name item pos version :
  frs n0 h m (raw_create_named_sub_element_at T check_fn h name item pos m version).
Proof. unfold raw_create_named_sub_element_at. frs_tac2. all: apply frs_create_named_inner. Qed.

Lemma frs_raw_set_attribute n0 h m attr v version : frs n0 h m (raw_set_attribute T check_fn h attr v version).
Proof. unfold raw_set_attribute. frs_tac. Qed.

Ltac frs_step3 :=
  first
  [ apply frs_create_named_inner | apply frs_raw_create_named | apply frs_raw_create_named_at
  | apply frs_raw_set_attribute
  | apply frs_raw_set_cdata; solve [auto | right; lia]
  | frs_step2 ].
Ltac frs_tac3 := repeat frs_step3.

(* ------------------------------------------------------------------ the public operations *)
(* the frame with the model found by model_of (for operations that maintain the index) *)
Definition FrameOf (h : id) (w w' : world) : Prop :=
  exists m, CopyFrame h m w w' /\ (w_models w' = w_models w \/ model_of h w = Val (OK m, w)).

Lemma FrameOf_refl h w : FrameOf h w w.
Proof. exists 0. split; [apply CopyFrame_of_Ext, Ext_refl | auto]. Qed.

(* operations that never touch a model record *)
Lemma FrameOf_nomodel {A} h (c : W A) :
  (forall n0 m, frs n0 h m c) -> forall w r w', c w = Val (r, w') -> FrameOf h w w'.
Proof.
  intros Hc w r w' H. exists (N.of_nat (List.length (w_models w))).
  pose proof (FR_CopyFrame h (N.of_nat (List.length (w_models w))) w w' (Hc _ _ _ _ _ H)) as F. split; auto.
  left. destruct F as (_ & _ & _ & [E|(x & i & o & Hx & _)]); auto.
  apply nth_opt_Some in Hx. rewrite Nnat.Nat2N.id in Hx. lia.
Qed.

(* operations that maintain the index of the model found by model_of: step over the read-only prefix, then the rest
   respects the frame of that model *)
Ltac frame_with_model H :=
  wrun_ro H ltac:(apply FrameOf_refl);
  try solve [apply FrameOf_refl];
  match goal with
  | Hm : model_of ?hh ?ww = Val (OK ?m, ?ww) |- FrameOf ?hh ?ww _ =>
    exists m; split;
    [ apply FR_CopyFrame;
      match type of H with
      | ?c _ = _ => let F := fresh "F" in assert (F : frs (w_next ww) hh m c) by frs_tac3; exact (F _ _ _ H)
      end
    | right; exact Hm ]
  end.

Lemma frame_create_sub h name w r w' : e_create_sub_element T LATEST h name w = Val (r, w') -> FrameOf h w w'.
Proof. apply FrameOf_nomodel. intros n0 m. unfold e_create_sub_element. frs_tac. Qed.
Lemma frame_create_sub_at h name pos w r w' : e_create_sub_element_at T LATEST h name pos w = Val (r, w') -> FrameOf h w w'.
Proof. apply FrameOf_nomodel. intros n0 m. unfold e_create_sub_element_at. frs_tac. Qed.
Lemma frame_get_or_create h name w r w' : e_get_or_create_sub_element T LATEST h name w = Val (r, w') -> FrameOf h w w'.
Proof. apply FrameOf_nomodel. intros n0 m. unfold e_get_or_create_sub_element. frs_tac. Qed.
Lemma frame_insert_citem h t p w r w' : e_insert_character_content_item T h t p w = Val (r, w') -> FrameOf h w w'.
Proof. apply FrameOf_nomodel. intros n0 m. unfold e_insert_character_content_item. frs_tac. Qed.
Lemma frame_remove_citem h p w r w' : e_remove_character_content_item T h p w = Val (r, w') -> FrameOf h w w'.
Proof. apply FrameOf_nomodel. intros n0 m. unfold e_remove_character_content_item. frs_tac. Qed.
Lemma frame_set_attribute h a v w r w' : e_set_attribute T check_fn LATEST h a v w = Val (r, w') -> FrameOf h w w'.
Proof. apply FrameOf_nomodel. intros n0 m. unfold e_set_attribute. frs_tac. Qed.
Lemma frame_remove_attribute h a w r w' : e_remove_attribute T h a w = Val (r, w') -> FrameOf h w w'.
Proof. apply FrameOf_nomodel. intros n0 m. unfold e_remove_attribute. frs_tac. Qed.
Lemma frame_set_comment h c w r w' : e_set_comment h c w = Val (r, w') -> FrameOf h w w'.
Proof. apply FrameOf_nomodel. intros n0 m. unfold e_set_comment. frs_tac. Qed.

Lemma frame_create_named h name item w r w' :
  e_create_named_sub_element T check_fn LATEST h name item w = Val (r, w') -> FrameOf h w w'.
Proof. unfold e_create_named_sub_element. intros H. frame_with_model H. Qed.
Lemma frame_create_named_at h name item pos w r w' :
  e_create_named_sub_element_at T check_fn LATEST h name item pos w = Val (r, w') -> FrameOf h w w'.
Proof. unfold e_create_named_sub_element_at. intros H. frame_with_model H. Qed.
Lemma frame_get_or_create_named h name item w r w' :
  e_get_or_create_named_sub_element T check_fn LATEST h name item w = Val (r, w') -> FrameOf h w w'.
Proof. unfold e_get_or_create_named_sub_element. intros H. frame_with_model H. Qed.

Lemma frame_set_character_data h v w r w' :
  e_set_character_data T tab_en check_fn LATEST h v w = Val (r, w') -> FrameOf h w w'.
Proof. unfold e_set_character_data. intros H. frame_with_model H. Qed.

Lemma frame_remove_character_data h w r w' :
  e_remove_character_data T h w = Val (r, w') -> FrameOf h w w'.
Proof.
  unfold e_remove_character_data. intros H.
  wrun_ro H ltac:(apply FrameOf_refl).
  all: try solve [apply FrameOf_refl].
  destruct v1.
  - (* a reference element: the origin entry of h's model is removed *)
    apply wbind_inv in H as [(u & w1 & E & H) | (e & E & ->)].
    + apply wbind_inv in E as [(m & w2 & Em & E) | (e & Em & [=])].
      assert (w2 = w) by (eapply ro_model_of; eauto). subst w2.
      exists m. split; [|right; exact Em]. apply FR_CopyFrame.
      eapply FR_trans.
      * assert (F : frs (w_next w) h m (match c with DString r0 => remove_reference_origin m r0 h | _ => wret tt end))
          by frs_tac3.
        exact (F _ _ _ E).
      * assert (F : frs (w_next w) h m (modify_node h (fun x => set_content x []))) by frs_tac3.
        exact (F _ _ _ H).
    + apply wbind_inv in E as [(m & w2 & Em & E) | (e' & Em & _)].
      * assert (w2 = w) by (eapply ro_model_of; eauto). subst w2.
        exists m. split; [|right; exact Em]. apply FR_CopyFrame.
        assert (F : frs (w_next w) h m (match c with DString r0 => remove_reference_origin m r0 h | _ => wret tt end))
          by frs_tac3.
        exact (F _ _ _ E).
      * assert (w' = w) by (eapply ro_model_of; eauto). subst w'. apply FrameOf_refl.
  - revert H. apply FrameOf_nomodel. intros n0 m. frs_tac3.
Qed.

Lemma frame_set_reference_target h target w r w' :
  e_set_reference_target T tab_el tab_en check_fn LATEST h target w = Val (r, w') -> FrameOf h w w'.
Proof. unfold e_set_reference_target. intros H. frame_with_model H. Qed.

(* the copy operations *)
Lemma frame_copy h other pos w r w' :
  Closed w -> copy_call T LATEST h other pos w = Val (r, w') -> FrameOf h w w'.
Proof.
  intros Cw H. apply copy_call_inner in H as [(-> & _) | (m & v & p & _ & Hm & _ & H)].
  - apply FrameOf_refl.
  - destruct (ccsei_spec T _ _ _ _ _ _ _ _ Cw H) as (_ & Fr & _). exists m. split; auto.
Qed.

(* ------------------------------------------------------------------ the operation alphabet *)
Definition local_dest (o : op) : option id :=
  match o with
  | OpCreateSub h _ | OpCreateSubAt h _ _ | OpCreateNamed h _ _ | OpCreateNamedAt h _ _ _
  | OpCopy h _ | OpCopyAt h _ _
  | OpSetCData h _ | OpRemoveCData h | OpInsertCItem h _ _ | OpRemoveCItem h _
  | OpSetRefTarget h _ | OpSetAttr h _ _ | OpRemoveAttr h _ | OpSetComment h _
  | OpGetOrCreate h _ | OpGetOrCreateNamed h _ _ => Some h
  | _ => None
  end.

Lemma welem_inv (c : W id) w r w' : welem c w = Val (r, w') -> exists r0, c w = Val (r0, w').
Proof.
  unfold welem. intros H. apply wbind_inv in H as [(a & w1 & E & H) | (e & E & _)]; eauto.
  apply wret_inv in H as (_ & ->). eauto.
Qed.
Lemma wunit_inv (c : W unit) w r w' : wunit c w = Val (r, w') -> exists r0, c w = Val (r0, w').
Proof.
  unfold wunit. intros H. apply wbind_inv in H as [(a & w1 & E & H) | (e & E & _)]; eauto.
  apply wret_inv in H as (_ & ->). eauto.
Qed.

Theorem local_frame o h w r w' :
  local_dest o = Some h -> Closed w ->
  run_op T tab_el tab_en check_fn LATEST root_attrs o w = Val (r, w') -> FrameOf h w w'.
Proof.
  intros Hd Cw H.
  destruct o; cbn [local_dest] in Hd; try discriminate Hd; injection Hd as ->; cbn [run_op] in H.
  all: try (apply welem_inv in H as (r0 & H)).
  all: try (apply wunit_inv in H as (r0 & H)).
  - eapply frame_create_sub; eauto.
  - eapply frame_create_sub_at; eauto.
  - eapply frame_create_named; eauto.
  - eapply frame_create_named_at; eauto.
  - exact (frame_copy h other None w r0 w' Cw H).
  - exact (frame_copy h other (Some pos) w r0 w' Cw H).
  - eapply frame_set_character_data; eauto.
  - eapply frame_remove_character_data; eauto.
  - eapply frame_insert_citem; eauto.
  - eapply frame_remove_citem; eauto.
  - eapply frame_set_reference_target; eauto.
  - eapply frame_set_attribute; eauto.
  - apply wbind_inv in H as [(b & w1 & E & H) | (e & E & _)].
    + apply wret_inv in H as (_ & ->). eapply frame_remove_attribute; eauto.
    + eapply frame_remove_attribute; eauto.
  - eapply frame_set_comment; eauto.
  - eapply frame_get_or_create; eauto.
  - eapply frame_get_or_create_named; eauto.
Qed.

(* ------------------------------------------------------------------ independence *)
Lemma Sub_allocated w a x n0 :
  Closed w -> w_nodes w a = Some n0 -> Sub w a x -> exists n, w_nodes w x = Some n.
Proof.
  intros Cw Ha HS. induction HS; eauto. eapply (proj2 Cw); eauto.
Qed.

Theorem independent h w w' b xb nb :
  FrameOf h w w' -> Closed w ->
  nth_opt (w_models w) (N.to_nat b) = Some xb -> w_nodes w (m_root xb) = Some nb ->
  (forall x, Sub w (m_root xb) x -> x <> h) ->
  model_of h w <> Val (OK b, w) ->
  nth_opt (w_models w') (N.to_nat b) = Some xb /\ w_files w' = w_files w /\
  (forall x, Sub w (m_root xb) x -> w_nodes w' x = w_nodes w x) /\
  (forall x, Sub w' (m_root xb) x <-> Sub w (m_root xb) x) /\
  (forall x, Sub w' (m_root xb) x -> x < w_next w).
Proof.
  intros (m & (Hn & Hk & Hf & Hi) & Hm) Cw Hb Hroot Hdis Hmod.
  assert (Hsame : forall x, Sub w (m_root xb) x -> w_nodes w' x = w_nodes w x).
  { intros x HS. destruct (Sub_allocated _ _ _ _ Cw Hroot HS) as (n & Hx).
    apply Hk; [eapply (proj1 Cw); eauto | apply Hdis; exact HS]. }
  assert (Hiff : forall x, Sub w' (m_root xb) x <-> Sub w (m_root xb) x).
  { intros x. split; intros HS.
    - induction HS as [|p n c HS IH Hp Hin]; [constructor|].
      rewrite (Hsame p IH) in Hp. econstructor; eauto.
    - induction HS as [|p n c HS IH Hp Hin]; [constructor|].
      rewrite <- (Hsame p HS) in Hp. econstructor; eauto. }
  split; [|split; [exact Hf|split; [exact Hsame|split; [exact Hiff|]]]].
  - destruct Hm as [E|Hm]; [rewrite E; exact Hb|].
    destruct (IdxOnly_nth _ _ _ _ _ Hi Hb) as (y & Hy & _ & _ & Heq).
    rewrite Hy. f_equal. apply Heq. intros E. apply Hmod. rewrite Hm. do 3 f_equal.
    apply Nnat.N2Nat.inj. symmetry. exact E.
  - intros x HS. apply Hiff in HS. destruct (Sub_allocated _ _ _ _ Cw Hroot HS) as (n & Hx).
    eapply (proj1 Cw); eauto.
Qed.

(* an operation with destination handle h in some model leaves every OTHER model b alone: its record, its files, its
   whole tree (node by node) and its reachable set are unchanged; whatever the operation allocated is not in b *)
Theorem independent_op o h w r w' b xb nb :
  local_dest o = Some h -> Closed w ->
  run_op T tab_el tab_en check_fn LATEST root_attrs o w = Val (r, w') ->
  nth_opt (w_models w) (N.to_nat b) = Some xb -> w_nodes w (m_root xb) = Some nb ->
  (forall x, Sub w (m_root xb) x -> x <> h) ->
  model_of h w <> Val (OK b, w) ->
  nth_opt (w_models w') (N.to_nat b) = Some xb /\ w_files w' = w_files w /\
  (forall x, Sub w (m_root xb) x -> w_nodes w' x = w_nodes w x) /\
  (forall x, Sub w' (m_root xb) x <-> Sub w (m_root xb) x) /\
  (forall x, Sub w' (m_root xb) x -> x < w_next w).
Proof.
  intros Hd Cw H. eapply independent; eauto. eapply local_frame; eauto.
Qed.

End Frame.
