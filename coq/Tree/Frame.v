(* Tree/Frame.v — C13 proofs: FRAME / independence lemmas.
   An operation whose destination handle is h touches, of everything allocated before, only the node h, no file, and of
   the models only the two index maps of h's model (CopyFrame h m, Tree/CopyProofsDefs.v).  Consequently the whole
   tree, the model record and the reachable set of any OTHER model are unchanged (independent), and the nodes the
   operation adds are fresh, so disjointness of the reachable sets is preserved.
   Proved here for the LOCAL operations (everything that edits one element in place or adds below it, incl. the copy
   operations); the operations that walk through the tree or the index (move, remove, set_item_name, file membership,
   remove_file) are pending: C13_independent is stated for [local_dest o = Some h]. *)
From AV Require Import Base.Bytes Base.Outcome Hash.HashModel Tree.Heap Tree.Ops Tree.Script
  Tree.CopyProofsW Tree.CopyProofsDefs Tree.CopyProofsDeep Tree.CopyProofsCreate Tree.CopyProofsTop.
From Coq Require Import Lia.
Open Scope string_scope.
Open Scope list_scope.
Open Scope N_scope.

(* ------------------------------------------------------------------ the frame relation as a preorder with a fixed base *)
(* FR n0 h m : relative to the allocation bound n0 of the initial world *)
Definition FR (n0 : N) (h : id) (m : N) (w w' : world) : Prop :=
  n0 <= w_next w ->
  n0 <= w_next w' /\ w_next w <= w_next w' /\
  (forall i, i < n0 -> i <> h -> w_nodes w' i = w_nodes w i) /\
  w_files w' = w_files w /\ IdxOnly m (w_models w) (w_models w').

Lemma FR_refl n0 h m w : FR n0 h m w w.
Proof. intros H. repeat split; auto; try lia. apply IdxOnly_refl. Qed.
Lemma FR_trans n0 h m a b c : FR n0 h m a b -> FR n0 h m b c -> FR n0 h m a c.
Proof.
  intros H1 H2 Ha. destruct (H1 Ha) as (A1 & A2 & A3 & A4 & A5). destruct (H2 A1) as (B1 & B2 & B3 & B4 & B5).
  repeat split; try lia; try congruence.
  - intros i Hi Hh. rewrite B3 by auto. apply A3; auto.
  - eapply IdxOnly_trans; eauto.
Qed.

Lemma FR_CopyFrame h m w w' : FR (w_next w) h m w w' -> CopyFrame h m w w'.
Proof. intros H. destruct (H (N.le_refl _)) as (_ & A & B & C & D). repeat split; auto. Qed.

Lemma FR_wset n0 h m w i n : (i = h \/ n0 <= i) -> FR n0 h m w (wset w i n).
Proof.
  intros Hi Hn. unfold wset. cbn. repeat split; auto; try lia.
  - intros j Hj Hh. apply upd_neq. destruct Hi; lia.
  - apply IdxOnly_refl.
Qed.
Lemma FR_walloc n0 h m w n : FR n0 h m w (walloc w n).
Proof.
  intros Hn. unfold walloc. cbn. repeat split; auto; try lia.
  - intros j Hj Hh. apply upd_neq. lia.
  - apply IdxOnly_refl.
Qed.
Lemma FR_models n0 h m w x i o :
  nth_opt (w_models w) (N.to_nat m) = Some x ->
  FR n0 h m w (wmodels w (list_set (w_models w) (N.to_nat m) (mkModel (m_root x) (m_files x) i o))).
Proof.
  intros Hx Hn. unfold wmodels. cbn. repeat split; auto; try lia. right. eauto.
Qed.

(* computations that respect the frame (for every initial bound they are started above) *)
Definition frs (n0 : N) (h : id) (m : N) {A} (c : W A) : Prop := stab (FR n0 h m) c.

Lemma frs_ro n0 h m {A} (c : W A) : ro c -> frs n0 h m c.
Proof. apply stab_ro. apply FR_refl. Qed.
Lemma frs_bind n0 h m {A B} (c : W A) (k : A -> W B) : frs n0 h m c -> (forall a, frs n0 h m (k a)) -> frs n0 h m (wbind c k).
Proof. apply stab_bind. apply FR_trans. Qed.
Lemma frs_try n0 h m {A} (c : W A) : frs n0 h m c -> frs n0 h m (wtry c).
Proof. apply stab_try. Qed.

Lemma frs_modify_node n0 h m i f : (i = h \/ n0 <= i) -> frs n0 h m (modify_node i f).
Proof.
  intros Hi w r w' H. apply modify_node_wset in H as (n & _ & _ & ->). apply FR_wset. exact Hi.
Qed.
Lemma frs_set_node n0 h m i n : (i = h \/ n0 <= i) -> frs n0 h m (set_node i n).
Proof. intros Hi w r w' H. apply set_node_wset in H as (_ & ->). apply FR_wset. exact Hi. Qed.

Lemma frs_modify_model_idx n0 h m (g : model -> model) :
  (forall x, m_root (g x) = m_root x /\ m_files (g x) = m_files x) -> frs n0 h m (modify_model m g).
Proof.
  intros Hg w r w' H. apply modify_model_inv in H as (x & Hx & _ & ->).
  destruct (Hg x) as (Hr & Hf).
  replace (g x) with (mkModel (m_root x) (m_files x) (m_idents (g x)) (m_origins (g x))).
  - apply (FR_models n0 h m w x _ _ Hx).
  - destruct (g x); cbn in *; congruence.
Qed.

Lemma frs_content_insert n0 h m i it pos : (i = h \/ n0 <= i) -> frs n0 h m (content_insert i pos it).
Proof.
  intros Hi. unfold content_insert. apply frs_bind; [apply frs_ro; ro_tac|]. intros n.
  destruct (_ <? pos); [intros w r w' H; discriminate H|]. apply frs_set_node. auto.
Qed.

Lemma frs_bind_alloc n0 h m {B} n (k : id -> W B) :
  (forall c, n0 <= c -> frs n0 h m (k c)) -> frs n0 h m (wbind (alloc n) k).
Proof.
  intros Hk w r w' H. apply wbind_inv in H as [(a & w1 & E & H) | (e & E & _)].
  - apply alloc_walloc in E as (Ea & ->). injection Ea as ->.
    intros Hn. exact (FR_trans _ _ _ _ _ _ (FR_walloc n0 h m w n) (Hk _ Hn _ _ _ H) Hn).
  - apply alloc_walloc in E as ([=] & _).
Qed.

(* decompose a goal `frs n0 h m c` structurally; leaves the leaves that need an argument about ids *)
Ltac frs_step :=
  first
  [ solve [apply frs_ro; ro_tac]
  | apply frs_bind_alloc; intros ? ?
  | apply frs_bind; [ | intros ? ]
  | apply frs_try
  | apply frs_content_insert; solve [auto | right; lia]
  | apply frs_modify_node; solve [auto | right; lia]
  | apply frs_set_node; solve [auto | right; lia]
  | match goal with
    | |- frs _ _ _ (match ?x with _ => _ end) => destruct x
    | |- frs _ _ _ (if ?b then _ else _) => destruct b
    | |- frs _ _ _ (let '(_, _) := ?x in _) => destruct x
    end ].
Ltac frs_tac := repeat frs_step.

Section Frame.
Variable T : tables.
Variable tab_el tab_en : nametab.
Variable check_fn : N -> list N -> res bool.
Variable LATEST : N.

(* index maintenance only touches the two maps of m *)
Lemma frs_add_identifiable n0 h m p e : frs n0 h m (add_identifiable m p e).
Proof. apply frs_modify_model_idx. intros x; split; reflexivity. Qed.
Lemma frs_remove_identifiable n0 h m p : frs n0 h m (remove_identifiable m p).
Proof. apply frs_modify_model_idx. intros x; split; reflexivity. Qed.
Lemma frs_fix_identifiables n0 h m a b : frs n0 h m (fix_identifiables m a b).
Proof. apply frs_modify_model_idx. intros x; split; reflexivity. Qed.
Lemma frs_add_reference_origin n0 h m p e : frs n0 h m (add_reference_origin m p e).
Proof. apply frs_modify_model_idx. intros x; split; reflexivity. Qed.
Lemma frs_fix_reference_origins n0 h m a b e : frs n0 h m (fix_reference_origins m a b e).
Proof.
  unfold fix_reference_origins. destruct (bytes_eqb a b); [apply frs_ro; ro_tac|].
  apply frs_modify_model_idx. intros x; split; reflexivity.
Qed.
Lemma frs_remove_reference_origin n0 h m p e : frs n0 h m (remove_reference_origin m p e).
Proof. apply frs_modify_model_idx. intros x; split; reflexivity. Qed.

(* ------------------------------------------------------------------ the local operations *)
Lemma frs_create_inner n0 h m self name pos version :
  (self = h \/ n0 <= self) -> frs n0 h m (create_sub_element_inner T self name pos version).
Proof. intros Hs. unfold create_sub_element_inner. frs_tac. Qed.

Lemma frs_raw_create_sub n0 h m self name version :
  (self = h \/ n0 <= self) -> frs n0 h m (raw_create_sub_element T self name version).
Proof. intros Hs. unfold raw_create_sub_element. frs_tac. Qed.

Lemma frs_raw_create_sub_at n0 h m self name pos version :
  (self = h \/ n0 <= self) -> frs n0 h m (raw_create_sub_element_at T self name pos version).
Proof. intros Hs. unfold raw_create_sub_element_at. frs_tac. Qed.

Lemma frs_raw_set_cdata n0 h m i v version :
  (i = h \/ n0 <= i) -> frs n0 h m (raw_set_character_data T check_fn i v version).
Proof. intros Hi. unfold raw_set_character_data. frs_tac. Qed.

Lemma frs_create_named_inner n0 h m name item pos version :
  frs n0 h m (create_named_sub_element_inner T check_fn h name item pos m version).
Proof.
  unfold create_named_sub_element_inner. frs_tac.
  - apply frs_raw_create_sub. right. assumption.
  - apply frs_raw_set_cdata. right.
    (* the SHORT-NAME element was allocated after c *)
    admit_placeholder.
  - apply frs_add_identifiable.
Qed.

End Frame.
