(* Tree/InvProofsDetFiles2.v — C03: DF (detached elements carry no local file set) is preserved, part 2:
   creation, removal, moves, copies. *)
From Coq Require Import PeanoNat Arith.
From AV Require Import Base.Bytes Base.Outcome Hash.HashModel Tree.Heap Tree.Ops Tree.Script Tree.Inv
  Tree.InvProofsBase Tree.InvProofsCore Tree.InvProofsTree Tree.InvProofsPrim Tree.InvProofsCreate
  Tree.InvProofsData Tree.InvProofsRefs Tree.InvProofsRemove Tree.InvProofsMove Tree.InvProofsCopy
  Tree.InvProofsRename Tree.InvProofsFrame Tree.StaleProofs Tree.InvProofsDetFiles.
Open Scope string_scope.
Open Scope list_scope.
Open Scope N_scope.

Notation pframe := (frame pfNR pfNN).
Notation pfp := (frp pfNR pfNN).

(* turn a completed step of a pfp computation into a frame fact *)
Ltac pf_of E L :=
  match type of E with
  | ?m ?wa = Val (_, ?wb) =>
    let S := fresh "PF" in assert (S : pframe wa wb) by (refine ((_ : pfp m) wa _ wb E); L)
  end.

(* computations that keep the frame in a world that satisfies Core (allocation needs a fresh id) *)
Definition pfpC {A} (m : W A) : Prop := forall w r w', Core w -> m w = Val (r, w') -> pframe w w'.
Lemma pfpC_pfp {A} (m : W A) : pfp m -> pfpC m.
Proof. intros H w r w' _ E. eapply H; eauto. Qed.
Lemma pfpC_bind_ro {A B} (m : W A) (k : A -> W B) : ro m -> (forall a, pfpC (k a)) -> pfpC (wbind m k).
Proof.
  intros Hm Hk w r w' C H. apply wbind_inv in H as [(a & w1 & H1 & H2) | (e & H1 & _)].
  - pose proof (Hm _ _ _ H1). subst. eapply Hk; eauto.
  - pose proof (Hm _ _ _ H1). subst. apply pframe_refl.
Qed.
Ltac pfc_step :=
  first [ solve [auto with frp]
        | assumption
        | match goal with |- pfpC (wbind _ _) => apply pfpC_bind_ro; [solve [ro_tac] | intros ?] end
        | apply pfpC_pfp; solve [pf_tac]
        | match goal with
          | |- pfpC (match ?x with _ => _ end) => destruct x
          | |- pfpC (if ?b then _ else _) => destruct b
          end ].
Ltac pfc_tac := repeat pfc_step.

Section DF2.
Variable T : tables.
Variable tab_el tab_en : nametab.
Variable check_fn : N -> list N -> res bool.
Variable LATEST : N.

(* ---------- create ---------- *)
Lemma pfc_create_inner self name pos version : pfpC (create_sub_element_inner T self name pos version).
Proof.
  intros w r w' C H. unfold create_sub_element_inner in H.
  wrun_ro H ltac:(apply pframe_refl).
  wstepn H c Ea. match type of Ea with alloc ?nd _ = _ => pose proof (pfp_alloc nd eq_refl _ _ _ C Ea) as F1 end.
  match type of H with ?mm ?wa = _ => refine (pframe_trans _ _ _ F1 ((_ : pfp mm) wa _ _ H)) end. pf_tac.
Qed.
Hint Resolve pfc_create_inner : frp.
Lemma pfc_raw_create_sub self name version : pfpC (raw_create_sub_element T self name version).
Proof. unfold raw_create_sub_element. pfc_tac. Qed.
Lemma pfc_raw_create_sub_at self name pos version : pfpC (raw_create_sub_element_at T self name pos version).
Proof. unfold raw_create_sub_element_at. pfc_tac. Qed.
Hint Resolve pfc_raw_create_sub pfc_raw_create_sub_at : frp.
Lemma pfc_e_create_sub h name : pfpC (e_create_sub_element T LATEST h name).
Proof. unfold e_create_sub_element. pfc_tac. Qed.
Lemma pfc_e_create_sub_at h name pos : pfpC (e_create_sub_element_at T LATEST h name pos).
Proof. unfold e_create_sub_element_at. pfc_tac. Qed.
Lemma pfc_e_get_or_create h name : pfpC (e_get_or_create_sub_element T LATEST h name).
Proof. unfold e_get_or_create_sub_element. pfc_tac. Qed.

Lemma pfc_create_named_inner self name item pos m version :
  pfpC (create_named_sub_element_inner T check_fn self name item pos m version).
Proof.
  intros w r w' C H. unfold create_named_sub_element_inner in H.
  wrun_ro H ltac:(apply pframe_refl).
  wstepn H c Ea. match type of Ea with alloc ?nd _ = _ => pose proof (pfp_alloc nd eq_refl _ _ _ C Ea) as F1 end.
  apply alloc_walloc in Ea as ([= ->] & ->).
  wstepn H u Ei.
  2:{ eapply pframe_trans; [exact F1|]. eapply (pfp_content_insert); eauto. }
  pose proof (pfp_content_insert _ _ _ _ _ _ Ei) as F2.
  match goal with Hn : w_nodes w self = Some ?n0, Ei : content_insert self pos _ (walloc w ?nd) = _ |- _ =>
    destruct (create_pair w self n0 nd pos _ _ C Hn eq_refl eq_refl Ei) as (C1 & _) end.
  wstepn H s Es.
  2:{ eapply pframe_trans; [exact F1|]. eapply pframe_trans; [exact F2|]. eapply pfc_raw_create_sub; eauto. }
  pose proof (pfc_raw_create_sub _ _ _ _ _ _ C1 Es) as F3.
  match type of H with ?mm ?wa = _ =>
    refine (pframe_trans _ _ _ F1 (pframe_trans _ _ _ F2 (pframe_trans _ _ _ F3 ((_ : pfp mm) wa _ _ H)))) end.
  pf_tac.
Qed.
Hint Resolve pfc_create_named_inner : frp.
Lemma pfc_raw_create_named self name item m version : pfpC (raw_create_named_sub_element T check_fn self name item m version).
Proof. unfold raw_create_named_sub_element. pfc_tac. Qed.
Lemma pfc_raw_create_named_at self name item pos m version :
  pfpC (raw_create_named_sub_element_at T check_fn self name item pos m version).
Proof. unfold raw_create_named_sub_element_at. pfc_tac. Qed.
Hint Resolve pfc_raw_create_named pfc_raw_create_named_at : frp.
Lemma pfc_e_create_named h name item : pfpC (e_create_named_sub_element T check_fn LATEST h name item).
Proof. unfold e_create_named_sub_element. pfc_tac. Qed.
Lemma pfc_e_create_named_at h name item pos : pfpC (e_create_named_sub_element_at T check_fn LATEST h name item pos).
Proof. unfold e_create_named_sub_element_at. pfc_tac. Qed.
Lemma pfc_e_get_or_create_named h name item : pfpC (e_get_or_create_named_sub_element T check_fn LATEST h name item).
Proof. unfold e_get_or_create_named_sub_element. pfc_tac. Qed.

End DF2.
