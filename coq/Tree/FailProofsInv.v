(* Tree/FailProofsInv.v — bridge from C03's invariant (Tree/Inv.v, Core) to the structural side conditions of C11:
   no node is its own parent, nothing is allocated beyond w_next, every id a node or a model mentions is allocated. *)
From Coq Require Import Lia.
From AV Require Import Base.Bytes Base.Outcome Hash.HashModel Tree.Heap Tree.Ops Tree.Script Tree.Inv
  Tree.Fail Tree.Observe Tree.FailProofs.
Open Scope list_scope.
Open Scope N_scope.

Lemma in_elems11 c l : In c (elems l) <-> In (CElem c) l.
Proof.
  unfold elems. rewrite in_flat_map. split.
  - intros ([x|d] & Hx & Hc); cbn in Hc; [destruct Hc as [->|[]]; auto | destruct Hc].
  - intros H. exists (CElem c). split; auto. cbn. auto.
Qed.

Lemma Core_NoSelfParent w : Core w -> NoSelfParent w.
Proof.
  intros HC i n Hn Hp.
  destruct (c_depth w HC i) as (h & Hd); [exists n; exact Hn|].
  assert (G : forall x k, Depth w x k -> x = i -> False).
  { clear Hd. intros x k Hd. induction Hd as [x n0 Hn0 Htop | x n0 p k Hn0 Hp0 Hd IH]; intros ->.
    - rewrite Hn in Hn0. injection Hn0 as <-. eapply Htop; eauto.
    - rewrite Hn in Hn0. injection Hn0 as <-. rewrite Hp in Hp0. injection Hp0 as <-. apply IH. reflexivity. }
  eapply G; eauto.
Qed.

Lemma Core_AllocBound w : Core w -> AllocBound w.
Proof. intros HC i n Hn. apply (c_alloc w HC). exists n. exact Hn. Qed.

Lemma Core_Inv11 w : Core w -> Inv11 w.
Proof. intros HC. split; [apply Core_NoSelfParent|apply Core_AllocBound]; exact HC. Qed.

Lemma Core_ClosedHeap w : Core w -> ClosedHeap w.
Proof.
  intros HC. split; [|split].
  - intros i n c Hn Hin. destruct (c_up w HC i c) as (cn & Hcn & _).
    + exists n. split; [exact Hn|]. apply in_elems11. exact Hin.
    + apply (c_alloc w HC). exists cn. exact Hcn.
  - intros x Hx. assert (Hr : In (m_root x) (roots w)) by (unfold roots; apply in_map; exact Hx).
    apply In_nth_error in Hr as (k & Hk). destruct (c_roots w HC k _ Hk) as (n & Hn & _).
    apply (c_alloc w HC). exists n. exact Hn.
  - apply Core_AllocBound. exact HC.
Qed.

Lemma TreeInv_Inv11 w : TreeInv w -> Inv11 w.
Proof. intros [HC _]. apply Core_Inv11. exact HC. Qed.
Lemma TreeInv_ClosedHeap w : TreeInv w -> ClosedHeap w.
Proof. intros [HC _]. apply Core_ClosedHeap. exact HC. Qed.

(* ---------- the C11 theorems stated with C03's Core invariant ---------- *)
Lemma fail_no_effect_core :
  forall (T : tables) (tab_el tab_en : nametab) (check_fn : N -> list N -> res bool) (LATEST : N)
         (root_attrs : list (N * cdata)),
  tables_ok11 T ->
  forall (w : world) (o : op) (e : err) (w' : world),
  Core w ->
  Known11 T tab_el tab_en check_fn LATEST root_attrs w o = false ->
  run_op T tab_el tab_en check_fn LATEST root_attrs o w = Val (ER e, w') ->
  obs_eq_upto_garbage w w'.
Proof.
  intros T tab_el tab_en check_fn LATEST root_attrs HT w o e w' HC.
  exact (C11_fail_no_effect T tab_el tab_en check_fn LATEST root_attrs HT w o e w' (Core_Inv11 w HC)).
Qed.

Lemma fail_exact_core :
  forall (T : tables) (tab_el tab_en : nametab) (check_fn : N -> list N -> res bool) (LATEST : N)
         (root_attrs : list (N * cdata)),
  tables_ok11 T ->
  forall (w : world) (o : op) (e : err) (w' : world),
  Core w ->
  Known11 T tab_el tab_en check_fn LATEST root_attrs w o = false ->
  is_copy o = false ->
  run_op T tab_el tab_en check_fn LATEST root_attrs o w = Val (ER e, w') ->
  w' = w /\ observe w' = observe w.
Proof.
  intros T tab_el tab_en check_fn LATEST root_attrs HT w o e w' HC.
  exact (C11_fail_exact T tab_el tab_en check_fn LATEST root_attrs HT w o e w' (Core_Inv11 w HC)).
Qed.

Lemma garbage_unreachable_core :
  forall (w w' : world), Core w -> obs_eq_upto_garbage w w' ->
  (forall a x, a < w_next w -> reach_from w' a x -> x < w_next w) /\
  (forall m x, In m (w_models w') -> reach_from w' (m_root m) x -> x < w_next w) /\
  map (w_nodes w') (ids_below (w_next w)) = o_nodes (observe w).
Proof.
  intros w w' HC HG. split; [|split].
  - exact (garbage_unreachable w w' (Core_ClosedHeap w HC) HG).
  - exact (garbage_unreachable_from_roots w w' (Core_ClosedHeap w HC) HG).
  - exact (proj1 (garbage_old_observation w w' HG)).
Qed.
