(* Tree/FilesProofsNames2.v — C10 proofs: Core, FilesOwned and NamesUnique over the WHOLE extended alphabet op2 (sort,
   duplicate, load, set_version, check, serialize) outside C03's Known_load.  duplicate() needs nothing about the
   original's names: every file of the copy is made by create_file, whose duplicate-name check keeps the invariant. *)
From Coq Require Import PeanoNat Arith Lia.
From AV Require Import Base.Bytes Base.Outcome Hash.HashModel Tree.Heap Tree.Ops Tree.Script Tree.Serialize
  Tree.Inv Tree.InvProofsBase Tree.InvProofsCore Tree.InvProofsPrim Tree.InvProofsData Tree.InvProofs
  Tree.Files Tree.FilesProofsBase Tree.FilesProofsFrame Tree.FilesProofsOps Tree.FilesProofsAdd Tree.FilesProofsHist
  Tree.FilesProofsTop Tree.FilesProofsOwned Tree.FilesProofsNames Tree.FilesProofsOp2 Tree.FilesProofsLoad3 Tree.FilesProofsOp2b.
From AV Require Import Tree.Sort Tree.SortProofsHeap Tree.SortProofsOrder Tree.SortProofsMain Tree.Copy Tree.Compat Tree.Load Tree.Script2
  Tree.InvLoad Tree.InvProofsOp2 Tree.InvProofsOp2Full Tree.LoadProofs.
From AV Require Xml.Parser.
From AV Require Tree.CopyProofsBridge Tree.CopyProofsDup.
Open Scope string_scope.
Open Scope list_scope.
Open Scope N_scope.

Lemma names_same w w' : w_models w' = w_models w -> (forall f, name_at w' f = name_at w f) -> NamesUnique w -> NamesUnique w'.
Proof. intros M F NU m x Hx. unfold model_b in Hx. rewrite M in Hx. rewrite (map_ext _ _ F). apply (NU m x Hx). Qed.

(* a record is replaced by one with the same name *)
Lemma name_at_set_file w f x y : nth_opt (w_files w) (N.to_nat f) = Some x -> f_name y = f_name x ->
  forall g, name_at (mkWorld (w_nodes w) (w_next w) (list_set (w_files w) (N.to_nat f) y) (w_models w)) g = name_at w g.
Proof.
  intros Hx Hn g. unfold name_at. cbn. rewrite !nth_opt_error, nth_error_list_set. rewrite nth_opt_error in Hx.
  destruct (Nat.eqb (N.to_nat g) (N.to_nat f)) eqn:E; [|reflexivity].
  apply Nat.eqb_eq in E. rewrite E, Hx. exact Hn.
Qed.

(* the three invariants together *)
Definition Inv3 (w : world) : Prop := Core w /\ FilesOwned w /\ NamesUnique w.
Definition fn {A} (c : W A) : Prop := forall w r w', c w = Val (r, w') -> Inv3 w -> Inv3 w'.

Lemma fn_cp {A} (c : W A) : cp c -> fn c.
Proof.
  intros H w r w' E (C & O & NU). destruct (H _ _ _ E C) as (C' & P). split; auto. split; [eapply owned_posrel; eauto|eapply names_posrel; eauto].
Qed.
Lemma fn_ro {A} (c : W A) : ro c -> fn c.
Proof. intros R. apply fn_cp, cp_ro, R. Qed.
Lemma fn_bind {A B} (c : W A) (k : A -> W B) : fn c -> (forall a, fn (k a)) -> fn (wbind c k).
Proof.
  intros Hc Hk w r w' H I. apply wbind_inv in H as [(a & w1 & H1 & H2) | (e & H1 & _)].
  - eapply Hk; eauto.
  - eapply Hc; eauto.
Qed.

Section Names2.
Variable T : tables.
Variable tab_el tab_at tab_en : nametab.
Variable check_fn : N -> list N -> res bool.
Variable float_parse : list N -> option N.
Variable float_fmt : N -> list N.
Variable LATEST name_index name_definition_ref attr_schema_location : N.
Variable root_attrs : list (N * cdata).

Notation run2 := (run_op2 T tab_el tab_at tab_en check_fn float_parse float_fmt LATEST name_index name_definition_ref
                          attr_schema_location root_attrs).
Notation KL := (Known_load T tab_el tab_at tab_en check_fn float_parse float_fmt LATEST name_index name_definition_ref
                           attr_schema_location root_attrs).

Lemma fn_create_file c name version : fn (m_create_file T c name version).
Proof.
  intros w r w' H (C & O & NU).
  destruct (fo_create_file T tab_el tab_en check_fn LATEST root_attrs c name version w r w' H C O) as (C' & O').
  split; auto. split; auto. apply (names_create_file T c name version w r w' O NU H).
Qed.

Lemma fn_set_standalone nf sa {B} (k : W B) : fn k ->
  fn (wbind (get_file nf) (fun nfl => wbind (set_file nf (set_standalone nfl sa)) (fun _ => k))).
Proof.
  intros Hk w r w' H (C & O & NU).
  apply wbind_inv in H as [(nfl & w1 & H1 & H) | (e0 & H1 & _)]; [|apply get_file_inv in H1 as (? & _ & [=] & _)].
  apply get_file_inv in H1 as (x' & Hx & [= <-] & ->).
  apply wbind_inv in H as [(u & w1 & H1 & H) | (e0 & H1 & _)]; [|unfold set_file in H1; discriminate H1].
  pose proof (stp_set_file _ _ _ _ _ H1) as ST. unfold set_file in H1. injection H1 as _ <-.
  eapply Hk; [exact H|]. split; [eapply Core_same_tree; eauto|]. split.
  - intros m0 x0 f0 Hx0 Hf0. unfold model_b in Hx0. cbn in Hx0 |- *.
    destruct (O m0 x0 f0 Hx0 Hf0) as (fl & Hfl & Hm).
    rewrite nth_opt_error, nth_error_list_set. rewrite nth_opt_error in Hfl, Hx.
    destruct (Nat.eqb (N.to_nat f0) (N.to_nat nf)) eqn:E.
    + apply Nat.eqb_eq in E. rewrite E in *. rewrite Hfl. eexists. split; [reflexivity|]. cbn. congruence.
    + exists fl. auto.
  - match goal with |- NamesUnique ?W => refine (names_same w W eq_refl _ NU) end. apply (name_at_set_file w nf nfl); auto.
Qed.

Lemma fn_dup_files c : forall files fm, fn (dup_files T c files fm).
Proof.
  induction files as [|f rest IH]; intros fm; cbn [dup_files]; [apply fn_ro; ro_tac|].
  apply fn_bind; [apply fn_ro; ro_tac|]. intros fl.
  apply fn_bind; [apply fn_create_file|]. intros nf.
  apply fn_set_standalone. apply IH.
Qed.

Lemma fn_duplicate_body m : fn (m_duplicate_body T LATEST root_attrs m).
Proof.
  unfold m_duplicate_body.
  apply fn_bind; [apply fn_ro; ro_tac|]. intros x.
  apply fn_bind; [apply fn_cp; apply cp_corep_ff; [apply CoreP_Pres; apply InvProofsFiles.Pres_new_model | apply ff_new_model]|]. intros c.
  apply fn_bind; [apply fn_ro; ro_tac|]. intros rn.
  apply fn_bind; [apply fn_ro; ro_tac|]. intros cx.
  apply fn_bind; [apply fn_cp; apply cp_modify_files; intros n; split; reflexivity|]. intros _.
  apply fn_bind; [apply fn_dup_files|]. intros filemap.
  apply fn_bind; [apply fn_cp; apply (cp_dup_children T check_fn LATEST)|]. intros _.
  apply fn_bind; [apply fn_ro; ro_tac|]. intros w0.
  apply fn_bind; [apply fn_ro; apply ro_dfs_ids|]. intros oids.
  apply fn_bind; [apply fn_ro; apply ro_dfs_ids|]. intros cids.
  apply fn_bind; [apply fn_cp; apply cp_dup_membership|]. intros _. apply fn_ro. ro_tac.
Qed.

Lemma duplicate_names m w r w' : Inv3 w ->
  m_duplicate T tab_el tab_en check_fn LATEST root_attrs m w = Val (r, w') -> NamesUnique w'.
Proof.
  intros (C & O & NU) H.
  destruct (CopyProofsDup.duplicate_spec T tab_el tab_en check_fn LATEST root_attrs m w r w' (CopyProofsBridge.Core_Closed w C)) as (_ & _ & _ & _ & Hr); auto.
  { intros x Hx. rewrite nth_opt_error in Hx.
    assert (nth_error (roots w) (N.to_nat m) = Some (m_root x)) as Hk by (unfold roots; rewrite nth_error_map, Hx; reflexivity).
    destruct (c_roots _ C _ _ Hk) as (rn & Hrn & _). eauto. }
  unfold m_duplicate in H. destruct (m_duplicate_body T LATEST root_attrs m w) as [[[c|e] w1]|s|] eqn:E; try discriminate H.
  - injection H as _ <-. apply (fn_duplicate_body m w (OK c) w1 E (conj C (conj O NU))).
  - destruct r as [c|e']; [discriminate H|]. destruct Hr as (F & M). match goal with |- NamesUnique ?W => refine (names_same w W M _ NU) end.
    intros f. unfold name_at. rewrite F. reflexivity.
Qed.

(* load_buffer: the name check of load_buffer, then load_parsed_files *)
Lemma load_buffer_names m buffer filename strict w r w' : FilesOwned w -> NamesUnique w ->
  m_load_buffer T tab_el tab_at tab_en check_fn float_parse LATEST name_definition_ref m buffer filename strict w = Val (r, w') ->
  r <> ER InvalidFileMerge -> NamesUnique w'.
Proof.
  intros O NU H Hne. unfold m_load_buffer in H.
  apply wbind_inv in H as [(x & w1 & H0 & H) | (e0 & H0 & _)]; [|apply get_model_inv in H0 as (? & _ & [=] & _)].
  apply get_model_inv in H0 as (x' & Hx & [= <-] & ->).
  apply wbind_inv in H as [(w0 & w1 & H0 & H) | (e0 & H0 & _)]; [|apply wget_inv in H0 as ([=] & _)].
  apply wget_inv in H0 as ([= ->] & ->).
  destruct (existsb _ (m_files x)) eqn:Eex; [apply wfail_inv in H as (_ & ->); exact NU|].
  destruct (Parser.load strict T tab_el tab_at tab_en check_fn float_parse buffer) as [[root st|pe st]| |]; try discriminate H.
  2:{ apply wfail_inv in H as (_ & ->). exact NU. }
  apply wbind_inv in H as [(f & w1 & H1 & H) | (e0 & H1 & ->)].
  2:{ destruct (load_parsed_rejected T LATEST name_definition_ref m filename root st w e0 w' H1) as (F & M).
      { intros ->. apply Hne. reflexivity. }
      match goal with |- NamesUnique ?W => refine (names_same w W M _ NU) end. intros g. unfold name_at. rewrite F. reflexivity. }
  apply wret_inv in H as (_ & ->).
  destruct (load_parsed_files T LATEST name_definition_ref m filename root st w f w1 H1) as (-> & Fw & x0 & Hx0 & Mw).
  assert (x0 = x) by congruence. subst x0.
  assert (forall g, (exists fl, nth_opt (w_files w) (N.to_nat g) = Some fl) -> name_at w1 g = name_at w g) as Old.
  { intros g (fl & Hg). unfold name_at. rewrite Fw, Hg. rewrite nth_opt_error in *. rewrite nth_error_app1, Hg; auto.
    apply nth_error_Some. congruence. }
  set (fid := N.of_nat (List.length (w_files w))) in *.
  assert (name_at w1 fid = filename) as Hnew.
  { unfold name_at, fid. rewrite Fw, nth_opt_error, Nnat.Nat2N.id, nth_error_app2 by lia. rewrite Nat.sub_diag. reflexivity. }
  assert (forall m0 y, model_b w m0 = Some y -> map (name_at w1) (m_files y) = map (name_at w) (m_files y)) as OldM.
  { intros m0 y Hy. apply map_ext_in. intros g Hg. apply Old. destruct (O m0 y g Hy Hg) as (fl & Hfl & _). eauto. }
  intros m' x' Hx'. unfold model_b in Hx'. rewrite nth_opt_error in Hx'.
  assert (nth_error (map m_files (w_models w1)) (N.to_nat m') = Some (m_files x')) as E by (rewrite nth_error_map, Hx'; reflexivity).
  rewrite Mw, nth_error_list_set in E.
  destruct (nth_error (map m_files (w_models w)) (N.to_nat m')) as [fs|] eqn:Eo.
  2:{ destruct (Nat.eqb (N.to_nat m') (N.to_nat m)); discriminate E. }
  rewrite nth_error_map in Eo. destruct (nth_error (w_models w) (N.to_nat m')) as [xo|] eqn:Exo; [|discriminate Eo]. injection Eo as <-.
  assert (model_b w m' = Some xo) as Hxo by (unfold model_b; rewrite nth_opt_error; exact Exo).
  destruct (Nat.eqb (N.to_nat m') (N.to_nat m)) eqn:Em.
  - apply Nat.eqb_eq in Em. apply Nnat.N2Nat.inj in Em. subst m'. injection E as E. rewrite <- E.
    assert (xo = x) by (unfold model_b in Hxo; congruence). subst xo.
    rewrite map_app. cbn [map]. rewrite Hnew, (OldM m x Hxo). apply NoDup_snoc; [apply (NU m x Hxo)|].
    intros Hin. apply in_map_iff in Hin as (g & Hg & Hgin). destruct (O m x g Hxo Hgin) as (fl & Hfl & _).
    assert (existsb (fun f => match nth_opt (w_files w) (N.to_nat f) with Some fl => bytes_eqb (f_name fl) filename | None => false end) (m_files x) = true) as Ht.
    { apply existsb_exists. exists g. split; auto. rewrite Hfl. apply bytes_eqb_spec. unfold name_at in Hg. rewrite Hfl in Hg. exact Hg. }
    congruence.
  - injection E as E. rewrite <- E. rewrite (OldM m' xo Hxo). apply (NU m' xo Hxo).
Qed.

Theorem inv3_step2_all o w r w' : Inv3 w -> KL w o = false -> run2 o w = Val (r, w') -> Inv3 w'.
Proof.
  intros (C & O & NU) HK H.
  destruct (owned_step2_all T tab_el tab_at tab_en check_fn float_parse float_fmt LATEST name_index name_definition_ref
              attr_schema_location root_attrs o w r w' C O HK H) as (C' & O').
  split; auto. split; auto.
  destruct o; cbn [run_op2] in H.
  - apply wmap_inv in H as (r0 & H & _).
    apply (names_step T tab_el tab_en check_fn LATEST root_attrs (core_step_all T tab_el tab_en check_fn LATEST root_attrs) o w r0 w' C O NU H).
  - apply wmap_inv in H as (r0 & H & _). unfold e_sort in H.
    apply (e_sort_frame T tab_el tab_at tab_en name_index name_definition_ref isort_poly StableSort_isort) in H as (_ & (_ & F & M & _)).
    match goal with |- NamesUnique ?W => refine (names_same w W M _ NU) end. intros g. unfold name_at. rewrite F. reflexivity.
  - apply wmap_inv in H as (r0 & H & _). unfold m_sort in H.
    apply (m_sort_frame T tab_el tab_at tab_en name_index name_definition_ref isort_poly StableSort_isort) in H as (_ & (_ & F & M & _)).
    match goal with |- NamesUnique ?W => refine (names_same w W M _ NU) end. intros g. unfold name_at. rewrite F. reflexivity.
  - apply wmap_inv in H as (r0 & H & _). apply (duplicate_names m w r0 w' (conj C (conj O NU)) H).
  - unfold Known_load in HK. apply Bool.orb_false_iff in HK as (_ & Hrej). unfold Known_load_rejected in Hrej.
    cbn [run_op2] in Hrej. rewrite H in Hrej.
    apply wbind_inv in H as [([f ws] & w1 & H1 & H2) | (e & H1 & ->)].
    + apply wret_inv in H2 as (_ & Ew). subst. apply (load_buffer_names _ _ _ _ _ _ _ O NU H1). intros Hx; discriminate Hx.
    + apply (load_buffer_names _ _ _ _ _ _ _ O NU H1). intros Hx. injection Hx as ->. discriminate Hrej.
  - apply wmap_inv in H as (r0 & H & _). unfold f_set_version in H.
    apply wbind_inv in H as [([errs mask] & w1 & H1 & H) | (e0 & H1 & _)].
    2:{ unfold f_check_version_compatibility in H1. destruct (f_check T w f v); discriminate. }
    unfold f_check_version_compatibility in H1. destruct (f_check T w f v); try discriminate. injection H1 as _ <-.
    destruct (is_empty errs); [|apply wfail_inv in H as (_ & ->); auto].
    apply wbind_inv in H as [(x & w1 & H1 & H) | (e0 & H1 & _)]; [|apply get_file_inv in H1 as (? & _ & [=] & _)].
    apply get_file_inv in H1 as (x' & Hx & [= <-] & ->). unfold set_file in H. injection H as _ <-.
    match goal with |- NamesUnique ?W => refine (names_same w W eq_refl _ NU) end. apply (name_at_set_file w f x); auto.
  - apply wbind_inv in H as [(a & w1 & H1 & H2) | (e & H1 & _)];
      unfold f_check_version_compatibility in H1; destruct (f_check T w f v); try discriminate.
    injection H1 as _ <-. destruct a. apply wret_inv in H2 as (_ & ->). auto.
  - apply wmap_inv in H as (r0 & H & _). unfold f_serialize in H.
    apply wbind_inv in H as [(fl & w1 & H1 & H) | (e0 & H1 & _)]; [|apply get_file_inv in H1 as (? & _ & [=] & _)].
    apply get_file_inv in H1 as (fl' & Hfl & [= <-] & ->).
    apply wbind_inv in H as [(x & w1 & H1 & H) | (e0 & H1 & _)]; [|apply get_model_inv in H1 as (? & _ & [=] & _)].
    apply get_model_inv in H1 as (x' & Hx & [= <-] & ->).
    apply wbind_inv in H as [([loc files] & w1 & H1 & H) | (e0 & H1 & _)].
    2:{ assert (w' = w) as -> by (apply (ro_file_membership (m_root x) _ _ _ H1)). auto. }
    assert (w1 = w) as -> by (apply (ro_file_membership (m_root x) _ _ _ H1)).
    destruct (negb (set_mem f files)); [apply wfail_inv in H as (_ & ->); auto|].
    apply wbind_inv in H as [(fname & w1 & H2 & H) | (e0 & H2 & _)]; [|apply wlift_inv in H2 as (? & _ & [=] & _)].
    apply wlift_inv in H2 as (a & _ & _ & ->).
    apply wbind_inv in H as [(u & w1 & H2 & H) | (e0 & H2 & _)]; [|apply wtry_inv in H2 as (? & _ & [=])].
    apply wtry_inv in H2 as (r1 & H2 & _).
    assert (w' = w1) as -> by (destruct (ser_heap _ _ _ _ _ _ _ _ _ _ _) in H; try discriminate; injection H as _ <-; reflexivity).
    destruct (ff_raw_set_attribute T check_fn _ _ _ _ _ _ _ (core_fresh _ C) H2) as (F & _).
    eapply names_posrel; eauto. apply frame_pos; auto.
  - apply wmap_inv in H as (r0 & H & _). unfold e_serialize in H.
    destruct (ser_heap _ _ _ _ _ _ _ _ _ _ _) in H; try discriminate. injection H as _ <-. auto.
Qed.

Theorem inv3_histories2_all l : forall w w', Inv3 w ->
  steps_clean2 T tab_el tab_at tab_en check_fn float_parse float_fmt LATEST name_index name_definition_ref
               attr_schema_location root_attrs l w = true ->
  run_ops2 T tab_el tab_at tab_en check_fn float_parse float_fmt LATEST name_index name_definition_ref
           attr_schema_location root_attrs l w = Val w' -> Inv3 w'.
Proof.
  induction l as [|o rest IH]; intros w w' I Hok H; cbn [run_ops2 steps_clean2] in *.
  - injection H as <-. auto.
  - apply Bool.andb_true_iff in Hok as (Hs & Hok). apply Bool.negb_true_iff in Hs.
    destruct (run2 o w) as [[r w1]| |] eqn:Er; try discriminate.
    apply (IH w1 w'); auto. eapply inv3_step2_all; eauto.
Qed.

Theorem inv3_reachable2 l w' :
  steps_clean2 T tab_el tab_at tab_en check_fn float_parse float_fmt LATEST name_index name_definition_ref
               attr_schema_location root_attrs l empty_world = true ->
  run_ops2 T tab_el tab_at tab_en check_fn float_parse float_fmt LATEST name_index name_definition_ref
           attr_schema_location root_attrs l empty_world = Val w' -> Inv3 w'.
Proof. apply inv3_histories2_all. split; [apply empty_core|]. split; [apply empty_owned|apply empty_names]. Qed.

End Names2.

(* names_step with C03's Core_step discharged *)
Lemma names_step_all T tab_el tab_en check_fn LATEST root_attrs o w r w' :
  Core w -> FilesOwned w -> NamesUnique w ->
  run_op T tab_el tab_en check_fn LATEST root_attrs o w = Val (r, w') -> NamesUnique w'.
Proof. apply names_step. apply core_step_all. Qed.
