(* Tree/CompatProofs1.v — facts about the specification lookups that the compatibility check relies on, for EVERY table set:
   (1) find_sub_sound : the index list returned by find_sub_element(name, version) leads get_sub_element_version_mask to a
       mask that intersects `version`;
   (2) find_sub_mono  : if the lookup restricted to `version` finds nothing but the lookup with another version set finds an
       entry, that entry's mask does not intersect `version`  (this is what makes `a.or(b)` + mask test correct);
   (3) bit facts about version masks. *)
From AV Require Import Base.Bytes Base.Outcome Spec.SpecOps.
From Coq Require Import Lia.
Open Scope N_scope.

Section FindSub.
Variable T : tables.

Definition fres := res (option (etype * list N)).

(* the inner loop of find_sub as a function of its own *)
Fixpoint find_loop (rec : N -> fres) (start : N) (d : dtype) (target version : N) (k : nat) (pos : N) : fres :=
  match k with
  | O => Val None
  | S k' =>
    (let* '(kind, idx) := subel T (start + pos) in
     if kind =? 0 then
       let* e := elem T idx in
       let* mask := vinfo T (dt_sub_ver d + pos) in
       if (ed_name e =? target) && negb (N.land version mask =? 0)
       then (let* et := et_new T idx in Val (Some (et, [pos])))
       else find_loop rec start d target version k' (pos + 1)
     else
       match rec idx with
       | Val (Some (et, ixs)) => Val (Some (et, pos :: ixs))
       | Val None => find_loop rec start d target version k' (pos + 1)
       | Pan s => Pan s
       | Fuel => Fuel
       end)%res
  end.

Lemma find_sub_unfold fuel ty target version :
  find_sub T (S fuel) ty target version =
  (let* '(start, stop, d) := sub_slice T ty in
   find_loop (fun idx => find_sub T fuel idx target version) start d target version (N.to_nat (stop - start)) 0)%res.
Proof.
  cbn [find_sub]. destruct (sub_slice T ty) as [[[start stop] d]| |]; cbn [bind]; try reflexivity.
  remember (N.to_nat (stop - start)) as k eqn:Hk. clear Hk.
  match goal with |- ?F k 0 = find_loop ?r ?s ?dd ?t ?v k 0 =>
    cut (forall pos, F k pos = find_loop r s dd t v k pos); [intros HH; apply HH|] end.
  induction k as [|k IH]; intros pos; [reflexivity|].
  cbn [find_loop]. destruct (subel T (start + pos)) as [[kind idx]| |]; cbn [bind]; try reflexivity.
  destruct (kind =? 0).
  - destruct (elem T idx); cbn [bind]; try reflexivity.
    destruct (vinfo T (dt_sub_ver d + pos)); cbn [bind]; try reflexivity.
    destruct ((ed_name a =? target) && negb (N.land version a0 =? 0)); [reflexivity|apply IH].
  - destruct (find_sub T fuel idx target version) as [[[et ixs]|]| |]; try reflexivity. apply IH.
Qed.

(* walk_groups on a one-element and on a longer index list *)
Lemma walk_groups_last cur last :
  walk_groups T cur [last] =
  (let* '(start, stop, d) := sub_slice T cur in
   if stop - start <=? last then Pan "current_spec[last_idx]" else
   let* se := subel T (start + last) in
   let* m := vinfo T (dt_sub_ver d + last) in
   Val (Some (se, m)))%res.
Proof. reflexivity. Qed.

Lemma walk_groups_cons cur i j rest :
  walk_groups T cur (i :: j :: rest) =
  (let* '(start, stop, d) := sub_slice T cur in
   if stop - start <=? i then Pan "current_spec[element_indices[idx]]" else
   let* '(kind, idx) := subel T (start + i) in
   if kind =? 0 then Val None else walk_groups T idx (j :: rest))%res.
Proof. reflexivity. Qed.

Lemma walk_groups_nonempty cur ixs r : walk_groups T cur ixs = Val (Some r) -> ixs <> nil.
Proof. destruct ixs; cbn; [discriminate|intros _ H; discriminate]. Qed.

(* ---- (1) soundness of the returned index list ---- *)
Definition sound_at (rec : N -> fres) (target version : N) : Prop :=
  forall idx et ixs, rec idx = Val (Some (et, ixs)) ->
    exists se m, walk_groups T idx ixs = Val (Some (se, m)) /\ N.land version m <> 0.

Lemma find_loop_sound rec ty start stop d target version :
  sub_slice T ty = Val (start, stop, d) ->
  sound_at rec target version ->
  forall k pos et ixs, N.of_nat k + pos = stop - start ->
    find_loop rec start d target version k pos = Val (Some (et, ixs)) ->
    exists se m, walk_groups T ty ixs = Val (Some (se, m)) /\ N.land version m <> 0.
Proof.
  intros Hs Hrec. induction k as [|k IH]; intros pos et ixs Hk H; [discriminate|].
  cbn [find_loop] in H.
  destruct (subel T (start + pos)) as [[kind idx]| |] eqn:Esub; cbn [bind] in H; try discriminate.
  destruct (kind =? 0) eqn:Ekind.
  - destruct (elem T idx) as [e| |]; cbn [bind] in H; try discriminate.
    destruct (vinfo T (dt_sub_ver d + pos)) as [mask| |] eqn:Ev; cbn [bind] in H; try discriminate.
    destruct ((ed_name e =? target) && negb (N.land version mask =? 0)) eqn:Ec.
    + destruct (et_new T idx) as [et'| |]; cbn [bind] in H; try discriminate.
      injection H as <- <-.
      exists (kind, idx), mask. split.
      * rewrite walk_groups_last, Hs. cbn [bind].
        replace (stop - start <=? pos) with false by (symmetry; apply N.leb_gt; lia).
        rewrite Esub; cbn [bind]. rewrite Ev; cbn [bind]. reflexivity.
      * apply andb_true_iff in Ec as [_ Ec]. apply negb_true_iff, N.eqb_neq in Ec. exact Ec.
    + apply (IH (pos + 1) et ixs); [lia|exact H].
  - destruct (rec idx) as [[[et' ixs']|]| |] eqn:Erec; try discriminate.
    + injection H as <- <-.
      destruct (Hrec _ _ _ Erec) as (se & m & Hw & Hm).
      exists se, m. split; [|exact Hm].
      pose proof (walk_groups_nonempty _ _ _ Hw) as Hne.
      destruct ixs' as [|j rest]; [congruence|].
      rewrite walk_groups_cons, Hs. cbn [bind].
      replace (stop - start <=? pos) with false by (symmetry; apply N.leb_gt; lia).
      rewrite Esub; cbn [bind]. rewrite Ekind. exact Hw.
    + apply (IH (pos + 1) et ixs); [lia|exact H].
Qed.

Lemma find_sub_sound fuel : forall ty target version et ixs,
  find_sub T fuel ty target version = Val (Some (et, ixs)) ->
  exists se m, walk_groups T ty ixs = Val (Some (se, m)) /\ N.land version m <> 0.
Proof.
  induction fuel as [|fuel IH]; intros ty target version et ixs H; [discriminate|].
  rewrite find_sub_unfold in H.
  destruct (sub_slice T ty) as [[[start stop] d]| |] eqn:Hs; cbn [bind] in H; try discriminate.
  assert (Hrec : sound_at (fun idx => find_sub T fuel idx target version) target version).
  { intros idx et' ixs' Hr. exact (IH _ _ _ _ _ Hr). }
  apply (find_loop_sound _ ty start stop d target version Hs Hrec (N.to_nat (stop - start)) 0 et ixs);
    [rewrite N2Nat.id; apply N.add_0_r|exact H].
Qed.

(* ---- (2) the restricted lookup misses only entries whose mask does not intersect the version ---- *)
Definition mono_at (rec rec' : N -> fres) (version : N) : Prop :=
  forall idx et ixs se m, rec idx = Val None -> rec' idx = Val (Some (et, ixs)) ->
    walk_groups T idx ixs = Val (Some (se, m)) -> N.land version m = 0.

Lemma find_loop_mono rec rec' ty start stop d target version version' :
  sub_slice T ty = Val (start, stop, d) ->
  mono_at rec rec' version ->
  sound_at rec' target version' ->
  forall k pos et ixs se m, N.of_nat k + pos = stop - start ->
    find_loop rec start d target version k pos = Val None ->
    find_loop rec' start d target version' k pos = Val (Some (et, ixs)) ->
    walk_groups T ty ixs = Val (Some (se, m)) -> N.land version m = 0.
Proof.
  intros Hs Hmono Hsound. induction k as [|k IH]; intros pos et ixs se m Hk H H' Hw; [discriminate|].
  cbn [find_loop] in H, H'.
  destruct (subel T (start + pos)) as [[kind idx]| |] eqn:Esub; cbn [bind] in H, H'; try discriminate.
  destruct (kind =? 0) eqn:Ekind.
  - destruct (elem T idx) as [e| |]; cbn [bind] in H, H'; try discriminate.
    destruct (vinfo T (dt_sub_ver d + pos)) as [mask| |] eqn:Ev; cbn [bind] in H, H'; try discriminate.
    destruct ((ed_name e =? target) && negb (N.land version mask =? 0)) eqn:Ec.
    { destruct (et_new T idx); cbn [bind] in H; discriminate. }
    destruct ((ed_name e =? target) && negb (N.land version' mask =? 0)) eqn:Ec'.
    + destruct (et_new T idx) as [et'| |]; cbn [bind] in H'; try discriminate.
      injection H' as <- <-.
      rewrite walk_groups_last, Hs in Hw. cbn [bind] in Hw.
      replace (stop - start <=? pos) with false in Hw by (symmetry; apply N.leb_gt; lia).
      rewrite Esub in Hw; cbn [bind] in Hw. rewrite Ev in Hw; cbn [bind] in Hw.
      injection Hw as _ <-.
      apply andb_true_iff in Ec' as [En _]. rewrite En in Ec. cbn [andb] in Ec.
      apply negb_false_iff, N.eqb_eq in Ec. exact Ec.
    + apply (IH (pos + 1) et ixs se m); [lia|exact H|exact H'|exact Hw].
  - destruct (rec idx) as [[[e1 i1]|]| |] eqn:Erec; try discriminate.
    destruct (rec' idx) as [[[et' ixs']|]| |] eqn:Erec'; try discriminate.
    + injection H' as <- <-.
      destruct (Hsound _ _ _ Erec') as (se' & m' & Hw' & _).
      pose proof (walk_groups_nonempty _ _ _ Hw') as Hne.
      destruct ixs' as [|j rest]; [congruence|].
      rewrite walk_groups_cons, Hs in Hw. cbn [bind] in Hw.
      replace (stop - start <=? pos) with false in Hw by (symmetry; apply N.leb_gt; lia).
      rewrite Esub in Hw; cbn [bind] in Hw. rewrite Ekind in Hw.
      exact (Hmono _ _ _ _ _ Erec Erec' Hw).
    + apply (IH (pos + 1) et ixs se m); [lia|exact H|exact H'|exact Hw].
Qed.

Lemma find_sub_mono fuel : forall ty target version version' et ixs se m,
  find_sub T fuel ty target version = Val None ->
  find_sub T fuel ty target version' = Val (Some (et, ixs)) ->
  walk_groups T ty ixs = Val (Some (se, m)) -> N.land version m = 0.
Proof.
  induction fuel as [|fuel IH]; intros ty target version version' et ixs se m H H' Hw; [discriminate|].
  rewrite find_sub_unfold in H, H'.
  destruct (sub_slice T ty) as [[[start stop] d]| |] eqn:Hs; cbn [bind] in H, H'; try discriminate.
  assert (Hmono : mono_at (fun idx => find_sub T fuel idx target version) (fun idx => find_sub T fuel idx target version') version).
  { intros idx et' ixs' se' m' Hr Hr' Hw'. exact (IH _ _ _ _ _ _ _ _ Hr Hr' Hw'). }
  assert (Hsound : sound_at (fun idx => find_sub T fuel idx target version') target version').
  { intros idx et' ixs' Hr. exact (find_sub_sound _ _ _ _ _ _ Hr). }
  apply (find_loop_mono _ _ ty start stop d target version version' Hs Hmono Hsound (N.to_nat (stop - start)) 0 et ixs se m);
    [rewrite N2Nat.id; apply N.add_0_r|exact H|exact H'|exact Hw].
Qed.

(* ---- the two facts in terms of the public functions ---- *)
Lemma mask_of_walk t ixs se m :
  walk_groups T (snd t) ixs = Val (Some (se, m)) -> get_sub_element_version_mask T t ixs = Val (Some m).
Proof.
  intros Hw. pose proof (walk_groups_nonempty _ _ _ Hw) as Hne.
  unfold get_sub_element_version_mask, get_sub_element_spec.
  destruct ixs as [|i rest]; [congruence|].
  assert (Hs : exists x, sub_slice T (snd t) = Val x).
  { destruct rest as [|j r].
    - rewrite walk_groups_last in Hw. destruct (sub_slice T (snd t)); cbn [bind] in Hw; try discriminate. eauto.
    - rewrite walk_groups_cons in Hw. destruct (sub_slice T (snd t)); cbn [bind] in Hw; try discriminate. eauto. }
  destruct Hs as [x Hs]. rewrite Hs. cbn [bind]. rewrite Hw. reflexivity.
Qed.

Theorem find_sub_element_mask t name version et ixs :
  find_sub_element T t name version = Val (Some (et, ixs)) ->
  exists m, get_sub_element_version_mask T t ixs = Val (Some m) /\ N.land version m <> 0.
Proof.
  unfold find_sub_element. intros H.
  destruct (find_sub_sound _ _ _ _ _ _ H) as (se & m & Hw & Hm).
  exists m. split; [exact (mask_of_walk t ixs se m Hw)|exact Hm].
Qed.

Theorem find_sub_element_fallback t name version version' et ixs m :
  find_sub_element T t name version = Val None ->
  find_sub_element T t name version' = Val (Some (et, ixs)) ->
  get_sub_element_version_mask T t ixs = Val (Some m) ->
  N.land version m = 0.
Proof.
  unfold find_sub_element. intros H H' Hm.
  destruct (find_sub_sound _ _ _ _ _ _ H') as (se & m' & Hw & _).
  rewrite (mask_of_walk t ixs se m' Hw) in Hm. injection Hm as <-.
  exact (find_sub_mono _ _ _ _ _ _ _ _ _ H H' Hw).
Qed.

End FindSub.

(* ---- (3) version bits ---- *)
Definition version_bit (v : N) : Prop := exists b, b < 32 /\ v = 2 ^ b.

Lemma land_pow2_testbit m b : N.land m (2 ^ b) <> 0 <-> N.testbit m b = true.
Proof.
  split.
  - intros H. destruct (N.testbit m b) eqn:E; [reflexivity|]. exfalso. apply H.
    apply N.bits_inj_iff. intros i. rewrite N.land_spec, N.pow2_bits_eqb, N.bits_0.
    destruct (N.eqb_spec b i) as [->|]; [rewrite E; reflexivity|apply andb_false_r].
  - intros E H. assert (N.testbit (N.land m (2 ^ b)) b = true).
    { rewrite N.land_spec, N.pow2_bits_eqb, E, N.eqb_refl. reflexivity. }
    rewrite H, N.bits_0 in H0. discriminate.
Qed.

Lemma u32max_bits b : b < 32 -> N.testbit 4294967295 b = true.
Proof.
  intros H. change 4294967295 with (N.ones 32). apply N.ones_spec_low. exact H.
Qed.

Lemma land_ldiff_zero a b : N.land (N.ldiff a b) b = 0.
Proof.
  apply N.bits_inj_iff. intros i. rewrite N.land_spec, N.ldiff_spec, N.bits_0.
  destruct (N.testbit a i), (N.testbit b i); reflexivity.
Qed.

(* `sub a b` : every version of a is a version of b *)
Definition msub (a b : N) : Prop := N.land a b = a.
Lemma msub_refl a : msub a a. Proof. apply N.land_diag. Qed.
Lemma msub_land_l a b c : msub a c -> msub (N.land a b) c.
Proof. unfold msub. intros H. rewrite <- N.land_assoc, (N.land_comm b c), N.land_assoc, H. reflexivity. Qed.
Lemma msub_land_r a b c : msub b c -> msub (N.land a b) c.
Proof. unfold msub. intros H. rewrite <- N.land_assoc, H. reflexivity. Qed.
Lemma msub_zero a b v : msub a b -> N.land b v = 0 -> N.land a v = 0.
Proof. unfold msub. intros H Hb. rewrite <- H, <- N.land_assoc, Hb. apply N.land_0_r. Qed.
