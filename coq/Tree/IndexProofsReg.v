(* Tree/IndexProofsReg.v — C04/C05: the registration walk of create_copied_sub_element (register_subtree, Tree/Ops.v).
     reg_entries (Tree/Index.v)   the entries the walk adds, as a pure function of the heap
     reg_sound / reg_complete     they are exactly: every identifiable element below i under prefix ++ its relative
                                  path, every reference below i under its text
     register_run                 the walk performs exactly these insertions on the two maps of the model
     ins_all_get / addo_all_oget  the maps after the insertions *)
From Coq Require Import Lia PeanoNat.
From AV Require Import Base.Bytes Base.Outcome Hash.HashModel Tree.Heap Tree.Ops Tree.Script Tree.IndexProofsW
  Tree.Index Tree.IndexProofsBase Tree.IndexProofsAssoc Tree.IndexProofsFrame Tree.IndexProofsAttach
  Tree.IndexProofsTree Tree.Refs Tree.RefsProofsBase.
Open Scope string_scope.
Open Scope list_scope.
Open Scope N_scope.

Section Reg.
Variable T : tables.

Definition reg_kids (f : nat) (w : world) (p : list N) : list citem -> option (list (list N * id) * list (list N * id)) :=
  fix kids (l : list citem) : option (list (list N * id) * list (list N * id)) :=
    match l with
    | [] => Some ([], [])
    | CElem c :: rest =>
      match reg_entries T f w p c, kids rest with
      | Some (a1, b1), Some (a2, b2) => Some (a1 ++ a2, b1 ++ b2)
      | _, _ => None
      end
    | CData _ :: rest => kids rest
    end.

Lemma reg_entries_S f w cur i :
  reg_entries T (S f) w cur i =
  match w_nodes w i with
  | None => None
  | Some n =>
    let p := cur ++ seg_n T w n in
    let own := if identifiable_n T w n then [(p, i)] else [] in
    let rf := if isref T (n_type n) then match cdata_of T n with Some (DString r) => [(r, i)] | _ => [] end else [] in
    match reg_kids f w p (n_content n) with
    | Some (a, b) => Some (own ++ a, rf ++ b)
    | None => None
    end
  end.
Proof. reflexivity. Qed.

Lemma reg_kids_cons_elem f w p c rest :
  reg_kids f w p (CElem c :: rest) =
  match reg_entries T f w p c, reg_kids f w p rest with
  | Some (a1, b1), Some (a2, b2) => Some (a1 ++ a2, b1 ++ b2)
  | _, _ => None
  end.
Proof. reflexivity. Qed.

(* ---------- soundness and completeness against the top-down paths *)
Lemma reg_sound f : forall w cur i L R, reg_entries T f w cur i = Some (L, R) ->
  (forall p j, In (p, j) L -> exists q, dpath T w i j q /\ identifiable T w j = true /\ p = cur ++ seg T w i ++ q) /\
  (forall r j, In (r, j) R -> reach T w i j /\ ref_text T w j = Some r).
Proof.
  induction f as [|f IH]; intros w cur i L R H; [discriminate|]. rewrite reg_entries_S in H.
  destruct (w_nodes w i) as [n|] eqn:Hn; [|discriminate]. cbn zeta in H.
  destruct (reg_kids f w (cur ++ seg_n T w n) (n_content n)) as [[a b]|] eqn:Ek; [|discriminate]. injection H as <- <-.
  assert (Hseg : seg T w i = seg_n T w n) by (unfold seg; rewrite Hn; reflexivity).
  assert (Hkids : forall l a0 b0, reg_kids f w (cur ++ seg_n T w n) l = Some (a0, b0) -> (forall c, In (CElem c) l -> In (CElem c) (n_content n)) ->
            (forall p j, In (p, j) a0 -> exists q, dpath T w i j q /\ identifiable T w j = true /\ p = cur ++ seg T w i ++ q) /\
            (forall r j, In (r, j) b0 -> reach T w i j /\ ref_text T w j = Some r)).
  { induction l as [|[c|d] rest IHl]; intros a0 b0 Hk Hsub.
    - injection Hk as <- <-. split; intros ? ? [].
    - rewrite reg_kids_cons_elem in Hk. destruct (reg_entries T f w (cur ++ seg_n T w n) c) as [[a1 b1]|] eqn:Ec; [|discriminate].
      destruct (reg_kids f w (cur ++ seg_n T w n) rest) as [[a2 b2]|] eqn:Er; [|discriminate]. injection Hk as <- <-.
      destruct (IH _ _ _ _ _ Ec) as (S1 & S2). destruct (IHl a2 b2 eq_refl) as (T1 & T2); [intros c0 H0; apply Hsub; right; exact H0|].
      assert (Hc : child_of w i c) by (exists n; split; [exact Hn|apply Hsub; left; reflexivity]).
      split.
      + intros p j Hin. apply in_app_iff in Hin as [Hin|Hin]; [|apply T1; exact Hin].
        destruct (S1 p j Hin) as (q & Hd & Hid & ->). exists (seg T w c ++ q). split; [eapply dpath_cons; eauto|]. split; [exact Hid|].
        rewrite Hseg, <- !app_assoc. reflexivity.
      + intros r j Hin. apply in_app_iff in Hin as [Hin|Hin]; [|apply T2; exact Hin].
        destruct (S2 r j Hin) as ((q & Hd) & Ht). split; [|exact Ht]. eexists. eapply dpath_cons; eauto.
    - apply IHl; [exact Hk|]. intros c0 H0. apply Hsub. right. exact H0. }
  destruct (Hkids _ _ _ Ek (fun c H => H)) as (K1 & K2). split.
  - intros p j Hin. apply in_app_iff in Hin as [Hin|Hin]; [|apply K1; exact Hin].
    destruct (identifiable_n T w n) eqn:Ei; [|destruct Hin]. destruct Hin as [[= <- <-]|[]].
    exists []. split; [constructor|]. split; [unfold identifiable; rewrite Hn; exact Ei|]. rewrite Hseg, app_nil_r. reflexivity.
  - intros r j Hin. apply in_app_iff in Hin as [Hin|Hin]; [|apply K2; exact Hin].
    destruct (isref T (n_type n)) eqn:Er; [|destruct Hin]. destruct (cdata_of T n) as [[e0|r0|u0|f0]|] eqn:Ec; try (destruct Hin; fail).
    destruct Hin as [[= <- <-]|[]]. split; [apply reach_refl|]. unfold ref_text. rewrite Hn, Er, Ec. reflexivity.
Qed.

Lemma reg_complete f : forall w cur i L R, reg_entries T f w cur i = Some (L, R) ->
  (forall j q, dpath T w i j q -> identifiable T w j = true -> In (cur ++ seg T w i ++ q, j) L) /\
  (forall j r, reach T w i j -> ref_text T w j = Some r -> In (r, j) R).
Proof.
  induction f as [|f IH]; intros w cur i L R H; [discriminate|]. rewrite reg_entries_S in H.
  destruct (w_nodes w i) as [n|] eqn:Hn; [|discriminate]. cbn zeta in H.
  destruct (reg_kids f w (cur ++ seg_n T w n) (n_content n)) as [[a b]|] eqn:Ek; [|discriminate]. injection H as <- <-.
  assert (Hseg : seg T w i = seg_n T w n) by (unfold seg; rewrite Hn; reflexivity).
  assert (Hkids : forall l a0 b0, reg_kids f w (cur ++ seg_n T w n) l = Some (a0, b0) ->
            forall c, In (CElem c) l ->
            (forall j q, dpath T w c j q -> identifiable T w j = true -> In ((cur ++ seg_n T w n) ++ seg T w c ++ q, j) a0) /\
            (forall j r, reach T w c j -> ref_text T w j = Some r -> In (r, j) b0)).
  { induction l as [|[c0|d] rest IHl]; intros a0 b0 Hk c Hc; [destruct Hc| |].
    - rewrite reg_kids_cons_elem in Hk. destruct (reg_entries T f w (cur ++ seg_n T w n) c0) as [[a1 b1]|] eqn:Ec; [|discriminate].
      destruct (reg_kids f w (cur ++ seg_n T w n) rest) as [[a2 b2]|] eqn:Er; [|discriminate]. injection Hk as <- <-.
      destruct Hc as [[= ->]|Hc].
      + destruct (IH _ _ _ _ _ Ec) as (C1 & C2). split; intros; apply in_app_iff; left; auto.
      + destruct (IHl a2 b2 eq_refl c Hc) as (C1 & C2). split; intros; apply in_app_iff; right; auto.
    - destruct Hc as [[=]|Hc]. apply (IHl a0 b0 Hk c Hc). }
  split.
  - intros j q Hd Hid. destruct (dpath_head T _ _ _ _ Hd) as [(-> & ->)|(c & q' & (n0 & Hn0 & Hc) & Hd' & ->)].
    + apply in_app_iff. left. unfold identifiable in Hid. rewrite Hn in Hid. rewrite Hid. left. rewrite Hseg, app_nil_r. reflexivity.
    + rewrite Hn in Hn0. injection Hn0 as <-. apply in_app_iff. right.
      destruct (Hkids _ _ _ Ek c Hc) as (C1 & _). specialize (C1 j q' Hd' Hid). rewrite Hseg. rewrite <- app_assoc in C1. exact C1.
  - intros j r (q & Hd) Ht. destruct (dpath_head T _ _ _ _ Hd) as [(-> & ->)|(c & q' & (n0 & Hn0 & Hc) & Hd' & ->)].
    + apply in_app_iff. left. unfold ref_text in Ht. rewrite Hn in Ht. destruct (isref T (n_type n)); [|discriminate].
      destruct (cdata_of T n) as [[e0|r0|u0|f0]|]; try discriminate. injection Ht as ->. left. reflexivity.
    + rewrite Hn in Hn0. injection Hn0 as <-. apply in_app_iff. right.
      destruct (Hkids _ _ _ Ek c Hc) as (_ & C2). apply C2; [exists q'; exact Hd'|exact Ht].
Qed.

(* the entries only depend on the nodes *)
Lemma short_child_nodes w w0 n : (forall j, w_nodes w j = w_nodes w0 j) -> short_child T w n = short_child T w0 n.
Proof. intros H. unfold short_child. destruct (n_content n) as [|[s|d] r]; try reflexivity. rewrite H. reflexivity. Qed.
Lemma readings_nodes w w0 n : (forall j, w_nodes w j = w_nodes w0 j) ->
  item_name_n T w n = item_name_n T w0 n /\ identifiable_n T w n = identifiable_n T w0 n /\ seg_n T w n = seg_n T w0 n.
Proof. intros H. apply readings_ext; [reflexivity|apply short_child_nodes; exact H]. Qed.

Lemma reg_entries_nodes f : forall w w0 cur i, (forall j, w_nodes w j = w_nodes w0 j) -> reg_entries T f w cur i = reg_entries T f w0 cur i.
Proof.
  induction f as [|f IH]; intros w w0 cur i Hn; [reflexivity|]. rewrite !reg_entries_S, Hn.
  destruct (w_nodes w0 i) as [n|]; [|reflexivity]. cbn zeta. destruct (readings_nodes w w0 n Hn) as (_ & -> & ->).
  assert (Hk : forall l, reg_kids f w (cur ++ seg_n T w0 n) l = reg_kids f w0 (cur ++ seg_n T w0 n) l).
  { induction l as [|[c|d] rest IHl]; [reflexivity| |exact IHl]. rewrite !reg_kids_cons_elem, IHl, (IH w w0 _ c Hn). reflexivity. }
  rewrite Hk. reflexivity.
Qed.

(* ---------- the walk performs these insertions *)
Definition ins_all (L : list (list N * id)) (I : list (list N * id)) : list (list N * id) :=
  fold_left (fun l e => assoc_insert (fst e) (snd e) l) L I.
Definition addo_all (R : list (list N * id)) (O : list (list N * list id)) : list (list N * list id) :=
  fold_left (fun l e => add_origin (fst e) (snd e) l) R O.
Definition reg_apply (x : model) (L R : list (list N * id)) : model :=
  set_origins (set_idents x (ins_all L (m_idents x))) (addo_all R (m_origins x)).

Lemma reg_apply_nil x : reg_apply x [] [] = x.
Proof. destruct x; reflexivity. Qed.
Lemma reg_apply_app x L1 R1 L2 R2 : reg_apply (reg_apply x L1 R1) L2 R2 = reg_apply x (L1 ++ L2) (R1 ++ R2).
Proof. unfold reg_apply, ins_all, addo_all. cbn. rewrite !fold_left_app. reflexivity. Qed.

Lemma list_set_twice {A} (l : list A) k a b : list_set (list_set l k a) k b = list_set l k b.
Proof. revert k. induction l as [|x l IH]; intros [|k]; cbn; auto. f_equal. auto. Qed.
Lemma list_set_same {A} (l : list A) k a : nth_opt l k = Some a -> list_set l k a = l.
Proof. revert k. induction l as [|x l IH]; intros [|k]; cbn; try discriminate; [intros [= ->]; reflexivity|]. intros H. f_equal. auto. Qed.

Lemma register_run f : forall m cur i w0 w x r w',
  (forall j, w_nodes w j = w_nodes w0 j) -> model_at w m = Some x ->
  register_subtree T f m cur i w = Val (r, w') ->
  exists L R, reg_entries T f w0 cur i = Some (L, R) /\ r = OK tt /\
    (forall j, w_nodes w' j = w_nodes w0 j) /\ w_next w' = w_next w /\ w_files w' = w_files w /\
    w_models w' = list_set (w_models w) (N.to_nat m) (reg_apply x L R).
Proof.
  induction f as [|f IH]; intros m cur i w0 w x r w' Hnodes Hx H; [discriminate|].
  cbn [register_subtree] in H. rewrite reg_entries_S.
  wnode H n Hn. rewrite Hnodes in Hn. rewrite Hn. cbn zeta.
  destruct (readings_nodes w w0 n Hnodes) as (Rn & Ri & Rs).
  wbind_ro H ident Eid. 2:{ apply (is_identifiable_val T) in Eid as (_ & [=]). }
  apply (is_identifiable_val T) in Eid as (_ & [= ->]). rewrite Ri in H.
  (* the own entry *)
  set (p := cur ++ seg_n T w0 n).
  set (own := if identifiable_n T w0 n then [(p, i)] else []).
  assert (Hown : exists w1, (forall j, w_nodes w1 j = w_nodes w0 j) /\ w_next w1 = w_next w /\ w_files w1 = w_files w /\
            w_models w1 = list_set (w_models w) (N.to_nat m) (reg_apply x own []) /\
            exists k, k w1 = Val (r, w') /\
              k = (fun wc => (do isr <- wl (is_ref T (n_type n));
                    (if isr then do cd <- wl (character_data T n); match cd with Some (DString r0) => add_reference_origin m r0 i | _ => wret tt end else wret tt);;
                    (fix kids (l : list citem) : W unit :=
                       match l with
                       | [] => wret tt
                       | CElem c :: rest => register_subtree T f m p c;; kids rest
                       | CData _ :: rest => kids rest
                       end) (n_content n))%W wc)).
  { unfold own. destruct (identifiable_n T w0 n) eqn:Ei.
    - apply wbind_inv in H as [(cur' & w1 & E1 & H)|(e0 & E1 & Hr)].
      2:{ exfalso. apply wbind_inv in E1 as [(nm & wx & Enm & E1)|(e1 & Enm & _)]; [|apply (item_name_val T) in Enm as (_ & [=])].
          apply wbind_inv in E1 as [(u1 & w2 & E2 & E1)|(e2 & E2 & _)]; [apply wret_inv in E1 as ([=] & _)|apply modify_model_inv in E2 as (? & _ & [=] & _)]. }
      apply wbind_inv in E1 as [(nm & wx & Enm & E1)|(e1 & Enm & [=])].
      apply (item_name_val T) in Enm as (-> & [= ->]). rewrite Rn in E1.
      apply wbind_inv in E1 as [(u1 & w2 & E2 & E1)|(e2 & E2 & [=])].
      apply wret_inv in E1 as ([= Hcur] & ->). subst cur'.
      apply modify_model_inv in E2 as (x0 & Hx0 & _ & ->). assert (x0 = x) by (unfold model_at in Hx; congruence). subst x0.
      assert (Hp : match item_name_n T w0 n with Some x1 => cur ++ 47 :: x1 | None => cur end = p).
      { unfold p, seg_n. destruct (item_name_n T w0 n); [reflexivity|rewrite app_nil_r; reflexivity]. }
      cbn [app] in H. rewrite Hp in H.
      exists (mkWorld (w_nodes w) (w_next w) (w_files w) (list_set (w_models w) (N.to_nat m) (set_idents x (assoc_insert p i (m_idents x))))).
      split; [intros j; cbn; apply Hnodes|]. split; [reflexivity|]. split; [reflexivity|].
      split; [cbn [w_models]; f_equal; destruct x; reflexivity|].
      eexists. split; [exact H|reflexivity].
    - apply wbind_inv in H as [(cur' & w1 & E1 & H)|(e0 & E1 & Hr)]; [|apply wret_inv in E1 as ([=] & _)].
      apply wret_inv in E1 as ([= Hcur] & ->). subst cur'.
      assert (Hp : cur = p).
      { unfold p, seg_n. destruct (item_name_n T w0 n) eqn:En; [apply item_name_identifiable in En; congruence|rewrite app_nil_r; reflexivity]. }
      rewrite Hp in H. exists w. split; [exact Hnodes|]. split; [reflexivity|]. split; [reflexivity|].
      split; [rewrite reg_apply_nil; symmetry; apply list_set_same; exact Hx|]. eexists. split; [exact H|reflexivity]. }
  destruct Hown as (w1 & N1 & X1 & F1 & M1 & k & Hk & ->). clear H.
  assert (Hx1 : model_at w1 m = Some (reg_apply x own [])) by (unfold model_at; rewrite M1; eapply list_set_nth_eq; exact Hx).
  (* the own reference entry *)
  wval Hk isr Hisr. rewrite (isref_val T _ _ Hisr).
  set (rf := if isr then match cdata_of T n with Some (DString r0) => [(r0, i)] | _ => [] end else []).
  wbind_w Hk u2 w2 E2.
  2:{ exfalso. destruct isr; [|winv E2]. wval E2 cd Hcd. destruct cd as [[| r0 | |]|]; try (winv E2).
      apply modify_model_inv in E2 as (? & _ & [=] & _). }
  assert (H2 : (forall j, w_nodes w2 j = w_nodes w0 j) /\ w_next w2 = w_next w /\ w_files w2 = w_files w /\
               w_models w2 = list_set (w_models w) (N.to_nat m) (reg_apply x own rf)).
  { unfold rf. destruct isr.
    - wval E2 cd Hcd. rewrite (cdata_of_val T _ _ Hcd).
      destruct cd as [[| r0 | |]|]; try (winv E2; repeat split; auto; rewrite M1; reflexivity).
      apply modify_model_inv in E2 as (x0 & Hx0 & _ & ->). assert (x0 = reg_apply x own []) by (unfold model_at in Hx1; congruence). subst x0.
      cbn [w_nodes w_next w_files w_models]. split; [exact N1|]. split; [exact X1|]. split; [exact F1|].
      rewrite M1, list_set_twice. reflexivity.
    - winv E2. repeat split; auto. }
  destruct H2 as (N2 & X2 & F2 & M2). clear E2.
  assert (Hx2 : model_at w2 m = Some (reg_apply x own rf)) by (unfold model_at; rewrite M2; eapply list_set_nth_eq; exact Hx).
  (* the children *)
  assert (Hkids : forall l wc xc rc wc', (forall j, w_nodes wc j = w_nodes w0 j) -> model_at wc m = Some xc ->
            (fix kids (l : list citem) : W unit :=
               match l with
               | [] => wret tt
               | CElem c :: rest => (register_subtree T f m p c;; kids rest)%W
               | CData _ :: rest => kids rest
               end) l wc = Val (rc, wc') ->
            exists a b, reg_kids f w0 p l = Some (a, b) /\ rc = OK tt /\ (forall j, w_nodes wc' j = w_nodes w0 j) /\
              w_next wc' = w_next wc /\ w_files wc' = w_files wc /\ w_models wc' = list_set (w_models wc) (N.to_nat m) (reg_apply xc a b)).
  { induction l as [|[c|d] rest IHl]; intros wc xc rc wc' Hnc Hxc Hl.
    - winv Hl. exists [], []. split; [reflexivity|]. split; [reflexivity|]. split; [exact Hnc|]. split; [reflexivity|]. split; [reflexivity|].
      rewrite reg_apply_nil. symmetry. apply list_set_same. exact Hxc.
    - wbind_w Hl u3 w3 E3.
      + destruct (IH _ _ _ _ _ _ _ _ Hnc Hxc E3) as (a1 & b1 & Ec & _ & N3 & X3 & F3 & M3).
        assert (Hx3 : model_at w3 m = Some (reg_apply xc a1 b1)) by (unfold model_at; rewrite M3; eapply list_set_nth_eq; exact Hxc).
        destruct (IHl _ _ _ _ N3 Hx3 Hl) as (a2 & b2 & Er & -> & N4 & X4 & F4 & M4).
        exists (a1 ++ a2), (b1 ++ b2). rewrite reg_kids_cons_elem, Ec, Er. split; [reflexivity|]. split; [reflexivity|]. split; [exact N4|].
        split; [congruence|]. split; [congruence|]. rewrite M4, M3, list_set_twice, reg_apply_app. reflexivity.
      + exfalso. destruct (IH _ _ _ _ _ _ _ _ Hnc Hxc E3) as (_ & _ & _ & [=] & _).
    - apply (IHl _ _ _ _ Hnc Hxc Hl). }
  destruct (Hkids _ _ _ _ _ N2 Hx2 Hk) as (a & b & Ek & -> & N3 & X3 & F3 & M3).
  fold p. rewrite Ek. exists (own ++ a), (rf ++ b). split; [reflexivity|]. split; [reflexivity|]. split; [exact N3|].
  split; [congruence|]. split; [congruence|]. rewrite M3, M2, list_set_twice, reg_apply_app. reflexivity.
Qed.

(* ---------- the maps after the insertions *)
Lemma ins_all_get (L : list (list N * id)) : forall I k,
  NoDup (map fst L) ->
  assoc_get k (ins_all L I) = match assoc_get k L with Some j => Some j | None => assoc_get k I end.
Proof.
  induction L as [|[k0 j0] L IH]; intros I k Hnd; [reflexivity|]. cbn [ins_all fold_left fst snd]. fold (ins_all L (assoc_insert k0 j0 I)).
  inversion Hnd as [|? ? Hni Hnd']; subst. rewrite IH by exact Hnd'. cbn [assoc_get fst snd].
  destruct (bytes_eqb k0 k) eqn:E.
  - apply bytes_eqb_spec in E. subst k0. destruct (assoc_get k L) as [j|] eqn:El.
    + exfalso. apply Hni. apply assoc_get_in in El. apply in_map_iff. exists (k, j). auto.
    + apply assoc_get_insert_eq.
  - destruct (assoc_get k L); [reflexivity|]. apply assoc_get_insert_neq. intros ->. rewrite bytes_eqb_refl in E. discriminate.
Qed.
Lemma ins_all_nodup (L : list (list N * id)) : forall I, NoDupKeys I -> NoDupKeys (ins_all L I).
Proof. induction L as [|[k0 j0] L IH]; intros I H; [exact H|]. cbn. apply IH. apply nodup_insert. exact H. Qed.

Lemma addo_all_oget (R : list (list N * id)) : forall O p,
  oget p (addo_all R O) = oget p O ++ map snd (filter (fun e => if bytes_dec (fst e) p then true else false) R).
Proof.
  induction R as [|[r0 j0] R IH]; intros O p; cbn [addo_all fold_left fst snd]; [rewrite app_nil_r; reflexivity|].
  fold (addo_all R (add_origin r0 j0 O)). rewrite IH, oget_add. cbn [filter fst snd].
  destruct (bytes_dec p r0) as [->|Hne].
  - destruct (bytes_dec r0 r0) as [_|C]; [|contradiction]. cbn [map snd]. rewrite <- app_assoc. reflexivity.
  - destruct (bytes_dec r0 p) as [E|_]; [symmetry in E; contradiction|]. reflexivity.
Qed.
Lemma addo_all_tidy (R : list (list N * id)) : forall O, Tidy O -> Tidy (addo_all R O).
Proof. induction R as [|[r0 j0] R IH]; intros O H; [exact H|]. cbn. apply IH. apply tidy_add. exact H. Qed.

End Reg.
