(* Tree/NoPanicProofsOp2Hist.v — C12 (panic / loop half): HISTORIES over the large alphabet op2 (Tree/Script2.v).
   H2 = H12 /\ FI is kept by, and makes total, every operation of covered_step2:
     Op1 o                 all 26 operations of `op` (oracle alphabet run_opF)
     OpSort / OpSortModel  agent-c14: Core, RE, RV give SpecKids, SpecKids makes Element::sort total; the result is world_rel
     OpSetVersion f v      Tree/NoPanicProofsCompat.v (every H2 world since the fix 96557f4 of the mask lookup; before it the call
     OpCheckCompat f v     panicked after a type-keeping move, Tree/NoPanicProofsCompatEx.v); check is read-only
     OpSerializeFile f     Tree/NoPanicProofsSerFile.v;  OpSerializeElem h  Tree/NoPanicProofsSer.v (read-only)
   PENDING as steps of a history (covered_step2 = false): OpDuplicate, OpLoad. *)
From Coq Require Import Lia PeanoNat.
From AV Require Import Base.Bytes Base.Outcome Hash.HashModel Spec.SpecOps Xml.TablesOk Tree.Heap Tree.Ops Tree.Script Tree.Script2 Tree.Inv.
From AV Require Import Tree.InvProofsBase Tree.InvProofs Tree.Sort Tree.SortProofsOrder Tree.SortProofsHeap Tree.SortProofsMain Tree.SortProofsCore
  Tree.SortProofsReadyE Tree.SortProofsReadyV Tree.SortProofsReady Tree.IndexProofsNodeInv Tree.Compat Tree.CompatHist1
  Tree.OrdFiles Tree.OrdHist Tree.Serialize.
From AV Require Import Tree.NoPanic Tree.NoPanicProofsBase Tree.NoPanicProofsCopy2 Tree.NoPanicFloat Tree.NoPanicProofsFloat Tree.NoPanicProofsHist
  Tree.NoPanicProofsSer Tree.NoPanicProofsOp2 Tree.NoPanicProofsOp2Inv Tree.NoPanicProofsFiles Tree.NoPanicProofsSerFile Tree.NoPanicProofsCompat.
Open Scope string_scope.
Open Scope list_scope.
Open Scope N_scope.

Definition covered_step2 (o : op2) : bool :=
  match o with OpDuplicate _ | OpLoad _ _ _ _ => false | _ => true end.
Lemma coverage_step2 o : covered_step2 o = match o with OpDuplicate _ | OpLoad _ _ _ _ => false | _ => true end.
Proof. reflexivity. Qed.

(* the client side of one call inside a history *)
Definition op2_wfh (tab_el tab_en : nametab) (w : world) (o : op2) : Prop :=
  match o with
  | Op1 o1 => op_wf tab_el tab_en w o1 /\ op_wfv o1 /\ SizeOk w
  | OpSort h | OpSerializeElem h => h < w_next w
  | OpSortModel m => m < N.of_nat (List.length (w_models w))
  | OpSetVersion f v => f < N.of_nat (List.length (w_files w)) /\ ver_ok v
  | OpCheckCompat f v => f < N.of_nat (List.length (w_files w))
  | OpSerializeFile f => f < N.of_nat (List.length (w_files w))
  | OpDuplicate _ | OpLoad _ _ _ _ => False
  end.

Section Hist2.
Variable T : tables.
Variable tab_el tab_at tab_en : nametab.
Variable check_fn : N -> list N -> res bool.
Variable float_parse : list N -> option N.
Variable fmt : N -> list N.
Variable LATEST name_index name_definition_ref attr_schema_location : N.
Variable root_attrs : list (N * cdata).
Hypothesis OK12 : tables_ok12 T = true.
Hypothesis CHECK : forall fn s, exists b, check_fn fn s = Val b.
Hypothesis EN_OK : nametab_ok tab_en = true.
Hypothesis SHORT_OK : name_ok tab_el (name_short_name T).
Hypothesis NamesOK : forall i e, i < n_elements T -> T_elements T i = Some e -> to_str tab_el (ed_name e) <> None.
Hypothesis EnumsOK : forall k items it, T_cdata T k = Some (CEnum items) -> In it items -> to_str tab_en (fst it) <> None.
Hypothesis AttrsOK : forall k name cdid req, T_attributes T k = Some (name, cdid, req) -> to_str tab_at name <> None.
Hypothesis RootOK : attrV tab_at tab_en root_attrs.
Hypothesis TKr : forall ty cs v ver, is_ref T ty = Val true -> chardata_spec T ty = Val (Some cs) ->
  check_value check_fn v cs ver = Val true -> exists s, v = DString s.
Hypothesis RootTy : forall ty, et_new T (autosar_element T) = Val ty -> plainty T ty.
Hypothesis HM : MaskOK T.

Notation TOK := (ok12_tables T OK12) (only parsing).
Notation H12 := (H12 T tab_el tab_at tab_en).
Notation H2 := (H2 T tab_el tab_at tab_en).
Notation run := (Inv.run T tab_el tab_en check_fn LATEST root_attrs).
Notation runF := (run_opF T tab_el tab_en check_fn LATEST root_attrs fmt).
Notation run2F := (run_op2F T tab_el tab_at tab_en check_fn float_parse fmt LATEST name_index name_definition_ref
                            attr_schema_location root_attrs).
Notation op2_wfh' := (op2_wfh tab_el tab_en).

(* ---------- FI over the oracle alphabet ---------- *)
Lemma FI_stepF o w r w' : FI w -> op_wf tab_el tab_en w o -> op_wfv o -> runF o w = Val (r, w') -> FI w'.
Proof.
  intros I WF WV H. destruct o; try exact (FI_step T tab_el tab_en check_fn LATEST root_attrs _ w r w' I WF WV H).
  destruct v; try exact (FI_step T tab_el tab_en check_fn LATEST root_attrs _ w r w' I WF WV H).
  cbn [run_opF] in H. apply wmap_inv in H as (r0 & H & _). cbn [NoPanic.op_wf] in WF.
  apply setF_float in H as [H|H]; destruct (wunit_val _ _ _ _ H) as (r1 & E).
  - exact (FI_step T tab_el tab_en check_fn LATEST root_attrs (OpSetCData h (DFloat bits)) w r1 w' I WF Logic.I E).
  - exact (FI_step T tab_el tab_en check_fn LATEST root_attrs (OpSetCData h (DString (fmt bits))) w r1 w' I (conj (proj1 WF) Logic.I) Logic.I E).
Qed.

(* ---------- sort ---------- *)
Lemma FI_world_rel w w' : world_rel T w w' -> FI w -> FI w'.
Proof.
  intros (_ & F & M & Hn) ((NF1 & _) & FK). split.
  - split; [|reflexivity]. rewrite F. intros i n' Hn'. specialize (Hn i). rewrite Hn' in Hn.
    destruct (w_nodes w i) as [n|] eqn:E; [|destruct Hn]. destruct Hn as ((_ & _ & _ & _ & Fl & _) & _).
    unfold fgood. rewrite Fl. exact (NF1 i n E).
  - intros k fl Hk. rewrite F in Hk. destruct (FK _ _ Hk) as (A & B). split; [rewrite M; exact A|exact B].
Qed.

Lemma np_e_sort w i : H12 w -> i < w_next w ->
  exists w', e_sort T tab_el tab_at tab_en name_index name_definition_ref i w = Val (OK tt, w').
Proof.
  intros I L. pose proof I as (C & _ & _ & E & V & _).
  pose proof (ready_spec_kids T tab_el tab_at tab_en TOK HM w E V) as K.
  apply (e_sort_total_core T tab_el tab_at tab_en name_index name_definition_ref isort_poly StableSort_isort i w C K).
  apply (c_alloc w C). exact L.
Qed.

(* ---------- set_version ---------- *)
Lemma set_version_eff f v w r w' : f_set_version T f v w = Val (r, w') ->
  w' = w \/ exists x, nth_opt (w_files w) (N.to_nat f) = Some x /\
            w' = mkWorld (w_nodes w) (w_next w) (list_set (w_files w) (N.to_nat f) (mkFile (f_model x) (f_name x) v (f_standalone x))) (w_models w).
Proof.
  unfold f_set_version. intros H. apply wbind_inv in H as [((errs & mask) & w1 & E & H)|(e & E & _)].
  - assert (w1 = w) as -> by (unfold f_check_version_compatibility in E; destruct (f_check T w f v); inversion E; reflexivity).
    destruct (is_empty errs); [|apply wfail_inv in H as (_ & ->); left; reflexivity].
    apply wbind_inv in H as [(x & w1 & E1 & H)|(e & E1 & _)]; apply get_file_inv in E1 as (x' & Hx & Ex & ->); [|left; reflexivity].
    injection Ex as <-. unfold set_file in H. injection H as _ <-. right. exists x. split; [exact Hx|reflexivity].
  - left. unfold f_check_version_compatibility in E. destruct (f_check T w f v); inversion E; reflexivity.
Qed.

Lemma nth_opt_list_set {A} (l : list A) k x j y : nth_opt (list_set l k x) j = Some y ->
  (j = k /\ y = x /\ (k < List.length l)%nat) \/ (j <> k /\ nth_opt l j = Some y).
Proof.
  revert k j. induction l as [|a l IH]; intros k j H; [destruct j; discriminate|].
  destruct k as [|k]; cbn [list_set] in H.
  - destruct j as [|j]; cbn in H; [injection H as <-; left; cbn; repeat split; lia|right; split; [discriminate|exact H]].
  - destruct j as [|j]; cbn in H; [right; split; [discriminate|exact H]|].
    destruct (IH _ _ H) as [(-> & -> & L)|(NE & E)]; [left; cbn; repeat split; lia|right; split; [congruence|exact E]].
Qed.
Lemma nth_opt_list_set_some {A} (l : list A) k x j y : nth_opt l j = Some y -> exists y', nth_opt (list_set l k x) j = Some y'.
Proof.
  revert k j. induction l as [|a l IH]; intros k j H; [destruct j; discriminate|].
  destruct k as [|k], j as [|j]; cbn in *; eauto.
Qed.

Lemma H2_set_version f v w r w' : ver_ok v -> f_set_version T f v w = Val (r, w') -> H2 w -> H2 w'.
Proof.
  intros Vv H (I & (NF & FK)). destruct (set_version_eff _ _ _ _ _ H) as [->|(x & Hx & ->)]; [split; [exact I|split; assumption]|].
  split; [apply (H12_same T tab_el tab_at tab_en w); auto|]. split.
  - split; [|reflexivity]. cbn [w_nodes w_files]. intros i n Hn g Hg. destruct (proj1 NF i n Hn g Hg) as (y & Hy).
    destruct (nth_opt_list_set_some _ (N.to_nat f) (mkFile (f_model x) (f_name x) v (f_standalone x)) _ _ Hy) as (y' & Hy'). exists y'. exact Hy'.
  - intros k fl Hk. cbn [w_files] in Hk. apply nth_opt_list_set in Hk as [(_ & -> & _)|(_ & Hk)].
    + destruct (FK _ _ Hx) as (A & _). split; [exact A|exact Vv].
    + exact (FK _ _ Hk).
Qed.

(* ---------- one step of the large alphabet ---------- *)
Theorem H2_step2 o w r w' : covered_step2 o = true -> op2_wfh' w o -> H2 w -> run2F o w = Val (r, w') -> H2 w'.
Proof.
  intros COV WF (I & F) H. destruct o; try discriminate COV; cbn [op2_wfh] in WF; cbn [run_op2F run_op2] in H.
  - apply wmap_inv in H as (r0 & H & _). destruct WF as (WF & WV & _). split.
    + exact (H12_stepF T tab_el tab_at tab_en check_fn LATEST root_attrs OK12 NamesOK EnumsOK AttrsOK RootOK TKr RootTy fmt o w r0 w' I H).
    + exact (FI_stepF o w r0 w' F WF WV H).
  - apply wmap_inv in H as (r0 & H & _). unfold e_sort in H.
    apply (e_sort_frame T tab_el tab_at tab_en name_index name_definition_ref isort_poly StableSort_isort) in H as (_ & WR).
    split; [exact (H12_world_rel T tab_el tab_at tab_en w w' WR I)|exact (FI_world_rel w w' WR F)].
  - apply wmap_inv in H as (r0 & H & _). unfold m_sort in H.
    apply (m_sort_frame T tab_el tab_at tab_en name_index name_definition_ref isort_poly StableSort_isort) in H as (_ & WR).
    split; [exact (H12_world_rel T tab_el tab_at tab_en w w' WR I)|exact (FI_world_rel w w' WR F)].
  - apply wmap_inv in H as (r0 & H & _). exact (H2_set_version f v w r0 w' (proj2 WF) H (conj I F)).
  - apply wbind_inv in H as [((errs & mask) & w1 & E & H)|(e & E & ->)].
    + apply wret_inv in H as (_ & ->). unfold f_check_version_compatibility in E. destruct (f_check T w f v); inversion E; subst; exact (conj I F).
    + unfold f_check_version_compatibility in E. destruct (f_check T w f v); inversion E; subst; exact (conj I F).
  - apply wmap_inv in H as (r0 & H & _).
    exact (H2_f_serialize T tab_el tab_at tab_en check_fn fmt attr_schema_location EnumsOK AttrsOK f w r0 w' H (conj I F)).
  - apply wmap_inv in H as (r0 & H & _). unfold e_serialize in H. destruct (ser_heap _ _ _ _ _ _ _ _ _ _ _); inversion H; subst; exact (conj I F).
Qed.

Theorem no_panic_step2 o w : covered_step2 o = true -> op2_wfh' w o -> H2 w -> runs (run2F o) w.
Proof.
  intros COV WF (I & F). destruct o; try discriminate COV; cbn [op2_wfh] in WF; cbn [run_op2F run_op2].
  - destruct WF as (WF & _ & SZ).
    eapply runs_then; [exact (no_panic_H12 T tab_el tab_at tab_en check_fn LATEST root_attrs OK12 CHECK EN_OK SHORT_OK fmt w o I SZ WF)|].
    intros; apply runs_ret.
  - destruct (np_e_sort w h I WF) as (w' & E). eapply runs_bind; [exact E|]. intros; apply runs_ret.
  - destruct (nth_opt_lt' (w_models w) (N.to_nat m)) as (x & Hx); [lia|]. pose proof I as (C & _).
    assert (Lr : m_root x < w_next w).
    { assert (Hr : nth_error (roots w) (N.to_nat m) = Some (m_root x)) by (unfold roots; rewrite nth_error_map, <- Bytes.nth_opt_nth_error, Hx; reflexivity).
      destruct (c_roots w C _ _ Hr) as (n & Hn & _). apply (c_alloc w C). exists n. exact Hn. }
    destruct (np_e_sort w (m_root x) I Lr) as (w' & E).
    eapply runs_bind; [unfold m_sort, m_sort_with, wbind at 1, get_model; rewrite Hx; exact E|]. intros; apply runs_ret.
  - destruct WF as (Lf & _). eapply runs_then; [exact (np_f_set_version T tab_el tab_at tab_en OK12 w f v I F Lf)|]. intros; apply runs_ret.
  - eapply runs_then; [exact (np_f_check_version_compatibility T tab_el tab_at tab_en OK12 w f v I F WF)|].
    intros (errs & mask) w1. apply runs_ret.
  - eapply runs_then; [exact (np_f_serialize T tab_el tab_at tab_en check_fn LATEST root_attrs fmt attr_schema_location OK12 CHECK EnumsOK AttrsOK w f (conj I F) WF)|].
    intros; apply runs_ret.
  - eapply runs_then; [exact (np_e_serialize T tab_el tab_at tab_en fmt OK12 w h I WF)|]. intros; apply runs_ret.
Qed.

(* ---------- histories ---------- *)
Fixpoint run_ops2F (l : list op2) (w : world) : res world :=
  match l with
  | [] => Val w
  | o :: r => match run2F o w with Val (_, w') => run_ops2F r w' | Pan s => Pan s | Fuel => Fuel end
  end.

Fixpoint wf_ops2 (l : list op2) (w : world) : Prop :=
  match l with
  | [] => True
  | o :: r => covered_step2 o = true /\ op2_wfh' w o /\ forall x w', run2F o w = Val (x, w') -> wf_ops2 r w'
  end.

Theorem no_panic2_hist l : forall w, H2 w -> wf_ops2 l w -> exists w', run_ops2F l w = Val w' /\ H2 w'.
Proof.
  induction l as [|o l IH]; intros w I WF; cbn [run_ops2F wf_ops2] in *; [eauto|].
  destruct WF as (COV & WF & K). destruct (no_panic_step2 o w COV WF I) as (x & w1 & E). rewrite E.
  apply IH; [exact (H2_step2 o w x w1 COV WF I E)|exact (K _ _ E)].
Qed.

End Hist2.
