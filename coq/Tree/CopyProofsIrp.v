(* Tree/CopyProofsIrp.v — C13 proofs: a calculus for INDEPENDENCE of a protected region.
   P : a fixed set of node ids (the trees of the protected models), PM : the set of protected model numbers.
     Sealed w   : P is allocated; no node outside P lists, or points with its parent link to, a node of P, and no node
                  outside P claims to be the root of a protected model; the roots and the two index maps of every
                  unprotected model mention no node of P; the protected models exist.
     Same w w'  : every node of P, the record of every protected model and every file of a protected model are what
                  they were.
     irpq Q c   : started in a Sealed world, c ends in a Sealed world with Same, and an OK result satisfies Q.
   Facts of the form ~ P i do not depend on the world: once learned (from reading a node outside P, from an allocation,
   from the index of an unprotected model) they stay valid, which makes the calculus compositional although the nodes
   an operation writes are computed from what it read before. *)
From AV Require Import Base.Bytes Base.Outcome Hash.HashModel Tree.Heap Tree.Ops Tree.Script
  Tree.CopyProofsW Tree.CopyProofsDefs.
From Coq Require Import Lia PeanoNat.
Open Scope string_scope.
Open Scope list_scope.
Open Scope N_scope.

(* worlds only grow *)
Definition Grow (w w' : world) : Prop :=
  w_next w <= w_next w' /\ (List.length (w_models w) <= List.length (w_models w'))%nat /\
  (List.length (w_files w) <= List.length (w_files w'))%nat.
Lemma Grow_refl w : Grow w w.
Proof. unfold Grow. repeat split; lia. Qed.
Lemma Grow_trans a c d : Grow a c -> Grow c d -> Grow a d.
Proof. unfold Grow. intros (A1 & A2 & A3) (B1 & B2 & B3). repeat split; lia. Qed.

Definition grows {A} (c : W A) : Prop := forall w r w', c w = Val (r, w') -> Grow w w'.

Section Irp.
Variable P : id -> Prop.
Variable PM : N -> Prop.
Variable PF : N -> Prop.
(* bounds on what the computation may allocate (node ids, model numbers, file ids): ids between the current bound
   of the world and these are not protected *)
Variables L LM LF : N.

(* a node record that may be stored outside P *)
Definition GoodN (n : node) : Prop :=
  (forall c, In (CElem c) (n_content n) -> ~ P c) /\
  (forall p, n_parent n = PElem p -> ~ P p) /\
  (forall m, n_parent n = PModel m -> ~ PM m).
(* a model record that may be stored at an index other than b *)
Definition GoodM (x : model) : Prop :=
  ~ P (m_root x) /\
  (forall p j, In (p, j) (m_idents x) -> ~ P j) /\
  (forall p l j, In (p, l) (m_origins x) -> In j l -> ~ P j).

Definition SealedL (w : world) : Prop :=
  (forall i, P i -> i < w_next w \/ L <= i) /\
  (forall i n, ~ P i -> w_nodes w i = Some n -> GoodN n) /\
  (forall m x, ~ PM m -> nth_opt (w_models w) (N.to_nat m) = Some x -> GoodM x) /\
  (forall m, PM m -> (exists x, nth_opt (w_models w) (N.to_nat m) = Some x) \/ LM <= m) /\
  (forall f, PF f -> (exists fl, nth_opt (w_files w) (N.to_nat f) = Some fl) \/ LF <= f) /\
  (forall f fl, ~ PF f -> nth_opt (w_files w) (N.to_nat f) = Some fl -> ~ PM (f_model fl)).

Local Notation Sealed := SealedL.
(* the final world stays within the bounds *)
Definition Bnd (w : world) : Prop :=
  w_next w <= L /\ N.of_nat (List.length (w_models w)) <= LM /\ N.of_nat (List.length (w_files w)) <= LF.
Lemma Bnd_Grow w w' : Grow w w' -> Bnd w' -> Bnd w.
Proof. unfold Grow, Bnd. intros (A1 & A2 & A3) (B1 & B2 & B3). repeat split; lia. Qed.

Definition FileSame (w w' : world) : Prop :=
  forall f, PF f -> nth_opt (w_files w') (N.to_nat f) = nth_opt (w_files w) (N.to_nat f).

Definition Same (w w' : world) : Prop :=
  (forall i, P i -> w_nodes w' i = w_nodes w i) /\
  (forall m, PM m -> nth_opt (w_models w') (N.to_nat m) = nth_opt (w_models w) (N.to_nat m)) /\
  FileSame w w' /\ Grow w w'.

Lemma FileSame_refl w : FileSame w w.
Proof. intros f _. reflexivity. Qed.
Lemma FileSame_trans a c d : FileSame a c -> FileSame c d -> FileSame a d.
Proof. intros H1 H2 f Hf. rewrite H2, H1 by exact Hf. reflexivity. Qed.
Lemma FileSame_eq w w' : w_files w' = w_files w -> FileSame w w'.
Proof. intros E f _. rewrite E. reflexivity. Qed.

Lemma Same_refl w : Same w w.
Proof. split; [reflexivity|split; [reflexivity|split; [apply FileSame_refl|apply Grow_refl]]]. Qed.
Lemma Same_trans a c d : Same a c -> Same c d -> Same a d.
Proof.
  intros (A1 & A2 & A3 & A4) (B1 & B2 & B3 & B4). split; [|split; [|split]].
  - intros i Hi. rewrite B1 by auto. auto.
  - intros m Hm. rewrite B2 by auto. auto.
  - eapply FileSame_trans; eauto.
  - eapply Grow_trans; eauto.
Qed.

(* ------------------------------------------------------------------ the predicate on computations *)
Definition irpqL {A} (Q : A -> Prop) (c : W A) : Prop :=
  forall w r w', Sealed w -> c w = Val (r, w') -> Bnd w' -> Sealed w' /\ Same w w' /\ forall a, r = OK a -> Q a.
Definition irpL {A} (c : W A) : Prop := irpqL (fun _ => True) c.
Local Notation irpq := irpqL.
Local Notation irp := irpL.

Lemma irpq_weaken {A} (Q Q' : A -> Prop) c : (forall a, Q a -> Q' a) -> irpq Q c -> irpq Q' c.
Proof. intros HQ H w r w' S E B. destruct (H _ _ _ S E B) as (S' & Sm & Hq). auto. Qed.
Lemma irpq_irp {A} (Q : A -> Prop) c : irpq Q c -> irp c.
Proof. apply irpq_weaken. auto. Qed.

Lemma irpq_ret {A} (Q : A -> Prop) a : Q a -> irpq Q (wret a).
Proof. intros Hq w r w' S E B. apply wret_inv in E as (-> & ->). split; [exact S|]. split; [apply Same_refl|]. intros a' [= <-]. exact Hq. Qed.
Lemma irpq_fail {A} (Q : A -> Prop) e : irpq Q (@wfail A e).
Proof. intros w r w' S E B. apply wfail_inv in E as (-> & ->). split; [exact S|]. split; [apply Same_refl|]. intros a' [=]. Qed.
Lemma irpq_panic {A} (Q : A -> Prop) s : irpq Q (@wpanic A s).
Proof. intros w r w' S E B. discriminate E. Qed.
Lemma irpq_fuel {A} (Q : A -> Prop) : irpq Q (@wfuel A).
Proof. intros w r w' S E B. discriminate E. Qed.
Lemma irp_ro {A} (c : W A) : ro c -> irp c.
Proof. intros R w r w' S E B. apply R in E. subst. split; [exact S|]. split; [apply Same_refl|auto]. Qed.

(* sequencing: the continuation only grows the world, so the intermediate world is within the bounds too *)
Lemma irpq_bind {A C} (Q1 : A -> Prop) (Q : C -> Prop) (c : W A) (k : A -> W C) :
  irpq Q1 c -> (forall a, grows (k a)) -> (forall a, Q1 a -> irpq Q (k a)) -> irpq Q (wbind c k).
Proof.
  intros Hc Hg Hk w r w' S E B. apply wbind_inv in E as [(a & w1 & E1 & E2) | (e & E1 & ->)].
  - assert (B1 : Bnd w1) by (eapply Bnd_Grow; [eapply Hg; eauto|exact B]).
    destruct (Hc _ _ _ S E1 B1) as (S1 & Sm1 & Hq1).
    destruct (Hk a (Hq1 a eq_refl) _ _ _ S1 E2 B) as (S2 & Sm2 & Hq2).
    split; auto. split; auto. eapply Same_trans; eauto.
  - destruct (Hc _ _ _ S E1 B) as (S1 & Sm1 & _). split; [exact S1|]. split; [exact Sm1|]. intros a [=].
Qed.
Lemma irp_try {A} (Q : A -> Prop) (c : W A) : irpq Q c -> irp (wtry c).
Proof.
  intros Hc w r w' S E B. apply wtry_inv in E as (r0 & E & _). destruct (Hc _ _ _ S E B) as (S1 & Sm & _). auto.
Qed.
Lemma irpq_try {A} (Q : A -> Prop) (c : W A) : irpq Q c -> irpq (fun o => forall a, o = Some a -> Q a) (wtry c).
Proof.
  intros Hc w r w' S E B. apply wtry_inv in E as (r0 & E & ->). destruct (Hc _ _ _ S E B) as (S1 & Sm & Hq).
  split; auto. split; auto. intros o [= <-] a Ha. destruct r0; [injection Ha as <-; auto | discriminate].
Qed.
Lemma irp_catch {A} (Q : A -> Prop) (c : W A) : irpq Q c -> irp (wcatch c).
Proof.
  intros Hc w r w' S E B. apply wcatch_inv in E as (r0 & E & _). destruct (Hc _ _ _ S E B) as (S1 & Sm & _). auto.
Qed.
(* a computation that starts by looking at the whole world (fuel) *)
Lemma irpq_wget {C} (Q : C -> Prop) (k : world -> W C) : (forall w0, irpq Q (k w0)) -> irpq Q (wbind wget k).
Proof.
  intros Hk w r w' S E B. apply wbind_inv in E as [(a & w1 & E1 & E2) | (e & E1 & _)].
  - apply wget_inv in E1 as ([= <-] & ->). eapply Hk; eauto.
  - apply wget_inv in E1 as ([=] & _).
Qed.

(* ------------------------------------------------------------------ nodes *)
Lemma Sealed_wset w i n' : Sealed w -> ~ P i -> GoodN n' -> Sealed (wset w i n').
Proof.
  intros (S1 & S2 & S3 & S4) Hi Hg. split; [exact S1|]. split; [|split; [exact S3|exact S4]].
  intros j n Hj Hn. unfold wset in Hn; cbn [w_nodes] in Hn. destruct (N.eq_dec j i) as [->|Hne].
  - rewrite upd_eq in Hn. injection Hn as <-. exact Hg.
  - rewrite upd_neq in Hn by exact Hne. eapply S2; eauto.
Qed.
Lemma Same_wset w i n' : ~ P i -> Same w (wset w i n').
Proof.
  intros Hi. split; [|split; [reflexivity|split; [apply FileSame_eq; reflexivity|unfold Grow, wset; cbn; repeat split; lia]]].
  intros j Hj. unfold wset; cbn [w_nodes]. apply upd_neq. intros ->. auto.
Qed.

Lemma irpq_get {C} (Q : C -> Prop) i (k : node -> W C) :
  ~ P i -> (forall n, GoodN n -> irpq Q (k n)) -> irpq Q (wbind (get_node i) k).
Proof.
  intros Hi Hk w r w' S E B. apply wbind_inv in E as [(n & w1 & E1 & E2) | (e & E1 & _)].
  - apply get_node_inv in E1 as (n' & Hn & [= <-] & ->). eapply (Hk n); eauto. eapply (proj1 (proj2 S)); eauto.
  - apply get_node_inv in E1 as (n' & _ & [=] & _).
Qed.
Lemma irpq_get_any {C} (Q : C -> Prop) i (k : node -> W C) :
  (forall n, irpq Q (k n)) -> irpq Q (wbind (get_node i) k).
Proof.
  intros Hk w r w' S E B. apply wbind_inv in E as [(n & w1 & E1 & E2) | (e & E1 & _)].
  - apply get_node_inv in E1 as (n' & Hn & [= <-] & ->). eapply (Hk n); eauto.
  - apply get_node_inv in E1 as (n' & _ & [=] & _).
Qed.
Lemma irp_set_node i n' : ~ P i -> GoodN n' -> irp (set_node i n').
Proof.
  intros Hi Hg w r w' S E B. apply set_node_wset in E as (_ & ->).
  split; [apply Sealed_wset; auto|]. split; [apply Same_wset; auto|auto].
Qed.
Lemma irp_modify_node i f : ~ P i -> (forall n, GoodN n -> GoodN (f n)) -> irp (modify_node i f).
Proof.
  intros Hi Hf w r w' S E B. apply modify_node_wset in E as (n & Hn & _ & ->).
  split; [apply Sealed_wset; auto; apply Hf; eapply (proj1 (proj2 S)); eauto|]. split; [apply Same_wset; auto|auto].
Qed.
Lemma irpq_alloc n' : GoodN n' -> irpq (fun c => ~ P c) (alloc n').
Proof.
  intros Hg w r w' S E B. apply alloc_walloc in E as (-> & ->).
  assert (Hfresh : ~ P (w_next w)).
  { intros Hp. apply (proj1 S) in Hp. destruct B as (B & _). unfold walloc in B; cbn [w_next] in B. lia. }
  destruct S as (S1 & S2 & S3 & S4). split; [|split].
  - split; [|split; [|split; [exact S3|exact S4]]].
    + intros i Hi. unfold walloc; cbn. apply S1 in Hi. lia.
    + intros j n Hj Hn. unfold walloc in Hn; cbn [w_nodes] in Hn. destruct (N.eq_dec j (w_next w)) as [->|Hne].
      * rewrite upd_eq in Hn. injection Hn as <-. exact Hg.
      * rewrite upd_neq in Hn by exact Hne. eapply S2; eauto.
  - split; [|split; [reflexivity|split; [apply FileSame_eq; reflexivity|unfold Grow, walloc; cbn; repeat split; lia]]].
    intros j Hj. unfold walloc; cbn [w_nodes]. apply upd_neq. intros ->. auto.
  - intros a [= <-]. exact Hfresh.
Qed.

(* ------------------------------------------------------------------ model records *)
Lemma to_nat_neq m m' : m' <> m -> N.to_nat m' <> N.to_nat m.
Proof. intros H E. apply H. apply Nnat.N2Nat.inj. exact E. Qed.

Lemma Sealed_wmodels w m x' :
  Sealed w -> ~ PM m -> GoodM x' -> Sealed (wmodels w (list_set (w_models w) (N.to_nat m) x')).
Proof.
  intros (S1 & S2 & S3 & S4 & S5) Hm Hg. split; [exact S1|]. split; [exact S2|]. split; [|split; [|exact S5]].
  - intros m' x Hk Hx. unfold wmodels in Hx; cbn [w_models] in Hx.
    destruct (N.eq_dec m' m) as [->|Hne].
    + destruct (nth_opt (w_models w) (N.to_nat m)) as [y|] eqn:Ey.
      * rewrite nth_opt_nth_error in Hx, Ey. rewrite (list_set_nth_eq _ _ _ _ Ey) in Hx. injection Hx as <-. exact Hg.
      * rewrite nth_opt_nth_error in Ey. rewrite (list_set_none _ _ _ Ey) in Hx. rewrite <- nth_opt_nth_error in Ey. congruence.
    + rewrite nth_opt_nth_error, list_set_nth_neq, <- nth_opt_nth_error in Hx by (apply to_nat_neq; exact Hne). eapply S3; eauto.
  - intros m' Hm'. destruct (S4 m' Hm') as [(xb & Hxb)|Hge]; [left|right; exact Hge]. exists xb. unfold wmodels; cbn [w_models].
    rewrite nth_opt_nth_error, list_set_nth_neq, <- nth_opt_nth_error; auto.
    apply to_nat_neq. intros ->. auto.
Qed.
Lemma Same_wmodels w m x' : ~ PM m -> Same w (wmodels w (list_set (w_models w) (N.to_nat m) x')).
Proof.
  intros Hm. split; [reflexivity|]. split; [|split; [apply FileSame_eq; reflexivity|
    unfold Grow, wmodels; cbn [w_next w_models w_files]; rewrite list_set_length; repeat split; lia]].
  intros m' Hm'. unfold wmodels; cbn [w_models]. rewrite nth_opt_nth_error, list_set_nth_neq, <- nth_opt_nth_error; auto.
  apply to_nat_neq. intros ->. auto.
Qed.

Lemma irpq_get_model {C} (Q : C -> Prop) m (k : model -> W C) :
  ~ PM m -> (forall x, GoodM x -> irpq Q (k x)) -> irpq Q (wbind (get_model m) k).
Proof.
  intros Hm Hk w r w' S E B. apply wbind_inv in E as [(x & w1 & E1 & E2) | (e & E1 & _)].
  - apply get_model_inv in E1 as (x' & Hx & [= <-] & ->). eapply (Hk x); eauto.
    exact (proj1 (proj2 (proj2 S)) m x Hm Hx).
  - apply get_model_inv in E1 as (x' & _ & [=] & _).
Qed.
Lemma irpq_get_model_any {C} (Q : C -> Prop) m (k : model -> W C) :
  (forall x, irpq Q (k x)) -> irpq Q (wbind (get_model m) k).
Proof.
  intros Hk w r w' S E B. apply wbind_inv in E as [(x & w1 & E1 & E2) | (e & E1 & _)].
  - apply get_model_inv in E1 as (x' & Hx & [= <-] & ->). eapply (Hk x); eauto.
  - apply get_model_inv in E1 as (x' & _ & [=] & _).
Qed.
Lemma irp_set_model m x' : ~ PM m -> GoodM x' -> irp (set_model m x').
Proof.
  intros Hm Hg w r w' S E B. apply set_model_inv in E as (_ & ->).
  split; [apply Sealed_wmodels; auto|]. split; [apply Same_wmodels; auto|auto].
Qed.
Lemma irp_modify_model m f : ~ PM m -> (forall x, GoodM x -> GoodM (f x)) -> irp (modify_model m f).
Proof.
  intros Hm Hf w r w' S E B. apply modify_model_inv in E as (x & Hx & _ & ->).
  split; [|split; [apply Same_wmodels; auto|auto]]. apply Sealed_wmodels; auto. apply Hf.
  exact (proj1 (proj2 (proj2 S)) m x Hm Hx).
Qed.

(* ------------------------------------------------------------------ file records *)
Lemma get_file_inv f w r w' : get_file f w = Val (r, w') -> exists fl, nth_opt (w_files w) (N.to_nat f) = Some fl /\ r = OK fl /\ w' = w.
Proof. unfold get_file. destruct (nth_opt (w_files w) (N.to_nat f)) as [fl|]; [|discriminate]. intros [= <- <-]. eauto. Qed.
Lemma irpq_get_file {C} (Q : C -> Prop) f (k : file -> W C) :
  ~ PF f -> (forall fl, ~ PM (f_model fl) -> irpq Q (k fl)) -> irpq Q (wbind (get_file f) k).
Proof.
  intros Hf Hk w r w' S E B. apply wbind_inv in E as [(x & w1 & E1 & E2) | (e & E1 & _)].
  - apply get_file_inv in E1 as (fl & Hfl & [= <-] & ->). eapply (Hk x); eauto.
    exact (proj2 (proj2 (proj2 (proj2 (proj2 S)))) f x Hf Hfl).
  - apply get_file_inv in E1 as (fl & _ & [=] & _).
Qed.
Lemma irpq_get_file_any {C} (Q : C -> Prop) f (k : file -> W C) :
  (forall fl, irpq Q (k fl)) -> irpq Q (wbind (get_file f) k).
Proof.
  intros Hk w r w' S E B. apply wbind_inv in E as [(x & w1 & E1 & E2) | (e & E1 & _)].
  - apply get_file_inv in E1 as (fl & Hfl & [= <-] & ->). eapply (Hk x); eauto.
  - apply get_file_inv in E1 as (fl & _ & [=] & _).
Qed.
Lemma irp_set_file f x : ~ PF f -> ~ PM (f_model x) -> irp (set_file f x).
Proof.
  intros Hf Hx w r w' S E B. unfold set_file in E. injection E as <- <-.
  destruct S as (S1 & S2 & S3 & S4 & S5 & S6).
  assert (Hold : forall g, g <> f -> nth_opt (list_set (w_files w) (N.to_nat f) x) (N.to_nat g) = nth_opt (w_files w) (N.to_nat g)).
  { intros g Hg. rewrite !nth_opt_nth_error. apply list_set_nth_neq. apply to_nat_neq. exact Hg. }
  split; [|split; [|auto]].
  - split; [exact S1|]. split; [exact S2|]. split; [exact S3|]. split; [exact S4|]. split.
    + intros g Hg. destruct (S5 g Hg) as [(fl & Hfl)|Hge]; [left|right; exact Hge]. exists fl. cbn [w_files]. rewrite Hold; [exact Hfl|]. intros ->. auto.
    + intros g fl Hg Hfl. cbn [w_files] in Hfl. destruct (N.eq_dec g f) as [->|Hne].
      * destruct (nth_opt (w_files w) (N.to_nat f)) as [y|] eqn:Ey.
        -- rewrite nth_opt_nth_error in Hfl, Ey. rewrite (list_set_nth_eq _ _ _ _ Ey) in Hfl. injection Hfl as <-. exact Hx.
        -- rewrite nth_opt_nth_error in Ey. rewrite nth_opt_nth_error, (list_set_none _ _ _ Ey), <- nth_opt_nth_error in Hfl.
           rewrite <- nth_opt_nth_error in Ey. congruence.
      * rewrite Hold in Hfl by exact Hne. eapply S6; eauto.
  - split; [reflexivity|]. split; [reflexivity|]. split; [intros g Hg; cbn [w_files]; apply Hold; intros ->; auto|].
    unfold Grow; cbn [w_next w_models w_files]. rewrite list_set_length. repeat split; lia.
Qed.

(* ------------------------------------------------------------------ lists of ids that are outside P *)
Definition OutC (l : list citem) : Prop := forall c, In (CElem c) l -> ~ P c.
Definition OutI (l : list id) : Prop := forall c, In c l -> ~ P c.
Definition OutP {K} (l : list (K * id)) : Prop := forall k c, In (k, c) l -> ~ P c.
Definition OutO (l : option id) : Prop := forall c, l = Some c -> ~ P c.

Lemma OutC_cons_elem c l : OutC (CElem c :: l) -> ~ P c /\ OutC l.
Proof. intros H. split; [apply H; left; reflexivity | intros x Hx; apply H; right; exact Hx]. Qed.
Lemma OutC_cons_data d l : OutC (CData d :: l) -> OutC l.
Proof. intros H x Hx. apply H. right. exact Hx. Qed.
Lemma OutI_cons c l : OutI (c :: l) -> ~ P c /\ OutI l.
Proof. intros H. split; [apply H; left; reflexivity | intros x Hx; apply H; right; exact Hx]. Qed.
Lemma OutI_nil : OutI [].
Proof. intros c []. Qed.
Lemma OutI_cons_intro c l : ~ P c -> OutI l -> OutI (c :: l).
Proof. intros Hc Hl x [<-|Hx]; auto. Qed.
Lemma OutP_cons {K} (k : K) c l : OutP ((k, c) :: l) -> ~ P c /\ OutP l.
Proof. intros H. split; [apply (H k); left; reflexivity | intros k' x Hx; apply (H k'); right; exact Hx]. Qed.
Lemma GoodN_OutC n : GoodN n -> OutC (n_content n).
Proof. intros (H & _). exact H. Qed.

Lemma assoc_get_In {A} k (l : list (list N * A)) a : assoc_get k l = Some a -> exists k', In (k', a) l.
Proof.
  induction l as [|[k' a'] l IH]; cbn; [discriminate|]. destruct (bytes_eqb k' k).
  - intros [= <-]. exists k'. left. reflexivity.
  - intros H. destruct (IH H) as (k2 & H2). exists k2. right. exact H2.
Qed.
Lemma GoodM_origins x k l : GoodM x -> assoc_get k (m_origins x) = Some l -> OutI l.
Proof. intros (_ & _ & H) E c Hc. apply assoc_get_In in E as (k' & Hin). eapply H; eauto. Qed.
Lemma GoodM_idents x k j : GoodM x -> assoc_get k (m_idents x) = Some j -> ~ P j.
Proof. intros (_ & H & _) E. apply assoc_get_In in E as (k' & Hin). eapply H; eauto. Qed.

End Irp.

(* ------------------------------------------------------------------ the user-level judgement: a BOUNDED region
   (P, PM, PF are allocated / exist); no bounds to choose *)
Definition Sealed (P : id -> Prop) (PM PF : N -> Prop) (w : world) : Prop :=
  (forall i, P i -> i < w_next w) /\
  (forall i n, ~ P i -> w_nodes w i = Some n -> GoodN P PM n) /\
  (forall m x, ~ PM m -> nth_opt (w_models w) (N.to_nat m) = Some x -> GoodM P x) /\
  (forall m, PM m -> exists x, nth_opt (w_models w) (N.to_nat m) = Some x) /\
  (forall f, PF f -> exists fl, nth_opt (w_files w) (N.to_nat f) = Some fl) /\
  (forall f fl, ~ PF f -> nth_opt (w_files w) (N.to_nat f) = Some fl -> ~ PM (f_model fl)).

Definition irpq (P : id -> Prop) (PM PF : N -> Prop) {A} (Q : A -> Prop) (c : W A) : Prop :=
  forall w r w', Sealed P PM PF w -> c w = Val (r, w') -> Sealed P PM PF w' /\ Same P PM PF w w' /\ forall a, r = OK a -> Q a.
Definition irp (P : id -> Prop) (PM PF : N -> Prop) {A} (c : W A) : Prop := irpq P PM PF (fun _ => True) c.

Lemma Sealed_SealedL P PM PF L LM LF w : Sealed P PM PF w -> SealedL P PM PF L LM LF w.
Proof.
  intros (S1 & S2 & S3 & S4 & S5 & S6). split; [intros i Hi; left; auto|]. split; [exact S2|]. split; [exact S3|].
  split; [intros m Hm; left; auto|]. split; [intros f Hf; left; auto|exact S6].
Qed.
Lemma SealedL_Sealed P PM PF L LM LF w w' :
  Sealed P PM PF w -> Same P PM PF w w' -> SealedL P PM PF L LM LF w' -> Sealed P PM PF w'.
Proof.
  intros (A1 & _ & _ & A4 & A5 & _) (_ & Sm & Sf & (G1 & _)) (S1 & S2 & S3 & S4 & S5 & S6).
  split; [intros i Hi; apply A1 in Hi; lia|]. split; [exact S2|]. split; [exact S3|].
  split; [intros m Hm; rewrite (Sm m Hm); auto|]. split; [intros f Hf; rewrite (Sf f Hf); auto|exact S6].
Qed.

(* a judgement for all bounds is a judgement for bounded regions (take the bounds of the final world) *)
Lemma irpq_of_L P PM PF {A} (Q : A -> Prop) (c : W A) :
  (forall L LM LF, irpqL P PM PF L LM LF Q c) -> irpq P PM PF Q c.
Proof.
  intros H w r w' S E.
  destruct (H (w_next w') (N.of_nat (List.length (w_models w'))) (N.of_nat (List.length (w_files w'))) w r w'
              (Sealed_SealedL _ _ _ _ _ _ _ S) E) as (S' & Sm & Hq).
  { unfold Bnd. repeat split; lia. }
  split; [eapply SealedL_Sealed; eauto|]. split; [exact Sm|exact Hq].
Qed.

(* ------------------------------------------------------------------ worlds only grow *)
Lemma grows_ro {A} (c : W A) : ro c -> grows c.
Proof. intros R w r w' E. apply R in E. subst. apply Grow_refl. Qed.
Lemma grows_bind {A C} (c : W A) (k : A -> W C) : grows c -> (forall a, grows (k a)) -> grows (wbind c k).
Proof.
  intros Hc Hk w r w' E. apply wbind_inv in E as [(a & w1 & E1 & E2) | (e & E1 & _)].
  - eapply Grow_trans; [eapply Hc|eapply Hk]; eauto.
  - eapply Hc; eauto.
Qed.
Lemma grows_try {A} (c : W A) : grows c -> grows (wtry c).
Proof. intros Hc w r w' E. apply wtry_inv in E as (r0 & E & _). eapply Hc; eauto. Qed.
Lemma grows_catch {A} (c : W A) : grows c -> grows (wcatch c).
Proof. intros Hc w r w' E. apply wcatch_inv in E as (r0 & E & _). eapply Hc; eauto. Qed.
Lemma grows_set_node i n : grows (set_node i n).
Proof. intros w r w' E. apply set_node_wset in E as (_ & ->). unfold Grow, wset; cbn. repeat split; lia. Qed.
Lemma grows_modify_node i f : grows (modify_node i f).
Proof. intros w r w' E. apply modify_node_wset in E as (n & _ & _ & ->). unfold Grow, wset; cbn. repeat split; lia. Qed.
Lemma grows_alloc n : grows (alloc n).
Proof. intros w r w' E. apply alloc_walloc in E as (_ & ->). unfold Grow, walloc; cbn. repeat split; lia. Qed.
Lemma grows_set_model m x : grows (set_model m x).
Proof.
  intros w r w' E. apply set_model_inv in E as (_ & ->). unfold Grow, wmodels; cbn [w_next w_models w_files].
  rewrite list_set_length. repeat split; lia.
Qed.
Lemma grows_modify_model m f : grows (modify_model m f).
Proof.
  intros w r w' E. apply modify_model_inv in E as (x & _ & _ & ->). unfold Grow, wmodels; cbn [w_next w_models w_files].
  rewrite list_set_length. repeat split; lia.
Qed.
Lemma grows_set_file f x : grows (set_file f x).
Proof.
  intros w r w' E. unfold set_file in E. injection E as _ <-. unfold Grow; cbn [w_next w_models w_files].
  rewrite list_set_length. repeat split; lia.
Qed.
