(* Tree/OrdFrame.v — C07, histories: a frame relation for "child lists only lose sub-elements" and its calculus.
   The shape of agent-c17's Tree/CompatFrame.v (Fr / frp / fr_tac), with the node relation sharpened from
   "lists no sub-element the old node did not list" (membership) to "the sub-elements are a SUB-SEQUENCE of the old node's"
   (order matters for specification order: move_element_position satisfies the first but not the second), and with
   "no node disappears" added (child lists must stay allocated).
     Sh w0 w : every node of w is a node of w0 at the same id with the same name and type whose sub-elements are a sub-sequence
               of the old ones; every node of w0 is still a node of w.      Reflexive, transitive.
     shp w0 m: running m from any w with Sh w0 w ends in a w' with Sh w0 w' (whatever m returns).
   AllOrd (every child list in specification order for one version) is inherited along Sh: Sh_allord. *)
From Coq Require Import PeanoNat Arith Lia.
From AV Require Import Base.Bytes Base.Outcome Hash.HashModel Spec.SpecOps Tree.Heap Tree.Ops Tree.Script Tree.Inv
  Tree.InvProofsBase Tree.InvProofsCore Tree.InvProofsPrim Tree.InvProofsRefs Tree.InvProofsRemove
  Tree.Range Tree.SpecWF Tree.RangeProofsLoop Tree.RangeProofsKeep Tree.RangeProofsMoveFinal.
Open Scope string_scope.
Open Scope list_scope.
Open Scope N_scope.

Definition srel (n0 n : node) : Prop :=
  n_name n = n_name n0 /\ n_type n = n_type n0 /\ subseq (elems (n_content n)) (elems (n_content n0)).

Lemma srel_refl n : srel n n.
Proof. repeat split; auto. apply subseq_refl. Qed.
Lemma srel_trans a b c : srel a b -> srel b c -> srel a c.
Proof. intros (N1 & T1 & C1) (N2 & T2 & C2). split; [congruence|]. split; [congruence|]. eapply subseq_trans; eauto. Qed.

Definition Sh (w0 w : world) : Prop :=
  (forall j x, w_nodes w j = Some x -> exists x0, w_nodes w0 j = Some x0 /\ srel x0 x) /\
  (forall j, w_nodes w0 j <> None -> w_nodes w j <> None) /\
  w_next w = w_next w0.

Lemma Sh_refl w : Sh w w.
Proof. split; [|auto]. intros j x H. exists x. split; [exact H|apply srel_refl]. Qed.
Lemma Sh_trans a b c : Sh a b -> Sh b c -> Sh a c.
Proof.
  intros (H1 & E1 & N1) (H2 & E2 & N2). split; [|split; [auto|congruence]]. intros j x Hx.
  destruct (H2 _ _ Hx) as (x1 & Hx1 & R2). destruct (H1 _ _ Hx1) as (x0 & Hx0 & R1).
  exists x0. split; [exact Hx0|eapply srel_trans; eauto].
Qed.

Lemma Sh_nodes_eq w0 w w' : (forall x, w_nodes w' x = w_nodes w x) -> w_next w' = w_next w -> Sh w0 w -> Sh w0 w'.
Proof.
  intros E En (F & G & Nx). split; [intros j x Hx; rewrite E in Hx; exact (F _ _ Hx)|].
  split; [intros j Hj; rewrite E; auto|congruence].
Qed.

Lemma Sh_wset w0 w i x : Sh w0 w -> (exists n0, w_nodes w0 i = Some n0 /\ srel n0 x) -> Sh w0 (wset w i x).
Proof.
  intros (F & G & Nx) Hx. split; [|split; [|exact Nx]].
  - intros j y Hy. destruct (N.eq_dec j i) as [->|Hne].
    + rewrite nodes_wset_eq in Hy. injection Hy as <-. exact Hx.
    + rewrite nodes_wset_neq in Hy by exact Hne. exact (F _ _ Hy).
  - intros j Hj. destruct (N.eq_dec j i) as [->|Hne]; [rewrite nodes_wset_eq; discriminate|].
    rewrite nodes_wset_neq by exact Hne. auto.
Qed.

(* nothing is allocated at or above w_next *)
Definition Fresh (w : world) : Prop := forall i, w_next w <= i -> w_nodes w i = None.

Lemma Sh_fresh w0 w : Sh w0 w -> Fresh w0 -> Fresh w.
Proof.
  intros (F & _ & Nx) H i Hi. destruct (w_nodes w i) as [x|] eqn:E; [|reflexivity].
  destruct (F _ _ E) as (x0 & E0 & _). rewrite H in E0 by lia. discriminate.
Qed.

(* ------------------------------------------------------------------ what is inherited *)
Section Inherit.
Variable T : tables.

Definition AllOrd (v : N) (w : world) : Prop :=
  forall i n, w_nodes w i = Some n -> exists items, items_of w (n_content n) = Some items /\ Ordered T (n_type n) v items.

Lemma Sh_nm w0 w j : Sh w0 w -> w_nodes w0 j <> None -> nm w j = nm w0 j.
Proof.
  intros (F & G & _) Hj. unfold nm. destruct (w_nodes w j) as [x|] eqn:E; [|exfalso; exact (G j Hj E)].
  destruct (F _ _ E) as (x0 & E0 & (Nx & _)). rewrite E0. exact Nx.
Qed.

Lemma Sh_allord v w0 w : Sh w0 w -> AllOrd v w0 -> AllOrd v w.
Proof.
  intros S A i n Hn. destruct (proj1 S _ _ Hn) as (n0 & Hn0 & (_ & Ty & Sub)).
  destruct (A _ _ Hn0) as (items0 & HI0 & HO0). destruct (items_of_names w0 _ _ HI0) as (EN0 & Hal0).
  assert (Hal : forall k, In k (elems (n_content n)) -> w_nodes w k <> None).
  { intros k Hk. apply (proj1 (proj2 S)). apply Hal0. eapply subseq_in; eauto. }
  destruct (items_of_exists w _ Hal) as (items & HI). exists items. split; [exact HI|].
  rewrite Ty. eapply (ordered_subseq T); [|exact HO0].
  destruct (items_of_names w _ _ HI) as (EN & _). rewrite EN, EN0.
  rewrite (map_nm_eq w w0); [apply map_subseq; exact Sub|].
  intros k Hk. apply Sh_nm; [exact S|]. apply Hal0. eapply subseq_in; eauto.
Qed.

End Inherit.

(* ------------------------------------------------------------------ computations *)
Definition shp {A} (w0 : world) (m : W A) : Prop := forall w r w', Sh w0 w -> m w = Val (r, w') -> Sh w0 w'.

Lemma shp_ro {A} w0 (m : W A) : ro m -> shp w0 m.
Proof. intros R w r w' F H. apply R in H. subst. exact F. Qed.
Lemma shp_nfp {A} w0 (m : W A) : nfp m -> shp w0 m.
Proof. intros Hn w r w' F H. destruct (Hn _ _ _ H) as (E & En & _). exact (Sh_nodes_eq _ _ _ E En F). Qed.
Lemma shp_bind {A B} w0 (m : W A) (k : A -> W B) : shp w0 m -> (forall a, shp w0 (k a)) -> shp w0 (wbind m k).
Proof.
  intros Hm Hk w r w' F H. apply wbind_inv in H as [(a & w1 & H1 & H2) | (e & H1 & _)].
  - eapply Hk; [eapply Hm; eauto|eauto].
  - eapply Hm; eauto.
Qed.
Lemma shp_try {A} w0 (m : W A) : shp w0 m -> shp w0 (wtry m).
Proof. intros Hm w r w' F H. apply wtry_inv in H as (r0 & H & _). eapply Hm; eauto. Qed.
Lemma shp_catch {A} w0 (m : W A) : shp w0 m -> shp w0 (wcatch m).
Proof. intros Hm w r w' F H. apply wcatch_inv in H as (r0 & H & _). eapply Hm; eauto. Qed.

Definition sknown (w0 : world) (i : id) (n : node) : Prop := exists n0, w_nodes w0 i = Some n0 /\ srel n0 n.

Lemma shp_bind_get {B} w0 i (k : node -> W B) :
  (forall n, sknown w0 i n -> shp w0 (k n)) -> shp w0 (wbind (get_node i) k).
Proof.
  intros Hk w r w' F H. apply wbind_inv in H as [(n & w1 & H1 & H2) | (e & H1 & _)].
  - apply get_node_inv in H1 as (n' & Hn & [= <-] & ->). exact (Hk n (proj1 F _ _ Hn) _ _ _ F H2).
  - apply get_node_inv in H1 as (n' & _ & [=] & _).
Qed.

Lemma shp_set_node w0 i x : sknown w0 i x -> shp w0 (set_node i x).
Proof. intros Hx w r w' F H. apply set_node_wset in H as (_ & ->). exact (Sh_wset _ _ _ _ F Hx). Qed.

Lemma shp_modify_node w0 i f : (forall n, srel n (f n)) -> shp w0 (modify_node i f).
Proof.
  intros Hf w r w' F H. apply modify_node_wset in H as (n & Hn & _ & ->).
  apply Sh_wset; [exact F|]. destruct (proj1 F _ _ Hn) as (n0 & Hn0 & R). exists n0. split; [exact Hn0|].
  eapply srel_trans; [exact R|apply Hf].
Qed.

Lemma shp_set_model w0 m x : shp w0 (set_model m x).
Proof. intros w r w' F H. apply set_model_inv in H as (_ & ->). exact F. Qed.
Lemma shp_modify_model w0 m f : shp w0 (modify_model m f).
Proof. intros w r w' F H. apply modify_model_inv in H as (x & _ & _ & ->). exact F. Qed.
Lemma shp_set_file w0 f x : shp w0 (set_file f x).
Proof. intros w r w'. unfold set_file. intros F [= <- <-]. exact F. Qed.

Lemma sknown_upd w0 i n x : sknown w0 i n -> srel n x -> sknown w0 i x.
Proof. intros (n0 & H0 & R) Rx. exists n0. split; [exact H0|eapply srel_trans; eauto]. Qed.

(* ---- list facts used to discharge the sub-sequence side conditions ---- *)
Lemma elems_remove_at_sub l k : subseq (elems (remove_at l k)) (elems l).
Proof.
  revert k. induction l as [|y l IH]; intros k; [destruct k; apply ss_nil|].
  destruct k; cbn [remove_at].
  - destruct y; [rewrite elems_cons_elem; apply ss_skip; apply subseq_refl|rewrite elems_cons_data; apply subseq_refl].
  - destruct y; [rewrite !elems_cons_elem; apply ss_take; apply IH|rewrite !elems_cons_data; apply IH].
Qed.
Lemma elems_app_data l d : elems (l ++ [CData d]) = elems l.
Proof. rewrite elems_app. cbn. apply app_nil_r. Qed.

Lemma elems_tail_sub c r : subseq (elems r) (elems (c :: r)).
Proof. destruct c; [rewrite elems_cons_elem; apply ss_skip|rewrite elems_cons_data]; apply subseq_refl. Qed.

Ltac sub_tac :=
  cbn [n_content set_content set_parent set_attrs set_files set_comment] in *;
  repeat first
    [ apply subseq_refl
    | apply subseq_nil
    | apply elems_remove_at_sub
    | apply elems_tail_sub
    | rewrite elems_insert_data
    | rewrite elems_cons_data
    | rewrite elems_app_data
    | match goal with
      | |- subseq (elems (match ?l with _ => _ end)) _ => destruct l
      | |- subseq (elems (if ?b then _ else _)) _ => destruct b
      | E : n_content ?n = _ |- subseq _ (elems (n_content ?n)) => rewrite E
      | E : ?l = _ |- subseq _ (elems ?l) => rewrite E
      end ].

Ltac srel_tac :=
  cbv beta;
  repeat match goal with |- srel _ (if ?b then _ else _) => destruct b | |- srel _ (match ?x with _ => _ end) => destruct x end;
  (split; [reflexivity|split; [reflexivity|sub_tac]]).

Ltac sknown_tac :=
  match goal with
  | K : sknown ?w0 ?i ?n |- sknown ?w0 ?i _ => apply (sknown_upd w0 i n _ K); srel_tac
  end.

Create HintDb shp discriminated.

Ltac sh_step :=
  first
  [ apply shp_ro; solve [ro_tac]
  | assumption
  | solve [auto with shp]
  | apply shp_nfp; solve [auto with nfp]
  | apply shp_modify_node; intros ?; solve [srel_tac]
  | apply shp_set_node; solve [sknown_tac]
  | apply shp_modify_model | apply shp_set_model | apply shp_set_file
  | apply shp_try | apply shp_catch
  | apply shp_bind_get; intros ? ?
  | apply shp_bind; [ | intros ? ]
  | match goal with
    | |- shp _ (match ?x with _ => _ end) => destruct x eqn:?
    | |- shp _ (if ?b then _ else _) => destruct b
    | |- shp _ (let '(_, _) := ?x in _) => destruct x
    end ].
Ltac sh_tac := repeat sh_step.

Lemma shp_each_loop {A} w0 (body : A -> W unit) l : (forall a, shp w0 (body a)) -> shp w0 (each_loop body l).
Proof. intros Hb. induction l as [|a l IH]; cbn [each_loop]; [apply shp_ro; ro_tac|]. apply shp_bind; [apply Hb|intros _; exact IH]. Qed.
Lemma shp_kloop w0 (step : id -> W unit) l : (forall c, shp w0 (step c)) -> shp w0 (kloop step l).
Proof.
  intros Hs. induction l as [|[c|d] l IH]; cbn [kloop]; [apply shp_ro; ro_tac| |exact IH].
  apply shp_bind; [apply Hs|intros _; exact IH].
Qed.
