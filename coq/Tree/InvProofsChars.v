(* Tree/InvProofsChars.v — C03: CharsLeaf (an element whose content mode is Characters has no sub-elements) and the
   type frame (no operation changes the type of a node), part 1: the frame for everything that does not insert a
   sub-element.
     cNR n n' : same type, and a Characters-mode leaf stays a leaf.     cNN n' : a new Characters-mode node is a leaf. *)
From Coq Require Import PeanoNat Arith.
From AV Require Import Base.Bytes Base.Outcome Hash.HashModel Tree.Heap Tree.Ops Tree.Script Tree.Inv
  Tree.InvProofsBase Tree.InvProofsCore Tree.InvProofsTree Tree.InvProofsPrim Tree.InvProofsCreate
  Tree.InvProofsData Tree.InvProofsRefs Tree.InvProofsRemove Tree.InvProofsFiles Tree.InvProofsMove
  Tree.InvProofsCopy Tree.InvProofsRename Tree.InvProofsFrame.
Open Scope string_scope.
Open Scope list_scope.
Open Scope N_scope.

Section Chars.
Variable T : tables.

Definition is_chars (n : node) : Prop := content_mode T (n_type n) = Val MCharacters.
Definition CharsLeaf (w : world) : Prop := forall i n, w_nodes w i = Some n -> is_chars n -> kids n = [].

Definition cNR (n n' : node) : Prop := n_type n' = n_type n /\ (is_chars n -> kids n = [] -> kids n' = []).
Definition cNN (n' : node) : Prop := is_chars n' -> kids n' = [].

Lemma cNR_refl n : cNR n n. Proof. split; auto. Qed.
Lemma cNR_trans a b c : cNR a b -> cNR b c -> cNR a c.
Proof.
  intros (T1 & K1) (T2 & K2). split; [congruence|]. intros Hc Hk. apply K2; auto.
  unfold is_chars in *. rewrite T1. auto.
Qed.
Lemma cNN_NR a b : cNN a -> cNR a b -> cNN b.
Proof. intros Ha (T1 & K1) Hb. unfold is_chars in *. rewrite T1 in Hb. apply K1; auto. Qed.

Lemma CharsLeaf_frame w w' : frame cNR cNN w w' -> CharsLeaf w -> CharsLeaf w'.
Proof.
  intros (_ & F) CL i n' Hn' Hc. destruct (F _ _ Hn') as [(n & Hn & (Ht & Hk))|(_ & Hnn)]; auto.
  assert (Hc0 : is_chars n) by (unfold is_chars in *; rewrite <- Ht; auto). apply Hk; auto. eapply CL; eauto.
Qed.

Lemma type_frame w w' i n : frame cNR cNN w w' -> w_nodes w i = Some n ->
  exists n', w_nodes w' i = Some n' /\ n_type n' = n_type n.
Proof.
  intros (A1 & A2) Hn. destruct (w_nodes w' i) as [n'|] eqn:E; [|exfalso; apply (A1 i); congruence].
  destruct (A2 _ _ E) as [(n0 & Hn0 & (Ht & _))|(Hn0 & _)]; [|congruence].
  exists n'. split; auto. congruence.
Qed.

Lemma CharsLeaf_empty : CharsLeaf empty_world.
Proof. intros i n [=]. Qed.

End Chars.

#[export] Hint Resolve cNR_refl cNR_trans cNN_NR : frp.

(* list facts for the leaf conditions *)
Lemma elems_nil_remove l : forall k, elems l = [] -> elems (remove_at l k) = [].
Proof.
  intros k H. destruct (elems (remove_at l k)) as [|x r] eqn:E; auto.
  assert (In x (elems l)) by (eapply elems_remove_incl; rewrite E; left; auto). rewrite H in H0. destruct H0.
Qed.
Lemma elems_nil_insert_data l d k : elems l = [] -> elems (insert_at l k (CData d)) = [].
Proof. rewrite elems_insert_data. auto. Qed.
Lemma elems_nil_head l d : elems l = [] -> elems (match l with [] => [CData d] | _ :: r => CData d :: r end) = [].
Proof. destruct l as [|[c|x] r]; cbn; auto. discriminate. Qed.
Lemma elems_nil_tail x tl d : elems (x :: tl) = [] -> elems (CData d :: tl) = [].
Proof. destruct x; cbn; auto. discriminate. Qed.

Ltac c_leaf :=
  first
  [ apply cNR_refl
  | split; [reflexivity | intros _ Hk; unfold kids in *; cbn [n_content set_content set_attrs set_files set_parent set_comment] in *;
                         first [ exact Hk | reflexivity | apply elems_nil_remove; exact Hk
                               | apply elems_nil_insert_data; exact Hk | apply elems_nil_head; exact Hk
                               | eapply elems_nil_tail; eassumption
                               | match goal with Hq : n_content _ = _ :: _ |- _ => rewrite Hq in Hk; eapply elems_nil_tail; exact Hk end
                               | rewrite elems_insert_data; apply elems_nil_remove; exact Hk ] ] ].
Ltac c_tac := fr_tac c_leaf.

Section CF.
Variable T : tables.
Variable tab_el tab_en : nametab.
Variable check_fn : N -> list N -> res bool.
Variable LATEST : N.

Notation cfp := (frp (cNR T) (cNN T)).
Notation cframe := (frame (cNR T) (cNN T)).

Lemma cfp_add_identifiable m p e : cfp (add_identifiable m p e).
Proof. unfold add_identifiable. c_tac. Qed.
Lemma cfp_remove_identifiable m p : cfp (remove_identifiable m p).
Proof. unfold remove_identifiable. c_tac. Qed.
Lemma cfp_fix_identifiables m a b : cfp (fix_identifiables m a b).
Proof. unfold fix_identifiables. c_tac. Qed.
Lemma cfp_add_reference_origin m r e : cfp (add_reference_origin m r e).
Proof. unfold add_reference_origin. c_tac. Qed.
Lemma cfp_fix_reference_origins m a b e : cfp (fix_reference_origins m a b e).
Proof. unfold fix_reference_origins. c_tac. Qed.
Lemma cfp_remove_reference_origin m r e : cfp (remove_reference_origin m r e).
Proof. unfold remove_reference_origin. c_tac. Qed.
Hint Resolve cfp_add_identifiable cfp_remove_identifiable cfp_fix_identifiables cfp_add_reference_origin
  cfp_fix_reference_origins cfp_remove_reference_origin : frp.

Lemma cfp_raw_set_cdata i v version : cfp (raw_set_character_data T check_fn i v version).
Proof. unfold raw_set_character_data. c_tac. Qed.
Lemma cfp_raw_set_attribute h attr v version : cfp (raw_set_attribute T check_fn h attr v version).
Proof. unfold raw_set_attribute. c_tac. Qed.
Lemma cfp_detach_from p c : cfp (detach_from p c).
Proof. unfold detach_from. c_tac. Qed.
Lemma cfp_make_unique i m pp : cfp (make_unique_item_name T i m pp).
Proof. unfold make_unique_item_name. c_tac. Qed.
Hint Resolve cfp_raw_set_cdata cfp_raw_set_attribute cfp_detach_from cfp_make_unique : frp.

Lemma cfp_register_subtree f : forall m cur i, cfp (register_subtree T f m cur i).
Proof.
  induction f as [|f IH]; intros m cur i; [intros w r w' H; discriminate|].
  change (register_subtree T (S f) m cur i) with
    (do n <- get_node i;
     do ident <- is_identifiable T n;
     do cur' <- (if ident then
                   do nm <- item_name T n;
                   let p := match nm with Some x => cur ++ [47] ++ x | None => cur end in
                   add_identifiable m p i;; wret p
                 else wret cur);
     do isr <- wl (is_ref T (n_type n));
     (if isr then
        do cd <- wl (character_data T n);
        match cd with Some (DString r) => add_reference_origin m r i | _ => wret tt end
      else wret tt);;
     kloop (fun c => register_subtree T f m cur' c) (n_content n))%W.
  c_tac. apply frp_kloop; [apply cNR_refl | apply cNR_trans | apply cNN_NR | intros c; apply IH].
Qed.
Hint Resolve cfp_register_subtree : frp.

Lemma cfp_each_loop {A} (body : A -> W unit) l : (forall a, cfp (body a)) -> cfp (each_loop body l).
Proof. intros Hb. induction l as [|a l IH]; cbn [each_loop]; c_tac. Qed.
Lemma cfp_upd_refs_loop refstr version rl : cfp (upd_refs_loop T check_fn refstr version rl).
Proof. induction rl as [|re rr IH]; cbn [upd_refs_loop]; c_tac. Qed.
Hint Resolve cfp_upd_refs_loop : frp.
Lemma cfp_move_ref_body m sp dp version orig_ref : cfp (move_ref_body T check_fn m sp dp version orig_ref).
Proof. unfold move_ref_body. c_tac. Qed.
Lemma cfp_fixid_body m sp dp op : cfp (fixid_body m sp dp op).
Proof. unfold fixid_body. c_tac. Qed.
Lemma cfp_ow_loop p rl : cfp (ow_loop p rl).
Proof. induction rl as [|re rr IH]; cbn [ow_loop]; c_tac. Qed.
Hint Resolve cfp_ow_loop : frp.
Lemma cfp_rename_ref_body m op np refpath : cfp (rename_ref_body m op np refpath).
Proof. unfold rename_ref_body. c_tac. Qed.
Lemma cfp_rm_id_loop m_src l : cfp (rm_id_loop m_src l).
Proof. induction l as [|[p e] l IH]; cbn [rm_id_loop]; c_tac. Qed.
Lemma cfp_rm_ref_loop m_src l : cfp (rm_ref_loop m_src l).
Proof. induction l as [|[p e] l IH]; cbn [rm_ref_loop]; c_tac. Qed.
Lemma cfp_add_id_loop m sp dp l : cfp (add_id_loop m sp dp l).
Proof. induction l as [|[p e] l IH]; cbn [add_id_loop]; c_tac. Qed.
Lemma cfp_add_ref_loop m sp dp version original l : cfp (add_ref_loop T check_fn m sp dp version original l).
Proof. induction l as [|[p e] l IH]; cbn [add_ref_loop]; c_tac. Qed.

(* data operations *)
Lemma cfp_set_comment h c : cfp (e_set_comment h c).
Proof. unfold e_set_comment. c_tac. Qed.
Lemma cfp_set_attribute h attr v : cfp (e_set_attribute T check_fn LATEST h attr v).
Proof. unfold e_set_attribute. c_tac. Qed.
Lemma cfp_remove_attribute h attr : cfp (e_remove_attribute T h attr).
Proof. unfold e_remove_attribute. c_tac. Qed.
Lemma cfp_insert_citem h text pos : cfp (e_insert_character_content_item T h text pos).
Proof. unfold e_insert_character_content_item. c_tac. Qed.
Lemma cfp_remove_citem h pos : cfp (e_remove_character_content_item T h pos).
Proof. unfold e_remove_character_content_item. c_tac. Qed.
Lemma cfp_remove_character_data h : cfp (e_remove_character_data T h).
Proof. unfold e_remove_character_data. c_tac. Qed.
Lemma cfp_set_character_data h v : cfp (e_set_character_data T tab_en check_fn LATEST h v).
Proof. unfold e_set_character_data. c_tac. Qed.
Lemma cfp_set_reference_target h target : cfp (e_set_reference_target T tab_el tab_en check_fn LATEST h target).
Proof. unfold e_set_reference_target. c_tac. Qed.

(* removal *)
Lemma cfp_remove_internal f : forall i m path, cfp (remove_internal T f i m path).
Proof.
  induction f as [|f IH]; intros i m path; [intros w r w' H; discriminate|].
  rewrite remove_internal_unfold. unfold remove_identifiable, remove_reference_origin.
  c_tac. apply frp_kloop; [apply cNR_refl | apply cNR_trans | apply cNN_NR | intros c; apply IH].
Qed.
Hint Resolve cfp_remove_internal : frp.
Lemma cfp_raw_remove self sub m : cfp (raw_remove_sub_element T self sub m).
Proof. unfold raw_remove_sub_element. c_tac. Qed.
Hint Resolve cfp_raw_remove : frp.
Lemma cfp_e_remove h sub : cfp (e_remove_sub_element T h sub).
Proof. unfold e_remove_sub_element. c_tac. Qed.
Hint Resolve cfp_e_remove : frp.
Lemma cfp_e_remove_kind h name : cfp (e_remove_sub_element_kind T h name).
Proof. unfold e_remove_sub_element_kind. c_tac. Qed.

End CF.
