(* Tree/RangeProofsShortFirst.v — C07: "the SHORT-NAME comes first" IS part of specification order for every identifiable type
   whose content is a Sequence — and is NOT for Bag / Mixed content (Tree/RangeProofsReal.v insert_before_short_name: the one
   mixed + identifiable type, finding insert-before-short-name).
   An identifiable type lists SHORT-NAME as its entry 0 (that is how is_named_in_version reads it); in a Sequence every other
   entry has a larger index path, so in an ordered child list nothing but (another) SHORT-NAME can stand before a SHORT-NAME. *)
From Coq Require Import Arith Lia.
From AV Require Import Base.Bytes Base.Outcome Spec.SpecOps Spec.SpecProofs Tree.Heap Tree.Range Tree.RangeProofsPath Tree.SpecWF
  Tree.RangeProofsLoop Tree.RangeProofsKeep Tree.RangeProofsMoveFinal.
Open Scope list_scope.
Open Scope N_scope.

Section ShortFirst.
Variable T : tables.

(* a name that resolves to a top-level entry [p]: that entry is an element definition with this name *)
Lemma find_sub_single fuel : forall ty target v et p,
  find_sub T fuel ty target v = Val (Some (et, [p])) ->
  exists def d e, slot T ty p = Some (0, def, d) /\ elem T def = Val e /\ ed_name e = target.
Proof.
  destruct fuel as [|fuel]; intros ty target v et p; cbn [find_sub]; [discriminate|].
  destruct (sub_slice T ty) as [[[start stop] d]| |] eqn:ES; cbn [bind]; try discriminate.
  match goal with
  | |- ?f ?k0 0 = _ -> _ =>
    assert (G : forall k pos, N.of_nat k + pos = stop - start -> f k pos = Val (Some (et, [p])) ->
              exists def d e, slot T ty p = Some (0, def, d) /\ elem T def = Val e /\ ed_name e = target);
      [| apply G; lia]
  end.
  induction k as [|k IHk]; intros pos Hinv; [discriminate|].
  destruct (subel T (start + pos)) as [[kind idx]| |] eqn:ESub; cbn [bind]; try discriminate.
  assert (Hslot : slot T ty pos = Some (kind, idx, d)).
  { unfold slot. rewrite ES. replace (stop - start <=? pos) with false by (symmetry; apply N.leb_gt; lia). rewrite ESub. reflexivity. }
  destruct (kind =? 0) eqn:EK.
  - apply N.eqb_eq in EK. subst kind.
    destruct (elem T idx) as [e| |] eqn:EE; cbn [bind]; try discriminate.
    destruct (vinfo T (dt_sub_ver d + pos)) as [mask| |] eqn:EV; cbn [bind]; try discriminate.
    destruct ((ed_name e =? target) && negb (N.land v mask =? 0)) eqn:EC.
    + unfold et_new. rewrite EE. cbn [bind]. intros [= <- <-]. apply andb_true_iff in EC as [EN _]. apply N.eqb_eq in EN.
      exists idx, d, e. auto.
    + apply IHk. lia.
  - destruct (find_sub T fuel idx target v) as [[[et' ixs]|]| |] eqn:EF; try discriminate.
    + intros [= _ _ E]. exfalso. apply (f_equal (@List.length N)) in E. cbn in E.
      pose proof (find_sub_leaf T _ _ _ _ _ _ EF) as L. apply leaf_path_nonempty in L. destruct ixs; [congruence|discriminate].
    + apply IHk. lia.
Qed.

(* the SHORT-NAME of an identifiable type is its entry 0 *)
Lemma named_short_slot ty v : is_named_in_version T ty v = Val true ->
  exists def d e, slot T (snd ty) 0 = Some (0, def, d) /\ elem T def = Val e /\ ed_name e = name_short_name T.
Proof.
  unfold is_named_in_version, short_name_version_mask. intros H.
  destruct (sub_slice T (snd ty)) as [[[start stop] d]| |] eqn:ES; cbn [bind] in H; try discriminate.
  destruct (start =? stop) eqn:E0; [discriminate|]. apply N.eqb_neq in E0.
  destruct (subel T start) as [[kind idx]| |] eqn:ESub; cbn [bind] in H; try discriminate.
  destruct (kind =? 0) eqn:EK; [|discriminate]. apply N.eqb_eq in EK. subst kind.
  destruct (elem T idx) as [e| |] eqn:EE; cbn [bind] in H; try discriminate.
  destruct (ed_name e =? name_short_name T) eqn:EN; [|discriminate]. apply N.eqb_eq in EN.
  exists idx, d, e. split; [|auto]. unfold slot. rewrite ES.
  assert (Hle : start <= stop).
  { unfold sub_slice, slice_chk in ES. destruct (dt T (snd ty)) as [d0| |]; cbn [bind] in ES; try discriminate.
    destruct ((dt_sub_end d0 <? dt_sub_start d0) || (n_subelements T <? dt_sub_end d0)) eqn:EB; cbn [bind] in ES; try discriminate.
    injection ES as <- <- _. apply orb_false_iff in EB as [EB _]. apply N.ltb_ge in EB. exact EB. }
  replace (stop - start <=? 0) with false by (symmetry; apply N.leb_gt; lia).
  rewrite N.add_0_r, ESub. reflexivity.
Qed.

(* find_sub finds the SHORT-NAME of an identifiable type at entry 0 (the scan starts there and the mask contains v) *)
Lemma short_resolves_0 ty v et ix : is_named_in_version T ty v = Val true ->
  find_sub T FUEL (snd ty) (name_short_name T) v = Val (Some (et, ix)) -> ix = [0].
Proof.
  intros HN. unfold FUEL. cbn [find_sub].
  unfold is_named_in_version, short_name_version_mask in HN.
  destruct (sub_slice T (snd ty)) as [[[start stop] d]| |] eqn:ES; cbn [bind] in HN |- *; try discriminate.
  destruct (start =? stop) eqn:E0; [discriminate|]. apply N.eqb_neq in E0.
  assert (Hle : start <= stop).
  { unfold sub_slice, slice_chk in ES. destruct (dt T (snd ty)) as [d0| |]; cbn [bind] in ES; try discriminate.
    destruct ((dt_sub_end d0 <? dt_sub_start d0) || (n_subelements T <? dt_sub_end d0)) eqn:EB; cbn [bind] in ES; try discriminate.
    injection ES as <- <- _. apply orb_false_iff in EB as [EB _]. apply N.ltb_ge in EB. exact EB. }
  destruct (N.to_nat (stop - start)) as [|k] eqn:EK; [lia|].
  rewrite N.add_0_r.
  destruct (subel T start) as [[kind idx]| |] eqn:ESub; cbn [bind] in HN |- *; try discriminate.
  destruct (kind =? 0) eqn:EKd; [|discriminate].
  destruct (elem T idx) as [e| |] eqn:EE; cbn [bind] in HN |- *; try discriminate.
  destruct (ed_name e =? name_short_name T) eqn:EN; [|discriminate].
  rewrite N.add_0_r.
  destruct (vinfo T (dt_sub_ver d)) as [mask| |]; cbn [bind] in HN |- *; try discriminate.
  injection HN as HN. rewrite (N.land_comm v mask), HN. cbn [andb negb].
  unfold et_new. rewrite EE. cbn [bind]. intros [= _ E]. congruence.
Qed.

Theorem ordered_short_first ty v items :
  is_named_in_version T ty v = Val true -> content_mode T ty = Val MSequence ->
  Ordered T ty v items ->
  forall pre post a, items = pre ++ Some (name_short_name T) :: post -> In (Some a) pre -> a = name_short_name T.
Proof.
  intros HN HM HO pre post a -> Ha.
  destruct (named_short_slot ty v HN) as (defs & ds & es & Hslot & Hes & Hns).
  (* the two-element sub-list [a; SHORT-NAME] is ordered *)
  assert (HO2 : Ordered T ty v [Some a; Some (name_short_name T)]).
  { eapply (ordered_subseq T); [|exact HO]. rewrite somes_app. cbn [somes flat_map app].
    apply (subseq_app (somes pre) [a] (name_short_name T :: somes post) [name_short_name T]).
    - apply subseq_single. clear - Ha. induction pre as [|[x|] r IH]; [destruct Ha| |].
      + destruct Ha as [[= ->]|Ha]; [left; reflexivity|right; apply IH; exact Ha].
      + destruct Ha as [[=]|Ha]. apply IH. exact Ha.
    - apply ss_take. apply subseq_nil. }
  unfold Ordered, orderedb in HO2. cbn [paths_of] in HO2.
  destruct (idx_of T ty v a) as [pa|] eqn:Ea; [|discriminate].
  destruct (idx_of T ty v (name_short_name T)) as [ps|] eqn:Es; [|discriminate].
  cbn [all_pairs_ok forallb] in HO2. rewrite !andb_true_r in HO2.
  pose proof (idx_of_leaf T _ _ _ _ Ea) as La. pose proof (idx_of_leaf T _ _ _ _ Es) as Ls.
  (* the SHORT-NAME resolves to [0] or to a later entry; in both cases a must be the SHORT-NAME entry *)
  assert (Hfs : forall nm p, idx_of T ty v nm = Some [p] ->
            exists def d e, slot T (snd ty) p = Some (0, def, d) /\ elem T def = Val e /\ ed_name e = nm).
  { intros nm p H. unfold idx_of, find_sub_element in H.
    destruct (find_sub T FUEL (snd ty) nm v) as [[[et ix]|]| |] eqn:EF; try discriminate. injection H as ->.
    eapply find_sub_single; eauto. }
  assert (Hmode : group_mode T (snd ty) = Some MSequence).
  { unfold content_mode in HM. unfold group_mode. destruct (dt T (snd ty)) as [d| |]; cbn [bind] in HM; try discriminate.
    injection HM as ->. reflexivity. }
  (* first components *)
  destruct pa as [|p0 ra]; [exfalso; exact (leaf_path_nonempty T _ _ La eq_refl)|].
  destruct ps as [|q0 rs]; [exfalso; exact (leaf_path_nonempty T _ _ Ls eq_refl)|].
  (* SHORT-NAME is found at entry 0: find_sub scans from entry 0 and entry 0 carries the name in this version *)
  destruct (N.eq_dec p0 q0) as [->|NE].
  - (* same top entry: it is an element entry when it is entry 0 ... in general: both resolve below the same entry *)
    destruct (N.eq_dec q0 0) as [->|NZ].
    + (* entry 0 is the SHORT-NAME element: both paths are [0] *)
      inversion La as [g pos def d e m S E V|g pos kind gid d rest S K L]; subst.
      * destruct (Hfs a 0 Ea) as (def' & d' & e' & S' & E' & N'). rewrite Hslot in S'. injection S' as <- <-.
        rewrite Hes in E'. injection E' as <-. congruence.
      * rewrite Hslot in S. injection S as <- _ _. congruence.
    + (* the SHORT-NAME itself does not resolve to entry 0: impossible, entry 0 is found first *)
      exfalso. unfold idx_of, find_sub_element in Es.
      destruct (find_sub T FUEL (snd ty) (name_short_name T) v) as [[[et ix]|]| |] eqn:EF; try discriminate. injection Es as ->.
      pose proof (short_resolves_0 ty v _ _ HN EF) as E. congruence.
  - (* different top entries: they part in the type's own group, a Sequence: a's entry must be smaller; but q0 = 0 *)
    unfold pair_ok in HO2. unfold find_common_group in HO2. rewrite (common_group_diff T _ _ _ _ _ NE) in HO2.
    rewrite Hmode in HO2. rewrite N.eqb_refl in HO2. cbn [ix_cmp] in HO2.
    destruct (p0 ?= q0) eqn:EC; [apply N.compare_eq in EC; congruence| |discriminate].
    rewrite N.compare_lt_iff in EC.
    (* so q0 > 0: again the SHORT-NAME would not resolve to entry 0 *)
    exfalso. assert (NZ : q0 <> 0) by lia.
    unfold idx_of, find_sub_element in Es.
    destruct (find_sub T FUEL (snd ty) (name_short_name T) v) as [[[et ix]|]| |] eqn:EF; try discriminate. injection Es as ->.
    pose proof (short_resolves_0 ty v _ _ HN EF) as E. congruence.
Qed.

End ShortFirst.
