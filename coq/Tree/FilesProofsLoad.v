(* Tree/FilesProofsLoad.v — C10 proofs: the text of a file is the text of its projection tree, and (composed with
   C01's round trip Xml/RoundTripFile.file_roundtrip) loads on its own to exactly that tree.
   ser_heap decides between <X/> and <X>..</X> on the UNFILTERED content list; on elements that are not hollow
   (Files.NoHollow) it writes what Xml/Serializer.ser_elem writes for the projection fproj. *)
From Coq Require Import PeanoNat Arith Lia.
From AV Require Import Base.Bytes Base.Outcome Hash.HashModel Tree.Heap Tree.Ops Tree.Script Tree.Serialize
  Tree.Inv Tree.InvProofsBase Tree.InvProofsCore Tree.InvProofsTree Tree.InvProofsPrim
  Tree.Files Tree.FilesProofsBase Tree.FilesProofsProj.
From AV Require Xml.Parser Xml.Serializer Xml.RoundTripElem Xml.RoundTripFile.
Open Scope string_scope.
Open Scope list_scope.
Open Scope N_scope.

Section Load.
Variable T : tables.
Variable tab_el tab_at tab_en : nametab.
Variable float_fmt : N -> list N.

Let SH := ser_heap T tab_el tab_at tab_en float_fmt.
Let SE := Serializer.ser_elem T tab_el tab_at tab_en float_fmt.

Definition elem_items (indent : nat) : list (Parser.etree + Parser.cdata) -> res (list N) :=
  fix items (l : list (Parser.etree + Parser.cdata)) : res (list N) :=
    match l with
    | [] => Val []
    | inl sub :: l' => (let* a := SE sub (S indent) true in let* b := items l' in Val (a ++ b))%res
    | inr cd :: l' => (let* a := Serializer.ser_cdata tab_en float_fmt cd in let* b := items l' in Val (a ++ b))%res
    end.
Definition elem_subs (indent : nat) : list (Parser.etree + Parser.cdata) -> res (list N) :=
  fix subs (l : list (Parser.etree + Parser.cdata)) : res (list N) :=
    match l with
    | [] => Val []
    | inl sub :: l' => (let* a := SE sub (S indent) false in let* b := subs l' in Val (a ++ b))%res
    | inr _ :: l' => subs l'
    end.

Lemma ser_elem_unfold name ty attrs content comment indent inline :
  SE (Parser.ENode name ty attrs content comment) indent inline =
  (let* nm := unwrap "ElementName::to_str: STRING_TABLE index" (to_str tab_el name) in
   let* ats := Serializer.ser_attrs tab_at tab_en float_fmt attrs in
   let pre := Serializer.comment_part comment indent inline ++ (if inline then [] else Serializer.newline_indent indent) in
   match content with
   | [] => Val (pre ++ [60] ++ nm ++ ats ++ [47; 62])
   | first :: _ =>
     let* mode := content_mode T ty in
     let open_tag := [60] ++ nm ++ ats ++ [62] in
     let close_tag := [60; 47] ++ nm ++ [62] in
     if mode =? MCharacters then
       let* body := match first with inr cd => Serializer.ser_cdata tab_en float_fmt cd | inl _ => Val [] end in
       Val (pre ++ open_tag ++ body ++ close_tag)
     else if mode =? MMixed then
       let* body := elem_items indent content in
       Val (pre ++ open_tag ++ body ++ close_tag)
     else
       let* body := elem_subs indent content in
       Val (pre ++ open_tag ++ body ++ Serializer.newline_indent indent ++ close_tag)
   end)%res.
Proof. reflexivity. Qed.

Variables (w : world) (ff : option N) (r : id).
Hypothesis NH : NoHollow T w ff r.

Lemma loops_fproj fl (IH : forall c t indent inline, Proj T w ff r c -> fproj fl w ff c = Some t -> SH fl w ff c indent inline = SE t indent inline)
  indent : forall l content,
  (forall c cn, In c (elems l) -> w_nodes w c = Some cn -> passes ff cn = true -> Proj T w ff r c) ->
  fproj_items w ff (fproj fl w ff) l = Some content ->
  heap_items T tab_el tab_at tab_en float_fmt fl w ff indent l = elem_items indent content /\
  heap_subs T tab_el tab_at tab_en float_fmt fl w ff indent l = elem_subs indent content.
Proof.
  induction l as [|[c|d] l IHl]; intros content HP H; cbn [fproj_items] in H.
  - injection H as <-. split; reflexivity.
  - cbn [heap_items heap_subs].
    fold (heap_items T tab_el tab_at tab_en float_fmt fl w ff indent) (heap_subs T tab_el tab_at tab_en float_fmt fl w ff indent).
    destruct (w_nodes w c) as [cn|] eqn:Hcn; [|discriminate].
    assert (forall c0 cn0, In c0 (elems l) -> w_nodes w c0 = Some cn0 -> passes ff cn0 = true -> Proj T w ff r c0) as HP'
      by (intros c0 cn0 Hc0; apply HP; cbn; right; exact Hc0).
    destruct (passes ff cn) eqn:Ep.
    + destruct (fproj fl w ff c) as [t|] eqn:Et; [|discriminate].
      destruct (fproj_items w ff (fproj fl w ff) l) as [rest|] eqn:Er; [|discriminate]. injection H as <-.
      destruct (IHl rest HP' eq_refl) as (I1 & I2).
      assert (Proj T w ff r c) as Hpc by (eapply HP; eauto; cbn; left; reflexivity).
      fold SH. rewrite !(IH c t _ _ Hpc Et), I1, I2. split; reflexivity.
    + apply IHl; auto.
  - cbn [heap_items heap_subs].
    fold (heap_items T tab_el tab_at tab_en float_fmt fl w ff indent) (heap_subs T tab_el tab_at tab_en float_fmt fl w ff indent).
    destruct (fproj_items w ff (fproj fl w ff) l) as [rest|] eqn:Er; [|discriminate]. injection H as <-.
    destruct (IHl rest (fun c0 cn0 Hc0 => HP c0 cn0 Hc0) eq_refl) as (I1 & I2).
    cbn [elem_items elem_subs]. rewrite I1, I2. split; reflexivity.
Qed.

Lemma fproj_items_kept rec l content : fproj_items w ff rec l = Some content ->
  (exists it, In it l /\ item_kept w ff it) -> content <> [].
Proof.
  revert content. induction l as [|[c|d] l IH]; intros content H (it & Hit & Hk); cbn [fproj_items] in H.
  - destruct Hit.
  - destruct (w_nodes w c) as [cn|] eqn:Hcn; [|discriminate]. destruct (passes ff cn) eqn:Ep.
    + destruct (rec c); [|discriminate]. destruct (fproj_items w ff rec l); [|discriminate]. injection H as <-. discriminate.
    + destruct Hit as [<-|Hit].
      * destruct Hk as (cn' & Hcn' & Hp'). congruence.
      * apply IH; eauto.
  - destruct (fproj_items w ff rec l); [|discriminate]. injection H as <-. discriminate.
Qed.

(* the text of a projection: on non-hollow elements ser_heap = ser_elem of fproj *)
Theorem ser_heap_fproj : forall fuel i t indent inline, Proj T w ff r i -> fproj fuel w ff i = Some t ->
  SH fuel w ff i indent inline = SE t indent inline.
Proof.
  induction fuel as [|fl IH]; intros i t indent inline Hp H; cbn [fproj] in H; [discriminate|].
  unfold SH. rewrite ser_heap_unfold.
  destruct (w_nodes w i) as [n|] eqn:Hn; [|discriminate].
  destruct (fproj_items w ff (fproj fl w ff) (n_content n)) as [content|] eqn:Ec; [|discriminate]. injection H as <-.
  rewrite ser_elem_unfold.
  destruct (unwrap _ (to_str tab_el (n_name n))) as [nm| |]; cbn [bind]; auto.
  change (Serializer.ser_attrs tab_at tab_en float_fmt (pc_attrs (n_attrs n))) with (ser_ats tab_at tab_en float_fmt (n_attrs n)).
  destruct (n_content n) as [|first rest] eqn:En.
  { cbn [fproj_items] in Ec. injection Ec as <-. reflexivity. }
  destruct (NH i n Hp Hn) as (Hsome & Hfirst); [rewrite En; discriminate|]. rewrite En in Hsome, Hfirst.
  pose proof (fproj_items_kept _ _ _ Ec Hsome) as Hne.
  destruct content as [|pfirst prest]; [congruence|].
  destruct (ser_ats tab_at tab_en float_fmt (n_attrs n)) as [ats| |]; cbn [bind]; auto.
  destruct (content_mode T (n_type n)) as [mode| |] eqn:Em; cbn [bind]; auto.
  destruct (mode =? MCharacters) eqn:Ech.
  { specialize (Hfirst mode first rest eq_refl Ech eq_refl).
    destruct first as [c|d]; cbn [fproj_items] in Ec.
    - destruct Hfirst as (cn & Hcn & Hpass). rewrite Hcn, Hpass in Ec.
      destruct (fproj fl w ff c); [|discriminate]. destruct (fproj_items w ff (fproj fl w ff) rest); [|discriminate].
      injection Ec as <- <-. reflexivity.
    - destruct (fproj_items w ff (fproj fl w ff) rest); [|discriminate]. injection Ec as <- <-. reflexivity. }
  assert (recurses T n) as Hrec by (exists mode; auto).
  destruct (loops_fproj fl (fun c t0 ind inl Hpc Ht => IH c t0 ind inl Hpc Ht) indent (first :: rest) (pfirst :: prest)) as (I1 & I2); auto.
  { intros c cn Hc Hcn Hpass. eapply Proj_kid; eauto. unfold kids. rewrite En. exact Hc. }
  rewrite I1, I2. reflexivity.
Qed.

End Load.

(* ---------- the projection tree lists exactly the written elements, in the order ser_ids lists them ---------- *)
Section Preorder.
Variable T : tables.
Variables (w : world) (ff : option N).
Hypothesis CL : CharsLeaf T w.

Definition epre_go : list (Parser.etree + Parser.cdata) -> list (N * list (N * Parser.cdata)) :=
  fix go (l : list (Parser.etree + Parser.cdata)) : list (N * list (N * Parser.cdata)) :=
    match l with
    | [] => []
    | inl s :: r => epre s ++ go r
    | inr _ :: r => go r
    end.

Lemma epre_unfold name ty attrs content cm : epre (Parser.ENode name ty attrs content cm) = (name, attrs) :: epre_go content.
Proof. reflexivity. Qed.

Lemma fproj_items_data rec l content : elems l = [] -> fproj_items w ff rec l = Some content -> epre_go content = [].
Proof.
  revert content. induction l as [|[c|d] l IH]; intros content E H; cbn [fproj_items] in H.
  - injection H as <-. reflexivity.
  - cbn in E. discriminate.
  - destruct (fproj_items w ff rec l) as [rest|] eqn:Er; [|discriminate]. injection H as <-. cbn [epre_go]. apply IH; auto.
Qed.

Lemma fproj_preorder : forall fuel i l t, ser_ids T fuel w ff i = Val l -> fproj fuel w ff i = Some t ->
  epre t = map (label_at w) l.
Proof.
  induction fuel as [|fl IH]; intros i l t Hl Ht; [discriminate|].
  rewrite ser_ids_unfold in Hl. cbn [fproj] in Ht.
  destruct (w_nodes w i) as [n|] eqn:Hn; [|discriminate].
  destruct (fproj_items w ff (fproj fl w ff) (n_content n)) as [content|] eqn:Ec; [|discriminate]. injection Ht as <-.
  rewrite epre_unfold.
  assert (label_at w i = (n_name n, pc_attrs (n_attrs n))) as Hlab by (unfold label_at; rewrite Hn; reflexivity).
  destruct (n_content n) as [|first rest] eqn:En.
  { injection Hl as <-. cbn [fproj_items] in Ec. injection Ec as <-. cbn. rewrite Hlab. reflexivity. }
  rewrite <- En in *. destruct (content_mode T (n_type n)) as [mode| |] eqn:Em; cbn [bind] in Hl; try discriminate.
  destruct (mode =? MCharacters) eqn:Ech.
  { injection Hl as <-. pose proof (CL i n mode Hn Em Ech) as Hk. unfold kids in Hk.
    rewrite (fproj_items_data _ _ _ Hk Ec). cbn. rewrite Hlab. reflexivity. }
  destruct (ids_subs T fl w ff (n_content n)) as [body| |] eqn:Eb; cbn [bind] in Hl; try discriminate. injection Hl as <-.
  cbn [map]. rewrite Hlab. f_equal.
  clear En Hn Hlab Em Ech. revert body content Eb Ec. generalize (n_content n) as lst.
  induction lst as [|[c|d] lst IHl]; intros body content Eb Ec; cbn [ids_subs fproj_items] in *.
  - injection Eb as <-. injection Ec as <-. reflexivity.
  - fold (ids_subs T fl w ff) in Eb. destruct (w_nodes w c) as [cn|]; [|discriminate]. destruct (passes ff cn).
    + destruct (ser_ids T fl w ff c) as [a| |] eqn:Ea; cbn [bind] in Eb; try discriminate.
      destruct (ids_subs T fl w ff lst) as [b| |] eqn:Ebb; cbn [bind] in Eb; try discriminate. injection Eb as <-.
      destruct (fproj fl w ff c) as [tc|] eqn:Etc; [|discriminate].
      destruct (fproj_items w ff (fproj fl w ff) lst) as [restc|] eqn:Er; [|discriminate]. injection Ec as <-.
      cbn [epre_go]. rewrite map_app, (IH c a tc Ea Etc), (IHl b restc eq_refl eq_refl). reflexivity.
    + apply IHl; auto.
  - fold (ids_subs T fl w ff) in Eb.
    destruct (fproj_items w ff (fproj fl w ff) lst) as [restc|] eqn:Er; [|discriminate]. injection Ec as <-.
    cbn [epre_go]. apply IHl; auto.
Qed.

End Preorder.

(* ====================================================================== ArxmlFile::serialize, loaded alone *)
Section SelfContained.
Variable strict : bool.
Variable T : tables.
Variable tab_el tab_at tab_en : nametab.
Variable check_fn : N -> list N -> res bool.
Variable float_fmt : N -> list N.
Variable float_parse : list N -> option N.
Variable attr_schema_location : N.

Let FS := f_serialize T tab_el tab_at tab_en check_fn float_fmt attr_schema_location.

(* what f_serialize returns: the header of the file and ser_heap of the RESULT world (the root's xsi:schemaLocation
   may have been rewritten), filtered for f, from the root of the file's model; the root is attributed to f *)
Lemma f_serialize_inv f w text w' : FS f w = Val (OK text, w') ->
  exists fl x body, nth_opt (w_files w) (N.to_nat f) = Some fl /\ nth_opt (w_models w) (N.to_nat (f_model fl)) = Some x /\
    Attributed w (m_root x) f /\
    ser_heap T tab_el tab_at tab_en float_fmt (fuel_of w') w' (Some f) (m_root x) 0 false = Val body /\
    text = Serializer.xml_header (f_standalone fl) ++ body.
Proof.
  intros H. unfold FS, f_serialize in H.
  apply wbind_inv in H as [(fl & w1 & H1 & H) | (e0 & H1 & [=])].
  apply get_file_inv in H1 as (fl' & Hfl & [= <-] & ->).
  apply wbind_inv in H as [(x & w1 & H1 & H) | (e0 & H1 & [=])].
  apply get_model_inv in H1 as (x' & Hx & [= <-] & ->).
  apply wbind_inv in H as [([loc files] & w1 & H1 & H) | (e0 & H1 & [=])].
  apply file_membership_spec in H1 as (-> & Heff & _).
  destruct (set_mem f files) eqn:Hm; cbn [negb] in H; [|apply wfail_inv in H as ([=] & _)].
  apply wbind_inv in H as [(fname & w1 & H1 & H) | (e0 & H1 & [=])].
  apply wlift_inv in H1 as (a & _ & [= <-] & ->).
  apply wbind_inv in H as [(u & w1 & H1 & H) | (e0 & H1 & [=])].
  destruct (ser_heap T tab_el tab_at tab_en float_fmt (fuel_of w1) w1 (Some f) (m_root x) 0 false) as [body| |] eqn:Eb; try discriminate.
  injection H as <- <-. exists fl, x, body. repeat split; auto.
  exists files. split; auto. apply set_mem_in. exact Hm.
Qed.

(* each file's text, loaded alone, gives exactly the projection tree of the file (side conditions explicit: the
   projection exists for the fuel of the writer, no written element is hollow, the projection is a canonical root in
   the sense of C01 for the version `ver`) *)
Theorem file_self_contained ver f w text w' : FS f w = Val (OK text, w') ->
  exists fl x, nth_opt (w_files w) (N.to_nat f) = Some fl /\ nth_opt (w_models w) (N.to_nat (f_model fl)) = Some x /\
    Attributed w (m_root x) f /\
    forall t, fproj (fuel_of w') w' (Some f) (m_root x) = Some t ->
      NoHollow T w' (Some f) (m_root x) ->
      RoundTripFile.RootCanon strict T tab_el tab_at tab_en check_fn float_fmt float_parse ver t ->
      exists st, Parser.load strict T tab_el tab_at tab_en check_fn float_parse text = Val (Parser.Ret t st) /\
                 Parser.p_warnings st = [] /\ Parser.p_version st = ver /\ Parser.p_standalone st = f_standalone fl.
Proof.
  intros H. destruct (f_serialize_inv f w text w' H) as (fl & x & body & Hfl & Hx & Hroot & Hb & ->).
  exists fl, x. repeat split; auto. intros t Ht NH RC.
  apply (RoundTripFile.file_roundtrip strict T tab_el tab_at tab_en check_fn float_fmt float_parse ver t (f_standalone fl) body RC).
  rewrite <- Hb. symmetry. apply (ser_heap_fproj T tab_el tab_at tab_en float_fmt w' (Some f) (m_root x) NH); auto.
  constructor. destruct (fuel_of w'); cbn [fproj] in Ht; [discriminate|].
  destruct (w_nodes w' (m_root x)) as [rn|] eqn:Hn; [|discriminate]. exists rn. exact Hn.
Qed.

End SelfContained.
