(* Tree/InvProofsReal.v — C03: with CharsLeaf and OriginsRef as additional invariants, and for every table set in which
   reference types are Characters-mode types (RefChars, a boolean check on the tables), the artefact classes
   Known_setcdata and Known_refhead are empty: TreeInv is kept by every operation that is not a failed re-parenting. *)
From Coq Require Import PeanoNat Arith.
From AV Require Import Base.Bytes Base.Outcome Hash.HashModel Tree.Heap Tree.Ops Tree.Script Tree.Inv
  Tree.InvProofsBase Tree.InvProofsCore Tree.InvProofsTree Tree.InvProofsPrim Tree.InvProofsCreate
  Tree.InvProofsData Tree.InvProofsRefs Tree.InvProofsRemove Tree.InvProofsFiles Tree.InvProofsMove
  Tree.InvProofsCopy Tree.InvProofsRename Tree.InvProofsFrame Tree.InvProofs Tree.InvProofsChars Tree.InvProofsChars2
  Tree.InvProofsChars3 Tree.InvProofsChars4 Tree.InvProofsChars5 Tree.InvProofsOrigins Tree.InvProofsOrigins2
  Tree.InvProofsOrigins3 Tree.InvProofsOrigins4.
Open Scope string_scope.
Open Scope list_scope.
Open Scope N_scope.

Section Real.
Variable T : tables.
Variable tab_el tab_en : nametab.
Variable check_fn : N -> list N -> res bool.
Variable LATEST : N.
Variable root_attrs : list (N * cdata).

Notation run := (Inv.run T tab_el tab_en check_fn LATEST root_attrs).
Notation Known_failed_reparent := (Inv.Known_failed_reparent T tab_el tab_en check_fn LATEST root_attrs).
Notation cframe := (frame (cNR T) (cNN T)).

(* ---------- the origin index under every operation ---------- *)
Lemma set_item_name_osub h new_name w r w' : e_set_item_name T check_fn LATEST h new_name w = Val (r, w') -> osub w w'.
Proof.
  intros H. unfold e_set_item_name in H.
  wrun_ro H ltac:(apply osub_refl).
  match type of H with context [fix_identifiables ?mm ?op ?np] =>
    set (m0 := mm) in *; set (op0 := op) in *; set (np0 := np) in * end.
  match type of H with ?rest ?wa = _ => refine ((_ : osp rest) wa _ _ H) end.
  apply osp_bind; [apply osp_raw_set_cdata|]. intros _.
  apply osp_bind; [apply osp_fix_identifiables|]. intros _.
  apply osp_bind; [apply osp_ro; ro_tac|]. intros x.
  change (osp (each_loop (rename_ref_body m0 op0 np0) (map fst (m_origins x)))).
  apply osp_each_loop. intros a'. apply osp_rename_ref_body.
Qed.

Lemma e_move_orel h mv w r w' : e_move_element_here T tab_en check_fn LATEST h mv w = Val (r, w') -> orel T w w'.
Proof.
  intros H. pose proof (e_move_cframe _ _ _ _ _ _ _ _ _ H) as CF. unfold e_move_element_here in H.
  destruct (h =? mv); [winv H; apply orel_osub, osub_refl|].
  wrun_ro H ltac:(apply orel_osub, osub_refl).
  - apply orel_osub. eapply move_local_osub; eauto.
  - eapply move_full_orel; eauto.
Qed.
Lemma e_move_at_orel h mv pos w r w' : e_move_element_here_at T tab_en check_fn LATEST h mv pos w = Val (r, w') -> orel T w w'.
Proof.
  intros H. pose proof (e_move_at_cframe _ _ _ _ _ _ _ _ _ _ H) as CF. unfold e_move_element_here_at in H.
  destruct (h =? mv); [winv H; apply orel_osub, osub_refl|].
  wrun_ro H ltac:(apply orel_osub, osub_refl).
  - apply orel_osub. eapply osp_move_position; eauto.
  - apply orel_osub. eapply move_local_osub; eauto.
  - eapply move_full_orel; eauto.
Qed.

Lemma oadd_orel h w w' n :
  cframe w w' -> w_nodes w h = Some n -> oaddP h (is_ref T (n_type n) = Val true) w w' -> orel T w w'.
Proof.
  intros CF Hn Ha re Hre. destruct (Ha _ Hre) as [?|(-> & Hr)]; auto. right.
  eapply RefNode_frame; [exact CF|]. exists n. auto.
Qed.

Ltac by_osp L := apply orel_osub; eapply L; eassumption.

Theorem orel_step o w r w' : Core w -> CharsLeaf T w -> run o w = Val (r, w') -> orel T w w'.
Proof.
  intros C CL H0. pose proof (cframe_step _ _ _ _ _ _ _ _ _ _ C CL H0) as CF.
  pose proof H0 as H. unfold Inv.run in H. destruct o; cbn [run_op welem wunit] in H;
    apply wmap_inv in H as (r0 & H & _).
  - by_osp osp_e_create_sub.
  - by_osp osp_e_create_sub_at.
  - by_osp osp_e_create_named.
  - by_osp osp_e_create_named_at.
  - eapply e_copied_orel; eauto.
  - eapply e_copied_at_orel; eauto.
  - eapply e_move_orel; eauto.
  - eapply e_move_at_orel; eauto.
  - by_osp osp_e_remove.
  - by_osp osp_e_remove_kind.
  - apply orel_osub. eapply set_item_name_osub; eauto.
  - destruct (w_nodes w h) as [n|] eqn:Hn.
    + eapply oadd_orel; eauto. eapply set_cdata_oadd; eauto.
    + unfold e_set_character_data, wbind, get_node in H. rewrite Hn in H. discriminate.
  - by_osp osp_remove_character_data.
  - by_osp osp_insert_citem.
  - by_osp osp_remove_citem.
  - destruct (w_nodes w h) as [n|] eqn:Hn.
    + eapply oadd_orel; eauto. eapply set_ref_target_oadd; eauto.
    + unfold e_set_reference_target, wbind, get_node in H. rewrite Hn in H. discriminate.
  - by_osp osp_set_attribute.
  - by_osp osp_remove_attribute.
  - by_osp osp_set_comment.
  - by_osp osp_e_get_or_create.
  - by_osp osp_e_get_or_create_named.
  - apply orel_osub. eapply osub_new_model; eauto.
  - apply orel_osub. eapply osub_m_create_file; eauto.
  - apply orel_osub. eapply osub_m_remove_file; eauto.
  - by_osp osp_e_add_to_file.
  - by_osp osp_e_remove_from_file.
Qed.

Theorem OriginsRef_step o w r w' :
  Core w -> CharsLeaf T w -> OriginsRef T w -> run o w = Val (r, w') -> OriginsRef T w'.
Proof.
  intros C CL O H. eapply OriginsRef_orel; [eapply cframe_step; eauto | eapply orel_step; eauto | exact O].
Qed.

(* ---------- the table condition ---------- *)
Definition RefChars : Prop := forall ty, is_ref T ty = Val true -> content_mode T ty = Val MCharacters.

Lemma kids_nil_head n : kids n = [] -> head_elem n = false.
Proof. unfold kids, head_elem. destruct (n_content n) as [|[c|d] l]; cbn; auto. discriminate. Qed.

Lemma origins_clean w : RefChars -> CharsLeaf T w -> OriginsRef T w -> OriginsClean w.
Proof.
  intros RC CL O re Hre. destruct (O _ Hre) as (n & Hn & Hr). unfold node_head_elem. rewrite Hn.
  apply kids_nil_head. eapply CL; eauto. apply RC. auto.
Qed.

Lemma dirty_origins_false w : OriginsClean w -> dirty_origins w = false.
Proof.
  intros OC. unfold dirty_origins. destruct (existsb _ (w_models w)) eqn:E; auto.
  apply existsb_exists in E as (x & Hx & E). apply existsb_exists in E as ((k, l) & Hk & E).
  apply existsb_exists in E as (re & Hre & E). cbn in Hre. rewrite OC in E; [discriminate|]. exists x, k, l. auto.
Qed.

(* set_character_data never drops sub-elements when Characters-mode elements are leaves *)
Lemma set_cdata_chars h v w r w' :
  Core w -> CharsLeaf T w -> e_set_character_data T tab_en check_fn LATEST h v w = Val (r, w') -> same_tree w w'.
Proof.
  intros C CL H. destruct (node_has_elem w h) eqn:Eh.
  2:{ eapply set_cdata_spec; eauto. }
  unfold node_has_elem in Eh. destruct (w_nodes w h) as [n|] eqn:Hn; [|discriminate].
  unfold e_set_character_data in H. wstepn H nq En; winv En.
  match goal with Hq : w_nodes w h = Some ?n1 |- _ => assert (n1 = n) as -> by congruence end.
  wstepn H mode Em; winv Em.
  match goal with Hq : content_mode T (n_type n) = Val ?mm |- _ => rename mm into md; rename Hq into Hmd end.
  change (existsb (fun it => match it with CElem _ => true | CData _ => false end) (n_content n)) with (has_elem (n_content n)) in H.
  rewrite Eh in H. cbn [negb andb] in H. rewrite andb_false_r, orb_false_r in H.
  destruct (md =? MCharacters) eqn:Ec; cbn [negb] in H; [|winv H; apply same_tree_refl].
  exfalso. apply N.eqb_eq in Ec. subst md. pose proof (CL _ _ Hn Hmd) as Hk.
  apply has_elem_true in Eh as (c & Hc). unfold kids in Hk. rewrite Hk in Hc. destruct Hc.
Qed.

(* set_reference_target: a reference element is a Characters-mode leaf *)
Lemma set_ref_target_chars h target w r w' :
  RefChars -> Core w -> CharsLeaf T w ->
  e_set_reference_target T tab_el tab_en check_fn LATEST h target w = Val (r, w') -> same_tree w w'.
Proof.
  intros RC C CL H. destruct (node_head_elem w h) eqn:Eh.
  2:{ eapply set_ref_target_spec; eauto. }
  unfold node_head_elem in Eh. destruct (w_nodes w h) as [n|] eqn:Hn; [|discriminate].
  unfold e_set_reference_target in H. wstepn H nq En; winv En.
  match goal with Hq : w_nodes w h = Some ?n1 |- _ => assert (n1 = n) as -> by congruence end.
  wstepn H isr Ei; winv Ei. destruct v; cbn [negb] in H; [|winv H; apply same_tree_refl].
  exfalso. match goal with Hq : is_ref T (n_type n) = Val true |- _ => pose proof (CL _ _ Hn (RC _ Hq)) as Hk end.
  rewrite (kids_nil_head _ Hk) in Eh. discriminate.
Qed.

(* ---------- the combined invariant ---------- *)
Definition RealInv (w : world) : Prop := TreeInv w /\ CharsLeaf T w /\ OriginsRef T w.

Lemma RealInv_empty : RealInv empty_world.
Proof. split; [apply empty_treeinv | split; [apply CharsLeaf_empty | apply OriginsRef_empty]]. Qed.

Theorem RealInv_step o w r w' :
  RefChars -> RealInv w -> Known_failed_reparent w o = false -> run o w = Val (r, w') -> RealInv w'.
Proof.
  intros RC (I & CL & O) HK H. pose proof I as (C & NO).
  split; [|split; [eapply CharsLeaf_step; eauto | eapply OriginsRef_step; eauto]].
  pose proof (origins_clean _ RC CL O) as OC.
  assert (GEN : Known_setcdata w o = false -> Known_refhead w o = false -> TreeInv w').
  { intros K1 K3. eapply TreeInv_step; eauto. unfold Inv.Known. rewrite K1, HK, K3. reflexivity. }
  destruct o; try (apply GEN; [reflexivity | first [reflexivity | cbn [Known_refhead]; apply dirty_origins_false; exact OC]]).
  - (* set_character_data *)
    unfold Inv.run in H. cbn [run_op wunit] in H. apply wmap_inv in H as (r0 & H & _).
    eapply TreeInv_same_tree; [eapply set_cdata_chars; eauto | exact I].
  - (* set_reference_target *)
    unfold Inv.run in H. cbn [run_op wunit] in H. apply wmap_inv in H as (r0 & H & _).
    eapply TreeInv_same_tree; [eapply set_ref_target_chars; eauto | exact I].
Qed.

Theorem RealInv_histories l : forall w w', RefChars -> RealInv w ->
  Inv.clean_rep_ops T tab_el tab_en check_fn LATEST root_attrs l w = true ->
  Inv.run_ops T tab_el tab_en check_fn LATEST root_attrs l w = Val w' -> RealInv w'.
Proof.
  induction l as [|o l IH]; intros w w' RC I Hc H; cbn [Inv.run_ops Inv.clean_rep_ops] in *.
  - injection H as <-. auto.
  - apply andb_true_iff in Hc as (Hk & Hc). apply negb_true_iff in Hk.
    destruct (run o w) as [[r w1]|s|] eqn:E; try discriminate. eapply IH; [exact RC | | exact Hc | exact H].
    eapply RealInv_step; eauto.
Qed.

Theorem types_kept o w r w' i n : Core w -> CharsLeaf T w -> run o w = Val (r, w') -> w_nodes w i = Some n ->
  exists n', w_nodes w' i = Some n' /\ n_type n' = n_type n.
Proof. intros C CL H Hn. eapply type_frame; [eapply cframe_step; eauto | exact Hn]. Qed.

End Real.
