(* Tree/FollowProofsAll.v — C06 over the operation alphabet and over histories.
     K06_collision     the one class of successful moves the clauses are NOT claimed for: a same-model move of a
                       non-identifiable container whose content collides with existing paths (a finding of the code:
                       the container case has no uniqueness check)
     C06_move_ops      every other successful OpMove / OpMoveAt satisfies the clauses of its case
     C06_history       along a history from the empty world: every successful rename / move does
   Dependency of C06_history, stated explicitly: the invariants TreeFacts /\ Inv04 /\ Inv05 at the world BEFORE the
   rename / move come from C04_C05_reachable_partial (Tree/IndexProofsBridge.v), which covers histories that are
   `clean45`: no step in a Known class of C03/C04/C05 and no step whose constructor is still pending there
   (Pending45: OpCopy, OpCopyAt, OpMove, OpMoveAt, OpRemoveFile, OpRemoveFromFile).  So the PREFIX of the history may
   contain renames but not yet earlier moves / copies; the operation under consideration itself may be any rename / move. *)
From Coq Require Import Lia.
From AV Require Import Base.Bytes Base.Outcome Hash.HashModel Tree.Heap Tree.Ops Tree.Script Tree.Inv Tree.InvProofs
  Tree.Index Tree.Refs Tree.IndexProofsW Tree.IndexProofsBase Tree.IndexProofsBridge Tree.IndexProofsClosed
  Tree.Follow Tree.FollowProofsRename Tree.FollowProofsMove Tree.FollowProofsContainer Tree.FollowProofsCross.
Open Scope string_scope.
Open Scope list_scope.
Open Scope N_scope.

Section All.
Variable T : tables.
Variable tab_el tab_en : nametab.
Variable check_fn : N -> list N -> res bool.
Variable LATEST : N.
Variable root_attrs : list (N * cdata).

Notation run := (run_op T tab_el tab_en check_fn LATEST root_attrs).

Definition K06_collision (w : world) (o : op) : bool :=
  match o with
  | OpMove h mv | OpMoveAt h mv _ =>
    negb (identifiable T w mv) &&
    match model_of h w, model_of mv w with
    | Val (OK m1, _), Val (OK m2, _) => (m1 =? m2) && collision06 T w h mv
    | _, _ => false
    end
  | _ => false
  end.

(* what a successful move guarantees, by case *)
Definition move_clauses (w w' : world) (h mv : id) : Prop :=
  exists m m_src, model_of h w = Val (OK m, w) /\ model_of mv w = Val (OK m_src, w) /\
    ((m = m_src /\ identifiable T w mv = true /\ follow_clauses T w w' m mv) \/
     (m = m_src /\ identifiable T w mv = false /\ container_clauses T w w' m mv) \/
     (m <> m_src /\ cross_clauses T w w' m_src m mv)).

Theorem C06_move_ops o w w' v h mv :
  TablesOK T check_fn -> Inv06 T check_fn w ->
  run o w = Val (OK v, w') ->
  (o = OpMove h mv \/ exists pos, o = OpMoveAt h mv pos) ->
  K06_collision w o = false ->
  move_clauses w w' h mv.
Proof.
  intros TK HI H Ho HK. destruct Ho as [->|(pos & ->)]; cbn [run_op] in H; unfold welem in H.
  - apply wbind_inv in H as [(a & w1 & E & H)|(e & _ & [=])]. apply wret_inv in H as (_ & ->).
    destruct (move_models T tab_en check_fn LATEST _ _ _ _ _ E) as (m & m_src & H1 & H2).
    exists m, m_src. split; [exact H1|]. split; [exact H2|].
    cbn [K06_collision] in HK. rewrite H1, H2 in HK.
    destruct (N.eq_dec m m_src) as [<-|Hne].
    + rewrite N.eqb_refl in HK. cbn [andb] in HK.
      destruct (identifiable T w mv) eqn:Eid; cbn [negb andb] in HK.
      * left. split; [reflexivity|]. split; [reflexivity|]. eapply C06_move_local_ident; eauto.
      * right. left. split; [reflexivity|]. split; [reflexivity|]. eapply C06_move_container; eauto.
    + right. right. split; [exact Hne|]. eapply C06_move_cross; eauto.
  - apply wbind_inv in H as [(a & w1 & E & H)|(e & _ & [=])]. apply wret_inv in H as (_ & ->).
    destruct (move_at_models T tab_en check_fn LATEST _ _ _ _ _ _ E) as (m & m_src & H1 & H2).
    exists m, m_src. split; [exact H1|]. split; [exact H2|].
    cbn [K06_collision] in HK. rewrite H1, H2 in HK.
    destruct (N.eq_dec m m_src) as [<-|Hne].
    + rewrite N.eqb_refl in HK. cbn [andb] in HK.
      destruct (identifiable T w mv) eqn:Eid; cbn [negb andb] in HK.
      * left. split; [reflexivity|]. split; [reflexivity|]. eapply C06_move_at_local_ident; eauto.
      * right. left. split; [reflexivity|]. split; [reflexivity|]. eapply C06_move_at_container; eauto.
    + right. right. split; [exact Hne|]. eapply C06_move_at_cross; eauto.
Qed.

(* the three clauses of a rename *)
Definition rename_clauses (w w' : world) (h : id) : Prop :=
  exists m, model_of h w = Val (OK m, w) /\
    (forall r x, live_ref T w m r -> designates T w m r x -> below T w h x -> designates T w' m r x) /\
    (forall r p, ref_text T w r = Some p -> resolves T w m r ->
                 ~ (exists x, designates T w m r x /\ below T w h x) -> ref_text T w' r = Some p) /\
    (forall r p old, SpecPath T w m h old -> ref_text T w r = Some p ->
                     ~ (live_ref T w m r /\ old_form old p) -> ref_text T w' r = Some p).

Lemma rename_model h nn w w' :
  e_set_item_name T check_fn LATEST h nn w = Val (OK tt, w') -> exists m, model_of h w = Val (OK m, w).
Proof.
  intros H. unfold e_set_item_name in H. destruct (is_empty nn); [discriminate H|].
  apply wbind_inv in H as [(m & w1 & E & H)|(e & _ & [=])].
  assert (Hro : ro (model_of h)) by auto with ro. pose proof (Hro _ _ _ E) as ->. eauto.
Qed.

Theorem C06_rename_op h nn w w' v :
  Inv06 T check_fn w -> run (OpSetItemName h nn) w = Val (OK v, w') -> rename_clauses w w' h.
Proof.
  intros HI H. cbn [run_op] in H. unfold wunit in H.
  apply wbind_inv in H as [(a & w1 & E & H)|(e & _ & [=])]. apply wret_inv in H as (_ & ->). destruct a.
  destruct (rename_model _ _ _ _ E) as (m & Hm). exists m. split; [exact Hm|].
  eapply C06_rename; eauto.
Qed.

(* ---------- histories ---------- *)
Hypothesis TK : TablesOK T check_fn.

Theorem C06_history l w o v w' :
  clean45 T tab_el tab_en check_fn LATEST root_attrs l empty_world = true ->
  run_ops T tab_el tab_en check_fn LATEST root_attrs l empty_world = Val w ->
  run o w = Val (OK v, w') ->
  (forall h nn, o = OpSetItemName h nn -> rename_clauses w w' h) /\
  (forall h mv, (o = OpMove h mv \/ exists pos, o = OpMoveAt h mv pos) -> K06_collision w o = false ->
                move_clauses w w' h mv).
Proof.
  intros Hc Hr H.
  assert (HI : Inv06 T check_fn w).
  { exact (C04_C05_reachable_partial T tab_el tab_en check_fn LATEST root_attrs TK l w Hc Hr). }
  split.
  - intros h nn ->. eapply C06_rename_op; eauto.
  - intros h mv Ho HK. eapply C06_move_ops; eauto.
Qed.

(* TOTAL case split: every successful move satisfies the clauses of its case, or is in the one excluded class
   (same model, non-identifiable container, a moved element's new path already exists: finding
   C04-move-container-duplicates-paths).  With a colliding name in the IDENTIFIABLE case make_unique_item_name renames
   and the clauses hold (case 1 has no side condition); across models nothing is excluded either. *)
Theorem C06_move_total o w w' v h mv :
  TablesOK T check_fn -> Inv06 T check_fn w ->
  run o w = Val (OK v, w') ->
  (o = OpMove h mv \/ exists pos, o = OpMoveAt h mv pos) ->
  move_clauses w w' h mv \/
  (exists m, model_of h w = Val (OK m, w) /\ model_of mv w = Val (OK m, w) /\
             identifiable T w mv = false /\ collision06 T w h mv = true).
Proof.
  intros HTK HI H Ho. destruct (K06_collision w o) eqn:HK; [|left; eapply C06_move_ops; eauto].
  right. destruct Ho as [->|(pos & ->)]; cbn [K06_collision] in HK;
    apply andb_true_iff in HK as (Hid & HK); apply Bool.negb_true_iff in Hid;
    destruct (model_of h w) as [[[m1|?] ?]| |] eqn:E1; try discriminate HK;
    destruct (model_of mv w) as [[[m2|?] ?]| |] eqn:E2; try discriminate HK;
    apply andb_true_iff in HK as (Hm & Hc); apply N.eqb_eq in Hm; subst m2;
    assert (Hro : ro (model_of h)) by auto with ro; pose proof (Hro _ _ _ E1) as ->;
    assert (Hro2 : ro (model_of mv)) by auto with ro; pose proof (Hro2 _ _ _ E2) as ->;
    exists m1; auto.
Qed.

(* histories with agent-c04's refined list of pending constructors (clean45m: earlier same-model moves of
   identifiable elements, renames, remove_from_file are allowed in the prefix) *)
Theorem C06_history_m l w o v w' :
  clean45m T tab_el tab_en check_fn LATEST root_attrs l empty_world = true ->
  run_ops T tab_el tab_en check_fn LATEST root_attrs l empty_world = Val w ->
  run o w = Val (OK v, w') ->
  (forall h nn, o = OpSetItemName h nn -> rename_clauses w w' h) /\
  (forall h mv, (o = OpMove h mv \/ exists pos, o = OpMoveAt h mv pos) ->
     move_clauses w w' h mv \/
     (exists m, model_of h w = Val (OK m, w) /\ model_of mv w = Val (OK m, w) /\
                identifiable T w mv = false /\ collision06 T w h mv = true)).
Proof.
  intros Hc Hr H.
  assert (HI : Inv06 T check_fn w).
  { exact (C04_C05_history T tab_el tab_en check_fn LATEST root_attrs TK l w Hc Hr). }
  split.
  - intros h nn ->. eapply C06_rename_op; eauto.
  - intros h mv Ho. eapply C06_move_total; eauto.
Qed.

End All.
