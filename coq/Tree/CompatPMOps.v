(* Tree/CompatPMOps.v — every operation of Tree/Ops.v except AutosarModel::new is fpp (Tree/CompatPM.v): it neither makes a
   node model-parented nor changes an element type.  First the operations of Tree/CompatFrameOps.v again (same scripts), then the
   allocating and attaching ones (create, copy, move), then PM over the operation alphabet. *)
From Coq Require Import PeanoNat Arith Lia.
From AV Require Import Base.Bytes Base.Outcome Hash.HashModel Spec.SpecOps Tree.Heap Tree.Ops Tree.Script Tree.Inv
  Tree.InvProofsBase Tree.InvProofsCore Tree.InvProofsPrim Tree.InvProofsRefs Tree.InvProofsRemove
  Tree.CompatProofs8 Tree.CompatFrame Tree.CompatPM.
Open Scope string_scope.
Open Scope list_scope.
Open Scope N_scope.

Section Ops.
Variable T : tables.
Variable tab_el tab_en : nametab.
Variable check_fn : N -> list N -> res bool.
Variable LATEST : N.
Variable w0 : world.

Lemma fpp_add_identifiable m p e : fpp w0 (add_identifiable m p e).
Proof. unfold add_identifiable. fp_go. Qed.
Lemma fpp_remove_identifiable m p : fpp w0 (remove_identifiable m p).
Proof. unfold remove_identifiable. fp_go. Qed.
Lemma fpp_fix_identifiables m a b : fpp w0 (fix_identifiables m a b).
Proof. unfold fix_identifiables. fp_go. Qed.
Lemma fpp_add_reference_origin m r e : fpp w0 (add_reference_origin m r e).
Proof. unfold add_reference_origin. fp_go. Qed.
Lemma fpp_fix_reference_origins m a b e : fpp w0 (fix_reference_origins m a b e).
Proof. unfold fix_reference_origins. fp_go. Qed.
Lemma fpp_remove_reference_origin m r e : fpp w0 (remove_reference_origin m r e).
Proof. unfold remove_reference_origin. fp_go. Qed.
Hint Resolve fpp_add_identifiable fpp_remove_identifiable fpp_fix_identifiables fpp_add_reference_origin
  fpp_fix_reference_origins fpp_remove_reference_origin : fpp.

Lemma fpp_raw_set_cdata i v version : fpp w0 (raw_set_character_data T check_fn i v version).
Proof. unfold raw_set_character_data. fp_go. Qed.
Hint Resolve fpp_raw_set_cdata : fpp.

Lemma fpp_detach p c : fpp w0 (detach_from p c).
Proof. unfold detach_from. fp_go. Qed.
Hint Resolve fpp_detach : fpp.

Lemma fpp_make_unique i m pp : fpp w0 (make_unique_item_name T i m pp).
Proof. unfold make_unique_item_name. fp_go. Qed.
Hint Resolve fpp_make_unique : fpp.

Lemma fpp_remove_internal fuel : forall i m path, fpp w0 (remove_internal T fuel i m path).
Proof. induction fuel as [|f IH]; intros i m path; cbn [remove_internal]; fp_go. Qed.
Hint Resolve fpp_remove_internal : fpp.

Lemma fpp_raw_remove self sub m : fpp w0 (raw_remove_sub_element T self sub m).
Proof. unfold raw_remove_sub_element. fp_go. Qed.
Hint Resolve fpp_raw_remove : fpp.
Lemma fpp_e_remove h sub : fpp w0 (e_remove_sub_element T h sub).
Proof. unfold e_remove_sub_element. fp_go. Qed.
Hint Resolve fpp_e_remove : fpp.
Lemma fpp_e_remove_kind h name : fpp w0 (e_remove_sub_element_kind T h name).
Proof. unfold e_remove_sub_element_kind. fp_go. Qed.

Lemma fpp_set_item_name h nm : fpp w0 (e_set_item_name T check_fn LATEST h nm).
Proof. unfold e_set_item_name. fp_go. Qed.
Lemma fpp_set_cdata h v : fpp w0 (e_set_character_data T tab_en check_fn LATEST h v).
Proof. unfold e_set_character_data. fp_go. Qed.
Lemma fpp_remove_cdata h : fpp w0 (e_remove_character_data T h).
Proof. unfold e_remove_character_data. fp_go. Qed.
Lemma fpp_insert_citem h text pos : fpp w0 (e_insert_character_content_item T h text pos).
Proof. unfold e_insert_character_content_item. fp_go. Qed.
Lemma fpp_remove_citem h pos : fpp w0 (e_remove_character_content_item T h pos).
Proof. unfold e_remove_character_content_item. fp_go. Qed.
Lemma fpp_raw_set_attribute h attr v version : fpp w0 (raw_set_attribute T check_fn h attr v version).
Proof. unfold raw_set_attribute. fp_go. Qed.
Hint Resolve fpp_raw_set_attribute : fpp.
Lemma fpp_set_attribute h attr v : fpp w0 (e_set_attribute T check_fn LATEST h attr v).
Proof. unfold e_set_attribute. fp_go. Qed.
Lemma fpp_remove_attribute h attr : fpp w0 (e_remove_attribute T h attr).
Proof. unfold e_remove_attribute. fp_go. Qed.
Lemma fpp_set_ref_target h target : fpp w0 (e_set_reference_target T tab_el tab_en check_fn LATEST h target).
Proof. unfold e_set_reference_target. fp_go. Qed.
Lemma fpp_set_comment h c : fpp w0 (e_set_comment h c).
Proof. unfold e_set_comment. fp_go. Qed.
Lemma fpp_add_to_file_restricted fuel : forall e f, fpp w0 (add_to_file_restricted T fuel e f).
Proof. induction fuel as [|fl IH]; intros e f; cbn [add_to_file_restricted]; fp_go. Qed.
Hint Resolve fpp_add_to_file_restricted : fpp.
Lemma fpp_add_to_file e f : fpp w0 (e_add_to_file T e f).
Proof. unfold e_add_to_file. fp_go. Qed.
Lemma fpp_remove_from_file e f : fpp w0 (e_remove_from_file T e f).
Proof. unfold e_remove_from_file. fp_go. Qed.
Lemma fpp_create_file m name version : fpp w0 (m_create_file T m name version).
Proof.
  unfold m_create_file. apply fpp_bind; [fp_go|intros x].
  intros w r w' F H. apply wbind_inv in H as [(wc & w1 & H1 & H2) | (e & H1 & _)]; [|apply wget_inv in H1 as ([=] & _)].
  apply wget_inv in H1 as ([= <-] & ->).
  destruct (existsb _ (m_files x)); [apply wfail_inv in H2 as (_ & ->); exact F|].
  apply wbind_inv in H2 as [(u & w2 & H1 & H2) | (e & H1 & _)]; [|discriminate H1].
  unfold wput in H1. injection H1 as <- <-.
  revert H2. match goal with |- ?k ?ww = _ -> _ => assert (fpp w0 k) as K by fp_go; intros H2; apply (K _ _ _) in H2; [exact H2|] end.
  destruct F as (Nx & F). split; [exact Nx|]. intros j y Hy. exact (F _ _ Hy).
Qed.
Lemma fpp_set_file_membership e fm : fpp w0 (set_file_membership T e fm).
Proof. unfold set_file_membership. fp_go. Qed.
Hint Resolve fpp_set_file_membership : fpp.
Lemma fpp_remove_file m f : fpp w0 (m_remove_file T m f).
Proof. unfold m_remove_file. fp_go. Qed.


(* ---------- allocating / attaching operations ---------- *)
Lemma fpp_content_insert self pos it : fpp w0 (content_insert self pos it).
Proof. unfold content_insert. fp_go. Qed.
Hint Resolve fpp_content_insert : fpp.
Lemma fpp_create_inner self name pos version : fpp w0 (create_sub_element_inner T self name pos version).
Proof. unfold create_sub_element_inner. fp_go. Qed.
Hint Resolve fpp_create_inner : fpp.
Lemma fpp_e_create_sub h name : fpp w0 (e_create_sub_element T LATEST h name).
Proof. unfold e_create_sub_element, raw_create_sub_element. fp_go. Qed.
Lemma fpp_e_create_sub_at h name pos : fpp w0 (e_create_sub_element_at T LATEST h name pos).
Proof. unfold e_create_sub_element_at, raw_create_sub_element_at. fp_go. Qed.
Lemma fpp_create_named_inner self name item pos m version : fpp w0 (create_named_sub_element_inner T check_fn self name item pos m version).
Proof. unfold create_named_sub_element_inner. fp_go. Qed.
Hint Resolve fpp_create_named_inner : fpp.
Lemma fpp_e_create_named h name item : fpp w0 (e_create_named_sub_element T check_fn LATEST h name item).
Proof. unfold e_create_named_sub_element, raw_create_named_sub_element. fp_go. Qed.
Lemma fpp_e_create_named_at h name item pos : fpp w0 (e_create_named_sub_element_at T check_fn LATEST h name item pos).
Proof. unfold e_create_named_sub_element_at, raw_create_named_sub_element_at. fp_go. Qed.
Lemma fpp_get_or_create h name : fpp w0 (e_get_or_create_sub_element T LATEST h name).
Proof. unfold e_get_or_create_sub_element. fp_go. Qed.
Lemma fpp_get_or_create_named h name item : fpp w0 (e_get_or_create_named_sub_element T check_fn LATEST h name item).
Proof. unfold e_get_or_create_named_sub_element. fp_go. Qed.

Lemma fpp_deep_copy fuel : forall src version, fpp w0 (deep_copy T fuel src version).
Proof. induction fuel as [|f IH]; intros src version; cbn [deep_copy]; fp_go. Qed.
Hint Resolve fpp_deep_copy : fpp.
Lemma fpp_register_subtree fuel : forall m cur i, fpp w0 (register_subtree T fuel m cur i).
Proof. induction fuel as [|f IH]; intros m cur i; cbn [register_subtree]; fp_go. Qed.
Hint Resolve fpp_register_subtree : fpp.
Lemma fpp_copied_inner self other pos m version : fpp w0 (create_copied_sub_element_inner T self other pos m version).
Proof. unfold create_copied_sub_element_inner. fp_go. Qed.
Hint Resolve fpp_copied_inner : fpp.
Lemma fpp_e_copy h other : fpp w0 (e_create_copied_sub_element T LATEST h other).
Proof. unfold e_create_copied_sub_element, raw_create_copied_sub_element. fp_go. Qed.
Lemma fpp_e_copy_at h other pos : fpp w0 (e_create_copied_sub_element_at T LATEST h other pos).
Proof. unfold e_create_copied_sub_element_at, raw_create_copied_sub_element_at. fp_go. Qed.

Lemma fpp_move_position self mv pos e : fpp w0 (move_element_position self mv pos e).
Proof. unfold move_element_position. fp_go. Qed.
Hint Resolve fpp_move_position : fpp.
Lemma fpp_move_local self mv pos m version : fpp w0 (move_element_local T check_fn self mv pos m version).
Proof. unfold move_element_local. fp_go. Qed.
Lemma fpp_move_full self mv pos m ms version : fpp w0 (move_element_full T tab_en check_fn self mv pos m ms version).
Proof. unfold move_element_full. fp_go. Qed.
Hint Resolve fpp_move_local fpp_move_full : fpp.
Lemma fpp_e_move h mv : fpp w0 (e_move_element_here T tab_en check_fn LATEST h mv).
Proof. unfold e_move_element_here. fp_go. Qed.
Lemma fpp_e_move_at h mv pos : fpp w0 (e_move_element_here_at T tab_en check_fn LATEST h mv pos).
Proof. unfold e_move_element_here_at. fp_go. Qed.
End Ops.
