(* Tree/RangeProofsPath.v — C07 proofs, layer 0 (pure, every table set):
   index paths returned by find_sub_element are LEAF PATHS of the group tree; on leaf paths find_common_group,
   get_sub_element_multiplicity and get_sub_element_container_mode are total and descend together; the relation
   "new may stand before ex" (Range.pair_ok) is classified into Less / Mid / Greater / Conflict, symmetric facts, and the
   key lemma for the `break` of calc_element_insert_range: behind an element that is greater than the new one in a
   Sequence, an ORDERED content has only elements the new one may precede. *)
From AV Require Import Base.Bytes Base.Outcome Spec.SpecOps Tree.Range.
Open Scope list_scope.
Open Scope N_scope.

(* ------------------------------------------------------------------ index path comparison *)
Lemma ix_cmp_refl a : ix_cmp a a = Eq.
Proof. induction a as [|x a IH]; cbn [ix_cmp]; [reflexivity|]. rewrite N.compare_refl. exact IH. Qed.

Lemma ix_cmp_eq a b : ix_cmp a b = Eq -> a = b.
Proof.
  revert b. induction a as [|x a IH]; intros [|y b]; cbn [ix_cmp]; try discriminate; [reflexivity|].
  destruct (x ?= y) eqn:E; try discriminate. apply N.compare_eq in E. subst y. intros H. f_equal. apply IH. exact H.
Qed.

Lemma ix_cmp_opp a b : ix_cmp b a = CompOpp (ix_cmp a b).
Proof.
  revert b. induction a as [|x a IH]; intros [|y b]; cbn [ix_cmp CompOpp]; try reflexivity.
  rewrite (N.compare_antisym x y). destruct (x ?= y); cbn [CompOpp]; try reflexivity. apply IH.
Qed.

Lemma ix_eqb_eq a b : ix_eqb a b = true <-> a = b.
Proof.
  revert b. induction a as [|x a IH]; intros [|y b]; cbn [ix_eqb]; try (split; congruence).
  rewrite andb_true_iff, N.eqb_eq, IH. split; [intros [-> ->]; reflexivity | intros [= -> ->]; auto].
Qed.

Lemma ix_eqb_sym a b : ix_eqb a b = ix_eqb b a.
Proof.
  revert b. induction a as [|x a IH]; intros [|y b]; cbn [ix_eqb]; try reflexivity. rewrite (N.eqb_sym x y), IH. reflexivity.
Qed.

Lemma ix_eqb_refl a : ix_eqb a a = true.
Proof. apply ix_eqb_eq. reflexivity. Qed.

Section Paths.
Variable T : tables.

(* ------------------------------------------------------------------ slots and leaf paths *)
(* entry `pos` of group g: (kind, index, the group's datatype), when every table access of the Rust succeeds *)
Definition slot (g pos : N) : option (N * N * dtype) :=
  match sub_slice T g with
  | Val (start, stop, d) =>
    if stop - start <=? pos then None
    else match subel T (start + pos) with Val (kind, idx) => Some (kind, idx, d) | _ => None end
  | _ => None
  end.

Inductive leaf_path : N -> list N -> Prop :=
| LP_elem g pos def d e m :
    slot g pos = Some (0, def, d) -> elem T def = Val e -> vinfo T (dt_sub_ver d + pos) = Val m -> leaf_path g [pos]
| LP_group g pos kind gid d rest :
    slot g pos = Some (kind, gid, d) -> kind <> 0 -> leaf_path gid rest -> leaf_path g (pos :: rest).

Lemma leaf_path_nonempty g ix : leaf_path g ix -> ix <> [].
Proof. intros H; inversion H; discriminate. Qed.

Lemma slot_sub_slice g pos k i d : slot g pos = Some (k, i, d) ->
  exists start stop, sub_slice T g = Val (start, stop, d) /\ (stop - start <=? pos) = false /\ subel T (start + pos) = Val (k, i).
Proof.
  unfold slot. destruct (sub_slice T g) as [[[start stop] d']| |]; try discriminate.
  destruct (stop - start <=? pos) eqn:E; try discriminate.
  destruct (subel T (start + pos)) as [[k' i']| |] eqn:ES2; try discriminate.
  intros [= -> -> ->]. exists start, stop. auto.
Qed.

Lemma leaf_path_slice g ix : leaf_path g ix -> exists r, sub_slice T g = Val r.
Proof. intros H; inversion H; subst; match goal with S : slot _ _ = Some _ |- _ => apply slot_sub_slice in S as (a & b & S & _) end; eauto. Qed.

(* a leaf path that starts at an Element slot is that single position *)
Lemma leaf_path_elem_head g pos def d rest :
  slot g pos = Some (0, def, d) -> leaf_path g (pos :: rest) -> rest = [].
Proof.
  intros S H. inversion H; subst; [reflexivity|].
  match goal with S2 : slot g pos = Some (?k, _, _) |- _ => rewrite S in S2; injection S2 as <- _ _ end. congruence.
Qed.

Lemma leaf_path_group_head g pos kind gid d rest :
  slot g pos = Some (kind, gid, d) -> kind <> 0 -> leaf_path g (pos :: rest) -> leaf_path gid rest.
Proof.
  intros S K H. inversion H; subst.
  - match goal with S2 : slot g pos = Some (0, _, _) |- _ => rewrite S in S2; injection S2 as -> _ _ end. congruence.
  - match goal with S2 : slot g pos = Some (_, ?g2, _) |- _ => rewrite S in S2; injection S2 as _ <- _ end. assumption.
Qed.

(* ------------------------------------------------------------------ find_sub returns leaf paths *)
Lemma find_sub_leaf fuel : forall ty target v et ix,
  find_sub T fuel ty target v = Val (Some (et, ix)) -> leaf_path ty ix.
Proof.
  induction fuel as [|fuel IH]; intros ty target v et ix; cbn [find_sub]; [discriminate|].
  destruct (sub_slice T ty) as [[[start stop] d]| |] eqn:ES; cbn [bind]; try discriminate.
  match goal with
  | |- ?f ?k0 0 = _ -> _ =>
    assert (G : forall k pos, N.of_nat k + pos = stop - start -> f k pos = Val (Some (et, ix)) -> leaf_path ty ix);
      [| apply G; lia]
  end.
  induction k as [|k IHk]; intros pos Hinv; [discriminate|].
  destruct (subel T (start + pos)) as [[kind idx]| |] eqn:ESub; cbn [bind]; try discriminate.
  assert (Hslot : slot ty pos = Some (kind, idx, d)).
  { unfold slot. rewrite ES. replace (stop - start <=? pos) with false by (symmetry; apply N.leb_gt; lia). rewrite ESub. reflexivity. }
  destruct (kind =? 0) eqn:EK.
  - apply N.eqb_eq in EK. subst kind.
    destruct (elem T idx) as [e| |] eqn:EE; cbn [bind]; try discriminate.
    destruct (vinfo T (dt_sub_ver d + pos)) as [mask| |] eqn:EV; cbn [bind]; try discriminate.
    destruct ((ed_name e =? target) && negb (N.land v mask =? 0)).
    + unfold et_new. rewrite EE. cbn [bind]. intros [= <- <-]. eapply LP_elem; eauto.
    + apply IHk. lia.
  - apply N.eqb_neq in EK.
    destruct (find_sub T fuel idx target v) as [[[et' ixs]|]| |] eqn:EF; try discriminate.
    + intros [= <- <-]. eapply LP_group; eauto.
    + apply IHk. lia.
Qed.

Lemma idx_of_leaf ty v name ix : idx_of T ty v name = Some ix -> leaf_path (snd ty) ix.
Proof.
  unfold idx_of, find_sub_element. destruct (find_sub T FUEL (snd ty) name v) as [[[et ix']|]| |] eqn:E; try discriminate.
  intros [= <-]. eapply find_sub_leaf; eauto.
Qed.

(* ------------------------------------------------------------------ common_group on paths *)
Lemma common_group_sym : forall a b g, common_group T g a b = common_group T g b a.
Proof.
  induction a as [|x a IH]; intros [|y b] g; cbn [common_group]; try reflexivity.
  rewrite (N.eqb_sym y x). destruct (x =? y) eqn:E; [|reflexivity].
  apply N.eqb_eq in E. subst y.
  destruct (sub_slice T g) as [[[start stop] d]| |]; cbn [bind]; try reflexivity.
  destruct (stop - start <=? x); [reflexivity|].
  destruct (subel T (start + x)) as [[kind idx]| |]; cbn [bind]; try reflexivity.
  destruct (kind =? 0); [reflexivity|]. apply IH.
Qed.

Lemma common_group_diff g x y a b : x <> y -> common_group T g (x :: a) (y :: b) = Val g.
Proof. intros H. cbn [common_group]. apply N.eqb_neq in H. rewrite H. reflexivity. Qed.

Lemma common_group_same g x a b kind idx d :
  slot g x = Some (kind, idx, d) ->
  common_group T g (x :: a) (x :: b) = if kind =? 0 then Val g else common_group T idx a b.
Proof.
  intros S. apply slot_sub_slice in S as (start & stop & ES & EL & ESub).
  cbn [common_group]. rewrite N.eqb_refl, ES. cbn [bind]. rewrite EL, ESub. cbn [bind]. reflexivity.
Qed.

(* ------------------------------------------------------------------ multiplicity on leaf paths *)
Definition mult_of (g : N) (ix : list N) : res (option N) := get_sub_element_multiplicity T (0, g) ix.

Lemma mult_fst a b g ix : get_sub_element_multiplicity T (a, g) ix = get_sub_element_multiplicity T (b, g) ix.
Proof. reflexivity. Qed.

Lemma walk_groups_descend g x kind gid d rest :
  slot g x = Some (kind, gid, d) -> kind <> 0 -> rest <> [] ->
  walk_groups T g (x :: rest) = walk_groups T gid rest.
Proof.
  intros S K NE. apply slot_sub_slice in S as (start & stop & ES & EL & ESub).
  destruct rest as [|r rest]; [congruence|].
  cbn [walk_groups]. rewrite ES. cbn [bind]. rewrite EL, ESub. cbn [bind].
  apply N.eqb_neq in K. rewrite K. reflexivity.
Qed.

Lemma spec_descend g x kind gid d rest :
  slot g x = Some (kind, gid, d) -> kind <> 0 -> leaf_path gid rest ->
  get_sub_element_spec T (0, g) (x :: rest) = get_sub_element_spec T (0, gid) rest.
Proof.
  intros S K L. pose proof (leaf_path_nonempty _ _ L) as NE. pose proof (leaf_path_slice _ _ L) as (r & ER).
  unfold get_sub_element_spec. cbn [snd].
  destruct rest as [|r0 rest]; [congruence|].
  rewrite ER. cbn [bind].
  pose proof (slot_sub_slice _ _ _ _ _ S) as (start & stop & ES & _ & _). rewrite ES. cbn [bind].
  eapply walk_groups_descend; eauto; discriminate.
Qed.

Lemma mult_descend g x kind gid d rest :
  slot g x = Some (kind, gid, d) -> kind <> 0 -> leaf_path gid rest -> mult_of g (x :: rest) = mult_of gid rest.
Proof. intros S K L. unfold mult_of, get_sub_element_multiplicity. erewrite spec_descend; eauto. Qed.

Lemma mult_leaf g ix : leaf_path g ix -> exists mu, mult_of g ix = Val (Some mu).
Proof.
  induction 1 as [g pos def d e m S E V | g pos kind gid d rest S K L IH].
  - pose proof (slot_sub_slice _ _ _ _ _ S) as (start & stop & ES & EL & ESub).
    exists (ed_mult e). unfold mult_of, get_sub_element_multiplicity, get_sub_element_spec. cbn [snd].
    rewrite ES. cbn [bind walk_groups]. rewrite ES. cbn [bind]. rewrite EL, ESub. cbn [bind]. rewrite V. cbn [bind].
    rewrite E. reflexivity.
  - destruct IH as (mu & IH). exists mu. erewrite mult_descend; eauto.
Qed.

Lemma mult_any_fst a b g ix : mult_any T (a, g) ix = mult_any T (b, g) ix.
Proof. reflexivity. Qed.

(* repeat check of the Rust (`if let Some(m) = multiplicity { if m != Any {conflict} }`) agrees with mult_any on leaf paths *)
Lemma mult_any_leaf ty ix : leaf_path (snd ty) ix ->
  exists mu, get_sub_element_multiplicity T ty ix = Val (Some mu) /\ mult_any T ty ix = (mu =? 2).
Proof.
  destruct ty as [a g]. cbn [snd]. intros L. destruct (mult_leaf _ _ L) as (mu & H). unfold mult_of in H.
  exists mu. rewrite (mult_fst a 0). split; [exact H|]. unfold mult_any. rewrite (mult_fst a 0), H. reflexivity.
Qed.

(* ------------------------------------------------------------------ pair_ok descends with the paths *)
Lemma pair_ok_fst a b g p q : pair_ok T (a, g) p q = pair_ok T (b, g) p q.
Proof. reflexivity. Qed.

Lemma mult_any_descend g x kind gid d rest :
  slot g x = Some (kind, gid, d) -> kind <> 0 -> leaf_path gid rest ->
  mult_any T (0, g) (x :: rest) = mult_any T (0, gid) rest.
Proof.
  intros S K L. unfold mult_any. pose proof (mult_descend _ _ _ _ _ _ S K L) as H. unfold mult_of in H. rewrite H. reflexivity.
Qed.

Lemma pair_ok_descend g x kind gid d p q :
  slot g x = Some (kind, gid, d) -> kind <> 0 -> leaf_path gid p ->
  pair_ok T (0, g) (x :: p) (x :: q) = pair_ok T (0, gid) p q.
Proof.
  intros S K L. unfold pair_ok, find_common_group. cbn [snd].
  rewrite (common_group_same _ _ _ _ _ _ _ S). apply N.eqb_neq in K. rewrite K.
  cbn [ix_cmp ix_eqb]. rewrite N.compare_refl, N.eqb_refl. cbn [andb].
  apply N.eqb_neq in K. rewrite (mult_any_descend _ _ _ _ _ _ S K L). reflexivity.
Qed.

(* ------------------------------------------------------------------ classification of an existing element relative to a new one *)
Inductive cls := CLess | CMid | CGreater | CConf | CPan.

Definition classify (ty : etype) (new ex : list N) : cls :=
  match find_common_group T ty new ex with
  | Val cg =>
    match group_mode T cg with
    | Some m =>
      if m =? MSequence then
        match ix_cmp new ex with Lt => CLess | Eq => if mult_any T ty new then CMid else CConf | Gt => CGreater end
      else if m =? MChoice then
        if ix_eqb new ex then (if mult_any T ty new then CMid else CConf) else CConf
      else if (m =? MBag) || (m =? MMixed) then CMid else CPan
    | None => CPan
    end
  | _ => CPan
  end.

Lemma pair_ok_new_first ty new ex : pair_ok T ty new ex = true <-> (classify ty new ex = CLess \/ classify ty new ex = CMid).
Proof.
  unfold pair_ok, classify. destruct (find_common_group T ty new ex) as [cg| |]; try (split; [discriminate | intros [H|H]; discriminate]).
  destruct (group_mode T cg) as [m|]; try (split; [discriminate | intros [H|H]; discriminate]).
  destruct (m =? MSequence).
  { destruct (ix_cmp new ex); [ destruct (mult_any T ty new) | | ];
      split; auto; try discriminate; intros [H|H]; discriminate. }
  destruct (m =? MChoice).
  { destruct (ix_eqb new ex); cbn [andb]; [destruct (mult_any T ty new)|]; split; auto; try discriminate; intros [H|H]; discriminate. }
  destruct ((m =? MBag) || (m =? MMixed)); split; auto; try discriminate; intros [H|H]; discriminate.
Qed.

Lemma pair_ok_new_last ty new ex : pair_ok T ty ex new = true <-> (classify ty new ex = CGreater \/ classify ty new ex = CMid).
Proof.
  unfold pair_ok, classify, find_common_group. rewrite (common_group_sym ex new).
  destruct (common_group T (snd ty) new ex) as [cg| |]; try (split; [discriminate | intros [H|H]; discriminate]).
  destruct (group_mode T cg) as [m|]; try (split; [discriminate | intros [H|H]; discriminate]).
  rewrite (ix_cmp_opp new ex), (ix_eqb_sym ex new).
  destruct (m =? MSequence).
  { destruct (ix_cmp new ex) eqn:EC; cbn [CompOpp].
    - apply ix_cmp_eq in EC. subst ex. destruct (mult_any T ty new); split; auto; try discriminate; intros [H|H]; discriminate.
    - split; [discriminate | intros [H|H]; discriminate].
    - split; auto. }
  destruct (m =? MChoice).
  { destruct (ix_eqb new ex) eqn:EE; cbn [andb].
    - apply ix_eqb_eq in EE. subst ex. destruct (mult_any T ty new); split; auto; try discriminate; intros [H|H]; discriminate.
    - split; [discriminate | intros [H|H]; discriminate]. }
  destruct ((m =? MBag) || (m =? MMixed)); split; auto; try discriminate; intros [H|H]; discriminate.
Qed.

(* ------------------------------------------------------------------ the `break` is sound on ordered content
   new < ek in a Sequence, ek stands before ej in an ordered content  ==>  new may stand before ej *)
Definition seq_less (g : N) (new ek : list N) : Prop :=
  exists cg, common_group T g new ek = Val cg /\ group_mode T cg = Some MSequence /\ ix_cmp new ek = Lt.

Lemma less_trans : forall g new, leaf_path g new -> forall ek ej, leaf_path g ek -> leaf_path g ej ->
  seq_less g new ek -> pair_ok T (0, g) ek ej = true -> pair_ok T (0, g) new ej = true.
Proof.
  intros g new Lnew.
  induction Lnew as [g n def d e m S E V | g n kind gid d rest S K L IH]; intros ek ej Lek Lej (cg & HC & HM & HL) HP.
  - (* new = [n], an Element slot *)
    destruct ek as [|k ek']; [exfalso; exact (leaf_path_nonempty _ _ Lek eq_refl)|].
    destruct ej as [|j ej']; [exfalso; exact (leaf_path_nonempty _ _ Lej eq_refl)|].
    destruct (N.eq_dec n k) as [->|NK].
    { (* same slot: ek = [n] = new, contradiction with Lt *)
      pose proof (leaf_path_elem_head _ _ _ _ _ S Lek) as ->. cbn [ix_cmp] in HL. rewrite N.compare_refl in HL. discriminate. }
    rewrite (common_group_diff _ _ _ _ _ NK) in HC. injection HC as <-.
    cbn [ix_cmp] in HL. destruct (n ?= k) eqn:ENK; try discriminate; [apply N.compare_eq in ENK; congruence|].
    assert (LT : n < k) by (apply N.compare_lt_iff; exact ENK).
    destruct (N.eq_dec j n) as [->|NJ].
    + (* ej shares the head with new: then ek, ej part in g (a Sequence) with ej < ek *)
      exfalso. unfold pair_ok, find_common_group in HP. cbn [snd] in HP.
      rewrite (common_group_diff g k n ek' ej') in HP by congruence. rewrite HM in HP. cbn in HP.
      replace (k ?= n) with Gt in HP by (symmetry; apply N.compare_gt_iff; lia). discriminate.
    + unfold pair_ok, find_common_group. cbn [snd]. rewrite (common_group_diff g n j [] ej') by congruence. rewrite HM. cbn.
      destruct (N.eq_dec j k) as [->|JK].
      * replace (n ?= k) with Lt by (symmetry; apply N.compare_lt_iff; lia). reflexivity.
      * unfold pair_ok, find_common_group in HP. cbn [snd] in HP.
        rewrite (common_group_diff g k j ek' ej') in HP by congruence. rewrite HM in HP. cbn in HP.
        destruct (k ?= j) eqn:EKJ; try discriminate; [apply N.compare_eq in EKJ; congruence|].
        assert (LT2 : k < j) by (apply N.compare_lt_iff; exact EKJ).
        replace (n ?= j) with Lt by (symmetry; apply N.compare_lt_iff; lia). reflexivity.
  - (* new = n :: rest through a Group slot *)
    destruct ek as [|k ek']; [exfalso; exact (leaf_path_nonempty _ _ Lek eq_refl)|].
    destruct ej as [|j ej']; [exfalso; exact (leaf_path_nonempty _ _ Lej eq_refl)|].
    destruct (N.eq_dec n k) as [<-|NK].
    + pose proof (leaf_path_group_head _ _ _ _ _ _ S K Lek) as Lek'.
      rewrite (common_group_same _ _ _ _ _ _ _ S) in HC. pose proof K as K'. apply N.eqb_neq in K'. rewrite K' in HC.
      cbn [ix_cmp] in HL. rewrite N.compare_refl in HL.
      destruct (N.eq_dec j n) as [->|NJ].
      * pose proof (leaf_path_group_head _ _ _ _ _ _ S K Lej) as Lej'.
        rewrite (pair_ok_descend _ _ _ _ _ _ _ S K L).
        rewrite (pair_ok_descend _ _ _ _ _ _ _ S K Lek') in HP.
        apply (IH ek' ej' Lek' Lej'); [|exact HP]. exists cg. auto.
      * (* ej parts from both in g *)
        unfold pair_ok, find_common_group in *. cbn [snd] in *.
        rewrite (common_group_diff g n j ek' ej') in HP by congruence.
        rewrite (common_group_diff g n j rest ej') by congruence.
        destruct (group_mode T g) as [mg|]; [|discriminate].
        cbn [ix_cmp ix_eqb] in *.
        destruct (mg =? MSequence).
        { destruct (n ?= j) eqn:ENJ; try discriminate; [apply N.compare_eq in ENJ; congruence | reflexivity]. }
        destruct (mg =? MChoice).
        { replace (n =? j) with false in HP by (symmetry; apply N.eqb_neq; congruence). cbn [andb] in HP. discriminate. }
        exact HP.
    + rewrite (common_group_diff _ _ _ _ _ NK) in HC. injection HC as <-.
      cbn [ix_cmp] in HL. destruct (n ?= k) eqn:ENK; try discriminate; [apply N.compare_eq in ENK; congruence|].
      assert (LT : n < k) by (apply N.compare_lt_iff; exact ENK).
      destruct (N.eq_dec j n) as [->|NJ].
      * exfalso. unfold pair_ok, find_common_group in HP. cbn [snd] in HP.
        rewrite (common_group_diff g k n ek' ej') in HP by congruence. rewrite HM in HP. cbn in HP.
        replace (k ?= n) with Gt in HP by (symmetry; apply N.compare_gt_iff; lia). discriminate.
      * unfold pair_ok, find_common_group. cbn [snd]. rewrite (common_group_diff g n j rest ej') by congruence. rewrite HM. cbn.
        destruct (N.eq_dec j k) as [->|JK].
        -- replace (n ?= k) with Lt by (symmetry; apply N.compare_lt_iff; lia). reflexivity.
        -- unfold pair_ok, find_common_group in HP. cbn [snd] in HP.
           rewrite (common_group_diff g k j ek' ej') in HP by congruence. rewrite HM in HP. cbn in HP.
           destruct (k ?= j) eqn:EKJ; try discriminate; [apply N.compare_eq in EKJ; congruence|].
           assert (LT2 : k < j) by (apply N.compare_lt_iff; exact EKJ).
           replace (n ?= j) with Lt by (symmetry; apply N.compare_lt_iff; lia). reflexivity.
Qed.

Lemma classify_less_seq ty new ek : classify ty new ek = CLess -> seq_less (snd ty) new ek.
Proof.
  unfold classify, seq_less, find_common_group.
  destruct (common_group T (snd ty) new ek) as [cg| |]; try discriminate.
  destruct (group_mode T cg) as [m|] eqn:EM; try discriminate.
  destruct (m =? MSequence) eqn:ES.
  - apply N.eqb_eq in ES. subst m. destruct (ix_cmp new ek) eqn:EC; try discriminate; [destruct (mult_any T ty new); discriminate|].
    intros _. exists cg. auto.
  - destruct (m =? MChoice); [destruct (ix_eqb new ek); [destruct (mult_any T ty new)|]; discriminate|].
    destruct ((m =? MBag) || (m =? MMixed)); discriminate.
Qed.

(* the form used by the loop proof *)
Lemma break_sound ty new ek ej :
  leaf_path (snd ty) new -> leaf_path (snd ty) ek -> leaf_path (snd ty) ej ->
  classify ty new ek = CLess -> pair_ok T ty ek ej = true -> pair_ok T ty new ej = true.
Proof.
  destruct ty as [a g]. cbn [snd]. intros Ln Lk Lj HC HP.
  rewrite (pair_ok_fst a 0) in *. apply (less_trans g new Ln ek ej Lk Lj); [|exact HP].
  apply (classify_less_seq (a, g)). exact HC.
Qed.

End Paths.
