(* Tree/IndexProofsRename.v — C04: the item name of ONE identifiable element h changes (the text of its SHORT-NAME
   element s), everything else in the tree stays, and the path index of its model is re-keyed by the prefix rule
   (rekey old new): Inv04 is kept.  Tree side: the path of every element below h changes its prefix from old to new,
   every other path is unchanged.  Used by set_item_name and by set_character_data on a SHORT-NAME element. *)
From AV Require Import Base.Bytes Base.Outcome Hash.HashModel Tree.Heap Tree.Ops Tree.Script Tree.IndexProofsW
  Tree.Index Tree.IndexProofsBase Tree.IndexProofsAssoc Tree.IndexProofsFrame Tree.IndexProofsAttach
  Tree.IndexProofsTree Tree.IndexProofsNamed Tree.FollowProofsPath.
Open Scope string_scope.
Open Scope list_scope.
Open Scope N_scope.

Section Ren.
Variable T : tables.
Variable check_fn : N -> list N -> res bool.
Notation Inv04 := (Inv04 T check_fn).
Notation SHORTN := (name_short_name T).

(* ---------- two worlds with the same parent links whose segments differ at h only *)
Section TwoWorlds.
Variables (wa wb : world) (h : id).
Hypothesis Hpar : forall j, option_map n_parent (w_nodes wb j) = option_map n_parent (w_nodes wa j).
Hypothesis Hseg : forall j, j <> h -> seg T wb j = seg T wa j.

(* h is on the parent chain that starts at link l *)
Inductive uchain : pref -> Prop :=
| uc_here : uchain (PElem h)
| uc_up i n : w_nodes wa i = Some n -> uchain (n_parent n) -> uchain (PElem i).

Lemma seg_of w j n : w_nodes w j = Some n -> seg_n T w n = seg T w j.
Proof. intros H. unfold seg. rewrite H. reflexivity. Qed.

(* no node is a proper ancestor of itself *)
Hypothesis Hacyc : forall n, w_nodes wa h = Some n -> ~ uchain (n_parent n).

Lemma upath_ab m l pa :
  upath T wa m l pa ->
  exists pb, upath T wb m l pb /\
    ((~ uchain l /\ pb = pa) \/
     (uchain l /\ exists pre suf, pa = pre ++ seg T wa h ++ suf /\ pb = pre ++ seg T wb h ++ suf)).
Proof.
  induction 1 as [|i n q Hn Hu IH].
  - exists []. split; [constructor|]. left. split; [intros Hc; inversion Hc|reflexivity].
  - destruct IH as (qb & Hub & Hcase).
    pose proof (Hpar i) as Hp. rewrite Hn in Hp. destruct (w_nodes wb i) as [nb|] eqn:Enb; [|discriminate].
    cbn in Hp. injection Hp as Hp.
    exists (qb ++ seg_n T wb nb). split; [econstructor; [exact Enb|rewrite Hp; exact Hub]|].
    rewrite (seg_of wa i n Hn), (seg_of wb i nb Enb).
    destruct (N.eq_dec i h) as [->|Hne].
    + right. split; [constructor|]. destruct Hcase as [(_ & ->)|(Hc & _)].
      * exists q, []. rewrite !app_nil_r. auto.
      * exfalso. eapply Hacyc; eauto.
    + rewrite (Hseg i Hne). destruct Hcase as [(Hnc & ->)|(Hc & pre & suf & -> & ->)].
      * left. split; [|reflexivity]. intros Hc. inversion Hc; subst; [contradiction|].
        rewrite Hn in H0. injection H0 as <-. contradiction.
      * right. split; [econstructor; eauto|]. exists pre, (suf ++ seg T wa i). rewrite <- !app_assoc. auto.
Qed.

End TwoWorlds.

End Ren.
