(* Tree/IndexProofsRename.v — C04: the item name of ONE identifiable element h changes (the text of its SHORT-NAME
   element s), everything else in the tree stays, and the path index of its model is re-keyed by the prefix rule
   (rekey old new): Inv04 is kept.  Tree side: the path of every element below h changes its prefix from old to new,
   every other path is unchanged.  Used by set_item_name and by set_character_data on a SHORT-NAME element. *)
From AV Require Import Base.Bytes Base.Outcome Hash.HashModel Tree.Heap Tree.Ops Tree.Script Tree.IndexProofsW
  Tree.Index Tree.IndexProofsBase Tree.IndexProofsAssoc Tree.IndexProofsFrame Tree.IndexProofsAttach
  Tree.IndexProofsTree Tree.IndexProofsNamed Tree.Follow Tree.FollowProofsPath.
Open Scope string_scope.
Open Scope list_scope.
Open Scope N_scope.

Section Ren.
Variable T : tables.
Variable check_fn : N -> list N -> res bool.
Notation Inv04 := (Inv04 T check_fn).
Notation SHORTN := (name_short_name T).

(* ---------- two worlds with the same parent links whose segments differ at h only *)
Section TwoWorlds.
Variables (wa wb : world) (h : id).
Hypothesis Hpar : forall j, option_map n_parent (w_nodes wb j) = option_map n_parent (w_nodes wa j).
Hypothesis Hseg : forall j, j <> h -> seg T wb j = seg T wa j.

(* h is on the parent chain that starts at link l *)
Inductive uchain : pref -> Prop :=
| uc_here : uchain (PElem h)
| uc_up i n : w_nodes wa i = Some n -> uchain (n_parent n) -> uchain (PElem i).

Lemma seg_of w j n : w_nodes w j = Some n -> seg_n T w n = seg T w j.
Proof. intros H. unfold seg. rewrite H. reflexivity. Qed.

(* no node is a proper ancestor of itself *)
Hypothesis Hacyc : forall n, w_nodes wa h = Some n -> ~ uchain (n_parent n).

Lemma upath_ab m l pa :
  upath T wa m l pa ->
  exists pb, upath T wb m l pb /\
    ((~ uchain l /\ pb = pa) \/
     (uchain l /\ exists pre suf, upath T wa m (PElem h) (pre ++ seg T wa h) /\
                                  pa = pre ++ seg T wa h ++ suf /\ pb = pre ++ seg T wb h ++ suf)).
Proof.
  induction 1 as [|i n q Hn Hu IH].
  - exists []. split; [constructor|]. left. split; [intros Hc; inversion Hc|reflexivity].
  - destruct IH as (qb & Hub & Hcase).
    pose proof (Hpar i) as Hp. rewrite Hn in Hp. destruct (w_nodes wb i) as [nb|] eqn:Enb; [|discriminate].
    cbn in Hp. injection Hp as Hp.
    exists (qb ++ seg_n T wb nb). split; [econstructor; [exact Enb|rewrite Hp; exact Hub]|].
    rewrite (seg_of wa i n Hn), (seg_of wb i nb Enb).
    destruct (N.eq_dec i h) as [->|Hne].
    + right. split; [constructor|]. destruct Hcase as [(_ & ->)|(Hc & _)].
      * exists q, []. rewrite !app_nil_r. split; [|auto]. rewrite <- (seg_of wa h n Hn). econstructor; eauto.
      * exfalso. eapply Hacyc; eauto.
    + rewrite (Hseg i Hne). destruct Hcase as [(Hnc & ->)|(Hc & pre & suf & Hup & -> & ->)].
      * left. split; [|reflexivity]. intros Hc. inversion Hc; subst; [contradiction|].
        rewrite Hn in H0. injection H0 as <-. contradiction.
      * right. split; [econstructor; eauto|]. exists pre, (suf ++ seg T wa i). rewrite <- !app_assoc. auto.
Qed.

End TwoWorlds.

(* the chain relation is the subtree relation; a node is not above its own parent *)
Lemma uchain_reach w h l : TreeFacts w -> uchain w h l -> forall i, l = PElem i -> reach T w h i.
Proof.
  intros HF Hu. induction Hu as [|i n Hn Hu IH]; intros j [= <-]; [apply reach_refl|].
  destruct (n_parent n) as [|mm|p] eqn:Ep; try (inversion Hu; fail).
  eapply reach_step; [apply IH; reflexivity|]. eapply tf_down; eauto.
Qed.
Lemma reach_uchain w h i : TreeFacts w -> reach T w h i -> uchain w h (PElem i).
Proof.
  intros HF (q & Hd). induction Hd as [|p c q Hp IH Hc]; [constructor|].
  destruct (tf_up _ HF _ _ Hc) as (cn & Hcn & Hpar). econstructor; [exact Hcn|]. rewrite Hpar. exact IH.
Qed.
Lemma uchain_acyclic w h n : TreeFacts w -> w_nodes w h = Some n -> ~ uchain w h (n_parent n).
Proof.
  intros HF Hn Hu. destruct (n_parent n) as [|mm|p] eqn:Ep; try (inversion Hu; fail).
  pose proof (uchain_reach w h _ HF Hu p eq_refl) as (q & Hd).
  eapply (not_below_self T w p h q); eauto. eapply tf_down; eauto.
Qed.

(* ---------- the concrete situation: the text of the SHORT-NAME s of h changes from cur to nn *)
Section One.
Variables (w w2 : world) (h s : id) (n sn : node) (rest : list citem) (m : N) (x : model)
          (cur nn pre : list N) (IDS2 : list (list N * id)).
Hypothesis HF : TreeFacts w.
Hypothesis HI : Inv04 w.
Hypothesis Hn : w_nodes w h = Some n.
Hypothesis Hc : n_content n = CElem s :: rest.
Hypothesis Hnamed : named T (n_type n) = true.
Hypothesis Hs : w_nodes w s = Some sn.
Hypothesis Hsn : n_name sn = SHORTN.
Hypothesis Hcd : cdata_of T sn = Some (DString cur).
Let sn2 := set_content sn [CData (DString nn)].
Hypothesis Hnodes : forall j, w_nodes w2 j = if j =? s then Some sn2 else w_nodes w j.
Hypothesis Hnext : w_next w2 = w_next w.
Hypothesis Hnn : ~ In 47 nn.
Hypothesis Hreach : MReach T w m h.
Let old := pre ++ 47 :: cur.
Let new := pre ++ 47 :: nn.
Hypothesis Hold : SpecPath T w m h old.
Hypothesis Hx : model_at w m = Some x.
Hypothesis Hmodels : w_models w2 = list_set (w_models w) (N.to_nat m) (set_idents x IDS2).
Hypothesis Hids_nd : NoDupKeys IDS2.
Hypothesis Hids : forall k2 e, assoc_get k2 IDS2 = Some e <->
     (exists k, rekey old new k = Some k2 /\ assoc_get k (m_idents x) = Some e)
     \/ (rekey old new k2 = None /\ assoc_get k2 (m_idents x) = Some e).

Lemma one_hs : h <> s.
Proof.
  intros E. subst s. eapply (not_below_self T w h h []); eauto; [|constructor]. exists n. rewrite Hc. split; [exact Hn|left; reflexivity].
Qed.
Lemma one_child : child_of w h s.
Proof. exists n. rewrite Hc. split; [exact Hn|left; reflexivity]. Qed.

Lemma one_mode : content_mode T (n_type sn) = Val MCharacters.
Proof. destruct (i4_short _ _ _ HI _ _ Hs Hsn) as (H & _). exact H. Qed.

Lemma one_sn2_cd : cdata_of T sn2 = Some (DString nn).
Proof. unfold cdata_of, character_data, sn2. cbn. rewrite one_mode. reflexivity. Qed.

Lemma one_s_leaf : elem_ids (n_content sn) = [].
Proof. apply chars_content_elems. eapply (i4_leaf _ _ _ HI); eauto. apply one_mode. Qed.

(* structure *)
Lemma one_se : SE w w2.
Proof.
  split; [|split; [exact Hnext|]].
  - intros j. rewrite Hnodes. destruct (j =? s) eqn:E; [|reflexivity]. apply N.eqb_eq in E. subst j. rewrite Hs. cbn.
    unfold sview, sn2. cbn. rewrite one_s_leaf. reflexivity.
  - rewrite Hmodels. clear -Hx. unfold model_at in Hx. revert Hx. generalize (N.to_nat m). generalize (w_models w).
    induction l as [|y l IH]; intros [|k] H; cbn in *; try discriminate; auto.
    + injection H as ->. reflexivity.
    + f_equal. auto.
Qed.
Lemma one_tf2 : TreeFacts w2.
Proof. eapply TreeFacts_se; [apply one_se|exact HF]. Qed.

Lemma one_child_of p c : child_of w2 p c <-> child_of w p c.
Proof. split; [apply se_child; apply SE_sym; apply one_se|apply se_child; apply one_se]. Qed.

Lemma no_elems_short_child w0 nd : elem_ids (n_content nd) = [] -> short_child T w0 nd = None.
Proof. unfold short_child. destruct (n_content nd) as [|[c|d] r]; try reflexivity. discriminate. Qed.

(* readings *)
Lemma one_short_child j nj : w_nodes w j = Some nj -> j <> s ->
  short_child T w2 nj = (if j =? h then Some sn2 else short_child T w nj).
Proof.
  intros Hj Hjs. rewrite !short_child_hd. destruct (N.eq_dec j h) as [->|Hjh].
  - rewrite N.eqb_refl. rewrite Hn in Hj. injection Hj as <-. rewrite Hc. cbn [hd_error]. rewrite Hnodes, N.eqb_refl.
    unfold sn2. cbn [set_content n_name]. rewrite Hsn, N.eqb_refl. reflexivity.
  - apply N.eqb_neq in Hjh as Hb. rewrite Hb. destruct (hd_error (n_content nj)) as [[c|d]|] eqn:Eh; try reflexivity.
    assert (Hcj : child_of w j c).
    { exists nj. split; [exact Hj|]. destruct (n_content nj); cbn in Eh; [discriminate|]. injection Eh as ->. left. reflexivity. }
    assert (c <> s).
    { intros ->. apply Hjh. destruct (tf_up _ HF _ _ Hcj) as (c1 & H1 & P1). destruct (tf_up _ HF _ _ one_child) as (c2 & H2 & P2). congruence. }
    rewrite Hnodes. apply N.eqb_neq in H. rewrite H. reflexivity.
Qed.

Lemma one_item_name_h : item_name_n T w n = Some cur /\ item_name_n T w2 n = Some nn.
Proof.
  assert (Hsc : short_child T w n = Some sn).
  { unfold short_child. rewrite Hc, Hs, Hsn, N.eqb_refl. reflexivity. }
  assert (Hsc2 : short_child T w2 n = Some sn2).
  { rewrite (one_short_child h n Hn one_hs), N.eqb_refl. reflexivity. }
  unfold item_name_n. rewrite Hnamed, Hsc, Hsc2, Hcd, one_sn2_cd. auto.
Qed.

Lemma one_seg_h : seg T w h = 47 :: cur /\ seg T w2 h = 47 :: nn.
Proof.
  destruct one_item_name_h as (H1 & H2). unfold seg. rewrite Hn.
  assert (w_nodes w2 h = Some n). { rewrite Hnodes. pose proof one_hs as Hne. apply N.eqb_neq in Hne. rewrite Hne. exact Hn. }
  rewrite H. unfold seg_n. rewrite H1, H2. auto.
Qed.

Lemma one_readings j : j <> h ->
  seg T w2 j = seg T w j.
Proof.
  intros Hjh. unfold seg. rewrite Hnodes. destruct (j =? s) eqn:Ejs.
  - apply N.eqb_eq in Ejs. subst j. rewrite Hs. unfold seg_n, item_name_n.
    rewrite (no_elems_short_child w sn one_s_leaf), (no_elems_short_child w2 sn2 eq_refl). reflexivity.
  - apply N.eqb_neq in Ejs. destruct (w_nodes w j) as [nj|] eqn:Ej; [|reflexivity].
    unfold seg_n, item_name_n. rewrite (one_short_child j nj Ej Ejs). apply N.eqb_neq in Hjh. rewrite Hjh. reflexivity.
Qed.

Lemma one_identifiable j : identifiable T w2 j = identifiable T w j.
Proof.
  unfold identifiable. rewrite Hnodes. destruct (j =? s) eqn:Ejs.
  - apply N.eqb_eq in Ejs. subst j. rewrite Hs. unfold identifiable_n.
    rewrite (no_elems_short_child w sn one_s_leaf), (no_elems_short_child w2 sn2 eq_refl). reflexivity.
  - apply N.eqb_neq in Ejs. destruct (w_nodes w j) as [nj|] eqn:Ej; [|reflexivity].
    unfold identifiable_n. rewrite (one_short_child j nj Ej Ejs). destruct (j =? h) eqn:Ejh; [|reflexivity].
    apply N.eqb_eq in Ejh. subst j. rewrite Hn in Ej. injection Ej as <-. unfold short_child. rewrite Hc, Hs, Hsn, N.eqb_refl. reflexivity.
Qed.

(* ---------- paths *)
Lemma one_par j : option_map n_parent (w_nodes w2 j) = option_map n_parent (w_nodes w j).
Proof. rewrite Hnodes. destruct (j =? s) eqn:E; [|reflexivity]. apply N.eqb_eq in E. subst j. rewrite Hs. reflexivity. Qed.
Lemma one_par' j : option_map n_parent (w_nodes w j) = option_map n_parent (w_nodes w2 j).
Proof. symmetry. apply one_par. Qed.
Lemma one_seg' j : j <> h -> seg T w j = seg T w2 j.
Proof. intros H. symmetry. apply one_readings. exact H. Qed.

Lemma one_uchain l : uchain w h l <-> uchain w2 h l.
Proof.
  split; intros Hu; induction Hu as [|i n0 Hn0 Hu IH]; try constructor.
  - pose proof (one_par i) as Hp. rewrite Hn0 in Hp. destruct (w_nodes w2 i) as [n2|] eqn:E; [|discriminate]. cbn in Hp.
    injection Hp as Hp. econstructor; [exact E|]. rewrite Hp. exact IH.
  - pose proof (one_par i) as Hp. rewrite Hn0 in Hp. destruct (w_nodes w i) as [n1|] eqn:E; [|discriminate]. cbn in Hp.
    injection Hp as Hp. econstructor; [exact E|]. rewrite <- Hp. exact IH.
Qed.

Lemma one_old_upath : upath T w m (PElem h) old.
Proof. eapply specpath_upath; eauto. Qed.

(* the path of an element after the change *)
Lemma one_specpath_fwd m2 j p :
  SpecPath T w m2 j p ->
  (~ reach T w h j /\ SpecPath T w2 m2 j p) \/
  (reach T w h j /\ m2 = m /\ exists suf, p = old ++ suf /\ SpecPath T w2 m2 j (new ++ suf)).
Proof.
  intros Hsp. pose proof (specpath_upath T _ _ _ _ HF Hsp) as Hu.
  destruct (upath_ab w w2 h one_par one_readings (fun n0 H0 => uchain_acyclic w h n0 HF H0) m2 _ _ Hu)
    as (pb & Hub & [(Hnc & ->)|(Hch & pre' & suf & Huh & -> & ->)]).
  - left. split; [intros Hr; apply Hnc; apply reach_uchain; assumption|]. eapply upath_specpath; [apply one_tf2|exact Hub].
  - right. split; [eapply uchain_reach; eauto|].
    destruct (upath_fun T _ _ _ _ one_old_upath _ _ Huh) as (-> & Heq). split; [reflexivity|].
    destruct one_seg_h as (S1 & S2). rewrite S1 in Heq. unfold old in Heq.
    assert (pre' = pre). { apply (app_inv_tail (47 :: cur)). exact Heq. } subst pre'.
    exists suf. rewrite S1. split; [unfold old; rewrite <- app_assoc; reflexivity|].
    eapply upath_specpath; [apply one_tf2|]. unfold new. rewrite <- app_assoc. rewrite <- S2. exact Hub.
Qed.

Lemma one_new_upath : upath T w2 m (PElem h) new.
Proof.
  destruct (one_specpath_fwd m h old Hold) as [(Hn0 & _)|(_ & _ & suf & He & Hs2)].
  - exfalso. apply Hn0. apply reach_refl.
  - unfold old in He. rewrite <- (app_nil_r (pre ++ 47 :: cur)) in He at 1. apply app_inv_head in He. subst suf.
    rewrite app_nil_r in Hs2. eapply specpath_upath; [apply one_tf2|exact Hs2].
Qed.

Lemma one_specpath_bwd m2 j p2 :
  SpecPath T w2 m2 j p2 ->
  (~ reach T w h j /\ SpecPath T w m2 j p2) \/
  (reach T w h j /\ m2 = m /\ exists suf, p2 = new ++ suf /\ SpecPath T w m2 j (old ++ suf)).
Proof.
  intros Hsp. pose proof (specpath_upath T _ _ _ _ one_tf2 Hsp) as Hu.
  assert (Hn2 : w_nodes w2 h = Some n).
  { rewrite Hnodes. pose proof one_hs as Hne. apply N.eqb_neq in Hne. rewrite Hne. exact Hn. }
  destruct (upath_ab w2 w h one_par' one_seg' (fun n0 H0 => uchain_acyclic w2 h n0 one_tf2 H0) m2 _ _ Hu)
    as (pb & Hub & [(Hnc & ->)|(Hch & pre' & suf & Huh & -> & ->)]).
  - left. split; [intros Hr; apply Hnc; apply one_uchain; apply reach_uchain; assumption|]. eapply upath_specpath; eauto.
  - right. split; [eapply uchain_reach; [exact HF|apply one_uchain; exact Hch|reflexivity]|].
    destruct (upath_fun T _ _ _ _ one_new_upath _ _ Huh) as (-> & Heq). split; [reflexivity|].
    destruct one_seg_h as (S1 & S2). rewrite S2 in Heq. unfold new in Heq.
    assert (pre' = pre). { apply (app_inv_tail (47 :: nn)). exact Heq. } subst pre'.
    exists suf. rewrite S2. split; [unfold new; rewrite <- app_assoc; reflexivity|].
    eapply upath_specpath; [exact HF|]. unfold old. rewrite <- app_assoc. rewrite <- S1. exact Hub.
Qed.

(* ---------- the invariant *)
Lemma one_old_ne : old <> [].
Proof. unfold old. destruct pre; discriminate. Qed.

Lemma one_h_key : assoc_get old (m_idents x) = Some h.
Proof.
  apply (i4_exact _ _ _ HI m x Hx). split; [exact Hreach|]. split; [|exact Hold].
  unfold identifiable. rewrite Hn. unfold identifiable_n, short_child. rewrite Hnamed, Hc, Hs, Hsn, N.eqb_refl. reflexivity.
Qed.

Lemma one_old_form_reach k j : old_form old k -> assoc_get k (m_idents x) = Some j -> reach T w h j.
Proof.
  intros Hof Hk. eapply (old_form_below T w m x h old k j); eauto.
  - apply slashfree_names. apply (i4_slash _ _ _ HI).
  - exact (i4_exact _ _ _ HI m).
  - apply one_old_ne.
  - apply one_h_key.
Qed.

Lemma rekey_old_form k k' : rekey old new k = Some k' -> old_form old k.
Proof. intros H. apply rekey_some in H as (suf & -> & Hb & _). exists suf. auto. Qed.
Lemma old_form_rekey' k : old_form old k -> exists suf, k = old ++ suf /\ rekey old new k = Some (new ++ suf).
Proof. intros (suf & -> & Hb). exists suf. split; [reflexivity|]. apply rekey_some. exists suf. auto. Qed.

Lemma one_mreach m2 j : MReach T w2 m2 j <-> MReach T w m2 j.
Proof.
  split.
  - intros (y & Hy & Hr). destruct (se_model _ _ _ _ (SE_sym _ _ one_se) Hy) as (y0 & Hy0 & Hroot).
    exists y0. split; [exact Hy0|]. rewrite Hroot. eapply se_reach; [apply SE_sym; apply one_se|exact Hr].
  - intros (y & Hy & Hr). destruct (se_model _ _ _ _ one_se Hy) as (y0 & Hy0 & Hroot).
    exists y0. split; [exact Hy0|]. rewrite Hroot. eapply se_reach; [apply one_se|exact Hr].
Qed.

Lemma one_pathset_other m2 p j : m2 <> m -> (PathSet T w2 m2 p j <-> PathSet T w m2 p j).
Proof.
  intros Hne. unfold PathSet. rewrite one_mreach, one_identifiable. split.
  - intros (H1 & H2 & H3). split; [exact H1|]. split; [exact H2|].
    destruct (one_specpath_bwd _ _ _ H3) as [(_ & H)|(_ & E & _)]; [exact H|contradiction].
  - intros (H1 & H2 & H3). split; [exact H1|]. split; [exact H2|].
    destruct (one_specpath_fwd _ _ _ H3) as [(_ & H)|(_ & E & _)]; [exact H|contradiction].
Qed.

Theorem one_inv04 : Inv04 w2.
Proof.
  pose proof HI as [I1 I2 I3 IL I4 I5].
  assert (Hnode : forall j nj2, w_nodes w2 j = Some nj2 -> (j = s /\ nj2 = sn2) \/ (j <> s /\ w_nodes w j = Some nj2)).
  { intros j nj2 Hj. rewrite Hnodes in Hj. destruct (j =? s) eqn:E.
    - apply N.eqb_eq in E. injection Hj as <-. auto.
    - apply N.eqb_neq in E. auto. }
  constructor.
  - intros j nj2 Hj Hs2. destruct (Hnode j nj2 Hj) as [(-> & ->)|(Hjs & Hj0)]; [cbn; eapply I1; eauto|eapply I1; eauto].
  - intros j nj2 s0 Hj Hs2 Hcd2. destruct (Hnode j nj2 Hj) as [(-> & ->)|(Hjs & Hj0)].
    + rewrite one_sn2_cd in Hcd2. injection Hcd2 as <-. exact Hnn.
    + eapply I2; eauto.
  - intros j nj2 Hj Hid. destruct (Hnode j nj2 Hj) as [(-> & ->)|(Hjs & Hj0)].
    + unfold identifiable_n in Hid. rewrite (no_elems_short_child w2 sn2 eq_refl), andb_false_r in Hid. discriminate.
    + destruct (N.eq_dec j h) as [->|Hjh].
      * rewrite Hn in Hj0. injection Hj0 as <-. destruct one_item_name_h as (_ & ->). discriminate.
      * unfold item_name_n. unfold identifiable_n in Hid. rewrite (one_short_child j nj2 Hj0 Hjs) in *.
        apply N.eqb_neq in Hjh. rewrite Hjh in *. apply (I3 j nj2 Hj0). exact Hid.
  - intros j nj2 Hj Hm. destruct (Hnode j nj2 Hj) as [(-> & ->)|(Hjs & Hj0)]; [right; eexists; reflexivity|eapply IL; eauto].
  - (* IndexExact *)
    intros m2 y Hy p2 j. destruct (N.eq_dec m2 m) as [->|Hne].
    2:{ rewrite (model_at_set_other _ _ _ _ _ Hmodels Hne) in Hy. rewrite (one_pathset_other m2 p2 j Hne). apply (I4 m2 y Hy). }
    rewrite (model_at_set_same _ _ _ _ Hmodels _ Hx) in Hy. injection Hy as <-. cbn [set_idents m_idents]. rewrite Hids. split.
    + intros [(k & Hr & Hk)|(Hr & Hk)].
      * pose proof (proj1 (I4 m x Hx k j) Hk) as (P1 & P2 & P3).
        pose proof (one_old_form_reach k j (rekey_old_form _ _ Hr) Hk) as Hb.
        apply rekey_some in Hr as (suf & -> & Hbd & ->).
        destruct (one_specpath_fwd m j _ P3) as [(Hnb & _)|(_ & _ & suf2 & He & Hs2)]; [contradiction|].
        apply app_inv_head in He. subst suf2.
        split; [apply one_mreach; exact P1|]. split; [rewrite one_identifiable; exact P2|exact Hs2].
      * pose proof (proj1 (I4 m x Hx p2 j) Hk) as (P1 & P2 & P3).
        destruct (one_specpath_fwd m j _ P3) as [(Hnb & Hs2)|(Hb & _ & suf2 & He & _)].
        -- split; [apply one_mreach; exact P1|]. split; [rewrite one_identifiable; exact P2|exact Hs2].
        -- exfalso. assert (Hof : old_form old p2).
           { eapply (below_old_form T w m h j old p2); eauto. }
           destruct (old_form_rekey' _ Hof) as (suf & _ & Hr2). congruence.
    + intros (P1 & P2 & P3). apply one_mreach in P1. rewrite one_identifiable in P2.
      destruct (one_specpath_bwd m j _ P3) as [(Hnb & Hs1)|(Hb & _ & suf & -> & Hs1)].
      * right. assert (Hk : assoc_get p2 (m_idents x) = Some j) by (apply (I4 m x Hx); split; [exact P1|split; assumption]).
        split; [|exact Hk]. destruct (rekey old new p2) as [k'|] eqn:Er; [|reflexivity]. exfalso. apply Hnb.
        eapply one_old_form_reach; [eapply rekey_old_form; eauto|exact Hk].
      * left. exists (old ++ suf). split; [|apply (I4 m x Hx); split; [exact P1|split; assumption]].
        assert (Hof : old_form old (old ++ suf)) by (eapply (below_old_form T w m h j old); eauto).
        destruct (old_form_rekey' _ Hof) as (suf2 & He & Hr2). apply app_inv_head in He. subst suf2. exact Hr2.
  - intros m2 y Hy. destruct (N.eq_dec m2 m) as [->|Hne].
    + rewrite (model_at_set_same _ _ _ _ Hmodels _ Hx) in Hy. injection Hy as <-. exact Hids_nd.
    + rewrite (model_at_set_other _ _ _ _ _ Hmodels Hne) in Hy. apply (I5 m2 y Hy).
Qed.

End One.

End Ren.
