(* Tree/Compat.v — model of Element::check_version_compatibility / recalc_element_type (element.rs),
   ArxmlFile::check_version_compatibility and ArxmlFile::set_version (arxmlfile.rs).
   STUB: the interface below is fixed (Tree/Script2.v and the drivers use it); the bodies are placeholders.
   MODEL ONLY: definitions, no proofs. *)
From AV Require Import Base.Bytes Base.Outcome Hash.HashModel Tree.Heap Tree.Ops.
Open Scope string_scope.
Open Scope N_scope.

(* CompatibilityError: IncompatibleAttribute {element, attribute, version_mask} | IncompatibleAttributeValue {element,
   attribute, attribute_value (text), version_mask} | IncompatibleElement {element, version_mask} *)
Inductive compat_err :=
| CEAttr (e : id) (attr mask : N)
| CEAttrValue (e : id) (attr : N) (mask : N)
| CEElem (e : id) (mask : N).

Section Compat.
Variable T : tables.

(* ArxmlFile::check_version_compatibility(target) -> (errors in the order the Rust pushes them, version mask) *)
Definition f_check_version_compatibility (f target : N) : W (list compat_err * N) :=
  let _ := T in wpanic "UNMODELLED: check_version_compatibility".
(* ArxmlFile::set_version *)
Definition f_set_version (f target : N) : W unit := let _ := T in wpanic "UNMODELLED: set_version".
End Compat.
