(* Tree/Compat.v — model of Element::check_version_compatibility / recalc_element_type (element.rs),
   ArxmlFile::check_version_compatibility and ArxmlFile::set_version (arxmlfile.rs), statement by statement.
   The interface (`compat_err`, `f_check_version_compatibility`, `f_set_version`) is fixed: Tree/Script2.v and the drivers use it.
   The walk only READS the state and has no `?`: it is written as a pure function of the world into `res`
   (Pan = an `unwrap`/index of the Rust panics) and lifted into the state monad at the two entry points.
   MODEL ONLY: definitions, no proofs (proofs: Tree/CompatProofs*.v, theorems: Properties/C17.v). *)
From AV Require Import Base.Bytes Base.Outcome Hash.HashModel Tree.Heap Tree.Ops.
Open Scope string_scope.
Open Scope list_scope.
Open Scope N_scope.

(* CompatibilityError: IncompatibleAttribute {element, attribute, version_mask} | IncompatibleAttributeValue {element,
   attribute, attribute_value (text), version_mask} | IncompatibleElement {element, version_mask} *)
Inductive compat_err :=
| CEAttr (e : id) (attr mask : N)
| CEAttrValue (e : id) (attr : N) (mask : N)
| CEElem (e : id) (mask : N).

Definition U32MAX : N := 4294967295.

(* AutosarVersion::compatible(self, version_mask) = version_mask & self as u32 != 0 *)
Definition compatible (target mask : N) : bool := negb (N.land mask target =? 0).

(* self.0.read() of an element the harness still holds *)
Definition node_at (w : world) (i : id) : res node := unwrap "dangling node id" (w_nodes w i).

Definition cres := (list compat_err * N)%type.      (* (compat_errors, overall_version_mask) *)

Section Compat.
Variable T : tables.

(* Element::recalc_element_type:
     if let Ok(Some(parent)) = self.parent() {
         if let Some((etype, ..)) = parent.element_type().find_sub_element(self.element_name(), target_version as u32) { return etype; } }
     self.element_type()
   The parent's STORED type is used (not the parent's own recalculated type). *)
Definition recalc_element_type (w : world) (n : node) (target : N) : res (N * N) :=
  match n_parent n with
  | PElem p =>
    (let* pn := node_at w p in
     let* r := find_sub_element T (n_type pn) (n_name n) target in
     Val (match r with Some (et, _) => et | None => n_type n end))%res
  | PModel _ => Val (n_type n)          (* Ok(None) *)
  | PNone => Val (n_type n)             (* Err(ItemDeleted) *)
  end.

(* one attribute of the loop `for attribute in &element.attributes` : its errors and what is AND-ed into the mask *)
Definition attr_step (self : id) (oldty newty : N * N) (target : N) (a : N * cdata) : res cres :=
  let '(an, v) := a in
  (let* sp := find_attribute_spec T newty an in
   match sp with
   | Some (_, spec, _, vmask) =>
     (* overall_version_mask &= version_mask *)
     if negb (compatible target vmask)
     then Val ([CEAttr self an vmask], vmask)
     else
       let '(ok, vm) := value_compat v spec target in
       (* overall_version_mask &= value_version_mask *)
       Val (if ok then [] else [CEAttrValue self an vm], N.land vmask vm)
   | None =>
     (* the element type used in the target version does not have this attribute:
        element.elemtype.find_attribute_spec(attrname).map_or(0, |spec| spec.version) & !(target_version as u32) *)
     let* so := find_attribute_spec T oldty an in
     let m := N.ldiff (match so with Some (_, _, _, ver) => ver | None => 0 end) target in
     Val ([CEAttr self an m], m)
   end)%res.

Fixpoint attr_loop (self : id) (oldty newty : N * N) (target : N) (attrs : list (N * cdata)) : res cres :=
  match attrs with
  | [] => Val ([], U32MAX)
  | a :: rest =>
    (let* '(e1, m1) := attr_step self oldty newty target a in
     let* '(e2, m2) := attr_loop self oldty newty target rest in
     Val (e1 ++ e2, N.land m1 m2))%res
  end.

(* the character data of the element itself:
   if let Some(value_spec) = elemtype_new.chardata_spec() { for content_item in &element.content {
       if let ElementContent::CharacterData(chardata) = content_item { ... IncompatibleElement { element: self.clone(), .. } } } } *)
Fixpoint text_loop (self : id) (spec : cdspec) (target : N) (items : list citem) : cres :=
  match items with
  | [] => ([], U32MAX)
  | CElem _ :: rest => text_loop self spec target rest
  | CData d :: rest =>
    let '(ok, vm) := value_compat d spec target in
    let '(e2, m2) := text_loop self spec target rest in
    ((if ok then [] else [CEElem self vm]) ++ e2, N.land vm m2)
  end.

(* `for sub_element in self.sub_elements()`; `rec` is the recursive call on a sub element *)
Fixpoint sub_loop (rec : id -> res cres) (w : world) (oldty newty : N * N) (f target : N) (items : list citem) : res cres :=
  match items with
  | [] => Val ([], U32MAX)
  | CData _ :: rest => sub_loop rec w oldty newty f target rest
  | CElem c :: rest =>
    (let* cn := node_at w c in
     (* file_membership.is_empty() || file_membership.contains(file) *)
     if is_empty (n_files cn) || set_mem f (n_files cn) then
       (* a.or(b): BOTH lookups are evaluated (the argument of `or` is eager) *)
       let* r1 := find_sub_element T newty (n_name cn) target in
       let* r2 := find_sub_element T newty (n_name cn) U32MAX in
       match (match r1 with Some x => Some x | None => r2 end) with
       | Some (_, indices) =>
         (* elemtype_new.get_sub_element_version_mask(&indices).unwrap() — the type the indices were computed for (fix: the mask
            used to be read from the element's STORED type, `oldty`, with these indices: class K_mixup, an index-out-of-bounds
            panic on the real tables after a move / copy below a parent listing the name with another type); `oldty` is kept
            as a parameter, it is no longer consulted here *)
         let* o := get_sub_element_version_mask T newty indices in
         let* vm := unwrap "check_version_compatibility: get_sub_element_version_mask(..).unwrap()" o in
         if negb (compatible target vm)
         then
           let* '(e2, m2) := sub_loop rec w oldty newty f target rest in
           Val (CEElem c vm :: e2, N.land vm m2)
         else
           let* '(e1, m1) := rec c in
           let* '(e2, m2) := sub_loop rec w oldty newty f target rest in
           Val (e1 ++ e2, N.land (N.land vm m1) m2)
       | None => sub_loop rec w oldty newty f target rest         (* not found at all: skipped silently *)
       end
     else sub_loop rec w oldty newty f target rest)%res
  end.

(* Element::check_version_compatibility(&self, file, target_version) -> (Vec<CompatibilityError>, u32).
   Recursion over the tree with the usual bound (number of allocated nodes + 1; a longer chain is cyclic). *)
Fixpoint e_check (fuel : nat) (w : world) (self f target : N) {struct fuel} : res cres :=
  match fuel with
  | O => Fuel
  | S fuel' =>
    (let* n := node_at w self in
     (* let elemtype_new = self.recalc_element_type(target_version); *)
     let* newty := recalc_element_type w n target in
     let* '(ea, ma) := attr_loop self (n_type n) newty target (n_attrs n) in
     let* cs := chardata_spec T newty in
     let '(et, mt) := match cs with Some spec => text_loop self spec target (n_content n) | None => ([], U32MAX) end in
     let* '(es, ms) := sub_loop (fun c => e_check fuel' w c f target) w (n_type n) newty f target (n_content n) in
     Val (ea ++ et ++ es, N.land (N.land ma mt) ms))%res
  end.

(* ArxmlFile::check_version_compatibility(target) -> (errors in the order the Rust pushes them, version mask).
   `self.model()` always succeeds here (the harness keeps every model alive: weak references upgrade). *)
Definition f_check (w : world) (f target : N) : res cres :=
  (let* x := unwrap "dangling file id" (nth_opt (w_files w) (N.to_nat f)) in
   let* m := unwrap "dangling model id" (nth_opt (w_models w) (N.to_nat (f_model x))) in
   e_check (fuel_of w) w (m_root m) f target)%res.

Definition f_check_version_compatibility (f target : N) : W cres :=
  fun w => match f_check w f target with Val r => Val (OK r, w) | Pan s => Pan s | Fuel => Fuel end.

(* ArxmlFile::set_version *)
Definition f_set_version (f target : N) : W unit :=
  (do '(errs, _) <- f_check_version_compatibility f target;
   if is_empty errs then
     do x <- get_file f;
     set_file f (mkFile (f_model x) (f_name x) target (f_standalone x))
   else wfail VersionIncompatibleData)%W.
End Compat.
