(* Tree/Compat.v — model of Element::check_version_compatibility / recalc_element_type (element.rs),
   ArxmlFile::check_version_compatibility and ArxmlFile::set_version (arxmlfile.rs), statement by statement.
   The interface (`compat_err`, `f_check_version_compatibility`, `f_set_version`) is fixed: Tree/Script2.v and the drivers use it.
   MODEL ONLY: definitions, no proofs (proofs: Tree/CompatProofs*.v, theorems: Properties/C17.v). *)
From AV Require Import Base.Bytes Base.Outcome Hash.HashModel Tree.Heap Tree.Ops.
Open Scope string_scope.
Open Scope list_scope.
Open Scope N_scope.

(* CompatibilityError: IncompatibleAttribute {element, attribute, version_mask} | IncompatibleAttributeValue {element,
   attribute, attribute_value (text), version_mask} | IncompatibleElement {element, version_mask} *)
Inductive compat_err :=
| CEAttr (e : id) (attr mask : N)
| CEAttrValue (e : id) (attr : N) (mask : N)
| CEElem (e : id) (mask : N).

Definition U32MAX : N := 4294967295.

(* AutosarVersion::compatible(self, version_mask) = version_mask & self as u32 != 0 *)
Definition compatible (target mask : N) : bool := negb (N.land mask target =? 0).

Section Compat.
Variable T : tables.

(* Element::recalc_element_type:
     if let Ok(Some(parent)) = self.parent() {
         if let Some((etype, ..)) = parent.element_type().find_sub_element(self.element_name(), target_version as u32) { return etype; } }
     self.element_type()
   The parent's STORED type is used (not the parent's own recalculated type). *)
Definition recalc_element_type (n : node) (target : N) : W (N * N) :=
  match n_parent n with
  | PElem p =>
    (do pn <- get_node p;
     do r <- wlift (find_sub_element T (n_type pn) (n_name n) target);
     wret (match r with Some (et, _) => et | None => n_type n end))%W
  | PModel _ => wret (n_type n)          (* Ok(None) *)
  | PNone => wret (n_type n)             (* Err(ItemDeleted) *)
  end.

(* the attribute loop: `for attribute in &element.attributes { if let Some(AttributeSpec{spec, version, ..}) =
   elemtype_new.find_attribute_spec(attribute.attrname) { ... } }`  — an attribute unknown to the new type is skipped *)
Fixpoint attr_loop (self : id) (newty : N * N) (target : N) (attrs : list (N * cdata)) (errs : list compat_err) (mask : N)
  : res (list compat_err * N) :=
  match attrs with
  | [] => Val (errs, mask)
  | (an, v) :: rest =>
    (let* sp := find_attribute_spec T newty an in
     match sp with
     | Some (_, spec, _, vmask) =>
       let mask1 := N.land mask vmask in                                  (* overall_version_mask &= version_mask *)
       if negb (compatible target vmask)
       then attr_loop self newty target rest (errs ++ [CEAttr self an vmask]) mask1
       else
         let '(ok, vm) := value_compat v spec target in
         let errs' := if ok then errs else errs ++ [CEAttrValue self an vm] in
         attr_loop self newty target rest errs' (N.land mask1 vm)         (* overall_version_mask &= value_version_mask *)
     | None => attr_loop self newty target rest errs mask
     end)%res
  end.

(* Element::check_version_compatibility(&self, file, target_version) -> (Vec<CompatibilityError>, u32).
   Recursion over the tree with the usual bound (number of allocated nodes + 1; a longer chain is cyclic). *)
Fixpoint e_check (fuel : nat) (self f target : N) {struct fuel} : W (list compat_err * N) :=
  match fuel with
  | O => wfuel
  | S fuel' =>
    (do n <- get_node self;
     (* let elemtype_new = self.recalc_element_type(target_version); *)
     do newty <- recalc_element_type n target;
     (* attributes *)
     do '(errs0, mask0) <- wlift (attr_loop self newty target (n_attrs n) [] U32MAX);
     (* for sub_element in self.sub_elements() *)
     (fix sub_loop (items : list citem) (errs : list compat_err) (mask : N) {struct items} : W (list compat_err * N) :=
        match items with
        | [] => wret (errs, mask)
        | CData _ :: rest => sub_loop rest errs mask
        | CElem c :: rest =>
          do cn <- get_node c;
          (* file_membership.is_empty() || file_membership.contains(file) *)
          if is_empty (n_files cn) || set_mem f (n_files cn) then
            (* a.or(b): BOTH lookups are evaluated (the argument of `or` is eager) *)
            do r1 <- wlift (find_sub_element T newty (n_name cn) target);
            do r2 <- wlift (find_sub_element T newty (n_name cn) U32MAX);
            match (match r1 with Some x => Some x | None => r2 end) with
            | Some (_, indices) =>
              (* self.element_type().get_sub_element_version_mask(&indices).unwrap()  — the OLD type with the NEW type's indices *)
              do vm <- wlift (let* o := get_sub_element_version_mask T (n_type n) indices in
                              unwrap "check_version_compatibility: get_sub_element_version_mask(..).unwrap()" o)%res;
              let mask1 := N.land mask vm in
              if negb (compatible target vm)
              then sub_loop rest (errs ++ [CEElem c vm]) mask1
              else
                do '(serrs, smask) <- e_check fuel' c f target;
                sub_loop rest (errs ++ serrs) (N.land mask1 smask)
            | None => sub_loop rest errs mask         (* not found at all: skipped silently *)
            end
          else sub_loop rest errs mask
        end) (n_content n) errs0 mask0)%W
  end.

(* ArxmlFile::check_version_compatibility(target) -> (errors in the order the Rust pushes them, version mask).
   `self.model()` always succeeds here (the harness keeps every model alive: weak references upgrade). *)
Definition f_check_version_compatibility (f target : N) : W (list compat_err * N) :=
  (do x <- get_file f;
   do m <- get_model (f_model x);
   do w <- wget;
   e_check (fuel_of w) (m_root m) f target)%W.

(* ArxmlFile::set_version *)
Definition f_set_version (f target : N) : W unit :=
  (do '(errs, _) <- f_check_version_compatibility f target;
   if is_empty errs then
     do x <- get_file f;
     set_file f (mkFile (f_model x) (f_name x) target (f_standalone x))
   else wfail VersionIncompatibleData)%W.
End Compat.
