(* Tree/IndexProofsAssoc.v — C04/C05 proofs, layer 0b (pure lists):
   association lists with byte-string keys as IndexMap / HashMap (assoc_get / assoc_insert / assoc_swap_remove /
   assoc_remove), prefix algebra on byte strings (strip_prefix and the '/'-boundary test), and the KEY lemma about
   the prefix re-keying loop of fix_identifiables. *)
From Coq Require Import Permutation PeanoNat Arith.
From AV Require Import Base.Bytes Base.Outcome Tree.Heap Tree.Ops Tree.Index.
Open Scope list_scope.
Open Scope N_scope.

Lemma bytes_eqb_false a b : bytes_eqb a b = false <-> a <> b.
Proof.
  split.
  - intros H E. apply bytes_eqb_spec in E. congruence.
  - intros H. destruct (bytes_eqb a b) eqn:E; [|reflexivity]. apply bytes_eqb_spec in E. contradiction.
Qed.
Lemma bytes_dec (a b : list N) : {a = b} + {a <> b}.
Proof. apply list_eq_dec. apply N.eq_dec. Qed.

(* ---------- Vec::swap_remove and IndexMap::swap_remove *)
Lemma removelast_snoc {B} (l : list B) x : removelast (l ++ [x]) = l.
Proof. apply removelast_last. Qed.

Lemma list_set_app {B} (l1 : list B) x l2 y : list_set (l1 ++ x :: l2) (List.length l1) y = l1 ++ y :: l2.
Proof. induction l1 as [|z l1 IH]; cbn; [reflexivity|]. f_equal. exact IH. Qed.

Lemma swap_remove_at_perm {B} (l1 : list B) x l2 :
  Permutation (swap_remove_at (l1 ++ x :: l2) (List.length l1)) (l1 ++ l2).
Proof.
  unfold swap_remove_at. destruct (rev (l1 ++ x :: l2)) as [|lst r] eqn:Er.
  - apply (f_equal (@List.length B)) in Er. rewrite rev_length, app_length in Er. cbn in Er. lia.
  - destruct (Nat.eqb_spec (S (List.length l1)) (List.length (l1 ++ x :: l2))) as [El|El].
    + rewrite app_length in El. cbn in El. assert (l2 = []) by (destruct l2; cbn in El; [reflexivity|lia]). subst l2.
      rewrite app_nil_r. change (l1 ++ [x]) with (l1 ++ [x]). rewrite removelast_snoc. reflexivity.
    + destruct (exists_last (l:=l2)) as (l2' & y & ->).
      { intros ->. rewrite app_length in El. cbn in El. lia. }
      assert (lst = y).
      { rewrite rev_app_distr in Er. cbn [rev] in Er. rewrite rev_app_distr in Er. cbn in Er. congruence. }
      subst lst. rewrite list_set_app.
      replace (l1 ++ y :: l2' ++ [y]) with ((l1 ++ y :: l2') ++ [y]) by (rewrite <- app_assoc; reflexivity).
      rewrite removelast_snoc. apply Permutation_app_head. apply Permutation_cons_append.
Qed.

Lemma index_of_split {B} (p : B -> bool) (l : list B) i :
  index_of p l = Some i ->
  exists l1 x l2, l = l1 ++ x :: l2 /\ List.length l1 = i /\ p x = true /\ forallb (fun y => negb (p y)) l1 = true.
Proof.
  revert i. induction l as [|y l IH]; intros i; cbn; [discriminate|].
  destruct (p y) eqn:E.
  - intros [= <-]. exists [], y, l. auto.
  - destruct (index_of p l) as [j|]; cbn; [|discriminate]. intros [= <-].
    destruct (IH j eq_refl) as (l1 & x & l2 & -> & Hl & Hx & Hall).
    exists (y :: l1), x, l2. cbn. rewrite E, Hl. auto.
Qed.
Lemma index_of_none {B} (p : B -> bool) (l : list B) : index_of p l = None -> forall x, In x l -> p x = false.
Proof.
  induction l as [|y l IH]; cbn; [tauto|]. destruct (p y) eqn:E; [discriminate|].
  destruct (index_of p l); cbn; [discriminate|]. intros _ x [<-|H]; auto.
Qed.


Section Assoc.
Context {A : Type}.
Implicit Types (l : list (list N * A)) (k : list N) (a : A).

Definition keys l := map fst l.

Lemma assoc_get_in k l a : assoc_get k l = Some a -> In (k, a) l.
Proof.
  induction l as [|[k' a'] l IH]; cbn; [discriminate|].
  destruct (bytes_eqb k' k) eqn:E.
  - intros [= ->]. apply bytes_eqb_spec in E. subst. auto.
  - auto.
Qed.

Lemma assoc_get_none k l : assoc_get k l = None <-> ~ In k (keys l).
Proof.
  induction l as [|[k' a'] l IH]; cbn; [tauto|].
  destruct (bytes_eqb k' k) eqn:E.
  - apply bytes_eqb_spec in E. subst. split; [discriminate|]. intros H. exfalso. auto.
  - apply bytes_eqb_false in E. rewrite IH. tauto.
Qed.

Lemma assoc_get_some_key k l a : assoc_get k l = Some a -> In k (keys l).
Proof. intros H. apply assoc_get_in in H. apply (in_map fst) in H. exact H. Qed.

Lemma in_assoc_get k l a : NoDupKeys l -> In (k, a) l -> assoc_get k l = Some a.
Proof.
  unfold NoDupKeys. induction l as [|[k' a'] l IH]; cbn; [tauto|].
  intros Hnd [H|H]; inversion Hnd; subst.
  - injection H as -> ->. rewrite bytes_eqb_refl. reflexivity.
  - destruct (bytes_eqb k' k) eqn:E.
    + apply bytes_eqb_spec in E. subst. exfalso. apply H2. apply (in_map fst) in H. exact H.
    + auto.
Qed.

Lemma assoc_get_iff k l a : NoDupKeys l -> (assoc_get k l = Some a <-> In (k, a) l).
Proof. intros H. split; [apply assoc_get_in|apply in_assoc_get; exact H]. Qed.

(* two duplicate-free lists with the same members answer every lookup alike *)
Lemma assoc_get_ext l1 l2 k :
  NoDupKeys l1 -> NoDupKeys l2 -> (forall x, In x l1 <-> In x l2) -> assoc_get k l1 = assoc_get k l2.
Proof.
  intros H1 H2 H. destruct (assoc_get k l1) as [a|] eqn:E1.
  - symmetry. apply in_assoc_get; auto. apply H. apply assoc_get_in. exact E1.
  - destruct (assoc_get k l2) as [b|] eqn:E2; [|reflexivity].
    apply assoc_get_in in E2. apply H in E2. apply in_assoc_get in E2; auto. congruence.
Qed.

(* ---------- insert *)
Lemma assoc_get_insert_eq k a l : assoc_get k (assoc_insert k a l) = Some a.
Proof.
  induction l as [|[k' a'] l IH]; cbn.
  - rewrite bytes_eqb_refl. reflexivity.
  - destruct (bytes_eqb k' k) eqn:E; cbn; rewrite E; auto.
Qed.
Lemma assoc_get_insert_neq k k2 a l : k2 <> k -> assoc_get k2 (assoc_insert k a l) = assoc_get k2 l.
Proof.
  intros Hne. induction l as [|[k' a'] l IH]; cbn.
  - apply not_eq_sym in Hne. apply bytes_eqb_false in Hne. rewrite Hne. reflexivity.
  - destruct (bytes_eqb k' k) eqn:E; cbn.
    + apply bytes_eqb_spec in E. subst k'. apply not_eq_sym in Hne. apply bytes_eqb_false in Hne. rewrite Hne. reflexivity.
    + destruct (bytes_eqb k' k2); auto.
Qed.

Lemma keys_insert_in k a l : In k (keys l) -> keys (assoc_insert k a l) = keys l.
Proof.
  induction l as [|[k' a'] l IH]; cbn; [tauto|].
  destruct (bytes_eqb k' k) eqn:E; cbn; [reflexivity|].
  apply bytes_eqb_false in E. intros [H|H]; [contradiction|]. f_equal. auto.
Qed.
Lemma keys_insert_notin k a l : ~ In k (keys l) -> keys (assoc_insert k a l) = keys l ++ [k].
Proof.
  induction l as [|[k' a'] l IH]; cbn; [reflexivity|].
  intros H. destruct (bytes_eqb k' k) eqn:E; cbn.
  - apply bytes_eqb_spec in E. subst. tauto.
  - f_equal. apply IH. tauto.
Qed.

Lemma in_keys_insert k a l k2 : In k2 (keys (assoc_insert k a l)) <-> k2 = k \/ In k2 (keys l).
Proof.
  destruct (in_dec bytes_dec k (keys l)) as [H|H].
  - rewrite keys_insert_in by exact H. split; [auto|]. intros [->|H2]; auto.
  - rewrite keys_insert_notin by exact H. rewrite in_app_iff. cbn. split; [intros [?|[?|[]]]|intros [?|?]]; auto.
Qed.

Lemma nodup_insert k a l : NoDupKeys l -> NoDupKeys (assoc_insert k a l).
Proof.
  unfold NoDupKeys. fold (keys l). fold (keys (assoc_insert k a l)). intros Hnd.
  destruct (in_dec bytes_dec k (keys l)) as [H|H].
  - rewrite keys_insert_in by exact H. exact Hnd.
  - rewrite keys_insert_notin by exact H. eapply Permutation_NoDup; [apply Permutation_cons_append|]. constructor; assumption.
Qed.

(* ---------- remove (filter) *)
Lemma assoc_get_remove_eq k l : assoc_get k (assoc_remove k l) = None.
Proof.
  induction l as [|[k' a'] l IH]; cbn; [reflexivity|].
  destruct (bytes_eqb k' k) eqn:E; cbn; [exact IH|]. rewrite E. exact IH.
Qed.
Lemma assoc_get_remove_neq k k2 l : k2 <> k -> assoc_get k2 (assoc_remove k l) = assoc_get k2 l.
Proof.
  intros Hne. induction l as [|[k' a'] l IH]; cbn; [reflexivity|].
  destruct (bytes_eqb k' k) eqn:E; cbn.
  - apply bytes_eqb_spec in E. subst k'. apply not_eq_sym in Hne. apply bytes_eqb_false in Hne. rewrite Hne. exact IH.
  - destruct (bytes_eqb k' k2); auto.
Qed.
Lemma in_keys_remove k l k2 : In k2 (keys (assoc_remove k l)) <-> k2 <> k /\ In k2 (keys l).
Proof.
  unfold keys, assoc_remove. rewrite !in_map_iff. split.
  - intros ([k3 a] & <- & H). apply filter_In in H as [H1 H2]. cbn in *.
    apply negb_true_iff, bytes_eqb_false in H2. split; [exact H2|]. exists (k3, a). auto.
  - intros (Hne & ([k3 a] & <- & H)). exists (k3, a). split; [reflexivity|]. apply filter_In. split; [exact H|].
    cbn in *. apply negb_true_iff, bytes_eqb_false. exact Hne.
Qed.
Lemma in_remove k l x : In x (assoc_remove k l) <-> In x l /\ fst x <> k.
Proof.
  unfold assoc_remove. rewrite filter_In. rewrite negb_true_iff, bytes_eqb_false. tauto.
Qed.
Lemma nodup_remove k l : NoDupKeys l -> NoDupKeys (assoc_remove k l).
Proof.
  unfold NoDupKeys, assoc_remove. induction l as [|[k' a'] l IH]; cbn; [auto|].
  intros H. inversion H; subst. destruct (bytes_eqb k' k); cbn; [auto|].
  constructor; [|auto]. intros Hin. apply H2. apply in_map_iff in Hin as (x & <- & Hx).
  apply filter_In in Hx as [Hx _]. apply in_map. exact Hx.
Qed.

(* ---------- IndexMap::swap_remove *)
Lemma assoc_swap_remove_perm k l :
  NoDupKeys l -> Permutation (assoc_swap_remove k l) (assoc_remove k l).
Proof.
  unfold assoc_swap_remove, assoc_index. intros Hnd.
  destruct (index_of (fun e => bytes_eqb (fst e) k) l) as [i|] eqn:Ei.
  - apply index_of_split in Ei as (l1 & [k' a] & l2 & -> & <- & Hx & Hall). cbn in Hx.
    apply bytes_eqb_spec in Hx. subst k'.
    rewrite swap_remove_at_perm.
    unfold NoDupKeys in Hnd. rewrite map_app in Hnd. cbn in Hnd. apply NoDup_remove_2 in Hnd.
    unfold assoc_remove. rewrite filter_app. cbn. rewrite bytes_eqb_refl. cbn.
    assert (Hf : forall l0, ~ In k (map fst l0) -> filter (fun e : list N * A => negb (bytes_eqb (fst e) k)) l0 = l0).
    { induction l0 as [|[k3 a3] l0 IH]; cbn; [reflexivity|]. intros H.
      destruct (bytes_eqb k3 k) eqn:E; cbn.
      - apply bytes_eqb_spec in E. subst. tauto.
      - f_equal. apply IH. tauto. }
    rewrite !Hf; [reflexivity| |]; intros H; apply Hnd; apply in_app_iff; auto.
  - assert (Hf : assoc_remove k l = l).
    { unfold assoc_remove. pose proof (index_of_none _ _ Ei) as Hn. clear Ei Hnd.
      induction l as [|x l IH]; cbn; [reflexivity|]. rewrite (Hn x) by (left; reflexivity). cbn. f_equal.
      apply IH. intros y Hy. apply Hn. right. exact Hy. }
    rewrite Hf. reflexivity.
Qed.

Lemma nodup_swap_remove k l : NoDupKeys l -> NoDupKeys (assoc_swap_remove k l).
Proof.
  intros H. unfold NoDupKeys. eapply Permutation_NoDup.
  - apply Permutation_map. symmetry. apply assoc_swap_remove_perm. exact H.
  - apply nodup_remove. exact H.
Qed.
Lemma in_swap_remove k l x : NoDupKeys l -> (In x (assoc_swap_remove k l) <-> In x l /\ fst x <> k).
Proof.
  intros H. rewrite <- in_remove. split; apply Permutation_in; [|symmetry]; apply assoc_swap_remove_perm; exact H.
Qed.
Lemma assoc_get_swap_remove_eq k l : NoDupKeys l -> assoc_get k (assoc_swap_remove k l) = None.
Proof.
  intros H. apply assoc_get_none. intros Hin. apply in_map_iff in Hin as ([k2 a] & Hk & Hin). cbn in Hk. subst k2.
  apply in_swap_remove in Hin; [|exact H]. cbn in Hin. tauto.
Qed.
Lemma assoc_get_swap_remove_neq k k2 l : NoDupKeys l -> k2 <> k -> assoc_get k2 (assoc_swap_remove k l) = assoc_get k2 l.
Proof.
  intros H Hne. rewrite <- (assoc_get_remove_neq k k2 l Hne).
  apply assoc_get_ext; [apply nodup_swap_remove; exact H|apply nodup_remove; exact H|].
  intros x. rewrite in_swap_remove by exact H. rewrite in_remove. tauto.
Qed.
Lemma in_keys_swap_remove k l k2 : NoDupKeys l -> (In k2 (keys (assoc_swap_remove k l)) <-> k2 <> k /\ In k2 (keys l)).
Proof.
  intros H. rewrite <- in_keys_remove. unfold keys.
  split; apply Permutation_in; apply Permutation_map; [|symmetry]; apply assoc_swap_remove_perm; exact H.
Qed.

End Assoc.

(* ------------------------------------------------------------------ prefix algebra *)
Lemma strip_prefix_some pre s suf : strip_prefix pre s = Some suf <-> s = pre ++ suf.
Proof.
  revert s. induction pre as [|p pre IH]; intros s; cbn.
  - split; [intros [= ->]; reflexivity|intros ->; reflexivity].
  - destruct s as [|x s]; [split; discriminate|].
    destruct (N.eqb_spec p x) as [->|Hne].
    + rewrite IH. split; [intros ->; reflexivity|intros [= ->]; reflexivity].
    + split; [discriminate|]. intros [= -> _]. contradiction.
Qed.
Lemma strip_prefix_app pre suf : strip_prefix pre (pre ++ suf) = Some suf.
Proof. apply strip_prefix_some. reflexivity. Qed.
Lemma strip_prefix_self pre : strip_prefix pre pre = Some [].
Proof. apply strip_prefix_some. rewrite app_nil_r. reflexivity. Qed.

(* the boundary test: the suffix is empty or starts with '/' *)
Definition boundary (suf : list N) : bool := is_empty suf || starts_with_slash suf.
Lemma boundary_spec suf : boundary suf = true <-> suf = [] \/ exists r, suf = 47 :: r.
Proof.
  unfold boundary, is_empty, starts_with_slash. destruct suf as [|x r]; cbn.
  - split; auto.
  - destruct (N.eq_dec x 47) as [->|Hne].
    + split; [intros _; right; eauto|reflexivity].
    + assert (match x with 47 => true | _ => false end = false).
      { destruct x as [|p]; [reflexivity|].
        do 6 (destruct p as [p|p|]; try reflexivity). exfalso. apply Hne. reflexivity. }
      rewrite H. split; [discriminate|]. intros [H0|(r0 & [= -> _])]; [discriminate|contradiction].
Qed.

(* rekey old new k = Some k' : the key k is old itself or lies below old ("old/..."), and k' is the same key with
   the prefix old replaced by new;  None : the key is not touched ("/pkg10" is not below "/pkg1") *)
Definition rekey (old new k : list N) : option (list N) :=
  match strip_prefix old k with
  | Some suf => if boundary suf then Some (new ++ suf) else None
  | None => None
  end.

Lemma rekey_some old new k k' :
  rekey old new k = Some k' <-> exists suf, k = old ++ suf /\ boundary suf = true /\ k' = new ++ suf.
Proof.
  unfold rekey. destruct (strip_prefix old k) as [suf|] eqn:E.
  - apply strip_prefix_some in E. subst k. destruct (boundary suf) eqn:Eb.
    + split; [intros [= <-]; eauto|]. intros (suf2 & H & _ & ->). apply app_inv_head in H. subst. reflexivity.
    + split; [discriminate|]. intros (suf2 & H & Hb & _). apply app_inv_head in H. subst. congruence.
  - split; [discriminate|]. intros (suf & -> & _). rewrite strip_prefix_app in E. discriminate.
Qed.

Lemma rekey_inj old new k1 k2 k' : rekey old new k1 = Some k' -> rekey old new k2 = Some k' -> k1 = k2.
Proof.
  intros H1 H2. apply rekey_some in H1 as (s1 & -> & _ & ->). apply rekey_some in H2 as (s2 & -> & _ & H).
  apply app_inv_head in H. subst. reflexivity.
Qed.

Lemma rekey_self old new : rekey old new old = Some new.
Proof. unfold rekey. rewrite strip_prefix_self. cbn. rewrite app_nil_r. reflexivity. Qed.

(* ------------------------------------------------------------------ the re-keying loop of fix_identifiables *)
Section Rekey.
Context {A : Type}.
Variable old new : list N.

Definition rekey_step (idents : list (list N * A)) (key : list N) : list (list N * A) :=
  match strip_prefix old key with
  | Some suffix =>
    if is_empty suffix || starts_with_slash suffix then
      match assoc_get key idents with
      | Some entry => assoc_insert (new ++ suffix) entry (assoc_swap_remove key idents)
      | None => idents
      end
    else idents
  | None => idents
  end.

Lemma rekey_step_eq c k :
  rekey_step c k =
  match rekey old new k, assoc_get k c with
  | Some k', Some e => assoc_insert k' e (assoc_swap_remove k c)
  | _, _ => c
  end.
Proof.
  unfold rekey_step, rekey, boundary. destruct (strip_prefix old k) as [suf|]; [|reflexivity].
  destruct (is_empty suf || starts_with_slash suf); reflexivity.
Qed.

(* KEY LEMMA.  Processing the keys `todo` (distinct, all present) of a duplicate-free map c, when no re-keyed key
   is already present: the result is duplicate-free and contains exactly
     - (k', e) for every processed key k with rekey k = Some k' and c(k) = e, and
     - the entries of c whose key was not processed or is not touched by the re-keying. *)
Lemma rekey_fold todo : forall c,
  NoDupKeys c -> NoDup todo -> incl todo (keys c) ->
  (forall k k', In k todo -> rekey old new k = Some k' -> ~ In k' (keys c)) ->
  let c' := fold_left rekey_step todo c in
  NoDupKeys c' /\
  forall k2 e, assoc_get k2 c' = Some e <->
     (exists k, In k todo /\ rekey old new k = Some k2 /\ assoc_get k c = Some e)
     \/ ((~ In k2 todo \/ rekey old new k2 = None) /\ assoc_get k2 c = Some e).
Proof.
  induction todo as [|k todo IH]; intros c Hnd Htd Hincl Hfresh; cbn [fold_left].
  - split; [exact Hnd|]. intros k2 e. split.
    + intros H. right. split; [left; intros []|exact H].
    + intros [(k & [] & _)|(_ & H)]. exact H.
  - inversion Htd as [|? ? Hk Htd']; subst.
    assert (Hkc : In k (keys c)) by (apply Hincl; left; reflexivity).
    rewrite rekey_step_eq.
    destruct (rekey old new k) as [k'|] eqn:Er.
    2:{ (* untouched key *)
      destruct (IH c Hnd Htd') as (Hnd' & Hget).
      { intros x Hx. apply Hincl. right. exact Hx. }
      { intros k1 k1' H1 H2. eapply Hfresh; eauto. right. exact H1. }
      split; [exact Hnd'|]. intros k2 e. rewrite Hget. split.
      - intros [(k1 & H1 & H2 & H3)|([Hn|Hn] & H)].
        + left. exists k1. split; [right; exact H1|auto].
        + destruct (bytes_dec k2 k) as [->|Hne].
          * right. split; [right; exact Er|exact H].
          * right. split; [left; intros [E|E]; [congruence|contradiction]|exact H].
        + right. split; [right; exact Hn|exact H].
      - intros [(k1 & [<-|H1] & H2 & H3)|([Hn|Hn] & H)].
        + congruence.
        + left. eauto.
        + right. split; [left; intros E; apply Hn; right; exact E|exact H].
        + right. split; [right; exact Hn|exact H]. }
    destruct (assoc_get k c) as [e0|] eqn:Eg.
    2:{ exfalso. apply assoc_get_none in Eg. contradiction. }
    set (c1 := assoc_insert k' e0 (assoc_swap_remove k c)).
    assert (Hk' : ~ In k' (keys c)) by (eapply Hfresh; eauto; left; reflexivity).
    assert (Hnd1 : NoDupKeys c1) by (apply nodup_insert, nodup_swap_remove; exact Hnd).
    assert (Hkeys1 : forall x, In x (keys c1) <-> x = k' \/ (x <> k /\ In x (keys c))).
    { intros x. unfold c1. rewrite in_keys_insert. rewrite in_keys_swap_remove by exact Hnd. tauto. }
    assert (Hget1 : forall x, assoc_get x c1 = if bytes_dec x k' then Some e0 else if bytes_dec x k then None else assoc_get x c).
    { intros x. unfold c1. destruct (bytes_dec x k') as [->|Hne'].
      - apply assoc_get_insert_eq.
      - rewrite assoc_get_insert_neq by exact Hne'. destruct (bytes_dec x k) as [->|Hne].
        + apply assoc_get_swap_remove_eq. exact Hnd.
        + apply assoc_get_swap_remove_neq; assumption. }
    destruct (IH c1 Hnd1 Htd') as (Hnd' & Hget).
    { intros x Hx. apply Hkeys1. right. split; [intros ->; contradiction|]. apply Hincl. right. exact Hx. }
    { intros k1 k1' H1 H2 Hin. apply Hkeys1 in Hin as [->|(_ & Hin)].
      - assert (k1 = k) by (eapply rekey_inj; eauto). subst. contradiction.
      - eapply Hfresh; eauto. right. exact H1. }
    split; [exact Hnd'|]. intros k2 e. rewrite Hget. clear Hget.
    assert (Hk'todo : ~ In k' todo).
    { intros H. apply Hk'. apply Hincl. right. exact H. }
    split.
    + intros [(k1 & H1 & H2 & H3)|(Hn & H)].
      * rewrite Hget1 in H3. destruct (bytes_dec k1 k') as [->|_]; [contradiction|].
        destruct (bytes_dec k1 k) as [->|_]; [contradiction|].
        left. exists k1. split; [right; exact H1|auto].
      * rewrite Hget1 in H. destruct (bytes_dec k2 k') as [->|Hne'].
        -- injection H as <-. left. exists k. split; [left; reflexivity|auto].
        -- destruct (bytes_dec k2 k) as [->|Hne]; [discriminate|].
           right. split; [|exact H]. destruct Hn as [Hn|Hn]; [left; intros [E|E]; [congruence|contradiction]|right; exact Hn].
    + intros [(k1 & [<-|H1] & H2 & H3)|(Hn & H)].
      * assert (k2 = k') by congruence. subst k2. assert (e = e0) by congruence. subst e.
        right. split; [left; exact Hk'todo|]. rewrite Hget1. destruct (bytes_dec k' k'); [reflexivity|contradiction].
      * left. exists k1. split; [exact H1|]. split; [exact H2|]. rewrite Hget1.
        destruct (bytes_dec k1 k') as [->|_].
        { exfalso. apply Hk'. apply assoc_get_some_key in H3. exact H3. }
        destruct (bytes_dec k1 k) as [->|_]; [contradiction|exact H3].
      * assert (Hne' : k2 <> k').
        { intros ->. apply Hk'. apply assoc_get_some_key in H. exact H. }
        assert (Hne : k2 <> k).
        { intros ->. destruct Hn as [Hn|Hn]; [apply Hn; left; reflexivity|congruence]. }
        right. split.
        -- destruct Hn as [Hn|Hn]; [left; intros E; apply Hn; right; exact E|right; exact Hn].
        -- rewrite Hget1. destruct (bytes_dec k2 k'); [contradiction|]. destruct (bytes_dec k2 k); [contradiction|exact H].
Qed.

(* the whole loop over the snapshot of the keys *)
Theorem rekey_all (l : list (list N * A)) :
  NoDupKeys l ->
  (forall k k', In k (keys l) -> rekey old new k = Some k' -> ~ In k' (keys l)) ->
  let l' := fold_left rekey_step (map fst l) l in
  NoDupKeys l' /\
  forall k2 e, assoc_get k2 l' = Some e <->
     (exists k, rekey old new k = Some k2 /\ assoc_get k l = Some e)
     \/ (rekey old new k2 = None /\ assoc_get k2 l = Some e).
Proof.
  intros Hnd Hfresh. destruct (rekey_fold (map fst l) l Hnd Hnd (fun x H => H) Hfresh) as (H1 & H2).
  split; [exact H1|]. intros k2 e. rewrite H2. split.
  - intros [(k & _ & Hr & Hg)|([Hn|Hn] & Hg)]; [left; eauto| |right; auto].
    exfalso. apply Hn. eapply assoc_get_some_key; eauto.
  - intros [(k & Hr & Hg)|(Hr & Hg)]; [left|right; auto].
    exists k. split; [eapply assoc_get_some_key; eauto|auto].
Qed.

(* COLLISION: a single touched key whose new name is the key of another, untouched entry: that entry is
   overwritten (its element is lost from the map) — this is how the index loses an element when a SHORT-NAME is
   edited to the name of a sibling. *)
Lemma rekey_step_collision c k k' e e2 :
  NoDupKeys c -> rekey old new k = Some k' -> assoc_get k c = Some e -> k' <> k -> assoc_get k' c = Some e2 ->
  let c' := rekey_step c k in
  assoc_get k' c' = Some e /\ assoc_get k c' = None /\ forall x, x <> k -> x <> k' -> assoc_get x c' = assoc_get x c.
Proof.
  intros Hnd Hr Hg Hne Hg2. cbn. rewrite rekey_step_eq, Hr, Hg. split; [apply assoc_get_insert_eq|]. split.
  - rewrite assoc_get_insert_neq by (apply not_eq_sym; exact Hne). apply assoc_get_swap_remove_eq. exact Hnd.
  - intros x H1 H2. rewrite assoc_get_insert_neq by exact H2. apply assoc_get_swap_remove_neq; assumption.
Qed.

End Rekey.
