(* Tree/RangeProofsApiReal.v — C07: non-vacuity of the end-to-end theorem on the regenerated real tables and name tables.
   History: new model; file f0 in the latest version; AR-PACKAGES; AR-PACKAGE "n1".  The boolean checker evaluates to true on
   the world after ArxmlFile::serialize, so C07_api_built_reloads applies: the text loads strictly to the projection, silently.
   (Validator of Pattern values: accepts everything; no float occurs, the float functions are dummies.) *)
From AV Require Import Base.Bytes Base.Outcome Hash.HashModel Spec.SpecOps Spec.SpecReal Spec.Versions Tree.Heap Tree.Ops Tree.Script Tree.Inv
  Tree.Serialize Tree.Range Tree.SpecWF Tree.SpecWFReal Tree.Project Tree.ProjectCanon Tree.WorldCheck Tree.RangeProofsReal Tree.OrdHist
  Tree.RangeProofsApi.
From AV Require Import Hash.HashRealElement Hash.HashRealAttr Hash.HashRealEnum.
From AV Require Xml.Parser.
Open Scope list_scope.
Open Scope string_scope.
Open Scope N_scope.

(* the attributes AutosarModel::new gives the root: xsi:schemaLocation (78), xmlns (28), xmlns:xsi (17) *)
Definition ex_root_attrs : list (N * cdata) :=
  [(78, DString (BS "http://autosar.org/schema/r4.0 AUTOSAR_00053.xsd")); (28, DString (BS "http://autosar.org/schema/r4.0"));
   (17, DString (BS "http://www.w3.org/2001/XMLSchema-instance"))].
Definition ex_ops : list op := [OpNewModel; OpCreateFile 0 [102; 48] REAL_LATEST; OpCreateSub 0 5413; OpCreateNamed 1 5250 [110; 49]].
Definition no_ffmt (b : N) : list N := [].
Definition no_fparse (s : list N) : option N := None.

Definition ex_run : res world := run_ops RT tab_element tab_enum ok_check REAL_LATEST ex_root_attrs ex_ops empty_world.
Definition ex_world : world := match ex_run with Val w => w | _ => empty_world end.
Definition ex_ser := f_serialize RT tab_element tab_attr tab_enum ok_check no_ffmt 78 0 ex_world.
Definition ex_text : list N := match ex_ser with Val (OK t, _) => t | _ => [] end.
Definition ex_world' : world := match ex_ser with Val (_, w') => w' | _ => empty_world end.

Lemma ex_run_ok : ex_run = Val ex_world.
Proof. vm_compute. reflexivity. Qed.
Lemma ex_ser_ok : ex_ser = Val (OK ex_text, ex_world').
Proof. vm_compute. reflexivity. Qed.
Lemma ex_check_true :
  world_checkb RT tab_element tab_attr tab_enum ok_check no_ffmt no_fparse REAL_LATEST ex_world' (Some 0) 0 = true.
Proof. vm_compute. reflexivity. Qed.

Theorem api_built_reloads_example :
  single_version REAL_LATEST ex_ops = true /\
  run_ops RT tab_element tab_enum ok_check REAL_LATEST ex_root_attrs ex_ops empty_world = Val ex_world /\
  f_serialize RT tab_element tab_attr tab_enum ok_check no_ffmt 78 0 ex_world = Val (OK ex_text, ex_world') /\
  world_checkb RT tab_element tab_attr tab_enum ok_check no_ffmt no_fparse REAL_LATEST ex_world' (Some 0) 0 = true /\
  exists t st, proj (fuel_of ex_world') ex_world' (Some 0) 0 = Some t /\
    Parser.load true RT tab_element tab_attr tab_enum ok_check no_fparse ex_text = Val (Parser.Ret t st) /\
    Parser.p_warnings st = [] /\ Parser.p_version st = REAL_LATEST.
Proof.
  split; [reflexivity|]. split; [exact ex_run_ok|]. split; [exact ex_ser_ok|]. split; [exact ex_check_true|].
  destruct (api_built_reloads true RT tab_element tab_attr tab_enum ok_check no_ffmt no_fparse 78 REAL_LATEST ex_root_attrs REAL_LATEST
              SpecWF_real (N.le_refl _) ex_ops ex_world eq_refl ex_run_ok 0 ex_text ex_world' ex_ser_ok)
    as (fl & x & Hfl & Hx & _ & K).
  assert (Hroot : m_root x = 0).
  { assert (Ef : f_model fl = 0) by (vm_compute in Hfl; injection Hfl as <-; reflexivity).
    rewrite Ef in Hx. vm_compute in Hx. injection Hx as <-. reflexivity. }
  rewrite Hroot in K. destruct (K ex_check_true) as (t & st & A & B & C & D & _). exists t, st. auto.
Qed.
