(* Tree/IndexProofsMoveOp.v — C04/C05: Element::move_element_here / move_element_here_at inside one model, the moved
   element being identifiable: TreeFacts /\ Inv04 /\ Inv05 are kept.
   A successful move_element_local is: detach, re-parent, unique name, re-key (-> the relocated world of
   IndexProofsMoveTree.v, up to the insertion into the destination which the code performs last), then the referrer
   loop: every iteration is a bulk re-targeting (RefsProofsSetName.bulk_retarget), applied to the world in which the
   insertion has already happened (the loop does not look at the destination node, so the steps commute).
   A failing move either left the world untouched or belongs to the class Known05 (late failure, agent-c11's
   FailProofsMove.e_move_here_fail). *)
From Coq Require Import Lia PeanoNat.
From AV Require Import Base.Bytes Base.Outcome Hash.HashModel Tree.Heap Tree.Ops Tree.Script Tree.IndexProofsW
  Tree.Index Tree.IndexProofsBase Tree.IndexProofsAssoc Tree.IndexProofsFrame Tree.IndexProofsAttach
  Tree.IndexProofsTree Tree.IndexProofsCreate Tree.IndexProofsNamed Tree.IndexProofsEdit Tree.Refs Tree.RefsProofsBase Tree.RefsProofs
  Tree.Follow Tree.FollowProofsPath Tree.FollowProofsLoop Tree.FollowProofsLoopG Tree.FollowProofsRename Tree.FollowProofsTree
  Tree.FollowProofsMove Tree.FollowProofsIter Tree.FollowProofsContainer Tree.IndexProofsRename Tree.IndexProofsRenameOps Tree.IndexProofsSetName Tree.RefsProofsSetName
  Tree.IndexProofsRemove Tree.IndexProofsRemoveOp Tree.IndexProofsMoveTree Tree.Fail Tree.FailProofsMove.
Open Scope string_scope.
Open Scope list_scope.
Open Scope N_scope.

Ltac wk H := lazymatch type of H with
  | wbind ?m ?k ?w = Val (OK ?r, ?w') =>
    let a := fresh "a" in let w1 := fresh "w" in let E := fresh "E" in let e := fresh "e" in let Q := fresh "Q" in
    apply wbind_inv in H as [(a & w1 & E & H) | (e & E & Q)]; [ try ro_subst E | discriminate Q ]
  end.

(* ---------- decimal digits contain no '/' *)
Lemma dec_aux_no_slash f : forall n acc, ~ In 47 acc -> ~ In 47 (dec_aux f n acc).
Proof.
  induction f as [|f IH]; intros n acc Ha; cbn [dec_aux]; [exact Ha|].
  destruct (n <? 10) eqn:E.
  - intros [H|H]; [|contradiction]. lia.
  - apply IH. intros [H|H]; [|contradiction]. revert H. generalize (n mod 10). intros y H. lia.
Qed.
Lemma to_dec_no_slash n : ~ In 47 (to_dec n).
Proof. apply dec_aux_no_slash. intros []. Qed.

Lemma rewrite_head_idem p n : rewrite_head p (rewrite_head p n) = rewrite_head p n.
Proof. reflexivity. Qed.

Section MoveOp.
Variable T : tables.
Variable tab_el tab_en : nametab.
Variable check_fn : N -> list N -> res bool.
Variable LATEST : N.
Hypothesis TK : TablesOK T check_fn.
Notation Inv04 := (Inv04 T check_fn).
Notation SHORTN := (name_short_name T).
Notation J5 := (J5 T check_fn).

(* ---------- the name chosen by make_unique_item_name *)
Lemma unique_loop_name f m pp orig : forall name counter w nm c,
  unique_loop f m pp orig name counter w = Val (OK (nm, c), w) ->
  ~ In 47 orig -> ~ In 47 name -> (counter = 1 -> name = orig) -> 1 <= counter ->
  ~ In 47 nm /\ (c = 1 -> nm = orig) /\ 1 <= c.
Proof.
  induction f as [|f IH]; intros name counter w nm c H Ho Hn H1 Hc; [discriminate H|]. cbn [unique_loop] in H.
  wk H. destruct a as [ex|].
  - apply (IH _ _ _ _ _ H Ho).
    + intros Hin. apply in_app_iff in Hin as [Hin|Hin]; [contradiction|]. cbn in Hin. destruct Hin as [Hin|Hin]; [discriminate|].
      exact (to_dec_no_slash _ Hin).
    + intros E0. lia.
    + lia.
  - apply wret_inv in H as ([= -> ->] & _). auto.
Qed.

(* what a successful make_unique_item_name does *)
Lemma make_unique_shape i m pp w nm w3 :
  make_unique_item_name T i m pp w = Val (OK nm, w3) -> SlashFree T w ->
  exists ni x orig, w_nodes w i = Some ni /\ item_name_n T w ni = Some orig /\ model_at w m = Some x /\
    assoc_get (pp ++ [47] ++ nm) (m_idents x) = None /\ ~ In 47 nm /\
    ((w3 = w /\ nm = orig) \/
     (exists s rest sn, n_content ni = CElem s :: rest /\ w_nodes w s = Some sn /\
        w3 = mkWorld (upd (w_nodes w) s (set_content sn [CData (DString nm)])) (w_next w) (w_files w) (w_models w))).
Proof.
  intros H HS. unfold make_unique_item_name in H.
  wk H. apply get_node_inv in E as (ni & Hni & Q & _). injection Q as ->.
  wk H. apply (item_name_val T) in E as (_ & [= ->]). destruct (item_name_n T w ni) as [orig|] eqn:Eo; [|discriminate H].
  wk H. apply get_model_inv in E as (x & Hx & Q & _). injection Q as ->.
  wk H. destruct a as (name, counter).
  pose proof (unique_loop_free _ _ _ _ _ _ _ _ _ E) as Hfree.
  assert (Hso : ~ In 47 orig) by (eapply (slashfree_names T w HS); eauto).
  destruct (unique_loop_name _ _ _ _ _ _ _ _ _ E Hso Hso (fun _ => eq_refl) ltac:(lia)) as (Hsn & Hc1 & Hc).
  unfold get_element_by_path in Hfree. wk Hfree.
  apply get_model_inv in E0 as (x2 & Hx2 & Q & _). injection Q as ->. assert (x2 = x) by congruence. subst x2.
  apply wret_inv in Hfree as ([= Hfree] & _).
  wk H. apply wret_inv in H as ([= ->] & ->).
  exists ni, x, orig. split; [exact Hni|]. split; [exact Eo|]. split; [exact Hx|]. split; [symmetry; exact Hfree|]. split; [exact Hsn|].
  match goal with E : (if _ then _ else _) w = Val _ |- _ => rename E into E1 end.
  destruct (1 <? counter) eqn:Ec.
  - destruct (n_content ni) as [|[s|d] rest] eqn:Ecn.
    + apply wret_inv in E1 as (_ & ->). apply N.ltb_lt in Ec. left. split; [reflexivity|].
      (* no SHORT-NAME child: the element has no item name *)
      exfalso. unfold item_name_n, short_child in Eo. rewrite Ecn in Eo. destruct (named T (n_type ni)); discriminate.
    + apply modify_node_inv in E1 as (sn & Hs & _ & ->). right. exists s, rest, sn. auto.
    + exfalso. unfold item_name_n, short_child in Eo. rewrite Ecn in Eo. destruct (named T (n_type ni)); discriminate.
  - apply wret_inv in E1 as (_ & ->). left. split; [reflexivity|]. apply Hc1. apply N.ltb_ge in Ec. lia.
Qed.

(* ---------- bulk rewriting of the first content item of reference elements keeps Inv04 *)
Lemma inv04_bulk p' : forall l w wf,
  Inv04 w -> (forall i, In i l -> Good T w i) ->
  map iview (w_models wf) = map iview (w_models w) ->
  (forall i, In i l -> w_nodes wf i = option_map (rewrite_head p') (w_nodes w i)) ->
  (forall i, ~ In i l -> w_nodes wf i = w_nodes w i) -> Inv04 wf.
Proof.
  induction l as [|re rr IH]; intros w wf HI Hg Hm Hin Hout.
  - eapply Inv04_iv; [|exact HI]. split; [|exact Hm]. intros i. rewrite Hout; auto.
  - destruct (Hg re (or_introl eq_refl)) as (nr & Hnr & Hc & Hs & _).
    set (w0 := mkWorld (upd (w_nodes w) re (rewrite_head p' nr)) (w_next w) (w_files w) (w_models w)).
    apply (IH w0 wf).
    + apply edit_good_inv04; assumption.
    + intros i Hi. apply good_after_edit; auto. apply Hg. right. exact Hi.
    + exact Hm.
    + intros i Hi. rewrite Hin by (right; exact Hi). cbn. destruct (N.eq_dec i re) as [->|Hne].
      * rewrite upd_eq, Hnr. reflexivity.
      * rewrite upd_neq by exact Hne. reflexivity.
    + intros i Hi. cbn. destruct (N.eq_dec i re) as [->|Hne].
      * rewrite upd_eq, Hin by (left; reflexivity). rewrite Hnr. reflexivity.
      * rewrite upd_neq by exact Hne. apply Hout. intros [E|E]; [congruence|contradiction].
Qed.

(* ---------- the referrer loop, seen from the world in which the destination already lists the moved element *)
Section Loop.
Variables (m : N) (self : id) (n n1 : node) (src dest : list N).
Variable each : list (list N) -> W unit.
Variable inner : list N -> list id -> W unit.
Hypothesis Hty1 : n_type n1 = n_type n.
Hypothesis Hnoref : isref T (n_type n) = false.
Let kf := fun k : list N => option_map (app dest) (strip_prefix src k).
Hypothesis inner_ok : forall p' rl w w',
  inner p' rl w = Val (OK tt, w') ->
  w_next w' = w_next w /\ w_files w' = w_files w /\ w_models w' = w_models w /\
  (forall i, In i rl -> w_nodes w' i = option_map (rewrite_head p') (w_nodes w i)) /\
  (forall i, ~ In i rl -> w_nodes w' i = w_nodes w i).
Hypothesis each_nil : each [] = wret tt.
Hypothesis each_cons : forall k r,
  each (k :: r) =
  (match kf k with
   | Some k' =>
     do y <- get_model m;
     match assoc_get k (m_origins y) with
     | Some reflist =>
       set_model m (set_origins y (assoc_remove k (m_origins y)));;
       inner k' reflist;;
       modify_model m (fun z => set_origins z (match assoc_get k' (m_origins z) with
                                                | Some l0 => assoc_insert k' (l0 ++ reflist) (m_origins z)
                                                | None => m_origins z ++ [(k', reflist)] end))
     | None => wret tt
     end
   | None => wret tt
   end;; each r)%W.

Definition F (u : world) : world := mkWorld (upd (w_nodes u) self n1) (w_next u) (w_files u) (w_models u).

Lemma loop_virtual : forall todo u u',
  (forall k, In k todo -> src <> dest) ->
  each todo u = Val (OK tt, u') -> w_nodes u self = Some n -> J5 (F u) ->
  w_nodes u' self = Some n /\ J5 (F u').
Proof.
  induction todo as [|k todo IH]; intros u u' Hsd0 H Hself HJ;
    [|assert (Hsd : src <> dest) by (apply (Hsd0 k); left; reflexivity);
      assert (IH' := fun u u' => IH u u' (fun k0 Hk0 => Hsd0 k0 (or_intror Hk0))); clear IH; rename IH' into IH].
  - rewrite each_nil in H. apply wret_inv in H as (_ & ->). auto.
  - rewrite each_cons in H. apply wbind_inv in H as [(a & u1 & E & H)|(e & _ & [=])]. destruct a.
    destruct (model_at u m) as [xc|] eqn:Hxc.
    2:{ (* no such model: the body does nothing or fails *)
        destruct (kf k) as [k'|]; [|apply wret_inv in E as (_ & ->); eapply IH; eauto].
        apply wbind_inv in E as [(y & u0 & E0 & _)|(e & _ & [=])]. apply get_model_inv in E0 as (y0 & Hy0 & _). unfold model_at in Hxc. congruence. }
    pose proof (body_sem_g m kf inner inner_ok k u u1 xc _ eq_refl Hxc E) as HB. clear E.
    destruct (kf k) as [k'|] eqn:Ek; [|subst u1; eapply IH; eauto].
    destruct (assoc_get k (m_origins xc)) as [l|] eqn:El; [|subst u1; eapply IH; eauto].
    destruct HB as (B1 & B2 & B3 & B4 & B5).
    assert (Hkk : k <> k').
    { unfold kf in Ek. destruct (strip_prefix src k) as [suf|] eqn:Es; [|discriminate]. apply strip_prefix_some in Es. injection Ek as <-. subst k.
      intros E. apply app_inv_tail in E. contradiction. }
    pose proof HJ as (HFu & HI4u & HI5u).
    assert (HxF : model_at (F u) m = Some xc) by exact Hxc.
    (* the destination is no member of the list *)
    assert (Hself_l : ~ In self l).
    { intros Hin. destruct (i5_exact _ _ HI5u m xc HxF k) as (_ & Hiff). unfold origins_of in Hiff. rewrite El in Hiff.
      apply Hiff in Hin as (_ & Ht). unfold ref_text in Ht. cbn in Ht. rewrite upd_eq, Hty1, Hnoref in Ht. discriminate. }
    assert (Hgood : forall i, In i l -> Good T (F u) i).
    { intros i Hi. eapply (good_of_inv05 T check_fn TK (F u) m HI4u HI5u xc k l i HxF); [apply assoc_get_in; exact El|exact Hi]. }
    assert (Hin' : forall i, In i l -> w_nodes (F u1) i = option_map (rewrite_head k') (w_nodes (F u) i)).
    { intros i Hi. cbn. assert (i <> self) by (intros ->; contradiction). rewrite !upd_neq by assumption. apply B4. exact Hi. }
    assert (Hout' : forall i, ~ In i l -> w_nodes (F u1) i = w_nodes (F u) i).
    { intros i Hi. cbn. destruct (N.eq_dec i self) as [->|Hne]; [rewrite !upd_eq; reflexivity|]. rewrite !upd_neq by exact Hne. apply B5. exact Hi. }
    assert (HJ1 : J5 (F u1)).
    { eapply (bulk_retarget T check_fn TK (F u) (F u1) m xc k k' l); eauto.
      eapply (inv04_bulk k' l (F u) (F u1)); eauto.
      cbn [F w_models]. rewrite B3. eapply iview_list_set; [exact Hxc|reflexivity]. }
    apply (IH u1 u' H); [|exact HJ1]. rewrite B5; [exact Hself|exact Hself_l].
Qed.
End Loop.

(* ---------- move_element_local, the moved element identifiable, successful *)
Lemma chars_single nd d : chars_content (n_content nd) -> cdata_of T nd = Some d -> n_content nd = [CData d].
Proof.
  intros [Hc|(d0 & Hc)] Hcd; unfold cdata_of, character_data in Hcd; rewrite Hc in Hcd; [discriminate|].
  destruct (content_mode T (n_type nd)) as [mode| |]; cbn in Hcd; try discriminate.
  destruct ((mode =? MCharacters) || (mode =? MMixed)); [|discriminate]. congruence.
Qed.
Lemma set_content_same nd l : n_content nd = l -> set_content nd l = nd.
Proof. intros <-. destruct nd; reflexivity. Qed.

Theorem move_local_j5 self mv pos m version w w' r :
  J5 w ->
  move_element_local T check_fn self mv pos m version w = Val (OK r, w') ->
  MReach T w m mv -> MReach T w m self -> identifiable T w mv = true -> self <> mv ->
  (forall n, w_nodes w self = Some n -> content_mode T (n_type n) <> Val MCharacters) ->
  (* K04-front at the destination / at the source; the moved element is no SHORT-NAME element *)
  (N.to_nat pos = O -> identifiable T w self = false) ->
  (forall mn sp, w_nodes w mv = Some mn -> n_parent mn = PElem sp -> remove_front T w sp (N.eqb mv) = false) ->
  is_short_node T w mv = false ->
  (forall mn, w_nodes w mv = Some mn -> n_parent mn <> PElem self) ->
  J5 w'.
Proof.
  intros (HT & H4 & H5) H HRmv HRself Hid Hsm Hselfmode Hfd Hfs Hnshort Hnotchild. unfold move_element_local in H.
  wk H. apply get_node_inv in E as (n & Hn & Q & _). injection Q as ->.
  wk H. apply wget_inv in E as ([= ->] & _).
  wk H. destruct a; [discriminate H|]. rename E into Eanc.
  wk H. apply get_node_inv in E as (mn & Hmn & Q & _). injection Q as ->.
  wk H. destruct a as [sp|]; [|discriminate H]. rename E into Epar.
  wk H. wk H. wk H. destruct a1; [discriminate H|].
  wk H. wk H.
  match goal with E : dfs_ids _ mv w = Val (OK ?x, w) |- _ => rename E into Edfs; rename x into ids end.
  match goal with E : named_paths T ids w = Val (OK ?x, w) |- _ => rename E into Enp; rename x into orig end.
  match goal with E : path_unchecked T mn w = Val (OK ?x, w) |- _ => rename E into Esrc; rename x into src end.
  match goal with E : path_unchecked T n w = Val (OK ?x, w) |- _ => rename E into Edst; rename x into dpre end.
  (* facts about the world before the move *)
  destruct (path_unchecked_spec T w m mv mn HT Hmn HRmv) as (_ & Hps). destruct (Hps _ _ Esrc) as (_ & (src0 & [= <-] & Hsp)).
  destruct (path_unchecked_spec T w m self n HT Hn HRself) as (_ & Hpd). destruct (Hpd _ _ Edst) as (_ & (dp0 & [= <-] & Hdp)).
  assert (Hpar : n_parent mn = PElem sp).
  { unfold parent_of in Epar. destruct (n_parent mn); try discriminate Epar. apply wret_inv in Epar as ([= ->] & _). reflexivity. }
  assert (Hmsp : mv <> sp) by (intros <-; exact (no_self_parent w mv mn HT Hmn Hpar)).
  assert (Hidn : identifiable_n T w mn = true) by (unfold identifiable in Hid; rewrite Hmn in Hid; exact Hid).
  pose proof Hidn as Hidn0. unfold identifiable_n in Hidn0. apply andb_true_iff in Hidn0 as (Hnamed & Hsc).
  unfold short_child in Hsc. destruct (n_content mn) as [|[s|d0] rest0] eqn:Ecmn; try discriminate Hsc.
  destruct (w_nodes w s) as [sn|] eqn:Hsn; [|discriminate Hsc].
  destruct (n_name sn =? SHORTN) eqn:Esn; [|discriminate Hsc]. apply N.eqb_eq in Esn. clear Hsc.
  assert (Hself_out : ~ reach T w mv self).
  { intros Hr. assert (false = true); [|discriminate]. eapply (ancestor_is_sound T w mv HT _ self n); eauto. }
  assert (Hchild_sp : child_of w sp mv) by (eapply tf_down; eauto).
  assert (Hids_D : forall j, In j ids <-> reach T w mv j).
  { intros j. split; [intros Hj; apply (creach_reach T); eapply dfs_sound; eauto|intros Hj; eapply dfs_covers; [apply (reach_creach T); exact Hj|exact Edfs]]. }
  (* detach *)
  wk H. rename E into Edet. unfold detach_from in Edet. wk Edet.
  apply get_node_inv in E as (pn & Hpn & Q & _). injection Q as ->.
  destruct (index_of (citem_is mv) (n_content pn)) as [kpos|] eqn:Eidx; [|discriminate Edet].
  apply set_node_inv in Edet as (_ & ->).
  (* re-parent *)
  wk H. apply modify_node_inv in E as (n1 & Hn1 & _ & ->). cbn [w_nodes] in Hn1. rewrite upd_neq in Hn1 by exact Hmsp.
  assert (n1 = mn) by congruence. subst n1. clear Hn1.
  wk H. apply get_node_inv in E as (mn2 & Hmn2 & Q & _). injection Q as ->.
  cbn [w_nodes] in Hmn2. rewrite upd_eq in Hmn2. injection Hmn2 as <-.
  match type of H with wbind _ _ ?ww = _ => set (w2 := ww) in * end.
  assert (Hw2names : forall i, option_map n_name (w_nodes w2 i) = option_map n_name (w_nodes w i)).
  { intros i. unfold w2. cbn [w_nodes]. unfold upd.
    destruct (i =? mv) eqn:Ei1; [apply N.eqb_eq in Ei1; subst i; rewrite Hmn; reflexivity|].
    destruct (i =? sp) eqn:Ei2; [apply N.eqb_eq in Ei2; subst i; rewrite Hpn; reflexivity|reflexivity]. }
  (* the moved element is still identifiable *)
  wk H. apply (is_identifiable_val T) in E as (_ & [= ->]).
  rewrite (identifiable_n_same T w w2 mn (set_parent mn (PElem self)) Hw2names eq_refl eq_refl), Hidn in H.
  (* the unique name *)
  wk H. wk E. apply wret_inv in E as ([= ->] & ->).
  match goal with E : make_unique_item_name _ _ _ _ _ = Val (OK ?x, _) |- _ => rename E into Emu; rename x into nm end.
  assert (Hs_mv : s <> mv).
  { intros E. eapply (not_below_self T w mv s []); eauto; [exists mn; rewrite Ecmn; split; [exact Hmn|left; reflexivity]|rewrite E; constructor]. }
  assert (Hs_sp : s <> sp).
  { intros E. eapply (not_below_self T w sp mv); [exact HT|exact Hchild_sp|]. rewrite <- E.
    eapply dp_step with (q := []); [constructor|exists mn; rewrite Ecmn; split; [exact Hmn|left; reflexivity]]. }
  assert (HS2 : SlashFree T w2).
  { intros i ni t Hi Hnm Hcd. unfold w2 in Hi. cbn [w_nodes] in Hi. destruct (N.eq_dec i mv) as [->|H1].
    - rewrite upd_eq in Hi. injection Hi as <-. eapply (i4_slash _ _ _ H4 mv mn); eauto.
    - rewrite upd_neq in Hi by exact H1. destruct (N.eq_dec i sp) as [->|H2].
      + rewrite upd_eq in Hi. injection Hi as <-. cbn in Hnm. exfalso.
        destruct (i4_short _ _ _ H4 _ _ Hpn Hnm) as (Hm & _). pose proof (chars_content_elems _ (i4_leaf _ _ _ H4 _ _ Hpn Hm)) as He.
        pose proof (index_of_citem _ _ _ Eidx) as Hi. apply in_elem_ids in Hi. rewrite He in Hi. destruct Hi.
      + rewrite upd_neq in Hi by exact H2. eapply (i4_slash _ _ _ H4 i ni); eauto. }
  destruct (make_unique_shape _ _ _ _ _ _ Emu HS2) as (ni & xm & orig0 & Hni & Horig & Hxm2 & Hfree & Hnmsf & Hshape).
  assert (ni = set_parent mn (PElem self)) by (unfold w2 in Hni; cbn [w_nodes] in Hni; rewrite upd_eq in Hni; congruence).
  subst ni. assert (Hxm : model_at w m = Some xm) by exact Hxm2.
  set (dest := dpre ++ [47] ++ nm) in *.
  set (sn1 := set_content sn [CData (DString nm)]).
  (* the node of s after the naming step *)
  assert (Hw1s : w_nodes w1 s = Some sn1 /\ (forall j, j <> s -> w_nodes w1 j = w_nodes w2 j) /\
                 w_models w1 = w_models w /\ w_next w1 = w_next w /\ w_files w1 = w_files w).
  { assert (Hs2 : w_nodes w2 s = Some sn).
    { unfold w2. cbn [w_nodes]. rewrite !upd_neq by assumption. exact Hsn. }
    destruct Hshape as [(-> & ->)|(s0 & rest1 & sn0 & Hc0 & Hs0 & ->)].
    - split; [|repeat split; auto]. rewrite Hs2. f_equal. unfold sn1. symmetry. apply set_content_same.
      assert (Hcd : cdata_of T sn = Some (DString orig0)).
      { unfold item_name_n in Horig. change (n_type (set_parent mn (PElem self))) with (n_type mn) in Horig. rewrite Hnamed in Horig.
        unfold short_child in Horig. cbn [set_parent n_content] in Horig. rewrite Ecmn, Hs2, Esn, N.eqb_refl in Horig.
        destruct (cdata_of T sn) as [[| x | |]|]; try discriminate. congruence. }
      apply chars_single; [|exact Hcd]. destruct (i4_short _ _ _ H4 _ _ Hsn Esn) as (Hm & _). eapply (i4_leaf _ _ _ H4); eauto.
    - cbn [set_parent n_content] in Hc0. rewrite Ecmn in Hc0. injection Hc0 as <- <-. rewrite Hs2 in Hs0. injection Hs0 as <-.
      cbn [w_nodes w_models w_next w_files]. split; [apply upd_eq|]. split; [intros j Hj; apply upd_neq; exact Hj|auto]. }
  destruct Hw1s as (Hw1s & Hw1o & M1 & M2 & M3). clear Hshape Emu.
  (* re-keying of the index *)
  wk H. unfold fix_identifiables in E. apply modify_model_inv in E as (xm1 & Hxm1 & _ & ->).
  rewrite M1 in Hxm1. assert (xm1 = xm) by (unfold model_at in Hxm; congruence). subst xm1.
  pose proof (slashfree_names T w (i4_slash _ _ _ H4)) as HNS.
  assert (Hfresh : forall k k', In k (keys (m_idents xm)) -> rekey src dest k = Some k' -> ~ In k' (keys (m_idents xm))).
  { eapply rekey_fresh; eauto.
    - exact (i4_exact _ _ _ H4 m).
    - unfold dest. intros Enil. apply app_eq_nil in Enil as (_ & Enil). discriminate Enil. }
  destruct (rekey_all src dest (m_idents xm) (i4_nodup _ _ _ H4 m xm Hxm) Hfresh) as (Hids_nd & Hget).
  (* the referrer loop *)
  wk H. rename E into Eloop.
  (* insertion into the destination *)
  wk H. rename E into Eins. apply wret_inv in H as (_ & <-).
  unfold content_insert in Eins. wk Eins. apply get_node_inv in E as (n5 & Hn5 & Q & _). injection Q as ->.
  destruct (N.of_nat (List.length (n_content n5)) <? pos) eqn:Elen; [discriminate Eins|].
  apply set_node_inv in Eins as (_ & ->).
  assert (Hself_sp : self <> sp) by (intros E; subst sp; exact (Hnotchild mn Hmn Hpar)).
  assert (Hs_self : s <> self).
  { intros E. apply Hself_out. rewrite <- E. eapply reach_step; [apply reach_refl|]. exists mn. rewrite Ecmn. split; [exact Hmn|left; reflexivity]. }
  match type of Eloop with ?each _ ?ww = Val (_, ?w5) => set (w4 := ww) in *; rename w5 into wl end.
  assert (Hnode4 : forall j, w_nodes w4 j =
     if j =? s then Some sn1 else if j =? mv then Some (set_parent mn (PElem self))
     else if j =? sp then Some (set_content pn (remove_at (n_content pn) kpos)) else w_nodes w j).
  { intros j. unfold w4. cbn [w_nodes]. destruct (j =? s) eqn:Ej1; [apply N.eqb_eq in Ej1; subst j; exact Hw1s|]. apply N.eqb_neq in Ej1.
    rewrite (Hw1o j Ej1). unfold w2. cbn [w_nodes]. destruct (j =? mv) eqn:Ej2; [apply N.eqb_eq in Ej2; subst j; apply upd_eq|]. apply N.eqb_neq in Ej2.
    rewrite upd_neq by exact Ej2. destruct (j =? sp) eqn:Ej3; [apply N.eqb_eq in Ej3; subst j; apply upd_eq|]. apply N.eqb_neq in Ej3.
    apply upd_neq. exact Ej3. }
  assert (Hself4 : w_nodes w4 self = Some n).
  { rewrite Hnode4. apply not_eq_sym, N.eqb_neq in Hs_self. apply N.eqb_neq in Hsm. apply N.eqb_neq in Hself_sp. rewrite Hs_self, Hsm, Hself_sp. exact Hn. }
  assert (Hnoref : isref T (n_type n) = false).
  { unfold isref. destruct (is_ref T (n_type n)) as [[|]| |] eqn:Er; try reflexivity. exfalso. apply (Hselfmode n Hn). apply (tk_ref _ _ TK _ Er). }
  assert (Hsd : src <> dest).
  { intros E. assert (Hk : assoc_get src (m_idents xm) = Some mv).
    { apply (i4_exact _ _ _ H4 m xm Hxm). split; [exact HRmv|]. split; [exact Hid|exact Hsp]. }
    rewrite E in Hk. congruence. }
  assert (Hmvns : n_name mn <> SHORTN).
  { unfold is_short_node in Hnshort. rewrite Hmn in Hnshort. apply N.eqb_neq. exact Hnshort. }
  set (inner := fun (p' : list N) => fix upd_refs (rl : list id) : W unit :=
         match rl with
         | [] => wret tt
         | re :: rr => (raw_set_character_data T check_fn re (DString p') version;; upd_refs rr)%W
         end).
  match type of Eloop with _ = Val (OK ?u, _) => destruct u end.
  (* one pass: the destination lists the moved element at position p *)
  assert (Hpass : forall p, (p <= List.length (n_content n))%nat -> (p = O -> identifiable T w self = false) ->
            w_nodes wl self = Some n /\ J5 (F self (set_content n (insert_at (n_content n) p (CElem mv))) wl)).
  { intros p Hp Hp0.
    match type of Eloop with ?each _ _ = _ =>
      eapply (loop_virtual m self n (set_content n (insert_at (n_content n) p (CElem mv))) src dest each inner) with (u := w4)
    end.
    - reflexivity.
    - exact Hnoref.
    - intros p' rl wa wb Hi. exact (inner_sem_move T check_fn (inner p') p' version eq_refl (fun _ _ => eq_refl) rl wa wb Hi).
    - reflexivity.
    - intros k rr. destruct (strip_prefix src k); reflexivity.
    - intros k0 _. exact Hsd.
    - exact Eloop.
    - exact Hself4.
    - eapply (reloc_j5 T check_fn TK w _ mv sp self s mn pn n sn rest0 kpos p m xm nm src dpre _ ids); eauto.
      + intros j. unfold F. cbn [w_nodes]. destruct (j =? s) eqn:Ej1.
        { apply N.eqb_eq in Ej1. subst j. rewrite upd_neq by exact Hs_self. rewrite Hnode4, N.eqb_refl. reflexivity. }
        destruct (j =? mv) eqn:Ej2.
        { apply N.eqb_eq in Ej2. subst j. rewrite upd_neq by (apply not_eq_sym; exact Hsm). rewrite Hnode4, Ej1, N.eqb_refl. reflexivity. }
        destruct (j =? sp) eqn:Ej3.
        { apply N.eqb_eq in Ej3. subst j. rewrite upd_neq by (apply not_eq_sym; exact Hself_sp). rewrite Hnode4, Ej1, Ej2, N.eqb_refl. reflexivity. }
        destruct (j =? self) eqn:Ej4.
        { apply N.eqb_eq in Ej4. subst j. apply upd_eq. }
        apply N.eqb_neq in Ej4. rewrite upd_neq by exact Ej4. rewrite Hnode4, Ej1, Ej2, Ej3. reflexivity.
      + unfold F, w4. cbn [w_models]. rewrite M1. reflexivity.
      + intros Hnm Hk c2 rest c2n Hc Hc2. eapply (remove_front_false T w sp pn mv kpos (N.eqb mv)); eauto. apply N.eqb_refl. }
  destruct (Hpass (List.length (n_content n)) (le_n _)) as (Hn5' & _).
  { intros E0. unfold identifiable. rewrite Hn. unfold identifiable_n, short_child. destruct (n_content n); [apply andb_false_r|discriminate]. }
  assert (n5 = n) by congruence. subst n5.
  apply N.ltb_ge in Elen.
  destruct (Hpass (N.to_nat pos)) as (_ & HJ); [lia|exact Hfd|]. exact HJ.
Qed.

(* ---------- move_element_local, the moved element NOT identifiable (a container), successful, no path collision *)
Theorem move_local_container_j5 self mv pos m version w w' r :
  J5 w ->
  move_element_local T check_fn self mv pos m version w = Val (OK r, w') ->
  MReach T w m mv -> MReach T w m self -> identifiable T w mv = false -> self <> mv ->
  (forall n, w_nodes w self = Some n -> content_mode T (n_type n) <> Val MCharacters) ->
  (N.to_nat pos = O -> identifiable T w self = false) ->
  (forall mn sp, w_nodes w mv = Some mn -> n_parent mn = PElem sp -> remove_front T w sp (N.eqb mv) = false) ->
  is_short_node T w mv = false ->
  (forall mn, w_nodes w mv = Some mn -> n_parent mn <> PElem self) ->
  collision06 T w self mv = false -> model_of mv w = Val (OK m, w) ->
  J5 w'.
Proof.
  intros (HT & H4 & H5) H HRmv HRself Hid Hsm Hselfmode Hfd Hfs Hnshort Hnotchild Hcol Hmodmv. unfold move_element_local in H.
  wk H. apply get_node_inv in E as (n & Hn & Q & _). injection Q as ->.
  wk H. apply wget_inv in E as ([= ->] & _).
  wk H. destruct a; [discriminate H|]. rename E into Eanc.
  wk H. apply get_node_inv in E as (mn & Hmn & Q & _). injection Q as ->.
  wk H. destruct a as [sp|]; [|discriminate H]. rename E into Epar.
  wk H. wk H. wk H. destruct a1; [discriminate H|].
  wk H. wk H.
  match goal with E : dfs_ids _ mv w = Val (OK ?x, w) |- _ => rename E into Edfs; rename x into ids end.
  match goal with E : named_paths T ids w = Val (OK ?x, w) |- _ => rename E into Enp; rename x into orig end.
  match goal with E : path_unchecked T mn w = Val (OK ?x, w) |- _ => rename E into Esrc; rename x into src end.
  match goal with E : path_unchecked T n w = Val (OK ?x, w) |- _ => rename E into Edst; rename x into dest end.
  destruct (path_unchecked_spec T w m mv mn HT Hmn HRmv) as (_ & Hps). destruct (Hps _ _ Esrc) as (_ & (src0 & [= <-] & Hsp)).
  destruct (path_unchecked_spec T w m self n HT Hn HRself) as (_ & Hpd). destruct (Hpd _ _ Edst) as (_ & (dp0 & [= <-] & Hdp)).
  assert (Hnc : NoCollision T w m mv src dest).
  { unfold collision06 in Hcol. rewrite Hn, Hmn, Esrc, Edst, Hmodmv in Hcol.
    intros xm0 k suf x Hxm0 Hk _ Hks Hne. rewrite Hxm0 in Hcol. apply Bool.negb_false_iff in Hcol.
    eapply nocollision_b_sound; eauto. }
  assert (Hpar : n_parent mn = PElem sp).
  { unfold parent_of in Epar. destruct (n_parent mn); try discriminate Epar. apply wret_inv in Epar as ([= ->] & _). reflexivity. }
  assert (Hmsp : mv <> sp) by (intros <-; exact (no_self_parent w mv mn HT Hmn Hpar)).
  assert (Hidn : identifiable_n T w mn = false) by (unfold identifiable in Hid; rewrite Hmn in Hid; exact Hid).
  pose proof (slashfree_names T w (i4_slash _ _ _ H4)) as HNS.
  assert (Hself_out : ~ reach T w mv self).
  { intros Hr. assert (false = true); [|discriminate]. eapply (ancestor_is_sound T w mv HT _ self n); eauto. }
  assert (Hids_D : forall j, In j ids <-> reach T w mv j).
  { intros j. split; [intros Hj; apply (creach_reach T); eapply dfs_sound; eauto|intros Hj; eapply dfs_covers; [apply (reach_creach T); exact Hj|exact Edfs]]. }
  (* detach *)
  wk H. rename E into Edet. unfold detach_from in Edet. wk Edet.
  apply get_node_inv in E as (pn & Hpn & Q & _). injection Q as ->.
  destruct (index_of (citem_is mv) (n_content pn)) as [kpos|] eqn:Eidx; [|discriminate Edet].
  apply set_node_inv in Edet as (_ & ->).
  (* re-parent *)
  wk H. apply modify_node_inv in E as (n1 & Hn1 & _ & ->). cbn [w_nodes] in Hn1. rewrite upd_neq in Hn1 by exact Hmsp.
  assert (n1 = mn) by congruence. subst n1. clear Hn1.
  wk H. apply get_node_inv in E as (mn2 & Hmn2 & Q & _). injection Q as ->.
  cbn [w_nodes] in Hmn2. rewrite upd_eq in Hmn2. injection Hmn2 as <-.
  match type of H with wbind _ _ ?ww = _ => set (w2 := ww) in * end.
  assert (Hw2names : forall i, option_map n_name (w_nodes w2 i) = option_map n_name (w_nodes w i)).
  { intros i. unfold w2. cbn [w_nodes]. unfold upd.
    destruct (i =? mv) eqn:Ei1; [apply N.eqb_eq in Ei1; subst i; rewrite Hmn; reflexivity|].
    destruct (i =? sp) eqn:Ei2; [apply N.eqb_eq in Ei2; subst i; rewrite Hpn; reflexivity|reflexivity]. }
  wk H. apply (is_identifiable_val T) in E as (_ & [= ->]).
  rewrite (identifiable_n_same T w w2 mn (set_parent mn (PElem self)) Hw2names eq_refl eq_refl), Hidn in H.
  wk H. apply wret_inv in E as ([= ->] & _).
  destruct HRmv as (xm & Hxm & Hrootmv). pose proof (ex_intro _ xm (conj Hxm Hrootmv) : MReach T w m mv) as HRmv.
  assert (Hxm2 : model_at w2 m = Some xm) by exact Hxm.
  (* the snapshot: the paths of the identifiable elements of the subtree *)
  assert (Htodo : forall k, In k (map fst orig) ->
            exists x, assoc_get k (m_idents xm) = Some x /\ reach T w mv x /\ identifiable T w x = true /\ SpecPath T w m x k).
  { intros k Hk. apply in_map_iff in Hk as ((k0 & x) & Hk0 & Hin). cbn in Hk0. subst k0.
    destruct (named_paths_sound T w ids orig Enp k x Hin) as (Hxi & nx & Hnx & Hpx).
    assert (Hrx : reach T w mv x) by (apply Hids_D; exact Hxi).
    assert (HRx : MReach T w m x) by (exists xm; split; [exact Hxm|eapply reach_trans; eauto]).
    destruct (path_of_spec T w m x nx HT Hnx HRx) as (_ & Hps2). destruct (Hps2 _ _ Hpx) as (_ & Hif).
    destruct (identifiable T w x) eqn:Eix; [|discriminate Hif]. destruct Hif as (p0 & [= <-] & Hspx).
    exists x. split; [|auto]. apply (i4_exact _ _ _ H4 m xm Hxm). split; [exact HRx|]. split; assumption. }
  assert (Hintodo : forall k x, assoc_get k (m_idents xm) = Some x -> reach T w mv x -> In k (map fst orig)).
  { intros k x Hgx Hrx. pose proof (proj1 (i4_exact _ _ _ H4 m xm Hxm k x) Hgx) as (HRx & Hidx & Hspx).
    unfold identifiable in Hidx. destruct (w_nodes w x) as [nx|] eqn:Hnx; [|discriminate Hidx].
    assert (Hnmd : is_named T (n_type nx) = Val true).
    { unfold identifiable_n in Hidx. apply andb_true_iff in Hidx as (Hnm & _). unfold named in Hnm.
      destruct (is_named T (n_type nx)) as [[|]| |]; try discriminate Hnm. reflexivity. }
    assert (Hxi : In x ids) by (apply Hids_D; exact Hrx).
    destruct (named_paths_val T w ids orig Enp x nx Hxi Hnx Hnmd) as (r0 & Hr0).
    destruct (path_of_spec T w m x nx HT Hnx HRx) as (_ & Hps2). destruct (Hps2 _ _ Hr0) as (_ & Hif).
    assert (Hidx2 : identifiable T w x = true) by (unfold identifiable; rewrite Hnx; exact Hidx).
    rewrite Hidx2 in Hif. destruct Hif as (p0 & -> & Hsp0).
    destruct (specpath_fun T w m m x _ _ HT Hspx Hsp0) as (_ & <-).
    change k with (fst (k, x)). apply in_map. eapply named_paths_covers; eauto. }
  assert (Hsuf : forall k x, assoc_get k (m_idents xm) = Some x -> reach T w mv x ->
            exists u, k = src ++ u /\ u <> [] /\ boundary u = true).
  { intros k x Hk Hrx. pose proof (proj1 (i4_exact _ _ _ H4 m xm Hxm k x) Hk) as (_ & Hix & Hspx).
    eapply (below_strict_suffix T w m mv x); eauto; [exact (i4_named _ _ _ H4)|]. intros <-. congruence. }
  assert (HA : forall op u, In op (map fst orig) -> op = src ++ u ->
            forall k s, In k (keys (m_idents xm)) -> boundary s = true -> k = (dest ++ u) ++ s -> False).
  { intros op u Hop Hu k s Hk Hb Heq. destruct (Htodo op Hop) as (x & Hgx & Hrx & _ & _).
    destruct (Hsuf op x Hgx Hrx) as (u' & Hu' & Hune & _). rewrite Hu in Hu'. apply app_inv_head in Hu'. subst u'.
    destruct (assoc_get k (m_idents xm)) as [z|] eqn:Ez; [|apply assoc_get_none in Ez; contradiction].
    pose proof (proj1 (i4_exact _ _ _ H4 m xm Hxm k z) Ez) as (_ & _ & Hspz).
    destruct (prefix_is_path T w m z k (dest ++ u) s HNS Hspz Heq Hb) as (y & Hy1 & Hy2 & _).
    { intros E. apply app_eq_nil in E as (_ & E). contradiction. }
    assert (Hky : assoc_get (dest ++ u) (m_idents xm) = Some y).
    { apply (i4_exact _ _ _ H4 m xm Hxm). split; [eapply specpath_mreach; eauto|]. split; assumption. }
    rewrite (Hnc xm op u x Hxm Hgx Hrx Hu Hune) in Hky. discriminate Hky. }
  assert (HB : forall op op2 u2, In op (map fst orig) -> In op2 (map fst orig) -> op2 = src ++ u2 ->
            forall s s', boundary s = true -> boundary s' = true -> op ++ s = (dest ++ u2) ++ s' -> False).
  { intros op op2 u2 Hop Hop2 Hu2 s s' Hb Hb' Heq.
    destruct (Htodo op Hop) as (x & Hgx & Hrx & Hix & Hspx). destruct (Htodo op2 Hop2) as (x2 & Hgx2 & Hrx2 & Hix2 & Hspx2).
    destruct (Hsuf op x Hgx Hrx) as (u & Hu & Hune & Hbu).
    destruct (boundary_prefix_cmp op (dest ++ u2) s s' Hb Hb' Heq) as [(t & Ht & Hbt)|(t & Ht & Hbt)].
    - eapply (HA op2 u2 Hop2 Hu2 op t); eauto. eapply assoc_get_some_key; eauto.
    - assert (Heq2 : dest ++ u2 = op ++ t) by exact Ht.
      destruct (Hsuf op2 x2 Hgx2 Hrx2) as (u2' & Hu2' & _ & Hbu2). rewrite Hu2 in Hu2'. apply app_inv_head in Hu2'. subst u2'.
      destruct (boundary_prefix_cmp dest op u2 t Hbu2 Hbt Heq2) as [(t1 & Ht1 & Hbt1)|(t1 & Ht1 & Hbt1)].
      + assert (Hdne : dest <> []).
        { rewrite Ht1, Hu. intros E. apply app_eq_nil in E as (E & _). apply app_eq_nil in E as (_ & E). contradiction. }
        destruct (self_path_owner T w m self dest HNS Hdp Hdne) as (d & Hd1 & Hd2 & Hd3).
        assert (Hkd : assoc_get dest (m_idents xm) = Some d).
        { apply (i4_exact _ _ _ H4 m xm Hxm). split; [eapply specpath_mreach; eauto|]. split; assumption. }
        assert (Hone : op <> []) by (rewrite Hu; intros E; apply app_eq_nil in E as (_ & E); contradiction).
        assert (Hxd : reach T w x d).
        { eapply (old_form_below T w m xm x op dest d); eauto; [exact (i4_exact _ _ _ H4 m)|]. exists t1. auto. }
        apply Hself_out. exact (reach_trans T w mv x self Hrx (reach_trans T w x d self Hxd Hd3)).
      + destruct t1 as [|c t1'].
        { rewrite app_nil_r in Ht1.
          assert (Hdne : dest <> []) by (rewrite <- Ht1, Hu; intros E; apply app_eq_nil in E as (_ & E); contradiction).
          destruct (self_path_owner T w m self dest HNS Hdp Hdne) as (d & Hd1 & Hd2 & Hd3).
          assert (Hkd : assoc_get dest (m_idents xm) = Some d).
          { apply (i4_exact _ _ _ H4 m xm Hxm). split; [eapply specpath_mreach; eauto|]. split; assumption. }
          rewrite <- Ht1 in Hkd. assert (Ed : d = x) by congruence. rewrite Ed in Hd3.
          apply Hself_out. exact (reach_trans T w mv x self Hrx Hd3). }
        set (t1 := c :: t1') in *.
        assert (Hu2t : u2 = t1 ++ t).
        { rewrite Ht1 in Heq2. rewrite <- app_assoc in Heq2. apply app_inv_head in Heq2. exact Heq2. }
        assert (Hop2eq : op2 = (src ++ t1) ++ t) by (rewrite Hu2, Hu2t, app_assoc; reflexivity).
        destruct (prefix_is_path T w m x2 op2 (src ++ t1) t HNS Hspx2 Hop2eq Hbt) as (y & Hy1 & Hy2 & Hy3).
        { intros E. apply app_eq_nil in E as (_ & E). discriminate E. }
        assert (Hky : assoc_get (src ++ t1) (m_idents xm) = Some y).
        { apply (i4_exact _ _ _ H4 m xm Hxm). split; [eapply specpath_mreach; eauto|]. split; assumption. }
        destruct (reach_comparable T w y mv x2 HT Hy3 Hrx2) as [Hymv|Hmvy].
        * destruct (below_old_form T w m y mv (src ++ t1) src HT Hy1 Hymv Hsp) as (q & Hq & _).
          rewrite <- app_assoc in Hq. rewrite <- (app_nil_r src) in Hq at 1. apply app_inv_head in Hq.
          symmetry in Hq. apply app_eq_nil in Hq as (Hq & _). discriminate Hq.
        * rewrite Ht1 in Hgx. rewrite (Hnc xm (src ++ t1) t1 y Hxm Hky Hmvy eq_refl) in Hgx; [discriminate Hgx|].
          unfold t1. discriminate. }
  assert (Hsrcs : forall op, In op (map fst orig) -> exists u, op = src ++ u).
  { intros op Hop. destruct (Htodo op Hop) as (x & Hgx & Hrx & _). destruct (Hsuf op x Hgx Hrx) as (u & Hu & _). eauto. }
  destruct (rekey_iter src dest (m_idents xm) (map fst orig) (i4_nodup _ _ _ H4 m xm Hxm) Hsrcs HA HB) as (Hids_nd & Hget).
  (* the index in terms of the moved subtree *)
  assert (Hmoved_D : forall k e, moved (map fst orig) k -> assoc_get k (m_idents xm) = Some e -> reach T w mv e).
  { intros k e (op & Hop & Hof) Hk. destruct (Htodo op Hop) as (x & Hgx & Hrx & _ & _).
    eapply reach_trans; [exact Hrx|]. eapply (old_form_below T w m xm x op k e); eauto; [exact (i4_exact _ _ _ H4 m)|].
    destruct (Hsuf op x Hgx Hrx) as (u & -> & Hune & _). intros E. apply app_eq_nil in E as (_ & E). contradiction. }
  assert (HidsD : forall k2 e, assoc_get k2 (fold_left (iter_step src dest) (map fst orig) (m_idents xm)) = Some e <->
     (reach T w mv e /\ exists q, assoc_get (src ++ q) (m_idents xm) = Some e /\ k2 = dest ++ q)
     \/ (~ reach T w mv e /\ assoc_get k2 (m_idents xm) = Some e)).
  { intros k2 e. rewrite Hget. split.
    - intros [(k & Hm & -> & Hk)|(Hnm & Hk)].
      + pose proof (Hmoved_D k e Hm Hk) as Hd. left. split; [exact Hd|]. destruct (Hsuf k e Hk Hd) as (u & -> & _ & _).
        exists u. split; [exact Hk|]. unfold gkey. rewrite strip_prefix_app. reflexivity.
      + right. split; [|exact Hk]. intros Hd. apply Hnm. exists k2. split; [eapply Hintodo; eauto|]. exists []. split; [rewrite app_nil_r; reflexivity|reflexivity].
    - intros [(Hd & q & Hk & ->)|(Hnd & Hk)].
      + left. exists (src ++ q). split; [exists (src ++ q); split; [eapply Hintodo; eauto|exists []; split; [rewrite app_nil_r; reflexivity|reflexivity]]|].
        split; [|exact Hk]. unfold gkey. rewrite strip_prefix_app. reflexivity.
      + right. split; [|exact Hk]. intros Hm. apply Hnd. eapply Hmoved_D; eauto. }
  (* the per-path re-keying *)
  wk H. rename E into Eper. match type of Eper with _ = Val (OK ?u, _) => destruct u end.
  match type of Eper with ?each _ _ = Val (_, ?w3) =>
    destruct (perpath_sem m src dest each eq_refl (fun _ _ => eq_refl) (map fst orig) w2 xm w3 Hxm2 Eper)
      as (P1 & P2 & P3 & P4 & x3 & Hx3 & P5 & P6 & P7 & P8); rename w3 into w4 end.
  (* the referrer loop *)
  wk H. rename E into Eloop. match type of Eloop with _ = Val (OK ?u, ?w5) => destruct u; rename w5 into wl end.
  (* insertion *)
  wk H. rename E into Eins. apply wret_inv in H as (_ & <-).
  unfold content_insert in Eins. wk Eins. apply get_node_inv in E as (n5 & Hn5 & Q & _). injection Q as ->.
  destruct (N.of_nat (List.length (n_content n5)) <? pos) eqn:Elen; [discriminate Eins|].
  apply set_node_inv in Eins as (_ & ->).
  assert (Hself_sp : self <> sp) by (intros E; subst sp; exact (Hnotchild mn Hmn Hpar)).
  assert (Hnode4 : forall j, w_nodes w4 j =
     if j =? mv then Some (set_parent mn (PElem self)) else if j =? sp then Some (set_content pn (remove_at (n_content pn) kpos)) else w_nodes w j).
  { intros j. rewrite P1. unfold w2. cbn [w_nodes]. destruct (j =? mv) eqn:Ej2; [apply N.eqb_eq in Ej2; subst j; apply upd_eq|]. apply N.eqb_neq in Ej2.
    rewrite upd_neq by exact Ej2. destruct (j =? sp) eqn:Ej3; [apply N.eqb_eq in Ej3; subst j; apply upd_eq|]. apply N.eqb_neq in Ej3.
    apply upd_neq. exact Ej3. }
  assert (Hself4 : w_nodes w4 self = Some n).
  { rewrite Hnode4. apply N.eqb_neq in Hsm. apply N.eqb_neq in Hself_sp. rewrite Hsm, Hself_sp. exact Hn. }
  assert (Hnoref : isref T (n_type n) = false).
  { unfold isref. destruct (is_ref T (n_type n)) as [[|]| |] eqn:Er; try reflexivity. exfalso. apply (Hselfmode n Hn). apply (tk_ref _ _ TK _ Er). }
  assert (Hmvns : n_name mn <> SHORTN).
  { unfold is_short_node in Hnshort. rewrite Hmn in Hnshort. apply N.eqb_neq. exact Hnshort. }
  assert (Hmodels4 : w_models w4 = list_set (w_models w) (N.to_nat m) (set_idents xm (fold_left (iter_step src dest) (map fst orig) (m_idents xm)))).
  { (* the only model that changed is m, and only its path index *)
    assert (Hlen : forall l1 l2 : list model, (forall k, nth_opt l1 k = nth_opt l2 k) -> l1 = l2).
    { induction l1 as [|y1 l1 IHl]; intros [|y2 l2] Hk; [reflexivity|specialize (Hk O); discriminate|specialize (Hk O); discriminate|].
      pose proof (Hk O) as H0. cbn in H0. injection H0 as ->. f_equal. apply IHl. intros k. exact (Hk (S k)). }
    apply Hlen. intros k. destruct (Nat.eq_dec k (N.to_nat m)) as [->|Hne].
    - rewrite (list_set_nth_eq _ _ _ _ Hxm). fold (model_at w4 m). rewrite Hx3. f_equal. destruct x3 as [r3 f3 i3 o3]. cbn [m_idents m_origins m_root m_files] in P5, P6, P7, P8. subst r3 f3 i3 o3. destruct xm; reflexivity.
    - rewrite list_set_nth_neq by exact Hne. specialize (P4 (N.of_nat k)). unfold model_at in P4. rewrite Nat2N.id in P4. rewrite P4; [reflexivity|].
      intros E. apply Hne. rewrite <- E. rewrite Nat2N.id. reflexivity. }
  set (inner := fun (p' : list N) => fix upd_refs (rl : list id) : W unit :=
         match rl with
         | [] => wret tt
         | re :: rr => (raw_set_character_data T check_fn re (DString p') version;; upd_refs rr)%W
         end).
  (* the relocated world *)
  assert (HJ0 : forall p, (p <= List.length (n_content n))%nat -> (p = O -> identifiable T w self = false) ->
            J5 (F self (set_content n (insert_at (n_content n) p (CElem mv))) w4)).
  { intros p Hp Hp0.
    eapply (relocc_j5 T check_fn TK w _ mv sp self mn pn n kpos p m xm src dest _ ids); eauto.
    - intros j. unfold F. cbn [w_nodes]. destruct (j =? mv) eqn:Ej2.
      { apply N.eqb_eq in Ej2. subst j. rewrite upd_neq by (apply not_eq_sym; exact Hsm). rewrite Hnode4, N.eqb_refl. reflexivity. }
      destruct (j =? sp) eqn:Ej3.
      { apply N.eqb_eq in Ej3. subst j. rewrite upd_neq by (apply not_eq_sym; exact Hself_sp). rewrite Hnode4, Ej2, N.eqb_refl. reflexivity. }
      destruct (j =? self) eqn:Ej4.
      { apply N.eqb_eq in Ej4. subst j. apply upd_eq. }
      apply N.eqb_neq in Ej4. rewrite upd_neq by exact Ej4. rewrite Hnode4, Ej2, Ej3. reflexivity.
    - intros Hnm Hk c2 rest c2n Hc Hc2. eapply (remove_front_false T w sp pn mv kpos (N.eqb mv)); eauto. apply N.eqb_refl. }
  (* one pass of the referrer loop *)
  assert (Hpass : forall p, (p <= List.length (n_content n))%nat -> (p = O -> identifiable T w self = false) ->
            w_nodes wl self = Some n /\ J5 (F self (set_content n (insert_at (n_content n) p (CElem mv))) wl)).
  { intros p Hp Hp0.
    match type of Eloop with ?each _ _ = _ =>
      eapply (loop_virtual m self n (set_content n (insert_at (n_content n) p (CElem mv))) src dest each inner) with (u := w4)
    end.
    + reflexivity.
    + exact Hnoref.
    + intros p' rl wa wb Hi. exact (inner_sem_move T check_fn (inner p') p' version eq_refl (fun _ _ => eq_refl) rl wa wb Hi).
    + reflexivity.
    + intros k rr. destruct (strip_prefix src k); reflexivity.
    + intros k0 Hk0 E. destruct (Htodo k0 Hk0) as (x & Hgx & Hrx & _). destruct (Hsuf k0 x Hgx Hrx) as (u & Hu & Hune & _).
      pose proof (Hnc xm k0 u x Hxm Hgx Hrx Hu Hune) as Hfree. rewrite <- E, <- Hu in Hfree. congruence.
    + exact Eloop.
    + exact Hself4.
    + apply HJ0; assumption. }
  destruct (Hpass (List.length (n_content n)) (le_n _)) as (Hn5' & _).
  { intros E0. unfold identifiable. rewrite Hn. unfold identifiable_n, short_child. destruct (n_content n); [apply andb_false_r|discriminate]. }
  assert (n5 = n) by congruence. subst n5.
  apply N.ltb_ge in Elen.
  destruct (Hpass (N.to_nat pos)) as (_ & HJ); [lia|exact Hfd|]. exact HJ.
Qed.

(* ---------- re-positioning inside one parent of a type that is not named: the order of the items changes *)
Lemma in_insert_any {A} (l : list A) k x y : In y (insert_at l k x) <-> y = x \/ In y l.
Proof.
  revert k. induction l as [|z l IH]; intros [|k]; cbn.
  - split; [intros [->|[]]|intros [->|[]]]; auto.
  - split; [intros [->|[]]|intros [->|[]]]; auto.
  - split; [intros [->|H]|intros [->|H]]; auto.
  - rewrite IH. split; [intros [->|[->|H]]|intros [->|[->|H]]]; auto.
Qed.
Lemma nodup_elem_ids_insert_any l k c : ~ In c (elem_ids l) -> NoDup (elem_ids l) -> NoDup (elem_ids (insert_at l k (CElem c))).
Proof.
  revert k. induction l as [|z l IH]; intros [|k] Hc Hnd; cbn in *.
  - constructor; [intros []|constructor].
  - constructor; [intros []|constructor].
  - constructor; assumption.
  - destruct z as [y|d]; cbn in *.
    + apply NoDup_cons_iff in Hnd as (Hy & Hnd). constructor.
      * intros Hin. apply in_elem_ids, in_insert_any in Hin. destruct Hin as [[= ->]|Hin]; [apply Hc; left; reflexivity|].
        apply Hy. apply in_elem_ids. exact Hin.
      * apply IH; [intros H; apply Hc; right; exact H|exact Hnd].
    + apply IH; [exact Hc|exact Hnd].
Qed.

Section Permute.
Variables (w : world) (h : id) (n : node) (l' : list citem).
Hypothesis HJ : J5 w.
Hypothesis Hn : w_nodes w h = Some n.
Hypothesis Hnn : named T (n_type n) = false.
Hypothesis Hsame : forall c, In (CElem c) l' <-> In (CElem c) (n_content n).
Hypothesis Hnd : NoDup (elem_ids l').
Hypothesis Hkid : exists c, In (CElem c) (n_content n).
Let n' := set_content n l'.
Let w' := edit_world w h n'.

Lemma pm_other j : j <> h -> w_nodes w' j = w_nodes w j.
Proof. intros Hne. cbn. apply upd_neq. exact Hne. Qed.
Lemma pm_self : w_nodes w' h = Some n'.
Proof. cbn. apply upd_eq. Qed.
Lemma pm_mode : content_mode T (n_type n) <> Val MCharacters.
Proof.
  destruct HJ as (_ & H4 & _). intros Hm. destruct Hkid as (c & Hc).
  pose proof (chars_content_elems _ (i4_leaf _ _ _ H4 _ _ Hn Hm)) as He. apply in_elem_ids in Hc. rewrite He in Hc. destruct Hc.
Qed.
Lemma pm_not_short : n_name n <> SHORTN.
Proof. destruct HJ as (_ & H4 & _). intros E. destruct (i4_short _ _ _ H4 _ _ Hn E) as (Hm & _). exact (pm_mode Hm). Qed.
Lemma pm_not_ref : isref T (n_type n) = false.
Proof.
  unfold isref. destruct (is_ref T (n_type n)) as [[|]| |] eqn:Er; try reflexivity. exfalso. apply pm_mode. apply (tk_ref _ _ TK _ Er).
Qed.
Lemma pm_node j nj' : w_nodes w' j = Some nj' -> exists nj, w_nodes w j = Some nj /\ n_name nj' = n_name nj /\ n_type nj' = n_type nj /\
  n_parent nj' = n_parent nj /\ (j <> h -> nj' = nj) /\ (j = h -> nj' = n').
Proof.
  intros Hj. destruct (N.eq_dec j h) as [->|Hne].
  - rewrite pm_self in Hj. injection Hj as <-. exists n. repeat split; auto. congruence.
  - rewrite (pm_other j Hne) in Hj. exists nj'. repeat split; auto. congruence.
Qed.
Lemma pm_child p c : child_of w' p c <-> child_of w p c.
Proof.
  unfold child_of. destruct (N.eq_dec p h) as [->|Hne].
  - rewrite pm_self, Hn. split; intros (x & [= <-] & Hc); eexists; (split; [reflexivity|]); cbn in *; apply Hsame; exact Hc.
  - rewrite (pm_other p Hne). tauto.
Qed.
Lemma pm_short_child x : short_child T w' x = short_child T w x.
Proof.
  rewrite !short_child_hd. destruct (hd_error (n_content x)) as [[y|d]|]; try reflexivity.
  destruct (N.eq_dec y h) as [->|Hne].
  - rewrite pm_self, Hn. cbn [n' set_content n_name]. pose proof pm_not_short as H. apply N.eqb_neq in H. rewrite H. reflexivity.
  - rewrite (pm_other y Hne). reflexivity.
Qed.
Lemma pm_readings j : seg T w' j = seg T w j /\ identifiable T w' j = identifiable T w j.
Proof.
  unfold seg, identifiable. destruct (N.eq_dec j h) as [->|Hne].
  - rewrite pm_self, Hn. unfold seg_n, item_name_n, identifiable_n. cbn [n' set_content n_type]. rewrite Hnn. auto.
  - rewrite (pm_other j Hne). destruct (w_nodes w j) as [nj|]; [|auto].
    destruct (readings_ext T w w' nj nj eq_refl (pm_short_child nj)) as (_ & H2 & H3). auto.
Qed.
Lemma pm_dpath a i q : dpath T w' a i q <-> dpath T w a i q.
Proof.
  split; intros H; induction H as [|p c q Hp IH Hc]; try constructor.
  - destruct (pm_readings c) as (-> & _). econstructor; [exact IH|]. apply pm_child. exact Hc.
  - destruct (pm_readings c) as (<- & _). econstructor; [exact IH|]. apply pm_child. exact Hc.
Qed.
Lemma pm_mreach m i : MReach T w' m i <-> MReach T w m i.
Proof.
  unfold MReach, reach. change (model_at w' m) with (model_at w m).
  split; intros (x & Hx & (q & Hd)); exists x; (split; [exact Hx|]); exists q; apply pm_dpath; exact Hd.
Qed.
Lemma pm_pathset m p i : PathSet T w' m p i <-> PathSet T w m p i.
Proof.
  unfold PathSet. rewrite pm_mreach. destruct (pm_readings i) as (_ & ->). unfold SpecPath, spath. change (model_at w' m) with (model_at w m).
  split; intros (H1 & H2 & (x & Hx & (q & Hd & ->))); (split; [exact H1|]); (split; [exact H2|]); exists x; (split; [exact Hx|]); exists q;
    (split; [apply pm_dpath; exact Hd|]); destruct (pm_readings (m_root x)) as (E & _); rewrite E; reflexivity.
Qed.
Lemma pm_ref_text j : ref_text T w' j = ref_text T w j.
Proof.
  unfold ref_text. destruct (N.eq_dec j h) as [->|Hne]; [|rewrite (pm_other j Hne); reflexivity].
  rewrite pm_self, Hn. cbn [n' set_content n_type]. rewrite pm_not_ref. reflexivity.
Qed.

Theorem permute_j5 : J5 w'.
Proof.
  destruct HJ as (HF & H4 & H5). pose proof H4 as [I1 I2 I3 IL I4 I5]. split; [|split].
  - (* TreeFacts *)
    constructor.
    + intros p c Hc. apply pm_child in Hc. destruct (tf_up _ HF _ _ Hc) as (cn & Hcn & Hp).
      destruct (N.eq_dec c h) as [->|Hne]; [rewrite Hn in Hcn; injection Hcn as <-; exists n'; split; [apply pm_self|exact Hp]|].
      exists cn. split; [rewrite (pm_other c Hne); exact Hcn|exact Hp].
    + intros p np' Hp. destruct (pm_node p np' Hp) as (np & Hp0 & _ & _ & _ & Hne & Heq). destruct (N.eq_dec p h) as [->|Hph].
      * rewrite (Heq eq_refl). exact Hnd.
      * rewrite (Hne Hph). eapply tf_nodup; eauto.
    + intros c cn' p Hc Hp. destruct (pm_node c cn' Hc) as (cn & Hc0 & _ & _ & Hpar & _). apply pm_child. eapply tf_down; eauto. congruence.
    + intros m x Hx. change (model_at w' m) with (model_at w m) in Hx. destruct (tf_roots _ HF _ _ Hx) as (nr & Hnr & Hp).
      destruct (N.eq_dec (m_root x) h) as [E|Hne]; [rewrite E in *; rewrite Hn in Hnr; injection Hnr as <-; exists n'; split; [apply pm_self|exact Hp]|].
      exists nr. split; [rewrite (pm_other _ Hne); exact Hnr|exact Hp].
    + intros i ni' m Hi Hp. destruct (pm_node i ni' Hi) as (ni & Hi0 & _ & _ & Hpar & _). apply (tf_pmodel _ HF i ni m Hi0). congruence.
    + intros i ni' Hi. destruct (pm_node i ni' Hi) as (ni & Hi0 & _). destruct (tf_depth _ HF _ _ Hi0) as (k & Hk). exists k.
      clear Hi ni' Hi0 ni. induction Hk as [i ni Hi Ht|i ni p k Hi Hp Hd IH].
      * destruct (N.eq_dec i h) as [->|Hne]; [rewrite Hn in Hi; injection Hi as <-; eapply pd_top; [apply pm_self|exact Ht]|].
        eapply pd_top; [rewrite (pm_other i Hne); exact Hi|exact Ht].
      * destruct (N.eq_dec i h) as [->|Hne]; [rewrite Hn in Hi; injection Hi as <-; eapply pd_step; [apply pm_self|exact Hp|exact IH]|].
        eapply pd_step; [rewrite (pm_other i Hne); exact Hi|exact Hp|exact IH].
    + intros i ni' Hi. destruct (pm_node i ni' Hi) as (ni & Hi0 & _). change (w_next w') with (w_next w). eapply tf_alloc; eauto.
  - (* Inv04 *)
    constructor.
    + intros j nj' Hj Hs. destruct (pm_node j nj' Hj) as (nj & Hj0 & Hnm & Hty & _). rewrite Hty. eapply I1; eauto. congruence.
    + intros j nj' t Hj Hs Hcd. destruct (pm_node j nj' Hj) as (nj & Hj0 & Hnm & Hty & _ & Hne & Heq). destruct (N.eq_dec j h) as [->|Hjh].
      * exfalso. rewrite Hn in Hj0. injection Hj0 as <-. apply pm_not_short. rewrite <- Hnm. exact Hs.
      * rewrite (Hne Hjh) in *. eapply I2; eauto.
    + intros j nj' Hj Hid. destruct (pm_node j nj' Hj) as (nj & Hj0 & _ & _ & _ & Hne & Heq). destruct (N.eq_dec j h) as [->|Hjh].
      * rewrite (Heq eq_refl) in Hid. unfold identifiable_n in Hid. cbn [n' set_content n_type] in Hid. rewrite Hnn in Hid. discriminate.
      * rewrite (Hne Hjh) in *. destruct (readings_ext T w w' nj nj eq_refl (pm_short_child nj)) as (H1 & H2 & _). rewrite H1.
        apply (I3 j nj Hj0). rewrite <- H2. exact Hid.
    + intros j nj' Hj Hm. destruct (pm_node j nj' Hj) as (nj & Hj0 & _ & Hty & _ & Hne & Heq). destruct (N.eq_dec j h) as [->|Hjh].
      * exfalso. rewrite Hn in Hj0. injection Hj0 as <-. apply pm_mode. congruence.
      * rewrite (Hne Hjh) in *. eapply IL; eauto.
    + intros m x Hx p i. rewrite pm_pathset. apply (I4 m x Hx).
    + intros m x Hx. apply (I5 m x Hx).
  - (* Inv05 *)
    eapply inv05_transfer; [| |exact H5].
    + intros m p r. unfold RefSet. rewrite pm_mreach, pm_ref_text. tauto.
    + intros m. reflexivity.
Qed.
End Permute.

(* ---------- the public calls *)
Variable root_attrs : list (N * cdata).
Notation Known05 := (Known05 T tab_el tab_en check_fn LATEST root_attrs).

Lemma pref_eqb_eq a b : pref_eqb a b = true -> a = b.
Proof. destruct a, b; cbn; try discriminate; try reflexivity; intros H; apply N.eqb_eq in H; congruence. Qed.
Lemma plink_eqb_true w w' i : plink_eqb w w' i = true -> parent_link w' i = parent_link w i.
Proof.
  unfold plink_eqb, parent_link. destruct (option_map n_parent (w_nodes w i)) as [a|], (option_map n_parent (w_nodes w' i)) as [b|]; try discriminate; [|reflexivity].
  intros H. apply pref_eqb_eq in H. congruence.
Qed.

Lemma nodup_remove_at sub l cur : NoDup (elem_ids l) -> index_of (citem_is sub) l = Some cur ->
  NoDup (elem_ids (remove_at l cur)) /\ ~ In sub (elem_ids (remove_at l cur)).
Proof.
  intros Hnd Hidx. pose proof (in_remove_at_citem sub l cur sub Hnd Hidx) as Hin.
  apply index_of_split in Hidx as (l1 & y & l2 & -> & <- & Hy & _). rewrite remove_at_split in *.
  destruct y as [c0|d0]; cbn in Hy; [|discriminate]. apply N.eqb_eq in Hy. subst c0.
  unfold elem_ids in *. rewrite flat_map_app in *. cbn [flat_map] in Hnd. cbn in Hnd. split.
  - apply NoDup_remove_1 in Hnd. exact Hnd.
  - apply NoDup_remove_2 in Hnd. exact Hnd.
Qed.

Lemma src_front_false w mv mn sp : src_front T w mv = false -> w_nodes w mv = Some mn -> n_parent mn = PElem sp ->
  remove_front T w sp (N.eqb mv) = false.
Proof. intros H Hmn Hp. unfold src_front in H. rewrite Hmn, Hp in H. exact H. Qed.

Lemma same_model_models w h mv m m_src :
  same_model w h mv = true -> model_of h w = Val (OK m, w) -> model_of mv w = Val (OK m_src, w) -> m_src = m.
Proof. intros H H1 H2. unfold same_model in H. rewrite H1, H2 in H. apply N.eqb_eq in H. auto. Qed.

Theorem C45_move h mv w r w' :
  J5 w -> Known04 T LATEST w (OpMove h mv) = false -> Known05 w (OpMove h mv) = false -> same_model w h mv = true ->
  e_move_element_here T tab_en check_fn LATEST h mv w = Val (r, w') -> J5 w'.
Proof.
  intros HJ HK4 HK5 Hsimple H. destruct r as [i|e].
  2:{ (* failure: nothing happened, or the late class *)
      destruct (e_move_here_fail T tab_en check_fn LATEST h mv w e w' H) as [->|(_ & Hpl)]; [exact HJ|]. exfalso.
      cbn [Refs.Known05 run_op] in HK5. apply orb_false_iff in HK5 as (_ & HK5). unfold welem, wbind in HK5. rewrite H in HK5. apply negb_false_iff, plink_eqb_true in HK5. contradiction. }
  pose proof HJ as (HT & H4 & H5). cbn [Known04] in HK4. apply orb_false_iff in HK4 as (HK4 & Hsrcf). apply orb_false_iff in HK4 as (Hshort & Hfront).
  unfold e_move_element_here in H. destruct (h =? mv) eqn:Ehm; [discriminate H|]. apply N.eqb_neq in Ehm.
  wk H. wk H. wk H. wk H. destruct (negb (a2 =? a1)); [discriminate H|].
  wk H. apply get_node_inv in E3 as (n & Hn & Q & _). injection Q as ->.
  wk H. apply get_node_inv in E3 as (mn & Hmn & Q & _). injection Q as ->.
  wk H. destruct a3 as (rs, re).
  pose proof (same_model_models w h mv a0 a Hsimple E0 E) as Hma. subst a. rewrite N.eqb_refl in H.
  wk H. destruct a as [p|]; [|discriminate H].
  assert (Hpar : n_parent mn = PElem p).
  { unfold parent_of in E4. destruct (n_parent mn); try discriminate E4. apply wret_inv in E4 as ([= ->] & _). reflexivity. }
  destruct (p =? h) eqn:Eph; [apply wret_inv in H as (_ & ->); exact HJ|]. apply N.eqb_neq in Eph.
  assert (Hcoll : identifiable T w mv = false -> collision06 T w h mv = false).
  { intros Hni. cbn [Refs.Known05] in HK5. apply orb_false_iff in HK5 as (HK5 & _). rewrite Hni in HK5. exact HK5. }
  assert (HR1 : MReach T w a0 mv) by (apply model_of_mreach; assumption).
  assert (HR2 : MReach T w a0 h) by (apply model_of_mreach; assumption).
  assert (HM : forall n0, w_nodes w h = Some n0 -> content_mode T (n_type n0) <> Val MCharacters).
  { intros n0 Hn0. assert (n0 = n) by congruence. subst n0. eapply calc_range_mode; eauto. }
  assert (HFd : N.to_nat re = O -> identifiable T w h = false).
  { intros Hre. unfold nm_of in Hfront. rewrite Hmn in Hfront.
    destruct (front_false_end T LATEST w h n (n_name mn) a2 rs re Hn E2 E3 Hfront Hre) as (Hi & _). unfold identifiable. rewrite Hn. exact Hi. }
  assert (HFs : forall mn0 sp0, w_nodes w mv = Some mn0 -> n_parent mn0 = PElem sp0 -> remove_front T w sp0 (N.eqb mv) = false).
  { intros mn0 sp0 Hmn0 Hp0. eapply src_front_false; eauto. }
  assert (HNc : forall mn0, w_nodes w mv = Some mn0 -> n_parent mn0 <> PElem h).
  { intros mn0 Hmn0. assert (mn0 = mn) by congruence. subst mn0. rewrite Hpar. congruence. }
  destruct (identifiable T w mv) eqn:Hid.
  - eapply (move_local_j5 h mv re a0 a2 w w' i HJ H); eauto.
  - eapply (move_local_container_j5 h mv re a0 a2 w w' i HJ H); eauto.
Qed.

Theorem C45_move_at h mv pos w r w' :
  J5 w -> Known04 T LATEST w (OpMoveAt h mv pos) = false -> Known05 w (OpMoveAt h mv pos) = false -> same_model w h mv = true ->
  e_move_element_here_at T tab_en check_fn LATEST h mv pos w = Val (r, w') -> J5 w'.
Proof.
  intros HJ HK4 HK5 Hsimple H. destruct r as [i|e].
  2:{ destruct (e_move_here_at_fail T tab_en check_fn LATEST h mv pos w e w' H) as [->|(_ & Hpl)]; [exact HJ|]. exfalso.
      cbn [Refs.Known05 run_op] in HK5. apply orb_false_iff in HK5 as (_ & HK5). unfold welem, wbind in HK5. rewrite H in HK5. apply negb_false_iff, plink_eqb_true in HK5. contradiction. }
  pose proof HJ as (HT & H4 & H5). cbn [Known04] in HK4. apply orb_false_iff in HK4 as (HK4 & Hspn). apply orb_false_iff in HK4 as (HK4 & Hsrcf).
  apply orb_false_iff in HK4 as (Hshort & Hfront).
  unfold e_move_element_here_at in H. destruct (h =? mv) eqn:Ehm; [discriminate H|]. apply N.eqb_neq in Ehm.
  wk H. wk H. wk H. wk H. destruct (negb (a2 =? a1)); [discriminate H|].
  wk H. apply get_node_inv in E3 as (n & Hn & Q & _). injection Q as ->.
  wk H. apply get_node_inv in E3 as (mn & Hmn & Q & _). injection Q as ->.
  wk H. destruct a3 as (rs, re).
  destruct ((rs <=? pos) && (pos <=? re)); [|discriminate H].
  pose proof (same_model_models w h mv a0 a Hsimple E0 E) as Hma. subst a. rewrite N.eqb_refl in H.
  wk H. destruct a as [p|]; [|discriminate H].
  assert (Hpar : n_parent mn = PElem p).
  { unfold parent_of in E4. destruct (n_parent mn); try discriminate E4. apply wret_inv in E4 as ([= ->] & _). reflexivity. }
  destruct (p =? h) eqn:Eph.
  - (* the same parent: only the position changes *)
    apply N.eqb_eq in Eph. subst p. unfold move_element_position in H. wk H.
    apply get_node_inv in E5 as (n0 & Hn0 & Q & _). injection Q as ->. assert (n0 = n) by congruence. subst n0.
    destruct (pos <? re); [|discriminate H].
    destruct (index_of (citem_is mv) (n_content n)) as [cur|] eqn:Eidx; [|discriminate H].
    wk H. apply set_node_inv in E5 as (_ & ->). apply wret_inv in H as (_ & ->).
    assert (Hnn : named T (n_type n) = false).
    { unfold same_parent_named, named_node in Hspn. rewrite Hn, Hmn, Hpar, N.eqb_refl, andb_true_r in Hspn. exact Hspn. }
    pose proof (tf_nodup _ HT _ _ Hn) as Hnd0. destruct (nodup_remove_at mv _ cur Hnd0 Eidx) as (Hnd1 & Hnin).
    apply (permute_j5 w h n (insert_at (remove_at (n_content n) cur) (N.to_nat pos) (CElem mv)) HJ Hn Hnn).
    + intros c. rewrite in_insert_any, (in_remove_at_citem mv _ cur c Hnd0 Eidx). split.
      * intros [[= ->]|(Hc & _)]; [eapply index_of_citem; eauto|exact Hc].
      * intros Hc. destruct (N.eq_dec c mv) as [->|Hne]; [left; reflexivity|right; auto].
    + apply nodup_elem_ids_insert_any; assumption.
    + exists mv. eapply index_of_citem; eauto.
  - apply N.eqb_neq in Eph.
    assert (Hcoll : identifiable T w mv = false -> collision06 T w h mv = false).
    { intros Hni. cbn [Refs.Known05] in HK5. apply orb_false_iff in HK5 as (HK5 & _). rewrite Hni in HK5. exact HK5. }
    assert (HR1 : MReach T w a0 mv) by (apply model_of_mreach; assumption).
    assert (HR2 : MReach T w a0 h) by (apply model_of_mreach; assumption).
    assert (HM : forall n0, w_nodes w h = Some n0 -> content_mode T (n_type n0) <> Val MCharacters).
    { intros n0 Hn0. assert (n0 = n) by congruence. subst n0. eapply calc_range_mode; eauto. }
    assert (HFd : N.to_nat pos = O -> identifiable T w h = false).
    { intros Hre. unfold nm_of in Hfront. rewrite Hmn in Hfront.
      destruct (front_false_at T LATEST w h n (n_name mn) pos Hn Hfront Hre) as (Hi & _). unfold identifiable. rewrite Hn. exact Hi. }
    assert (HFs : forall mn0 sp0, w_nodes w mv = Some mn0 -> n_parent mn0 = PElem sp0 -> remove_front T w sp0 (N.eqb mv) = false).
    { intros mn0 sp0 Hmn0 Hp0. eapply src_front_false; eauto. }
    assert (HNc : forall mn0, w_nodes w mv = Some mn0 -> n_parent mn0 <> PElem h).
    { intros mn0 Hmn0. assert (mn0 = mn) by congruence. subst mn0. rewrite Hpar. congruence. }
    destruct (identifiable T w mv) eqn:Hid.
    + eapply (move_local_j5 h mv pos a0 a2 w w' i HJ H); eauto.
    + eapply (move_local_container_j5 h mv pos a0 a2 w w' i HJ H); eauto.
Qed.

End MoveOp.