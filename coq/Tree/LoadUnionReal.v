(* Tree/LoadUnionReal.v — C09 for AutosarModel::load_buffer with the REAL parser state: the hypothesis StOf of
   LoadRefineIndex.heap_union_buffers_total is a theorem about Parser.load (Xml/LoadRecordsTree.load_StOf_all, agent-xmlproofs),
   and a buffer that is the serialization of a canonical view parses to that view (Xml/RoundTripFile.file_roundtrip, C01).
     [union_unconditional]  buffers that parse to the views of the master
     [union_bytes]          buffers that ARE the serializations of the views (xml header ++ ser_elem) *)
From Coq Require Import Permutation.
From AV Require Import Base.Bytes Base.Outcome Hash.HashModel Spec.SpecOps Tree.Heap Tree.Ops Tree.Script Tree.Load Tree.MergeSpec
  Tree.MergePure Tree.MergePureProofsBase Tree.MergePureProofs Tree.MergePureProofsMain Tree.MergePureProofsKeys
  Tree.LoadRefineBase Tree.LoadRefineTop Tree.LoadRefineIndex.
From AV Require Import Xml.Lexer Xml.Parser Xml.Serializer Xml.TablesOk Xml.StrictValidDef Xml.LoadRecords Xml.LoadRecordsRegular Xml.LoadRecordsTree
  Xml.RoundTripFile.
Open Scope string_scope.
Open Scope list_scope.
Open Scope N_scope.

Lemma forall2_and_r {A B} (R : A -> B -> Prop) (Q : B -> Prop) l l' :
  Forall2 R l l' -> Forall Q l' -> Forall2 (fun a b => R a b /\ Q b) l l'.
Proof. induction 1 as [|a b l l' H HF IH]; intros HQ; [constructor|]. inversion HQ; subst. constructor; auto. Qed.
Lemma forall2_forall_r {A B} (P : A -> B -> Prop) (Q : B -> Prop) l l' :
  (forall a b, P a b -> Q b) -> Forall2 P l l' -> Forall Q l'.
Proof. intros H. induction 1; constructor; eauto. Qed.

Section Real.
Variable T : tables.
Variables tab_el tab_at tab_en : nametab.
Variable check_fn : N -> list N -> res bool.
Variable float_parse : list N -> option N.
Variables LATEST defref v : N.
Hypothesis T_ok : tables_ok T = true.
Hypothesis T_sn : sn_charsb T = true.
Hypothesis T_ref : ref_charsb T = true.

(* every load_buffer of buffers that parse to the views of a Good master returns OK, and the model is the master *)
Theorem union_unconditional M m x w0 n strict bufs items :
  Good T defref v M ->
  nth_opt (w_models w0) (N.to_nat m) = Some x -> m_files x = [] -> m_idents x = [] ->
  let gs := n_range (S n) (N.of_nat (List.length (w_files w0))) in
  Forall2 (parses_to T tab_el tab_at tab_en check_fn float_parse strict) bufs items ->
  Forall2 (is_view v M) gs items ->
  NoDup (map snd bufs) ->
  (forall g, In g gs -> In g (mfiles M)) -> PathsOK T M gs ->
  exists os w,
    load_bufs T tab_el tab_at tab_en check_fn float_parse LATEST defref m strict bufs w0 = Val (os, w) /\
    Forall2 (fun g o => exists ws, o = OK (g, ws)) gs os /\
    exists ta, ModelTree w m ta gs /\ abs_model w m = Some (erase ta) /\
               Rep T (rev gs) None M (erase ta) /\
               (covers gs M -> hperm (erase ta) (expected None M)) /\
               (forall f, In f gs -> hperm (hproj f (erase ta)) (pview f M)).
Proof.
  intros HG Hx Hfx Hix gs Hparse Hview Hnd Hin HP.
  assert (HSt : Forall (fun it : item => StOf T (snd it) (snd (fst it))) items).
  { eapply forall2_forall_r; [|exact Hparse]. intros [buf fname] [[fn e] st] (Hp & _). cbn [fst snd] in *.
    exact (load_StOf_all T tab_el tab_at tab_en check_fn float_parse strict buf e st T_ok T_sn T_ref Hp). }
  pose proof (forall2_and_r _ _ _ _ Hview HSt) as Hview'.
  exact (heap_union_buffers_total T tab_el tab_at tab_en check_fn float_parse LATEST defref v M m x w0 n strict bufs items
           HG Hx Hfx Hix Hparse Hview' Hnd Hin HP).
Qed.

(* the same with bytes in: the k-th buffer is the xml header followed by the serialization of the view of file b + k, which
   is canonical (C01's RootCanon for the version v); the file names are pairwise distinct *)
Variable float_fmt : N -> list N.

Definition is_file_of (strict : bool) (M : mtree) (g : N) (f : Parser.etree * option bool * list N * list N) : Prop :=
  let '(e, sa, body, name) := f in
  project g M = Some e /\
  RootCanon strict T tab_el tab_at tab_en check_fn float_fmt float_parse v e /\
  ser_elem T tab_el tab_at tab_en float_fmt e 0 false = Val body.
Definition buffer_of (f : Parser.etree * option bool * list N * list N) : list N * list N :=
  let '(e, sa, body, name) := f in (xml_header sa ++ body, name).

Theorem union_bytes M m x w0 n strict files :
  Good T defref v M ->
  nth_opt (w_models w0) (N.to_nat m) = Some x -> m_files x = [] -> m_idents x = [] ->
  let gs := n_range (S n) (N.of_nat (List.length (w_files w0))) in
  Forall2 (is_file_of strict M) gs files ->
  NoDup (map (fun f => snd f) files) ->
  (forall g, In g gs -> In g (mfiles M)) -> PathsOK T M gs ->
  exists os w,
    load_bufs T tab_el tab_at tab_en check_fn float_parse LATEST defref m strict (map buffer_of files) w0 = Val (os, w) /\
    Forall2 (fun g o => exists ws, o = OK (g, ws)) gs os /\
    exists ta, ModelTree w m ta gs /\ abs_model w m = Some (erase ta) /\
               Rep T (rev gs) None M (erase ta) /\
               (covers gs M -> hperm (erase ta) (expected None M)) /\
               (forall f, In f gs -> hperm (hproj f (erase ta)) (pview f M)).
Proof.
  intros HG Hx Hfx Hix gs Hfiles Hnd Hin HP.
  assert (G : exists items, Forall2 (parses_to T tab_el tab_at tab_en check_fn float_parse strict) (map buffer_of files) items /\
                            Forall2 (is_view v M) gs items).
  { clear -Hfiles. induction Hfiles as [|g [[[e sa] body] name] gs1 fs (He & HC & HS) HF IH].
    - exists []. split; constructor.
    - destruct IH as (items & H1 & H2).
      destruct (file_roundtrip strict T tab_el tab_at tab_en check_fn float_fmt float_parse v e sa body HC HS) as (st & HL & _ & Hv & _).
      exists ((name, e, st) :: items). split; constructor; auto.
      + split; [exact HL|reflexivity].
      + split; [exact He|exact Hv]. }
  destruct G as (items & Hparse & Hview).
  apply (union_unconditional M m x w0 n strict (map buffer_of files) items HG Hx Hfx Hix Hparse Hview); auto.
  rewrite map_map. erewrite map_ext; [exact Hnd|]. intros [[[e sa] body] name]. reflexivity.
Qed.

End Real.

(* ------------------------------------------------------------------ on the regenerated tables [F tables, U everything else] *)
From AV Require Import Spec.SpecReal Hash.HashRealElement Hash.HashRealAttr Hash.HashRealEnum Xml.TablesOkReal Xml.LoadRecordsExamples.

Theorem union_real (check_fn : N -> list N -> res bool) (float_parse : list N -> option N) (LATEST defref v : N)
        M m x w0 n strict bufs items :
  Good RT defref v M ->
  nth_opt (w_models w0) (N.to_nat m) = Some x -> m_files x = [] -> m_idents x = [] ->
  let gs := n_range (S n) (N.of_nat (List.length (w_files w0))) in
  Forall2 (parses_to RT tab_element tab_attr tab_enum check_fn float_parse strict) bufs items ->
  Forall2 (is_view v M) gs items ->
  NoDup (map snd bufs) ->
  (forall g, In g gs -> In g (mfiles M)) -> PathsOK RT M gs ->
  exists os w,
    load_bufs RT tab_element tab_attr tab_enum check_fn float_parse LATEST defref m strict bufs w0 = Val (os, w) /\
    Forall2 (fun g o => exists ws, o = OK (g, ws)) gs os /\
    exists ta, ModelTree w m ta gs /\ abs_model w m = Some (erase ta) /\
               Rep RT (rev gs) None M (erase ta) /\
               (covers gs M -> hperm (erase ta) (expected None M)) /\
               (forall f, In f gs -> hperm (hproj f (erase ta)) (pview f M)).
Proof.
  exact (union_unconditional RT tab_element tab_attr tab_enum check_fn float_parse LATEST defref v
           tables_ok_real real_sn_chars real_ref_chars M m x w0 n strict bufs items).
Qed.
