(* Tree/IndexProofsCopyC.v — C04/C05: the pre-order walk of a deep copy lists nobody twice, so the duplicate check on the walk of
   the copy (copy_clean_b) is redundant: copy_clean_c (Tree/RefsAllB.v) implies copy_clean_b, Known05b implies Known05a.
   deep_copy allocates the copy of a sub-element after everything allocated for its elder siblings and before its younger
   ones: the sub-trees of two children occupy disjoint id ranges above their parent. *)
From Coq Require Import Lia PeanoNat.
From AV Require Import Base.Bytes Base.Outcome Hash.HashModel Tree.Heap Tree.Ops Tree.Script Tree.IndexProofsW
  Tree.Index Tree.IndexProofsBase Tree.IndexProofsAssoc Tree.IndexProofsTree Tree.IndexProofsNamed Tree.IndexProofsCreate Tree.Refs Tree.RefsAll
  Tree.RefsAllB Tree.IndexProofsReg Tree.CopyProofsDefs Tree.CopyProofsDeep Tree.CopyProofsCreate Tree.CopyProofsFK
  Tree.IndexProofs Tree.IndexProofsCopy Tree.IndexProofsCopyA Tree.IndexProofsCopyB.
Open Scope string_scope.
Open Scope list_scope.
Open Scope N_scope.

Lemma nodup_app3 {A} (a b : list A) : NoDup a -> NoDup b -> (forall x, In x a -> In x b -> False) -> NoDup (a ++ b).
Proof.
  induction a as [|x a IH]; intros Ha Hb Hd; [exact Hb|]. inversion Ha as [|? ? Hx Ha']; subst. cbn. constructor.
  - intros Hin. apply in_app_or in Hin as [Hin|Hin]; [contradiction|]. eapply Hd; [left; reflexivity|exact Hin].
  - apply IH; auto. intros y H1 H2. eapply Hd; [right; exact H1|exact H2].
Qed.

(* ---------- walk in terms of the element children *)
Lemma walk_items f w l :
  flat_map (fun it => match it with CElem c => walk f w c | CData _ => [] end) l = flat_map (walk f w) (elem_ids l).
Proof. induction l as [|[c|d] l IH]; cbn; [reflexivity|rewrite IH; reflexivity|exact IH]. Qed.
Lemma walk_S f w i :
  walk (S f) w i = match w_nodes w i with None => [] | Some n => i :: flat_map (walk f w) (elem_ids (n_content n)) end.
Proof. cbn [walk]. destruct (w_nodes w i); [rewrite walk_items|]; reflexivity. Qed.

Definition ekids (w : world) (j : id) : option (list id) := option_map (fun n => elem_ids (n_content n)) (w_nodes w j).

Lemma walk_alloc f : forall w a j, In j (walk f w a) -> exists n, w_nodes w j = Some n.
Proof.
  induction f as [|f IH]; intros w a j H; [destruct H|]. rewrite walk_S in H. destruct (w_nodes w a) as [n|] eqn:Ea; [|destruct H].
  destruct H as [<-|H]; [eauto|]. apply in_flat_map in H as (k & _ & Hk). eapply IH; eauto.
Qed.

(* the walk only depends on the element children of the nodes it visits *)
Lemma walk_agree f : forall w w' a, Closed w -> (exists n, w_nodes w a = Some n) ->
  (forall j, In j (walk f w a) -> ekids w' j = ekids w j) -> walk f w' a = walk f w a.
Proof.
  induction f as [|f IH]; intros w w' a Cw (n & Ea) H; [reflexivity|]. rewrite !walk_S. rewrite walk_S, Ea in H. rewrite Ea.
  pose proof (H a (or_introl eq_refl)) as Ha. unfold ekids in Ha. rewrite Ea in Ha.
  destruct (w_nodes w' a) as [n'|]; [|discriminate Ha]. cbn in Ha. injection Ha as Ha. rewrite Ha. f_equal.
  assert (Hk : forall k, In k (elem_ids (n_content n)) -> walk f w' k = walk f w k).
  { intros k Hk. apply IH; [exact Cw|apply (proj2 Cw a n k Ea); apply in_elem_ids; exact Hk|].
    intros j Hj. apply H. right. apply in_flat_map. exists k. auto. }
  clear -Hk. induction (elem_ids (n_content n)) as [|k l IHl]; [reflexivity|]. cbn. rewrite (Hk k (or_introl eq_refl)), IHl; [reflexivity|].
  intros k' Hk'. apply Hk. right. exact Hk'.
Qed.
Lemma flat_walk_agree f w w' l : Closed w -> (forall k, In k l -> exists n, w_nodes w k = Some n) ->
  (forall j, In j (flat_map (walk f w) l) -> ekids w' j = ekids w j) -> flat_map (walk f w') l = flat_map (walk f w) l.
Proof.
  intros Cw Hal H. induction l as [|k l IH]; [reflexivity|]. cbn. rewrite (walk_agree f w w' k Cw (Hal k (or_introl eq_refl))).
  - rewrite IH; [reflexivity|intros k' Hk'; apply Hal; right; exact Hk'|]. intros j Hj. apply H. cbn. apply in_or_app. right. exact Hj.
  - intros j Hj. apply H. cbn. apply in_or_app. left. exact Hj.
Qed.

Lemma elem_ids_snoc_elem l c : elem_ids (l ++ [CElem c]) = elem_ids l ++ [c].
Proof. unfold elem_ids. rewrite flat_map_app. reflexivity. Qed.
Lemma elem_ids_snoc_data l d : elem_ids (l ++ [CData d]) = elem_ids l.
Proof. unfold elem_ids. rewrite flat_map_app. cbn. apply app_nil_r. Qed.
Lemma ekids_upd_other w i x j : j <> i -> ekids (mkWorld (upd (w_nodes w) i x) (w_next w) (w_files w) (w_models w)) j = ekids w j.
Proof. intros H. unfold ekids. cbn [w_nodes]. rewrite upd_neq by exact H. reflexivity. Qed.

Section WalkNoDup.
Variable T : tables.

(* node c and the walks of its element children *)
Definition IW (c : id) (w : world) : Prop :=
  exists nc, w_nodes w c = Some nc /\
    forall f, NoDup (flat_map (walk f w) (elem_ids (n_content nc))) /\
              forall j, In j (flat_map (walk f w) (elem_ids (n_content nc))) -> c < j.

Definition WN (dc : id -> N -> W id) : Prop := forall src v w r w1,
  Closed w -> dc src v w = Val (r, w1) ->
  Closed w1 /\ (forall i, i < w_next w -> w_nodes w1 i = w_nodes w i) /\ w_next w <= w_next w1 /\
  (forall c, r = OK c -> w_next w <= c /\ (exists nc, w_nodes w1 c = Some nc) /\
     forall f, NoDup (walk f w1 c) /\ forall j, In j (walk f w1 c) -> w_next w <= j).

Lemma dc_items_walk dc (Hdc : WN dc) c ty v : forall l w r w',
  Closed w -> c < w_next w -> IW c w ->
  dc_items T dc c ty v l w = Val (r, w') ->
  Closed w' /\ (forall i, i < c -> w_nodes w' i = w_nodes w i) /\ w_next w <= w_next w' /\ IW c w'.
Proof.
  induction l as [|[s|d] rest IH]; intros w r w' Cw Hcw HI H.
  - rewrite dc_items_nil in H. apply wret_inv in H as (_ & ->). split; [exact Cw|]. split; [auto|]. split; [lia|exact HI].
  - rewrite dc_items_elem in H.
    apply wbind_inv in H as [(sn & wa & E & H) | (e & E & _)]; [|apply get_node_inv in E as (? & _ & [=] & _)].
    apply get_node_inv in E as (sn' & _ & _ & ->).
    apply wbind_inv in H as [(fs & wb & E & H) | (e & E & _)]; [|apply wl_inv in E as (? & _ & [=] & _)].
    apply wl_inv in E as (fs' & _ & _ & ->).
    destruct fs as [x|]; [|exact (IH _ _ _ Cw Hcw HI H)].
    apply wbind_inv in H as [(ro & w1 & E & H) | (e & E & _)]; [|apply wtry_inv in E as (? & _ & [=])].
    apply wtry_inv in E as (r0 & E & Ero).
    destruct (Hdc _ _ _ _ _ Cw E) as (C1 & F1 & N1 & R1).
    destruct HI as (nc & Hnc & HW).
    assert (Hnc1 : w_nodes w1 c = Some nc) by (rewrite F1 by exact Hcw; exact Hnc).
    assert (Hkal : forall k, In k (elem_ids (n_content nc)) -> exists n, w_nodes w k = Some n).
    { intros k Hk. apply (proj2 Cw c nc k Hnc). apply in_elem_ids. exact Hk. }
    assert (Hold1 : forall f, flat_map (walk f w1) (elem_ids (n_content nc)) = flat_map (walk f w) (elem_ids (n_content nc))).
    { intros f. apply flat_walk_agree; [exact Cw|exact Hkal|]. intros j Hj. apply in_flat_map in Hj as (k & _ & Hj).
      destruct (walk_alloc _ _ _ _ Hj) as (nj & Hnj). unfold ekids. rewrite F1 by exact (proj1 Cw _ _ Hnj). reflexivity. }
    assert (Hold_lt : forall f j, In j (flat_map (walk f w) (elem_ids (n_content nc))) -> j < w_next w).
    { intros f j Hj. apply in_flat_map in Hj as (k & _ & Hj). destruct (walk_alloc _ _ _ _ Hj) as (nj & Hnj). exact (proj1 Cw _ _ Hnj). }
    destruct r0 as [cs|e0].
    + injection Ero as ->. destruct (R1 cs eq_refl) as (Hcs_ge & (ncs0 & Hncs0) & HWcs).
      apply wbind_inv in H as [(u & w2 & E2 & H) | (e & E2 & _)]; [|apply modify_node_inv in E2 as (? & _ & [=] & _)].
      apply modify_node_inv in E2 as (ncs & Hncs & _ & ->).
      apply wbind_inv in H as [(u3 & w3 & E3 & H) | (e & E3 & _)]; [|apply modify_node_inv in E3 as (? & _ & [=] & _)].
      apply modify_node_inv in E3 as (nc2 & Hnc2 & _ & ->).
      assert (Hccs : c <> cs) by lia.
      cbn [w_nodes] in Hnc2. rewrite upd_neq in Hnc2 by exact Hccs. rewrite Hnc1 in Hnc2. injection Hnc2 as <-.
      set (w2 := mkWorld (upd (w_nodes w1) cs (set_parent ncs (PElem c))) (w_next w1) (w_files w1) (w_models w1)) in *.
      set (xc := set_content nc (n_content nc ++ [CElem cs])) in *.
      set (w3 := mkWorld (upd (w_nodes w2) c xc) (w_next w2) (w_files w2) (w_models w2)) in *.
      assert (C2 : Closed w2).
      { apply (Closed_upd w1 cs ncs _ C1 Hncs). cbn. intros y Hin. exact (proj2 C1 cs ncs y Hncs Hin). }
      assert (Hc2 : w_nodes w2 c = Some nc) by (unfold w2; cbn [w_nodes]; rewrite upd_neq by exact Hccs; exact Hnc1).
      assert (C3 : Closed w3).
      { eapply Closed_upd with (n := nc); [exact C2|exact Hc2|]. cbn. intros y Hin. apply in_app_or in Hin as [Hin|[[= <-]|[]]].
        - destruct (proj2 C1 c nc y Hnc1 Hin) as (cn & Hx). unfold w2. cbn [w_nodes]. unfold upd. destruct (y =? cs); eauto.
        - unfold w2. cbn [w_nodes]. rewrite upd_eq. eauto. }
      assert (Hk13 : forall j, j <> c -> ekids w3 j = ekids w1 j).
      { intros j Hj. unfold w3. rewrite ekids_upd_other by exact Hj. unfold w2, ekids. cbn [w_nodes]. unfold upd.
        destruct (j =? cs) eqn:Ej; [apply N.eqb_eq in Ej; subst j; rewrite Hncs; reflexivity|reflexivity]. }
      assert (Hold3 : forall f, flat_map (walk f w3) (elem_ids (n_content nc)) = flat_map (walk f w) (elem_ids (n_content nc))).
      { intros f. rewrite <- Hold1. apply flat_walk_agree; [exact C1| |].
        - intros k Hk. destruct (Hkal k Hk) as (n0 & Hn0). exists n0. rewrite F1 by exact (proj1 Cw _ _ Hn0). exact Hn0.
        - intros j Hj. apply Hk13. rewrite Hold1 in Hj. pose proof (proj2 (HW f) j Hj). lia. }
      assert (Hcs3 : forall f, walk f w3 cs = walk f w1 cs).
      { intros f. apply walk_agree; [exact C1|eauto|]. intros j Hj. apply Hk13. pose proof (proj2 (HWcs f) j Hj). lia. }
      assert (HI3 : IW c w3).
      { exists xc. split; [unfold w3; cbn [w_nodes]; apply upd_eq|]. intros f. unfold xc. cbn [set_content n_content].
        rewrite elem_ids_snoc_elem, flat_map_app. cbn [flat_map]. rewrite app_nil_r, Hold3, Hcs3. split.
        - apply nodup_app3; [exact (proj1 (HW f))|exact (proj1 (HWcs f))|].
          intros j H1 H2. pose proof (Hold_lt f j H1). pose proof (proj2 (HWcs f) j H2). lia.
        - intros j Hj. apply in_app_or in Hj as [Hj|Hj]; [exact (proj2 (HW f) j Hj)|]. pose proof (proj2 (HWcs f) j Hj). lia. }
      destruct (IH w3 r w' C3 ltac:(unfold w3, w2; cbn [w_next]; lia) HI3 H) as (C' & Fr & Nx & HI').
      split; [exact C'|]. split.
      { intros i Hi. rewrite Fr by exact Hi. unfold w3, w2. cbn [w_nodes]. rewrite !upd_neq by lia. apply F1. lia. }
      split; [unfold w3, w2 in Nx; cbn [w_next] in Nx; lia|exact HI'].
    + injection Ero as ->.
      assert (HI1 : IW c w1).
      { exists nc. split; [exact Hnc1|]. intros f. rewrite Hold1. exact (HW f). }
      destruct (IH w1 r w' C1 ltac:(lia) HI1 H) as (C' & Fr & Nx & HI').
      split; [exact C'|]. split; [intros i Hi; rewrite Fr by exact Hi; apply F1; lia|]. split; [lia|exact HI'].
  - rewrite dc_items_data in H.
    apply wbind_inv in H as [(u3 & w3 & E3 & H) | (e & E3 & _)]; [|apply modify_node_inv in E3 as (? & _ & [=] & _)].
    apply modify_node_inv in E3 as (nc2 & Hnc2 & _ & ->).
    destruct HI as (nc & Hnc & HW). rewrite Hnc in Hnc2. injection Hnc2 as <-.
    set (xc := set_content nc (n_content nc ++ [CData d])) in *.
    set (w3 := mkWorld (upd (w_nodes w) c xc) (w_next w) (w_files w) (w_models w)) in *.
    assert (C3 : Closed w3).
    { eapply Closed_upd with (n := nc); [exact Cw|exact Hnc|]. cbn. intros y Hin. apply in_app_or in Hin as [Hin|[[=]|[]]].
      exact (proj2 Cw c nc y Hnc Hin). }
    assert (Hold3 : forall f, flat_map (walk f w3) (elem_ids (n_content nc)) = flat_map (walk f w) (elem_ids (n_content nc))).
    { intros f. apply flat_walk_agree; [exact Cw| |].
      - intros k Hk. apply (proj2 Cw c nc k Hnc). apply in_elem_ids. exact Hk.
      - intros j Hj. unfold w3. apply ekids_upd_other. pose proof (proj2 (HW f) j Hj). lia. }
    assert (HI3 : IW c w3).
    { exists xc. split; [unfold w3; cbn [w_nodes]; apply upd_eq|]. intros f. unfold xc. cbn [set_content n_content].
      rewrite elem_ids_snoc_data, Hold3. exact (HW f). }
    destruct (IH w3 r w' C3 Hcw HI3 H) as (C' & Fr & Nx & HI').
    split; [exact C'|]. split; [intros i Hi; rewrite Fr by exact Hi; unfold w3; cbn [w_nodes]; apply upd_neq; lia|]. split; [exact Nx|exact HI'].
Qed.

Lemma dc_walk : forall fuel, WN (deep_copy T fuel).
Proof.
  induction fuel as [|f0 IHf]; intros src v w r w1 Cw H; [discriminate H|].
  rewrite deep_copy_S in H.
  apply wbind_inv in H as [(n & wa & E & H) | (e & E & _)]; [|apply get_node_inv in E as (? & _ & [=] & _)].
  apply get_node_inv in E as (n' & Hn & [= <-] & ->).
  apply wbind_inv in H as [(c & wA & E & H) | (e & E & _)]; [|apply alloc_inv in E as ([=] & _)].
  apply alloc_inv in E as ([= ->] & ->).
  set (x0 := mkNode PNone (n_name n) (n_type n) [] [] [] (n_comment n)) in *.
  set (wA := mkWorld (upd (w_nodes w) (w_next w) x0) (w_next w + 1) (w_files w) (w_models w)) in *.
  assert (CA : Closed wA) by (apply Closed_alloc; [exact Cw|intros y []]).
  assert (FA : forall i, i < w_next w -> w_nodes wA i = w_nodes w i) by (intros i Hi; unfold wA; cbn [w_nodes]; apply upd_neq; lia).
  apply wbind_inv in H as [(attrs & w2 & E & H) | (e & E & Hr)].
  2:{ apply ro_copy_attrs in E. subst w1. split; [exact CA|]. split; [exact FA|]. split; [unfold wA; cbn [w_next]; lia|].
      intros c0 Hc0. subst r. discriminate Hc0. }
  apply ro_copy_attrs in E. subst w2.
  apply wbind_inv in H as [(u & wB & E & H) | (e & E & _)]; [|apply modify_node_inv in E as (? & _ & [=] & _)].
  apply modify_node_inv in E as (y & Hy & _ & ->).
  unfold wA in Hy. cbn [w_nodes] in Hy. rewrite upd_eq in Hy. injection Hy as <-.
  set (xa := set_attrs x0 attrs) in *.
  set (wB := mkWorld (upd (w_nodes wA) (w_next w) xa) (w_next wA) (w_files wA) (w_models wA)) in *.
  assert (CB : Closed wB).
  { eapply Closed_upd with (n := x0); [exact CA|unfold wA; cbn [w_nodes]; apply upd_eq|]. cbn. intros y []. }
  assert (HIB : IW (w_next w) wB).
  { exists xa. split; [unfold wB; cbn [w_nodes]; apply upd_eq|]. intros f. cbn. split; [constructor|intros j []]. }
  assert (HcltB : w_next w < w_next wB) by (unfold wB, wA; cbn [w_next]; lia).
  assert (Hfin : forall w3, Closed w3 -> (forall i, i < w_next w -> w_nodes w3 i = w_nodes wB i) -> w_next wB <= w_next w3 ->
            Closed w3 /\ (forall i, i < w_next w -> w_nodes w3 i = w_nodes w i) /\ w_next w <= w_next w3).
  { intros w3 C3 F3 N3. split; [exact C3|]. split; [|lia]. intros i Hi. rewrite F3 by exact Hi. unfold wB. cbn [w_nodes].
    rewrite upd_neq by lia. apply FA. exact Hi. }
  apply wbind_inv in H as [(u2 & w3 & E & H) | (e & E & Hr)].
  - destruct (dc_items_walk _ IHf (w_next w) (n_type n) v _ _ _ _ CB HcltB HIB E) as (C3 & F3 & N3 & (nc3 & Hnc3 & HW3)).
    apply wret_inv in H as (-> & ->). destruct (Hfin w3 C3 F3 N3) as (A1 & A2 & A3).
    split; [exact A1|]. split; [exact A2|]. split; [exact A3|]. intros c0 [= <-]. split; [lia|]. split; [eauto|].
    intros f. destruct f as [|f]; [split; [constructor|intros j []]|]. rewrite walk_S, Hnc3. split.
    + constructor; [|exact (proj1 (HW3 f))]. intros Hin. pose proof (proj2 (HW3 f) _ Hin). lia.
    + intros j [<-|Hj]; [lia|]. pose proof (proj2 (HW3 f) j Hj). lia.
  - destruct (dc_items_walk _ IHf (w_next w) (n_type n) v _ _ _ _ CB HcltB HIB E) as (C3 & F3 & N3 & _).
    destruct (Hfin w1 C3 F3 N3) as (A1 & A2 & A3). split; [exact A1|]. split; [exact A2|]. split; [exact A3|].
    intros c0 Hc0. subst r. discriminate Hc0.
Qed.

End WalkNoDup.

Section CopyC.
Variable T : tables.
Variable check_fn : N -> list N -> res bool.
Notation Inv04 := (Inv04 T check_fn).

Lemma cdata_some_single n d : cdata_of T n = Some d -> elem_ids (n_content n) = [].
Proof.
  unfold cdata_of, character_data. destruct (n_content n) as [|[c|d0] [|x l]]; try discriminate. reflexivity.
Qed.

(* the walk of the copy in the final world of create_copied_sub_element *)
Lemma copy_walk_nodup self other pos m v w c w' :
  TreeFacts w -> Inv04 w -> MReach T w m self ->
  create_copied_sub_element_inner T self other pos m v w = Val (OK c, w') ->
  forall f, NoDup (walk f w' c).
Proof.
  intros HF HI HRself H f.
  pose proof (tf_closed w HF) as Cw.
  destruct (copy_inner_shape T check_fn self other pos m v w c w' HF HI HRself H)
    as (n & w1 & cn0 & x & path & L & R & ren & Hn & Hpath & Hx & Cw1 & HE & HFR & Hcn0 & Hnx & Hfl & Hpos & Hself' & Hc' & Hother & Hren & Hfree &
        Hmodels & w3 & Hw3 & Hent & Hrennm & (fdc & Edc)).
  destruct (dc_walk T fdc other v w (OK c) w1 Cw Edc) as (_ & _ & _ & R1). destruct (R1 c eq_refl) as (Hlo_c & _ & HW).
  assert (Hself_lt : self < w_next w) by (eapply tf_alloc; eauto).
  rewrite (walk_agree f w1 w' c Cw1 (ex_intro _ cn0 Hcn0)); [exact (proj1 (HW f))|].
  intros j Hj. pose proof (proj2 (HW f) j Hj) as Hlo. unfold ekids.
  destruct (N.eq_dec j c) as [->|Hjc]; [rewrite Hc', Hcn0; reflexivity|].
  rewrite (Hother j ltac:(lia) Hjc). destruct (renamed_cases w1 ren j) as [(-> & _)|(s & sn & nm & Er & -> & ->)]; [reflexivity|].
  destruct (Hren s sn nm Er) as (_ & Hs1 & _). rewrite Hs1. cbn [option_map set_content n_content].
  destruct (Hrennm s sn nm Er) as (orig & Ho & _). rewrite (cdata_some_single sn _ Ho). reflexivity.
Qed.

Lemma copy_clean_c_b self other pos m v w c w' :
  TreeFacts w -> Inv04 w -> MReach T w m self ->
  create_copied_sub_element_inner T self other pos m v w = Val (OK c, w') ->
  copy_clean_c T w w' self c = true -> copy_clean_b T w w' self c = true.
Proof.
  intros HF HI HRself H Hc. unfold copy_clean_c in Hc. unfold copy_clean_b.
  destruct (w_nodes w self) as [nh|]; [|discriminate Hc].
  destruct (path_unchecked T nh w) as [[[path0|e0] wq]| |]; try discriminate Hc.
  match type of Hc with match ?r with _ => _ end = true => destruct r as [[L0 R0]|]; [|discriminate Hc] end.
  apply andb_true_iff in Hc as (A & B). rewrite A, B.
  rewrite (nodupN_complete _ (copy_walk_nodup self other pos m v w c w' HF HI HRself H (fuel_of w'))). reflexivity.
Qed.

Variable tab_el tab_en : nametab.
Variable LATEST : N.
Variable root_attrs : list (N * cdata).
Notation Known05a := (Known05a T tab_el tab_en check_fn LATEST root_attrs).
Notation Known05b := (Known05b T tab_el tab_en check_fn LATEST root_attrs).

Ltac wk H := lazymatch type of H with
  | wbind ?m ?k ?w = Val (OK ?r, ?w') =>
    let a := fresh "a" in let w1 := fresh "w" in let E := fresh "E" in let e := fresh "e" in let Q := fresh "Q" in
    apply wbind_inv in H as [(a & w1 & E & H) | (e & E & Q)]; [ try ro_subst E | discriminate Q ]
  end.

(* the smaller class implies the one of the statement for all constructors *)
Theorem known05b_a w o r w' :
  TreeFacts w -> Inv04 w -> Known05b w o = false ->
  run_op T tab_el tab_en check_fn LATEST root_attrs o w = Val (r, w') -> Known05a w o = false.
Proof.
  intros HF HI HK5 H0. destruct o; try exact HK5.
  - pose proof H0 as H. cbn [run_op] in H. apply welem_inv in H as (r0 & H).
    cbn [RefsAllB.Known05b RefsAll.Known05a run_op] in *. unfold welem, wbind in *. rewrite H in *.
    destruct r0 as [c|e]; [|exact HK5]. cbn in *. apply negb_false_iff in HK5. apply negb_false_iff.
    unfold e_create_copied_sub_element in H. destruct (h =? other); [discriminate H|].
    wk H. wk H. unfold raw_create_copied_sub_element in H.
    wk H. match goal with E : get_node h w = _ |- _ => apply get_node_inv in E as (n & Hn & Q & _); injection Q as -> end.
    wk H. wk H. match goal with E : calc_element_insert_range T n _ _ w = Val (OK ?rr, _) |- _ => destruct rr as (rs, re) end.
    match goal with E : model_of h w = Val (OK ?mm, w) |- _ => rename E into Emod; rename mm into m end.
    eapply copy_clean_c_b; eauto. apply model_of_mreach; assumption.
  - pose proof H0 as H. cbn [run_op] in H. apply welem_inv in H as (r0 & H).
    cbn [RefsAllB.Known05b RefsAll.Known05a run_op] in *. unfold welem, wbind in *. rewrite H in *.
    destruct r0 as [c|e]; [|exact HK5]. cbn in *. apply negb_false_iff in HK5. apply negb_false_iff.
    unfold e_create_copied_sub_element_at in H. destruct (h =? other); [discriminate H|].
    wk H. wk H. unfold raw_create_copied_sub_element_at in H.
    wk H. match goal with E : get_node h w = _ |- _ => apply get_node_inv in E as (n & Hn & Q & _); injection Q as -> end.
    wk H. wk H. match goal with E : calc_element_insert_range T n _ _ w = Val (OK ?rr, _) |- _ => destruct rr as (rs, re) end.
    destruct ((rs <=? pos) && (pos <=? re)); [|discriminate H].
    match goal with E : model_of h w = Val (OK ?mm, w) |- _ => rename E into Emod; rename mm into m end.
    eapply copy_clean_c_b; eauto. apply model_of_mreach; assumption.
Qed.

End CopyC.
