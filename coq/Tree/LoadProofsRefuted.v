(* Tree/LoadProofsRefuted.v — executable facts about the merge model on the tiny table set of MergeSpec.v:
     * non-vacuity of C09: the two partial views of TinyM.master merge to the master in both load orders
       (up to the order of siblings), with the normalised membership;
     * conflicting files are rejected (non-splittable divergence -> InvalidFileMerge, overlapping path ->
       OverlappingDataError, duplicate path in one file -> OverlappingDataError);
     * C11 REFUTED for merge conflicts: a load rejected with InvalidFileMerge changes a node that existed before
       (the rollback `root.remove_from_file(new_file)` does not undo the membership given to the elements that only
       the model has).
   All by vm_compute. *)
From AV Require Import Base.Bytes Base.Outcome Hash.HashModel Tree.Heap Tree.Ops Tree.Script Tree.Load Tree.Observe
  Tree.MergeSpec.
From AV Require Xml.Lexer Xml.Parser.
Open Scope string_scope.
Open Scope list_scope.
Open Scope N_scope.
Import TinyM.

Definition results (l : list (string * Parser.etree)) : option (list (out N)) :=
  match load_all l new_world with Val (os, _) => Some os | _ => None end.
Definition final (l : list (string * Parser.etree)) : option htree :=
  match load_all l new_world with Val (_, w) => abs_model w 0 | _ => None end.

(* ---------- non-vacuity: both load orders of the split of TinyM.master ---------- *)
Example master_splittable : exists sp, splittable_in tiny (4, 4) 2 = Val sp /\ sp = true.
Proof. exists true. vm_compute. auto. Qed.

Example merge_01_results : results [("f0", file0); ("f1", file1)] = Some [OK 0; OK 1].
Proof. vm_compute. reflexivity. Qed.

(* order 0,1: the merged model IS the master (v and q were appended after what file 0 had) *)
Example merge_01 : final [("f0", file0); ("f1", file1)] = Some (expected None master).
Proof. vm_compute. reflexivity. Qed.

(* order 1,0: file names are ids in load order, so file "f1" is file 0 here: the master with the two ids swapped and
   u after v *)
Definition master_10 : mtree :=
  mplain nAUTOSAR [0; 1]
    [mplain nPKGS [0; 1]
       [mnamed nPKG "p" [0; 1]
          [mplain nELEMENTS [0; 1]
             [mnamed nSYSTEM "s" [0; 1] [mnamed nSPROPS "x" [0; 1] []];
              mnamed nUNIT "v" [0] [];
              mnamed nUNIT "u" [1] []]];
        mnamed nPKG "q" [0] []]].

Example merge_10 : final [("f1", file1); ("f0", file0)] = Some (expected None master_10).
Proof. vm_compute. reflexivity. Qed.

(* the index after the merge: every path once, in both orders the same paths *)
Definition paths (l : list (string * Parser.etree)) : option (list (list N)) :=
  match load_all l new_world with
  | Val (_, w) => match nth_opt (w_models w) 0 with Some x => Some (map fst (m_idents x)) | None => None end
  | _ => None
  end.
Example merge_01_paths :
  paths [("f0", file0); ("f1", file1)] = Some [BS "/p"; BS "/p/s"; BS "/p/s/x"; BS "/p/u"; BS "/p/v"; BS "/q"].
Proof. vm_compute. reflexivity. Qed.
Example merge_10_paths :
  paths [("f1", file1); ("f0", file0)] = Some [BS "/p"; BS "/p/s"; BS "/p/s/x"; BS "/p/v"; BS "/q"; BS "/p/u"].
Proof. vm_compute. reflexivity. Qed.

(* ---------- conflicts ---------- *)
(* SYSTEM is not splittable: its SPROPS children must agree *)
Definition conf_a : Parser.etree :=
  plain nAUTOSAR [plain nPKGS [named nPKG "p" [plain nELEMENTS [named nUNIT "t" []; named nSYSTEM "s" [named nSPROPS "x" []]]]]].
Definition conf_b : Parser.etree :=
  plain nAUTOSAR [plain nPKGS [named nPKG "p" [plain nELEMENTS [named nSYSTEM "s" [named nSPROPS "y" []]]]]].

Example conflict_rejected : results [("a", conf_a); ("b", conf_b)] = Some [OK 0; ER InvalidFileMerge].
Proof. vm_compute. reflexivity. Qed.
Example conflict_rejected_rev : results [("b", conf_b); ("a", conf_a)] = Some [OK 0; ER InvalidFileMerge].
Proof. vm_compute. reflexivity. Qed.

(* /p/s is a SYSTEM in one file and a UNIT in the other *)
Definition over_b : Parser.etree :=
  plain nAUTOSAR [plain nPKGS [named nPKG "p" [plain nELEMENTS [named nUNIT "s" []]]; named nPKG "new" []]].
Example overlap_rejected : results [("a", conf_a); ("b", over_b)] = Some [OK 0; ER OverlappingDataError].
Proof. vm_compute. reflexivity. Qed.
(* ... and nothing of the rejected file stays (fix b692965) *)
Example overlap_no_trace : final [("a", conf_a); ("b", over_b)] = final [("a", conf_a)].
Proof. vm_compute. reflexivity. Qed.

(* the same path twice in one file *)
Definition dup_b : Parser.etree := plain nAUTOSAR [plain nPKGS [named nPKG "d" []; named nPKG "d" []]].
Example duplicate_path_rejected : results [("b", dup_b)] = Some [ER OverlappingDataError].
Proof. vm_compute. reflexivity. Qed.

(* ---------- C11 refuted for merge conflicts ---------- *)
Definition w_before : world := match load_all [("a", conf_a)] new_world with Val (_, w) => w | _ => new_world end.
Definition w_after : world := match load_tree "b" conf_b w_before with Val (_, w) => w | _ => new_world end.

(* UNIT /p/t is node 6 of the first file *)
Example node_t_before : option_map n_files (w_nodes w_before 6) = Some [].
Proof. vm_compute. reflexivity. Qed.
Example node_t_after : option_map n_files (w_nodes w_after 6) = Some [0].
Proof. vm_compute. reflexivity. Qed.

Lemma load_merge_conflict_changes_state :
  exists (w : world) (e : Parser.etree) (w' : world) (i : id),
    load_tree "b" e w = Val (ER InvalidFileMerge, w') /\ i < w_next w /\ w_nodes w' i <> w_nodes w i.
Proof.
  exists w_before, conf_b, w_after, 6. split; [vm_compute; reflexivity|]. split; [vm_compute; reflexivity|].
  intros H. assert (H2 : option_map n_files (w_nodes w_after 6) = option_map n_files (w_nodes w_before 6)) by (rewrite H; reflexivity).
  rewrite node_t_before, node_t_after in H2. discriminate.
Qed.

(* what stays of the rejected load in this example: exactly the membership of the element that only the model has,
   made explicit by restrict_a_only (effective set of its parent: file 0); every other field of the node is the same *)
Lemma load_merge_conflict_residue :
  exists (w : world) (e : Parser.etree) (w' : world) (i : id) (n : node),
    load_tree "b" e w = Val (ER InvalidFileMerge, w') /\ w_nodes w i = Some n /\ n_files n = [] /\
    w_nodes w' i = Some (set_files n [0]) /\
    w_files w' = w_files w /\ option_map m_idents (nth_opt (w_models w') 0) = option_map m_idents (nth_opt (w_models w) 0).
Proof.
  exists w_before, conf_b, w_after, 6.
  destruct (w_nodes w_before 6) as [n|] eqn:E; [|vm_compute in E; discriminate].
  exists n. split; [vm_compute; reflexivity|]. split; [reflexivity|].
  vm_compute in E. injection E as <-. repeat split; vm_compute; reflexivity.
Qed.
