(* Tree/LoadRefineGood.v — C09: the merges of the class Good are [Clean] (LoadRefinePure.v): the walk of every level
   names every sub-element of the model and of the new file at most once.  With LoadRefineMain.merge_refine this makes
   the union theorems of the pure level statements about the heap model. *)
From Coq Require Import Sorting.Sorted Permutation.
From AV Require Import Base.Bytes Base.Outcome Hash.HashModel Tree.Heap Tree.Ops Tree.Load Tree.MergeSpec Tree.MergePure
  Tree.LoadProofsWalk Tree.MergePureProofsBase Tree.MergePureProofs Tree.MergePureProofsMain Tree.LoadRefinePure
  Tree.LoadRefineBase Tree.LoadRefineHeap Tree.LoadRefineSlots.
From AV Require Xml.Lexer Xml.Parser.
Open Scope string_scope.
Open Scope list_scope.
Open Scope N_scope.

(* ------------------------------------------------------------------ the partition of two keyed lists *)
Lemma partition_a_cnt lb : forall l x,
  (cnt (map fst (merges_of l lb)) x + cnt (a_only_of l lb) x = cnt (map pk_id l) x)%nat.
Proof.
  induction l as [|a l IH]; intros x; [reflexivity|].
  change (a :: l) with ([a] ++ l). rewrite merges_of_app, a_only_of_app, !map_app, !cnt_app, <- (IH x).
  unfold merges_of, a_only_of, has_partner. cbn [flat_map filter map]. rewrite app_nil_r.
  destruct (partner_in lb a) as [b|]; cbn [negb map fst]; rewrite ?cnt_cons, ?cnt_nil; lia.
Qed.

Section PartitionClean.
Variables la0 lb0 : list pk.
Hypothesis K : Keyed la0 lb0.

Lemma partition_clean_a :
  NoDup (map fst (merges_of la0 lb0) ++ a_only_of la0 lb0) /\
  incl (map fst (merges_of la0 lb0) ++ a_only_of la0 lb0) (map pk_id la0).
Proof.
  split.
  - apply nodup_cnt. intros x. rewrite cnt_app, partition_a_cnt. apply nodup_cnt. apply (ky_ida _ _ K).
  - apply incl_cnt. intros x. rewrite cnt_app, partition_a_cnt. auto.
Qed.

Lemma merged_b_in M i : merged_b M i = true <-> In i (map snd M).
Proof.
  unfold merged_b. rewrite existsb_exists. split.
  - intros (p & Hp & E). apply N.eqb_eq in E. subst i. apply in_map. exact Hp.
  - intros H. apply in_map_iff in H as (p & E & Hp). exists p. split; [exact Hp|apply N.eqb_eq; exact E].
Qed.

Lemma merges_snd_in pa i : In i (map snd (merges_of pa lb0)) -> exists a b, In a pa /\ partner_in lb0 a = Some b /\ i = pk_id b.
Proof.
  intros H. apply in_map_iff in H as ([x y] & <- & Hp). unfold merges_of in Hp. apply in_flat_map in Hp as (a & Ha & Hp).
  destruct (partner_in lb0 a) as [b|] eqn:E; [|destruct Hp]. destruct Hp as [[= <- <-]|[]]. exists a, b. auto.
Qed.

Lemma merges_snd_nodup : forall pa, incl pa la0 -> Uniq pa -> NoDup (map snd (merges_of pa lb0)).
Proof.
  induction pa as [|a pa IH]; intros Hi Hu; [constructor|].
  inversion Hu as [|? ? Hk Hu']; subst.
  assert (Hi' : incl pa la0) by (intros z Hz; apply Hi; right; exact Hz).
  assert (Ha : In a la0) by (apply Hi; left; reflexivity).
  change (a :: pa) with ([a] ++ pa). rewrite merges_of_app, map_app. unfold merges_of at 1. cbn [flat_map]. rewrite app_nil_r.
  destruct (partner_in lb0 a) as [b|] eqn:E; cbn [map snd app]; [|apply IH; auto].
  apply partner_in_spec in E as [Hb Hm].
  constructor; [|apply IH; auto].
  intros Hin. apply merged_b_in in Hin. rewrite (merged_b_spec la0 lb0 K pa b Hi' Hb) in Hin.
  apply existsb_exists in Hin as (a' & Ha' & Hm').
  assert (Haa : pmatch a a' = true).
  { eapply (pm_trans la0 lb0 K a b a'); [apply in_a; exact Ha|apply in_b; exact Hb|exact Hm|exact Hm']. }
  rewrite (Hk a' Ha') in Haa. discriminate.
Qed.

Lemma partition_clean_b :
  NoDup (map snd (merges_of la0 lb0) ++ b_only_of la0 lb0) /\
  incl (map snd (merges_of la0 lb0) ++ b_only_of la0 lb0) (map pk_id lb0).
Proof.
  assert (Hb_only : forall x, In x (b_only_of la0 lb0) -> exists b, In b lb0 /\ has_partner la0 b = false /\ x = pk_id b).
  { intros x Hx. unfold b_only_of in Hx. apply in_map_iff in Hx as (b & <- & Hb). apply filter_In in Hb as [Hb Hp].
    exists b. split; [exact Hb|]. split; [apply negb_true_iff; exact Hp|reflexivity]. }
  split.
  - apply nodup_app_intro_g.
    + apply merges_snd_nodup; [apply incl_refl|apply (ky_ua _ _ K)].
    + unfold b_only_of. pose proof (ky_idb _ _ K) as Hn. clear -Hn. induction lb0 as [|b l IH]; cbn [filter map]; [constructor|].
      cbn [map] in Hn. inversion Hn as [|? ? Hnot Hn']; subst. destruct (negb (has_partner la0 b)); [|auto].
      cbn [map]. constructor; [|auto]. intros Hin. apply Hnot. apply in_map_iff in Hin as (b' & E & Hb'). apply filter_In in Hb' as [Hb' _].
      rewrite <- E. apply in_map. exact Hb'.
    + intros x Hx Hx2. destruct (Hb_only x Hx2) as (b & Hb & Hp & ->).
      apply merged_b_in in Hx. rewrite (merged_b_spec la0 lb0 K la0 b (incl_refl _) Hb) in Hx.
      apply existsb_exists in Hx as (a & Ha & Hm).
      assert (Ht : has_partner la0 b = true) by (apply has_partner_true; exists a; auto). congruence.
  - intros x Hx. apply in_app_or in Hx as [Hx|Hx].
    + apply merges_snd_in in Hx as (a & b & _ & E & ->). apply partner_in_spec in E as [Hb _]. apply in_map. exact Hb.
    + destruct (Hb_only x Hx) as (b & Hb & _ & ->). apply in_map. exact Hb.
Qed.
End PartitionClean.

(* ------------------------------------------------------------------ Good masters merge cleanly *)
Section GoodClean.
Variable T : tables.
Variables LATEST defref v : N.
Variable fver : N -> option N.

Lemma Clean_unfold fl a files b nf :
  Clean T LATEST defref fver (S fl) a files b nf =
  (let pty := h_ty a in
   let la := hkeys T defref pty 0 (h_content a) in
   let lb := hkeys T defref pty 0 (h_content b) in
   let version := N.min (p_files_min_version LATEST fver files) (match fver nf with Some v => v | None => LATEST end) in
   match splittable_in T pty version with
   | Val sp =>
     match walk (S (List.length la + List.length lb)) la lb sp (N.of_nat (List.length (h_content a))) 0 la lb (mkWalked [] [] []) with
     | Val (OK wk) =>
       NoDup (map fst (wk_merge wk) ++ wk_a_only wk) /\
       incl (map fst (wk_merge wk) ++ wk_a_only wk) (map k_id la) /\
       NoDup (map snd (wk_merge wk) ++ map fst (wk_b_only wk)) /\
       incl (map snd (wk_merge wk) ++ map fst (wk_b_only wk)) (map k_id lb) /\
       forall ia ib ca cb, In (ia, ib) (wk_merge wk) ->
         nth_opt (h_content a) (N.to_nat ia) = Some (inl ca) -> nth_opt (h_content b) (N.to_nat ib) = Some (inl cb) ->
         Clean T LATEST defref fver fl ca (if negb (is_empty (h_local ca)) then h_local ca else files) cb nf
     | _ => True
     end
   | _ => True
   end).
Proof. reflexivity. Qed.

Lemma map_k_id_inj l : map k_id (map inj l) = map pk_id l.
Proof. rewrite map_map. apply map_ext. intros p. reflexivity. Qed.

Theorem rep_clean : forall fuel t, Good T defref v t -> forall F g inh a,
  (forall f, In f (g :: F) -> fver f = Some v) ->
  ~ In g F -> In g (mfiles t) -> Rep T F inh t a ->
  Clean T LATEST defref fver fuel a (inF F (mfiles t)) (pview g t) g.
Proof.
  induction fuel as [|fl IH]; intros [name ty attrs content comment files] HG F g inh a Hfv HgF Hg HR; [exact I|].
  cbn [mfiles m_fileset] in *.
  apply Good_unfold in HG as (Hs & Hne & (Hsub & (sp & Hsp) & Hnd & Hkind & (kcore & Hks & Hinj & Hid)) & Hkids).
  apply Rep_unfold in HR as (HS & hc & hc' & -> & HI & HP & Hord).
  set (S := inF F files) in *.
  rewrite Clean_unfold. cbn [h_ty h_content]. rewrite pview_unfold. cbn [h_content].
  assert (HfvS : forall f, In f S -> fver f = Some v).
  { intros f Hf. apply Hfv. right. apply inF_in in Hf as [_ Hf]. exact Hf. }
  rewrite (pfmv_on LATEST v fver S HS HfvS), (Hfv g (or_introl eq_refl)), N.min_id. cbv zeta. rewrite Hsp.
  destruct Hkind as [Hleaf|(Hcont & Hkind)].
  - apply (RepItems_leaf _ F S content hc' Hleaf) in HI. subst hc'.
    assert (Hdata : Forall is_data hc).
    { eapply perm_forall; [apply Permutation_sym; exact HP|apply data_items_all_data]. }
    rewrite (hkeys_all_data T defref ty hc Hdata 0).
    rewrite (pview_items_leaf g content Hleaf), (hkeys_all_data T defref ty _ (data_items_all_data content) 0).
    cbn [List.length Nat.add walk]. cbn [wk_merge wk_a_only wk_b_only map app].
    split; [constructor|]. split; [intros x []|]. split; [constructor|]. split; [intros x []|]. intros ia ib ca cb [].
  - set (ks := kids content) in *.
    rewrite Hcont in HI |- *. apply RepItems_elems in HI as (hs' & -> & HF').
    destruct (perm_map_inl hs' hc HP) as (hs & -> & HPs).
    set (R := fun h c => Rep T F (Some S) c h) in *.
    assert (Hca : exists ca, Permutation (filter (present F) ks) ca /\ Forall2 R hs ca).
    { destruct Hord as [Hbag|Heq].
      - destruct (Forall2_perm_l R hs' hs (Permutation_sym HPs) _ HF') as (ca & P & HFa).
        exists ca. split; [exact P|exact HFa].
      - apply map_inl_inj in Heq. subst hs'. exists (filter (present F) ks).
        split; [apply Permutation_refl|exact HF']. }
    destruct Hca as (ca & Pca & HFa).
    set (cb := filter (ing g) ks).
    assert (Ha : incl ca ks).
    { intros c Hc. eapply (filter_incl (present F)). eapply Permutation_in; [apply Permutation_sym; exact Pca|exact Hc]. }
    assert (Hb : incl cb ks) by apply filter_incl.
    assert (Na : NoDup ca) by (eapply Permutation_NoDup; [exact Pca|apply NoDup_filter; exact Hnd]).
    assert (Nb : NoDup cb) by (apply NoDup_filter; exact Hnd).
    rewrite pview_items_elems. fold cb.
    rewrite (hkeys_elems T defref ty kcore hs ca).
    2:{ eapply Forall2_impl_in; [exact HFa|]. intros h c Hc Hr i. destruct (Hks c (Ha c Hc)) as [K1 _]. eapply K1. exact Hr. }
    rewrite (hkeys_elems T defref ty kcore (map (pview g) cb) cb).
    2:{ apply Forall2_map_self. intros c Hc i. destruct (Hks c (Hb c Hc)) as [_ K2]. apply K2.
        apply filter_In in Hc as [_ Hc]. apply set_mem_in. exact Hc. }
    set (pa := pks_from 0 (map kcore ca)). set (pb := pks_from 0 (map kcore cb)).
    pose proof (keyed_pks kcore ks Hinj Hid ca cb Ha Hb Na Nb) as K. fold pa pb in K.
    rewrite !map_length.
    assert (Lpa : List.length pa = List.length ca) by (unfold pa; rewrite pks_from_length, map_length; reflexivity).
    assert (Lpb : List.length pb = List.length cb) by (unfold pb; rewrite pks_from_length, map_length; reflexivity).
    assert (Hcb : forall c, In c cb <-> In c ks /\ ing g c = true) by (intros c; apply filter_In).
    assert (NC : NoConflict pa pb sp).
    { destruct Hkind as [(Hnb & Hall)|[(Hbag & Hsp1 & _)|(Hnb & Hsp1 & _)]].
      - right. intros a Hin _. apply in_pks_from in Hin as (k & c & Hk & ->).
        assert (Hc : In c ca) by (eapply nth_error_In; eauto).
        assert (Hcb' : In c cb).
        { apply Hcb. split; [apply Ha; exact Hc|]. unfold ing. apply set_mem_in. rewrite (Hall c (Ha c Hc)). exact Hg. }
        destruct (in_nth_error cb c Hcb') as (j & Hj).
        pose proof (partner_b_some kcore ks Hinj cb Hb Nb (N.of_nat k) j c (Ha c Hc) Hj) as Ep. fold pb in Ep.
        unfold has_partner. rewrite Ep. reflexivity.
      - left. rewrite Hsp in Hsp1. injection Hsp1 as ->. reflexivity.
      - left. rewrite Hsp in Hsp1. injection Hsp1 as ->. reflexivity. }
    destruct (walk_partition pa pb sp (N.of_nat (List.length hs)) K NC) as (wk & Ew & Em & Ea & Eb).
    rewrite Ew, Em, Ea, Eb, !map_k_id_inj.
    destruct (partition_clean_a pa pb K) as (A1 & A2). destruct (partition_clean_b pa pb K) as (B1 & B2).
    split; [exact A1|]. split; [exact A2|]. split; [exact B1|]. split; [exact B2|].
    intros ia ib ca0 cb0 Hin Hna Hnb.
    unfold merges_of in Hin. apply in_flat_map in Hin as (a & Hapa & Hin).
    destruct (partner_in pb a) as [b|] eqn:Ep; [|destruct Hin]. destruct Hin as [[= <- <-]|[]].
    apply in_pks_from in Hapa as (k & c & Hk & ->).
    assert (Hc : In c ca) by (eapply nth_error_In; eauto).
    assert (Hck : In c ks) by (apply Ha; exact Hc).
    apply partner_in_spec in Ep as [Hbpb Hm]. apply in_pks_from in Hbpb as (j & c' & Hj & ->).
    rewrite pmatch_core in Hm. apply Hinj in Hm; [|exact Hck|apply Hb; eapply nth_error_In; eauto]. subst c'.
    cbn [pk_id pk_of] in Hna, Hnb. rewrite Nat2N.id, nth_opt_map_inl in Hna, Hnb.
    rewrite nth_error_map, Hj in Hnb. cbn [option_map] in Hnb. injection Hnb as <-.
    destruct (nth_error hs k) as [h|] eqn:Eh; cbn [option_map] in Hna; [|discriminate]. injection Hna as <-.
    destruct (Forall2_nth R hs ca k h HFa Eh) as (c0 & Hc0 & Hr). rewrite Hk in Hc0. injection Hc0 as <-.
    destruct (Rep_shape T F (Some S) c h Hr) as (_ & _ & Hloc & HneSc).
    rewrite Hloc, (eff_of_norm S (inF F (mfiles c)) HneSc).
    assert (Hcb' : In c cb) by (eapply nth_error_In; eauto).
    apply Hcb in Hcb' as (_ & Hgc).
    apply (IH c (Hkids c Hck) F g (Some S) h Hfv HgF); [apply set_mem_in; exact Hgc|exact Hr].
Qed.

End GoodClean.
