(* Tree/MergePureProofsKeys.v — the semantic hypothesis [KeyStable] of the class Good (the merge key of a sub-element is
   the same in every view of it) follows from the shape of the master: an element whose type is not named has the key
   (name, no item name); an element whose type is named, that starts with a SHORT-NAME leaf which is in all of its
   files, has the key (name, text of the SHORT-NAME) — provided no sub-element is called DEFINITION-REF.
   Then: the tiny master of MergeSpec.TinyM is in the class (non-vacuity of pmerge_rep / load_all_rep). *)
From Coq Require Import Sorting.Sorted Permutation.
From AV Require Import Base.Bytes Base.Outcome Hash.HashModel Tree.Heap Tree.Ops Tree.Load Tree.MergeSpec Tree.MergePure
  Tree.LoadProofsWalk Tree.MergePureProofsBase Tree.MergePureProofs Tree.MergePureProofsMain.
From AV Require Xml.Lexer Xml.Parser.
Open Scope string_scope.
Open Scope list_scope.
Open Scope N_scope.

Section Keys.
Variable T : tables.
Variables defref v : N.

Lemma h_first_named_none name l :
  (forall h, In (inl h) l -> h_name h <> name) -> h_first_named name l = None.
Proof.
  induction l as [|[h|d] r IH]; intros H; cbn [h_first_named]; [reflexivity| |].
  - destruct (h_name h =? name) eqn:E; [apply N.eqb_eq in E; exfalso; eapply H; [left; reflexivity|exact E]|].
    apply IH. intros h0 H0. apply H. right. exact H0.
  - apply IH. intros h0 H0. apply H. right. exact H0.
Qed.

Lemma RepItems_names (R : list N -> mtree -> htree -> Prop) F S l hl :
  (forall S c h, R S c h -> h_name h = m_name c) ->
  RepItems R F S l hl -> forall h, In (inl h) hl -> exists c, In c (kids l) /\ h_name h = m_name c.
Proof.
  intros HR. revert hl. induction l as [|[c|d] r IH]; intros hl; cbn [RepItems].
  - intros -> h [].
  - destruct (present F c).
    + intros (h0 & hr & -> & H1 & H2) h [[= <-]|Hin].
      * exists c. split; [left; reflexivity|eapply HR; eauto].
      * destruct (IH hr H2 h Hin) as (c0 & Hc0 & E). exists c0. split; [right; exact Hc0|exact E].
    + intros H h Hin. destruct (IH hl H h Hin) as (c0 & Hc0 & E). exists c0. split; [right; exact Hc0|exact E].
  - intros (hr & -> & H) h [[=]|Hin]. destruct (IH hr H h Hin) as (c0 & Hc0 & E). exists c0. split; [exact Hc0|exact E].
Qed.

Lemma pview_items_names g l h : In (inl h) (pview_items g l) -> exists c, In c (kids l) /\ h_name h = m_name c.
Proof.
  induction l as [|[c|d] r IH]; cbn [pview_items]; [intros []| |].
  - destruct (set_mem g (mfiles c)).
    + intros [[= <-]|Hin]; [exists c; split; [left; reflexivity|apply pview_name]|].
      destruct (IH Hin) as (c0 & H0 & E). exists c0. split; [right; exact H0|exact E].
    + intros Hin. destruct (IH Hin) as (c0 & H0 & E). exists c0. split; [right; exact H0|exact E].
  - intros [[=]|Hin]. destruct (IH Hin) as (c0 & H0 & E). exists c0. split; [exact H0|exact E].
Qed.

(* no sub-element is called DEFINITION-REF: no view has a DEFINITION-REF *)
Lemma defref_none_rep name ty attrs content comment files F inh h :
  (forall c, In c (kids content) -> m_name c <> defref) ->
  Rep T F inh (MNode name ty attrs content comment files) h -> h_defref T defref h = Val None.
Proof.
  intros Hn HR. apply Rep_unfold in HR as (_ & hc & hc' & -> & HI & HP & _).
  unfold h_defref. cbn [h_content]. rewrite h_first_named_none; [reflexivity|].
  intros h0 Hin E. assert (Hin' : In (inl h0) hc') by (eapply Permutation_in; eauto).
  destruct (RepItems_names _ F _ content hc' (fun S c h HRc => proj1 (Rep_shape T F (Some S) c h HRc)) HI h0 Hin') as (c & Hc & E2).
  apply (Hn c Hc). congruence.
Qed.

Lemma defref_none_pview g name ty attrs content comment files :
  (forall c, In c (kids content) -> m_name c <> defref) ->
  h_defref T defref (pview g (MNode name ty attrs content comment files)) = Val None.
Proof.
  intros Hn. rewrite pview_unfold. unfold h_defref. cbn [h_content]. rewrite h_first_named_none; [reflexivity|].
  intros h0 Hin E. destruct (pview_items_names g content h0 Hin) as (c & Hc & E2). apply (Hn c Hc). congruence.
Qed.

(* an element whose type is not named *)
Lemma keystable_unnamed pty name ty attrs content comment files idx sub :
  is_named T ty = Val false ->
  find_sub_element T pty name 4294967295 = Val (Some (sub, idx)) ->
  (forall c, In c (kids content) -> m_name c <> defref) ->
  KeyStable T defref pty (MNode name ty attrs content comment files) (mkCore name false None None idx).
Proof.
  intros Hnamed Hfind Hn. split.
  - intros F inh h HR i. pose proof (defref_none_rep _ _ _ _ _ _ F inh h Hn HR) as Hd.
    apply Rep_unfold in HR as (_ & hc & hc' & -> & _).
    unfold hkey, inj, pk_of. cbn [h_name h_ty pk_id pk_name pk_ident pk_item pk_defref pk_idx c_name c_ident c_item c_defref c_idx].
    f_equal.
    + unfold h_is_identifiable. cbn [h_ty]. rewrite Hnamed. reflexivity.
    + unfold h_item_name. cbn [h_ty]. rewrite Hnamed. reflexivity.
    + exact Hd.
    + rewrite Hfind. reflexivity.
  - intros g Hg i. pose proof (defref_none_pview g name ty attrs content comment files Hn) as Hd.
    rewrite pview_unfold in *.
    unfold hkey, inj, pk_of. cbn [h_name h_ty pk_id pk_name pk_ident pk_item pk_defref pk_idx c_name c_ident c_item c_defref c_idx].
    f_equal.
    + unfold h_is_identifiable. cbn [h_ty]. rewrite Hnamed. reflexivity.
    + unfold h_item_name. cbn [h_ty]. rewrite Hnamed. reflexivity.
    + exact Hd.
    + rewrite Hfind. reflexivity.
Qed.

(* an element whose type is named and that starts with its SHORT-NAME *)
Lemma keystable_named pty name ty attrs rest comment files idx sub tys nm sattrs scomment :
  is_named T ty = Val true ->
  content_mode T tys = Val MCharacters ->
  find_sub_element T pty name 4294967295 = Val (Some (sub, idx)) ->
  files <> [] ->
  (forall c, In c (kids rest) -> m_name c <> defref) -> name_short_name T <> defref ->
  let s := MNode (name_short_name T) tys sattrs [inr (Parser.DString nm)] scomment files in
  KeyStable T defref pty (MNode name ty attrs (inl s :: rest) comment files) (mkCore name true (Some nm) None idx).
Proof.
  intros Hnamed Hmode Hfind Hne Hn Hsn s.
  assert (Hn' : forall c, In c (kids (inl s :: rest)) -> m_name c <> defref).
  { intros c [<-|Hc]; [exact Hsn|apply Hn; exact Hc]. }
  split.
  - intros F inh h HR i. pose proof (defref_none_rep _ _ _ _ _ _ F inh h Hn' HR) as Hd.
    apply Rep_unfold in HR as (HS & hc & hc' & -> & HI & HP & Hord).
    assert (Hnb : ~ bag_ty T ty) by (intros [_ H]; rewrite Hnamed in H; discriminate).
    destruct Hord as [Hb|Heq]; [contradiction|subst hc].
    cbn [RepItems] in HI.
    assert (Hp : present F s = true).
    { unfold present, s. cbn [mfiles m_fileset]. apply negb_true_iff, is_empty_false. exact HS. }
    rewrite Hp in HI. destruct HI as (h0 & hr & -> & HRs & _).
    apply Rep_unfold in HRs as (_ & sc & sc' & -> & HIs & HPs & _).
    cbn [RepItems] in HIs. destruct HIs as (hr0 & -> & ->).
    apply Permutation_sym, Permutation_length_1_inv in HPs. subst sc.
    unfold hkey, inj, pk_of. cbn [h_name h_ty pk_id pk_name pk_ident pk_item pk_defref pk_idx c_name c_ident c_item c_defref c_idx].
    f_equal.
    + unfold h_is_identifiable. cbn [h_ty h_content h_name]. rewrite Hnamed. cbn [negb]. rewrite N.eqb_refl. reflexivity.
    + unfold h_item_name. cbn [h_ty h_content h_name]. rewrite Hnamed. cbn [negb]. rewrite N.eqb_refl.
      unfold h_character_data. cbn [h_content h_ty to_hc]. rewrite Hmode. cbn [bind]. reflexivity.
    + exact Hd.
    + rewrite Hfind. reflexivity.
  - intros g Hg i. pose proof (defref_none_pview g name ty attrs (inl s :: rest) comment files Hn') as Hd.
    rewrite pview_unfold in *. cbn [pview_items] in *.
    assert (Hgs : set_mem g (mfiles s) = true) by (apply set_mem_in; exact Hg).
    rewrite Hgs in *. unfold s at 1. rewrite pview_unfold. cbn [pview_items].
    unfold hkey, inj, pk_of. cbn [h_name h_ty pk_id pk_name pk_ident pk_item pk_defref pk_idx c_name c_ident c_item c_defref c_idx].
    f_equal.
    + unfold h_is_identifiable. cbn [h_ty h_content h_name]. rewrite Hnamed. cbn [negb]. rewrite N.eqb_refl. reflexivity.
    + unfold h_item_name. cbn [h_ty h_content h_name]. rewrite Hnamed. cbn [negb]. rewrite N.eqb_refl.
      unfold h_character_data. cbn [h_content h_ty to_hc]. rewrite Hmode. cbn [bind]. reflexivity.
    + unfold s in Hd. rewrite pview_unfold in Hd. exact Hd.
    + rewrite Hfind. reflexivity.
Qed.

(* ---------- an element keyed by its DEFINITION-REF (parameter and reference values of ECUC containers, ...) ---------- *)
Lemma h_first_named_unique name l x :
  In (inl x) l -> h_name x = name -> (forall y, In (inl y) l -> h_name y = name -> y = x) -> h_first_named name l = Some x.
Proof.
  induction l as [|[h|d] r IH]; cbn [In h_first_named]; [intros []| |].
  - intros Hin Hx Hu. destruct (h_name h =? name) eqn:E.
    + apply N.eqb_eq in E. f_equal. apply Hu; [left; reflexivity|exact E].
    + destruct Hin as [[= ->]|Hin]; [apply N.eqb_neq in E; contradiction|].
      apply IH; [exact Hin|exact Hx|]. intros y Hy. apply Hu. right. exact Hy.
  - intros [[=]|Hin] Hx Hu. apply IH; [exact Hin|exact Hx|]. intros y Hy. apply Hu. right. exact Hy.
Qed.

Lemma RepItems_present (R : list N -> mtree -> htree -> Prop) F S l hl c :
  RepItems R F S l hl -> In c (kids l) -> present F c = true -> exists h, In (inl h) hl /\ R S c h.
Proof.
  revert hl. induction l as [|[c0|d] r IH]; intros hl; cbn [RepItems kids flat_map app In].
  - intros _ [].
  - destruct (present F c0) eqn:Ep.
    + intros (h0 & hr & -> & H1 & H2) [<-|Hc] Hp; [exists h0; split; [left; reflexivity|exact H1]|].
      destruct (IH hr H2 Hc Hp) as (h & Hin & Hr). exists h. split; [right; exact Hin|exact Hr].
    + intros H [<-|Hc] Hp; [congruence|]. apply (IH hl H Hc Hp).
  - intros (hr & -> & H) Hc Hp. destruct (IH hr H Hc Hp) as (h & Hin & Hr). exists h. split; [right; exact Hin|exact Hr].
Qed.

Lemma RepItems_in_inv (R : list N -> mtree -> htree -> Prop) F S l hl h :
  RepItems R F S l hl -> In (inl h) hl -> exists c, In c (kids l) /\ R S c h.
Proof.
  revert hl. induction l as [|[c0|d] r IH]; intros hl; cbn [RepItems kids flat_map app].
  - intros -> [].
  - destruct (present F c0).
    + intros (h0 & hr & -> & H1 & H2) [[= <-]|Hin]; [exists c0; split; [left; reflexivity|exact H1]|].
      destruct (IH hr H2 Hin) as (c & Hc & Hr). exists c. split; [right; exact Hc|exact Hr].
    + intros H Hin. destruct (IH hl H Hin) as (c & Hc & Hr). exists c. split; [right; exact Hc|exact Hr].
  - intros (hr & -> & H) [[=]|Hin]. destruct (IH hr H Hin) as (c & Hc & Hr). exists c. split; [exact Hc|exact Hr].
Qed.

Lemma pview_items_in_inv g l h : In (inl h) (pview_items g l) -> exists c, In c (kids l) /\ set_mem g (mfiles c) = true /\ h = pview g c.
Proof.
  induction l as [|[c|d] r IH]; cbn [pview_items kids flat_map app]; [intros []| |].
  - destruct (set_mem g (mfiles c)) eqn:E.
    + intros [[= <-]|Hin]; [exists c; split; [left; reflexivity|auto]|].
      destruct (IH Hin) as (c0 & H0 & E0). exists c0. split; [right; exact H0|exact E0].
    + intros Hin. destruct (IH Hin) as (c0 & H0 & E0). exists c0. split; [right; exact H0|exact E0].
  - intros [[=]|Hin]. destruct (IH Hin) as (c0 & H0 & E0). exists c0. split; [exact H0|exact E0].
Qed.
Lemma pview_items_present g l c : In c (kids l) -> set_mem g (mfiles c) = true -> In (inl (pview g c)) (pview_items g l).
Proof.
  induction l as [|[c0|d] r IH]; cbn [pview_items kids flat_map app In]; [intros []| |].
  - intros [<-|Hc] Hg; [rewrite Hg; left; reflexivity|]. destruct (set_mem g (mfiles c0)); [right|]; auto.
  - intros Hc Hg. right. auto.
Qed.

(* a leaf with one text item has one view *)
Lemma Rep_text_leaf name ty attrs dr comment files F inh h :
  Rep T F inh (MNode name ty attrs [inr (Parser.DString dr)] comment files) h ->
  h = HNode name ty (hattrs attrs) [inr (DString dr)] comment (norm inh (inF F files)).
Proof.
  intros HR. apply Rep_unfold in HR as (_ & sc & sc' & -> & HIs & HPs & _).
  cbn [RepItems] in HIs. destruct HIs as (hr0 & -> & ->).
  apply Permutation_sym, Permutation_length_1_inv in HPs. subst sc. reflexivity.
Qed.

(* an element whose type is not named and that has exactly one DEFINITION-REF sub-element (anywhere in its content,
   in the files of the element): its merge key is (element name, DEFINITION-REF text) in every view *)
Lemma keystable_defref pty name ty attrs content comment files idx sub tyd dr dattrs dcomment :
  is_named T ty = Val false ->
  content_mode T tyd = Val MCharacters ->
  find_sub_element T pty name 4294967295 = Val (Some (sub, idx)) ->
  files <> [] ->
  let d := MNode defref tyd dattrs [inr (Parser.DString dr)] dcomment files in
  In d (kids content) -> (forall c, In c (kids content) -> m_name c = defref -> c = d) ->
  KeyStable T defref pty (MNode name ty attrs content comment files) (mkCore name false None (Some dr) idx).
Proof.
  intros Hnamed Hmode Hfind Hne d Hd Hu. split.
  - intros F inh h HR i.
    apply Rep_unfold in HR as (HS & hc & hc' & -> & HI & HP & _).
    set (S := inF F files) in *.
    assert (Hp : present F d = true).
    { unfold present, d. cbn [mfiles m_fileset]. apply negb_true_iff, is_empty_false. exact HS. }
    destruct (RepItems_present _ F S content hc' d HI Hd Hp) as (hd & Hhd & HRd).
    pose proof (Rep_text_leaf _ _ _ _ _ _ F (Some S) hd HRd) as Ehd.
    assert (Hfirst : h_first_named defref hc = Some hd).
    { apply h_first_named_unique.
      - eapply Permutation_in; [apply Permutation_sym; exact HP|exact Hhd].
      - rewrite Ehd. reflexivity.
      - intros y Hy Hny. assert (Hy' : In (inl y) hc') by (eapply Permutation_in; eauto).
        destruct (RepItems_in_inv _ F S content hc' y HI Hy') as (c & Hc & HRc).
        destruct (Rep_shape T F (Some S) c y HRc) as (En & _).
        assert (c = d) by (apply Hu; [exact Hc|congruence]). subst c.
        rewrite (Rep_text_leaf _ _ _ _ _ _ F (Some S) y HRc). exact (eq_sym Ehd). }
    unfold hkey, inj, pk_of. cbn [h_name h_ty pk_id pk_name pk_ident pk_item pk_defref pk_idx c_name c_ident c_item c_defref c_idx].
    f_equal.
    + unfold h_is_identifiable. cbn [h_ty]. rewrite Hnamed. reflexivity.
    + unfold h_item_name. cbn [h_ty]. rewrite Hnamed. reflexivity.
    + unfold h_defref. cbn [h_content]. rewrite Hfirst, Ehd. unfold h_character_data. cbn [h_content h_ty]. rewrite Hmode. reflexivity.
    + rewrite Hfind. reflexivity.
  - intros g Hg i. rewrite pview_unfold. cbn [mfiles m_fileset] in Hg.
    assert (Hgd : set_mem g (mfiles d) = true) by (apply set_mem_in; exact Hg).
    assert (Evd : pview g d = HNode defref tyd (hattrs dattrs) [inr (DString dr)] dcomment []) by (unfold d; rewrite pview_unfold; reflexivity).
    assert (Hfirst : h_first_named defref (pview_items g content) = Some (pview g d)).
    { apply h_first_named_unique.
      - apply pview_items_present; assumption.
      - rewrite Evd. reflexivity.
      - intros y Hy Hny. destruct (pview_items_in_inv g content y Hy) as (c & Hc & _ & ->).
        rewrite pview_name in Hny. rewrite (Hu c Hc Hny). reflexivity. }
    unfold hkey, inj, pk_of. cbn [h_name h_ty pk_id pk_name pk_ident pk_item pk_defref pk_idx c_name c_ident c_item c_defref c_idx].
    f_equal.
    + unfold h_is_identifiable. cbn [h_ty]. rewrite Hnamed. reflexivity.
    + unfold h_item_name. cbn [h_ty]. rewrite Hnamed. reflexivity.
    + unfold h_defref. cbn [h_content]. rewrite Hfirst, Evd. unfold h_character_data. cbn [h_content h_ty]. rewrite Hmode. reflexivity.
    + rewrite Hfind. reflexivity.
Qed.

End Keys.

(* ====================================================================== the tiny master is in the class *)
Module TinyGood.
Import TinyM.
Local Notation G := (Good tiny DEFREF 2).

Ltac sset_tac := unfold sset; repeat (constructor; try (cbv; reflexivity)).

Lemma good_leaf name ty d fs :
  sset fs -> fs <> [] -> (exists sp, splittable_in tiny ty 2 = Val sp) -> G (MNode name ty [] [inr d] None fs).
Proof.
  intros Hs Hne Hsp. apply Good_unfold. split; [exact Hs|]. split; [exact Hne|]. split; [|intros c []].
  split; [intros c []|]. split; [exact Hsp|]. split; [constructor|]. split; [left; reflexivity|].
  exists (fun _ => mkCore 0 false None None []). split; [intros c []|]. split; [intros c1 c2 []|intros c1 c2 []].
Qed.

Lemma good_sn s fs : sset fs -> fs <> [] -> G (msn s fs).
Proof. intros. apply good_leaf; auto. exists false. reflexivity. Qed.

Lemma sn_key pty idx sub s fs :
  find_sub_element tiny pty nSHORT 4294967295 = Val (Some (sub, idx)) ->
  KeyStable tiny DEFREF pty (msn s fs) (mkCore nSHORT false None None idx).
Proof. intros Hf. apply keystable_unnamed with (sub := sub); [reflexivity|exact Hf|intros c []]. Qed.

(* a named element that consists of its SHORT-NAME only *)
Lemma good_named_only name s fs :
  sset fs -> fs <> [] ->
  is_named tiny (name, name) = Val true ->
  (exists sp, splittable_in tiny (name, name) 2 = Val sp) ->
  (exists sub, find_sub_element tiny (name, name) nSHORT 4294967295 = Val (Some (sub, [0]))) ->
  G (mnamed name s fs []).
Proof.
  intros Hs Hne Hnamed Hsp (sub & Hf). unfold mnamed. cbn [map]. apply Good_unfold.
  split; [exact Hs|]. split; [exact Hne|]. split.
  - split; [intros c [<-|[]]; apply incl_refl|]. split; [exact Hsp|].
    split; [constructor; [intros []|constructor]|]. split.
    + right. split; [reflexivity|]. left. split.
      * intros [_ H]. rewrite Hnamed in H. discriminate.
      * intros c [<-|[]]. reflexivity.
    + exists (fun _ => mkCore nSHORT false None None [0]). split; [|split].
      * intros c [<-|[]]. eapply sn_key. exact Hf.
      * intros c1 c2 [<-|[]] [<-|[]] _. reflexivity.
      * intros c1 c2 _ _ _. reflexivity.
  - intros c [<-|[]]. apply good_sn; auto.
Qed.

Definition sprops_x := mnamed nSPROPS "x" [0; 1] [].
Definition system_s := mnamed nSYSTEM "s" [0; 1] [sprops_x].
Definition unit_u := mnamed nUNIT "u" [0] [].
Definition unit_v := mnamed nUNIT "v" [1] [].
Definition elements_p := mplain nELEMENTS [0; 1] [system_s; unit_u; unit_v].
Definition pkg_p := mnamed nPKG "p" [0; 1] [elements_p].
Definition pkg_q := mnamed nPKG "q" [1] [].
Definition pkgs := mplain nPKGS [0; 1] [pkg_p; pkg_q].

Lemma master_eq : master = mplain nAUTOSAR [0; 1] [pkgs].
Proof. reflexivity. Qed.

Lemma s01 : sset [0; 1]. Proof. sset_tac. Qed.
Lemma s0 : sset [0]. Proof. sset_tac. Qed.
Lemma s1 : sset [1]. Proof. sset_tac. Qed.

Lemma good_sprops : G sprops_x.
Proof. apply good_named_only; [apply s01|discriminate|reflexivity|exists false; reflexivity|eexists; reflexivity]. Qed.
Lemma good_unit_u : G unit_u.
Proof. apply good_named_only; [apply s0|discriminate|reflexivity|exists false; reflexivity|eexists; reflexivity]. Qed.
Lemma good_unit_v : G unit_v.
Proof. apply good_named_only; [apply s1|discriminate|reflexivity|exists false; reflexivity|eexists; reflexivity]. Qed.
Lemma good_pkg_q : G pkg_q.
Proof. apply good_named_only; [apply s1|discriminate|reflexivity|exists false; reflexivity|eexists; reflexivity]. Qed.

(* keys of named elements (SHORT-NAME first, in all files of the element) *)
Lemma named_key pty name s fs rest idx sub :
  is_named tiny (name, name) = Val true ->
  find_sub_element tiny pty name 4294967295 = Val (Some (sub, idx)) ->
  fs <> [] ->
  (forall c, In c rest -> m_name c <> DEFREF) ->
  KeyStable tiny DEFREF pty (mnamed name s fs rest) (mkCore name true (Some (BS s)) None idx).
Proof.
  intros Hn Hf Hne Hr. unfold mnamed, msn.
  apply (keystable_named tiny DEFREF pty name (name, name) [] (map inl rest) None fs idx sub (3, 3) (BS s) [] None);
    auto; try reflexivity; try discriminate.
  intros c Hc. rewrite kids_map_inl in Hc. apply Hr. exact Hc.
Qed.

Lemma good_system : G system_s.
Proof.
  unfold system_s, mnamed. cbn [map]. apply Good_unfold.
  split; [apply s01|]. split; [discriminate|]. split.
  - split; [intros c [<-|[<-|[]]]; apply incl_refl|]. split; [exists false; reflexivity|].
    split; [constructor; [intros [H|[]]; discriminate|constructor; [intros []|constructor]]|]. split.
    + right. split; [reflexivity|]. left. split; [intros [_ H]; discriminate|].
      intros c [<-|[<-|[]]]; reflexivity.
    + exists (fun c => if m_name c =? nSHORT then mkCore nSHORT false None None [0] else mkCore nSPROPS true (Some (BS "x")) None [1]).
      split; [|split].
      * intros c [<-|[<-|[]]]; cbn [m_name msn N.eqb].
        -- eapply sn_key. reflexivity.
        -- apply (named_key (5, 5) nSPROPS "x" [0; 1] [] [1] (6, 6)); [reflexivity|reflexivity|discriminate|intros c []].
      * intros c1 c2 [<-|[<-|[]]] [<-|[<-|[]]]; cbn; intros H; try reflexivity; discriminate.
      * intros c1 c2 [<-|[<-|[]]] [<-|[<-|[]]]; cbn; intros H; try reflexivity; discriminate.
  - intros c [<-|[<-|[]]]; [apply good_sn; [apply s01|discriminate]|apply good_sprops].
Qed.

Definition elem_core (c : mtree) : core :=
  match m_content c with
  | inl (MNode _ _ _ [inr (Parser.DString s)] _ _) :: _ =>
    mkCore (m_name c) true (Some s) None (if m_name c =? nSYSTEM then [0] else [1])
  | _ => mkCore (m_name c) true None None []
  end.

Lemma good_elements : G elements_p.
Proof.
  unfold elements_p, mplain. cbn [map]. apply Good_unfold.
  split; [apply s01|]. split; [discriminate|]. split.
  - split.
    { intros c [<-|[<-|[<-|[]]]]; cbn; intros x Hx; cbn in *; intuition. }
    split; [exists true; reflexivity|].
    split.
    { constructor; [intros [H|[H|[]]]; discriminate|]. constructor; [intros [H|[]]; discriminate|].
      constructor; [intros []|constructor]. }
    split.
    + right. split; [reflexivity|]. right. left. split; [split; reflexivity|]. split; [reflexivity|].
      intros c [<-|[<-|[<-|[]]]]; eexists; reflexivity.
    + exists elem_core. split; [|split].
      * intros c [<-|[<-|[<-|[]]]]; cbn.
        -- apply (named_key (4, 4) nSYSTEM "s" [0; 1] [sprops_x] [0] (5, 5)); [reflexivity|reflexivity|discriminate|].
           intros c [<-|[]]. discriminate.
        -- apply (named_key (4, 4) nUNIT "u" [0] [] [1] (7, 7)); [reflexivity|reflexivity|discriminate|intros c []].
        -- apply (named_key (4, 4) nUNIT "v" [1] [] [1] (7, 7)); [reflexivity|reflexivity|discriminate|intros c []].
      * intros c1 c2 [<-|[<-|[<-|[]]]] [<-|[<-|[<-|[]]]]; vm_compute; intros H; try reflexivity; discriminate.
      * intros c1 c2 [<-|[<-|[<-|[]]]] [<-|[<-|[<-|[]]]]; vm_compute; intros H; try reflexivity; discriminate.
  - intros c [<-|[<-|[<-|[]]]]; [apply good_system|apply good_unit_u|apply good_unit_v].
Qed.

Lemma elements_key : KeyStable tiny DEFREF (2, 2) elements_p (mkCore nELEMENTS false None None [1]).
Proof.
  apply keystable_unnamed with (sub := (4, 4)); [reflexivity|reflexivity|].
  intros c [<-|[<-|[<-|[]]]]; discriminate.
Qed.

Lemma good_pkg_p : G pkg_p.
Proof.
  unfold pkg_p, mnamed. cbn [map]. apply Good_unfold.
  split; [apply s01|]. split; [discriminate|]. split.
  - split; [intros c [<-|[<-|[]]]; apply incl_refl|]. split; [exists false; reflexivity|].
    split; [constructor; [intros [H|[]]; discriminate|constructor; [intros []|constructor]]|]. split.
    + right. split; [reflexivity|]. left. split; [intros [_ H]; discriminate|].
      intros c [<-|[<-|[]]]; reflexivity.
    + exists (fun c => if m_name c =? nSHORT then mkCore nSHORT false None None [0] else mkCore nELEMENTS false None None [1]).
      split; [|split].
      * intros c [<-|[<-|[]]]; cbn [m_name msn N.eqb].
        -- eapply sn_key. reflexivity.
        -- apply elements_key.
      * intros c1 c2 [<-|[<-|[]]] [<-|[<-|[]]]; cbn; intros H; try reflexivity; discriminate.
      * intros c1 c2 [<-|[<-|[]]] [<-|[<-|[]]]; cbn; intros H; try reflexivity; discriminate.
  - intros c [<-|[<-|[]]]; [apply good_sn; [apply s01|discriminate]|apply good_elements].
Qed.

Definition pkg_core (c : mtree) : core :=
  match m_content c with
  | inl (MNode _ _ _ [inr (Parser.DString s)] _ _) :: _ => mkCore (m_name c) true (Some s) None [0]
  | _ => mkCore (m_name c) true None None []
  end.

Lemma good_pkgs : G pkgs.
Proof.
  unfold pkgs, mplain. cbn [map]. apply Good_unfold.
  split; [apply s01|]. split; [discriminate|]. split.
  - split.
    { intros c [<-|[<-|[]]]; cbn; intros x Hx; cbn in *; intuition. }
    split; [exists true; reflexivity|].
    split; [constructor; [intros [H|[]]; discriminate|constructor; [intros []|constructor]]|]. split.
    + right. split; [reflexivity|]. right. left. split; [split; reflexivity|]. split; [reflexivity|].
      intros c [<-|[<-|[]]]; eexists; reflexivity.
    + exists pkg_core. split; [|split].
      * intros c [<-|[<-|[]]]; cbn.
        -- apply (named_key (1, 1) nPKG "p" [0; 1] [elements_p] [0] (2, 2)); [reflexivity|reflexivity|discriminate|].
           intros c [<-|[]]. discriminate.
        -- apply (named_key (1, 1) nPKG "q" [1] [] [0] (2, 2)); [reflexivity|reflexivity|discriminate|intros c []].
      * intros c1 c2 [<-|[<-|[]]] [<-|[<-|[]]]; vm_compute; intros H; try reflexivity; discriminate.
      * intros c1 c2 [<-|[<-|[]]] [<-|[<-|[]]]; vm_compute; intros H; try reflexivity; discriminate.
  - intros c [<-|[<-|[]]]; [apply good_pkg_p|apply good_pkg_q].
Qed.

Theorem master_good : G master.
Proof.
  rewrite master_eq. unfold mplain. cbn [map]. apply Good_unfold.
  split; [apply s01|]. split; [discriminate|]. split.
  - split; [intros c [<-|[]]; apply incl_refl|]. split; [exists true; reflexivity|].
    split; [constructor; [intros []|constructor]|]. split.
    + right. split; [reflexivity|]. left. split; [intros [H _]; discriminate|]. intros c [<-|[]]. reflexivity.
    + exists (fun _ => mkCore nPKGS false None None [0]). split; [|split].
      * intros c [<-|[]]. apply keystable_unnamed with (sub := (1, 1)); [reflexivity|reflexivity|].
        intros c [<-|[<-|[]]]; discriminate.
      * intros c1 c2 [<-|[]] [<-|[]] _. reflexivity.
      * intros c1 c2 _ _ _. reflexivity.
  - intros c [<-|[]]. apply good_pkgs.
Qed.

(* hence the theorem applies: loading the views of the files 0 and 1 of the tiny master purely, in both orders *)
Corollary master_loads_01 :
  exists a, load_all_pure tiny LATEST DEFREF (fun _ => Some 2) 10 master [0] (first_view 0 master) [1] = Val (OK a) /\
            Rep tiny [1; 0] None master a.
Proof.
  apply (load_all_rep tiny LATEST DEFREF 2 (fun _ => Some 2) (fun _ => eq_refl) 10 master).
  - vm_compute. lia.
  - apply master_good.
  - constructor; [intros [H|[]]; discriminate|constructor; [intros []|constructor]].
  - intros g [<-|[]]. right. left. reflexivity.
  - apply first_view_rep with (defref := DEFREF) (v := 2); [apply master_good|left; reflexivity].
Qed.

End TinyGood.

(* ====================================================================== Rep, when all files are loaded, is `expected` *)
Section Expected.
Variable T : tables.
Variables defref v : N.

Fixpoint expected_items (p : list N) (l : list (mtree + Parser.cdata)) : list (htree + cdata) :=
  match l with
  | [] => []
  | inl c :: r => inl (expected (Some p) c) :: expected_items p r
  | inr d :: r => inr (to_hc d) :: expected_items p r
  end.

Lemma expected_unfold inh name ty attrs content comment files :
  expected inh (MNode name ty attrs content comment files) =
  HNode name ty (hattrs attrs) (expected_items files content) comment
        (match inh with Some p => if set_eqb p files then [] else files | None => files end).
Proof.
  cbn [expected]. f_equal.
  induction content as [|[c|d] r IH]; cbn [expected_items]; [reflexivity| |]; rewrite IH; reflexivity.
Qed.

(* every element of the master is in some loaded file *)
Fixpoint covers (F : list N) (t : mtree) {struct t} : Prop :=
  match t with
  | MNode _ _ _ content _ files =>
    incl files F /\
    (fix all (l : list (mtree + Parser.cdata)) : Prop :=
       match l with [] => True | inl c :: r => covers F c /\ all r | inr _ :: r => all r end) content
  end.

Lemma covers_unfold F name ty attrs content comment files :
  covers F (MNode name ty attrs content comment files) <-> (incl files F /\ forall c, In c (kids content) -> covers F c).
Proof.
  cbn [covers].
  assert (E : forall l,
             (fix all (l : list (mtree + Parser.cdata)) : Prop :=
                match l with [] => True | inl c :: r => covers F c /\ all r | inr _ :: r => all r end) l <->
             (forall c, In c (kids l) -> covers F c)).
  { induction l as [|[c|d] r IH]; cbn [kids flat_map app].
    - split; [intros _ c []|auto].
    - rewrite IH. split.
      + intros [H1 H2] c0 [<-|H0]; auto.
      + intros H. split; [apply H; left; reflexivity|]. intros c0 H0. apply H. right. exact H0.
    - exact IH. }
  rewrite E. tauto.
Qed.

Lemma inF_all F files : incl files F -> inF F files = files.
Proof.
  intros Hi. unfold inF. induction files as [|x l IH]; cbn [filter]; [reflexivity|].
  assert (Hx : set_mem x F = true) by (apply set_mem_in; apply Hi; left; reflexivity).
  rewrite Hx. f_equal. apply IH. intros y Hy. apply Hi. right. exact Hy.
Qed.

Lemma subset_spec a b : subset a b = true <-> incl a b.
Proof.
  unfold subset. rewrite forallb_forall. split; intros H x Hx.
  - apply set_mem_in. apply H. exact Hx.
  - apply set_mem_in. apply H. exact Hx.
Qed.

Lemma set_eqb_bytes p files : sset p -> sset files -> set_eqb p files = bytes_eqb p files.
Proof.
  intros Hp Hf. destruct (bytes_eqb p files) eqn:E.
  - apply bytes_eqb_spec in E. subst. unfold set_eqb. rewrite (proj2 (subset_spec files files) (incl_refl _)). reflexivity.
  - destruct (set_eqb p files) eqn:E2; [|reflexivity]. exfalso.
    unfold set_eqb in E2. apply andb_true_iff in E2 as [H1 H2]. apply subset_spec in H1, H2.
    assert (p = files) by (apply sset_ext; auto; intros x; split; auto).
    subst. rewrite bytes_eqb_refl in E. discriminate.
Qed.

Theorem Rep_expected n : forall t, (depth t <= n)%nat -> Good T defref v t -> forall F inh h,
  covers F t -> (forall p, inh = Some p -> sset p) -> Rep T F inh t h -> hperm h (expected inh t).
Proof.
  induction n as [|n IH]; intros [name ty attrs content comment files] Hd HG F inh h Hc Hinh HR; rewrite depth_unfold in Hd; [lia|].
  apply Good_unfold in HG as (Hs & Hne & _ & Hkids). apply covers_unfold in Hc as (Hinc & Hck).
  apply Rep_unfold in HR as (_ & hc & hc' & -> & HI & HP & _).
  rewrite (inF_all F files Hinc) in *. rewrite expected_unfold.
  replace (match inh with Some p => if set_eqb p files then [] else files | None => files end) with (norm inh files).
  2:{ unfold norm. destruct inh as [p|]; [|reflexivity]. rewrite (set_eqb_bytes p files (Hinh p eq_refl) Hs). reflexivity. }
  assert (HF : Forall2 hperm_item hc' (expected_items files content)).
  { assert (Hall : forall c, In c (kids content) -> (depth c <= n)%nat /\ Good T defref v c /\ covers F c).
    { intros c Hin. split; [|split; [apply Hkids; exact Hin|apply Hck; exact Hin]].
      apply kids_in in Hin. apply depth_items_in in Hin. lia. }
    clear Hd Hkids Hck HP. revert hc' HI. induction content as [|[c|d] r IHr]; intros hc' HI; cbn [RepItems expected_items] in *.
    - subst. constructor.
    - destruct (Hall c) as (Hdc & HGc & Hcc); [left; reflexivity|].
      assert (Hp : present F c = true).
      { unfold present. destruct c as [cn cty ca cc ccm cf]. apply covers_unfold in Hcc as (Hic & _).
        apply Good_unfold in HGc as (_ & Hnec & _). cbn [mfiles m_fileset]. rewrite (inF_all F cf Hic).
        destruct cf; [congruence|reflexivity]. }
      rewrite Hp in HI. destruct HI as (h0 & hr & -> & HRc & HIr).
      constructor.
      + constructor. apply (IH c Hdc HGc F (Some files) h0 Hcc); [intros p [= <-]; exact Hs|exact HRc].
      + apply IHr; [|exact HIr]. intros c0 H0. apply Hall. right. exact H0.
    - destruct HI as (hr & -> & HIr). constructor; [constructor|].
      apply IHr; [|exact HIr]. intros c0 H0. apply Hall. exact H0. }
  destruct (Forall2_perm_l hperm_item hc' hc (Permutation_sym HP) _ HF) as (c2' & P2 & F2).
  apply (HPerm name ty (hattrs attrs) hc (expected_items files content) c2' comment (norm inh files) P2 F2).
Qed.

End Expected.

(* ====================================================================== the union theorem, pure level *)
Section Top.
Variable T : tables.
Variables LATEST defref v : N.
Variable fver : N -> option N.
Hypothesis fver_v : forall f, fver f = Some v.

Lemma covers_incl n : forall t, (depth t <= n)%nat -> forall F F', incl F F' -> covers F t -> covers F' t.
Proof.
  induction n as [|n IH]; intros [name ty attrs content comment files] Hd F F' Hi Hc; rewrite depth_unfold in Hd; [lia|].
  apply covers_unfold in Hc as (H1 & H2). apply covers_unfold. split; [intros x Hx; apply Hi, H1, Hx|].
  intros c Hc. apply (IH c) with (F := F); auto. apply kids_in in Hc. apply depth_items_in in Hc. lia.
Qed.

(* Loading the partial views of a master of the class Good in the files g0, gs (any distinct files that together
   contain every element; g0 first), merging each into what was loaded before, yields the master up to the order of
   siblings, with every element exactly once and the normalised local membership = the files that contain it. *)
Theorem pure_union fuel t g0 gs :
  (depth t < fuel)%nat -> Good T defref v t ->
  NoDup (g0 :: gs) -> (forall g, In g (g0 :: gs) -> In g (mfiles t)) -> covers (g0 :: gs) t ->
  exists a, load_all_pure T LATEST defref fver fuel t [g0] (first_view g0 t) gs = Val (OK a) /\
            Rep T (rev gs ++ [g0]) None t a /\ hperm a (expected None t).
Proof.
  intros Hd HG Hnd Hin Hcov.
  destruct (load_all_rep T LATEST defref v fver fver_v fuel t Hd HG gs [g0] (first_view g0 t)) as (a & E & HR).
  - eapply Permutation_NoDup; [|exact Hnd]. change (g0 :: gs) with ([g0] ++ gs). apply Permutation_app_comm.
  - intros g Hg. apply Hin. right. exact Hg.
  - apply first_view_rep with (defref := defref) (v := v); [exact HG|apply Hin; left; reflexivity].
  - exists a. split; [exact E|]. split; [exact HR|].
    apply (Rep_expected T defref v (depth t) t (le_n _) HG (rev gs ++ [g0]) None a); [|intros p [=]|exact HR].
    apply (covers_incl (depth t) t (le_n _) (g0 :: gs)); [|exact Hcov].
    intros x [<-|Hx]; apply in_or_app; [right; left; reflexivity|left; apply in_rev in Hx; exact Hx].
Qed.

End Top.

(* ====================================================================== the full statement (NOT proved) *)
(* C09 for the heap model Tree/Load.v and for every master that is split only at splittable places: files of different
   versions, split points that are named or have sequence content, sub-elements keyed by DEFINITION-REF.  The theorems
   above prove it for the pure merge [pmerge] and the class [Good]; Tree/LoadRefine*.v prove that the heap merge computes
   the pure merge (merge_refine, load_parsed_merge) and lift the union to the heap model for the class Good (heap_union,
   heap_union_buffers: the conclusion of C09_full for masters of the class whose files all have one version, conditional
   on the overlap check of the path index not rejecting a load).  What is still missing for C09_full:
     (1) the classes outside Good: elements that mix a SHORT-NAME / text with split sub-elements in arbitrary ways (named
         split points are covered when they are sequences), choice groups inside sequences, different versions per file;
     (2) that the overlap check (C04/C05: the path index) never rejects a view of such a master.
   [C09-unnamed-below-splittable] (known finding) shows that the statement is FALSE for elements without any key below a
   splittable parent; [UniqueKeys] excludes them. *)
Fixpoint load_views (T : tables) (LATEST defref : N) (m : N) (M : mtree) (version : N -> N) (gs : list N) (w : world)
  : res (list (out N) * world) :=
  match gs with
  | [] => Val ([], w)
  | g :: r =>
    match project g M with
    | None => Val ([], w)
    | Some e =>
      match load_parsed T LATEST defref m (to_dec g) e (pstate_of T (version g) e) w with
      | Val (o, w') => match load_views T LATEST defref m M version r w' with
                       | Val (os, w'') => Val (o :: os, w'') | Pan s => Pan s | Fuel => Fuel end
      | Pan s => Pan s
      | Fuel => Fuel
      end
    end
  end.

(* the key the specification distinguishes sub-elements by: kind + SHORT-NAME text, else kind + DEFINITION-REF text *)
Definition m_text (c : mtree) : option (list N) :=
  match m_content c with [inr (Parser.DString s)] => Some s | _ => None end.
Definition m_shortname (T : tables) (c : mtree) : option (list N) :=
  match m_content c with
  | inl s :: _ => if m_name s =? name_short_name T then m_text s else None
  | _ => None
  end.
Definition m_defref (defref : N) (c : mtree) : option (list N) :=
  match find (fun k => m_name k =? defref) (kids (m_content c)) with Some d => m_text d | None => None end.
Definition m_key (T : tables) (defref : N) (c : mtree) : N * option (list N) * option (list N) :=
  (m_name c, m_shortname T c, m_defref defref c).

(* every element has a key, and no two sub-elements of one element have the same *)
Fixpoint UniqueKeys (T : tables) (defref : N) (t : mtree) {struct t} : Prop :=
  match t with
  | MNode _ _ _ content _ _ =>
    NoDup (map (m_key T defref) (kids content)) /\
    (forall c, In c (kids content) -> m_shortname T c <> None \/ m_defref defref c <> None \/
                                       forall c', In c' (kids content) -> m_name c' = m_name c -> c' = c) /\
    (fix all (l : list (mtree + Parser.cdata)) : Prop :=
       match l with [] => True | inl c :: r => UniqueKeys T defref c /\ all r | inr _ :: r => all r end) content
  end.

Definition C09_full : Prop :=
  forall (T : tables) (LATEST defref : N) (M : mtree) (n : nat) (version : N -> N) (w0 : world) (m : N) (x : model),
    (* the master's files are 0 .. n-1 (= the order in which they are loaded; every load order of every split is the
       id order of a relabelled master), it is split only at the splittable places of the oldest version, and its
       sub-elements are distinguishable *)
    Splittable T defref (fold_right N.min LATEST (map version (map N.of_nat (seq 0 n)))) M ->
    UniqueKeys T defref M ->
    nth_opt (w_models w0) (N.to_nat m) = Some x -> m_files x = [] ->
    exists os w,
      load_views T LATEST defref m M version (map N.of_nat (seq 0 n)) w0 = Val (os, w) /\
      Forall (fun o => exists f, o = OK f) os /\
      exists h, abs_model w m = Some h /\ hperm h (expected None M).

(* ====================================================================== every file, projected out of the merged model *)
(* the per-file filter of serialize (Serialize.passes: local membership empty or contains the file), on pure trees;
   memberships are erased so that the result can be compared with the view of the file *)
Fixpoint hproj (f : N) (h : htree) {struct h} : htree :=
  match h with
  | HNode n t a c cm _ =>
    HNode n t a
      ((fix go (l : list (htree + cdata)) : list (htree + cdata) :=
          match l with
          | [] => []
          | inl k :: r => if is_empty (h_local k) || set_mem f (h_local k) then inl (hproj f k) :: go r else go r
          | inr d :: r => inr d :: go r
          end) c)
      cm []
  end.

Fixpoint hproj_items (f : N) (l : list (htree + cdata)) : list (htree + cdata) :=
  match l with
  | [] => []
  | inl k :: r => if is_empty (h_local k) || set_mem f (h_local k) then inl (hproj f k) :: hproj_items f r else hproj_items f r
  | inr d :: r => inr d :: hproj_items f r
  end.

Lemma hproj_unfold f n t a c cm loc : hproj f (HNode n t a c cm loc) = HNode n t a (hproj_items f c) cm [].
Proof.
  cbn [hproj]. f_equal. induction c as [|[k|d] r IH]; cbn [hproj_items]; [reflexivity| |].
  - destruct (is_empty (h_local k) || set_mem f (h_local k)); rewrite IH; reflexivity.
  - rewrite IH. reflexivity.
Qed.

Lemma hproj_items_perm f l l' : Permutation l l' -> Permutation (hproj_items f l) (hproj_items f l').
Proof.
  induction 1 as [|x l l' Hp IH|x y l|l l' l'' Hp1 IH1 Hp2 IH2].
  - constructor.
  - destruct x as [k|d]; cbn [hproj_items]; [destruct (is_empty (h_local k) || set_mem f (h_local k))|]; auto.
  - destruct x as [k1|d1], y as [k2|d2]; cbn [hproj_items];
      repeat match goal with |- context [if ?b then _ else _] => destruct b end; auto using Permutation_refl, perm_swap.
  - eapply perm_trans; eauto.
Qed.

Section Project.
Variable T : tables.
Variables defref v : N.

(* a loaded file f that contains the element: the element passes the filter exactly when f contains the sub-element *)
Lemma passes_norm f F S files_c :
  In f F -> In f S -> incl (inF F files_c) S -> inF F files_c <> [] ->
  is_empty (norm (Some S) (inF F files_c)) || set_mem f (norm (Some S) (inF F files_c)) = set_mem f files_c.
Proof.
  intros HfF HfS Hincl Hne. unfold norm. destruct (bytes_eqb S (inF F files_c)) eqn:E.
  - apply bytes_eqb_spec in E. cbn [is_empty orb]. symmetry. apply set_mem_in.
    rewrite E in HfS. apply inF_in in HfS. tauto.
  - destruct (inF F files_c) as [|x l] eqn:El; [congruence|]. cbn [is_empty orb]. rewrite <- El.
    destruct (set_mem f files_c) eqn:Em.
    + apply set_mem_in. apply inF_in. apply set_mem_in in Em. auto.
    + destruct (set_mem f (inF F files_c)) eqn:E2; [|reflexivity]. apply set_mem_in, inF_in in E2 as [E2 _].
      apply set_mem_in in E2. congruence.
Qed.

Theorem Rep_project n : forall t, (depth t <= n)%nat -> Good T defref v t -> forall F inh a f,
  In f F -> In f (mfiles t) -> Rep T F inh t a -> hperm (hproj f a) (pview f t).
Proof.
  induction n as [|n IH]; intros [name ty attrs content comment files] Hd HG F inh a f HfF Hf HR; rewrite depth_unfold in Hd; [lia|].
  apply Good_unfold in HG as (Hs & Hne & (Hsub & _) & Hkids). cbn [mfiles m_fileset] in Hf.
  apply Rep_unfold in HR as (HS & hc & hc' & -> & HI & HP & _).
  rewrite hproj_unfold, pview_unfold.
  assert (HfS : In f (inF F files)) by (apply inF_in; auto).
  assert (HF : Forall2 hperm_item (hproj_items f hc') (pview_items f content)).
  { assert (Hall : forall c, In c (kids content) -> (depth c <= n)%nat /\ Good T defref v c /\ incl (mfiles c) files).
    { intros c Hin. split; [|split; [apply Hkids; exact Hin|apply Hsub; exact Hin]].
      apply kids_in in Hin. apply depth_items_in in Hin. lia. }
    clear Hd Hkids Hsub HP. revert hc' HI. induction content as [|[c|d] r IHr]; intros hc' HI; cbn [RepItems pview_items] in *.
    - subst. constructor.
    - destruct (Hall c) as (Hdc & HGc & Hic); [left; reflexivity|].
      assert (Hr : forall c0, In c0 (kids r) -> (depth c0 <= n)%nat /\ Good T defref v c0 /\ incl (mfiles c0) files)
        by (intros c0 H0; apply Hall; right; exact H0).
      destruct (present F c) eqn:Ep.
      + destruct HI as (h0 & hr & -> & HRc & HIr). cbn [hproj_items].
        destruct (Rep_shape T F (Some (inF F files)) c h0 HRc) as (_ & _ & Hloc & Hnec).
        rewrite Hloc, (passes_norm f F (inF F files) (mfiles c) HfF HfS); [| |exact Hnec].
        2:{ intros x Hx. apply inF_in in Hx as [Hx HxF]. apply inF_in. split; [apply Hic; exact Hx|exact HxF]. }
        destruct (set_mem f (mfiles c)) eqn:Em.
        * constructor; [|apply IHr; auto]. constructor.
          apply (IH c Hdc HGc F (Some (inF F files)) h0 f HfF); [apply set_mem_in; exact Em|exact HRc].
        * apply IHr; auto.
      + (* not in any loaded file: in particular not in f *)
        assert (Em : set_mem f (mfiles c) = false).
        { destruct (set_mem f (mfiles c)) eqn:Em; [|reflexivity]. exfalso. apply set_mem_in in Em.
          unfold present in Ep. apply negb_false_iff, is_empty_nil in Ep.
          assert (Hin : In f (inF F (mfiles c))) by (apply inF_in; auto). rewrite Ep in Hin. destruct Hin. }
        rewrite Em. apply IHr; auto.
    - destruct HI as (hr & -> & HIr). cbn [hproj_items]. constructor; [constructor|]. apply IHr; auto. }
  destruct (Forall2_perm_l hperm_item (hproj_items f hc') (hproj_items f hc)
              (Permutation_sym (hproj_items_perm f hc hc' HP)) _ HF) as (c2' & P2 & F2).
  apply (HPerm name ty (hattrs attrs) (hproj_items f hc) (pview_items f content) c2' comment [] P2 F2).
Qed.

End Project.
