(* Tree/CompatHist1.v — the typing invariant for histories, part 1.
     okpair T tp nm tc : the type tp lists the name nm, for some version set, with a type whose datatype is that of tc
     TypedU T w        : every listed sub-element is an okpair with its lister (TypedT without the `within u32` clause; the clause
                         is replaced by the table fact MaskOK: every version mask of the tables lies within u32)
     Bounded w         : ids at or above w_next are neither allocated nor listed (what Core gives; enough for allocation steps)
   (1) TypedU + MaskOK + PairOK + Core exclude the three K classes (same argument as Tree/CompatProofs5.v);
   (2) TypedU is inherited along Fr; allocation of a leaf and insertion of an okpair edge keep it;
   (3) the creating operations: create_sub_element(_at), get_or_create_sub_element, create_named_sub_element(_at),
       get_or_create_named_sub_element, AutosarModel::new. *)
From Coq Require Import PeanoNat Arith Lia.
From AV Require Import Base.Bytes Base.Outcome Hash.HashModel Spec.SpecOps Spec.SpecProofs Tree.Heap Tree.Ops Tree.Script Tree.Inv
  Tree.InvProofsBase Tree.InvProofsCore Tree.InvProofsPrim Tree.InvProofsCreate Tree.InvProofsRefs Tree.InvProofsRemove
  Tree.Compat Tree.CompatSpec Tree.CompatProofs1 Tree.CompatProofs2 Tree.CompatTyped Tree.CompatProofs5 Tree.CompatProofs8
  Tree.CompatFrame Tree.CompatFrameOps.
Open Scope string_scope.
Open Scope list_scope.
Open Scope N_scope.

Section U.
Variable T : tables.

Definition okpair (tp : N * N) (nm : N) (tc : N * N) : Prop :=
  exists u et ixs, find_sub_element T tp nm u = Val (Some (et, ixs)) /\ snd et = snd tc.

Definition TypedU (w : world) : Prop :=
  forall i n c cn, w_nodes w i = Some n -> In (CElem c) (n_content n) -> w_nodes w c = Some cn ->
    okpair (n_type n) (n_name cn) (n_type cn).

Definition MaskOK : Prop := forall i m, T_version_info T i = Some m -> N.land m U32MAX = m.
Definition mask_ok_b (i : N) : bool := match T_version_info T i with Some m => N.land m U32MAX =? m | None => true end.

Definition Bounded (w : world) : Prop :=
  (forall i n, w_nodes w i = Some n -> i < w_next w) /\
  (forall i n c, w_nodes w i = Some n -> In (CElem c) (n_content n) -> c < w_next w).

Lemma core_bounded w : Core w -> Bounded w.
Proof.
  intros C. split.
  - intros i n H. apply (c_alloc _ C). exists n. exact H.
  - intros i n c H Hin. assert (Hl : lists w i c) by (exists n; split; [exact H|apply CompatProofs8.in_elems; exact Hin]).
    apply (c_up _ C) in Hl as (cn & Hcn & _). apply (c_alloc _ C). exists cn. exact Hcn.
Qed.

Lemma empty_typed : TypedU empty_world.
Proof. intros i n c cn H. discriminate H. Qed.

(* ---- the masks the lookups return are table entries ---- *)
Lemma walk_groups_entry : forall ixs cur se m, walk_groups T cur ixs = Val (Some (se, m)) -> exists i, T_version_info T i = Some m.
Proof.
  induction ixs as [|i rest IH]; intros cur se m H; [discriminate|].
  destruct rest as [|j r].
  - rewrite walk_groups_last in H. destruct (sub_slice T cur) as [[[st sp] d]| |]; cbn [bind] in H; try discriminate.
    destruct (sp - st <=? i); [discriminate|].
    destruct (subel T (st + i)); cbn [bind] in H; try discriminate.
    unfold vinfo, unwrap in H. destruct (T_version_info T (dt_sub_ver d + i)) as [m'|] eqn:E; cbn [bind] in H; try discriminate.
    injection H as _ <-. eauto.
  - rewrite walk_groups_cons in H. destruct (sub_slice T cur) as [[[st sp] d]| |]; cbn [bind] in H; try discriminate.
    destruct (sp - st <=? i); [discriminate|].
    destruct (subel T (st + i)) as [[kind idx]| |]; cbn [bind] in H; try discriminate.
    destruct (kind =? 0); [discriminate|]. exact (IH _ _ _ H).
Qed.

Lemma find_max_of_any (HM : MaskOK) t name u et ixs :
  find_sub_element T t name u = Val (Some (et, ixs)) -> find_sub_element T t name U32MAX <> Val None.
Proof.
  intros H HN. unfold find_sub_element in *.
  destruct (find_sub_sound _ _ _ _ _ _ _ H) as (se & m & Hw & Hnz).
  pose proof (find_sub_mono _ _ _ _ _ _ _ _ _ _ HN H Hw) as Hz.
  destruct (walk_groups_entry _ _ _ _ Hw) as (i & Hi). rewrite N.land_comm, (HM _ _ Hi) in Hz. subst m.
  apply Hnz. apply N.land_0_r.
Qed.

(* ---- no K class ---- *)
Section NoKnown.
Variable w : world.
Variable f v : N.
Hypothesis HP : PairOK T.
Hypothesis HM : MaskOK.
Hypothesis HC : Core w.
Hypothesis HT : TypedU w.

Lemma vis_rel_u ty i : Vis T w f v ty i -> forall n, w_nodes w i = Some n -> rel_ok T (snd (n_type n)) (snd ty) = true.
Proof.
  intros H. induction H as [r ty (x & m & n0 & Hx & Hm & -> & Hn0 & ->)|ty i n c cn tc ixs HV IH Hn Hin Hcn Hf Hfind].
  - intros n Hn. rewrite Hn0 in Hn. injection Hn as <-. apply rel_ok_refl.
  - intros cn' Hcn'. rewrite Hcn in Hcn'. injection Hcn' as <-.
    pose proof (IH n Hn) as Rp.
    pose proof (rel_ok_nonleaf T _ _ _ _ _ Rp Hfind) as Es.
    destruct (HT i n c cn Hn Hin Hcn) as (u & et & ixs' & Hfu & Hsnd).
    rewrite (find_sub_element_snd T _ _ _ _ Es) in Hfu.
    unfold find_sub_element in Hfu, Hfind.
    pose proof (HP _ _ _ _ _ _ _ _ Hfu Hfind) as Hrel. rewrite Hsnd in Hrel. exact Hrel.
Qed.

Theorem typed_u_no_known : NoKnown T w f v.
Proof.
  split; [|split].
  - intros ty i n HV Hn. inversion HV as [r ty' Hroot|ty' p pn c cn tc ixs HVp Hpn Hin Hcn Hf Hfind]; subst.
    + unfold recalc_element_type. pose proof (rootok_of_core w f HC _ _ _ Hroot Hn) as Hnp.
      destruct Hroot as (x & m & n0 & _ & _ & -> & Hn0 & ->). rewrite Hn0 in Hn. injection Hn as <-.
      destruct (n_parent n0) as [|m'|p]; [reflexivity|reflexivity|exfalso; exact (Hnp p eq_refl)].
    + rewrite Hcn in Hn. injection Hn as <-.
      assert (Hpar : n_parent cn = PElem p).
      { assert (Hl : lists w p i) by (exists pn; split; [exact Hpn|apply CompatProofs8.in_elems; exact Hin]).
        apply (c_up _ HC) in Hl as (cn' & Hcn' & Hp). rewrite Hcn in Hcn'. injection Hcn' as <-. exact Hp. }
      unfold recalc_element_type. rewrite Hpar. unfold node_at. rewrite Hpn. cbn [unwrap bind].
      pose proof (vis_rel_u _ _ HVp pn Hpn) as Rp.
      rewrite (find_sub_element_snd T _ _ _ _ (rel_ok_nonleaf T _ _ _ _ _ Rp Hfind)), Hfind. reflexivity.
  - intros ty i n c cn ixs HV Hn Hin Hcn Hf (tc & Hex).
    pose proof (vis_rel_u _ _ HV n Hn) as Rp. apply mask_snd.
    destruct Hex as [Hx|[_ Hx]]; exact (rel_ok_nonleaf T _ _ _ _ _ Rp Hx).
  - intros ty i n c cn HV Hn Hin Hcn Hf.
    pose proof (vis_rel_u _ _ HV n Hn) as Rp.
    destruct (HT i n c cn Hn Hin Hcn) as (u & et & ixs' & Hfu & _).
    rewrite <- (find_sub_element_snd T _ _ _ _ (rel_ok_nonleaf_l T _ _ _ _ _ Rp Hfu)).
    exact (find_max_of_any HM _ _ _ _ _ Hfu).
Qed.

Theorem f_check_exact_u r : f_check T w f v = Val r -> (fst r = [] <-> ValidIn T w f v).
Proof. destruct typed_u_no_known as (Kr & Km & Ks). exact (f_check_exact T w f v Km Ks Kr r). Qed.

End NoKnown.

(* ---- frames ---- *)
Lemma Fr_typed_u w0 w : Fr w0 w -> TypedU w0 -> TypedU w.
Proof.
  intros (_ & F) HT i n c cn Hn Hin Hc.
  destruct (F _ _ Hn) as (n0 & Hn0 & (_ & Tn & Cn)). destruct (F _ _ Hc) as (cn0 & Hc0 & (Nc & Tc & _)).
  rewrite Tn, Nc, Tc. exact (HT i n0 c cn0 Hn0 (Cn _ Hin) Hc0).
Qed.

Lemma Fr_bounded w0 w : Fr w0 w -> Bounded w0 -> Bounded w.
Proof.
  intros (Nx & F) (B1 & B2). split.
  - intros i n H. destruct (F _ _ H) as (n0 & H0 & _). specialize (B1 _ _ H0). lia.
  - intros i n c H Hin. destruct (F _ _ H) as (n0 & H0 & (_ & _ & Cn)). specialize (B2 _ _ _ H0 (Cn _ Hin)). lia.
Qed.

Lemma frp_typed_u {A} (m : W A) w r w' : (forall w0, frp w0 m) -> m w = Val (r, w') -> TypedU w -> TypedU w'.
Proof. intros Hf H HT. exact (Fr_typed_u w w' (Hf w w r w' (Fr_refl w) H) HT). Qed.

(* ---- allocation of a leaf ---- *)
Lemma bounded_alloc w nd : Bounded w -> n_content nd = [] -> Bounded (walloc w nd).
Proof.
  intros (B1 & B2) Hc. split.
  - intros i n H. cbn [walloc w_next]. destruct (N.eq_dec i (w_next w)) as [->|Hne]; [lia|].
    rewrite nodes_walloc_old in H by exact Hne. specialize (B1 _ _ H). lia.
  - intros i n c H Hin. cbn [walloc w_next]. destruct (N.eq_dec i (w_next w)) as [->|Hne].
    + rewrite nodes_walloc_new in H. injection H as <-. rewrite Hc in Hin. destruct Hin.
    + rewrite nodes_walloc_old in H by exact Hne. specialize (B2 _ _ _ H Hin). lia.
Qed.

Lemma typed_alloc w nd : Bounded w -> TypedU w -> n_content nd = [] -> TypedU (walloc w nd).
Proof.
  intros (B1 & B2) HT Hc i n c cn Hn Hin Hcn.
  destruct (N.eq_dec i (w_next w)) as [->|Hi].
  - rewrite nodes_walloc_new in Hn. injection Hn as <-. rewrite Hc in Hin. destruct Hin.
  - rewrite nodes_walloc_old in Hn by exact Hi.
    assert (Hcl : c <> w_next w) by (specialize (B2 _ _ _ Hn Hin); lia).
    rewrite nodes_walloc_old in Hcn by exact Hcl. exact (HT i n c cn Hn Hin Hcn).
Qed.

(* ---- replacing the content of p by a list that adds at most the sub-element c, which is an okpair ---- *)
Lemma typed_add_edge w p np c content' :
  TypedU w -> w_nodes w p = Some np ->
  (forall nc, w_nodes w c = Some nc -> okpair (n_type np) (n_name nc) (n_type nc)) ->
  (forall x, In (CElem x) content' -> x = c \/ In (CElem x) (n_content np)) ->
  TypedU (wset w p (set_content np content')).
Proof.
  intros HT Hp Hok Hin i n x xn Hn Hx Hxn.
  assert (Hnode : forall j y, w_nodes (wset w p (set_content np content')) j = Some y ->
            exists y0, w_nodes w j = Some y0 /\ n_type y0 = n_type y /\ n_name y0 = n_name y /\ (j <> p -> y = y0)).
  { intros j y Hj. destruct (N.eq_dec j p) as [->|Hne].
    - rewrite nodes_wset_eq in Hj. injection Hj as <-. exists np. repeat split; auto. intros []; reflexivity.
    - rewrite nodes_wset_neq in Hj by exact Hne. exists y. auto. }
  destruct (Hnode _ _ Hn) as (n0 & Hn0 & Tn & _ & Hsame). destruct (Hnode _ _ Hxn) as (xn0 & Hxn0 & Tx & Nx & _).
  rewrite <- Tn, <- Tx, <- Nx.
  destruct (N.eq_dec i p) as [->|Hne].
  - rewrite nodes_wset_eq in Hn. injection Hn as <-. cbn [n_content set_content] in Hx.
    rewrite Hp in Hn0. injection Hn0 as <-.
    destruct (Hin _ Hx) as [->|Hold].
    + exact (Hok _ Hxn0).
    + exact (HT p np x xn0 Hp Hold Hxn0).
  - rewrite (Hsame Hne) in Hx. exact (HT i n0 x xn0 Hn0 Hx Hxn0).
Qed.

Lemma bounded_add_edge w p np c content' :
  Bounded w -> w_nodes w p = Some np -> c < w_next w ->
  (forall x, In (CElem x) content' -> x = c \/ In (CElem x) (n_content np)) ->
  Bounded (wset w p (set_content np content')).
Proof.
  intros (B1 & B2) Hp Hc Hin. split.
  - intros i n H. cbn [wset w_next]. destruct (N.eq_dec i p) as [->|Hne]; [exact (B1 _ _ Hp)|].
    rewrite nodes_wset_neq in H by exact Hne. exact (B1 _ _ H).
  - intros i n x H Hx. cbn [wset w_next]. destruct (N.eq_dec i p) as [->|Hne].
    + rewrite nodes_wset_eq in H. injection H as <-. cbn [n_content set_content] in Hx.
      destruct (Hin _ Hx) as [->|Hold]; [exact Hc|exact (B2 _ _ _ Hp Hold)].
    + rewrite nodes_wset_neq in H by exact Hne. exact (B2 _ _ _ H Hx).
Qed.

Lemma in_insert_elem (x c : id) l k : In (CElem x) (insert_at l k (CElem c)) -> x = c \/ In (CElem x) l.
Proof. intros H. apply in_insert_at in H as [H|H]; [injection H as ->; left; reflexivity|right; exact H]. Qed.

(* ---- alloc + content_insert of the fresh leaf: the pair used by create_sub_element_inner and create_named_sub_element_inner ---- *)
Lemma alloc_insert_typed w self n name et ix version pos r w' :
  Bounded w -> TypedU w -> w_nodes w self = Some n ->
  find_sub_element T (n_type n) name version = Val (Some (et, ix)) ->
  content_insert self pos (CElem (w_next w)) (walloc w (new_node (PElem self) name et)) = Val (r, w') ->
  Bounded w' /\ TypedU w'.
Proof.
  intros B HT Hn Hf H. set (nd := new_node (PElem self) name et) in *.
  assert (Hsf : self <> w_next w) by (destruct B as (B1 & _); specialize (B1 _ _ Hn); lia).
  apply content_insert_inv in H as (n1 & Hn1 & _ & ->). rewrite nodes_walloc_old in Hn1 by exact Hsf.
  rewrite Hn in Hn1. injection Hn1 as <-.
  pose proof (bounded_alloc w nd B eq_refl) as B1. pose proof (typed_alloc w nd B HT eq_refl) as T1.
  assert (Hself1 : w_nodes (walloc w nd) self = Some n) by (rewrite nodes_walloc_old by exact Hsf; exact Hn).
  split.
  - apply (bounded_add_edge _ self n (w_next w)); [exact B1|exact Hself1|cbn [walloc w_next]; lia|].
    intros x Hx. exact (in_insert_elem _ _ _ _ Hx).
  - apply (typed_add_edge _ self n (w_next w)); [exact T1|exact Hself1| |].
    + intros nc Hnc. rewrite nodes_walloc_new in Hnc. injection Hnc as <-. exists version, et, ix. cbn [nd new_node n_name n_type]. auto.
    + intros x Hx. exact (in_insert_elem _ _ _ _ Hx).
Qed.

End U.
