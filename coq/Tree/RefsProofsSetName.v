(* Tree/RefsProofsSetName.v — C05 (and C04 again): Element::set_item_name keeps TreeFacts /\ Inv04 /\ Inv05.
   Every iteration of the referrer loop is a bulk re-targeting: the references listed under an old-form key k (by
   RefsExact: exactly the references with text k) get the text k', and their list is moved from k to k' (appended
   to what is already there): RefsExact holds again after each iteration. *)
From Coq Require Import Permutation.
From AV Require Import Base.Bytes Base.Outcome Hash.HashModel Tree.Heap Tree.Ops Tree.Script Tree.IndexProofsW
  Tree.Index Tree.IndexProofsBase Tree.IndexProofsAssoc Tree.IndexProofsFrame Tree.IndexProofsAttach
  Tree.IndexProofsTree Tree.IndexProofsNamed Tree.IndexProofsEdit Tree.Refs Tree.RefsProofsBase Tree.RefsProofs
  Tree.RefsProofsReport Tree.RefsProofsEdit
  Tree.Follow Tree.FollowProofsPath Tree.FollowProofsLoop Tree.FollowProofsRename Tree.FailProofsBase Tree.FailProofsOps
  Tree.IndexProofsRename Tree.IndexProofsRenameOps Tree.IndexProofsSetName.
Open Scope string_scope.
Open Scope list_scope.
Open Scope N_scope.

Section SetName5.
Variable T : tables.
Variable tab_el tab_en : nametab.
Variable check_fn : N -> list N -> res bool.
Variable LATEST : N.
Hypothesis TK : TablesOK T check_fn.
Notation Inv04 := (Inv04 T check_fn).
Notation SHORTN := (name_short_name T).

Lemma se_mreach w w' m i : SE w w' -> (MReach T w' m i <-> MReach T w m i).
Proof.
  intros HS. split.
  - intros (y & Hy & Hr). destruct (se_model _ _ _ _ (SE_sym _ _ HS) Hy) as (y0 & Hy0 & Hroot).
    exists y0. split; [exact Hy0|]. rewrite Hroot. eapply se_reach; [apply SE_sym; exact HS|exact Hr].
  - intros (y & Hy & Hr). destruct (se_model _ _ _ _ HS Hy) as (y0 & Hy0 & Hroot).
    exists y0. split; [exact Hy0|]. rewrite Hroot. eapply se_reach; [exact HS|exact Hr].
Qed.

Definition J5 (w : world) : Prop := TreeFacts w /\ Inv04 w /\ Inv05 T w.

(* ---------- one bulk re-targeting *)
Lemma bulk_retarget w wf m y k k' l :
  J5 w -> model_at w m = Some y -> assoc_get k (m_origins y) = Some l -> k <> k' ->
  w_next wf = w_next w ->
  w_models wf = list_set (w_models w) (N.to_nat m) (set_origins y (merge_origin k' l (assoc_remove k (m_origins y)))) ->
  (forall i, In i l -> w_nodes wf i = option_map (rewrite_head k') (w_nodes w i)) ->
  (forall i, ~ In i l -> w_nodes wf i = w_nodes w i) ->
  Inv04 wf -> J5 wf.
Proof.
  intros (HF & HI4 & HI5) Hy Hk Hkk Hnext Hmodels Hin Hout HI4f.
  pose proof HI5 as [IE IT]. destruct (IT m y Hy) as (Hnd & Hne).
  set (O := m_origins y) in *.
  assert (Hl_spec : forall r, In r l <-> RefSet T w m k r).
  { intros r. destruct (IE m y Hy k) as (_ & H). unfold origins_of in H. fold O in H. rewrite Hk in H. apply H. }
  assert (Hl_nd : NoDup l).
  { destruct (IE m y Hy k) as (H & _). unfold origins_of in H. fold O in H. rewrite Hk in H. exact H. }
  assert (Hgood : forall r, In r l -> Good T w r).
  { intros r Hr. eapply (good_of_inv05 T check_fn TK w m HI4 HI5 y k l r Hy); [apply assoc_get_in; exact Hk|exact Hr]. }
  (* structure *)
  assert (HSE : SE w wf).
  { split; [|split; [exact Hnext|]].
    - intros j. destruct (in_dec N.eq_dec j l) as [Hj|Hj].
      + rewrite (Hin j Hj). destruct (Hgood j Hj) as (nr & Hnr & Hc & _). rewrite Hnr. cbn. unfold sview, rewrite_head. cbn.
        rewrite (chars_content_elems _ Hc). destruct Hc as [->|(d & ->)]; reflexivity.
      + rewrite (Hout j Hj). reflexivity.
    - rewrite Hmodels. clear -Hy. unfold model_at in Hy. revert Hy. generalize (N.to_nat m). generalize (w_models w).
      induction l0 as [|z l0 IH]; intros [|n] H; cbn in *; try discriminate; auto.
      + injection H as ->. reflexivity.
      + f_equal. auto. }
  pose proof (TreeFacts_se w wf HSE HF) as HFf.
  split; [exact HFf|]. split; [exact HI4f|].
  (* texts *)
  assert (Htext_in : forall r, In r l -> ref_text T wf r = Some k').
  { intros r Hr. apply Hl_spec in Hr as Hrs. destruct Hrs as (_ & Ht).
    destruct (w_nodes w r) as [nr|] eqn:Enr; [|unfold ref_text in Ht; rewrite Enr in Ht; discriminate].
    eapply (ref_text_rewritten T w wf r nr k k'); eauto. rewrite (Hin r Hr), Enr. reflexivity. }
  assert (Htext_out : forall r, ~ In r l -> ref_text T wf r = ref_text T w r).
  { intros r Hr. unfold ref_text. rewrite (Hout r Hr). reflexivity. }
  assert (Hrs : forall m2 p r, RefSet T wf m2 p r <-> (In r l /\ m2 = m /\ p = k') \/ (~ In r l /\ RefSet T w m2 p r)).
  { intros m2 p r. unfold RefSet at 1. rewrite (se_mreach w wf m2 r HSE). destruct (in_dec N.eq_dec r l) as [Hr|Hr].
    - rewrite (Htext_in r Hr). apply Hl_spec in Hr as Hrs0. destruct Hrs0 as (Hrm & _). split.
      + intros (Hr2 & [= <-]). left. split; [exact Hr|]. split; [exact (only_model T w m r HF Hrm m2 Hr2)|reflexivity].
      + intros [(_ & -> & ->)|(Hn & _)]; [auto|contradiction].
    - rewrite (Htext_out r Hr). split; [intros H; right; split; [exact Hr|exact H]|intros [(H & _)|(_ & H)]; [contradiction|exact H]]. }
  (* the new map of model m *)
  set (O' := merge_origin k' l (assoc_remove k O)) in *.
  assert (HxF : model_at wf m = Some (set_origins y O')) by (eapply model_at_set_same; eauto).
  assert (HoF : forall m2, m2 <> m -> model_at wf m2 = model_at w m2) by (intros m2 Hne2; eapply model_at_set_other; eauto).
  assert (Hog : forall p, oget p O' = if bytes_dec p k' then oget k' O ++ l else if bytes_dec p k then [] else oget p O).
  { intros p. unfold oget, O'. destruct (bytes_dec p k') as [->|Hpk'].
    - rewrite assoc_get_merge_eq. rewrite assoc_get_remove_neq by (intros E; apply Hkk; symmetry; exact E). destruct (assoc_get k' O); reflexivity.
    - rewrite assoc_get_merge_neq by exact Hpk'. destruct (bytes_dec p k) as [->|Hpk]; [rewrite assoc_get_remove_eq; reflexivity|].
      rewrite assoc_get_remove_neq by exact Hpk. reflexivity. }
  assert (Hl_ne : l <> []) by (eapply Hne; apply assoc_get_in; exact Hk).
  constructor.
  - (* RefsExact *)
    intros m2 x2 Hx2 p. destruct (N.eq_dec m2 m) as [->|Hm2].
    + rewrite HxF in Hx2. injection Hx2 as <-. unfold origins_of. cbn [set_origins m_origins]. fold (oget p O'). rewrite Hog.
      destruct (IE m y Hy p) as (Hndp & Hinp). unfold origins_of in Hndp, Hinp. fold O in Hndp, Hinp. fold (oget p O) in Hndp, Hinp.
      destruct (bytes_dec p k') as [->|Hpk'].
      * split.
        -- apply nodup_app; [exact Hndp|exact Hl_nd|]. intros r H1 H2. apply Hinp in H1 as (_ & T1). apply Hl_spec in H2 as (_ & T2). congruence.
        -- intros r. rewrite in_app_iff, Hinp, Hrs. split.
           ++ intros [Hr|Hr]; [right; split; [|exact Hr]; intros Hl; apply Hl_spec in Hl as (_ & T2); destruct Hr as (_ & T1); congruence|left; auto].
           ++ intros [(Hr & _)|(_ & Hr)]; auto.
      * destruct (bytes_dec p k) as [->|Hpk].
        -- split; [constructor|]. intros r. rewrite Hrs. split; [intros []|].
           intros [(_ & _ & E)|(Hn & Hr)]; [congruence|]. apply Hn. apply Hl_spec. exact Hr.
        -- split; [exact Hndp|]. intros r. rewrite Hinp, Hrs. split.
           ++ intros Hr. right. split; [|exact Hr]. intros Hl. apply Hl_spec in Hl as (_ & T2). destruct Hr as (_ & T1). congruence.
           ++ intros [(_ & _ & E)|(_ & Hr)]; [congruence|exact Hr].
    + rewrite (HoF m2 Hm2) in Hx2. destruct (IE m2 x2 Hx2 p) as (H1 & H2). split; [exact H1|]. intros r. rewrite H2, Hrs.
      split; [|intros [(_ & E & _)|(_ & H)]; [congruence|exact H]].
      intros Hr. right. split; [|exact Hr]. intros Hl. apply Hl_spec in Hl as (Hrm & _). apply Hm2. destruct Hr as (Hr2 & _).
      exact (only_model T w m r HF Hrm m2 Hr2).
  - (* OriginsTidy *)
    intros m2 x2 Hx2. destruct (N.eq_dec m2 m) as [->|Hm2]; [|rewrite (HoF m2 Hm2) in Hx2; apply (IT m2 x2 Hx2)].
    rewrite HxF in Hx2. injection Hx2 as <-. cbn [set_origins m_origins].
    assert (Hnd_r : NoDupKeys (assoc_remove k O)) by (apply nodup_remove; exact Hnd).
    unfold O', merge_origin. destruct (assoc_get k' (assoc_remove k O)) as [l0|] eqn:E0.
    + split; [apply nodup_insert; exact Hnd_r|]. intros p x0 Hin0. apply in_assoc_insert in Hin0; [|exact Hnd_r].
      destruct Hin0 as [(_ & ->)|(_ & Hin0)].
      * intros E. apply app_eq_nil in E as (_ & E). contradiction.
      * apply in_remove in Hin0 as (Hin0 & _). eapply Hne; eauto.
    + split.
      * unfold NoDupKeys. rewrite map_app. cbn. eapply Permutation_NoDup; [apply Permutation_cons_append|]. constructor; [|exact Hnd_r].
        apply assoc_get_none. exact E0.
      * intros p x0 Hin0. apply in_app_iff in Hin0 as [Hin0|[[= <- <-]|[]]]; [|exact Hl_ne].
        apply in_remove in Hin0 as (Hin0 & _). eapply Hne; eauto.
Qed.

(* ---------- the loop *)
Section Loop5.
Variables (m : N) (old new : list N).
Variable each : list (list N) -> W unit.
Variable inner : list N -> list id -> W unit.
Hypothesis inner_nil : forall p', inner p' [] = wret tt.
Hypothesis inner_cons : forall p' re rr,
  inner p' (re :: rr) =
  (do rn <- get_node re;
   match n_content rn with
   | [] => set_node re (set_content rn [CData (DString p')])
   | _ :: tl => set_node re (set_content rn (CData (DString p') :: tl))
   end;; inner p' rr)%W.
Hypothesis each_nil : each [] = wret tt.
Hypothesis each_cons : forall refpath r, each (refpath :: r) = (loop_body m old new inner refpath;; each r)%W.
Hypothesis Hon : old <> new.

Lemma body_keeps5 k w w1 : J5 w -> loop_body m old new inner k w = Val (OK tt, w1) -> J5 w1.
Proof.
  intros HJ E1. pose proof HJ as (HF & HI4 & HI5).
  assert (HJ4 : J T check_fn m w) by (split; [exact HI4|apply (good_of_inv05 T check_fn TK); assumption]).
  destruct (body_keeps T check_fn m old new inner inner_nil inner_cons k w w1 HJ4 E1) as (HI4f & _).
  destruct (model_at w m) as [y|] eqn:Hy.
  2:{ (* no such model: the body does nothing or panics *)
      unfold loop_body in E1. destruct (strip_prefix old k) as [partial|]; [|winv E1; exact HJ].
      destruct (is_empty partial || starts_with_slash partial); [|winv E1; exact HJ].
      wmodel E1 y0 Hy0. fold (model_at w m) in Hy0. congruence. }
  pose proof (body_sem m old new inner inner_nil inner_cons k w w1 y _ eq_refl Hy E1) as HB.
  destruct (rekey old new k) as [k'|] eqn:Er; [|subst w1; exact HJ].
  destruct (assoc_get k (m_origins y)) as [l|] eqn:El; [|subst w1; exact HJ].
  destruct HB as (B1 & B2 & B3 & B4 & B5).
  eapply (bulk_retarget w w1 m y k k' l HJ Hy El); eauto.
  apply rekey_some in Er as (suf & -> & _ & ->). intros E. apply app_inv_tail in E. contradiction.
Qed.

Lemma each_keeps5 : forall keys w w', J5 w -> each keys w = Val (OK tt, w') -> J5 w'.
Proof.
  induction keys as [|k keys IH]; intros w w' HJ H.
  - rewrite each_nil in H. winv H. exact HJ.
  - rewrite each_cons in H. wbind_w H u w1 E1. destruct u. apply (IH w1 w'); [|exact H]. eapply body_keeps5; eauto.
Qed.

End Loop5.

(* ---------- the operation *)
Theorem C45_set_item_name h nn w r w' :
  TreeFacts w -> Inv04 w -> Inv05 T w ->
  e_set_item_name T check_fn LATEST h nn w = Val (r, w') -> TreeFacts w' /\ Inv04 w' /\ Inv05 T w'.
Proof.
  intros HF HI HI5 H. destruct r as [u|e].
  2:{ apply (nf_e_set_item_name T check_fn LATEST h nn) in H. subst w'. auto. }
  destruct u. destruct (rename_exec T check_fn LATEST h nn w w' H) as [->|R]; [auto|].
  destruct R as [m version n cur old base s sn w1 w2 x2 each inner
                 Hmodel Hnode Hname Hdiff Hne Hpath Hstrip Hfree (rest & Hhead) Hsnode Hshort Hwrite Hrekey Hx Hloop
                 Hin_nil Hin_cons Hea_nil Hea_cons].
  apply item_name_val in Hname as (_ & Hname0). assert (Hname : item_name_n T w n = Some cur) by congruence. clear Hname0.
  assert (Hsc : short_child T w n = Some sn).
  { unfold short_child. rewrite Hhead, Hsnode, Hshort, N.eqb_refl. reflexivity. }
  assert (Hnamed : named T (n_type n) = true).
  { unfold item_name_n in Hname. destruct (named T (n_type n)); [reflexivity|discriminate]. }
  assert (Hcd : cdata_of T sn = Some (DString cur)).
  { unfold item_name_n in Hname. rewrite Hnamed, Hsc in Hname. destruct (cdata_of T sn) as [[| c | |]|]; try discriminate. congruence. }
  apply (path_of_val T h n w _ _ Hnode) in Hpath as (_ & [(_ & [=])|(Hid & [(m' & s0 & Hs0 & Hup)|([=] & _)])]).
  injection Hs0 as <-.
  assert (Hm' : m' = m).
  { apply (model_of_val T) in Hmodel as (_ & [(m2 & q2 & [= <-] & Hu2)|([=] & _)]).
    destruct (upath_fun T _ _ _ _ Hup _ _ Hu2) as (-> & _). reflexivity. }
  subst m'.
  assert (Hsp : SpecPath T w m h old) by (eapply upath_specpath; eauto).
  assert (Hreach : MReach T w m h) by (eapply specpath_mreach; eauto).
  inversion Hup as [|i0 n0 pre Hn0 Hu0 Ei Eo]; subst i0. rewrite Hnode in Hn0. injection Hn0 as <-.
  assert (Hseg : seg_n T w n = 47 :: cur) by (unfold seg_n; rewrite Hname; reflexivity).
  rewrite Hseg in Eo. subst old.
  replace (pre ++ 47 :: cur) with ((pre ++ [47]) ++ cur) in Hstrip by (rewrite <- app_assoc; reflexivity).
  rewrite strip_suffix_app in Hstrip. injection Hstrip as <-.
  unfold get_element_by_path in Hfree. wmodel Hfree x Hx0. apply wret_inv in Hfree as (Hfree & _). injection Hfree as Hfree.
  symmetry in Hfree. fold (model_at w m) in Hx0. rewrite <- app_assoc in Hfree. cbn [app] in Hfree.
  destruct (raw_set_cd_ok T check_fn _ _ _ _ _ Hwrite) as (sn0 & cs & Hsn0 & Hcs & Hck & ->).
  rewrite Hsnode in Hsn0. injection Hsn0 as <-.
  destruct (i4_short _ _ _ HI _ _ Hsnode Hshort) as (Hmode & Hnoref & Hval).
  destruct (Hval _ _ _ Hcs Hck) as (nn0 & Hnn0 & Hnn). injection Hnn0 as <-.
  assert (Hcont : set_content sn (match n_content sn with [] => [CData (DString nn)] | _ :: r0 => CData (DString nn) :: r0 end)
                  = set_content sn [CData (DString nn)]).
  { destruct (i4_leaf _ _ _ HI _ _ Hsnode Hmode) as [->|(d & ->)]; reflexivity. }
  rewrite Hcont in *. clear Hcont.
  apply fix_identifiables_val in Hrekey as (x1 & Hx1 & _ & ->).
  assert (x1 = x) by (unfold model_at in Hx1, Hx0; cbn [w_models] in Hx1; congruence). subst x1. clear Hx1.
  replace ((pre ++ [47]) ++ nn) with (pre ++ 47 :: nn) in * by (rewrite <- app_assoc; reflexivity).
  cbn [w_nodes w_next w_files w_models] in *.
  fold (renamed_world w s (set_content sn [CData (DString nn)]) m x (pre ++ 47 :: cur) (pre ++ 47 :: nn)) in *.
  set (w2 := renamed_world w s (set_content sn [CData (DString nn)]) m x (pre ++ 47 :: cur) (pre ++ 47 :: nn)) in *.
  assert (HI2 : Inv04 w2).
  { apply (rename_short_inv04 T check_fn w s sn h n rest m x pre cur nn); auto. }
  assert (Hsleaf : elem_ids (n_content sn) = []) by (apply chars_content_elems; eapply (i4_leaf _ _ _ HI); eauto).
  assert (HSE : SE w w2).
  { split; [|split; [reflexivity|]].
    - intros j. unfold w2, renamed_world. cbn [w_nodes]. unfold upd. destruct (j =? s) eqn:E; [|reflexivity].
      apply N.eqb_eq in E. subst j. rewrite Hsnode. cbn. unfold sview. cbn. rewrite Hsleaf. reflexivity.
    - unfold w2, renamed_world. cbn [w_models]. clear -Hx0. unfold model_at in Hx0. revert Hx0. generalize (N.to_nat m). generalize (w_models w).
      induction l as [|z l IH]; intros [|k] H; cbn in *; try discriminate; auto.
      + injection H as ->. reflexivity.
      + f_equal. auto. }
  assert (HF2 : TreeFacts w2) by (eapply TreeFacts_se; eauto).
  assert (HI52 : Inv05 T w2).
  { apply (inv05_same_refs T w w2); [| | |exact HI5].
    - intros p c. split; [apply se_child; apply SE_sym; exact HSE|apply se_child; exact HSE].
    - intros j. unfold ref_text, w2, renamed_world. cbn [w_nodes]. unfold upd. destruct (j =? s) eqn:E; [|reflexivity].
      apply N.eqb_eq in E. subst j. rewrite Hsnode. cbn [set_content n_type]. rewrite (isref_val _ _ _ Hnoref). reflexivity.
    - unfold w2, renamed_world. cbn [w_models]. clear -Hx0. unfold model_at in Hx0. revert Hx0. generalize (N.to_nat m). generalize (w_models w).
      induction l as [|z l IH]; intros [|k] H; cbn in *; try discriminate; auto.
      + injection H as ->. reflexivity.
      + f_equal. auto. }
  eapply (each_keeps5 m (pre ++ 47 :: cur) (pre ++ 47 :: nn) each inner Hin_nil Hin_cons Hea_nil Hea_cons); [|split; [exact HF2|split; [exact HI2|exact HI52]]|exact Hloop].
  intros E. apply app_inv_head in E. injection E as E. contradiction.
Qed.

End SetName5.
