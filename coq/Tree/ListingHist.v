(* Tree/ListingHist.v — C07: the property text over HISTORIES on the real tables, with no hypothesis about the file version or the
   allocation state: in every world reached from the empty world by a history of editing calls whose create_file calls all use
   one of the 21 AUTOSAR versions v, every element that belongs to a file has version v (Tree/OrdHist.v mv_of_files), the id
   counter is fresh (C03 Core), and so Tree/ListingReal.v listing_exact_real applies to every name list_valid_sub_elements reports. *)
From Coq Require Import Arith Lia.
From AV Require Import Base.Bytes Base.Outcome Hash.HashModel Spec.SpecOps Spec.SpecReal Tree.Heap Tree.Ops Tree.Script Tree.Inv
  Tree.InvProofsBase Tree.Range Tree.ValidSubs Tree.SpecWF Tree.SpecWFReal Tree.Listing Tree.RangeProofsListing Tree.RangeProofsReal
  Tree.ListingReal Tree.OrdFrame Tree.OrdHistOps Tree.OrdHist Tree.RangeProofsListingNamed.
Open Scope list_scope.
Open Scope N_scope.

Lemma versions_le_latest v : In v VERSIONS -> v <= REAL_LATEST.
Proof.
  intros H. assert (A : forallb (fun x => x <=? REAL_LATEST) VERSIONS = true) by (vm_compute; reflexivity).
  rewrite forallb_forall in A. apply N.leb_le. exact (A v H).
Qed.

Theorem listing_exact_histories_real :
  forall (tab_el tab_en : nametab) (check_fn : N -> list N -> res bool) (root_attrs : list (N * cdata)) (v : N),
  In v VERSIONS ->
  forall (ops : list op) (w : world),
  single_version v ops = true ->
  run_ops RT tab_el tab_en check_fn REAL_LATEST root_attrs ops empty_world = Val w ->
  forall (h : id) (n : node) (vh : N) (w1 : world) (r : list valid_info) (w' : world) (vi : valid_info),
  w_nodes w h = Some n -> min_version REAL_LATEST h w = Val (OK vh, w1) ->
  list_valid_sub_elements RT REAL_LATEST h w = Val (OK r, w') -> In vi r ->
  vh = v /\
  (exists et ix, find_sub_element RT (n_type n) (vi_name vi) v = Val (Some (et, ix)) /\
                 is_named_in_version RT et v = Val (vi_named vi)) /\
  (vi_named vi = false ->
     (vi_allowed vi = true <-> exists c w2, e_create_sub_element RT REAL_LATEST h (vi_name vi) w = Val (OK c, w2)) /\
     (forall lo hi w2, calc_element_insert_range RT n (vi_name vi) v w = Val (OK (lo, hi), w2) ->
        forall pos, (exists c w3, e_create_sub_element_at RT REAL_LATEST h (vi_name vi) pos w = Val (OK c, w3)) <-> lo <= pos <= hi)) /\
  (vi_named vi = true ->
     forall pos c w2, e_create_sub_element_at RT REAL_LATEST h (vi_name vi) pos w <> Val (OK c, w2)).
Proof.
  intros tab_el tab_en check_fn root_attrs v Hv ops w SV HR h n vh w1 r w' vi Hn Hmv HL Hin.
  destruct (hinv_histories RT SpecWF_real tab_el tab_en check_fn REAL_LATEST root_attrs v (versions_le_latest v Hv)
              ops empty_world w SV (hinv_empty RT v) HR) as (C & _ & FV & NF).
  pose proof (mv_of_files REAL_LATEST v (versions_le_latest v Hv) w FV NF h vh w1 Hmv) as ->.
  pose proof (ro_min_version REAL_LATEST h _ _ _ Hmv) as ->.
  split; [reflexivity|].
  assert (Hf : w_nodes w (w_next w) = None) by (apply (core_fresh _ C); lia).
  exact (listing_exact_real h n v w r w' vi Hv Hn Hf Hmv HL Hin).
Qed.

(* the named half over histories: for a name reported as named, create_named_sub_element_at succeeds exactly for an allowed
   name, a position inside the reported range and a valid fresh item name *)
Theorem listing_named_histories_real :
  forall (tab_el tab_en : nametab) (check_fn : N -> list N -> res bool) (root_attrs : list (N * cdata)) (v : N),
  In v VERSIONS ->
  forall (ops : list op) (w : world),
  single_version v ops = true ->
  run_ops RT tab_el tab_en check_fn REAL_LATEST root_attrs ops empty_world = Val w ->
  forall (h : id) (n : node) (m vh : N) (w1 w2 : world) (r : list valid_info) (w' : world) (vi : valid_info),
  w_nodes w h = Some n -> model_of h w = Val (OK m, w1) -> min_version REAL_LATEST h w = Val (OK vh, w2) ->
  list_valid_sub_elements RT REAL_LATEST h w = Val (OK r, w') -> In vi r -> vi_named vi = true ->
  exists et ix, find_sub_element RT (n_type n) (vi_name vi) v = Val (Some (et, ix)) /\ is_named_in_version RT et v = Val true /\
    forall item pos,
      (exists c w3, e_create_named_sub_element_at RT check_fn REAL_LATEST h (vi_name vi) item pos w = Val (OK c, w3)) <->
      (vi_allowed vi = true /\
       (exists lo hi, calc_element_insert_range RT n (vi_name vi) v w = Val (OK (lo, hi), w) /\ lo <= pos <= hi) /\
       fresh_valid_name RT check_fn n m v et item w).
Proof.
  intros tab_el tab_en check_fn root_attrs v Hv ops w SV HR h n m vh w1 w2 r w' vi Hn Hm Hmv HL Hin Hnamed.
  destruct (hinv_histories RT SpecWF_real tab_el tab_en check_fn REAL_LATEST root_attrs v (versions_le_latest v Hv)
              ops empty_world w SV (hinv_empty RT v) HR) as (C & _ & FV & NF).
  pose proof (mv_of_files REAL_LATEST v (versions_le_latest v Hv) w FV NF h vh w2 Hmv) as ->.
  pose proof (ro_min_version REAL_LATEST h _ _ _ Hmv) as ->.
  pose proof (ro_model_of h _ _ _ Hm) as ->.
  assert (Hf1 : w_nodes w (w_next w) = None) by (apply (core_fresh _ C); lia).
  assert (Hf2 : w_nodes w (w_next w + 1) = None) by (apply (core_fresh _ C); lia).
  exact (listing_named_creatable RT SpecWF_real check_fn REAL_LATEST h n m v w r w' vi (named_agree_real _) Hv Hn Hf1 Hf2 Hm Hmv HL Hin Hnamed).
Qed.
