(* Tree/Index.v — specification side of C04 (path index) and the shared vocabulary of C05.
   Everything here is defined from the TREE (content lists from the model root downwards), never through the two caches
   m_idents / m_origins, and never through parent links:
     dpath w a i q     i is reached from a through content lists and q is the concatenation of "/"+item-name of the
                       identifiable elements passed on the way (a excluded, i included)
     reach w r i       exists q, dpath w r i q
     spath w r i p     p = (own segment of r) ++ q  -- the AUTOSAR path of i computed top-down
     IndexExact w m    the IndexMap `identifiables` of model m is exactly {(p,i) | reach, identifiable, spath}
   plus boolean checkers (top-down enumeration) used for Examples and refutations, a tiny hand-made table set and a
   script runner.   MODEL/SPEC ONLY: definitions + Examples, no proofs. *)
From AV Require Import Base.Bytes Base.Outcome Hash.HashModel Tree.Heap Tree.Ops Tree.Script.
Open Scope string_scope.
Open Scope list_scope.
Open Scope N_scope.

Section Index.
Variable T : tables.

(* ---------- pure (total) readings of a node: the meaning of is_named / character_data / item_name / is_identifiable.
   A table lookup that panics counts as "no" on the specification side (operations that meet it panic themselves). *)
Definition named (ty : N * N) : bool := match is_named T ty with Val b => b | _ => false end.
Definition isref (ty : N * N) : bool := match is_ref T ty with Val b => b | _ => false end.
Definition cdata_of (n : node) : option cdata := match character_data T n with Val o => o | _ => None end.

(* the SHORT-NAME element in first position, if any *)
Definition short_child (w : world) (n : node) : option node :=
  match n_content n with
  | CElem s :: _ => match w_nodes w s with
                    | Some sn => if n_name sn =? name_short_name T then Some sn else None
                    | None => None
                    end
  | _ => None
  end.

Definition identifiable_n (w : world) (n : node) : bool :=
  named (n_type n) && match short_child w n with Some _ => true | None => false end.

Definition item_name_n (w : world) (n : node) : option (list N) :=
  if named (n_type n) then
    match short_child w n with
    | Some sn => match cdata_of sn with Some (DString nm) => Some nm | _ => None end
    | None => None
    end
  else None.

(* the path segment an element contributes: "/" ++ item name, nothing when it has no item name *)
Definition seg_n (w : world) (n : node) : list N :=
  match item_name_n w n with Some nm => 47 :: nm | None => [] end.

Definition seg (w : world) (i : id) : list N :=
  match w_nodes w i with Some n => seg_n w n | None => [] end.
Definition identifiable (w : world) (i : id) : bool :=
  match w_nodes w i with Some n => identifiable_n w n | None => false end.

(* reference elements and their text *)
Definition ref_text (w : world) (i : id) : option (list N) :=
  match w_nodes w i with
  | Some n => if isref (n_type n) then match cdata_of n with Some (DString p) => Some p | _ => None end else None
  | None => None
  end.
Definition is_ref_node (w : world) (i : id) : bool :=
  match w_nodes w i with Some n => isref (n_type n) | None => false end.

(* ---------- the tree, top-down *)
Definition child_of (w : world) (p c : id) : Prop :=
  exists n, w_nodes w p = Some n /\ In (CElem c) (n_content n).

Inductive dpath (w : world) (a : id) : id -> list N -> Prop :=
| dp_refl : dpath w a a []
| dp_step p c q : dpath w a p q -> child_of w p c -> dpath w a c (q ++ seg w c).

Definition reach (w : world) (r i : id) : Prop := exists q, dpath w r i q.
Definition spath (w : world) (r i : id) (p : list N) : Prop := exists q, dpath w r i q /\ p = seg w r ++ q.

Definition model_at (w : world) (m : N) : option model := nth_opt (w_models w) (N.to_nat m).

Definition MReach (w : world) (m : N) (i : id) : Prop :=
  exists x, model_at w m = Some x /\ reach w (m_root x) i.
Definition SpecPath (w : world) (m : N) (i : id) (p : list N) : Prop :=
  exists x, model_at w m = Some x /\ spath w (m_root x) i p.

(* ---------- C04 *)
Definition PathSet (w : world) (m : N) (p : list N) (i : id) : Prop :=
  MReach w m i /\ identifiable w i = true /\ SpecPath w m i p.

Definition IndexExact (w : world) (m : N) : Prop :=
  forall x, model_at w m = Some x ->
  forall p i, assoc_get p (m_idents x) = Some i <-> PathSet w m p i.

Definition NoDupKeys {A} (l : list (list N * A)) : Prop := NoDup (map fst l).
Definition IndexNoDup (w : world) (m : N) : Prop :=
  forall x, model_at w m = Some x -> NoDupKeys (m_idents x).

Definition UniquePaths (w : world) (m : N) : Prop :=
  forall i j p, PathSet w m p i -> PathSet w m p j -> i = j.

(* ---------- C05 *)
Definition origins_of (x : model) (p : list N) : list id :=
  match assoc_get p (m_origins x) with Some l => l | None => [] end.

(* r is a reference element of model m whose text is the string p *)
Definition RefSet (w : world) (m : N) (p : list N) (r : id) : Prop :=
  MReach w m r /\ ref_text w r = Some p.

(* "Permutation l [r | RefSet w m p r]" without choosing an enumeration order of the tree:
   l is duplicate-free and its members are exactly the references with text p *)
Definition RefsExact (w : world) (m : N) : Prop :=
  forall x, model_at w m = Some x ->
  forall p, NoDup (origins_of x p) /\ (forall r, In r (origins_of x p) <-> RefSet w m p r).

Definition OriginsTidy (w : world) (m : N) : Prop :=
  forall x, model_at w m = Some x ->
  NoDupKeys (m_origins x) /\ (forall p l, In (p, l) (m_origins x) -> l <> []).

(* ---------- structural facts about the heap.  This record is the ONLY thing the C04/C05 proofs assume about the
   shape of the heap; it is a consequence of C03's `TreeInv w` (Tree/Inv.v: Core w /\ NoOrphan w) — the bridge lemma
   is Tree/IndexProofsBridge.v. *)
(* the parent chain of i has exactly h element links before it ends (in PNone or PModel): finite = acyclic *)
Inductive pdepth (w : world) : id -> nat -> Prop :=
| pd_top i n : w_nodes w i = Some n -> (forall p, n_parent n <> PElem p) -> pdepth w i 0
| pd_step i n p h : w_nodes w i = Some n -> n_parent n = PElem p -> pdepth w p h -> pdepth w i (S h).

Definition elem_ids (l : list citem) : list id :=
  flat_map (fun it => match it with CElem c => [c] | CData _ => [] end) l.

Record TreeFacts (w : world) : Prop := {
  (* every listed child exists and points back to the node that lists it (for every allocated lister) *)
  tf_up : forall p c, child_of w p c -> exists cn, w_nodes w c = Some cn /\ n_parent cn = PElem p;
  (* nobody is listed twice by one parent (with tf_up: nobody is listed twice at all) *)
  tf_nodup : forall p n, w_nodes w p = Some n -> NoDup (elem_ids (n_content n));
  (* a node with an element parent is listed by it *)
  tf_down : forall c cn p, w_nodes w c = Some cn -> n_parent cn = PElem p -> child_of w p c;
  (* model roots *)
  tf_roots : forall m x, model_at w m = Some x -> exists n, w_nodes w (m_root x) = Some n /\ n_parent n = PModel m;
  tf_pmodel : forall i n m, w_nodes w i = Some n -> n_parent n = PModel m ->
              exists x, model_at w m = Some x /\ m_root x = i;
  (* parent chains are finite *)
  tf_depth : forall i n, w_nodes w i = Some n -> exists h, pdepth w i h;
  (* allocation *)
  tf_alloc : forall i n, w_nodes w i = Some n -> i < w_next w
}.

(* ---------- boolean checkers (top-down enumeration with fuel; None = fuel exhausted or dangling id) *)
Fixpoint enum (fuel : nat) (w : world) (prefix : list N) (i : id) {struct fuel} : option (list (id * list N)) :=
  match fuel with
  | O => None
  | S f =>
    match w_nodes w i with
    | None => None
    | Some n =>
      let p := prefix ++ seg_n w n in
      match
        (fix kids (l : list citem) : option (list (id * list N)) :=
           match l with
           | [] => Some []
           | CElem c :: rest =>
             match enum f w p c, kids rest with
             | Some a, Some b => Some (a ++ b)
             | _, _ => None
             end
           | CData _ :: rest => kids rest
           end) (n_content n)
      with
      | Some r => Some ((i, p) :: r)
      | None => None
      end
    end
  end.

(* the entries the registration walk of create_copied_sub_element adds (register_subtree in Tree/Ops.v), in walk
   order: (path, element) for the path index, (text, reference) for the referrer lists *)
Fixpoint reg_entries (fuel : nat) (w : world) (cur : list N) (i : id) {struct fuel}
  : option (list (list N * id) * list (list N * id)) :=
  match fuel with
  | O => None
  | S f =>
    match w_nodes w i with
    | None => None
    | Some n =>
      let p := cur ++ seg_n w n in
      let own := if identifiable_n w n then [(p, i)] else [] in
      let rf := if isref (n_type n) then match cdata_of n with Some (DString r) => [(r, i)] | _ => [] end else [] in
      match
        (fix kids (l : list citem) : option (list (list N * id) * list (list N * id)) :=
           match l with
           | [] => Some ([], [])
           | CElem c :: rest =>
             match reg_entries f w p c, kids rest with
             | Some (a1, b1), Some (a2, b2) => Some (a1 ++ a2, b1 ++ b2)
             | _, _ => None
             end
           | CData _ :: rest => kids rest
           end) (n_content n)
      with
      | Some (a, b) => Some (own ++ a, rf ++ b)
      | None => None
      end
    end
  end.

Definition enum_model (w : world) (x : model) : option (list (id * list N)) :=
  enum (S (N.to_nat (w_next w))) w [] (m_root x).

Fixpoint nodupb (l : list (list N)) : bool :=
  match l with [] => true | k :: r => negb (existsb (bytes_eqb k) r) && nodupb r end.
Fixpoint nodupN (l : list N) : bool :=
  match l with [] => true | k :: r => negb (existsb (N.eqb k) r) && nodupN r end.

Definition index_ok_model (w : world) (x : model) : bool :=
  match enum_model w x with
  | None => false
  | Some l =>
    let spec := filter (fun e => identifiable w (fst e)) l in
    nodupN (map fst l)
    && forallb (fun e => match assoc_get (snd e) (m_idents x) with Some j => j =? fst e | None => false end) spec
    && forallb (fun e => existsb (fun s => (fst s =? snd e) && bytes_eqb (snd s) (fst e)) spec) (m_idents x)
    && nodupb (map fst (m_idents x))
  end.

Definition refs_ok_model (w : world) (x : model) : bool :=
  match enum_model w x with
  | None => false
  | Some l =>
    let ids := map fst l in
    nodupN ids
    && forallb (fun r => match ref_text w r with
                         | Some p => existsb (N.eqb r) (origins_of x p)
                         | None => true end) ids
    && forallb (fun e => negb (is_empty (snd e)) && nodupN (snd e)
                         && forallb (fun r => existsb (N.eqb r) ids
                                              && match ref_text w r with Some p => bytes_eqb p (fst e) | None => false end)
                                    (snd e)) (m_origins x)
    && nodupb (map fst (m_origins x))
  end.

Definition index_ok (w : world) : bool := forallb (index_ok_model w) (w_models w).
Definition refs_ok (w : world) : bool := forallb (refs_ok_model w) (w_models w).

End Index.

(* ====================================================================== invariants, table facts, finding classes *)
Section Inv.
Variable T : tables.
Variable tab_el tab_en : nametab.
Variable check_fn : N -> list N -> res bool.
Variable LATEST : N.

Definition SHORTN := name_short_name T.

(* a type fit for SHORT-NAME elements: character content, not a reference, and every accepted value is a string
   without '/' *)
Definition short_type (ty : N * N) : Prop :=
  content_mode T ty = Val MCharacters /\ is_ref T ty = Val false /\
  forall cs v ver, chardata_spec T ty = Val (Some cs) -> check_value check_fn v cs ver = Val true ->
    exists s, v = DString s /\ ~ In 47 s.

(* what the theorems assume about the specification tables (true of the generated tables: the SHORT-NAME types are
   character types validated by an identifier pattern; reference types are character types) *)
Record TablesOK : Prop := {
  tk_short : forall ty v et ix, find_sub_element T ty SHORTN v = Val (Some (et, ix)) -> short_type et;
  tk_ref : forall ty, is_ref T ty = Val true -> content_mode T ty = Val MCharacters;
  (* the values a reference type accepts are strings *)
  tk_refspec : forall ty cs v ver, is_ref T ty = Val true -> chardata_spec T ty = Val (Some cs) ->
               check_value check_fn v cs ver = Val true -> exists s, v = DString s;
  tk_root : forall ed, elem T (autosar_element T) = Val ed -> ed_name ed <> SHORTN
}.

(* side invariants about ALL allocated nodes *)
Definition ShortTyped (w : world) : Prop :=
  forall i n, w_nodes w i = Some n -> n_name n = SHORTN -> short_type (n_type n).
Definition SlashFree (w : world) : Prop :=
  forall i n s, w_nodes w i = Some n -> n_name n = SHORTN -> cdata_of T n = Some (DString s) -> ~ In 47 s.
Definition AllNamed (w : world) : Prop :=
  forall i n, w_nodes w i = Some n -> identifiable_n T w n = true -> item_name_n T w n <> None.
(* elements with character content have no sub-elements (nothing can be inserted into them) and at most one text item *)
Definition chars_content (l : list citem) : Prop := l = [] \/ exists d, l = [CData d].
Definition CharsLeaf (w : world) : Prop :=
  forall i n, w_nodes w i = Some n -> content_mode T (n_type n) = Val MCharacters -> chars_content (n_content n).

Record Inv04 (w : world) : Prop := {
  i4_short : ShortTyped w;
  i4_slash : SlashFree w;
  i4_named : AllNamed w;
  i4_leaf : CharsLeaf w;
  i4_exact : forall m, IndexExact T w m;
  i4_nodup : forall m, IndexNoDup w m
}.

(* ---------- classes of (state, operation) on which the code breaks C04 (findings; each has a witness in
   Tree/IndexProofsRefuted.v) *)
Definition is_short_node (w : world) (i : id) : bool :=
  match w_nodes w i with Some n => n_name n =? SHORTN | None => false end.
Definition named_node (w : world) (i : id) : bool :=
  match w_nodes w i with Some n => named T (n_type n) | None => false end.
Definition nm_of (w : world) (i : id) : N := match w_nodes w i with Some n => n_name n | None => 0 end.

(* the position at which a creator without explicit position inserts: the end of the insert range *)
Definition range_of (w : world) (h name : N) : option (N * N) :=
  match min_version LATEST h w with
  | Val (OK v, _) =>
    match w_nodes w h with
    | Some n => match calc_element_insert_range T n name v w with Val (OK r, _) => Some r | _ => None end
    | None => None
    end
  | _ => None
  end.
Definition ins_pos (w : world) (h name : N) (pos : option N) : option N :=
  match pos with Some p => Some p | None => option_map snd (range_of w h name) end.

(* K04-front: something is put in FRONT of the content of h, where h is identifiable (its SHORT-NAME is no longer the
   first item: h silently stops being identifiable but keeps its index entry), or h is of a named type and the new
   first item is a SHORT-NAME element (h silently becomes identifiable, without index entry).
   Real tables: possible for mixed-content named types with the _at variants; never for Sequence types. *)
Definition front (w : world) (h name : N) (pos : option N) : bool :=
  match ins_pos w h name pos with
  | Some 0 => identifiable T w h || (named_node w h && (name =? SHORTN))
  | _ => false
  end.

(* K04-front for removal: the first item of an element of a named type is removed and a SHORT-NAME element that was
   the second item becomes first (the element silently becomes identifiable, without index entry) *)
Definition remove_front (w : world) (h : id) (is_sub : id -> bool) : bool :=
  named_node w h &&
  match w_nodes w h with
  | Some n => match n_content n with CElem c :: CElem s :: _ => is_sub c && is_short_node w s | _ => false end
  | None => false
  end.

(* K04-front for the iterated removals of remove_from_file / remove_file, evaluated statically (conservative): some
   element of a named type has a SHORT-NAME element at a position other than the first.  In such a world a removal
   can bring a SHORT-NAME to the front; in a world without, no sequence of removals can (the items that remain keep
   their order).  Real tables: only the mixed-content named types (ECUC-QUERY-EXPRESSION ...) allow it. *)
Definition late_short_at (w : world) (i : id) : bool :=
  named_node w i &&
  match w_nodes w i with
  | Some n => match n_content n with
              | _ :: rest => existsb (fun it => match it with CElem s => is_short_node w s | CData _ => false end) rest
              | [] => false
              end
  | None => false
  end.
Definition late_short (w : world) : bool :=
  existsb (late_short_at w) (map N.of_nat (seq 0 (N.to_nat (w_next w)))).

(* remove_file of the last file of a model (every sub-element of the root is removed, the indexes are reset) *)
Definition last_file (w : world) (m f : N) : bool :=
  match model_at w m with
  | Some x => match index_of (N.eqb f) (m_files x) with
              | Some pos => is_empty (swap_remove_at (m_files x) pos)
              | None => false
              end
  | None => false
  end.

(* K04-front on the source side of a move: the moved element is the first item of its (named-type) parent and a
   SHORT-NAME element follows *)
Definition src_front (w : world) (mv : id) : bool :=
  match w_nodes w mv with
  | Some mn => match n_parent mn with PElem p => remove_front w p (N.eqb mv) | _ => false end
  | None => false
  end.
(* move_element_here_at inside the same parent (only the position changes), the parent being of a named type:
   conservative form of K04-front for the re-positioning *)
Definition same_parent_named (w : world) (h mv : id) : bool :=
  named_node w h &&
  match w_nodes w mv with
  | Some mn => match n_parent mn with PElem p => p =? h | _ => false end
  | None => false
  end.

(* side condition of remove_file for the last file: the root element is of a named type or of a reference type (then
   the reset of the two maps is wrong: the root keeps a SHORT-NAME / a reference text).  Never the case for a root
   made by AutosarModel::new with the generated tables (the AUTOSAR type is neither). *)
Definition root_unplain (w : world) (m : N) : bool :=
  match model_at w m with
  | Some x => named_node w (m_root x) || is_ref_node T w (m_root x)
  | None => false
  end.

Definition copy_container (w : world) (other : id) : bool :=
  negb (identifiable T w other) && existsb (identifiable T w) (walk (S (N.to_nat (w_next w))) w other).

Definition Known04 (w : world) (o : op) : bool :=
  match o with
  | OpRemove h sub => remove_front w h (N.eqb sub)
  | OpRemoveKind h name => remove_front w h (fun c => nm_of w c =? name)
  | OpCreateSub h name | OpGetOrCreate h name | OpCreateNamed h name _ | OpGetOrCreateNamed h name _ => front w h name None
  | OpCreateSubAt h name pos | OpCreateNamedAt h name _ pos => front w h name (Some pos)
  (* K04-copy-container: the copied element is not identifiable but contains identifiable elements: only the copied
     element itself would get a unique name, the nested ones are registered under their old relative paths *)
  | OpCopy h other => front w h (nm_of w other) None || copy_container w other
  | OpCopyAt h other pos => front w h (nm_of w other) (Some pos) || copy_container w other
  (* K04-move-short: a SHORT-NAME element is moved away from / into an element *)
  | OpMove h mv => is_short_node w mv || front w h (nm_of w mv) None || src_front w mv
  | OpMoveAt h mv pos => is_short_node w mv || front w h (nm_of w mv) (Some pos) || src_front w mv || same_parent_named w h mv
  (* K04-front for text items of mixed content *)
  | OpInsertCItem h _ pos => (pos =? 0) && identifiable T w h
  | OpRemoveCItem h pos =>
    (pos =? 0) && named_node w h &&
    match w_nodes w h with
    | Some n => match n_content n with _ :: CElem s :: _ => is_short_node w s | _ => false end
    | None => false
    end
  | OpRemoveFromFile _ _ => late_short w
  | OpRemoveFile m f => late_short w || (last_file w m f && root_unplain w m)
  | _ => false
  end.

(* ---------- constructors whose preservation proof is not finished (covered by correspondence only) *)
Definition Pending04 (w : world) (o : op) : bool :=
  match o with
  | OpCopy _ _ | OpCopyAt _ _ _ | OpMove _ _ | OpMoveAt _ _ _
  | OpSetItemName _ _ => true
  | _ => false
  end.

End Inv.

(* ====================================================================== a tiny table set and a script runner *)
Module Tiny.
(* element names = element definitions = data types:
   0 AUTOSAR  1 AR-PACKAGES  2 AR-PACKAGE  3 SHORT-NAME  4 ELEMENTS  5 SYSTEM  6 FIBEX-ELEMENT-REF  7 DESC (mixed)
   8 TT  9 OLD-THING (has a SHORT-NAME only in version bit 1, not in version bit 2)
   10 MIXED-NAMED (mixed content AND named, like ECUC-QUERY-EXPRESSION in the real tables)
   11 GROUP (a repeatable container that is NOT named and holds identifiable elements, like SDG holding SDG-CAPTION)
   versions: bit 1 and bit 2 (LATEST = 2).  attribute 0 = DEST.  enum items 0 AR-PACKAGE 1 SYSTEM 2 OLD-THING *)
Definition nAUTOSAR := 0. Definition nPKGS := 1. Definition nPKG := 2. Definition nSHORT := 3. Definition nELEMENTS := 4.
Definition nSYSTEM := 5. Definition nREF := 6. Definition nDESC := 7. Definition nTT := 8. Definition nOLD := 9.

Definition mkE (name ty mult split : N) : elemdef :=
  {| ed_name := name; ed_type := ty; ed_mult := mult; ed_ordered := 0; ed_split := split; ed_restrict := 0 |}.
Definition mkD (s e : N) (as_ ae : N) (cd mode : N) (rs re : N) : dtype :=
  {| dt_sub_start := s; dt_sub_end := e; dt_sub_ver := s; dt_attr_start := as_; dt_attr_end := ae; dt_attr_ver := 100 + as_;
     dt_cdata := cd; dt_mode := mode; dt_ref_start := rs; dt_ref_end := re |}.

Definition nMIXN := 10. Definition nGROUP := 11.

Definition tiny : tables := {|
  T_elements := fun i => match i with
    | 0 => Some (mkE 0 0 1 0) | 1 => Some (mkE 1 1 0 3) | 2 => Some (mkE 2 2 2 0) | 3 => Some (mkE 3 3 1 0)
    | 4 => Some (mkE 4 4 0 3) | 5 => Some (mkE 5 5 2 0) | 6 => Some (mkE 6 6 2 0) | 7 => Some (mkE 7 7 0 0)
    | 8 => Some (mkE 8 8 2 0) | 9 => Some (mkE 9 9 2 0) | 10 => Some (mkE 10 10 2 0) | 11 => Some (mkE 11 11 2 0)
    | _ => None end;
  n_elements := 12;
  (* flat SUBELEMENTS: (0, def) = element *)
  T_subelements := fun i => match i with
    | 0 => Some (0, 1)                                        (* AUTOSAR: AR-PACKAGES *)
    | 1 => Some (0, 2)                                        (* AR-PACKAGES: AR-PACKAGE* *)
    | 2 => Some (0, 3) | 3 => Some (0, 4) | 4 => Some (0, 1)  (* AR-PACKAGE: SHORT-NAME ELEMENTS AR-PACKAGES *)
    | 5 => Some (0, 5) | 6 => Some (0, 9) | 7 => Some (0, 10) | 8 => Some (0, 11)
                                                              (* ELEMENTS (bag): SYSTEM* OLD-THING* MIXED-NAMED* GROUP* *)
    | 9 => Some (0, 3) | 10 => Some (0, 7) | 11 => Some (0, 6) (* SYSTEM: SHORT-NAME DESC FIBEX-ELEMENT-REF* *)
    | 12 => Some (0, 8) | 13 => Some (0, 6) | 14 => Some (0, 5)  (* DESC (mixed): TT* FIBEX-ELEMENT-REF* SYSTEM* *)
    | 15 => Some (0, 3) | 16 => Some (0, 6)                   (* OLD-THING: SHORT-NAME(v1 only) FIBEX-ELEMENT-REF* *)
    | 17 => Some (0, 3) | 18 => Some (0, 8)                   (* MIXED-NAMED (mixed, named): SHORT-NAME TT* *)
    | 19 => Some (0, 5)                                       (* GROUP (not named, repeatable): SYSTEM* *)
    | _ => None end;
  n_subelements := 20;
  T_attributes := fun i => match i with 0 => Some (0, 2, 1) | _ => None end;   (* DEST : enum, required *)
  n_attributes := 1;
  T_version_info := fun i => if i =? 15 then Some 1 else Some 3;
  n_version_info := 200;
  T_datatypes := fun i => match i with
    | 0 => Some (mkD 0 1 0 0 0 MSequence 0 0)
    | 1 => Some (mkD 1 2 0 0 0 MSequence 0 0)
    | 2 => Some (mkD 2 5 0 0 0 MSequence 0 1)
    | 3 => Some (mkD 5 5 0 0 1 MCharacters 0 0)      (* SHORT-NAME: cdata 0 *)
    | 4 => Some (mkD 5 9 0 0 0 MBag 0 0)
    | 5 => Some (mkD 9 12 0 0 0 MSequence 1 2)
    | 6 => Some (mkD 12 12 0 1 2 MCharacters 0 0)    (* reference: cdata 1, attribute DEST *)
    | 7 => Some (mkD 12 15 0 0 4 MMixed 0 0)         (* DESC: cdata 3 *)
    | 8 => Some (mkD 15 15 0 0 4 MCharacters 0 0)
    | 9 => Some (mkD 15 17 0 0 0 MSequence 2 3)
    | 10 => Some (mkD 17 19 0 0 4 MMixed 3 4)
    | 11 => Some (mkD 19 20 0 0 0 MSequence 0 0)
    | _ => None end;
  n_datatypes := 12;
  T_ref_items := fun i => match i with 0 => Some 0 | 1 => Some 1 | 2 => Some 2 | 3 => Some 3 | _ => None end;
  n_ref_items := 4;
  T_cdata := fun i => match i with
    | 0 => Some (CPattern 0 (Some 8))       (* identifier: non-empty, no '/' , at most 8 bytes *)
    | 1 => Some (CPattern 1 (Some 12))      (* reference: starts with '/', at most 12 bytes *)
    | 2 => Some (CEnum [(0, 3); (1, 3); (2, 3); (3, 3)])
    | 3 => Some (CString false None)
    | _ => None end;
  n_cdata := 4;
  reference_type_idx := 1; autosar_element := 0; name_short_name := 3; attr_dest := 0
|}.

Definition tiny_check_fn (fn : N) (s : list N) : res bool :=
  match fn with
  | 0 => Val (negb (is_empty s) && negb (existsb (N.eqb 47) s))
  | 1 => Val (starts_with_slash s)
  | _ => Pan "tiny_check_fn"
  end.

Definition tiny_el : nametab :=
  {| nt_strtab := [BS "AUTOSAR"; BS "AR-PACKAGES"; BS "AR-PACKAGE"; BS "SHORT-NAME"; BS "ELEMENTS"; BS "SYSTEM";
                   BS "FIBEX-ELEMENT-REF"; BS "DESC"; BS "TT"; BS "OLD-THING"; BS "MIXED-NAMED"; BS "GROUP"];
     nt_disp := [(0, 0)]; nt_mdisp := 1; nt_mtab := 1 |}.
(* every from_bytes on this table is Err, so Element::set_reference_target takes the reference_dest_value route *)
Definition tiny_en : nametab := {| nt_strtab := [BS "~"]; nt_disp := [(0, 0)]; nt_mdisp := 1; nt_mtab := 1 |}.

Definition LATEST := 2.
Definition run := run_op tiny tiny_el tiny_en tiny_check_fn LATEST [].

Definition empty_world : world := mkWorld (fun _ => None) 0 [] [].

(* run a script; results are dropped, errors (ER) keep going exactly like a caller ignoring a Result *)
Fixpoint run_script (ops : list op) (w : world) : res world :=
  match ops with
  | [] => Val w
  | o :: r => match run o w with Val (_, w') => run_script r w' | Pan s => Pan s | Fuel => Fuel end
  end.

(* results of every step, for looking at scripts *)
Inductive obs := OOk (v : value) | OErr (e : err) | OPan | OFuel.
Fixpoint trace_script (ops : list op) (w : world) : list obs :=
  match ops with
  | [] => []
  | o :: r => match run o w with
              | Val (OK v, w') => OOk v :: trace_script r w'
              | Val (ER e, w') => OErr e :: trace_script r w'
              | Pan _ => [OPan] | Fuel => [OFuel] end
  end.

Definition idents_of (w : world) (m : N) := match model_at w m with Some x => m_idents x | None => [] end.
Definition origins_list (w : world) (m : N) := match model_at w m with Some x => m_origins x | None => [] end.

(* the standard prefix: one model, one file of version bit 2, AR-PACKAGES (node 1) *)
Definition setup : list op := [OpNewModel; OpCreateFile 0 (BS "f") 2; OpCreateSub 0 nPKGS].

(* /A (2, SHORT-NAME 3) with ELEMENTS (4) holding /A/S (5, SHORT-NAME 6) with a reference (7) to /B; /B (8, SHORT-NAME 9) *)
Definition demo : list op :=
  setup ++ [OpCreateNamed 1 nPKG (BS "A"); OpCreateSub 2 nELEMENTS; OpCreateNamed 4 nSYSTEM (BS "S");
            OpCreateSub 5 nREF; OpCreateNamed 1 nPKG (BS "B"); OpSetRefTarget 7 8].

Definition with_script {A} (s : list op) (f : world -> A) (d : A) : A :=
  match run_script s empty_world with Val w => f w | _ => d end.

Example demo_idents :
  with_script demo (fun w => idents_of w 0) [] = [(BS "/A", 2); (BS "/A/S", 5); (BS "/B", 8)].
Proof. vm_compute. reflexivity. Qed.
Example demo_origins : with_script demo (fun w => origins_list w 0) [] = [(BS "/B", [7])].
Proof. vm_compute. reflexivity. Qed.
Example demo_index_ok : with_script demo (index_ok tiny) false = true.
Proof. vm_compute. reflexivity. Qed.
Example demo_refs_ok : with_script demo (refs_ok tiny) false = true.
Proof. vm_compute. reflexivity. Qed.
End Tiny.
