(* GENERATED from InvProofsDetFiles3.v by tools/c03_gen_invL.py: the same proof for DFL over TreeInvL, see Tree/InvL_Base.v *)
(* Tree/InvProofsDetFiles3.v — C03: DFL is preserved, part 3: removal (needs NoOrphan), re-parenting lemmas. *)
From Coq Require Import PeanoNat Arith.
From AV Require Import Base.Bytes Base.Outcome Hash.HashModel Tree.Heap Tree.Ops Tree.Script Tree.Inv
  Tree.InvProofsBase Tree.InvProofsCore Tree.InvProofsTree Tree.InvProofsPrim Tree.InvEBase Tree.InvE_Create Tree.InvE_Remove Tree.InvE_Files Tree.InvE_Move Tree.InvE_Copy Tree.InvE_Main Tree.Load Tree.InvL_Base Tree.InvProofsCreate
  Tree.InvProofsData Tree.InvProofsRefs Tree.InvProofsRemove Tree.InvProofsMove Tree.InvProofsCopy
  Tree.InvProofsRename Tree.InvProofsFrame Tree.StaleProofs Tree.InvProofsDetFiles Tree.InvProofsDetFiles2.
Open Scope string_scope.
Open Scope list_scope.
Open Scope N_scope.

Notation pframe := (frame pfNR pfNN).
Notation pfp := (frp pfNR pfNN).

(* ------------------------------------------------------------------ DFL-preserving computations *)
Definition DFpL {A} (m : W A) : Prop := forall w r w', TreeInvL w -> DFL w -> m w = Val (r, w') -> DFL w'.

Lemma DFp_pfpCL {A} (m : W A) : pfpC m -> DFpL m.
Proof. intros H w r w' (C & _) D E. eapply DFL_pframe; eauto. Qed.
Lemma DFp_pfpL {A} (m : W A) : pfp m -> DFpL m.
Proof. intros H. apply DFp_pfpCL, pfpC_pfp, H. Qed.
Lemma DFp_roL {A} (m : W A) : ro m -> DFpL m.
Proof. intros H w r w' _ D E. apply H in E. subst. auto. Qed.
Lemma DFp_bindL {A B} (m : W A) (k : A -> W B) : PresE m -> DFpL m -> (forall a, DFpL (k a)) -> DFpL (wbind m k).
Proof.
  intros Pm Hm Hk w r w' I D H. apply wbind_inv in H as [(a & w1 & H1 & H2) | (e & H1 & _)].
  - eapply Hk; [eapply TreeInvL_PresE; eauto | eapply Hm; eauto | eauto].
  - eapply Hm; eauto.
Qed.
Lemma DFp_tryL {A} (m : W A) : DFpL m -> DFpL (wtry m).
Proof. intros Hm w r w' I D H. apply wtry_inv in H as (r0 & H & _). eapply Hm; eauto. Qed.

(* ------------------------------------------------------------------ removal: cleared nodes lose their file set *)
Definition clNRL (n n' : node) : Prop := pfNR n n' \/ (n_parent n' = PNone /\ n_files n' = []).
Lemma clNR_reflL n : clNRL n n. Proof. left. apply pfNR_refl. Qed.
Lemma clNR_transL a b c : clNRL a b -> clNRL b c -> clNRL a c.
Proof.
  intros [H1|(P1 & F1)] [H2|(P2 & F2)]; [left; eapply pfNR_trans; eauto | right; auto | | right; auto].
  right. destruct H2 as (P2 & [F2|F2]); split; congruence.
Qed.
Lemma clNN_NRL a b : pfNN a -> clNRL a b -> pfNN b.
Proof. unfold pfNN. intros Ha [(_ & [F|F])|(_ & F)]; congruence. Qed.
#[export] Hint Resolve clNR_reflL clNR_transL clNN_NRL : frp.

Ltac cl_leafL := first [ left; split; [reflexivity | left; reflexivity] | right; split; reflexivity | apply clNR_reflL ].

Section DF3.
Variable T : tables.

Lemma clp_remove_internalL f : forall i m path, frp clNRL pfNN (remove_internal T f i m path).
Proof.
  induction f as [|f IH]; intros i m path; [intros w r w' H; discriminate|].
  rewrite remove_internal_unfold. unfold remove_identifiable, remove_reference_origin.
  fr_tac cl_leafL. apply frp_kloop; [apply clNR_reflL | apply clNR_transL | apply clNN_NRL | intros c; apply IH].
Qed.

Lemma DF_raw_removeL self sub m : DFpL (raw_remove_sub_element T self sub m).
Proof.
  intros w r w' (C & O) D H. unfold raw_remove_sub_element in H.
  wrun_ro H ltac:(exact D).
  match goal with Hi : index_of (citem_is sub) (n_content ?n) = Some ?pos |- _ =>
    rename Hi into Hidx; rename n into ns; rename pos into ps end.
  assert (Hl : lists w self sub) by (exists ns; split; auto; eapply index_of_citem_in; eauto).
  pose proof (c_up _ C _ _ Hl) as Hps.
  assert (Hsa : allocated w sub) by (destruct Hps as (x & ? & _); eexists; eauto).
  set (f := N.to_nat (w_next w)) in *.
  pose proof (enough_top _ _ C Hsa) as He. fold f in He.
  wstepn H u Er.
  2:{ destruct (remove_internal_spec T w C f sub _ _ Hsa He w _ _ (fun x _ => eq_refl) Er) as ([=] & _). }
  destruct (remove_internal_spec T w C f sub _ _ Hsa He w _ _ (fun x _ => eq_refl) Er) as (_ & N1 & R1 & Cl & Fr).
  pose proof (clp_remove_internalL _ _ _ _ _ _ _ Er) as (_ & Fcl).
  apply modify_node_wset in H as (nq & Hnq & -> & ->).
  assert (HselfL : ~ In self (subl f w sub)) by (apply subl_not_parent; auto).
  assert (nq = ns) as -> by (rewrite Fr in Hnq by auto; congruence).
  set (L := subl f w sub) in *.
  assert (HLpar : forall x, In x L -> exists p, par w x p).
  { intros x Hx. destruct (N.eq_dec x sub) as [->|Hxs]; [eauto|].
    destruct (subl_up _ _ _ _ Hx Hxs) as (p & _ & Hlp). exists p. apply C. auto. }
  assert (Hdown : forall p c, In p L -> lists w p c -> In c L) by (intros p c; apply subl_closed; auto).
  (* the top of a node outside L is the same before and after *)
  assert (Htop : forall x t, Top w x t -> ~ In x L -> Top (wset w0 self (set_content ns (remove_at (n_content ns) ps))) x t).
  { intros x t Ht. induction Ht as [x nx Hnx Hnp | x nx p t Hnx Hp Ht IH]; intros HxL.
    - destruct (N.eq_dec x self) as [->|Hxs].
      + assert (nx = ns) as -> by congruence.
        change (n_parent ns) with (n_parent (set_content ns (remove_at (n_content ns) ps))).
        eapply T_here; [apply nodes_wset_eq | exact Hnp].
      + eapply T_here; [|exact Hnp]. rewrite nodes_wset_neq by auto. rewrite Fr by auto. exact Hnx.
    - assert (HpL : ~ In p L).
      { intros HpL. apply HxL. eapply Hdown; eauto. apply O. exists nx; auto. }
      destruct (N.eq_dec x self) as [->|Hxs].
      + assert (nx = ns) as -> by congruence. eapply T_up; [apply nodes_wset_eq | exact Hp | auto].
      + eapply T_up; [|exact Hp | auto]. rewrite nodes_wset_neq by auto. rewrite Fr by auto. exact Hnx. }
  intros x n' Hd Hn'. destruct (in_dec N.eq_dec x L) as [HxL|HxL].
  - (* cleared *)
    assert (x <> self) by (intros ->; auto). rewrite nodes_wset_neq in Hn' by auto.
    destruct (Fcl _ _ Hn') as [(nz & Hnz & [(Hp & Hf)|(_ & Hf)])|(_ & Hf)]; auto.
    exfalso. destruct (HLpar _ HxL) as (p & ny & Hny & Hp0). assert (ny = nz) as -> by congruence.
    specialize (Cl _ HxL). unfold skel in Cl. rewrite Hn' in Cl. injection Cl as Hpn _. congruence.
  - assert (Hfiles : exists n, w_nodes w x = Some n /\ n_files n = n_files n').
    { destruct (N.eq_dec x self) as [->|Hxs].
      - rewrite nodes_wset_eq in Hn'. injection Hn' as <-. exists ns. split; auto.
      - rewrite nodes_wset_neq in Hn' by auto. rewrite Fr in Hn' by auto. eauto. }
    destruct Hfiles as (nz & Hnz & <-). eapply D; eauto.
    assert (Ha : allocated w x) by (eexists; eauto). destruct (c_depth _ C _ Ha) as (h & Hdep).
    destruct (depth_top _ _ _ Hdep) as (t & Ht). pose proof (Htop _ _ Ht HxL) as Ht'.
    unfold Detached in *. rewrite (top_fun _ _ _ Hd _ Ht'). exact Ht.
Qed.

Lemma DF_e_removeL h sub : DFpL (e_remove_sub_element T h sub).
Proof.
  unfold e_remove_sub_element. destruct (h =? sub); [apply DFp_roL; ro_tac|].
  apply DFp_bindL; [apply PresE_ro; ro_tac | apply DFp_roL; ro_tac | intros m; apply DF_raw_removeL].
Qed.
Lemma DF_e_remove_kindL h name : DFpL (e_remove_sub_element_kind T h name).
Proof.
  unfold e_remove_sub_element_kind.
  apply DFp_bindL; [apply PresE_ro; ro_tac | apply DFp_roL; ro_tac | intros [s|]; [apply DF_e_removeL | apply DFp_roL; ro_tac]].
Qed.

End DF3.
