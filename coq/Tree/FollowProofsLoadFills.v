(* Tree/FollowProofsLoadFills.v — C06 after a first load, layer 4: what the two index fills of load_parsed compute.
     overlap_nodup            a load that passes the overlap check records no path twice
     fill_identifiables_sem   with distinct new paths: the path index afterwards maps exactly the old keys and, for every
                              recorded (path, position), the path to the element at that position
     fill_references_sem      every recorded (text, position) puts the element at that position into the referrer list of
                              the text; nothing else changes *)
From Coq Require Import Lia.
From AV Require Import Base.Bytes Base.Outcome Hash.HashModel Tree.Heap Tree.Ops Tree.Script Tree.Load
  Tree.IndexProofsW Tree.Index Tree.IndexProofsAssoc Tree.IndexProofsReg Tree.LoadRefineTop.
From AV Require Xml.Lexer Xml.Parser.
Open Scope string_scope.
Open Scope list_scope.
Open Scope N_scope.

Lemma overlap_nodup w x t : forall l seen,
  overlap_check w x t l seen = Val false -> NoDup (map fst l) /\ (forall k, In k (map fst l) -> ~ In k seen).
Proof.
  induction l as [|[key pos] r IH]; intros seen H; cbn [overlap_check map fst] in *.
  - split; [constructor|intros k []].
  - destruct (it_at t pos) as [value|]; [|discriminate H]. destruct (w_nodes w value) as [vn|]; [|discriminate H].
    match type of H with (if ?b || ?c then _ else _) = _ => destruct b; cbn [orb] in H; [discriminate H|]; destruct c eqn:Ec; [discriminate H|] end.
    destruct (IH _ H) as (Hnd & Hns).
    assert (Hk : ~ In key seen).
    { intros Hin. assert (existsb (bytes_eqb key) seen = true); [|congruence]. apply existsb_exists. exists key. split; [exact Hin|apply bytes_eqb_refl]. }
    split.
    + constructor; [|exact Hnd]. intros Hin. apply (Hns key Hin). left. reflexivity.
    + intros k [<-|Hin]; [exact Hk|]. intros Hs. apply (Hns k Hin). right. exact Hs.
Qed.

Lemma NoDup_app_snoc {A} (l : list A) x : NoDup l -> ~ In x l -> NoDup (l ++ [x]).
Proof.
  induction 1 as [|y l Hy Hl IH]; intros Hx; cbn [app]; [constructor; [intros []|constructor]|].
  constructor.
  - intros Hin. apply in_app_or in Hin as [Hin|[<-|[]]]; [contradiction|]. apply Hx. left. reflexivity.
  - apply IH. intros Hin. apply Hx. right. exact Hin.
Qed.

Definition wm (m : N) (w : world) (y : model) : world :=
  mkWorld (w_nodes w) (w_next w) (w_files w) (list_set (w_models w) (N.to_nat m) y).

Lemma wm_wm m w y z : wm m (wm m w y) z = wm m w z.
Proof. unfold wm. cbn [w_nodes w_next w_files w_models]. rewrite list_set_twice. reflexivity. Qed.
Lemma wm_model m w x y : nth_opt (w_models w) (N.to_nat m) = Some x -> nth_opt (w_models (wm m w y)) (N.to_nat m) = Some y.
Proof. intros H. unfold wm. cbn [w_models]. eapply IndexProofsW.list_set_nth_eq. exact H. Qed.

Section Fills.
Variable m : N.
Variable t : itree.

Lemma fill_identifiables_sem : forall l w w' x,
  nth_opt (w_models w) (N.to_nat m) = Some x -> NoDupKeys (m_idents x) ->
  NoDup (map fst l) -> (forall k, In k (map fst l) -> ~ In k (keys (m_idents x))) ->
  fill_identifiables m t l w = Val (OK tt, w') ->
  exists I', w' = wm m w (set_idents x I') /\ NoDupKeys I' /\
    (forall k v, assoc_get k I' = Some v <->
       assoc_get k (m_idents x) = Some v \/ exists pos, In (k, pos) l /\ it_at t pos = Some v).
Proof.
  induction l as [|[key pos] r IH]; intros w w' x Hx Hnd Hl Hfresh H; cbn [fill_identifiables] in H.
  - apply wret_inv in H as (_ & E). subst w'. exists (m_idents x). split.
    { unfold wm. destruct x; cbn. rewrite list_set_same by exact Hx. destruct w; reflexivity. }
    split; [exact Hnd|]. intros k v. split; [auto|]. intros [A|(pos & [] & _)]. exact A.
  - destruct (it_at t pos) as [value|] eqn:Eat; [|discriminate H].
    apply wbind_inv in H as [(w0 & w1 & H1 & H) | (e' & H1 & [=])]. apply wget_inv in H1 as (E1 & E2). injection E1 as E1. subst w0 w1.
    apply wbind_inv in H as [(x0 & w2 & H2 & H) | (e' & H2 & [=])]. apply get_model_inv in H2 as (x' & Hx' & E1 & E2). injection E1 as E1. subst x0 w2.
    assert (x' = x) by congruence. subst x'.
    assert (Hkf : ~ In key (keys (m_idents x))) by (apply Hfresh; left; reflexivity).
    unfold ident_live in H. rewrite (proj2 (assoc_get_none key (m_idents x)) Hkf) in H.
    apply wbind_inv in H as [(u & w3 & H3 & H) | (e' & H3 & [=])].
    unfold add_identifiable in H3. rewrite (modify_model_fwd m _ w x Hx) in H3. injection H3 as <-.
    set (x1 := set_idents x (assoc_insert key value (m_idents x))) in *.
    change (mkWorld (w_nodes w) (w_next w) (w_files w) (list_set (w_models w) (N.to_nat m) x1)) with (wm m w x1) in H.
    inversion Hl as [|? ? Hknot Hl']; subst.
    destruct (IH (wm m w x1) w' x1) as (I' & -> & Hnd' & Hget); auto.
    + eapply wm_model; eauto.
    + apply (nodup_insert key value (m_idents x)). exact Hnd.
    + intros k Hk Hin. apply (proj1 (in_keys_insert key value (m_idents x) k)) in Hin. destruct Hin as [->|Hin]; [contradiction|].
      apply (Hfresh k); [right; exact Hk|exact Hin].
    + exists I'. split; [rewrite wm_wm; unfold x1; destruct x; reflexivity|]. split; [exact Hnd'|].
      intros k v. rewrite Hget. unfold x1. cbn. split.
      * intros [A|(p0 & Hin & Hat)]; [|right; exists p0; split; [right; exact Hin|exact Hat]].
        destruct (list_eq_dec N.eq_dec k key) as [->|Hne].
        -- rewrite assoc_get_insert_eq in A. injection A as <-. right. exists pos. split; [left; reflexivity|exact Eat].
        -- rewrite assoc_get_insert_neq in A by exact Hne. left. exact A.
      * intros [A|(p0 & [[= -> ->]|Hin] & Hat)].
        -- left. rewrite assoc_get_insert_neq; [exact A|]. intros ->. apply Hkf. eapply assoc_get_some_key; eauto.
        -- left. rewrite assoc_get_insert_eq. congruence.
        -- right. exists p0. auto.
Qed.

Definition add_origin (O : list (list N * list id)) (r : list N) (e : id) : list (list N * list id) :=
  match assoc_get r O with Some l => assoc_insert r (l ++ [e]) O | None => O ++ [(r, [e])] end.
Definition olist (O : list (list N * list id)) (p : list N) : list id := match assoc_get p O with Some l => l | None => [] end.

Lemma add_origin_sem O r e : NoDupKeys O ->
  NoDupKeys (add_origin O r e) /\
  (forall p, olist (add_origin O r e) p = if list_eq_dec N.eq_dec p r then olist O p ++ [e] else olist O p).
Proof.
  intros Hnd. unfold add_origin, olist. destruct (assoc_get r O) as [l|] eqn:Er.
  - split; [apply nodup_insert; exact Hnd|]. intros p. destruct (list_eq_dec N.eq_dec p r) as [->|Hne].
    + rewrite assoc_get_insert_eq, Er. reflexivity.
    + rewrite assoc_get_insert_neq by exact Hne. reflexivity.
  - apply assoc_get_none in Er. split.
    + unfold NoDupKeys. rewrite map_app. cbn [map fst]. apply NoDup_app_snoc; [exact Hnd|exact Er].
    + intros p. destruct (list_eq_dec N.eq_dec p r) as [->|Hne].
      * rewrite (proj2 (assoc_get_none r O) Er). cbn [app].
        assert (G : forall O0, ~ In r (keys O0) -> assoc_get r (O0 ++ [(r, [e])]) = Some [e]).
        { induction O0 as [|[k0 a0] O0 IH0]; intros Hn; cbn [app assoc_get]; [rewrite bytes_eqb_refl; reflexivity|].
          destruct (bytes_eqb k0 r) eqn:E0; [apply bytes_eqb_spec in E0; subst; exfalso; apply Hn; left; reflexivity|].
          apply IH0. intros Hin. apply Hn. right. exact Hin. }
        rewrite (G O Er). reflexivity.
      * assert (G : forall O0, assoc_get p (O0 ++ [(r, [e])]) = assoc_get p O0).
        { induction O0 as [|[k0 a0] O0 IH0]; cbn [app assoc_get].
          - destruct (bytes_eqb r p) eqn:E0; [apply bytes_eqb_spec in E0; congruence|reflexivity].
          - destruct (bytes_eqb k0 p); [reflexivity|exact IH0]. }
        rewrite G. reflexivity.
Qed.

Lemma fill_references_sem : forall l w w' x,
  nth_opt (w_models w) (N.to_nat m) = Some x -> NoDupKeys (m_origins x) ->
  fill_references m t l w = Val (OK tt, w') ->
  exists O', w' = wm m w (set_origins x O') /\ NoDupKeys O' /\
    (forall p e, In e (olist O' p) <-> In e (olist (m_origins x) p) \/ exists pos, In (p, pos) l /\ it_at t pos = Some e).
Proof.
  induction l as [|[key pos] r IH]; intros w w' x Hx Hnd H; cbn [fill_references] in H.
  - apply wret_inv in H as (_ & E). subst w'. exists (m_origins x). split.
    { unfold wm. destruct x; cbn. rewrite list_set_same by exact Hx. destruct w; reflexivity. }
    split; [exact Hnd|]. intros p e. split; [auto|]. intros [A|(pos & [] & _)]. exact A.
  - destruct (it_at t pos) as [value|] eqn:Eat; [|discriminate H].
    apply wbind_inv in H as [(u & w3 & H3 & H) | (e' & H3 & [=])].
    unfold add_reference_origin in H3. rewrite (modify_model_fwd m _ w x Hx) in H3. injection H3 as H3. subst w3.
    change (match assoc_get key (m_origins x) with Some l => assoc_insert key (l ++ [value]) (m_origins x)
            | None => m_origins x ++ [(key, [value])] end) with (add_origin (m_origins x) key value) in H.
    set (x1 := set_origins x (add_origin (m_origins x) key value)) in *.
    change (mkWorld (w_nodes w) (w_next w) (w_files w) (list_set (w_models w) (N.to_nat m) x1)) with (wm m w x1) in H.
    destruct (add_origin_sem (m_origins x) key value Hnd) as (Hnd1 & Hol).
    destruct (IH (wm m w x1) w' x1 (wm_model m w x x1 Hx) Hnd1 H) as (O' & -> & Hnd' & Hget).
    exists O'. split; [rewrite wm_wm; unfold x1; destruct x; reflexivity|]. split; [exact Hnd'|].
    intros p e. rewrite Hget. change (m_origins x1) with (add_origin (m_origins x) key value). rewrite Hol. split.
    + intros [A|(p0 & Hin & Hat)]; [|right; exists p0; split; [right; exact Hin|exact Hat]].
      destruct (list_eq_dec N.eq_dec p key) as [->|Hne]; [|left; exact A].
      apply in_app_or in A as [A|[<-|[]]]; [left; exact A|]. right. exists pos. split; [left; reflexivity|exact Eat].
    + intros [A|(p0 & [[= <- <-]|Hin] & Hat)].
      * left. destruct (list_eq_dec N.eq_dec p key); [apply in_or_app; left; exact A|exact A].
      * left. destruct (list_eq_dec N.eq_dec key key) as [_|Hc]; [|congruence]. apply in_or_app. right. left. congruence.
      * right. exists p0. auto.
Qed.

End Fills.
