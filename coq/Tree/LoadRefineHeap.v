(* Tree/LoadRefineHeap.v — C09, heap merge = pure merge, the heap steps: node updates under the abstraction,
   calc_element_insert_range read through the abstraction (= MergePure.p_insert_range), restrict_a_only,
   import_new_items (= MergePure.p_import). *)
From Coq Require Import Permutation.
From AV Require Import Base.Bytes Base.Outcome Hash.HashModel Tree.Heap Tree.Ops Tree.Script Tree.Load Tree.MergeSpec
  Tree.MergePure Tree.LoadProofsBase Tree.LoadRefineBase Tree.LoadRefineWalk Tree.LoadRefineKeys Tree.LoadRefinePure.
Open Scope string_scope.
Open Scope list_scope.
Open Scope N_scope.

(* ------------------------------------------------------------------ frames *)
Definition same_except (w w' : world) (ids : list id) : Prop :=
  w_next w' = w_next w /\ w_files w' = w_files w /\ w_models w' = w_models w /\
  forall i, ~ In i ids -> w_nodes w' i = w_nodes w i.

Lemma same_except_refl w ids : same_except w w ids.
Proof. repeat split; auto. Qed.
Lemma same_except_trans w1 w2 w3 a b c :
  incl a c -> incl b c -> same_except w1 w2 a -> same_except w2 w3 b -> same_except w1 w3 c.
Proof.
  intros Ha Hb (A1 & A2 & A3 & A4) (B1 & B2 & B3 & B4). repeat split; try congruence.
  intros i Hi. rewrite B4, A4; auto.
Qed.
Lemma same_except_weaken w w' a c : incl a c -> same_except w w' a -> same_except w w' c.
Proof. intros Hi (A1 & A2 & A3 & A4). repeat split; auto. Qed.
Lemma same_except_agree w w' ids l : same_except w w' ids -> (forall x, In x l -> ~ In x ids) -> agree w w' l.
Proof. intros (_ & _ & _ & H) Hd i Hi. apply H. apply Hd. exact Hi. Qed.

Definition wupd (w : world) (i : id) (n : node) : world := mkWorld (upd (w_nodes w) i n) (w_next w) (w_files w) (w_models w).

Lemma wupd_same_except w i n : same_except w (wupd w i n) [i].
Proof. repeat split; auto. intros j Hj. cbn. apply upd_neq. intros ->. apply Hj. left. reflexivity. Qed.

Lemma modify_node_wupd i f w n : w_nodes w i = Some n -> modify_node i f w = Val (OK tt, wupd w i (f n)).
Proof. intros H. unfold modify_node, wbind, get_node, set_node. rewrite H. reflexivity. Qed.

(* the root node of an abstracted tree is replaced: same name, type, content, attributes, comment; any parent link;
   new local membership *)
Lemma AbsA_root_update w w' c fs :
  AbsA w c -> NoDup (aids c) ->
  (exists p', w_nodes w' (a_id c) =
              Some (mkNode p' (a_name c) (a_ty c) (map citem_of (a_content c))
                           (match c with ANode _ _ _ ats _ _ _ => ats end) fs
                           (match c with ANode _ _ _ _ _ cm _ => cm end))) ->
  (forall i, i <> a_id c -> In i (aids c) -> w_nodes w' i = w_nodes w i) ->
  AbsA w' (a_set_local c fs).
Proof.
  destruct c as [i name ty attrs content comment local]. cbn [a_id a_name a_ty a_content a_set_local].
  intros HA Hnd Hroot Hrest. apply AbsA_unfold in HA as (_ & HI). apply AbsA_unfold. split; [exact Hroot|].
  rewrite aids_unfold in Hnd, Hrest. inversion Hnd as [|? ? Hni Hnd']; subst.
  apply (AbsItems_frame content w w'); [|exact HI].
  intros x Hx. apply Hrest; [intros ->; contradiction|right; exact Hx].
Qed.

(* ------------------------------------------------------------------ calc_element_insert_range through the abstraction *)
Definition wof {A} (r : res (out A)) : W A :=
  fun w => match r with Val o => Val (o, w) | Pan s => Pan s | Fuel => Fuel end.

Section Range.
Variable T : tables.

Lemma wbind_wl {A B} (r : res A) (k : A -> W B) w :
  wbind (wl r) k w = match r with Val a => k a w | Pan s => Pan s | Fuel => Fuel end.
Proof. unfold wbind, wl, wlift. destruct r; reflexivity. Qed.

Lemma wbind_opt_wl {A B} (o : option A) (r : res (option A)) (k : option A -> W B) w :
  wbind (match o with Some x => wret (Some x) | None => wl r end) k w =
  match (match o with Some x => Val (Some x) | None => r end) with Val a => k a w | Pan s => Pan s | Fuel => Fuel end.
Proof. destruct o; [reflexivity|]. apply wbind_wl. Qed.

Lemma range_loop_abs w ty version new_idx : forall l idx s e,
  AbsItems w l ->
  range_loop T ty version new_idx (map citem_of l) idx s e w =
  wof (p_range_loop T ty version new_idx (map item_name_of (erase_items l)) idx s e) w.
Proof.
  induction l as [|[c|d] r IH]; intros idx s e HI; cbn [map citem_of erase_items item_name_of range_loop p_range_loop AbsItems] in *.
  - reflexivity.
  - destruct HI as [Hc Hr]. destruct (AbsA_node w c Hc) as (pc & Hpc).
    unfold wbind at 1. unfold get_node at 1. rewrite Hpc. cbn [n_name]. rewrite erase_name.
    rewrite wbind_wl.
    destruct (find_sub_element T ty (a_name c) version) as [ex0| |]; cbn [bind wof]; try reflexivity.
    rewrite wbind_opt_wl.
    destruct (match ex0 with Some x => Val (Some x) | None => find_sub_element T ty (a_name c) 4294967295 end) as [[[sub ex_idx]|]| |];
      cbn [bind wof]; try reflexivity.
    + rewrite wbind_wl. destruct (find_common_group T ty new_idx ex_idx) as [g| |]; cbn [bind wof]; try reflexivity.
      rewrite wbind_wl. destruct (dt T g) as [gd| |]; cbn [bind wof]; try reflexivity.
      destruct (dt_mode gd =? MSequence).
      * destruct (lex_cmp new_idx ex_idx); [|reflexivity|apply IH; exact Hr].
        rewrite wbind_wl. destruct (repeat_conflict T ty new_idx) as [cf| |]; cbn [bind wof]; try reflexivity.
        destruct cf; [reflexivity|apply IH; exact Hr].
      * destruct (dt_mode gd =? MChoice).
        -- destruct (list_eqbN new_idx ex_idx); [|reflexivity].
           rewrite wbind_wl. destruct (repeat_conflict T ty new_idx) as [cf| |]; cbn [bind wof]; try reflexivity.
           destruct cf; [reflexivity|apply IH; exact Hr].
        -- destruct ((dt_mode gd =? MBag) || (dt_mode gd =? MMixed)); [apply IH; exact Hr|reflexivity].
    + apply IH. exact Hr.
  - apply IH. exact HI.
Qed.

Lemma calc_range_abs w p name ty l attrs local comment nm version :
  AbsItems w l ->
  calc_element_insert_range T (mkNode p name ty (map citem_of l) attrs local comment) nm version w =
  wof (p_insert_range T ty (erase_items l) nm version) w.
Proof.
  intros HI. unfold calc_element_insert_range, p_insert_range. cbn [n_type n_content].
  rewrite wbind_wl. destruct (content_mode T ty) as [mode| |]; cbn [bind wof]; try reflexivity.
  destruct (mode =? MCharacters); [reflexivity|].
  rewrite wbind_wl. destruct (find_sub_element T ty nm version) as [[[sub new_idx]|]| |]; cbn [bind wof]; try reflexivity.
  destruct ((mode =? MBag) || (mode =? MMixed)).
  - cbn [wret]. rewrite map_length.
    assert (E : List.length l = List.length (erase_items l)) by (clear; induction l as [|[c|d] r IH]; cbn; auto).
    rewrite E. reflexivity.
  - apply range_loop_abs. exact HI.
Qed.

End Range.

(* ------------------------------------------------------------------ content lists *)
Fixpoint map_el (f : atree -> atree) (l : list (atree + cdata)) : list (atree + cdata) :=
  match l with [] => [] | inl c :: r => inl (f c) :: map_el f r | inr d :: r => inr d :: map_el f r end.

Definition els (l : list (atree + cdata)) : list atree :=
  flat_map (fun it => match it with inl c => [c] | inr _ => [] end) l.
Definition child_ids (l : list (atree + cdata)) : list id := map a_id (els l).

Lemma els_in c l : In c (els l) <-> In (inl c) l.
Proof.
  unfold els. rewrite in_flat_map. split.
  - intros ([c0|d] & Hin & Hc); cbn in Hc; [destruct Hc as [<-|[]]; exact Hin|destruct Hc].
  - intros H. exists (inl c). split; [exact H|left; reflexivity].
Qed.

Lemma a_set_local_same c : a_set_local c (a_local c) = c.
Proof. destruct c. reflexivity. Qed.
Lemma aids_set_local c l : aids (a_set_local c l) = aids c.
Proof. destruct c. reflexivity. Qed.
Lemma a_id_set_local c l : a_id (a_set_local c l) = a_id c.
Proof. destruct c. reflexivity. Qed.

Lemma map_el_ids f l : (forall c, a_id (f c) = a_id c) -> map citem_of (map_el f l) = map citem_of l.
Proof.
  intros Hf. induction l as [|[c|d] r IH]; cbn [map_el map citem_of]; [reflexivity| |]; rewrite IH; [rewrite Hf|]; reflexivity.
Qed.
Lemma map_el_aids f l : (forall c, aids (f c) = aids c) -> aids_items (map_el f l) = aids_items l.
Proof.
  intros Hf. induction l as [|[c|d] r IH]; cbn [map_el aids_items]; [reflexivity| |exact IH]. rewrite Hf, IH. reflexivity.
Qed.
Lemma map_el_map_el f g l : map_el g (map_el f l) = map_el (fun c => g (f c)) l.
Proof. induction l as [|[c|d] r IH]; cbn [map_el]; [reflexivity| |]; rewrite IH; reflexivity. Qed.
Lemma map_el_ext f g l : (forall c, In (inl c) l -> f c = g c) -> map_el f l = map_el g l.
Proof.
  induction l as [|[c|d] r IH]; intros H; cbn [map_el]; [reflexivity| |].
  - rewrite (H c (or_introl eq_refl)), IH; [reflexivity|]. intros c0 H0. apply H. right. exact H0.
  - rewrite IH; [reflexivity|]. intros c0 H0. apply H. right. exact H0.
Qed.

Lemma child_id_in_aids l c : In (inl c) l -> In (a_id c) (aids_items l).
Proof. intros H. eapply aids_items_in; [exact H|apply a_id_in_aids]. Qed.

Lemma nodup_app_r {A} (a b : list A) : NoDup (a ++ b) -> NoDup b.
Proof. induction a as [|x a IH]; cbn [app]; [auto|]. intros H. inversion H; subst. auto. Qed.
Lemma nodup_app_l {A} (a b : list A) : NoDup (a ++ b) -> NoDup a.
Proof.
  induction a as [|x a IH]; cbn [app]; [constructor|]. intros H. inversion H as [|? ? Hn Hd]; subst.
  constructor; [intros Hin; apply Hn; apply in_or_app; left; exact Hin|auto].
Qed.
Lemma nodup_app_disj {A} (a b : list A) x : NoDup (a ++ b) -> In x a -> In x b -> False.
Proof.
  induction a as [|y a IH]; cbn [app]; [intros _ []|]. intros H. inversion H as [|? ? Hn Hd]; subst.
  intros [->|Hx] Hb; [apply Hn; apply in_or_app; right; exact Hb|eauto].
Qed.

(* the footprints of two different items of a content list are disjoint *)
Lemma aids_items_disjoint l : NoDup (aids_items l) ->
  forall c1 c2 x, In (inl c1) l -> In (inl c2) l -> In x (aids c1) -> In x (aids c2) -> c1 = c2.
Proof.
  induction l as [|[c|d] r IH]; cbn [aids_items]; intros Hnd c1 c2 x H1 H2 Hx1 Hx2; [destruct H1| |].
  - pose proof (nodup_app_r _ _ Hnd) as Hr.
    assert (Hdis : forall y, In y (aids c) -> ~ In y (aids_items r)).
    { intros y Hy Hy2. eapply nodup_app_disj; eauto. }
    destruct H1 as [[= ->]|H1]; destruct H2 as [[= ->]|H2]; auto.
    + exfalso. apply (Hdis x Hx1). eapply aids_items_in; eauto.
    + exfalso. apply (Hdis x Hx2). eapply aids_items_in; eauto.
    + eapply IH; eauto.
  - destruct H1 as [[=]|H1]; destruct H2 as [[=]|H2]. eapply IH; eauto.
Qed.

Lemma NoDup_aids_items_child l c : NoDup (aids_items l) -> In (inl c) l -> NoDup (aids c).
Proof.
  induction l as [|[c0|d] r IH]; cbn [aids_items In]; [intros _ []| |].
  - intros Hnd [[= ->]|H]; [eapply nodup_app_l; exact Hnd|apply IH; [eapply nodup_app_r; exact Hnd|exact H]].
  - intros Hnd [[=]|H]. apply IH; auto.
Qed.

(* the root node of one sub-element is replaced *)
Lemma AbsItems_root_update w w' l c fs :
  AbsItems w l -> NoDup (aids_items l) -> In (inl c) l ->
  (exists p', w_nodes w' (a_id c) =
              Some (mkNode p' (a_name c) (a_ty c) (map citem_of (a_content c))
                           (match c with ANode _ _ _ ats _ _ _ => ats end) fs
                           (match c with ANode _ _ _ _ _ cm _ => cm end))) ->
  (forall i, i <> a_id c -> w_nodes w' i = w_nodes w i) ->
  AbsItems w' (map_el (fun c0 => if a_id c0 =? a_id c then a_set_local c0 fs else c0) l).
Proof.
  intros HI Hnd Hin Hroot Hrest.
  assert (G : forall l0, (forall c0, In (inl c0) l0 -> In (inl c0) l) -> AbsItems w l0 ->
                         AbsItems w' (map_el (fun c0 => if a_id c0 =? a_id c then a_set_local c0 fs else c0) l0)).
  { induction l0 as [|[c0|d] r IH]; intros Hsub HI0; cbn [map_el AbsItems] in *; [exact I| |].
    - destruct HI0 as [H0 Hr]. split; [|apply IH; [intros c1 H1; apply Hsub; right; exact H1|exact Hr]].
      assert (Hin0 : In (inl c0) l) by (apply Hsub; left; reflexivity).
      destruct (a_id c0 =? a_id c) eqn:E.
      + apply N.eqb_eq in E.
        assert (c0 = c).
        { eapply (aids_items_disjoint l Hnd c0 c (a_id c)); eauto; [rewrite <- E|]; apply a_id_in_aids. }
        subst c0. apply (AbsA_root_update w w' c fs); auto.
        * eapply NoDup_aids_items_child; eauto.
      + apply N.eqb_neq in E. apply (AbsA_frame' c0 w w'); [|exact H0].
        intros x Hx. apply Hrest. intros ->. apply E.
        assert (c0 = c) by (eapply (aids_items_disjoint l Hnd c0 c (a_id c)); eauto; apply a_id_in_aids).
        subst. reflexivity.
    - apply IH; [intros c1 H1; apply Hsub; right; exact H1|exact HI0]. }
  apply G; auto.
Qed.

(* ------------------------------------------------------------------ phase 1: restrict_a_only *)
Definition a_restrict (files : list N) (c : atree) : atree :=
  if is_empty (a_local c) then a_set_local c files else c.

Lemma a_restrict_id files c : a_id (a_restrict files c) = a_id c.
Proof. unfold a_restrict. destruct (is_empty (a_local c)); [apply a_id_set_local|reflexivity]. Qed.
Lemma a_restrict_aids files c : aids (a_restrict files c) = aids c.
Proof. unfold a_restrict. destruct (is_empty (a_local c)); [apply aids_set_local|reflexivity]. Qed.
Lemma a_restrict_idem files c : a_restrict files (a_restrict files c) = a_restrict files c.
Proof.
  unfold a_restrict. destruct c as [i n t ats cc cm loc]. cbn [a_local a_set_local].
  destruct (is_empty loc) eqn:E; cbn [a_local a_set_local]; [|rewrite E; reflexivity].
  destruct (is_empty files); reflexivity.
Qed.
Lemma erase_restrict files c : erase (a_restrict files c) = h_restrict files (erase c).
Proof. destruct c as [i n t ats cc cm loc]. unfold a_restrict, h_restrict. cbn. destruct (is_empty loc); reflexivity. Qed.

Definition mem_id (x : id) (l : list id) : bool := existsb (N.eqb x) l.

Lemma restrict_phase files : forall ids w l,
  AbsItems w l -> NoDup (aids_items l) -> incl ids (child_ids l) ->
  exists w1, restrict_a_only ids files w = Val (OK tt, w1) /\
             AbsItems w1 (map_el (fun c => if mem_id (a_id c) ids then a_restrict files c else c) l) /\
             same_except w w1 ids.
Proof.
  induction ids as [|x ids IH]; intros w l HI Hnd Hincl.
  - exists w. split; [reflexivity|]. split; [|apply same_except_refl].
    rewrite (map_el_ext _ (fun c => c)); [|reflexivity]. clear -HI. induction l as [|[c|d] r IHl]; cbn [map_el AbsItems] in *; tauto.
  - cbn [restrict_a_only].
    assert (Hx : In x (child_ids l)) by (apply Hincl; left; reflexivity).
    unfold child_ids in Hx. apply in_map_iff in Hx as (c & Ec & Hc). apply els_in in Hc.
    pose proof (AbsItems_in w l c HI Hc) as HAc. destruct (AbsA_node w c HAc) as (p & Hp). rewrite Ec in Hp.
    set (nc := mkNode p (a_name c) (a_ty c) (map citem_of (a_content c)) (match c with ANode _ _ _ ats _ _ _ => ats end)
                      (a_local c) (match c with ANode _ _ _ _ _ cm _ => cm end)) in Hp.
    unfold wbind at 1. rewrite (modify_node_wupd x _ w nc Hp).
    set (n' := if is_empty (n_files nc) then set_files nc files else nc).
    set (w' := wupd w x n').
    set (fs := if is_empty (a_local c) then files else a_local c).
    assert (HI' : AbsItems w' (map_el (fun c0 => if a_id c0 =? a_id c then a_set_local c0 fs else c0) l)).
    { apply (AbsItems_root_update w w' l c fs HI Hnd Hc).
      - exists p. rewrite Ec. unfold w', wupd. cbn [w_nodes]. rewrite upd_eq. f_equal.
        unfold n', fs, nc. cbn [n_files]. destruct (is_empty (a_local c)); reflexivity.
      - intros i Hi. unfold w', wupd. cbn [w_nodes]. apply upd_neq. rewrite <- Ec. exact Hi. }
    set (f1 := fun c0 => if a_id c0 =? a_id c then a_set_local c0 fs else c0) in *.
    assert (Hf1id : forall c0, a_id (f1 c0) = a_id c0).
    { intros c0. unfold f1. destruct (a_id c0 =? a_id c); [apply a_id_set_local|reflexivity]. }
    assert (Hf1aids : forall c0, aids (f1 c0) = aids c0).
    { intros c0. unfold f1. destruct (a_id c0 =? a_id c); [apply aids_set_local|reflexivity]. }
    destruct (IH w' (map_el f1 l) HI') as (w1 & E1 & HI1 & S1).
    + rewrite map_el_aids; auto.
    + intros y Hy. assert (Hy' : In y (child_ids l)) by (apply Hincl; right; exact Hy).
      unfold child_ids in *. apply in_map_iff in Hy' as (c1 & E & H1). apply in_map_iff. exists (f1 c1).
      split; [rewrite Hf1id; exact E|]. apply els_in. apply els_in in H1.
      clear -H1. induction l as [|[c0|d] r IHl]; cbn [map_el In] in *; [destruct H1| |].
      * destruct H1 as [[= ->]|H1]; [left; reflexivity|right; auto].
      * destruct H1 as [[=]|H1]. right. auto.
    + exists w1. split; [exact E1|]. split.
      * rewrite map_el_map_el in HI1. erewrite map_el_ext; [exact HI1|].
        intros c0 Hc0. cbn beta. rewrite Hf1id. unfold mem_id. cbn [existsb].
        unfold f1. rewrite <- Ec.
        destruct (a_id c0 =? a_id c) eqn:E.
        -- cbn [orb]. apply N.eqb_eq in E.
           assert (c0 = c) by (eapply (aids_items_disjoint l Hnd c0 c (a_id c)); eauto; [rewrite <- E|]; apply a_id_in_aids).
           subst c0. assert (Hr : a_set_local c fs = a_restrict files c).
           { unfold a_restrict, fs. destruct (is_empty (a_local c)); [reflexivity|apply a_set_local_same]. }
           rewrite Hr. destruct (existsb (N.eqb (a_id c)) ids); [symmetry; apply a_restrict_idem|reflexivity].
        -- cbn [orb]. reflexivity.
      * eapply same_except_trans; [| |apply (wupd_same_except w x n')|exact S1].
        -- intros y [<-|[]]. left. reflexivity.
        -- intros y Hy. right. exact Hy.
Qed.

(* ------------------------------------------------------------------ phase 2: import_new_items *)
Definition a_import (nf : N) (c : atree) : atree := a_set_local c (set_add nf (a_local c)).
Lemma erase_import nf c : erase (a_import nf c) = h_import nf (erase c).
Proof. destruct c. reflexivity. Qed.

Lemma erase_items_insert l k x : erase_items (insert_at l k (inl x)) = insert_at (erase_items l) k (inl (erase x)).
Proof. revert k. induction l as [|[c|d] r IH]; intros [|k]; cbn [insert_at erase_items]; auto; rewrite IH; reflexivity. Qed.
Lemma insert_at_map {A B} (f : A -> B) l k x : map f (insert_at l k x) = insert_at (map f l) k (f x).
Proof. revert k. induction l as [|y l IH]; intros k; destruct k; cbn [insert_at map]; auto. f_equal. apply IH. Qed.
Lemma erase_items_length l : List.length (erase_items l) = List.length l.
Proof. induction l as [|[c|d] r IH]; cbn; auto. Qed.
Lemma AbsItems_insert w l k x : AbsItems w l -> AbsA w x -> AbsItems w (insert_at l k (inl x)).
Proof.
  revert k. induction l as [|[c|d] r IH]; intros [|k] HI Hx; cbn [insert_at AbsItems] in *; auto.
  - destruct HI as [H1 H2]. auto.
Qed.
Lemma aids_items_insert l k x : Permutation (aids_items (insert_at l k (inl x))) (aids x ++ aids_items l).
Proof.
  revert k. induction l as [|[c|d] r IH]; intros [|k]; cbn [insert_at aids_items]; try apply Permutation_refl.
  - eapply perm_trans; [apply Permutation_app_head; apply IH|].
    rewrite !app_assoc. apply Permutation_app_tail. apply Permutation_app_comm.
  - apply IH.
Qed.

(* the b-only list of the heap walk (ids), the sub-elements of parent_b they denote, and the list of the pure walk *)
Inductive Imp3 (bcontent : list (htree + cdata)) : list (id * N) -> list atree -> list (id * N) -> Prop :=
| Imp3_nil : Imp3 bcontent [] [] []
| Imp3_cons bid pos nb pid bs nbs bsp :
    bid = a_id nb -> nth_opt bcontent (N.to_nat pid) = Some (inl (erase nb)) ->
    Imp3 bcontent bs nbs bsp -> Imp3 bcontent ((bid, pos) :: bs) (nb :: nbs) ((pid, pos) :: bsp).

Section Import.
Variable T : tables.

Definition imports_a (nf : N) (nbs : list atree) : list (atree + cdata) := map (fun nb => inl (a_import nf nb)) nbs.

Lemma import_phase ty ia pa_p name attrs loc comment nf minv bcontent :
  forall bs nbs bsp, Imp3 bcontent bs nbs bsp ->
  forall idx cur w ds,
    w_nodes w ia = Some (mkNode pa_p name ty (map citem_of cur) attrs loc comment) ->
    AbsItems w cur -> Forall (AbsA w) nbs -> NoDup (ia :: aids_items cur ++ List.concat (map aids nbs)) ->
    p_dests T ty bcontent bsp idx minv (shape (erase_items cur)) = Val (OK ds) ->
    exists w2 cur2,
      import_new_items T ia bs idx nf minv w = Val (OK tt, w2) /\
      w_nodes w2 ia = Some (mkNode pa_p name ty (map citem_of cur2) attrs loc comment) /\
      AbsItems w2 cur2 /\ cur2 = ins_all ds (imports_a nf nbs) cur /\
      same_except w w2 (ia :: map a_id nbs) /\
      Permutation (aids_items cur2) (aids_items cur ++ List.concat (map aids nbs)).
Proof.
  intros bs nbs bsp H3. induction H3 as [|bid pos nb pid bs nbs bsp Eid Hnth H3 IH]; intros idx cur w ds Hia HI HB Hnd Hp.
  - cbn [p_dests] in Hp. injection Hp as <-. exists w, cur. cbn [import_new_items].
    split; [reflexivity|]. split; [exact Hia|]. split; [exact HI|]. split; [reflexivity|].
    split; [apply same_except_refl|]. cbn. rewrite app_nil_r. apply Permutation_refl.
  - cbn [p_dests] in Hp. rewrite Hnth in Hp. rewrite erase_name in Hp.
    destruct (p_insert_range_sh T ty (shape (erase_items cur)) (a_name nb) minv) as [[[fp lp]|e]| |] eqn:Er0; cbn [bind] in Hp; try discriminate.
    assert (Er : p_insert_range T ty (erase_items cur) (a_name nb) minv = Val (OK (fp, lp))) by (rewrite p_insert_range_is_sh; exact Er0).
    unfold shape in Hp at 1. rewrite map_length in Hp. fold (shape (erase_items cur)) in Hp.
    set (dest := N.min (N.max (pos + idx) fp) lp) in *.
    destruct (N.of_nat (List.length (erase_items cur)) <? dest) eqn:Ed; [discriminate|].
    destruct (p_dests T ty bcontent bsp (idx + 1) minv (insert_at (shape (erase_items cur)) (N.to_nat dest) (Some (a_name nb))))
      as [[ds'|e]| |] eqn:Ep'; cbn [bind] in Hp; try discriminate.
    injection Hp as <-.
    inversion HB as [|? ? HAnb HB']; subst.
    cbn [map List.concat] in Hnd. inversion Hnd as [|? ? Hni Hnd']; subst.
    (* facts about the footprints *)
    assert (Hbid_ia : a_id nb <> ia).
    { intros E. apply Hni. apply in_or_app. right. apply in_or_app. left. rewrite <- E. apply a_id_in_aids. }
    assert (Hnb_nd : NoDup (aids nb)).
    { apply nodup_app_r in Hnd'. apply nodup_app_l in Hnd'. exact Hnd'. }
    assert (Hnb_cur : forall x, In x (aids nb) -> ~ In x (aids_items cur)).
    { intros x Hx Hc. eapply (nodup_app_disj (aids_items cur)); [exact Hnd'|exact Hc|]. apply in_or_app. left. exact Hx. }
    assert (Hnb_rest : forall x, In x (aids nb) -> ~ In x (List.concat (map aids nbs))).
    { intros x Hx Hc. apply nodup_app_r in Hnd'. eapply nodup_app_disj; eauto. }
    destruct (AbsA_node w nb HAnb) as (pnb & Hpnb).
    set (nnb := mkNode pnb (a_name nb) (a_ty nb) (map citem_of (a_content nb)) (match nb with ANode _ _ _ ats _ _ _ => ats end)
                       (a_local nb) (match nb with ANode _ _ _ _ _ cm _ => cm end)) in Hpnb.
    cbn [import_new_items].
    unfold wbind at 1. rewrite (modify_node_wupd (a_id nb) _ w nnb Hpnb).
    set (w1 := wupd w (a_id nb) (set_parent nnb (PElem ia))).
    assert (Hw1 : w_nodes w1 (a_id nb) = Some (set_parent nnb (PElem ia))) by (unfold w1, wupd; cbn; apply upd_eq).
    unfold wbind at 1. rewrite (modify_node_wupd (a_id nb) _ w1 _ Hw1).
    set (n2 := set_files (set_parent nnb (PElem ia)) (set_add nf (n_files (set_parent nnb (PElem ia))))).
    set (w2 := wupd w1 (a_id nb) n2).
    assert (Hw2nb : w_nodes w2 (a_id nb) = Some n2) by (unfold w2, wupd; cbn; apply upd_eq).
    assert (Hw2other : forall i, i <> a_id nb -> w_nodes w2 i = w_nodes w i).
    { intros i Hi. unfold w2, w1, wupd. cbn. rewrite !upd_neq by exact Hi. reflexivity. }
    unfold wbind at 1. unfold get_node at 1. rewrite Hw2nb.
    unfold wbind at 1. unfold get_node at 1. rewrite (Hw2other ia (not_eq_sym Hbid_ia)), Hia.
    assert (HI2 : AbsItems w2 cur).
    { apply (AbsItems_frame cur w w2); [|exact HI]. intros x Hx. apply Hw2other. intros ->.
      apply (Hnb_cur (a_id nb)); [apply a_id_in_aids|exact Hx]. }
    unfold wbind at 1. unfold wcatch.
    assert (Hn2name : n_name n2 = a_name nb) by reflexivity. rewrite Hn2name.
    rewrite (calc_range_abs T w2 pa_p name ty cur attrs loc comment (a_name nb) minv HI2), Er. cbn [wof].
    fold dest.
    unfold wbind at 1. unfold content_insert. unfold wbind at 1. unfold get_node at 1.
    rewrite (Hw2other ia (not_eq_sym Hbid_ia)), Hia. cbn [n_content]. rewrite map_length, <- erase_items_length, Ed.
    unfold set_node. cbn [set_content n_parent n_name n_type n_attrs n_files n_comment n_content].
    set (nb' := a_import nf nb).
    set (cur' := insert_at cur (N.to_nat dest) (inl nb')).
    set (w3 := mkWorld (upd (w_nodes w2) ia (mkNode pa_p name ty (insert_at (map citem_of cur) (N.to_nat dest) (CElem (a_id nb))) attrs loc comment))
                       (w_next w2) (w_files w2) (w_models w2)).
    assert (Hw3ia : w_nodes w3 ia = Some (mkNode pa_p name ty (map citem_of cur') attrs loc comment)).
    { unfold w3. cbn [w_nodes]. rewrite upd_eq. f_equal. f_equal. unfold cur'. rewrite insert_at_map. cbn [citem_of].
      unfold nb', a_import. rewrite a_id_set_local. reflexivity. }
    assert (Hw3other : forall i, i <> ia -> w_nodes w3 i = w_nodes w2 i) by (intros i Hi; unfold w3; cbn; apply upd_neq; exact Hi).
    assert (HAnb' : AbsA w3 nb').
    { apply (AbsA_root_update w w3 nb (set_add nf (a_local nb)) HAnb Hnb_nd).
      - exists (PElem ia). rewrite (Hw3other _ Hbid_ia), Hw2nb. reflexivity.
      - intros i Hi Hin. rewrite Hw3other, Hw2other; auto. intros ->.
        apply Hni. apply in_or_app. right. apply in_or_app. left. exact Hin. }
    assert (HI3 : AbsItems w3 cur').
    { unfold cur'. apply AbsItems_insert; [|exact HAnb'].
      apply (AbsItems_frame cur w2 w3); [|exact HI2]. intros x Hx. apply Hw3other. intros ->.
      apply Hni. apply in_or_app. left. exact Hx. }
    assert (HB3 : Forall (AbsA w3) nbs).
    { rewrite Forall_forall in *. intros y Hy. apply (AbsA_frame' y w w3); [|apply HB'; exact Hy].
      intros x Hx. assert (Hxc : In x (List.concat (map aids nbs))) by (apply in_concat; exists (aids y); split; [apply in_map; exact Hy|exact Hx]).
      rewrite Hw3other, Hw2other; auto.
      - intros ->. apply (Hnb_rest (a_id nb)); [apply a_id_in_aids|exact Hxc].
      - intros ->. apply Hni. apply in_or_app. right. apply in_or_app. right. exact Hxc. }
    assert (Hnd3 : NoDup (ia :: aids_items cur' ++ List.concat (map aids nbs))).
    { eapply Permutation_NoDup; [|exact Hnd]. constructor.
      unfold cur'. eapply perm_trans; [|apply Permutation_app_tail; apply Permutation_sym; apply aids_items_insert].
      unfold nb', a_import. rewrite aids_set_local. rewrite (app_assoc (aids_items cur)).
      apply Permutation_app_tail. apply Permutation_app_comm. }
    assert (Hp3 : p_dests T ty bcontent bsp (idx + 1) minv (shape (erase_items cur')) = Val (OK ds')).
    { unfold cur'. rewrite erase_items_insert, shape_insert. cbn [item_name_of]. unfold nb'. rewrite erase_import.
      replace (h_name (h_import nf (erase nb))) with (a_name nb) by (destruct nb; reflexivity). exact Ep'. }
    destruct (IH (idx + 1) cur' w3 ds' Hw3ia HI3 HB3 Hnd3 Hp3) as (w4 & cur2 & E4 & Hia4 & HI4 & Ee4 & S4 & P4).
    exists w4, cur2. split; [exact E4|]. split; [exact Hia4|]. split; [exact HI4|]. split; [exact Ee4|]. split.
    + apply (same_except_trans w w3 w4 [ia; a_id nb] (ia :: map a_id nbs)); [| | |exact S4].
      * intros y [<-|[<-|[]]]; [left; reflexivity|right; left; reflexivity].
      * intros y [<-|Hy]; [left; reflexivity|right; right; exact Hy].
      * repeat split; try reflexivity. intros i Hi. unfold w3. cbn [w_nodes].
        rewrite upd_neq by (intros E; apply Hi; left; symmetry; exact E).
        apply Hw2other. intros E. apply Hi. right. left. symmetry. exact E.
    + eapply perm_trans; [exact P4|]. unfold cur'.
      eapply perm_trans; [apply Permutation_app_tail; apply aids_items_insert|].
      unfold nb', a_import. rewrite aids_set_local. cbn [map List.concat]. rewrite (app_assoc (aids_items cur)).
      apply Permutation_app_tail. apply Permutation_app_comm.
Qed.

End Import.
