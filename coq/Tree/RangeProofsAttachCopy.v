(* Tree/RangeProofsAttachCopy.v — C07: (B) for create_copied_sub_element[_at]: under attach_ok the copy and everything below it
   is read by the loader without complaint.  The typing part is C17's copy_typed, the destination's order is C07's copy
   invariant; new here: every node of the COPY is in specification order, because its child list is, name by name, a
   sub-sequence of the child list of its source (C13's characterisation FiltR of deep_copy) and it keeps the source's type. *)
From Coq Require Import Arith Lia.
From AV Require Import Base.Bytes Base.Outcome Hash.HashModel Spec.SpecOps Tree.Heap Tree.Ops Tree.Script Tree.Inv Tree.InvProofsBase
  Tree.Range Tree.SpecWF Tree.RangeProofsLoop Tree.RangeProofsCalc Tree.RangeProofsOps Tree.RangeProofsLoader Tree.RangeProofsKeep
  Tree.RangeProofsMoveFinal Tree.RangeProofsCopy Tree.Project
  Tree.CopyProofsDefs Tree.CopyProofsDeep Tree.CopyProofsCreate
  Tree.CompatTyped Tree.CompatProofs5 Tree.CompatHist1 Tree.CompatHist4 Tree.RangeProofsAttach.
Open Scope list_scope.
Open Scope N_scope.

Section CopyWalk.
Variable T : tables.
Variable LATEST : N.
Hypothesis WF : SpecWF T.
Hypothesis HP : PairOK T.

(* the kept sub-elements of a filtered copy: fresh, each the copy of a sub-element of the source, names in the source's order *)
Lemma filt_items lo v w w1 c ty l l' : FiltRItems T lo v w w1 c ty l l' ->
  (forall k, In k (elems l') -> exists sk, In sk (elems l) /\ FiltR T lo v w w1 (PElem c) sk k) /\
  subseq (map (nm w1) (elems l')) (map (nm w) (elems l)).
Proof.
  induction 1 as [c ty|c ty d r r' _ IH|c ty s cs sn x r r' Hs _ _ HF _ IH|c ty s sn r r' _ _ _ IH|c ty s sn x r r' _ _ _ _ IH].
  - split; [intros k []|apply ss_nil].
  - exact IH.
  - destruct IH as (IH1 & IH2). split.
    + intros k [<-|Hk]; [exists s; split; [left; reflexivity|exact HF]|].
      destruct (IH1 k Hk) as (sk & A & B). exists sk. split; [right; exact A|exact B].
    + rewrite !elems_cons. cbn [app map]. replace (nm w1 cs) with (nm w s); [apply ss_take; exact IH2|].
      inversion HF as [? ? ? ns nc Hns Hnc _ _ _ Hname _ _ _ _]; subst. unfold nm. rewrite Hns, Hnc. auto.
  - destruct IH as (IH1 & IH2). split.
    + intros k Hk. destruct (IH1 k Hk) as (sk & A & B). exists sk. split; [right; exact A|exact B].
    + rewrite (elems_cons (CElem s)). cbn [app map]. apply ss_skip. exact IH2.
  - destruct IH as (IH1 & IH2). split.
    + intros k Hk. destruct (IH1 k Hk) as (sk & A & B). exists sk. split; [right; exact A|exact B].
    + rewrite (elems_cons (CElem s)). cbn [app map]. apply ss_skip. exact IH2.
Qed.

(* the final world against the world right after deep_copy, for every node but the destination *)
Lemma copyrel_node w1 w' self c : CopyRel T w1 w' self c -> self <> c ->
  forall i x1, i <> self -> w_nodes w1 i = Some x1 ->
    exists x', w_nodes w' i = Some x' /\ n_name x' = n_name x1 /\ n_type x' = n_type x1 /\
               (n_content x' = n_content x1 \/ elems (n_content x') = []).
Proof.
  intros (nc1 & Hc1 & Hc' & HR) NEc i x1 NE Hi.
  destruct (N.eq_dec i c) as [->|NC].
  { rewrite Hc1 in Hi. injection Hi as <-. eexists. split; [exact Hc'|]. repeat split. left. reflexivity. }
  destruct HR as [Hsame|(s & rest & sn & name & orig & _ & Hs & _ & Hs' & _ & _ & Hsame)].
  - exists x1. rewrite (Hsame i NE NC). repeat split; auto.
  - destruct (N.eq_dec i s) as [->|NS].
    + rewrite Hs in Hi. injection Hi as <-. eexists. split; [exact Hs'|]. repeat split. right. reflexivity.
    + exists x1. rewrite (Hsame i NE NC NS). repeat split; auto.
Qed.

Lemma closed_bounded w : Closed w -> Bounded w.
Proof.
  intros (C1 & C2). split; [exact C1|]. intros i n c Hn Hin. destruct (C2 i n c Hn Hin) as (cn & Hc). eapply C1; eauto.
Qed.

(* a node of the copy: the filtered copy (in the world w1 after deep_copy) of an element of the ordered set *)
Definition Cp (S : id -> Prop) (lo v : N) (w w1 : world) (i : id) : Prop :=
  exists p s, FiltR T lo v w w1 p s i /\ S s.

Lemma cp_node S v w w1 w' self c i :
  OrdSet T w v S -> CopyRel T w1 w' self c -> self <> c -> self < w_next w -> Cp S (w_next w) v w w1 i ->
  exists ni items, w_nodes w' i = Some ni /\ items_of w' (n_content ni) = Some items /\ Ordered T (n_type ni) v items /\
    forall k, In (CElem k) (n_content ni) -> Cp S (w_next w) v w w1 k.
Proof.
  intros HS HR NEc Hself (p & s & HF & Ss).
  inversion HF as [? ? ? ns nc Hns Hnc Hlo _ _ Hname Htype _ _ HI]; subst.
  destruct (HS s Ss) as (ns0 & itemss & Hns0 & HIs & HOs & Hcl). rewrite Hns in Hns0. injection Hns0 as <-.
  destruct (filt_items _ _ _ _ _ _ _ _ HI) as (Hkids & Hsub).
  assert (NEi : i <> self) by lia.
  destruct (copyrel_node _ _ _ _ HR NEc i nc NEi Hnc) as (ni & Hni & Hn1 & Hn2 & Hcont).
  (* the children of ni in w' are allocated and carry the names they have in w1 *)
  assert (Hkid' : forall k, In k (elems (n_content nc)) -> w_nodes w' k <> None /\ nm w' k = nm w1 k /\ Cp S (w_next w) v w w1 k).
  { intros k Hk. destruct (Hkids k Hk) as (sk & Hsk & HFk).
    assert (Sk : S sk) by (apply Hcl; apply InvProofsBase.in_elems; exact Hsk).
    inversion HFk as [? ? ? nsk nck _ Hnck Hlok _ _ _ _ _ _ _]; subst.
    assert (NEk : k <> self) by lia.
    destruct (copyrel_node _ _ _ _ HR NEc k nck NEk Hnck) as (nk' & Hnk' & Hnm & _).
    split; [congruence|]. split; [unfold nm; rewrite Hnk', Hnck; exact Hnm|]. exists (PElem i), sk. auto. }
  assert (Hsubk : forall k, In k (elems (n_content ni)) -> In k (elems (n_content nc))).
  { intros k Hk. destruct Hcont as [E|E]; rewrite E in Hk; [exact Hk|destruct Hk]. }
  destruct (items_of_exists w' (n_content ni)) as (items & HIi).
  { intros k Hk. apply (Hkid' k (Hsubk k Hk)). }
  exists ni, items. split; [exact Hni|]. split; [exact HIi|]. split.
  - rewrite Hn2, Htype. eapply (ordered_subseq T); [|exact HOs].
    destruct (items_of_names w' _ _ HIi) as (EN' & _). destruct (items_of_names w _ _ HIs) as (EN & _). rewrite EN', EN.
    eapply subseq_trans; [|exact Hsub].
    destruct Hcont as [->|E].
    + rewrite (map_nm_eq w' w1); [apply subseq_refl|]. intros k Hk. apply (Hkid' k Hk).
    + rewrite E. apply subseq_nil.
  - intros k Hk. apply InvProofsBase.in_elems in Hk. apply (Hkid' k (Hsubk k Hk)).
Qed.

(* the inner call: the destination, every old element of S, and the copy *)
Lemma copied_inner_walk h other pos m v w c w' n o items (S : id -> Prop) :
  Closed w -> w_nodes w h = Some n -> w_nodes w other = Some o -> h <> other ->
  OrdSet T w v S -> S h -> S other ->
  items_of w (n_content n) = Some items -> Ordered T (n_type n) v (ins items (N.to_nat pos) (Some (n_name o))) ->
  create_copied_sub_element_inner T h other pos m v w = Val (OK c, w') ->
  exists w1, OrdSet T w' v (fun i => S i \/ Cp S (w_next w) v w w1 i) /\ Cp S (w_next w) v w w1 c.
Proof.
  intros Cw Hn Ho NEo HS Sh So HI HOI H.
  destruct (ccsei_spec T _ _ _ _ _ _ _ _ Cw H) as (_ & (Hnext & Hold & _) & ns & Hns & Hh & w1 & Hd & HR & _).
  rewrite Hn in Hns. injection Hns as <-.
  destruct (deep_copy_spec T _ _ _ _ _ _ Cw Hd) as (_ & _ & HF).
  assert (Hself : h < w_next w) by (eapply (proj1 Cw); eauto).
  assert (Hcp : Cp S (w_next w) v w w1 c) by (exists PNone, other; auto).
  assert (Hlo : w_next w <= c) by (inversion HF; assumption).
  assert (NEc : h <> c) by lia.
  exists w1. split; [|exact Hcp].
  (* names of old nodes are kept *)
  assert (Hframe : forall i cn, w_nodes w i = Some cn -> exists cn', w_nodes w' i = Some cn' /\ n_name cn' = n_name cn).
  { intros i cn Hi. destruct (N.eq_dec i h) as [->|NE].
    - rewrite Hn in Hi. injection Hi as <-. eexists. split; [exact Hh|reflexivity].
    - exists cn. split; [|reflexivity]. rewrite Hold; auto. eapply (proj1 Cw); eauto. }
  intros i [Si|Ci].
  - destruct (HS i Si) as (ni & itemsi & Hni & HIi & HOi & Hcl).
    destruct (N.eq_dec i h) as [->|NE].
    + rewrite Hn in Hni. injection Hni as <-. rewrite HI in HIi. injection HIi as <-.
      eexists. exists (ins items (N.to_nat pos) (Some (n_name o))). split; [exact Hh|]. cbn [n_content n_type set_content].
      split; [|split; [exact HOI|]].
      * apply items_of_insert; [apply (items_of_frame w); auto|].
        destruct Hcp as (p & s & HFc & _). inversion HF as [? ? ? nso nc Hso Hc _ _ _ Hname _ _ _ _]; subst.
        rewrite Ho in Hso. injection Hso as <-.
        destruct HR as (nc1 & Hc1 & Hc' & _). rewrite Hc in Hc1. injection Hc1 as <-.
        cbn [item_of]. rewrite Hc'. cbn [n_name set_parent]. rewrite Hname. reflexivity.
      * intros k Hk. apply InvProofsBase.in_elems in Hk. apply InvProofsPrim.elems_insert_in in Hk as [->|Hk]; [right; exact Hcp|].
        left. apply Hcl. apply InvProofsBase.in_elems. exact Hk.
    + exists ni, itemsi. split; [rewrite Hold; auto; eapply (proj1 Cw); eauto|].
      split; [apply (items_of_frame w); auto|]. split; [exact HOi|]. intros k Hk. left. auto.
  - destruct (cp_node S v w w1 w' h c i HS HR NEc Hself Ci) as (ni & itemsi & A & B & C & D).
    exists ni, itemsi. split; [exact A|]. split; [exact B|]. split; [exact C|]. intros k Hk. right. auto.
Qed.

Theorem copy_attach_walk h other n o m v w c w' (S : id -> Prop) :
  Closed w -> w_nodes w h = Some n -> w_nodes w other = Some o ->
  model_of h w = Val (OK m, w) -> min_version LATEST h w = Val (OK v, w) ->
  TypedU T w -> attach_ok T w h other ->
  OrdSet T w v S -> S h -> S other ->
  (exists pos, e_create_copied_sub_element_at T LATEST h other pos w = Val (OK c, w')) \/
  e_create_copied_sub_element T LATEST h other w = Val (OK c, w') ->
  exists S' : id -> Prop, (forall i, S i -> S' i) /\ S' c /\
  Bounded w' /\ TypedU T w' /\ OrdSet T w' v S' /\
  forall fuel i ni lt, S' i -> w_nodes w' i = Some ni -> rel_ok T (snd lt) (snd (n_type ni)) = true -> LoaderWalk T fuel w' v i lt.
Proof.
  intros Cw Hn Ho Hm Hv HT Hok HS Sh So H.
  pose proof (closed_bounded w Cw) as B.
  assert (HBT : Bounded w' /\ TypedU T w').
  { destruct H as [(pos & H)|H]; [eapply copy_at_typed; eauto|eapply copy_typed; eauto]. }
  destruct (HS h Sh) as (n0 & items & Hn0 & HI & HO & _). rewrite Hn in Hn0. injection Hn0 as <-.
  assert (NE : h <> other).
  { intros <-. destruct H as [(pos & H)|H]; [unfold e_create_copied_sub_element_at in H|unfold e_create_copied_sub_element in H];
      rewrite N.eqb_refl in H; discriminate. }
  assert (HW : exists w1, OrdSet T w' v (fun i => S i \/ Cp S (w_next w) v w w1 i) /\ Cp S (w_next w) v w w1 c).
  { destruct H as [(pos & H)|H].
    - rewrite (copy_at_unfold T LATEST h other n o m v pos w NE Hn Ho Hm Hv) in H.
      destruct (calc_element_insert_range T n (n_name o) v w) as [[[[lo hi]|er] w2]| |] eqn:EC; try discriminate.
      pose proof (calc_ro T _ _ _ _ _ _ EC) as ->.
      destruct ((lo <=? pos) && (pos <=? hi)) eqn:EP; [|discriminate].
      apply andb_true_iff in EP as [E1 E2]. apply N.leb_le in E1. apply N.leb_le in E2.
      destruct (range_exact T WF n (n_name o) v w lo hi w items HI HO EC) as (_ & _ & Hhi & Hiff).
      apply (copied_inner_walk h other pos m v w c w' n o items S); auto. apply Hiff; lia.
    - rewrite (copy_default_unfold T LATEST h other n o m v w NE Hn Ho Hm Hv) in H.
      destruct (calc_element_insert_range T n (n_name o) v w) as [[[[lo hi]|er] w2]| |] eqn:EC; try discriminate.
      pose proof (calc_ro T _ _ _ _ _ _ EC) as ->.
      destruct (range_exact T WF n (n_name o) v w lo hi w items HI HO EC) as (_ & Hlh & Hhi & Hiff).
      apply (copied_inner_walk h other hi m v w c w' n o items S); auto. apply Hiff; lia. }
  destruct HW as (w1 & HS' & Hc).
  exists (fun i => S i \/ Cp S (w_next w) v w w1 i).
  split; [intros i Si; left; exact Si|]. split; [right; exact Hc|].
  split; [exact (proj1 HBT)|]. split; [exact (proj2 HBT)|]. split; [exact HS'|].
  intros fuel i ni lt Si Hi HR. exact (loader_walk_of_typed T WF HP w' v _ (proj2 HBT) HS' fuel i ni lt Si Hi HR).
Qed.

End CopyWalk.
