(* Tree/CompatSerLink2.v — end to end for the ACTUAL text of ArxmlFile::serialize: if the v-typed projection of the world the
   serializer leaves behind is a canonical root for v (Xml/RoundTripCanonb.rootcanonb, decidable) and SerCond holds, the returned
   text loads strictly as version v, without warnings, back to that projection. *)
From AV Require Import Base.Bytes Base.Outcome Hash.HashModel Spec.SpecOps Tree.Heap Tree.Ops Tree.Serialize
  Tree.Compat Tree.CompatSpec Tree.CompatBridge Tree.CompatProofs6 Tree.CompatSerLink.
From AV Require Import Xml.Parser Xml.Serializer Xml.RoundTripCanonb.
Open Scope list_scope.
Open Scope N_scope.

Section Text.
Variable T : tables.
Variable tab_el tab_at tab_en : nametab.
Variable check_fn : N -> list N -> res bool.
Variable float_fmt : N -> list N.
Variable float_parse : list N -> option N.
Variable attr_schema_location : N.

Theorem heap_text_loads w f v text w1 t :
  f_serialize T tab_el tab_at tab_en check_fn float_fmt attr_schema_location f w = Val (OK text, w1) ->
  SerCond T w1 f v -> file_tree T w1 f v t ->
  rootcanonb T tab_el tab_at tab_en check_fn float_fmt float_parse v t = true ->
  exists fl st, nth_opt (w_files w1) (N.to_nat f) = Some fl /\
    load true T tab_el tab_at tab_en check_fn float_parse text = Val (Ret t st) /\
    p_warnings st = [] /\ p_version st = v /\ p_standalone st = f_standalone fl.
Proof.
  intros H HC Ht HR.
  destruct (heap_text_is_projection T tab_el tab_at tab_en check_fn float_fmt attr_schema_location w f v text w1 t H HC Ht)
    as (fl & body & Hfl & -> & Hb).
  destruct (canonical_loads T tab_el tab_at tab_en check_fn float_fmt float_parse v t HR) as (body' & Hb' & Hl).
  rewrite Hb in Hb'. injection Hb' as <-.
  destruct (Hl (f_standalone fl)) as (st & L & W & V & S). exists fl, st. auto.
Qed.

(* the content modes agree whenever the stored type and the v-type have the same datatype *)
Lemma content_mode_snd (a b : N * N) : snd a = snd b -> content_mode T a = content_mode T b.
Proof. unfold content_mode. intros ->. reflexivity. Qed.

End Text.
