(* Tree/InvProofsDetFiles.v — C03: the local file sets of detached elements are empty, in every world reached through
   operations outside the Known classes.
     DF w : forall x n, Detached w x -> w_nodes w x = Some n -> n_files n = []      (implies DetFiles w)
   Part 1: the parent/files frame `pfp` (old nodes keep their parent link and their file set, or lose the file set;
   new nodes have none) for every computation of Ops.v that neither re-parents nor assigns file sets. *)
From Coq Require Import PeanoNat Arith.
From AV Require Import Base.Bytes Base.Outcome Hash.HashModel Tree.Heap Tree.Ops Tree.Script Tree.Inv
  Tree.InvProofsBase Tree.InvProofsCore Tree.InvProofsTree Tree.InvProofsPrim Tree.InvProofsCreate
  Tree.InvProofsData Tree.InvProofsRefs Tree.InvProofsRemove Tree.InvProofsMove Tree.InvProofsCopy
  Tree.InvProofsRename Tree.InvProofsFrame Tree.StaleProofs.
Open Scope string_scope.
Open Scope list_scope.
Open Scope N_scope.

Definition DF (w : world) : Prop := forall x n, Detached w x -> w_nodes w x = Some n -> n_files n = [].

Lemma DF_DetFiles w : DF w -> DetFiles w.
Proof. intros H x y n Hd Ha Hn. apply (H y n); auto. unfold Detached in *. eapply top_ancs; eauto. Qed.

Lemma DF_empty : DF empty_world.
Proof. intros x n _ [=]. Qed.

(* ------------------------------------------------------------------ the parent / files frame *)
Definition pfNR (n n' : node) : Prop := n_parent n' = n_parent n /\ (n_files n' = n_files n \/ n_files n' = []).
Definition pfNN (n' : node) : Prop := n_files n' = [].

Lemma pfNR_refl n : pfNR n n. Proof. split; auto. Qed.
Lemma pfNR_trans a b c : pfNR a b -> pfNR b c -> pfNR a c.
Proof. intros (P1 & F1) (P2 & F2). split; [congruence|]. destruct F2 as [F2|F2]; auto. rewrite F2. auto. Qed.
Lemma pfNN_NR a b : pfNN a -> pfNR a b -> pfNN b.
Proof. unfold pfNN. intros Ha (_ & [F|F]); congruence. Qed.

#[export] Hint Resolve pfNR_refl pfNR_trans pfNN_NR : frp.
Notation pframe := (frame pfNR pfNN).
Notation pfp := (frp pfNR pfNN).
Notation pfp_at := (frp_at pfNR pfNN).

Lemma pframe_refl w : pframe w w. Proof. apply frame_refl, pfNR_refl. Qed.
Lemma pframe_trans a b c : pframe a b -> pframe b c -> pframe a c.
Proof. apply frame_trans; [apply pfNR_trans | apply pfNN_NR]. Qed.

Lemma top_pframe w w' : pframe w w' -> forall x t, Top w x t -> Top w' x t.
Proof.
  intros (A1 & A2) x t Ht. induction Ht as [x n Hn Hnp | x n p t Hn Hp Ht IH].
  - destruct (w_nodes w' x) as [n'|] eqn:E; [|exfalso; apply (A1 x); congruence].
    destruct (A2 _ _ E) as [(n0 & Hn0 & (Hp & _))|(Hn0 & _)]; [|congruence].
    assert (n0 = n) as -> by congruence. rewrite <- Hp. eapply T_here; eauto. rewrite Hp. auto.
  - destruct (w_nodes w' x) as [n'|] eqn:E; [|exfalso; apply (A1 x); congruence].
    destruct (A2 _ _ E) as [(n0 & Hn0 & (Hp' & _))|(Hn0 & _)]; [|congruence].
    assert (n0 = n) as -> by congruence. eapply T_up; eauto. congruence.
Qed.

Lemma DF_pframe w w' : Core w -> pframe w w' -> DF w -> DF w'.
Proof.
  intros C F D x n' Hd Hn'. pose proof F as (A1 & A2).
  destruct (A2 _ _ Hn') as [(n & Hn & (Hp & [Hf|Hf]))|(Hn & Hnn)]; auto.
  rewrite Hf. eapply D; eauto.
  assert (Ha : allocated w x) by (eexists; eauto). destruct (c_depth _ C _ Ha) as (h & Hdep).
  destruct (depth_top _ _ _ Hdep) as (t & Ht). pose proof (top_pframe _ _ F _ _ Ht) as Ht'.
  unfold Detached in *. rewrite (top_fun _ _ _ Hd _ Ht'). exact Ht.
Qed.

Ltac pf_leaf := first [ split; [reflexivity | left; reflexivity] | apply pfNR_refl ].
Ltac pf_tac := fr_tac pf_leaf.

Lemma pfp_alloc n : n_files n = [] -> forall w r w', Core w -> alloc n w = Val (r, w') -> pframe w w'.
Proof.
  intros Hf w r w' C H. apply alloc_walloc in H as (_ & ->). apply frame_walloc; [apply pfNR_refl | | exact Hf].
  apply (proj1 (skel_none _ _)). apply core_fresh_none. auto.
Qed.

Section PF.
Variable T : tables.
Variable tab_el tab_en : nametab.
Variable check_fn : N -> list N -> res bool.
Variable LATEST : N.

Lemma pfp_add_identifiable m p e : pfp (add_identifiable m p e).
Proof. unfold add_identifiable. pf_tac. Qed.
Lemma pfp_remove_identifiable m p : pfp (remove_identifiable m p).
Proof. unfold remove_identifiable. pf_tac. Qed.
Lemma pfp_fix_identifiables m a b : pfp (fix_identifiables m a b).
Proof. unfold fix_identifiables. pf_tac. Qed.
Lemma pfp_add_reference_origin m r e : pfp (add_reference_origin m r e).
Proof. unfold add_reference_origin. pf_tac. Qed.
Lemma pfp_fix_reference_origins m a b e : pfp (fix_reference_origins m a b e).
Proof. unfold fix_reference_origins. pf_tac. Qed.
Lemma pfp_remove_reference_origin m r e : pfp (remove_reference_origin m r e).
Proof. unfold remove_reference_origin. pf_tac. Qed.
Hint Resolve pfp_add_identifiable pfp_remove_identifiable pfp_fix_identifiables pfp_add_reference_origin
  pfp_fix_reference_origins pfp_remove_reference_origin : frp.

Lemma pfp_content_insert self pos it : pfp (content_insert self pos it).
Proof. unfold content_insert. pf_tac. Qed.
Hint Resolve pfp_content_insert : frp.

Lemma pfp_raw_set_cdata i v version : pfp (raw_set_character_data T check_fn i v version).
Proof. unfold raw_set_character_data. pf_tac. Qed.
Hint Resolve pfp_raw_set_cdata : frp.

Lemma pfp_raw_set_attribute h attr v version : pfp (raw_set_attribute T check_fn h attr v version).
Proof. unfold raw_set_attribute. pf_tac. Qed.
Hint Resolve pfp_raw_set_attribute : frp.

Lemma pfp_detach_from p c : pfp (detach_from p c).
Proof. unfold detach_from. pf_tac. Qed.
Lemma pfp_move_position self mv pos e : pfp (move_element_position self mv pos e).
Proof. unfold move_element_position. pf_tac. Qed.
Lemma pfp_make_unique i m pp : pfp (make_unique_item_name T i m pp).
Proof. unfold make_unique_item_name. pf_tac. Qed.
Hint Resolve pfp_detach_from pfp_move_position pfp_make_unique : frp.

Lemma pfp_register_subtree f : forall m cur i, pfp (register_subtree T f m cur i).
Proof.
  induction f as [|f IH]; intros m cur i; [intros w r w' H; discriminate|].
  change (register_subtree T (S f) m cur i) with
    (do n <- get_node i;
     do ident <- is_identifiable T n;
     do cur' <- (if ident then
                   do nm <- item_name T n;
                   let p := match nm with Some x => cur ++ [47] ++ x | None => cur end in
                   add_identifiable m p i;; wret p
                 else wret cur);
     do isr <- wl (is_ref T (n_type n));
     (if isr then
        do cd <- wl (character_data T n);
        match cd with Some (DString r) => add_reference_origin m r i | _ => wret tt end
      else wret tt);;
     kloop (fun c => register_subtree T f m cur' c) (n_content n))%W.
  pf_tac. apply frp_kloop; [apply pfNR_refl | apply pfNR_trans | apply pfNN_NR | intros c; apply IH].
Qed.
Hint Resolve pfp_register_subtree : frp.

(* ---------- loops ---------- *)
Lemma pfp_each_loop {A} (body : A -> W unit) l : (forall a, pfp (body a)) -> pfp (each_loop body l).
Proof.
  intros Hb. induction l as [|a l IH]; cbn [each_loop]; pf_tac.
Qed.
Lemma pfp_upd_refs_loop refstr version rl : pfp (upd_refs_loop T check_fn refstr version rl).
Proof. induction rl as [|re rr IH]; cbn [upd_refs_loop]; pf_tac. Qed.
Hint Resolve pfp_upd_refs_loop : frp.
Lemma pfp_move_ref_body m sp dp version orig_ref : pfp (move_ref_body T check_fn m sp dp version orig_ref).
Proof. unfold move_ref_body. pf_tac. Qed.
Lemma pfp_fixid_body m sp dp op : pfp (fixid_body m sp dp op).
Proof. unfold fixid_body. pf_tac. Qed.
Lemma pfp_ow_loop p rl : pfp (ow_loop p rl).
Proof. induction rl as [|re rr IH]; cbn [ow_loop]; pf_tac. Qed.
Hint Resolve pfp_ow_loop : frp.
Lemma pfp_rename_ref_body m op np refpath : pfp (rename_ref_body m op np refpath).
Proof. unfold rename_ref_body. pf_tac. Qed.
Lemma pfp_rm_id_loop m_src l : pfp (rm_id_loop m_src l).
Proof. induction l as [|[p e] l IH]; cbn [rm_id_loop]; pf_tac. Qed.
Lemma pfp_rm_ref_loop m_src l : pfp (rm_ref_loop m_src l).
Proof. induction l as [|[p e] l IH]; cbn [rm_ref_loop]; pf_tac. Qed.
Lemma pfp_add_id_loop m sp dp l : pfp (add_id_loop m sp dp l).
Proof. induction l as [|[p e] l IH]; cbn [add_id_loop]; pf_tac. Qed.
Lemma pfp_add_ref_loop m sp dp version original l : pfp (add_ref_loop T check_fn m sp dp version original l).
Proof. induction l as [|[p e] l IH]; cbn [add_ref_loop]; pf_tac. Qed.

(* ---------- data operations ---------- *)
Lemma pfp_set_comment h c : pfp (e_set_comment h c).
Proof. unfold e_set_comment. pf_tac. Qed.
Lemma pfp_set_attribute h attr v : pfp (e_set_attribute T check_fn LATEST h attr v).
Proof. unfold e_set_attribute. pf_tac. Qed.
Lemma pfp_remove_attribute h attr : pfp (e_remove_attribute T h attr).
Proof. unfold e_remove_attribute. pf_tac. Qed.
Lemma pfp_insert_citem h text pos : pfp (e_insert_character_content_item T h text pos).
Proof. unfold e_insert_character_content_item. pf_tac. Qed.
Lemma pfp_remove_citem h pos : pfp (e_remove_character_content_item T h pos).
Proof. unfold e_remove_character_content_item. pf_tac. Qed.
Lemma pfp_remove_character_data h : pfp (e_remove_character_data T h).
Proof. unfold e_remove_character_data. pf_tac. Qed.
Lemma pfp_set_character_data h v : pfp (e_set_character_data T tab_en check_fn LATEST h v).
Proof. unfold e_set_character_data. pf_tac. Qed.
Lemma pfp_set_reference_target h target : pfp (e_set_reference_target T tab_el tab_en check_fn LATEST h target).
Proof. unfold e_set_reference_target. pf_tac. Qed.

End PF.

#[export] Hint Resolve pfp_add_identifiable pfp_remove_identifiable pfp_fix_identifiables pfp_add_reference_origin
  pfp_fix_reference_origins pfp_remove_reference_origin pfp_content_insert pfp_raw_set_cdata pfp_raw_set_attribute
  pfp_detach_from pfp_move_position pfp_make_unique pfp_register_subtree pfp_upd_refs_loop pfp_ow_loop
  pfp_move_ref_body pfp_fixid_body pfp_rename_ref_body pfp_rm_id_loop pfp_rm_ref_loop pfp_add_id_loop
  pfp_add_ref_loop : frp.
