(* Tree/CompatSpec.v — the INDEPENDENT statement of "the content of file f is valid in version v" (what strict loading of
   the relabelled text decides about version dependent content), and the named classes of states in which the
   implementation's walk is known to look at the wrong table entries.  DEFINITIONS ONLY.

   Types are assigned TOP-DOWN like the strict parser does it (parser.rs find_element_in_spec_checked): the root has
   its own type, a child has the type that ITS PARENT'S v-TYPE lists for its name in version v.  (The implementation's
   recalc_element_type asks the parent's STORED type instead: class K_recalc.) *)
From AV Require Import Base.Bytes Base.Outcome Hash.HashModel Tree.Heap Tree.Ops Tree.Compat.
Open Scope list_scope.
Open Scope N_scope.

Section Spec.
Variable T : tables.
Variable w : world.
Variable f v : N.

(* the element is part of file f: local file membership empty (inherited) or containing f *)
Definition in_file (n : node) : bool := is_empty (n_files n) || set_mem f (n_files n).

(* a value fits a specification in version v as far as versions are concerned: an enumeration needs a listed item whose mask contains v *)
Definition value_valid (d : cdata) (spec : cdspec) : Prop := fst (value_compat d spec v) = true.

(* an attribute: known to the type, mask contains v, value valid *)
Definition attr_valid (ty : N * N) (a : N * cdata) : Prop :=
  exists cd spec req m, find_attribute_spec T ty (fst a) = Val (Some (cd, spec, req, m)) /\
                        compatible v m = true /\ value_valid (snd a) spec.

(* character data of the element itself *)
Definition text_valid (ty : N * N) (it : citem) : Prop :=
  match it with
  | CElem _ => True
  | CData d => forall spec, chardata_spec T ty = Val (Some spec) -> value_valid d spec
  end.

(* node i, seen with type ty, and everything below it that belongs to file f *)
Inductive Valid : N * N -> id -> Prop :=
| Valid_node ty i n :
    w_nodes w i = Some n ->
    Forall (attr_valid ty) (n_attrs n) ->
    Forall (text_valid ty) (n_content n) ->
    (forall c cn, In (CElem c) (n_content n) -> w_nodes w c = Some cn -> in_file cn = true ->
       exists tc ixs, find_sub_element T ty (n_name cn) v = Val (Some (tc, ixs)) /\ Valid tc c) ->
    Valid ty i.

(* the root of the model of file f with its type *)
Definition root_of (r : id) (ty : N * N) : Prop :=
  exists x m n, nth_opt (w_files w) (N.to_nat f) = Some x /\ nth_opt (w_models w) (N.to_nat (f_model x)) = Some m /\
                r = m_root m /\ w_nodes w r = Some n /\ ty = n_type n.

Definition ValidIn : Prop := exists r ty, root_of r ty /\ Valid ty r.

(* the nodes strict validation of file f reaches, with their v-types *)
Inductive Vis : N * N -> id -> Prop :=
| Vis_root r ty : root_of r ty -> Vis ty r
| Vis_child ty i n c cn tc ixs :
    Vis ty i -> w_nodes w i = Some n -> In (CElem c) (n_content n) -> w_nodes w c = Some cn -> in_file cn = true ->
    find_sub_element T ty (n_name cn) v = Val (Some (tc, ixs)) -> Vis tc c.

(* ---- the classes of states in which the implementation is known to consult the wrong table entry (read; none of them
   occurs with the real tables on any generated document: the oracle sweep covers every sub-element of every element
   type whose name has two types) ---- *)
(* K_recalc: recalc_element_type (parent's STORED type) yields the v-type *)
Definition K_recalc : Prop := forall ty i n, Vis ty i -> w_nodes w i = Some n -> recalc_element_type T w n v = Val ty.
(* K_mixup: the version mask USED TO BE read from the element's STORED type with the index list of the recalculated type (fixed in
   element.rs; Tree/Compat.v sub_loop reads it from the recalculated type now).  No longer a side condition of exactness
   (f_check_exact_fixed); kept because NoKnown / the older statements mention it - it still holds in every typed world *)
Definition K_mixup : Prop := forall ty i n c cn ixs, Vis ty i -> w_nodes w i = Some n ->
  In (CElem c) (n_content n) -> w_nodes w c = Some cn -> in_file cn = true ->
  (exists tc, find_sub_element T ty (n_name cn) v = Val (Some (tc, ixs)) \/
              (find_sub_element T ty (n_name cn) v = Val None /\ find_sub_element T ty (n_name cn) U32MAX = Val (Some (tc, ixs)))) ->
  get_sub_element_version_mask T (n_type n) ixs = get_sub_element_version_mask T ty ixs.
(* K_skip: a sub element whose name the v-type does not list in ANY version is skipped silently *)
Definition K_skip : Prop := forall ty i n c cn, Vis ty i -> w_nodes w i = Some n ->
  In (CElem c) (n_content n) -> w_nodes w c = Some cn -> in_file cn = true ->
  find_sub_element T ty (n_name cn) U32MAX <> Val None.

Definition NoKnown : Prop := K_recalc /\ K_mixup /\ K_skip.

(* ---- what strict loading checks in addition and the compatibility check does not look at (confirmed on the real
   library: known findings C17-short-name-required, C17-value-revalidation) ---- *)
(* an element that is identifiable in version v has a SHORT-NAME as its first content item *)
Definition named_ok (ty : N * N) (n : node) : Prop :=
  is_named_in_version T ty v = Val true ->
  exists s sn rest, n_content n = CElem s :: rest /\ w_nodes w s = Some sn /\ n_name sn = name_short_name T.

End Spec.

Definition emask (e : compat_err) : N :=
  match e with CEAttr _ _ m => m | CEAttrValue _ _ m => m | CEElem _ m => m end.
