(* Tree/IndexProofsAttach.v — C04/C05 proofs, layer 2: a fresh subtree (root c) is attached as a new child of an
   existing node `self` at position k; nothing else changes.  Used by create_sub_element (a leaf), create_named_sub_element
   (an element with its SHORT-NAME) and create_copied_sub_element.
     - every old node keeps its segment, identifiability, reference text;
     - top-down paths between old nodes are the same in both worlds;
     - a new node is reached from an old one exactly through self -> c. *)
From Coq Require Import Lia.
From AV Require Import Base.Bytes Base.Outcome Hash.HashModel Tree.Heap Tree.Ops Tree.Script Tree.IndexProofsW
  Tree.Index Tree.IndexProofsBase Tree.IndexProofsFrame Tree.Refs.
Open Scope string_scope.
Open Scope list_scope.
Open Scope N_scope.

Lemma in_insert_at {A} (l : list A) k x y : (k <= List.length l)%nat -> (In y (insert_at l k x) <-> y = x \/ In y l).
Proof.
  revert k. induction l as [|z l IH]; intros [|k] Hk; cbn in *; try lia.
  - split; [intros [->|[]]|intros [->|[]]]; auto.
  - split; [intros [->|H]|intros [->|H]]; auto.
  - rewrite IH by lia. split; [intros [->|[->|H]]|intros [->|[->|H]]]; auto.
Qed.

Lemma elem_ids_insert_at l k c : (k <= List.length l)%nat ->
  forall x, In x (elem_ids (insert_at l k (CElem c))) <-> x = c \/ In x (elem_ids l).
Proof.
  intros Hk x. rewrite !in_elem_ids, in_insert_at by exact Hk. split; [intros [[= ->]|H]; auto|intros [->|H]; auto].
Qed.
Lemma nodup_elem_ids_insert_at l k c : (k <= List.length l)%nat -> ~ In c (elem_ids l) -> NoDup (elem_ids l) ->
  NoDup (elem_ids (insert_at l k (CElem c))).
Proof.
  revert k. induction l as [|z l IH]; intros [|k] Hk Hc Hnd; cbn in *; try lia.
  - constructor; [intros []|constructor].
  - constructor; assumption.
  - destruct z as [y|d]; cbn in *.
    + apply NoDup_cons_iff in Hnd as (Hy & Hnd). constructor.
      * intros Hin. apply (elem_ids_insert_at l k c) in Hin; [|lia]. destruct Hin as [->|Hin]; [apply Hc; left; reflexivity|contradiction].
      * apply IH; [lia|intros H; apply Hc; right; exact H|exact Hnd].
    + apply IH; [lia|exact Hc|exact Hnd].
Qed.

Lemma hd_insert_at {A} (l : list A) k x : k <> O -> l <> [] -> hd_error (insert_at l k x) = hd_error l.
Proof. destruct l as [|z l], k as [|k]; cbn; congruence. Qed.

(* ---------- node-level extensionality of the readings *)
Section Ext.
Variable T : tables.

Lemma short_child_hd w n : short_child T w n =
  match hd_error (n_content n) with
  | Some (CElem s) => match w_nodes w s with
                      | Some sn => if n_name sn =? name_short_name T then Some sn else None
                      | None => None end
  | _ => None
  end.
Proof. unfold short_child. destruct (n_content n) as [|[s|d] r]; reflexivity. Qed.

Lemma readings_ext w w' n n' :
  n_type n' = n_type n -> short_child T w' n' = short_child T w n ->
  item_name_n T w' n' = item_name_n T w n /\ identifiable_n T w' n' = identifiable_n T w n /\ seg_n T w' n' = seg_n T w n.
Proof.
  intros Ht Hs. unfold seg_n, item_name_n, identifiable_n. rewrite Ht, Hs. auto.
Qed.

Lemma cdata_of_ext n n' : n_type n' = n_type n -> n_content n' = n_content n -> cdata_of T n' = cdata_of T n.
Proof. intros Ht Hc. unfold cdata_of, character_data. rewrite Ht, Hc. reflexivity. Qed.

Lemma chars_content_elems l : chars_content l -> elem_ids l = [].
Proof. intros [->|(d & ->)]; reflexivity. Qed.

(* a node whose content is empty *)
Lemma leaf_not_identifiable w n : n_content n = [] -> identifiable_n T w n = false.
Proof. intros H. unfold identifiable_n, short_child. rewrite H. apply andb_false_r. Qed.
Lemma leaf_no_cdata n : n_content n = [] -> cdata_of T n = None.
Proof.
  intros H. unfold cdata_of, character_data. rewrite H. reflexivity.
Qed.

End Ext.

Section Attach.
Variable T : tables.
Variables (w w' : world) (self c : id) (n : node) (k : nat).

Hypothesis HF : TreeFacts w.
Hypothesis H_self : w_nodes w self = Some n.
Hypothesis H_old : forall j nj, w_nodes w j = Some nj -> j <> self -> w_nodes w' j = Some nj.
Hypothesis H_self' : w_nodes w' self = Some (set_content n (insert_at (n_content n) k (CElem c))).
Hypothesis H_c : w_nodes w c = None.
Hypothesis H_newkids : forall p x, child_of w' p x -> w_nodes w p = None -> w_nodes w x = None.
Hypothesis H_k : (k <= List.length (n_content n))%nat.
(* self is not a SHORT-NAME element (they have character content: nothing can be inserted) *)
Hypothesis H_nshort : n_name n <> name_short_name T.
(* nothing is put in front of the SHORT-NAME of an identifiable element, and no SHORT-NAME element becomes the first
   item of an element of a named type *)
Hypothesis H_front : k = O -> identifiable_n T w n = false /\
                     (named T (n_type n) = true -> forall cn, w_nodes w' c = Some cn -> n_name cn <> name_short_name T).

Definition old (j : id) : Prop := exists nj, w_nodes w j = Some nj.

Lemma old_ne_c j : old j -> j <> c.
Proof. intros (nj & Hj) ->. congruence. Qed.

Lemma self_ne_c : self <> c.
Proof. apply old_ne_c. eexists; eauto. Qed.

(* children of old nodes *)
Lemma child_old_fwd p x : child_of w p x -> child_of w' p x.
Proof.
  intros (np & Hp & Hx). destruct (N.eq_dec p self) as [->|Hne].
  - rewrite H_self in Hp. injection Hp as <-. eexists. split; [exact H_self'|]. cbn. apply in_insert_at; auto.
  - exists np. split; [apply H_old; assumption|exact Hx].
Qed.
Lemma child_old_bwd p x : old p -> child_of w' p x -> child_of w p x \/ (p = self /\ x = c).
Proof.
  intros (np & Hp) (np' & Hp' & Hx). destruct (N.eq_dec p self) as [->|Hne].
  - rewrite H_self' in Hp'. injection Hp' as <-. cbn in Hx. apply in_insert_at in Hx; auto.
    destruct Hx as [[= ->]|Hx]; [right; auto|left]. exists n. auto.
  - rewrite (H_old _ _ Hp Hne) in Hp'. injection Hp' as <-. left. exists np. auto.
Qed.
Lemma child_of_old p x : child_of w p x -> old x.
Proof. intros H. destruct (tf_up _ HF _ _ H) as (cn & Hcn & _). eexists; eauto. Qed.

(* the readings of old nodes *)
Lemma short_child_self :
  short_child T w' (set_content n (insert_at (n_content n) k (CElem c))) = short_child T w n
  \/ (k = O /\ identifiable_n T w n = false /\
      identifiable_n T w' (set_content n (insert_at (n_content n) k (CElem c))) = false).
Proof.
  destruct k as [|k'] eqn:Ek.
  - right. destruct (H_front eq_refl) as (Hi & Hn). split; [reflexivity|]. split; [exact Hi|].
    unfold identifiable_n, short_child. cbn [set_content n_type n_content]. destruct (n_content n); cbn [insert_at].
    + destruct (named T (n_type n)) eqn:En; [|reflexivity]. cbn [andb].
      destruct (w_nodes w' c) as [cn|] eqn:Ec; [|reflexivity].
      specialize (Hn eq_refl cn eq_refl). apply N.eqb_neq in Hn. rewrite Hn. reflexivity.
    + destruct (named T (n_type n)) eqn:En; [|reflexivity]. cbn [andb].
      destruct (w_nodes w' c) as [cn|] eqn:Ec; [|reflexivity].
      specialize (Hn eq_refl cn eq_refl). apply N.eqb_neq in Hn. rewrite Hn. reflexivity.
  - left. rewrite !short_child_hd. cbn [set_content n_content].
    destruct (n_content n) as [|it rest] eqn:Ec; [cbn in H_k; lia|].
    rewrite hd_insert_at by congruence. cbn [hd_error]. destruct it as [s|d]; [|reflexivity].
    assert (Hs : child_of w self s) by (exists n; rewrite Ec; split; [exact H_self|left; reflexivity]).
    destruct (child_of_old _ _ Hs) as (sn & Hsn). rewrite Hsn.
    destruct (N.eq_dec s self) as [->|Hne].
    + rewrite H_self' . rewrite H_self in Hsn. injection Hsn as <-. cbn [set_content n_name].
      apply N.eqb_neq in H_nshort. rewrite H_nshort. reflexivity.
    + rewrite (H_old _ _ Hsn Hne). reflexivity.
Qed.

Lemma readings_old j nj :
  w_nodes w j = Some nj ->
  exists nj', w_nodes w' j = Some nj' /\ n_type nj' = n_type nj /\ n_name nj' = n_name nj /\
    item_name_n T w' nj' = item_name_n T w nj /\ identifiable_n T w' nj' = identifiable_n T w nj /\
    seg_n T w' nj' = seg_n T w nj.
Proof.
  intros Hj. destruct (N.eq_dec j self) as [->|Hne].
  - rewrite H_self in Hj. injection Hj as <-. eexists. split; [exact H_self'|]. split; [reflexivity|]. split; [reflexivity|].
    destruct short_child_self as [Hs|(_ & Hi & Hi')].
    + apply readings_ext; [reflexivity|exact Hs].
    + assert (forall ww nn, identifiable_n T ww nn = false -> item_name_n T ww nn = None).
      { intros ww nn H. destruct (item_name_n T ww nn) eqn:E; [|reflexivity]. apply item_name_identifiable in E. congruence. }
      unfold seg_n. rewrite (H _ _ Hi), (H _ _ Hi'), Hi, Hi'. auto.
  - exists nj. split; [apply H_old; assumption|]. split; [reflexivity|]. split; [reflexivity|].
    apply readings_ext; [reflexivity|]. rewrite !short_child_hd.
    destruct (hd_error (n_content nj)) as [[s|d]|] eqn:Eh; try reflexivity.
    assert (Hs : child_of w j s).
    { exists nj. split; [exact Hj|]. destruct (n_content nj); cbn in Eh; [discriminate|]. injection Eh as ->. left. reflexivity. }
    destruct (child_of_old _ _ Hs) as (sn & Hsn). rewrite Hsn.
    destruct (N.eq_dec s self) as [->|Hne2].
    + rewrite H_self'. rewrite H_self in Hsn. injection Hsn as <-. cbn [set_content n_name].
      apply N.eqb_neq in H_nshort. rewrite H_nshort. reflexivity.
    + rewrite (H_old _ _ Hsn Hne2). reflexivity.
Qed.

Lemma seg_old j : old j -> seg T w' j = seg T w j.
Proof. intros (nj & Hj). destruct (readings_old _ _ Hj) as (nj' & Hj' & _ & _ & _ & _ & Hs). unfold seg. rewrite Hj, Hj'. exact Hs. Qed.
Lemma identifiable_old j : old j -> identifiable T w' j = identifiable T w j.
Proof. intros (nj & Hj). destruct (readings_old _ _ Hj) as (nj' & Hj' & _ & _ & _ & Hs & _). unfold identifiable. rewrite Hj, Hj'. exact Hs. Qed.

Lemma ref_text_old j : old j -> (j = self -> isref T (n_type n) = false) -> ref_text T w' j = ref_text T w j.
Proof.
  intros (nj & Hj) Hr. unfold ref_text. rewrite Hj. destruct (N.eq_dec j self) as [->|Hne].
  - rewrite H_self'. rewrite H_self in Hj. injection Hj as <-. cbn [set_content n_type]. rewrite (Hr eq_refl). reflexivity.
  - rewrite (H_old _ _ Hj Hne). reflexivity.
Qed.

(* paths between old nodes *)
Lemma dpath_old_fwd a i q : old a -> dpath T w a i q -> dpath T w' a i q.
Proof.
  intros Ha Hd. apply (dpath_fwd T old w w') in Hd; [tauto| |exact Ha].
  intros p x Hp Hc. split; [apply child_old_fwd; exact Hc|]. split; [eapply child_of_old; eauto|].
  apply seg_old. eapply child_of_old; eauto.
Qed.

Lemma parent_of_old p x : child_of w' p x -> old x -> old p /\ child_of w p x.
Proof.
  intros Hc Hx. destruct (w_nodes w p) as [np|] eqn:Ep.
  - assert (Hp : old p) by (eexists; eauto). split; [exact Hp|].
    destruct (child_old_bwd _ _ Hp Hc) as [H|(-> & ->)]; [exact H|]. exfalso. exact (old_ne_c _ Hx eq_refl).
  - exfalso. destruct Hx as (nx & Hx). rewrite (H_newkids _ _ Hc Ep) in Hx. discriminate.
Qed.

Lemma dpath_old_bwd a i q : dpath T w' a i q -> old i -> dpath T w a i q.
Proof.
  intros Hd Hi. apply (dpath_bwd T old w w') with (a := a) (q := q); auto.
  intros p x Hc Hx. destruct (parent_of_old _ _ Hc Hx) as (Hp & Hc'). split; [exact Hp|]. split; [exact Hc'|].
  symmetry. apply seg_old. exact Hx.
Qed.

(* a new node is reached from an old one only through self -> c *)
Lemma dpath_new a i q :
  old a -> dpath T w' a i q -> ~ old i ->
  exists q1 q2, dpath T w a self q1 /\ dpath T w' c i q2 /\ q = q1 ++ seg T w' c ++ q2.
Proof.
  intros Ha Hd. induction Hd as [|p x q Hp IH Hc]; intros Hi; [contradiction|].
  destruct (w_nodes w p) as [np|] eqn:Ep.
  - assert (Hpo : old p) by (eexists; eauto).
    destruct (child_old_bwd _ _ Hpo Hc) as [H|(-> & ->)].
    + exfalso. apply Hi. eapply child_of_old; eauto.
    + exists q, []. split; [apply dpath_old_bwd; [exact Hp|exact Hpo]|]. split; [constructor|]. rewrite app_nil_r. reflexivity.
  - assert (Hpn : ~ old p) by (intros (? & ?); congruence).
    destruct (IH Hpn) as (q1 & q2 & H1 & H2 & ->). exists q1, (q2 ++ seg T w' x). split; [exact H1|]. split.
    + econstructor; eauto.
    + rewrite <- !app_assoc. reflexivity.
Qed.

Lemma dpath_new_fwd a q1 i q2 :
  old a -> dpath T w a self q1 -> dpath T w' c i q2 -> dpath T w' a i (q1 ++ seg T w' c ++ q2).
Proof.
  intros Ha H1 H2. rewrite app_assoc. eapply dpath_trans; [|exact H2].
  econstructor; [apply dpath_old_fwd; eauto|]. eexists. split; [exact H_self'|]. cbn. apply in_insert_at; auto.
Qed.

(* ---------- model level: the roots are the same *)
Hypothesis H_roots : forall m, option_map m_root (model_at w' m) = option_map m_root (model_at w m).

Lemma root_old m x : model_at w m = Some x -> old (m_root x).
Proof. intros Hx. destruct (tf_roots _ HF _ _ Hx) as (nr & Hr & _). eexists; eauto. Qed.

Lemma model_fwd m x : model_at w m = Some x -> exists x', model_at w' m = Some x' /\ m_root x' = m_root x.
Proof.
  intros Hx. specialize (H_roots m). rewrite Hx in H_roots. destruct (model_at w' m) as [x'|]; [|discriminate].
  exists x'. split; [reflexivity|]. cbn in H_roots. congruence.
Qed.
Lemma model_bwd m x' : model_at w' m = Some x' -> exists x, model_at w m = Some x /\ m_root x' = m_root x.
Proof.
  intros Hx. specialize (H_roots m). rewrite Hx in H_roots. destruct (model_at w m) as [x|]; [|discriminate].
  exists x. split; [reflexivity|]. cbn in H_roots. congruence.
Qed.

Lemma mreach_old m i : old i -> (MReach T w' m i <-> MReach T w m i).
Proof.
  intros Hi. split.
  - intros (x' & Hx' & (q & Hd)). destruct (model_bwd _ _ Hx') as (x & Hx & Hr). exists x. split; [exact Hx|].
    exists q. rewrite Hr in Hd. apply dpath_old_bwd; assumption.
  - intros (x & Hx & (q & Hd)). destruct (model_fwd _ _ Hx) as (x' & Hx' & Hr). exists x'. split; [exact Hx'|].
    exists q. rewrite Hr. apply dpath_old_fwd; [eapply root_old; eauto|exact Hd].
Qed.
Lemma specpath_old m i p : old i -> (SpecPath T w' m i p <-> SpecPath T w m i p).
Proof.
  intros Hi. split.
  - intros (x' & Hx' & (q & Hd & ->)). destruct (model_bwd _ _ Hx') as (x & Hx & Hr). exists x. split; [exact Hx|].
    exists q. rewrite Hr in *. split; [apply dpath_old_bwd; assumption|]. rewrite seg_old; [reflexivity|eapply root_old; eauto].
  - intros (x & Hx & (q & Hd & ->)). destruct (model_fwd _ _ Hx) as (x' & Hx' & Hr). exists x'. split; [exact Hx'|].
    exists q. rewrite Hr. split; [apply dpath_old_fwd; [eapply root_old; eauto|exact Hd]|].
    rewrite seg_old; [reflexivity|eapply root_old; eauto].
Qed.
Lemma pathset_old m p i : old i -> (PathSet T w' m p i <-> PathSet T w m p i).
Proof.
  intros Hi. unfold PathSet. rewrite (mreach_old m i Hi), (identifiable_old i Hi), (specpath_old m i p Hi). tauto.
Qed.
Lemma refset_old m p r : old r -> (r = self -> isref T (n_type n) = false) -> (RefSet T w' m p r <-> RefSet T w m p r).
Proof.
  intros Hi Hr. unfold RefSet. rewrite (mreach_old m r Hi), (ref_text_old r Hi Hr). tauto.
Qed.

(* a new node that is part of model m hangs below c, which hangs below self *)
Lemma mreach_new m i :
  MReach T w' m i -> ~ old i -> MReach T w m self /\ reach T w' c i.
Proof.
  intros (x' & Hx' & (q & Hd)) Hi. destruct (model_bwd _ _ Hx') as (x & Hx & Hr). rewrite Hr in Hd.
  destruct (dpath_new _ _ _ (root_old _ _ Hx) Hd Hi) as (q1 & q2 & H1 & H2 & _).
  split; [exists x; split; [exact Hx|exists q1; exact H1]|exists q2; exact H2].
Qed.
Lemma specpath_new m i p :
  SpecPath T w' m i p -> ~ old i ->
  exists ps q2, SpecPath T w m self ps /\ dpath T w' c i q2 /\ p = ps ++ seg T w' c ++ q2.
Proof.
  intros (x' & Hx' & (q & Hd & ->)) Hi. destruct (model_bwd _ _ Hx') as (x & Hx & Hr). rewrite Hr in *.
  destruct (dpath_new _ _ _ (root_old _ _ Hx) Hd Hi) as (q1 & q2 & H1 & H2 & ->).
  exists (seg T w (m_root x) ++ q1), q2. split; [exists x; split; [exact Hx|exists q1; auto]|]. split; [exact H2|].
  rewrite (seg_old (m_root x)) by (eapply root_old; eauto). rewrite <- app_assoc. reflexivity.
Qed.
Lemma specpath_new_fwd m ps i q2 :
  SpecPath T w m self ps -> dpath T w' c i q2 -> SpecPath T w' m i (ps ++ seg T w' c ++ q2).
Proof.
  intros (x & Hx & (q1 & H1 & ->)) H2. destruct (model_fwd _ _ Hx) as (x' & Hx' & Hr). exists x'. split; [exact Hx'|].
  rewrite Hr. exists (q1 ++ seg T w' c ++ q2). split; [apply dpath_new_fwd; [eapply root_old; eauto|assumption|assumption]|].
  rewrite (seg_old (m_root x)) by (eapply root_old; eauto). rewrite <- app_assoc. reflexivity.
Qed.

(* the side invariants on old nodes *)
Section Side.
Variable check_fn : N -> list N -> res bool.
Lemma allnamed_old j nj' : AllNamed T w -> old j -> w_nodes w' j = Some nj' -> identifiable_n T w' nj' = true -> item_name_n T w' nj' <> None.
Proof.
  intros HA (nj & Hj) Hj' Hi. destruct (readings_old _ _ Hj) as (nj2 & Hj2 & _ & _ & Hn & Hid & _).
  rewrite Hj' in Hj2. injection Hj2 as <-. rewrite Hn. eapply HA; eauto; congruence.
Qed.
Lemma shorttyped_old j nj' : ShortTyped T check_fn w -> old j -> w_nodes w' j = Some nj' -> n_name nj' = SHORTN T -> short_type T check_fn (n_type nj').
Proof.
  intros HA (nj & Hj) Hj' Hi. destruct (readings_old _ _ Hj) as (nj2 & Hj2 & Ht & Hnm & _).
  rewrite Hj' in Hj2. injection Hj2 as <-. rewrite Ht. eapply HA; eauto; congruence.
Qed.
Lemma slashfree_old j nj' s : SlashFree T w -> old j -> w_nodes w' j = Some nj' -> n_name nj' = SHORTN T ->
  cdata_of T nj' = Some (DString s) -> ~ In 47 s.
Proof.
  intros HA (nj & Hj) Hj' Hi Hc. destruct (N.eq_dec j self) as [->|Hne].
  - rewrite H_self' in Hj'. injection Hj' as <-. cbn in Hi. contradiction.
  - rewrite (H_old _ _ Hj Hne) in Hj'. injection Hj' as <-. eapply HA; eauto.
Qed.
Lemma charsleaf_old j nj' : CharsLeaf T w -> content_mode T (n_type n) <> Val MCharacters -> old j -> w_nodes w' j = Some nj' ->
  content_mode T (n_type nj') = Val MCharacters -> chars_content (n_content nj').
Proof.
  intros HA Hm (nj & Hj) Hj' Hc. destruct (N.eq_dec j self) as [->|Hne].
  - rewrite H_self' in Hj'. injection Hj' as <-. cbn in Hc. contradiction.
  - rewrite (H_old _ _ Hj Hne) in Hj'. injection Hj' as <-. eapply HA; eauto.
Qed.
End Side.

(* ====================================================================== a whole subtree is attached
   TreeFacts, Inv04 and Inv05 of the new world from a description of the new part.  The path index and the referrer
   lists of w' are described RELATIVE to the specification side of w (PathSet / RefSet of w for the old elements):
   w itself need not satisfy IndexExact (it may be a virtual world, e.g. the first half of a move). *)
Lemma below_c_new i : reach T w' c i -> ~ old i.
Proof.
  intros (q & Hd). induction Hd as [|p x q Hp IH Hc]; [intros (nj & Hj); congruence|].
  intros (nx & Hx). destruct (w_nodes w p) as [np|] eqn:Ep; [apply IH; eexists; eauto|].
  rewrite (H_newkids _ _ Hc Ep) in Hx. discriminate.
Qed.

Lemma old_parent j nj : w_nodes w j = Some nj -> exists nj', w_nodes w' j = Some nj' /\ n_parent nj' = n_parent nj.
Proof.
  intros Hj. destruct (N.eq_dec j self) as [->|Hne].
  - rewrite H_self in Hj. injection Hj as <-. eexists. split; [exact H_self'|reflexivity].
  - exists nj. split; [apply H_old; assumption|reflexivity].
Qed.
Lemma old_node_back j nj' : old j -> w_nodes w' j = Some nj' ->
  exists nj, w_nodes w j = Some nj /\ n_parent nj' = n_parent nj /\
             (j <> self -> nj' = nj) /\ (j = self -> nj' = set_content n (insert_at (n_content n) k (CElem c))).
Proof.
  intros (nj & Hj) Hj'. exists nj. split; [exact Hj|]. destruct (N.eq_dec j self) as [->|Hne].
  - rewrite H_self' in Hj'. injection Hj' as <-. rewrite H_self in Hj. injection Hj as <-. split; [reflexivity|]. split; [congruence|auto].
  - rewrite (H_old _ _ Hj Hne) in Hj'. injection Hj' as <-. split; [reflexivity|]. split; [auto|congruence].
Qed.
Lemma pdepth_old j h : pdepth w j h -> pdepth w' j h.
Proof.
  induction 1 as [i ni Hi Ht|i ni p h Hi Hp Hd IH]; destruct (old_parent i ni Hi) as (ni' & Hi' & Hpar).
  - eapply pd_top; [exact Hi'|]. rewrite Hpar. exact Ht.
  - eapply pd_step; [exact Hi'|rewrite Hpar; exact Hp|exact IH].
Qed.
Lemma mreach_is_old mm i : MReach T w mm i -> old i.
Proof. intros H. destruct (mreach_alloc T _ _ _ HF H) as (ni & Hi). eexists; eauto. Qed.
Lemma mreach_new_fwd mm i : MReach T w mm self -> reach T w' c i -> MReach T w' mm i.
Proof.
  intros (x & Hx & (q1 & H1)) (q2 & H2). destruct (model_fwd _ _ Hx) as (x' & Hx' & Hr). exists x'. split; [exact Hx'|].
  rewrite Hr. eexists. apply dpath_new_fwd; [eapply root_old; eauto|exact H1|exact H2].
Qed.

Section Subtree.
Hypothesis H_next : w_next w <= w_next w'.
Hypothesis H_cnode : exists cn, w_nodes w' c = Some cn /\ n_parent cn = PElem self.
Hypothesis H_newtree : forall j nj', ~ old j -> w_nodes w' j = Some nj' ->
  NoDup (elem_ids (n_content nj')) /\ j < w_next w' /\ reach T w' c j /\
  (forall y, In (CElem y) (n_content nj') -> exists yn, w_nodes w' y = Some yn /\ n_parent yn = PElem j).

Lemma new_pdepth j : reach T w' c j -> exists h, pdepth w' j h.
Proof.
  intros (q & Hd). induction Hd as [|p y q Hp IH Hc].
  - destruct H_cnode as (cn & Hcn & Hpar). destruct (tf_depth _ HF _ _ H_self) as (h & Hh).
    exists (S h). eapply pd_step; [exact Hcn|exact Hpar|apply pdepth_old; exact Hh].
  - destruct IH as (h & Hh). destruct Hc as (np' & Hp' & Hy).
    assert (Hpn : ~ old p) by (apply below_c_new; exists q; exact Hp).
    destruct (H_newtree p np' Hpn Hp') as (_ & _ & _ & Hk). destruct (Hk y Hy) as (yn & Hyn & Hpar).
    exists (S h). eapply pd_step; eauto.
Qed.

Theorem attach_treefacts : TreeFacts w'.
Proof.
  constructor.
  - (* tf_up *)
    intros p y Hc. destruct (w_nodes w p) as [np|] eqn:Ep.
    + assert (Hpo : old p) by (eexists; eauto). destruct (child_old_bwd _ _ Hpo Hc) as [Hc0|(-> & ->)]; [|exact H_cnode].
      destruct (tf_up _ HF _ _ Hc0) as (yn & Hyn & Hpar). destruct (old_parent y yn Hyn) as (yn' & Hyn' & Hpar').
      exists yn'. split; [exact Hyn'|congruence].
    + destruct Hc as (np' & Hp' & Hy). assert (Hpn : ~ old p) by (intros (? & ?); congruence).
      destruct (H_newtree p np' Hpn Hp') as (_ & _ & _ & Hk). exact (Hk y Hy).
  - (* tf_nodup *)
    intros p np' Hp'. destruct (w_nodes w p) as [np|] eqn:Ep.
    + destruct (old_node_back p np' (ex_intro _ np Ep) Hp') as (np0 & Hp0 & _ & Hne & Heq).
      destruct (N.eq_dec p self) as [->|Hps].
      * rewrite (Heq eq_refl). cbn [set_content n_content]. apply nodup_elem_ids_insert_at; [exact H_k| |eapply tf_nodup; eauto].
        intros Hin. apply in_elem_ids in Hin. assert (Hcc : child_of w self c) by (exists n; auto).
        apply (old_ne_c c (child_of_old _ _ Hcc)). reflexivity.
      * rewrite (Hne Hps). eapply tf_nodup; eauto.
    + assert (Hpn : ~ old p) by (intros (? & ?); congruence). destruct (H_newtree p np' Hpn Hp') as (Hnd & _). exact Hnd.
  - (* tf_down *)
    intros y yn' p Hy Hpar. destruct (w_nodes w y) as [yn|] eqn:Ey.
    + destruct (old_node_back y yn' (ex_intro _ yn Ey) Hy) as (yn0 & Hy0 & Hpar0 & _). apply child_old_fwd.
      eapply tf_down; eauto. congruence.
    + assert (Hyn : ~ old y) by (intros (? & ?); congruence). destruct (H_newtree y yn' Hyn Hy) as (_ & _ & (q & Hd) & _).
      destruct (dpath_alloc T _ _ _ _ Hd) as [->|(p2 & Hc2)].
      * destruct H_cnode as (cn & Hcn & Hcp). assert (p = self) by congruence. subst p.
        eexists. split; [exact H_self'|]. cbn. apply in_insert_at; auto.
      * assert (p2 = p); [|subst p2; exact Hc2].
        destruct (w_nodes w p2) as [np2|] eqn:Ep2.
        -- destruct (child_old_bwd _ _ (ex_intro _ np2 Ep2) Hc2) as [Hc0|(-> & ->)].
           ++ exfalso. apply Hyn. eapply child_of_old; eauto.
           ++ destruct H_cnode as (cn & Hcn & Hcp). congruence.
        -- destruct Hc2 as (np2' & Hp2' & Hin). assert (Hp2n : ~ old p2) by (intros (? & ?); congruence).
           destruct (H_newtree p2 np2' Hp2n Hp2') as (_ & _ & _ & Hk). destruct (Hk y Hin) as (yn2 & Hyn2 & Hpar2). congruence.
  - (* tf_roots *)
    intros mm x' Hx'. destruct (model_bwd _ _ Hx') as (x & Hx & Hr). destruct (tf_roots _ HF _ _ Hx) as (nr & Hnr & Hpar).
    destruct (old_parent _ nr Hnr) as (nr' & Hnr' & Hpar'). exists nr'. rewrite Hr. split; [exact Hnr'|congruence].
  - (* tf_pmodel *)
    intros i ni' mm Hi Hpar. destruct (w_nodes w i) as [ni|] eqn:Ei.
    + destruct (old_node_back i ni' (ex_intro _ ni Ei) Hi) as (ni0 & Hi0 & Hpar0 & _).
      destruct (tf_pmodel _ HF i ni0 mm Hi0) as (x & Hx & Hr); [congruence|].
      destruct (model_fwd _ _ Hx) as (x' & Hx' & Hr'). exists x'. split; [exact Hx'|congruence].
    + exfalso. assert (Hin : ~ old i) by (intros (? & ?); congruence).
      destruct (H_newtree i ni' Hin Hi) as (_ & _ & (q & Hd) & _).
      destruct (dpath_alloc T _ _ _ _ Hd) as [->|(p2 & (np2' & Hp2' & Hin2))].
      * destruct H_cnode as (cn & Hcn & Hcp). congruence.
      * destruct (w_nodes w p2) as [np2|] eqn:Ep2.
        -- destruct (child_old_bwd p2 i (ex_intro _ np2 Ep2) (ex_intro _ np2' (conj Hp2' Hin2))) as [Hc0|(-> & ->)].
           ++ apply Hin. eapply child_of_old; eauto.
           ++ destruct H_cnode as (cn & Hcn & Hcp). congruence.
        -- assert (Hp2n : ~ old p2) by (intros (? & ?); congruence).
           destruct (H_newtree p2 np2' Hp2n Hp2') as (_ & _ & _ & Hk). destruct (Hk i Hin2) as (yn2 & Hyn2 & Hpar2). congruence.
  - (* tf_depth *)
    intros i ni' Hi. destruct (w_nodes w i) as [ni|] eqn:Ei.
    + destruct (tf_depth _ HF _ _ Ei) as (h & Hh). exists h. apply pdepth_old. exact Hh.
    + assert (Hin : ~ old i) by (intros (? & ?); congruence). destruct (H_newtree i ni' Hin Hi) as (_ & _ & Hr & _).
      apply new_pdepth. exact Hr.
  - (* tf_alloc *)
    intros i ni' Hi. destruct (w_nodes w i) as [ni|] eqn:Ei.
    + pose proof (tf_alloc _ HF _ _ Ei). lia.
    + assert (Hin : ~ old i) by (intros (? & ?); congruence). destruct (H_newtree i ni' Hin Hi) as (_ & Hlt & _). exact Hlt.
Qed.
End Subtree.

Section SubtreeInv.
Variable check_fn : N -> list N -> res bool.
Variables (mm : N) (ps : list N).
Hypothesis H_ps : SpecPath T w mm self ps.
Hypothesis HS1 : ShortTyped T check_fn w.
Hypothesis HS2 : SlashFree T w.
Hypothesis HS3 : AllNamed T w.
Hypothesis HS4 : CharsLeaf T w.
Hypothesis H_mode : content_mode T (n_type n) <> Val MCharacters.
Hypothesis H_newside : forall j nj', ~ old j -> w_nodes w' j = Some nj' ->
  (n_name nj' = SHORTN T -> short_type T check_fn (n_type nj')) /\
  (forall s, n_name nj' = SHORTN T -> cdata_of T nj' = Some (DString s) -> ~ In 47 s) /\
  (identifiable_n T w' nj' = true -> item_name_n T w' nj' <> None) /\
  (content_mode T (n_type nj') = Val MCharacters -> chars_content (n_content nj')).
Hypothesis H_exold : forall m2 x2', model_at w' m2 = Some x2' -> forall p i, old i ->
  (assoc_get p (m_idents x2') = Some i <-> PathSet T w m2 p i).
Hypothesis H_exnew : forall m2 x2', model_at w' m2 = Some x2' -> forall p i, ~ old i ->
  (assoc_get p (m_idents x2') = Some i <->
   m2 = mm /\ exists q2, dpath T w' c i q2 /\ identifiable T w' i = true /\ p = ps ++ seg T w' c ++ q2).
Hypothesis H_nd : forall m2 x2', model_at w' m2 = Some x2' -> NoDupKeys (m_idents x2').

Theorem attach_inv04 : Inv04 T check_fn w'.
Proof.
  constructor.
  - intros j nj' Hj Hs. destruct (w_nodes w j) as [nj|] eqn:Ej.
    + eapply shorttyped_old; eauto. eexists; eauto.
    + assert (Hjn : ~ old j) by (intros (? & ?); congruence). destruct (H_newside j nj' Hjn Hj) as (H1 & _). auto.
  - intros j nj' s Hj Hs Hcd. destruct (w_nodes w j) as [nj|] eqn:Ej.
    + eapply slashfree_old; eauto. eexists; eauto.
    + assert (Hjn : ~ old j) by (intros (? & ?); congruence). destruct (H_newside j nj' Hjn Hj) as (_ & H2 & _). eauto.
  - intros j nj' Hj Hid. destruct (w_nodes w j) as [nj|] eqn:Ej.
    + eapply allnamed_old; eauto. eexists; eauto.
    + assert (Hjn : ~ old j) by (intros (? & ?); congruence). destruct (H_newside j nj' Hjn Hj) as (_ & _ & H3 & _). auto.
  - intros j nj' Hj Hm. destruct (w_nodes w j) as [nj|] eqn:Ej.
    + eapply charsleaf_old; eauto. eexists; eauto.
    + assert (Hjn : ~ old j) by (intros (? & ?); congruence). destruct (H_newside j nj' Hjn Hj) as (_ & _ & _ & H4). auto.
  - intros m2 x2' Hx2' p i. destruct (w_nodes w i) as [ni|] eqn:Ei.
    + assert (Hio : old i) by (eexists; eauto). rewrite (H_exold m2 x2' Hx2' p i Hio). symmetry. apply pathset_old. exact Hio.
    + assert (Hin : ~ old i) by (intros (? & ?); congruence). rewrite (H_exnew m2 x2' Hx2' p i Hin). split.
      * intros (-> & q2 & Hd & Hid & ->). pose proof (specpath_new_fwd mm ps i q2 H_ps Hd) as Hsp.
        split; [eapply specpath_mreach; eauto|]. split; [exact Hid|exact Hsp].
      * intros (P1 & P2 & P3). destruct (specpath_new _ _ _ P3 Hin) as (ps' & q2 & Hs' & Hd & ->).
        destruct (specpath_fun T _ _ _ _ _ _ HF Hs' H_ps) as (-> & ->). split; [reflexivity|]. exists q2. auto.
  - intros m2 x2' Hx2'. eapply H_nd; eauto.
Qed.

Hypothesis H_selfref : isref T (n_type n) = false.
Hypothesis H_orold : forall m2 x2', model_at w' m2 = Some x2' -> forall p r, old r ->
  (In r (origins_of x2' p) <-> RefSet T w m2 p r).
Hypothesis H_ornew : forall m2 x2', model_at w' m2 = Some x2' -> forall p r, ~ old r ->
  (In r (origins_of x2' p) <-> m2 = mm /\ reach T w' c r /\ ref_text T w' r = Some p).
Hypothesis H_ornd : forall m2 x2' p, model_at w' m2 = Some x2' -> NoDup (origins_of x2' p).
Hypothesis H_ortidy : forall m2, OriginsTidy w' m2.

Theorem attach_inv05 : Inv05 T w'.
Proof.
  constructor; [|exact H_ortidy].
  intros m2 x2' Hx2' p. split; [eapply H_ornd; eauto|]. intros r. destruct (w_nodes w r) as [nr|] eqn:Er.
  - assert (Hro : old r) by (eexists; eauto). rewrite (H_orold m2 x2' Hx2' p r Hro). symmetry. apply refset_old; [exact Hro|].
    intros _. exact H_selfref.
  - assert (Hrn : ~ old r) by (intros (? & ?); congruence). rewrite (H_ornew m2 x2' Hx2' p r Hrn). unfold RefSet. split.
    + intros (-> & Hr & Ht). split; [|exact Ht]. apply mreach_new_fwd; [eapply specpath_mreach; eauto|exact Hr].
    + intros (Hm & Ht). destruct (mreach_new _ _ Hm Hrn) as (Hms & Hr).
      destruct (mreach_specpath T _ _ _ Hms) as (ps' & Hs'). destruct (specpath_fun T _ _ _ _ _ _ HF Hs' H_ps) as (-> & _). auto.
Qed.
End SubtreeInv.

End Attach.
