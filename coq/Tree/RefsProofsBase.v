(* Tree/RefsProofsBase.v — C05 proofs, layer 0: the reference_origins map as a function path -> list of referrers.
   add / remove / fix on the association list, read back through origins lookup. *)
From Coq Require Import Permutation.
From AV Require Import Base.Bytes Base.Outcome Tree.Heap Tree.Ops Tree.Index Tree.IndexProofsAssoc.
Open Scope list_scope.
Open Scope N_scope.

Definition oget (p : list N) (l : list (list N * list id)) : list id :=
  match assoc_get p l with Some x => x | None => [] end.

Definition Tidy (l : list (list N * list id)) : Prop :=
  NoDupKeys l /\ forall p x, In (p, x) l -> x <> [].

(* the three maintenance functions of autosarmodel.rs on the bare map *)
Definition add_origin (r : list N) (e : id) (l : list (list N * list id)) :=
  match assoc_get r l with
  | Some x => assoc_insert r (x ++ [e]) l
  | None => l ++ [(r, [e])]
  end.
Definition remove_origin (r : list N) (e : id) (l : list (list N * list id)) :=
  match assoc_get r l with
  | Some x => let x' := remove_first e x in
              if is_empty x' then assoc_remove r l else assoc_insert r x' l
  | None => l
  end.

Lemma assoc_insert_new {A} k (a : A) l : assoc_get k l = None -> assoc_insert k a l = l ++ [(k, a)].
Proof.
  induction l as [|[k' a'] l IH]; cbn; [reflexivity|].
  destruct (bytes_eqb k' k); [discriminate|]. intros H. f_equal. auto.
Qed.
Lemma assoc_insert_same {A} k (a : A) l : assoc_get k l = Some a -> assoc_insert k a l = l.
Proof.
  induction l as [|[k' a'] l IH]; cbn; [discriminate|].
  destruct (bytes_eqb k' k) eqn:E.
  - intros [= ->]. reflexivity.
  - intros H. f_equal. auto.
Qed.

Lemma add_origin_insert r e l : add_origin r e l = assoc_insert r (oget r l ++ [e]) l.
Proof.
  unfold add_origin, oget. destruct (assoc_get r l) eqn:E; [reflexivity|]. symmetry. apply assoc_insert_new. exact E.
Qed.

Lemma in_assoc_insert {A} k (a : A) l k2 a2 :
  NoDupKeys l -> (In (k2, a2) (assoc_insert k a l) <-> (k2 = k /\ a2 = a) \/ (k2 <> k /\ In (k2, a2) l)).
Proof.
  intros Hnd. rewrite <- !(assoc_get_iff _ _ _ Hnd). rewrite <- (assoc_get_iff _ _ _ (nodup_insert k a l Hnd)).
  destruct (bytes_dec k2 k) as [->|Hne].
  - rewrite assoc_get_insert_eq. split; [intros [= <-]; auto|intros [(_ & ->)|(H & _)]; [reflexivity|contradiction]].
  - rewrite assoc_get_insert_neq by exact Hne. split; [auto|intros [(H & _)|(_ & H)]; [contradiction|exact H]].
Qed.

Lemma oget_add p r e l : oget p (add_origin r e l) = if bytes_dec p r then oget r l ++ [e] else oget p l.
Proof.
  rewrite add_origin_insert. unfold oget at 1. destruct (bytes_dec p r) as [->|Hne].
  - rewrite assoc_get_insert_eq. reflexivity.
  - rewrite assoc_get_insert_neq by exact Hne. reflexivity.
Qed.
Lemma tidy_add r e l : Tidy l -> Tidy (add_origin r e l).
Proof.
  intros (Hnd & Hne). rewrite add_origin_insert. split; [apply nodup_insert; exact Hnd|].
  intros p x Hin. apply in_assoc_insert in Hin; [|exact Hnd]. destruct Hin as [(_ & ->)|(_ & Hin)]; [|eauto].
  destruct (oget r l); discriminate.
Qed.

(* remove_first on a duplicate-free list *)
Lemma remove_first_spec e (x : list id) :
  NoDup x -> NoDup (remove_first e x) /\ forall y, In y (remove_first e x) <-> In y x /\ y <> e.
Proof.
  intros Hnd. unfold remove_first. destruct (index_of (N.eqb e) x) as [k|] eqn:Ek.
  - apply index_of_split in Ek as (l1 & z & l2 & -> & <- & Hz & _). apply N.eqb_eq in Hz. subst z.
    pose proof (swap_remove_at_perm l1 e l2) as Hp.
    assert (Hnd2 : NoDup (l1 ++ l2)) by (eapply NoDup_remove_1; eauto).
    assert (Hni : ~ In e (l1 ++ l2)) by (eapply NoDup_remove_2; eauto).
    split; [eapply Permutation_NoDup; [symmetry; exact Hp|exact Hnd2]|].
    intros y. split.
    + intros Hy. apply (Permutation_in _ Hp) in Hy. split; [|intros ->; contradiction].
      apply in_app_iff in Hy as [Hy|Hy]; apply in_app_iff; [left|right; right]; exact Hy.
    + intros (Hy & Hne). apply (Permutation_in _ (Permutation_sym Hp)).
      apply in_app_iff in Hy as [Hy|[->|Hy]]; [apply in_app_iff; auto|contradiction|apply in_app_iff; auto].
  - split; [exact Hnd|]. intros y. split; [|tauto]. intros Hy. split; [exact Hy|].
    intros ->. pose proof (index_of_none _ _ Ek _ Hy) as H. rewrite N.eqb_refl in H. discriminate.
Qed.

Lemma is_empty_nil {A} (l : list A) : is_empty l = true <-> l = [].
Proof. destruct l; cbn; split; congruence. Qed.

Lemma oget_remove p r e l : oget p (remove_origin r e l) = if bytes_dec p r then remove_first e (oget r l) else oget p l.
Proof.
  unfold remove_origin, oget. destruct (assoc_get r l) as [x|] eqn:Er.
  - cbn zeta. destruct (is_empty (remove_first e x)) eqn:Ee.
    + apply is_empty_nil in Ee. destruct (bytes_dec p r) as [->|Hne].
      * rewrite assoc_get_remove_eq. symmetry. exact Ee.
      * rewrite assoc_get_remove_neq by exact Hne. reflexivity.
    + destruct (bytes_dec p r) as [->|Hne].
      * rewrite assoc_get_insert_eq. reflexivity.
      * rewrite assoc_get_insert_neq by exact Hne. reflexivity.
  - destruct (bytes_dec p r) as [->|Hne]; [rewrite Er; reflexivity|reflexivity].
Qed.
Lemma tidy_remove r e l : Tidy l -> Tidy (remove_origin r e l).
Proof.
  intros (Hnd & Hne). unfold remove_origin. destruct (assoc_get r l) as [x|] eqn:Er; [|split; assumption].
  cbn zeta. destruct (is_empty (remove_first e x)) eqn:Ee.
  - split; [apply nodup_remove; exact Hnd|]. intros p y Hin. apply in_remove in Hin as (Hin & _). eauto.
  - split; [apply nodup_insert; exact Hnd|]. intros p y Hin. apply in_assoc_insert in Hin; [|exact Hnd].
    destruct Hin as [(_ & ->)|(_ & Hin)]; [|eauto]. intros E. rewrite E in Ee. discriminate.
Qed.

(* fix_reference_origins = remove from the old key, then add under the new key (on a tidy map) *)
Lemma fix_origins_eq old_ref new_ref e l :
  Tidy l ->
  (let o1 := match assoc_get old_ref l with
             | Some x => match index_of (N.eqb e) x with
                         | Some k => let x' := swap_remove_at x k in
                                     if is_empty x' then assoc_remove old_ref l else assoc_insert old_ref x' l
                         | None => l end
             | None => l end in
   match assoc_get new_ref o1 with
   | Some x => assoc_insert new_ref (x ++ [e]) o1
   | None => o1 ++ [(new_ref, [e])]
   end) = add_origin new_ref e (remove_origin old_ref e l).
Proof.
  intros (Hnd & Hne). cbn zeta. unfold add_origin. f_equal.
  all: unfold remove_origin, remove_first; destruct (assoc_get old_ref l) as [x|] eqn:Eo; try reflexivity;
    destruct (index_of (N.eqb e) x) as [k|] eqn:Ek; try reflexivity; cbn zeta;
    (destruct (is_empty x) eqn:Ee; [apply is_empty_nil in Ee; subst x; apply assoc_get_in in Eo; apply Hne in Eo; contradiction|]);
    rewrite (assoc_insert_same _ _ _ Eo); reflexivity.
Qed.

Lemma tidy_oget_nodup_keys l : Tidy l -> NoDupKeys l.
Proof. intros (H & _). exact H. Qed.
